#!/bin/bash
# For every seeded change that touches chain/manager.go: regenerate the control skeleton from the
# changed source (scratch worktree) and report which source-tie modules (Props/*Src.lean) stop
# checking.  The committed Extracted/ChainSkel.lean is restored afterwards.
cd /verif
S=/tmp/skt; rm -rf $S; mkdir -p $S/out
git -C /repo worktree add --detach $S/wt HEAD -q
cp lean/Verif/Extracted/ChainSkel.lean $S/orig.lean; cp lean/Verif/Extracted/DBSkel.lean $S/origdb.lean
for d in /verif/seeded/*; do
  id=$(basename $d)
  grep -q "chain/manager.go\|chain/db.go" $d/patch.diff 2>/dev/null || continue
  git -C $S/wt checkout -q -- .
  if ! git -C $S/wt apply $d/patch.diff 2>/dev/null; then echo "$id patch-does-not-apply"; continue; fi
  ./harness/bin/vh srcfacts -repo $S/wt -out $S/out >/dev/null 2>&1
  if cmp -s $S/out/ChainSkel.lean $S/orig.lean && cmp -s $S/out/DBSkel.lean $S/origdb.lean; then echo "$id skeleton-unchanged"; continue; fi
  cp $S/out/ChainSkel.lean lean/Verif/Extracted/ChainSkel.lean; cp $S/out/DBSkel.lean lean/Verif/Extracted/DBSkel.lean
  r=""
  for m in C01Src C03Src C04Src C19Src C17Src; do
    if ! (cd lean && lake build Verif.Props.$m >$S/b.log 2>&1); then
      r="$r $m($(grep -o 'Verif/Props/[A-Za-z0-9]*.lean:[0-9]*' $S/b.log | sort -u | sed 's/.*://' | tr '\n' ',' ))"
    fi
  done
  echo "$id skeleton-changed broken:[$r ]"
done
cp $S/orig.lean lean/Verif/Extracted/ChainSkel.lean; cp $S/origdb.lean lean/Verif/Extracted/DBSkel.lean
git -C /repo worktree remove --force $S/wt
(cd lean && lake build Verif.Props.C01Src Verif.Props.C03Src Verif.Props.C04Src Verif.Props.C19Src Verif.Props.C17Src 2>&1 | tail -1)
rm -rf $S
