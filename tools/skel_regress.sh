#!/bin/bash
# For every seeded change that touches chain/manager.go or chain/db.go: regenerate the control
# skeletons from the changed source (scratch worktree, scratch output directory) and report which
# source-tie modules (Props/*Src.lean) stop checking against them.  Nothing in /verif is modified:
# each module is checked as ONE scratch file = regenerated skeletons + the module's own text.
cd /verif
S=$(mktemp -d /tmp/skt.XXXXXX); mkdir -p $S/out $S/orig
git -C /repo worktree add --detach $S/wt HEAD -q
./harness/bin/vh srcfacts -repo /repo -out $S/orig >/dev/null 2>&1
strip() { grep -v '^import ' "$1"; }
for d in /verif/seeded/* ${EXTRA_DIRS}; do
  id=$(basename $d)
  [ $# -gt 0 ] && { m=0; for p in "$@"; do case $id in $p*) m=1;; esac; done; [ $m = 1 ] || continue; }
  grep -q "chain/manager.go\|chain/db.go" $d/patch.diff 2>/dev/null || continue
  git -C $S/wt checkout -q -- .
  if ! git -C $S/wt apply $d/patch.diff 2>/dev/null; then echo "$id patch-does-not-apply"; continue; fi
  ./harness/bin/vh srcfacts -repo $S/wt -out $S/out >/dev/null 2>&1
  if cmp -s $S/out/ChainSkel.lean $S/orig/ChainSkel.lean && cmp -s $S/out/DBSkel.lean $S/orig/DBSkel.lean; then echo "$id skeleton-unchanged"; continue; fi
  r=""
  for m in C01Src C03Src C04Src C05Src C19Src C17Src; do
    { echo "import Verif.Lemmas.SkelTok"; echo "import Verif.Lemmas.LockTab"; strip $S/out/ChainSkel.lean; strip $S/out/DBSkel.lean; strip lean/Verif/Props/$m.lean; } > $S/X_$m.lean
    if ! (cd lean && lake env lean $S/X_$m.lean >$S/b.log 2>&1); then
      r="$r $m($(grep -c 'error' $S/b.log) errors)"
    fi
  done
  echo "$id skeleton-changed broken:[$r ]"
done
git -C /repo worktree remove --force $S/wt
rm -rf $S
