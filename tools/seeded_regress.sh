#!/bin/bash
# Re-screens every recorded seeded change (seeded/<id>/patch.diff) against the check of its property:
# the patch is applied in a scratch git worktree of /repo HEAD (never in /repo itself), a private copy
# of the harness is built against that worktree, the quick tier (seed 1) is run with the model driver
# of /verif, and the verdict is printed:  <id> <property> caught-by-oracle | caught-by-correspondence |
# crash | MISSED | patch-does-not-apply.   Usage: tools/seeded_regress.sh [id-prefix ...]
export GOFLAGS=-mod=mod GOPROXY=off
ROOT=$(cd "$(dirname "$0")/.." && pwd)
SCR=$(mktemp -d /tmp/seedreg.XXXXXX)
trap 'git -C /repo worktree prune; rm -rf "$SCR"' EXIT
DRV=$ROOT/lean/.lake/build/bin/drv
SEEDED=${SEEDED_DIR:-$ROOT/seeded}
for d in "$SEEDED"/*/; do
  id=$(basename "$d")
  if [ $# -gt 0 ]; then m=0; for p in "$@"; do case $id in $p*) m=1;; esac; done; [ $m = 1 ] || continue; fi
  prop=$(python3 -c "import json,sys; print(json.load(open('$d/meta.json'))['property'].split()[0])")
  [ -n "$ALT_PROP" ] && prop=$ALT_PROP
  wt=$SCR/repo-$id; h=$SCR/h-$id
  git -C /repo worktree add -q --detach "$wt" HEAD || { echo "$id $prop worktree-failed"; continue; }
  if ! (cd "$wt" && git apply "$d/patch.diff" 2>/dev/null); then
    echo "$id $prop patch-does-not-apply"; git -C /repo worktree remove --force "$wt"; continue
  fi
  mkdir -p "$h"; cp -r "$ROOT/harness/." "$h/"; rm -rf "$h/bin"
  sed -i "s#=> /repo#=> $wt#" "$h/go.mod"
  if ! (cd "$h" && go build -tags verif -o bin/vh ./cmd/vh) >"$SCR/build-$id.log" 2>&1; then
    echo "$id $prop harness-does-not-build (API changed by the patch)"; git -C /repo worktree remove --force "$wt"; rm -rf "$h"; continue
  fi
  (cd "$h" && timeout 900 ./bin/vh "$prop" -tier quick -seed "${VERIF_SEED:-1}" -drv "$DRV" -out "$SCR/out-$id" >"$SCR/run-$id.log" 2>&1); rc=$?
  if grep -aq "^VIOLATION" "$SCR/run-$id.log"; then
    if grep -a "^VIOLATION" "$SCR/run-$id.log" | grep -avq "no-failing-input-found"; then v="caught-by-oracle"; else v="caught-by-correspondence"; fi
    cls=$(grep -a "oracle\[" "$SCR/run-$id.log" | sed 's/.*oracle\[\([^]]*\)\].*/\1/' | sort | uniq -c | sort -rn | head -3 | awk '{printf "%s ", $2}')
  elif [ $rc -ne 0 ] && [ $rc -ne 1 ]; then v="crash(exit=$rc)"; cls=$(grep -a "fatal error\|panic:" "$SCR/run-$id.log" | head -1 | cut -c1-80)
  else v="MISSED"; cls=""; fi
  echo "$id $prop $v $cls"
  git -C /repo worktree remove --force "$wt"; rm -rf "$h"
done
