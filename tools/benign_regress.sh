#!/bin/bash
# False-alarm screening: applies each behaviour-preserving patch (<dir>/patch.diff) to /repo ITSELF
# (nothing else may be using /repo), runs the full quick check (proof obligations over regenerated
# facts + correspondence + oracles) of every property whose anchored files the patch touches, and
# restores /repo.  Prints one line per (patch, property): quiet | ALARM <first VIOLATION line>.
# Usage: tools/benign_regress.sh <dir>...
cd /verif
props_for() {
  local f="$1" out=""
  grep -q "chain/manager.go" $f && out="$out C01 C02 C03 C04 C05 C13 C14 C19"
  grep -q "a/chain/db.go\|a/db.go" $f && out="$out C01 C02 C03 C04 C17 C19"
  grep -q "a/syncer/" $f && out="$out C11 C12 C18"
  grep -q "a/wallet/" $f && out="$out C06 C07 C20"
  grep -q "rhp/v4/server.go\|testutil/host.go" $f && out="$out C08 C09 C15 C16"
  grep -q "rhp/v4/rpc.go" $f && out="$out C10 C16"
  grep -q "a/miner.go" $f && out="$out C05"
  grep -q "a/threadgroup/" $f && out="$out C18"
  echo $out | tr ' ' '\n' | sort -u | tr '\n' ' '
}
for d in "$@"; do
  [ -f $d/patch.diff ] || continue
  if [ -n "$(git -C /repo status --short)" ]; then echo "/repo is not clean"; exit 2; fi
  if ! git -C /repo apply $d/patch.diff 2>/dev/null; then echo "$d patch-does-not-apply"; continue; fi
  for p in $(props_for $d/patch.diff); do
    out=$(VERIF_SEED=${VERIF_SEED:-1} ./check $p quick 2>&1); rc=$?
    if [ $rc -ne 0 ] || echo "$out" | grep -q "^VIOLATION"; then
      echo "$d $p ALARM $(echo "$out" | grep -a "^VIOLATION\|proof\[" | head -3 | tr '\n' ' ' | cut -c1-400)"
    else
      echo "$d $p quiet"
    fi
  done
  git -C /repo checkout -- .
done
# leave the regenerated facts and binaries in step with the restored tree
./check setup >/dev/null 2>&1
