/-
Model driver: `drv` reads `#case <model> <variant…>` lines followed by operation
lines on stdin and prints one line per operation.  Core-only (no Mathlib) so it
links as a native executable.
-/
import Verif.Drv.Runner
import Verif.Drv.Conc
import Verif.Drv.WalletLedger
import Verif.Drv.Sync
import Verif.Drv.RhpClient
import Verif.Drv.Rhp
import Verif.Drv.Formation
import Verif.Drv.Funding
import Verif.Drv.KV
import Verif.Drv.Chain
import Verif.Drv.Elements
import Verif.Drv.Pool
import Verif.Drv.Seed
import Verif.Drv.Listeners

open Verif.Drv

def registry : List (String × List (String × Model)) := [
  ("conc", concModels),
  ("sync", syncModels),
  ("c10", c10Models),
  ("rhp", rhpModels),
  ("c16", c16Models),
  ("kv", kvModels),
  ("chain", chainModels),
  ("elements", elementsModels),
  ("pool", poolModels),
  ("seed", seedModels),
  ("funding", fundingModels),
  ("ledger", ledgerModels),
  ("listeners", listenersModels)
]

def findModel (ws : List String) : Option (Model × List String) :=
  match ws with
  | fam :: var :: rest => do
      let ms ← registry.lookup fam
      let m ← ms.lookup var
      some (m, rest)
  | _ => none

/-- run one case; returns the next `#case` line, or `none` at end of input -/
partial def runCase (h : IO.FS.Stream) (out : IO.FS.Stream) (M : Model) (s : M.σ) : IO (Option String) := do
  let line ← h.getLine
  if line.isEmpty then return none
  let line := line.trimAsciiEnd.toString
  if line.startsWith "#case" then return some line
  let (s', o) := M.step s (words line)
  out.putStrLn o
  runCase h out M s'

partial def skipCase (h : IO.FS.Stream) (out : IO.FS.Stream) : IO (Option String) := do
  let line ← h.getLine
  if line.isEmpty then return none
  let line := line.trimAsciiEnd.toString
  if line.startsWith "#case" then return some line
  out.putStrLn "no-model"
  skipCase h out

partial def cases (h out : IO.FS.Stream) (hdr : String) : IO Unit := do
  out.putStrLn "#case"
  let next ← match findModel ((words hdr).drop 1) with
    | none => skipCase h out
    | some (M, args) => match M.init args with
      | none => skipCase h out
      | some s => runCase h out M s
  match next with
  | none => return ()
  | some hdr' => cases h out hdr'

partial def seek (h : IO.FS.Stream) : IO (Option String) := do
  let line ← h.getLine
  if line.isEmpty then return none
  if line.startsWith "#case" then return some line.trimAsciiEnd.toString
  seek h

def main : IO Unit := do
  let h ← IO.getStdin
  let out ← IO.getStdout
  match ← seek h with
  | none => return ()
  | some hdr => cases h out hdr
  out.flush
