-- Root of the `Verif` library: models, lemmas and property theorems.
import Verif.Model.KV
import Verif.Lemmas.KV
import Verif.Props.C17
