-- Root of the `Verif` library: models, lemmas and property theorems.
import Verif.Model.KV
import Verif.Lemmas.KV
import Verif.Lemmas.KVCache
import Verif.Props.C17
import Verif.Model.Seed
import Verif.Lemmas.Seed
import Verif.Lemmas.SeedWordlist
import Verif.Props.C20
import Verif.Model.Chain
import Verif.Lemmas.Chain
import Verif.Props.C01
import Verif.Lemmas.Updates
import Verif.Lemmas.Prune
import Verif.Props.C19
import Verif.Props.C04
