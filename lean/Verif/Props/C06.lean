/-
C06 — the wallet's ledger equals the chain's truth for its address across reorgs.

Property theorems only.  The model is `Verif/Model/WalletLedger.lean` (a transcription of
`/repo/wallet/update.go` with the accounting of `events.go`), helper lemmas are in
`Verif/Lemmas/WalletLedger.lean`.  Consensus is a parameter: a `Block` carries the element
diffs and the block contents the code reads, and the theorems assume of them what consensus
guarantees (`ValidOn`: the block's parent is the tip, what it creates is new, what it spends
is there; `LedgerValidOn`: the same for every address) — never anything about the wallet.
Which update paths occur (an apply extends the chain the store is at, a revert removes its last
block) is what `Manager.UpdatesSince` delivers (C04); `Path` is that shape.
-/
import Verif.Lemmas.WalletLedger

namespace Verif.C06
open Verif.WalletLedger

/-- **store_follows_updates.** Whatever reorg history produced the update stream and however it is
cut into chunks (also chunks that end on a revert): after processing it, the store — tip,
unspent outputs with their proofs, events — is exactly the store obtained by following the
chain it ended on from nothing. -/
theorem store_follows_updates (Good : List Block → Prop) (hG : ∀ c, Good c → ChainValid Store.init c)
    (c : List Block) (hc : ChainValid Store.init c) (chunks : List (List Upd)) (c' : List Block)
    (hp : Path Good c chunks.flatten c') :
    chunks.foldl (fun s ch => s.run ch) (follow c) = follow c' := by
  rw [run_chunks]
  exact (run_follows Good hG c _ c' hp hc).1

/-- chunk boundaries do not matter -/
theorem chunking_irrelevant (s : Store) (chunks : List (List Upd)) :
    chunks.foldl (fun s ch => s.run ch) s = s.run chunks.flatten := run_chunks s chunks

/-- **events_exact.** The event list is exactly the events of the blocks of the chain, in order. -/
theorem events_exact (c : List Block) : (follow c).events = c.flatMap appliedEvents := follow_events c

/-- every event carries the index of the block it came from … -/
theorem event_index (b : Block) : ∀ e ∈ appliedEvents b, e.idx = b.idx := appliedEvents_idx b

/-- **revert_removes_exactly_index.** … and a revert drops exactly the events with the reverted
index; reverting the last block of a chain gives back the store of the chain without it
(nothing of the reverted block is left, nothing else is lost). -/
theorem revert_removes_exactly_index (s : Store) (b : Block) :
    (s.revert b).events = s.events.filter fun e => e.idx != b.idx := rfl

theorem revert_last_block (c : List Block) (b : Block) (hc : ChainValid Store.init (c ++ [b])) :
    (follow (c ++ [b])).revert b = follow c := by
  have hv := (chainValid_snoc c b).mp hc
  rw [follow_snoc, revert_apply _ _ (synced_follow c) hv.2]

/-- **utxos_exact.** The stored unspent outputs are exactly the unspent siacoin elements of the
chain that pay the wallet's address, with the value and maturity height the diffs gave them. -/
theorem utxos_exact (c : List Block) (hv : LedgerChainValid (fun _ => none) c) (id : Nat) :
    ((follow c).utxos id).map (fun u => (u.value, u.maturity)) =
      match ledgerOf c id with
      | some e => if e.own then some (e.value, e.maturity) else none
      | none => none :=
  stored_eq_view c hv id

/-- **proofs_current.** Every stored Merkle proof is the one for the accumulator of the tip. -/
theorem proofs_current (c : List Block) : ∀ id u, (follow c).utxos id = some u → u.basis = (follow c).tip :=
  synced_follow c

/-- **balance_of_accounted.** (step towards `balance_eq`) Sum of inflows minus sum of outflows equals the sum of the unspent
outputs, for every chain whose blocks' events account for their own diffs (`Accounted`).
`ids` is any duplicate-free list naming the outputs the chain ever gave to or took from the
wallet (the sum over the store's finite map is taken over it). -/
theorem balance_of_accounted (c : List Block) (hc : ChainValid Store.init c) (ids : List Nat) (hn : ids.Nodup)
    (hb : ∀ b ∈ c, Accounted b ∧ (∀ e ∈ ownCreated b.diffs, e.id ∈ ids) ∧ (∀ e ∈ ownSpent b.diffs, e.id ∈ ids)) :
    netIn (follow c).events = netOut (follow c).events + total (follow c) ids :=
  balance_chain ids hn c Store.init hc hb (by rw [total_init]; rfl)

/-- **accounted.** The events `appliedEvents` emits for a block — miner payouts, v1/v2 transactions
with their siafund claims, v1 contract resolutions (valid or missed), v2 contract resolutions
(storage proof, expiration, renewal), foundation subsidy, through the relevance filters and
`addEvent`'s "inflow = outflow → no event" — record in total exactly what the block's diffs
create for and spend from the wallet, for every block whose contents and diffs are coherent
(`BlockCoherent`, a statement about consensus: what the block's contents pay to / take from an
address is that address's share of the created / spent elements, and a v1 input's unlock hash is
the address of the element it spends). -/
theorem accounted (b : Block) (h : BlockCoherent b) : Accounted b := accounted_of_coherent b h

/-- **balance_eq** (the former TARGET `C06_balance_full`). For every chain of coherent blocks:
sum of inflows − sum of outflows = sum of the unspent outputs. -/
theorem balance_eq (c : List Block) (ids : List Nat) (hc : ChainValid Store.init c) (hn : ids.Nodup)
    (hb : ∀ b ∈ c, BlockCoherent b ∧ (∀ e ∈ ownCreated b.diffs, e.id ∈ ids) ∧ (∀ e ∈ ownSpent b.diffs, e.id ∈ ids)) :
    netIn (follow c).events = netOut (follow c).events + total (follow c) ids :=
  balance_of_accounted c hc ids hn (fun b hbc => ⟨accounted b (hb b hbc).1, (hb b hbc).2⟩)

def C06_balance_full : Prop :=
  ∀ (c : List Block) (ids : List Nat), ChainValid Store.init c → ids.Nodup →
    (∀ b ∈ c, BlockCoherent b ∧ (∀ e ∈ ownCreated b.diffs, e.id ∈ ids) ∧ (∀ e ∈ ownSpent b.diffs, e.id ∈ ids)) →
    netIn (follow c).events = netOut (follow c).events + total (follow c) ids

theorem balance_full : C06_balance_full := fun c ids hc hn hb => balance_eq c ids hc hn hb

/-- **balance_reachable.** The balance equation holds in EVERY store the wallet can reach: start
from the store of any chain of the block tree, process any update path of the shape
`UpdatesSince` delivers (any reorg history) cut into any chunks (also chunks ending on a
revert); no per-block hypothesis about the wallet is left — `Good` (the root paths of the block tree, closed under
removing the last block) only says that the chains of the tree consist of blocks that are valid on their predecessors and coherent (consensus), and
`ids` names the outputs the tree ever gives to or takes from the wallet. -/
theorem balance_reachable (Good : List Block → Prop) (ids : List Nat) (hn : ids.Nodup)
    (hG : ∀ c, Good c → ChainValid Store.init c ∧
      ∀ b ∈ c, BlockCoherent b ∧ (∀ e ∈ ownCreated b.diffs, e.id ∈ ids) ∧ (∀ e ∈ ownSpent b.diffs, e.id ∈ ids))
    (hpre : ∀ c b, Good (c ++ [b]) → Good c)
    (c : List Block) (hc : Good c) (chunks : List (List Upd)) (c' : List Block)
    (hp : Path Good c chunks.flatten c') :
    let s := chunks.foldl (fun s ch => s.run ch) (follow c)
    netIn s.events = netOut s.events + total s ids := by
  have hrun := store_follows_updates Good (fun c h => (hG c h).1) c (hG c hc).1 chunks c' hp
  simp only [hrun]
  -- the chain the path ends on is `c` itself or was introduced by an apply, hence Good
  have hgood : Good c' := by
    clear hrun
    generalize chunks.flatten = us at hp
    induction hp with
    | nil c => exact hc
    | apply c b us c' hg _ ih => exact ih hg
    | revert c b us c' _ ih => exact ih (hpre c b hc)
  exact balance_eq c' ids (hG c' hgood).1 hn (hG c' hgood).2

/-! ### non-vacuity: a concrete reorg -/

/-- genesis pays the wallet 100 -/
private def b1 : Block :=
  ⟨1, 0, 0, [⟨⟨1, 100, 0, true⟩, true, false⟩], [⟨10, false, [], [(100, true)], []⟩], [], [], [], 90⟩
/-- the wallet mines a block: payout 50 maturing at height 5 -/
private def b2 : Block := ⟨2, 1, 1, [⟨⟨2, 50, 5, true⟩, true, false⟩], [], [], [], [(true, 2)], 91⟩
/-- a v2 transaction spends output 1: 60 back to the wallet, 40 to someone else -/
private def b3 : Block :=
  ⟨3, 2, 2, [⟨⟨1, 100, 0, true⟩, false, true⟩, ⟨⟨3, 60, 0, true⟩, true, false⟩, ⟨⟨4, 40, 0, false⟩, true, false⟩],
    [⟨11, true, [⟨1, 100, true⟩], [(60, true), (40, false)], []⟩], [], [], [(false, 5)], 92⟩
/-- the competing block at the same height: a siafund claim of 7 paid to the wallet by a
transaction without a siacoin side (the case the pinned code had no event for) -/
private def b3' : Block :=
  ⟨4, 2, 2, [⟨⟨6, 7, 6, true⟩, true, false⟩], [⟨12, false, [], [], [⟨true, 6⟩]⟩], [], [], [(false, 7)], 93⟩

example : ((follow [b1, b2, b3]).run [.revert b3, .apply b3']).events = (follow [b1, b2, b3']).events := by decide
example : (follow [b1, b2, b3']).events.map (fun e => (e.id, e.idx, e.inflow, e.outflow, e.maturity)) =
    [(10, 1, 100, 0, 0), (2, 2, 50, 0, 5), (6, 4, 7, 0, 6)] := by decide
example : [1, 2, 3, 6].map ((follow [b1, b2, b3]).run [.revert b3, .apply b3']).utxos =
    [some ⟨100, 0, 4⟩, some ⟨50, 5, 4⟩, none, some ⟨7, 6, 4⟩] := by decide
example : Accounted b1 ∧ Accounted b2 ∧ Accounted b3 ∧ Accounted b3' := by decide
example : BlockCoherent b1 ∧ BlockCoherent b2 ∧ BlockCoherent b3 ∧ BlockCoherent b3' := by decide
example : netIn (follow [b1, b2, b3]).events = netOut (follow [b1, b2, b3]).events + total (follow [b1, b2, b3]) [1, 2, 3] := by decide
example : ValidOn (follow [b1, b2]) b3 := by
  refine ⟨rfl, ?_, ?_, by decide, by decide, by decide⟩ <;> decide

end Verif.C06
