/-
C06 — the wallet's ledger equals the chain's truth for its address across reorgs.

Property theorems only.  The model is `Verif/Model/WalletLedger.lean` (a transcription of
`/repo/wallet/update.go` with the accounting of `events.go`), helper lemmas are in
`Verif/Lemmas/WalletLedger.lean`.  Consensus is a parameter: a `Block` carries the element
diffs and the block contents the code reads, and the theorems assume of them what consensus
guarantees (`ValidOn`: the block's parent is the tip, what it creates is new, what it spends
is there; `LedgerValidOn`: the same for every address) — never anything about the wallet.
Which update paths occur (an apply extends the chain the store is at, a revert removes its last
block) is what `Manager.UpdatesSince` delivers (C04); `Path` is that shape.
-/
import Verif.Lemmas.WalletLedger

namespace Verif.C06
open Verif.WalletLedger

/-- **store_follows_updates.** Whatever reorg history produced the update stream and however it is
cut into chunks (also chunks that end on a revert): after processing it, the store — tip,
unspent outputs with their proofs, events — is exactly the store obtained by following the
chain it ended on from nothing. -/
theorem store_follows_updates (Good : List Block → Prop) (hG : ∀ c, Good c → ChainValid Store.init c)
    (c : List Block) (hc : ChainValid Store.init c) (chunks : List (List Upd)) (c' : List Block)
    (hp : Path Good c chunks.flatten c') :
    chunks.foldl (fun s ch => s.run ch) (follow c) = follow c' := by
  rw [run_chunks]
  exact (run_follows Good hG c _ c' hp hc).1

/-- chunk boundaries do not matter -/
theorem chunking_irrelevant (s : Store) (chunks : List (List Upd)) :
    chunks.foldl (fun s ch => s.run ch) s = s.run chunks.flatten := run_chunks s chunks

/-- **events_exact.** The event list is exactly the events of the blocks of the chain, in order. -/
theorem events_exact (c : List Block) : (follow c).events = c.flatMap appliedEvents := follow_events c

/-- every event carries the index of the block it came from … -/
theorem event_index (b : Block) : ∀ e ∈ appliedEvents b, e.idx = b.idx := appliedEvents_idx b

/-- **revert_removes_exactly_index.** … and a revert drops exactly the events with the reverted
index; reverting the last block of a chain gives back the store of the chain without it
(nothing of the reverted block is left, nothing else is lost). -/
theorem revert_removes_exactly_index (s : Store) (b : Block) :
    (s.revert b).events = s.events.filter fun e => e.idx != b.idx := rfl

theorem revert_last_block (c : List Block) (b : Block) (hc : ChainValid Store.init (c ++ [b])) :
    (follow (c ++ [b])).revert b = follow c := by
  have hv := (chainValid_snoc c b).mp hc
  rw [follow_snoc, revert_apply _ _ (synced_follow c) hv.2]

/-- **utxos_exact.** The stored unspent outputs are exactly the unspent siacoin elements of the
chain that pay the wallet's address, with the value and maturity height the diffs gave them. -/
theorem utxos_exact (c : List Block) (hv : LedgerChainValid (fun _ => none) c) (id : Nat) :
    ((follow c).utxos id).map (fun u => (u.value, u.maturity)) =
      match ledgerOf c id with
      | some e => if e.own then some (e.value, e.maturity) else none
      | none => none :=
  stored_eq_view c hv id

/-- **proofs_current.** Every stored Merkle proof is the one for the accumulator of the tip. -/
theorem proofs_current (c : List Block) : ∀ id u, (follow c).utxos id = some u → u.basis = (follow c).tip :=
  synced_follow c

/-- **balance_eq_partial.** Sum of inflows minus sum of outflows equals the sum of the unspent
outputs, for every chain whose blocks' events account for their own diffs (`Accounted`).
`ids` is any duplicate-free list naming the outputs the chain ever gave to or took from the
wallet (the sum over the store's finite map is taken over it). -/
theorem balance_eq_partial (c : List Block) (hc : ChainValid Store.init c) (ids : List Nat) (hn : ids.Nodup)
    (hb : ∀ b ∈ c, Accounted b ∧ (∀ e ∈ ownCreated b.diffs, e.id ∈ ids) ∧ (∀ e ∈ ownSpent b.diffs, e.id ∈ ids)) :
    netIn (follow c).events = netOut (follow c).events + total (follow c) ids :=
  balance_chain ids hn c Store.init hc hb (by rw [total_init]; rfl)

/-- what a block's contents and its diffs have to do with each other (consensus): the wallet's
share of the elements the block creates is what its transactions, claims, contract
resolutions, miner payouts and foundation subsidy pay to the wallet, and its share of the
spent elements is what its transactions take from it -/
def BlockCoherent (b : Block) : Prop :=
  let ephem := ((b.diffs.filter fun d => d.created && d.spent && d.e.own).map (·.e.value)).sum
  let paid := (b.txns.map sumOwnOuts).sum +
    ((b.txns.flatMap fun t => t.sfins.filter (·.claimOwn)).map fun si => (lookup b.diffs si.claimId).elim 0 (·.value)).sum +
    ((b.res1.flatMap fun r => r.outs.filter (·.1)).map fun o => (lookup b.diffs o.2).elim 0 (·.value)).sum +
    ((b.res2.flatMap fun r => [r.hostId, r.renterId]).map fun id => (lookup b.diffs id).elim 0 fun e => if e.own then e.value else 0).sum +
    ((b.miners.filter (·.1)).map fun m => (lookup b.diffs m.2).elim 0 (·.value)).sum +
    (lookup b.diffs b.foundationId).elim 0 (fun e => if e.own then e.value else 0)
  let taken := (b.txns.map fun t => if t.v2 then v2Outflow t else v1Outflow b t).sum
  sumE (ownCreated b.diffs) + ephem = paid ∧ sumE (ownSpent b.diffs) + ephem = taken

/-- TARGET (not proved): the balance equation from coherence of the blocks alone.  Missing: the
derivation `BlockCoherent b → Accounted b`, i.e. that the seven folds of `appliedEvents`
(with `addEvent` dropping only events whose inflow equals their outflow) sum to `paid` and
`taken`.  The harness checks `Accounted` on every real block of every history instead (the
per-block accounting oracle). -/
def C06_balance_full : Prop :=
  ∀ (c : List Block) (ids : List Nat), ChainValid Store.init c → ids.Nodup →
    (∀ b ∈ c, BlockCoherent b ∧ (∀ e ∈ ownCreated b.diffs, e.id ∈ ids) ∧ (∀ e ∈ ownSpent b.diffs, e.id ∈ ids)) →
    netIn (follow c).events = netOut (follow c).events + total (follow c) ids

/-! ### non-vacuity: a concrete reorg -/

/-- genesis pays the wallet 100 -/
private def b1 : Block :=
  ⟨1, 0, 0, [⟨⟨1, 100, 0, true⟩, true, false⟩], [⟨10, false, [], [(100, true)], []⟩], [], [], [], 90⟩
/-- the wallet mines a block: payout 50 maturing at height 5 -/
private def b2 : Block := ⟨2, 1, 1, [⟨⟨2, 50, 5, true⟩, true, false⟩], [], [], [], [(true, 2)], 91⟩
/-- a v2 transaction spends output 1: 60 back to the wallet, 40 to someone else -/
private def b3 : Block :=
  ⟨3, 2, 2, [⟨⟨1, 100, 0, true⟩, false, true⟩, ⟨⟨3, 60, 0, true⟩, true, false⟩, ⟨⟨4, 40, 0, false⟩, true, false⟩],
    [⟨11, true, [⟨1, 100, true⟩], [(60, true), (40, false)], []⟩], [], [], [(false, 5)], 92⟩
/-- the competing block at the same height: a siafund claim of 7 paid to the wallet by a
transaction without a siacoin side (the case the pinned code had no event for) -/
private def b3' : Block :=
  ⟨4, 2, 2, [⟨⟨6, 7, 6, true⟩, true, false⟩], [⟨12, false, [], [], [⟨true, 6⟩]⟩], [], [], [(false, 7)], 93⟩

example : ((follow [b1, b2, b3]).run [.revert b3, .apply b3']).events = (follow [b1, b2, b3']).events := by decide
example : (follow [b1, b2, b3']).events.map (fun e => (e.id, e.idx, e.inflow, e.outflow, e.maturity)) =
    [(10, 1, 100, 0, 0), (2, 2, 50, 0, 5), (6, 4, 7, 0, 6)] := by decide
example : [1, 2, 3, 6].map ((follow [b1, b2, b3]).run [.revert b3, .apply b3']).utxos =
    [some ⟨100, 0, 4⟩, some ⟨50, 5, 4⟩, none, some ⟨7, 6, 4⟩] := by decide
example : Accounted b1 ∧ Accounted b2 ∧ Accounted b3 ∧ Accounted b3' := by decide
example : BlockCoherent b3 ∧ BlockCoherent b3' := by unfold BlockCoherent; decide
example : netIn (follow [b1, b2, b3]).events = netOut (follow [b1, b2, b3]).events + total (follow [b1, b2, b3]) [1, 2, 3] := by decide
example : ValidOn (follow [b1, b2]) b3 := by
  refine ⟨rfl, ?_, ?_, by decide, by decide, by decide⟩ <;> decide

end Verif.C06
