/-
C04 — subscribers can always follow the chain through reorgs via the update stream.

Theorems about `updatesSince` / `nextUpd` (`Manager.UpdatesSince`) over every manager reachable
by any history of submissions (`C01.run`), for every subscriber index the manager applied at some
point (or "nothing"), every `max`, every chunking.  Element diffs and Merkle proofs carried by
the updates are not in this model (ids only); that part of the property is decided by the
shadow-ledger oracle of `harness/c04` against linear twins.
-/
import Verif.Lemmas.Updates
import Verif.Lemmas.UpdatesLedger
import Verif.Props.C01
import Verif.Lemmas.Listeners

namespace Verif.C04
open Verif.Chain

/-- one poll, as a subscriber performs it: ask for at most `max` updates with enough fuel for
the whole distance, then move the index along the returned path -/
def poll (U : Nat → Blk) (m : Mgr) (idx : Option Nat) (max : Nat) : Option (Option Nat × List Upd) :=
  match updatesSince U m (mu U m idx) idx max [] with
  | .error _ => none
  | .ok us => (walk U idx us).map fun idx' => (idx', us)

/-- **a poll never fails, returns a contiguous path from the subscriber's index, at most `max`
updates, and stops only at the tip or at `max`** — for every reachable manager -/
theorem poll_ok {U} (hU : WFU U) (hist : List (List Nat)) (idx : Option Nat) (max : Nat)
    (hs : Sub (C01.run U Mgr.init hist) idx) :
    ∃ idx' us, poll U (C01.run U Mgr.init hist) idx max = some (idx', us) ∧
      walk U idx us = some idx' ∧ Sub (C01.run U Mgr.init hist) idx' ∧
      us.length ≤ max ∧ (idx' = some (C01.run U Mgr.init hist).tip ∨ us.length = max) := by
  have h := C01.inv_reachable hU hist
  obtain ⟨us, idx', r1, r2, r3, _, r5, _, _, r8⟩ := updatesSince_spec h max (mu U _ idx) idx [] hs (Nat.le_refl _)
  refine ⟨idx', us, ?_, r2, r3, by simpa using r8, ?_⟩
  · simp only [poll, r1, List.nil_append, r2, Option.map_some]
  · rcases r5 with e | e
    · exact Or.inl e
    · right; simp at e r8; omega

/-- **progress**: with `max ≥ 1` a subscriber that is not at the tip always receives at least one
update, and every update brings it strictly closer to the tip -/
theorem poll_progress {U} (hU : WFU U) (hist : List (List Nat)) (idx : Option Nat) (max : Nat)
    (hs : Sub (C01.run U Mgr.init hist) idx) (hmax : 1 ≤ max)
    (hne : idx ≠ some (C01.run U Mgr.init hist).tip) :
    ∃ idx' us, poll U (C01.run U Mgr.init hist) idx max = some (idx', us) ∧ us ≠ [] ∧
      mu U (C01.run U Mgr.init hist) idx' + us.length ≤ mu U (C01.run U Mgr.init hist) idx := by
  have h := C01.inv_reachable hU hist
  obtain ⟨us, idx', r1, r2, _, r4, _, r6, _, _⟩ := updatesSince_spec h max (mu U _ idx) idx [] hs (Nat.le_refl _)
  exact ⟨idx', us, by simp only [poll, r1, List.nil_append, r2, Option.map_some], r6 (by simp; omega) hne, r4⟩

/-- repeated polling with arbitrary chunk sizes -/
def follow (U : Nat → Blk) (m : Mgr) : List Nat → Option Nat → Option (Option Nat)
  | [], idx => some idx
  | c :: cs, idx =>
    match poll U m idx c with
    | none => none
    | some (idx', _) => follow U m cs idx'

/-- **any chunking converges**: polling with chunk sizes that are all ≥ 1 reaches the manager's
tip after at most `mu` polls (and stays there) -/
theorem follow_converges {U} (hU : WFU U) (hist : List (List Nat)) :
    ∀ (chunks : List Nat) (idx : Option Nat), Sub (C01.run U Mgr.init hist) idx →
      (∀ c ∈ chunks, 1 ≤ c) → mu U (C01.run U Mgr.init hist) idx ≤ chunks.length →
      follow U (C01.run U Mgr.init hist) chunks idx = some (some (C01.run U Mgr.init hist).tip) := by
  have h := C01.inv_reachable hU hist
  generalize C01.run U Mgr.init hist = m at *
  have hattip : ∀ idx, Sub m idx → mu U m idx = 0 → idx = some m.tip := by
    intro idx hs h0
    obtain ⟨us, idx', _, r2, _, r4, r5, _, _, r8⟩ := updatesSince_spec h 1 0 idx [] hs (by omega)
    have hus : us = [] := by
      cases us with
      | nil => rfl
      | cons _ _ => simp at r4; omega
    subst hus
    simp [walk] at r2
    subst r2
    rcases r5 with e | e
    · exact e
    · simp at e
  intro chunks
  induction chunks with
  | nil =>
    intro idx hs _ hmu
    simp only [follow, List.length_nil, Nat.le_zero] at hmu ⊢
    rw [hattip idx hs hmu]
  | cons c cs ih =>
    intro idx hs hc hmu
    have hc1 : 1 ≤ c := hc c (by simp)
    obtain ⟨us, idx', r1, r2, r3, r4, _, r6, _, _⟩ := updatesSince_spec h c (mu U m idx) idx [] hs (Nat.le_refl _)
    have hp : poll U m idx c = some (idx', us) := by
      simp only [poll, r1, List.nil_append, r2, Option.map_some]
    simp only [follow, hp]
    apply ih idx' r3 (fun x hx => hc x (List.mem_cons_of_mem _ hx))
    by_cases hat : idx = some m.tip
    · -- already at the tip: the distance is 0 and stays 0
      have hmu0 : mu U m idx = 0 := by
        subst hat
        have := h.tipHeight_eq
        simp only [mu, ← this, h.bestAt_tip, if_true]; omega
      omega
    · have := r6 (by simp; omega) hat
      have : 1 ≤ us.length := by
        cases us with
        | nil => contradiction
        | cons _ _ => simp
      simp only [List.length_cons] at hmu
      omega

/-- **interleaving with submissions**: an index the subscriber reached stays a valid subscriber
index after any further submission (valid, invalid, reorg, failed reorg), so polling remains
possible after any interleaving of polls and `AddBlocks` calls -/
theorem sub_preserved {U} (hU : WFU U) (hist : List (List Nat)) (batch : List Nat) (idx : Option Nat)
    (hs : Sub (C01.run U Mgr.init hist) idx) :
    Sub (addBlocks U (C01.run U Mgr.init hist) batch).1 idx := by
  cases idx with
  | none => trivial
  | some i => exact (addBlocks_spec hU (C01.inv_reachable hU hist) batch).2.1.2 i hs

/-- the index a poll leaves the subscriber at is again a valid subscriber index (so is the
manager's tip, and "nothing") -/
theorem tip_is_sub {U} (hU : WFU U) (hist : List (List Nat)) :
    Sub (C01.run U Mgr.init hist) (some (C01.run U Mgr.init hist).tip) := by
  have h := C01.inv_reachable hU hist
  exact h.bestsupp _ h.tip_mem

/-- **reorg notifications are delivered whenever, and only when, the tip has changed** (restated
from C01 for this property) -/
theorem notified_iff_tip_changed {U} (hU : WFU U) (hist : List (List Nat)) (batch : List Nat) :
    ((addBlocks U (C01.run U Mgr.init hist) batch).1.tip ≠ (C01.run U Mgr.init hist).tip ↔
      (addBlocks U (C01.run U Mgr.init hist) batch).1.notified = (C01.run U Mgr.init hist).notified + 1) ∧
    ((addBlocks U (C01.run U Mgr.init hist) batch).1.tip = (C01.run U Mgr.init hist).tip ↔
      (addBlocks U (C01.run U Mgr.init hist) batch).1.notified = (C01.run U Mgr.init hist).notified) := by
  have := C01.tip_moves_only_if_heavier hU hist batch
  simp only at this
  obtain ⟨h1, h2⟩ := this
  constructor
  · constructor
    · intro hne; exact (h1 hne).2
    · intro hn he; have := h2 he; omega
  · constructor
    · exact h2
    · intro hn
      by_cases he : (addBlocks U (C01.run U Mgr.init hist) batch).1.tip = (C01.run U Mgr.init hist).tip
      · exact he
      · have := (h1 he).2; omega

/-! ### non-vacuity: a subscriber on a reverted branch walks back and forward -/

-- history: 1-2 best, then 3 (near tie, stored, not applied), then 6 extends 2.
-- A subscriber at 2 polls after the manager reorged to the heavier fork 3-4'-…: use C01.Uex
example : poll C01.Uex (C01.run C01.Uex Mgr.init [[1, 2], [6]]) none 2 =
    some (some 1, [.apply 0, .apply 1]) := by decide
example : poll C01.Uex (C01.run C01.Uex Mgr.init [[1, 2], [6]]) (some 1) 1000 =
    some (some 6, [.apply 2, .apply 6]) := by decide

/-- a universe with a real reorg: 1-2 best, then 3-4-5 (all valid) takes over -/
def Ure : Nat → Blk
  | 1 => ⟨0, 1, 200, 100, true, true, false, false⟩
  | 2 => ⟨1, 2, 300, 100, true, true, false, false⟩
  | 3 => ⟨1, 2, 301, 100, true, true, false, false⟩
  | 4 => ⟨3, 3, 400, 100, true, true, false, false⟩
  | _ => ⟨0, 0, 100, 100, false, false, false, false⟩

example : (C01.run Ure Mgr.init [[1, 2], [3, 4]]).best = [4, 3, 1, 0] := by decide
-- the subscriber that had reached block 2 is walked back to 1 and forward along the new chain
example : poll Ure (C01.run Ure Mgr.init [[1, 2], [3, 4]]) (some 2) 1000 =
    some (some 4, [.revert 2, .apply 3, .apply 4]) := by decide
example : poll Ure (C01.run Ure Mgr.init [[1, 2], [3, 4]]) (some 2) 1 =
    some (some 1, [.revert 2]) := by decide

/-! ### the element side: the ledger a subscriber folds from the updates

Every block id carries the element diffs consensus computed for it (`D`, a parameter, well
formed relative to the ledger of the chain below the block: `WFD`).  A subscriber folds a
`RevertUpdate` with the block's diffs reversed and an `ApplyUpdate` with the block's diffs
(`foldUpd`).  `ledgerOfChain D l` is the fold of the applies along the chain `l` from genesis.
Merkle proof values are not part of this model (oracle of `harness/c04`). -/

open Verif.Elements (Store Diff)

theorem best_is_chain_of_tip {U} (hU : WFU U) (hist : List (List Nat)) :
    ChainTo U (some (C01.run U Mgr.init hist).tip) (C01.run U Mgr.init hist).best := by
  have h := C01.inv_reachable hU hist
  refine ⟨h.chain, ?_⟩
  have := h.chain.ne_nil
  cases hb : (C01.run U Mgr.init hist).best with
  | nil => exact absurd hb this
  | cons a t => simp [Mgr.tip, hb]

/-- **ledger from updates (one poll)**: for every reachable manager, every subscriber index it
applied at some point (or "nothing"), every `max`: if the subscriber's ledger agrees on the keyed
buckets (unspent siacoin / siafund elements, contracts with window end and revision number) with
the ledger of its index's chain, then after folding the path the poll returns it agrees with the
ledger of the chain of the index the poll ends at — which is the best chain when that index is
the tip.  No condition on the reverted blocks. -/
theorem ledger_from_updates {U} (hU : WFU U) (D : Nat → List Diff) (hD : WFD U D) (hist : List (List Nat))
    (idx : Option Nat) (max : Nat) (hs : Sub (C01.run U Mgr.init hist) idx)
    (l : List Nat) (hl : ChainTo U idx l) (L : Store) (hL : KeyedEq L (ledgerOfChain D l)) :
    ∃ idx' us l', poll U (C01.run U Mgr.init hist) idx max = some (idx', us) ∧
      Sub (C01.run U Mgr.init hist) idx' ∧ ChainTo U idx' l' ∧
      KeyedEq (foldUpd D L us) (ledgerOfChain D l') ∧
      (idx' = some (C01.run U Mgr.init hist).tip → l' = (C01.run U Mgr.init hist).best) := by
  obtain ⟨idx', us, h1, h2, h3, _, _⟩ := poll_ok hU hist idx max hs
  obtain ⟨l', h4, h5⟩ := foldUpd_keyed hD us idx idx' l L hl hL h2
  refine ⟨idx', us, l', h1, h3, h4, h5, ?_⟩
  intro he
  rw [he] at h4
  exact ChainTo.unique h4 (best_is_chain_of_tip hU hist)

/-- **ledger from updates, expiration lists included**: when every block the returned path
reverts is `ExpStable` (C02), the fold started from exactly the ledger of the index's chain is
exactly the ledger of the end index's chain. -/
theorem ledger_from_updates_exact {U} (hU : WFU U) (D : Nat → List Diff) (hD : WFD U D) (hist : List (List Nat))
    (idx : Option Nat) (max : Nat) (hs : Sub (C01.run U Mgr.init hist) idx)
    (l : List Nat) (hl : ChainTo U idx l) :
    ∃ idx' us, poll U (C01.run U Mgr.init hist) idx max = some (idx', us) ∧
      ((∀ b, Upd.revert b ∈ us → StableD U D b) →
        ∃ l', ChainTo U idx' l' ∧ foldUpd D (ledgerOfChain D l) us = ledgerOfChain D l') := by
  obtain ⟨idx', us, h1, h2, _, _, _⟩ := poll_ok hU hist idx max hs
  exact ⟨idx', us, h1, fun hst => foldUpd_exact hD us idx idx' l hl hst h2⟩

/-- repeated polling with arbitrary chunk sizes, carrying the ledger along -/
def followL (U : Nat → Blk) (D : Nat → List Diff) (m : Mgr) : List Nat → Option Nat → Store → Option (Option Nat × Store)
  | [], idx, L => some (idx, L)
  | c :: cs, idx, L =>
    match poll U m idx c with
    | none => none
    | some (idx', us) => followL U D m cs idx' (foldUpd D L us)

theorem followL_spec {U} (hU : WFU U) (D : Nat → List Diff) (hD : WFD U D) (hist : List (List Nat)) :
    ∀ (chunks : List Nat) (idx idx'' : Option Nat) (l : List Nat) (L : Store),
      Sub (C01.run U Mgr.init hist) idx → ChainTo U idx l → KeyedEq L (ledgerOfChain D l) →
      follow U (C01.run U Mgr.init hist) chunks idx = some idx'' →
      ∃ L' l'', followL U D (C01.run U Mgr.init hist) chunks idx L = some (idx'', L') ∧
        ChainTo U idx'' l'' ∧ KeyedEq L' (ledgerOfChain D l'') := by
  intro chunks
  induction chunks with
  | nil =>
    intro idx idx'' l L _ hl hL hf
    simp only [follow, Option.some.injEq] at hf
    subst hf
    exact ⟨L, l, rfl, hl, hL⟩
  | cons c cs ih =>
    intro idx idx'' l L hs hl hL hf
    obtain ⟨idx', us, l', h1, h3, h4, h5, _⟩ := ledger_from_updates hU D hD hist idx c hs l hl L hL
    simp only [follow, h1] at hf
    obtain ⟨L', l'', g1, g2, g3⟩ := ih idx' idx'' l' (foldUpd D L us) h3 h4 h5 hf
    exact ⟨L', l'', by simp only [followL, h1]; exact g1, g2, g3⟩

/-- **ledger from updates (any chunking, any number of polls)**: polling with chunk sizes ≥ 1
until the tip is reached (`follow_converges`) and folding everything received leaves the
subscriber with the ledger of the manager's best chain on the keyed buckets. -/
theorem ledger_from_updates_follow {U} (hU : WFU U) (D : Nat → List Diff) (hD : WFD U D) (hist : List (List Nat))
    (chunks : List Nat) (idx : Option Nat) (hs : Sub (C01.run U Mgr.init hist) idx)
    (hc : ∀ c ∈ chunks, 1 ≤ c) (hmu : mu U (C01.run U Mgr.init hist) idx ≤ chunks.length)
    (l : List Nat) (hl : ChainTo U idx l) (L : Store) (hL : KeyedEq L (ledgerOfChain D l)) :
    ∃ L', followL U D (C01.run U Mgr.init hist) chunks idx L = some (some (C01.run U Mgr.init hist).tip, L') ∧
      KeyedEq L' (ledgerOfChain D (C01.run U Mgr.init hist).best) := by
  have hf := follow_converges hU hist chunks idx hs hc hmu
  obtain ⟨L', l'', g1, g2, g3⟩ := followL_spec hU D hD hist chunks idx _ l L hs hl hL hf
  have := ChainTo.unique g2 (best_is_chain_of_tip hU hist)
  subst this
  exact ⟨L', g1, g3⟩

/-! non-vacuity: the reorg universe `Ure` with diffs — block 1 creates coin 11 and contract 21,
block 2 spends 11 and revises 21 (window 5 → 6), block 3 creates 13, block 4 spends 13 -/
def Dre : Nat → List Diff := fun b =>
  if b = 0 then [⟨.sc, 10, true, false, 0, 0, none⟩]
  else if b = 1 then [⟨.sc, 11, true, false, 0, 0, none⟩, ⟨.fc, 21, true, false, 5, 0, none⟩]
  else if b = 2 then [⟨.sc, 11, false, true, 0, 0, none⟩, ⟨.sc, 12, true, false, 0, 0, none⟩, ⟨.fc, 21, false, false, 5, 0, some (6, 1)⟩]
  else if b = 3 then [⟨.sc, 13, true, false, 0, 0, none⟩]
  else if b = 4 then [⟨.sc, 13, false, true, 0, 0, none⟩, ⟨.sc, 14, true, false, 0, 0, none⟩]
  else []

/-- the subscriber that had folded blocks 0,1,2 and is walked back over 2 and forward over 3, 4
ends with the ledger of the chain 0,1,3,4: coin 11 and contract 21 (window 5, revision 0) are
back, 12 is gone -/
example :
    let L := foldUpd Dre (ledgerOfChain Dre [2, 1, 0]) [.revert 2, .apply 3, .apply 4]
    (L.sc 11, L.sc 12, L.sc 13, L.sc 14, L.fc 21) = (true, false, false, true, some (5, 0)) ∧
    ((ledgerOfChain Dre [4, 3, 1, 0]).sc 11, (ledgerOfChain Dre [4, 3, 1, 0]).fc 21) = (true, some (5, 0)) ∧
    (ledgerOfChain Dre [2, 1, 0]).fc 21 = some (6, 1) := by decide

example : Verif.Elements.WF (ledgerOfChain Dre [1, 0]) (Dre 2) ∧ Verif.Elements.WF (ledgerOfChain Dre [3, 1, 0]) (Dre 4) := by
  decide


/-! ### reorg listeners come and go (`OnReorg` / its cancel function)

`notified_iff_tip_changed` above says WHEN the listeners are called; these say WHO is called.  The
128-bit random key of a registration is a parameter of the model; `Fresh` is the assumption that
no key is handed out twice (collision probability 2⁻¹²⁸ per pair). -/

open Verif.Listeners in
/-- **who is notified**: after any history of registrations and cancellations with fresh keys,
the listeners called on a tip change are exactly the live registrations — a registration that
was not cancelled is called, whatever other listeners did before or after it (in particular a
later registration never displaces it), and a cancelled one is not -/
theorem listeners_exactly_live (ops : List Op) (hf : Fresh [] ops) :
    (run Reg.empty ops).entries = specRun [] ops ∧
    (∀ pre post k l, ops = pre ++ Op.reg k l :: post → (∀ k', Op.cancel k' ∈ post → k' ≠ k) →
      l ∈ (run Reg.empty ops).notified) ∧
    (∀ pre post k, ops = pre ++ Op.cancel k :: post →
      ∀ e ∈ (run Reg.empty ops).entries, e.1 ≠ k ∨ k ∉ regKeys pre) := by
  have href := run_eq_spec ops Reg.empty [] (by simp [Reg.empty]) hf
  refine ⟨href, ?_, ?_⟩
  · intro pre post k l hops hc
    have : (k, l) ∈ specRun [] ops := by
      subst hops
      simp only [specRun, List.foldl_append, List.foldl_cons]
      exact spec_keeps post _ (k, l) (by simp [specStep]) (by simpa using hc)
    rw [Reg.notified, href]
    exact List.mem_map.mpr ⟨(k, l), this, rfl⟩
  · intro pre post k hops e he
    by_cases hk : k ∈ regKeys pre
    · left
      -- the key was handed out before the cancel: after the cancel no entry carries it
      subst hops
      rw [href] at he
      simp only [specRun, List.foldl_append, List.foldl_cons] at he
      -- freshness of the suffix relative to the keys used by the prefix
      have hsplit : ∀ (pre : List Op) (used : List Nat) (rest : List Op), Fresh used (pre ++ rest) →
          ∃ used', Fresh used' rest ∧ (∀ x, x ∈ used ∨ x ∈ regKeys pre → x ∈ used') := by
        intro pre
        induction pre with
        | nil => intro used rest h; exact ⟨used, h, by intro x hx; simpa [regKeys] using hx⟩
        | cons op pre ih =>
          intro used rest h
          cases op with
          | reg k' l' =>
            obtain ⟨_, h'⟩ := h
            obtain ⟨u, hu, hsub⟩ := ih (k' :: used) rest h'
            refine ⟨u, hu, ?_⟩
            intro x hx
            apply hsub
            rcases hx with hx | hx
            · exact Or.inl (List.mem_cons_of_mem _ hx)
            · simp only [regKeys, List.mem_cons] at hx
              rcases hx with rfl | hx
              · exact Or.inl List.mem_cons_self
              · exact Or.inr hx
          | cancel k' =>
            obtain ⟨u, hu, hsub⟩ := ih used rest h
            exact ⟨u, hu, by intro x hx; apply hsub; simpa [regKeys] using hx⟩
      obtain ⟨used', hfr, hsub⟩ := hsplit pre [] (Op.cancel k :: post) hf
      exact spec_drops post _ used' k (by
        intro e' he'
        simp only [specStep, List.mem_filter] at he'
        simpa using he'.2) (hsub k (Or.inr hk)) hfr e he
    · exact Or.inr hk

open Verif.Listeners in
/-- the premises are satisfiable and the statement is not vacuous: A and B register, A cancels,
C registers — B and C are called, A is not -/
example : Fresh [] [.reg 10 0, .reg 11 1, .cancel 10, .reg 12 2] ∧
    (run Reg.empty [.reg 10 0, .reg 11 1, .cancel 10, .reg 12 2]).notified = [2, 1] := by
  refine ⟨by simp [Fresh], by decide⟩

open Verif.Listeners in
/-- **freshness is needed** (the shape of a seeded faulty variant): if the key is derived from
the size of the map, the same history makes C take B's key and B is never called again -/
theorem size_keys_displace_a_listener :
    let r1 := Reg.empty.register (sizeKey Reg.empty) 0
    let r2 := r1.register (sizeKey r1) 1
    let r3 := r2.cancel (sizeKey Reg.empty)
    let r4 := r3.register (sizeKey r3) 2
    r4.notified = [2] ∧ 1 ∉ r4.notified := by decide

end Verif.C04
