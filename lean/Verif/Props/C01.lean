/-
C01 — the best chain is always fully valid, heaviest-known, and never loses work.

Theorems about the model of `chain.Manager` in `Verif/Model/Chain.lean` (`AddBlocks`,
`reorgTo`, `reorgPath`, `revertTip`, `applyTip` transcribed from `chain/manager.go`).
Consensus is a parameter: `U : Nat → Blk` gives, for every block id, what
`go.sia.tech/core/consensus` says about that block on its own ancestry (`hdrOk`, `bodyOk`,
`work`, `diff`, …).  All statements hold for every such `U`, every history of submissions
(any batches: duplicates, orphans, mixed branches) and every reachable manager.
The model is tied to the code by `harness/c01` (and c19, c04) on every run.
-/
import Verif.Lemmas.Chain
import Verif.Lemmas.ChainF
import Verif.Lemmas.Ancestor
import Verif.Lemmas.Adopt
import Verif.Lemmas.Mutex
import Verif.Lemmas.ChainFF

namespace Verif.C01
open Verif.Chain

/-- a history: any list of submitted batches -/
def run (U : Nat → Blk) : Mgr → List (List Nat) → Mgr
  | m, [] => m
  | m, b :: bs => run U (addBlocks U m b).1 bs

/-- the invariant holds in every reachable state -/
theorem inv_reachable {U} (hU : WFU U) (hist : List (List Nat)) : Inv U (run U Mgr.init hist) := by
  suffices h : ∀ m, Inv U m → Inv U (run U m hist) from h _ (inv_init hU)
  induction hist with
  | nil => intro m h; exact h
  | cons b bs ih => intro m h; exact ih _ (addBlocks_spec hU h b).1

/-- **Best chain parent-linked from genesis, every block on it valid** -/
theorem best_chain_valid {U} (hU : WFU U) (hist : List (List Nat)) :
    Chain U (run U Mgr.init hist).best ∧
    ∀ i ∈ (run U Mgr.init hist).best, i ≠ 0 →
      (U i).hdrOk = true ∧ (U i).bodyOk = true ∧ (U i).future = false := by
  have h := inv_reachable hU hist
  refine ⟨h.chain, fun i hi hne => ?_⟩
  have hs := h.bestsupp i hi
  have hv := h.s.validHdr i hne (h.best_state hi)
  exact ⟨hv.1, h.s.valid i hne hs, hv.2⟩

/-- `AddBlocks` **never panics and a failed reorg is always rolled back** -/
theorem never_panics {U} (hU : WFU U) (hist : List (List Nat)) (batch : List Nat) :
    (addBlocks U (run U Mgr.init hist) batch).2 ≠ some .panic ∧
    (addBlocks U (run U Mgr.init hist) batch).2 ≠ some .rollbackFailed := by
  obtain ⟨_, _, h⟩ := addBlocks_spec hU (inv_reachable hU hist) batch
  rcases h with ⟨h, _⟩ | ⟨h | h | h | h, _⟩ <;> simp [h]

/-- **an error (bad block, orphan, future block, failed reorg) leaves the chain exactly as it was**:
same best chain (hence same tip and every best-chain query) and no notification -/
theorem error_rolls_back {U} (hU : WFU U) (hist : List (List Nat)) (batch : List Nat)
    (he : (addBlocks U (run U Mgr.init hist) batch).2 ≠ none) :
    (addBlocks U (run U Mgr.init hist) batch).1.best = (run U Mgr.init hist).best ∧
    (addBlocks U (run U Mgr.init hist) batch).1.notified = (run U Mgr.init hist).notified := by
  obtain ⟨_, _, h⟩ := addBlocks_spec hU (inv_reachable hU hist) batch
  rcases h with ⟨h, _⟩ | ⟨_, h⟩
  · exact absurd h he
  · exact h

theorem heavier_ne {U} {a b : Nat} (h : heavier U a b = true) : a ≠ b := by
  intro e; subst e; simp [heavier] at h; omega

/-- **the tip moves only to a sufficiently heavier chain**, and then exactly one notification is
delivered; otherwise none is -/
theorem tip_moves_only_if_heavier {U} (hU : WFU U) (hist : List (List Nat)) (batch : List Nat) :
    let m := run U Mgr.init hist
    let m' := (addBlocks U m batch).1
    (m'.tip ≠ m.tip → heavier U m'.tip m.tip = true ∧ m'.notified = m.notified + 1) ∧
    (m'.tip = m.tip → m'.notified = m.notified) := by
  intro m m'
  obtain ⟨_, _, h⟩ := addBlocks_spec hU (inv_reachable hU hist) batch
  have same : ∀ {x : Mgr}, x.best = m.best → x.tip = m.tip := by intro x hx; simp [Mgr.tip, hx]
  rcases h with ⟨_, ⟨hb, hn⟩ | ⟨hh, hn⟩⟩ | ⟨_, hb, hn⟩
  · exact ⟨fun hne => absurd (same hb) hne, fun _ => hn⟩
  · exact ⟨fun _ => ⟨hh, hn⟩, fun he => absurd he (heavier_ne hh)⟩
  · exact ⟨fun hne => absurd (same hb) hne, fun _ => hn⟩

/-- **the tip's total work never decreases** -/
theorem tip_work_mono {U} (hU : WFU U) (hist : List (List Nat)) (batch : List Nat) :
    (U (run U Mgr.init hist).tip).work ≤ (U (addBlocks U (run U Mgr.init hist) batch).1.tip).work := by
  by_cases h : (addBlocks U (run U Mgr.init hist) batch).1.tip = (run U Mgr.init hist).tip
  · rw [h]; exact Nat.le_refl _
  · have := ((tip_moves_only_if_heavier hU hist batch).1 h).1
    simp [heavier] at this
    omega

theorem run_append (U : Nat → Blk) (m : Mgr) (l₁ l₂ : List (List Nat)) :
    run U m (l₁ ++ l₂) = run U (run U m l₁) l₂ := by
  induction l₁ generalizing m with
  | nil => rfl
  | cons x xs ih => exact ih _

/-- over a whole history the work of the tip is monotone -/
theorem tip_work_mono_history {U} (hU : WFU U) (hist more : List (List Nat)) :
    (U (run U Mgr.init hist).tip).work ≤ (U (run U Mgr.init (hist ++ more)).tip).work := by
  induction more generalizing hist with
  | nil => simp
  | cons b bs ih =>
    have h1 := tip_work_mono hU hist b
    have h2 := ih (hist ++ [b])
    have e : run U Mgr.init (hist ++ [b]) = (addBlocks U (run U Mgr.init hist) b).1 := by
      rw [run_append]; rfl
    rw [e] at h2
    have e2 : hist ++ b :: bs = hist ++ [b] ++ bs := by simp
    rw [e2]
    exact Nat.le_trans h1 h2

/-- **`AddValidatedV2Blocks` preserves the invariant** on every batch that satisfies the syncer's
pre-validation contract (`PreValidated`, discharged by C11's `gate_v2_sound`): the manager stays
valid, never panics, an error leaves best chain and notifications unchanged, and the tip moves
only to a sufficiently heavier chain with exactly one notification. -/
theorem inv_addValidatedV2 {U} (hU : WFU U) {m : Mgr} (h : Inv U m) (batch : List Nat) (nStates : Nat)
    (hpre : PreValidated U m batch) :
    Inv U (addValidatedV2 U m batch nStates).1 ∧
    (((addValidatedV2 U m batch nStates).2 = none ∧
        (((addValidatedV2 U m batch nStates).1.best = m.best ∧
            (addValidatedV2 U m batch nStates).1.notified = m.notified) ∨
         (heavier U (addValidatedV2 U m batch nStates).1.tip m.tip = true ∧
            (addValidatedV2 U m batch nStates).1.notified = m.notified + 1))) ∨
     (((addValidatedV2 U m batch nStates).2 = some .lenMismatch ∨
        (addValidatedV2 U m batch nStates).2 = some .missingParent ∨
        (addValidatedV2 U m batch nStates).2 = some .reorgFailed) ∧
        (addValidatedV2 U m batch nStates).1.best = m.best ∧
        (addValidatedV2 U m batch nStates).1.notified = m.notified)) := by
  cases batch with
  | nil => simp [addValidatedV2, h]
  | cons b0 rest =>
    obtain ⟨hlink, hpar⟩ := hpre.linked b0 rest rfl
    simp only [addValidatedV2]
    by_cases hn : nStates ≠ (b0 :: rest).length
    · simp only [if_pos hn]; simp [h]
    · simp only [if_neg hn]
      have hps : m.states (U b0).parent = true := by
        have := (h.s.recstate _ _ hpar).2; simpa [par] using this
      simp only [hps, Bool.not_true, Bool.false_eq_true, if_false]
      obtain ⟨j1, j2, j3, j4, j5, j6⟩ := addV2Loop_spec hU (b0 :: rest) m (par U b0) h hpar hlink hpre.ok
      rcases hg : addValidatedV2.go U (b0 :: rest) m with ⟨m1, e⟩
      rw [hg] at j1 j2 j3 j4 j5 j6
      simp only at j1 j2 j3 j4 j5 j6
      subst j2
      simp only
      have hcs : m1.states ((b0 :: rest).getLastD b0) = true := by
        have : (b0 :: rest).getLastD b0 = (b0 :: rest).getLastD (par U b0) := by
          cases rest <;> simp [List.getLastD]
        rw [this]; exact (j1.s.recstate _ _ j6).2
      obtain ⟨k1, _, k3⟩ := maybeReorg_spec j1 hcs
      have htip : m1.tip = m.tip := by simp [Mgr.tip, j3]
      refine ⟨k1, ?_⟩
      rcases k3 with ⟨ke, (⟨kh, kt, kn⟩ | ⟨kh, km⟩)⟩ | ⟨ke, kh, kb, kn⟩
      · left
        refine ⟨ke, Or.inr ⟨?_, by rw [kn, j4]⟩⟩
        rw [kt, ← htip]; exact kh
      · left
        refine ⟨ke, Or.inl ?_⟩
        rw [km]; exact ⟨j3, j4⟩
      · right
        exact ⟨Or.inr (Or.inr ke), by rw [kb, j3], by rw [kn, j4]⟩

/-- **`reorgPath` computes the two legs through the common ancestor** and never fails on
stored blocks (restated from the lemma file so that it is audited with the property) -/
theorem reorgPath_correct {U m} (h : Inv U m) {a b : Nat}
    (ha : m.states a = true) (hb : m.states b = true) :
    ∃ na nb, na ≤ (U a).height ∧ nb ≤ (U b).height ∧
      reorgPath U m a b none =
        .ok ((List.range na).map (fun k => anc U k a), ((List.range nb).map (fun k => anc U k b)).reverse) ∧
      anc U na a = anc U nb b :=
  reorgPath_spec h.s.core ha hb

/-! ### non-vacuity: a concrete universe with a fork, an invalid block and a failed reorg -/

/-- genesis 0; main chain 1-2; fork 3-4-5 from 1 where 4 has an invalid body -/
def Uex : Nat → Blk
  | 1 => ⟨0, 1, 200, 100, true, true, false, false⟩
  | 2 => ⟨1, 2, 300, 100, true, true, false, false⟩
  | 3 => ⟨1, 2, 301, 100, true, true, false, false⟩
  | 4 => ⟨3, 3, 400, 100, true, false, false, false⟩
  | 5 => ⟨4, 4, 500, 100, true, true, false, false⟩
  | 6 => ⟨2, 3, 410, 100, true, true, false, false⟩
  | _ => ⟨0, 0, 100, 100, false, false, false, false⟩

theorem Uex_wf : WFU Uex := by
  refine ⟨rfl, ?_⟩
  intro b hb
  match b with
  | 1 | 2 | 3 | 4 | 5 | 6 => exact ⟨by decide, by decide⟩
  | 0 => simp [Uex] at hb
  | n + 7 => simp [Uex] at hb

example : (run Uex Mgr.init [[1, 2]]).best = [2, 1, 0] := by decide
-- the near tie 3 (work 301 vs 300 + 100/5) does not move the tip; the heavier but invalid
-- branch 3-4-5 fails and is rolled back; 6 then extends the old chain
example : (addBlocks Uex (run Uex Mgr.init [[1, 2]]) [3]).1.best = [2, 1, 0] := by decide
example : (addBlocks Uex (run Uex Mgr.init [[1, 2]]) [3, 4, 5]).2 = some .reorgFailed := by decide
example : (run Uex Mgr.init [[1, 2], [3, 4, 5], [6]]).best = [6, 2, 1, 0] := by decide
example : (run Uex Mgr.init [[1, 2], [3, 4, 5], [6]]).notified = 2 := by decide

/-- a v2 universe for the pre-validated path: 1-2 (v2), batch [3] on top of 2 -/
def Uv2 : Nat → Blk
  | 1 => ⟨0, 1, 200, 100, true, true, false, true⟩
  | 2 => ⟨1, 2, 300, 100, true, true, false, true⟩
  | 3 => ⟨2, 3, 400, 100, true, true, false, true⟩
  | _ => ⟨0, 0, 100, 100, false, false, false, false⟩

example : PreValidated Uv2 (run Uv2 Mgr.init [[1, 2]]) [3] := by
  refine ⟨by decide, ?_⟩
  intro b0 rest hb
  cases hb
  exact ⟨by simp [LinkedFrom], by decide⟩
example : (addValidatedV2 Uv2 (run Uv2 Mgr.init [[1, 2]]) [3] 1).1.best = [3, 2, 1, 0] := by decide


/-! ### what the `States` bucket holds (model `Model/ChainF.lean`)

`applyTip` writes a block's complete state only when it validates the block (no supplement
stored); for a block that already has a supplement it relies on the stored state being complete.
`AddBlocks` stores header-level states, `AddValidatedV2Blocks` complete ones. -/

/-- **every best-chain block has a complete stored state**, in every state reachable by any
history of `AddBlocks`, `AddValidatedV2Blocks` and `PruneBlocks` (any block universe, any batches,
no well-formedness assumption at all); more generally every block stored with a supplement has
one — the fact `applyTip`'s supplement branch depends on.  The chain part of the state is the
plain model's (`erased`), so `inv_reachable`, `best_chain_valid`, … speak about the same run. -/
theorem stored_states_complete (U : Nat → Blk) (ops : List OpF) :
    (∀ i ∈ (runF U MgrF.init ops).m.best, (runF U MgrF.init ops).full i = true) ∧
    (∀ i r, (runF U MgrF.init ops).m.recs i = some r → r.supp = true → (runF U MgrF.init ops).full i = true) ∧
    (runF U MgrF.init ops).m = ops.foldl (eraseOp U) Mgr.init := by
  have h := runF_inv (U := U) ops FInv.init
  exact ⟨h.bestFull, h.supp, runF_m U ops MgrF.init⟩

/-- side block first, pre-validated later (the history of a seeded faulty variant): block 3 of a
fork is relayed and stored with a header-level state, then the whole fork [3, 4] is handed over
pre-validated and wins; its stored state is complete afterwards -/
def Uside : Nat → Blk
  | 1 => ⟨0, 1, 200, 100, true, true, false, true⟩
  | 2 => ⟨1, 2, 300, 100, true, true, false, true⟩
  | 3 => ⟨1, 2, 301, 100, true, true, false, true⟩
  | 4 => ⟨3, 3, 420, 100, true, true, false, true⟩
  | _ => ⟨0, 0, 100, 100, false, false, false, false⟩

example : (runF Uside MgrF.init [.add [1, 2], .add [3]]).full 3 = false ∧
    (runF Uside MgrF.init [.add [1, 2], .add [3]]).m.best = [2, 1, 0] := by decide
example : (runF Uside MgrF.init [.add [1, 2], .add [3], .addV2 [3, 4] 2]).m.best = [4, 3, 1, 0] ∧
    (runF Uside MgrF.init [.add [1, 2], .add [3], .addV2 [3, 4] 2]).full 3 = true := by decide

/-- the faulty variant ("skip `AddState` when a state is already stored") breaks the invariant on
that history: the statement above is not vacuous -/
def addV2LoopSkip (U : Nat → Blk) : List Nat → MgrF → MgrF × Option Err
  | [], s => (s, none)
  | b :: bs, s =>
    if !(U b).v2 then (s, some .notV2)
    else addV2LoopSkip U bs
      ⟨{ s.m with states := upd s.m.states b true, recs := upd s.m.recs b (some ⟨true, true⟩) },
       if s.m.states b then s.full else upd s.full b true⟩

example :
    let s1 := runF Uside MgrF.init [.add [1, 2], .add [3]]
    let s2 := (maybeReorgF Uside (addV2LoopSkip Uside [3, 4] s1).1 4).1
    s2.m.best = [4, 3, 1, 0] ∧ s2.full 3 = false := by decide


/-! ### the block whose timestamp the pre-Oak retarget reads (`DBStore.AncestorTimestamp`) -/

/-- **`AncestorTimestamp` is the parent walk**: in every reachable state of the manager, for every
block with a stored state — on the best chain, on a side chain that leaves it anywhere, or on a
chain that shares only genesis with it — the record the store reads is that of the block
`min(depth, height)` parent links above, i.e. exactly what a node that had this block's chain as
its only chain would read.  The work credited to side-chain headers (and hence the decision to
reorg) therefore does not depend on which chain is currently best. -/
theorem ancestor_timestamp_block {U} (hU : WFU U) (hist : List (List Nat)) (depth id : Nat)
    (hs : (run U Mgr.init hist).states id = true) :
    ancestorOf U (run U Mgr.init hist) depth id = anc U (min depth (U id).height) id :=
  ancestorOf_spec (inv_reachable hU hist) hs depth

/-- non-vacuity on the fork universe: block 5 (height 4, on the rejected fork 1-3-4-5) with depth 2
reads block 3, which is not on the best chain 0-1-2-6; block 6 with depth 2 takes the shortcut -/
example : (run Uex Mgr.init [[1, 2], [3, 4, 5], [6]]).best = [6, 2, 1, 0] ∧
    (run Uex Mgr.init [[1, 2], [3, 4, 5], [6]]).states 5 = true ∧
    ancestorOf Uex (run Uex Mgr.init [[1, 2], [3, 4, 5], [6]]) 2 5 = 3 ∧
    ancestorOf Uex (run Uex Mgr.init [[1, 2], [3, 4, 5], [6]]) 2 6 = 1 ∧
    ancestorOf Uex (run Uex Mgr.init [[1, 2], [3, 4, 5], [6]]) 1000 5 = 0 := by decide

/-- a seeded faulty variant ("keep the timestamp decoded while walking": the record of the LAST
block visited on the walk, one link short) is not the parent walk -/
def ancLoopShort (U : Nat → Blk) (m : Mgr) (depth height : Nat) : Nat → Nat → Nat → Nat → Nat
  | 0, _, _, last => last
  | fuel + 1, i, a, _ =>
    if m.bestAt (height - i) = some a then
      ((if height < depth then m.bestAt 0 else m.bestAt (height - depth)).getD 0)
    else ancLoopShort U m depth height fuel (i + 1) (U a).parent a

example : ancLoopShort Uex (run Uex Mgr.init [[1, 2], [3, 4, 5], [6]]) 2 4 2 0 5 5 = 4 ∧
    anc Uex 2 5 = 3 := by decide


/-! ### liveness: the heaviest valid chain offered is adopted ("heaviest-known") -/

/-- **a valid, sufficiently heavier chain is adopted**: in every reachable state, a batch that is a
parent-linked run of header-valid, non-future blocks on top of a block whose state is stored —
whether its blocks are new, already stored as side blocks, or were already refused once as part of
a longer invalid chain — and whose last block heads a chain that is valid all the way down to
genesis and sufficiently heavier than the tip, is accepted without error and becomes the tip
(with exactly one notification, by `tip_moves_only_if_heavier`) -/
theorem valid_heavier_chain_adopted_of_inv {U} (hU : WFU U) (m : Mgr) (h : Inv U m) (batch : List Nat) (last : Nat)
    (hlast : batch.getLastD m.tip = last) (hne : batch ≠ [])
    (hgood : GoodRun U m m.tip batch)
    (hvalid : ∀ k, k < (U last).height → (U (anc U k last)).bodyOk = true)
    (hheavy : heavier U last m.tip = true) :
    (addBlocks U m batch).2 = none ∧ (addBlocks U m batch).1.tip = last := by
  cases batch with
  | nil => exact absurd rfl hne
  | cons b bs =>
    simp only [addBlocks]
    obtain ⟨g1, g2⟩ := addLoop_good hU (b :: bs) m m.tip h h.tip_state hgood
    obtain ⟨j1, j2, _, _, j5, _⟩ := addLoop_spec hU (b :: bs) m m.tip h h.tip_state
    rcases hg : addBlocks.go U (b :: bs) m m.tip with ⟨m1, e, cs⟩
    rw [hg] at g1 g2 j1 j2 j5
    simp only at g1 g2 j1 j2 j5
    subst g1
    simp only
    have hcs : cs = last := by rw [g2, hlast]
    subst hcs
    have htip : m1.tip = m.tip := by simp [Mgr.tip, j2]
    exact maybeReorg_adopts j1 j5 hvalid (by rw [htip]; exact hheavy)

theorem valid_heavier_chain_adopted {U} (hU : WFU U) (hist : List (List Nat)) (batch : List Nat) (last : Nat)
    (hlast : batch.getLastD (run U Mgr.init hist).tip = last) (hne : batch ≠ [])
    (hgood : GoodRun U (run U Mgr.init hist) (run U Mgr.init hist).tip batch)
    (hvalid : ∀ k, k < (U last).height → (U (anc U k last)).bodyOk = true)
    (hheavy : heavier U last (run U Mgr.init hist).tip = true) :
    (addBlocks U (run U Mgr.init hist) batch).2 = none ∧
    (addBlocks U (run U Mgr.init hist) batch).1.tip = last :=
  valid_heavier_chain_adopted_of_inv hU _ (inv_reachable hU hist) batch last hlast hne hgood hvalid hheavy

/-- non-vacuity, and the history of a seeded faulty variant: fork 3-4-5 is refused (4 is invalid),
the valid heavier sibling chain 1-2-6 is then offered again as a batch of already stored blocks
plus one — and adopted -/
example : GoodRun Uex (run Uex Mgr.init [[1, 2], [3, 4, 5]]) (run Uex Mgr.init [[1, 2], [3, 4, 5]]).tip [6] ∧
    heavier Uex 6 (run Uex Mgr.init [[1, 2], [3, 4, 5]]).tip = true ∧
    (addBlocks Uex (run Uex Mgr.init [[1, 2], [3, 4, 5]]) [6]).1.tip = 6 := by
  refine ⟨?_, by decide, by decide⟩
  simp only [GoodRun]
  refine ⟨Or.inl (by decide), by decide, by decide, trivial⟩

/-! ### a store whose `Flush` fails in the middle of a submission

The store is a dependency of the manager. `Model/ChainFF.lean` is `AddBlocks` when the first
`Flush` the call reaches returns an error. Histories may contain such submissions anywhere. -/

/-- a submission, and whether the first store flush it reaches fails -/
def stepX (U : Nat → Blk) (m : Mgr) (b : List Nat × Bool) : Mgr :=
  if b.2 then (addBlocksFF U m b.1).1 else (addBlocks U m b.1).1

def runX (U : Nat → Blk) (m : Mgr) (hist : List (List Nat × Bool)) : Mgr := hist.foldl (stepX U) m

theorem inv_reachableX {U} (hU : WFU U) (hist : List (List Nat × Bool)) : Inv U (runX U Mgr.init hist) := by
  suffices h : ∀ m, Inv U m → Inv U (runX U m hist) from h _ (inv_init hU)
  induction hist with
  | nil => intro m h; exact h
  | cons b bs ih =>
    intro m h
    apply ih
    simp only [stepX]
    split
    · exact (addBlocksFF_spec hU h b.1).1
    · exact (addBlocks_spec hU h b.1).1

/-- **a failed flush is rolled back**: after any history (with or without earlier flush
failures), a submission during which the store's flush fails leaves the best chain — hence tip,
tip state and every per-height query — and the number of notifications exactly as before, in a
state that satisfies the invariant all other theorems start from; nothing stored is lost -/
theorem failed_flush_rolls_back {U} (hU : WFU U) (hist : List (List Nat × Bool)) (batch : List Nat) :
    let m := runX U Mgr.init hist
    (addBlocksFF U m batch).1.best = m.best ∧ (addBlocksFF U m batch).1.notified = m.notified ∧
    Inv U (addBlocksFF U m batch).1 ∧ (∀ i, m.states i = true → (addBlocksFF U m batch).1.states i = true) := by
  intro m
  obtain ⟨a, b, c, d⟩ := addBlocksFF_spec hU (inv_reachableX hU hist) batch
  exact ⟨c, d, a, b⟩

/-- **and the chain is adopted when it is offered again**: a valid sufficiently heavier chain
whose submission hit a failing flush is answered with "reorg failed", and the SAME batch — all of
its blocks now stored with supplements — is accepted and becomes the tip when resubmitted (the
seeded "nothing new in this batch, return early" and "skip the rollback when the tip already is
the target" variants fail exactly here) -/
theorem adopted_after_failed_flush {U} (hU : WFU U) (hist : List (List Nat × Bool)) (batch : List Nat) (last : Nat)
    (hlast : batch.getLastD (runX U Mgr.init hist).tip = last) (hne : batch ≠ [])
    (hgood : GoodRun U (runX U Mgr.init hist) (runX U Mgr.init hist).tip batch)
    (hvalid : ∀ k, k < (U last).height → (U (anc U k last)).bodyOk = true)
    (hheavy : heavier U last (runX U Mgr.init hist).tip = true) :
    let m' := (addBlocksFF U (runX U Mgr.init hist) batch).1
    (addBlocksFF U (runX U Mgr.init hist) batch).2 = some .reorgFailed ∧
    (addBlocks U m' batch).2 = none ∧ (addBlocks U m' batch).1.tip = last := by
  have h := inv_reachableX hU hist
  generalize runX U Mgr.init hist = m at *
  intro m'
  obtain ⟨a, b, c, _⟩ := addBlocksFF_spec hU h batch
  have htip : m'.tip = m.tip := by simp only [Mgr.tip]; rw [show m'.best = m.best from c]
  refine ⟨?_, ?_⟩
  · cases batch with
    | nil => exact absurd rfl hne
    | cons b0 bs =>
      simp only [addBlocksFF]
      obtain ⟨g1, g2⟩ := addLoop_good hU (b0 :: bs) m m.tip h h.tip_state hgood
      obtain ⟨j1, j2, _, _, j5, _⟩ := addLoop_spec hU (b0 :: bs) m m.tip h h.tip_state
      rcases hg : addBlocks.go U (b0 :: bs) m m.tip with ⟨m1, e, cs⟩
      rw [hg] at g1 g2 j1 j2 j5
      simp only at g1 g2 j1 j2 j5
      subst g1
      simp only
      have hcs : cs = last := by rw [g2, hlast]
      subst hcs
      have htip1 : m1.tip = m.tip := by simp [Mgr.tip, j2]
      obtain ⟨_, _, _, _, k⟩ := maybeReorgFF_spec j1 j5
      have hv := (reorgTo_valid j1 j5 hvalid).1
      rcases k with ⟨k1, _⟩ | ⟨_, _, k3⟩ | ⟨_, k2, _⟩
      · rw [htip1, hheavy] at k1; cases k1
      · exact k3
      · exact absurd hv k2
  · exact valid_heavier_chain_adopted_of_inv hU m' a batch last (by rw [htip]; exact hlast) hne
      (by rw [htip]; exact GoodRun.mono b hgood) hvalid (by rw [htip]; exact hheavy)

/-- non-vacuity on the example universe: after [1,2], the heavier fork 3-4-5... is invalid; the
valid heavier chain 1-2-6 meets a failing flush, is rolled back, and is adopted on resubmission -/
example :
    (addBlocksFF Uex (runX Uex Mgr.init [([1, 2], false)]) [6]).2 = some .reorgFailed ∧
    (addBlocksFF Uex (runX Uex Mgr.init [([1, 2], false)]) [6]).1.best = [2, 1, 0] ∧
    (addBlocks Uex (addBlocksFF Uex (runX Uex Mgr.init [([1, 2], false)]) [6]).1 [6]).1.best = [6, 2, 1, 0] ∧
    -- an invalid fork and a failing flush: the first flush reached is the rollback's
    (addBlocksFF Uex (runX Uex Mgr.init [([1, 2], false)]) [3, 4, 5]).2 = some .rollbackFailed ∧
    (addBlocksFF Uex (runX Uex Mgr.init [([1, 2], false)]) [3, 4, 5]).1.best = [2, 1, 0] := by decide

/-! ### what `History` offers to a peer (the sample from which the common ancestor is negotiated)

`Manager.History` (`manager.go:160-184`, model `history`/`histHeight`) samples the best chain at the
tip, the nine blocks below it and then at exponentially growing distances, clamped at genesis.
Syncing from a peer on another fork works only if the sample contains a block both chains share;
genesis is shared by everyone, so "genesis is always offered" is what makes negotiation total. -/

/-- in every reachable state: the first sample is the tip, every sample is a block of the best chain,
and — for every chain shorter than 7 + 2^23 blocks — genesis is among the samples -/
theorem history_offers_tip_and_genesis {U} (hU : WFU U) (hist : List (List Nat × Bool)) :
    let m := runX U Mgr.init hist
    (history m).head? = some m.tip ∧ (∀ i ∈ history m, i ∈ m.best) ∧
    (m.tipHeight ≤ 7 + 2 ^ 23 → 0 ∈ history m) := by
  intro m
  have h := inv_reachableX hU hist
  have hne : m.best ≠ [] := h.chain.ne_nil
  have hlen : 0 < m.best.length := List.length_pos_iff.mpr hne
  have hlast : m.best[m.best.length - 1]? = some 0 := by
    rw [← List.getLast?_eq_getElem?]; exact h.chain.last_zero
  have hb0 : m.bestAt 0 = some 0 := by
    simp only [Mgr.bestAt, hlen, if_true, Nat.sub_zero]; exact hlast
  have hbt : m.bestAt m.tipHeight = some m.tip := by
    simp only [Mgr.bestAt, Mgr.tipHeight, Mgr.tip]
    have : m.best.length - 1 < m.best.length := by omega
    simp only [this, if_true, Nat.sub_self]
    cases hb : m.best with
    | nil => exact absurd hb hne
    | cons a t => simp
  refine ⟨?_, ?_, ?_⟩
  · -- the sample of index 0 is taken at the tip height
    have h0 : histHeight m.tipHeight 0 = m.tipHeight := by simp [histHeight]
    simp only [history]
    rw [show List.range 32 = 0 :: (List.range 31).map (· + 1) by decide]
    simp only [List.filterMap_cons, h0, hbt, List.head?_cons]
  · intro i hi
    simp only [history, List.mem_filterMap, List.mem_range] at hi
    obtain ⟨k, _, hk⟩ := hi
    exact bestAt_mem hk
  · intro hth
    simp only [history, List.mem_filterMap, List.mem_range]
    refine ⟨31, by decide, ?_⟩
    have h31 : histHeight m.tipHeight 31 = 0 := by
      simp only [histHeight]
      have : (31 : Nat) ≥ 10 := by decide
      simp only [this, if_true]
      have h2 : 7 + 2 ^ (31 - 8) = 7 + 2 ^ 23 := by decide
      rw [h2]
      split <;> omega
    rw [h31]; exact hb0


/-- non-vacuity: on the example universe after [1,2] the sample is the tip, its parent, and genesis
in all remaining slots (what the Go code pads with) -/
example : history (runX Uex Mgr.init [([1, 2], false)]) = [2, 1] ++ List.replicate 30 0 := by decide

/-! ### atomicity licence: callers of a lock-disciplined object are serialisable

`addBlocks`, `addV2`, `prune` above are ATOMIC steps. The manager is called from many goroutines.
`Props/C01Src.lean` proves from the source that every method is a sequence of critical sections of
one exclusive lock (one section, or two around the listener calls). `Model/Mutex.lean` gives such
callers an instruction-level interleaving semantics; the theorems below say that under EVERY
schedule the state is the serial execution of whole sections in lock-release order (plus the
executed prefix of the section in progress, which no other caller can observe because observing
is itself a section), and that each caller's sections happen in its program order. -/

open Verif.Mutex in
/-- for every initial state, every set of callers, every schedule: serialisability -/
theorem locked_callers_serializable {σ : Type} (x0 : σ) (progs : List (List (Seg σ))) (sched : List Nat) :
    let s := Mutex.run (Mutex.init x0 progs) sched
    s.st = (held s).foldl app (serial s.done x0) ∧ ∀ t, progOf s t = (progs[t]?).getD [] := by
  intro s
  exact ⟨run_stInv x0 sched _ (init_stInv x0 progs), fun t => by
    rw [show s = Mutex.run (Mutex.init x0 progs) sched from rfl, run_progOf, init_progOf]⟩

open Verif.Mutex in
/-- whenever the lock is free the state is EXACTLY a serial execution of completed sections, and
the completed sections of caller `t` followed by its unstarted ones are its program -/
theorem lock_free_state_is_serial {σ : Type} (x0 : σ) (progs : List (List (Seg σ))) (sched : List Nat)
    (hfree : (Mutex.run (Mutex.init x0 progs) sched).hold = none) :
    let s := Mutex.run (Mutex.init x0 progs) sched
    s.st = serial s.done x0 ∧
    ∀ t, ((s.done.filter (fun d => d.1 == t)).map (·.2)) ++ (s.rest[t]?).getD [] = (progs[t]?).getD [] := by
  intro s
  have h := locked_callers_serializable x0 progs sched
  refine ⟨?_, fun t => ?_⟩
  · have h1 := h.1
    simp only [held, hfree] at h1
    exact h1
  · have h2 := h.2 t
    simp only [progOf, hfree, List.append_nil] at h2
    exact h2

open Verif.Mutex in
/-- and they cannot deadlock on it: under every schedule, unless every caller has finished and the
lock is free, some caller can take a step that changes the lock state -/
theorem locked_callers_never_deadlock {σ : Type} (x0 : σ) (progs : List (List (Seg σ))) (sched : List Nat)
    (h : quiescent (Mutex.run (Mutex.init x0 progs) sched) = false) :
    ∃ t, (Mutex.step (Mutex.run (Mutex.init x0 progs) sched) t).hold ≠ (Mutex.run (Mutex.init x0 progs) sched).hold :=
  progress _ h

open Verif.Mutex in
/-- non-vacuity and necessity: two callers, `[x+1; x*2]` and `[x := 5]`. With the lock the
schedule 0,0,1,0,0,1,1,1 ends in a serial outcome; the same instructions WITHOUT the lock and the
schedule 0,1,0 end in 10, which neither serial order (5 and 12) produces -/
example :
    let progs : List (List (Seg Nat)) := [[[(· + 1), (· * 2)]], [[fun _ => 5]]]
    (Mutex.run (Mutex.init 0 progs) [0, 0, 1, 0, 0, 1, 1, 1]).st = 5 ∧
    (Mutex.run (Mutex.init 0 progs) [0, 0, 1, 0, 0, 1, 1, 1]).hold = none ∧
    ((Mutex.run (Mutex.init 0 progs) [0, 0, 1, 0, 0, 1, 1, 1]).done.map (·.1)) = [0, 1] ∧
    serial [(1, [fun _ => 5]), (0, [(· + 1), (· * 2)])] 0 = 12 ∧
    runRaw 0 progs [0, 1, 0] = 10 := by
  refine ⟨rfl, rfl, rfl, rfl, rfl⟩

end Verif.C01
