/-
C15 — accounts and pools are a conserved ledger; service is paid before delivery.

Property theorems only.  Model: `Verif/Model/Rhp.lean` (handlers of `/repo/rhp/v4/server.go`, accounts,
pools, attachments and `DebitAccount` exactly as `/repo/testutil/host.go`); lemmas:
`Verif/Lemmas/Rhp.lean`.  Signatures are ideal; currency is `Nat` (so "never negative" is stated
as: every subtraction the code performs is exact — the books balance).  Tied to the real code by
`harness/c15` (balances at, just below and just above every cost, own balance and pools in
attachment order; every replenish/fund/attach/detach variant; random histories).
-/
import Verif.Lemmas.Rhp
import Verif.Extracted.RhpHostFacts

namespace Verif.C15
open Verif.Rhp

/-! ### balances move only through a credit or a debit -/

/-- every handler of every request either leaves all balances alone or ends in a credit / debit -/
theorem balances_move_only_by_credit_or_debit (h : Host) (r : Req) :
    (match (Rhp.decide h r).eff with
     | .credit _ _ _ _ | .debit _ _ | .debitStore _ _ _ => True
     | _ => (step h r).1.accounts = h.accounts ∧ (step h r).1.pools = h.pools) := by
  simp only [step]
  cases he : (Rhp.decide h r).eff <;> simp only [apply] <;> try trivial
  · split <;> exact ⟨rfl, rfl⟩

/-- **credits_backed**: whenever a handler credits accounts or pools, the same call persists a
revision of a revisable contract that (i) is signed by the contract's renter key over exactly that
revision, (ii) lowers the renter payout by exactly the deposited total and raises the host payout
by the same amount, with a higher revision number — and every balance grows by exactly the
deposits naming it -/
theorem credits_backed (h : Host) (r : Req) (pool : Bool) (cid : Nat) (c : Contract) (ds : List (Nat × Nat))
    (he : (Rhp.decide h r).eff = .credit pool cid c ds) :
    ∃ cs, h.contracts cid = some cs ∧ revisable h cs = true ∧ RevStep cs.c c (depositTotal ds) ∧
      (step h r).1.contracts cid = some { cs with c := c } ∧
      (if pool then
         (∀ a, poolBal (step h r).1.pools a = poolBal h.pools a + depositTo a ds) ∧ (step h r).1.accounts = h.accounts
       else
         (∀ a, (step h r).1.accounts a = h.accounts a + depositTo a ds) ∧ (step h r).1.pools = h.pools) := by
  have ho := decide_effectOk h r
  rw [he] at ho
  obtain ⟨cs, hc, hr, hs, _⟩ := ho
  refine ⟨cs, hc, hr, hs, ?_, ?_⟩
  · simp only [step, he, apply, hc]; cases pool <;> simp [upd_same]
  · cases pool
    · simp only [step, he, apply, hc, Bool.false_eq_true, if_false]
      refine ⟨fun a => creditAccounts_apply ds h.accounts a, ?_⟩
      first | rfl | trivial
    · simp only [step, he, apply, hc, if_true]
      refine ⟨fun a => creditPools_apply ds h.pools a, ?_⟩
      first | rfl | trivial

/-- an account named several times in one fund batch is credited every one of its entries -/
theorem fund_same_account_twice_credits_both (acc : Nat → Nat) (a x y : Nat) :
    creditAccounts acc [(a, x), (a, y)] a = acc a + x + y := by
  rw [creditAccounts_apply]
  simp [depositTo]
  omega

/-- crediting from a snapshot of the balances (every new balance computed from the balance before
the batch, then stored) is a different function: the later entry overwrites the earlier one and the
account receives less than the revision moved -/
def creditFromSnapshot (acc : Nat → Nat) (ds : List (Nat × Nat)) : Nat → Nat :=
  ds.foldl (fun f d => upd f d.1 (acc d.1 + d.2)) acc

theorem snapshot_credit_loses_a_deposit :
    ∃ (a x y : Nat), creditFromSnapshot (fun _ => 0) [(a, x), (a, y)] a < depositTotal [(a, x), (a, y)] ∧
      creditAccounts (fun _ => 0) [(a, x), (a, y)] a = depositTotal [(a, x), (a, y)] :=
  ⟨7, 5, 3, by decide, by decide⟩

/-- … and the per-account credits add up to the total the revision moved (one-to-one matching) -/
theorem credits_sum_to_transfer (ds : List (Nat × Nat)) (keys : List Nat) (hn : keys.Nodup)
    (hk : ∀ d ∈ ds, d.1 ∈ keys) : (keys.map fun a => depositTo a ds).sum = depositTotal ds :=
  depositTo_sum ds keys hn hk

/-! ### debits -/

/-- attachment lists are duplicate-free after any history -/
theorem attachments_nodup (h : Host) (hi : AttInv h) (ops : List Op) : AttInv (run h ops) := run_attInv ops hi

/-- **debit_exact / no_negative**: a successful debit takes exactly the cost out of the account's
own balance plus its attached pools; no subtraction truncates -/
theorem debit_exact (h : Host) (hi : AttInv h) (a cost : Nat) (hc : canDebit h a cost = true) :
    (debit h a cost).accounts a + poolSum (debit h a cost).pools (h.attached a) + cost
      = h.accounts a + poolSum h.pools (h.attached a) :=
  debit_conserves h a cost (hi a) hc

/-- own balance first … -/
theorem debit_own_balance_first (h : Host) (a cost : Nat) :
    (debit h a cost).accounts a = h.accounts a - min (h.accounts a) cost ∧
    (h.accounts a < cost → (debit h a cost).accounts a = 0) ∧
    (cost ≤ h.accounts a → (debit h a cost).pools = h.pools) :=
  debit_own_first h a cost

/-- … then the pools in attachment order: a pool loses money only after every pool attached
before it has been emptied -/
theorem debit_pools_in_attachment_order (h : Host) (hi : AttInv h) (a cost : Nat)
    (l1 : List Nat) (p : Nat) (l2 : List Nat) (hsplit : h.attached a = l1 ++ p :: l2)
    (hlt : poolBal (debit h a cost).pools p < poolBal h.pools p) :
    ∀ q ∈ l1, poolBal (debit h a cost).pools q = 0 :=
  drainPools_order (h.attached a) h.pools _ (hi a) l1 p l2 hsplit hlt

/-- nobody else's money moves -/
theorem debit_touches_nothing_else (h : Host) (a cost : Nat) :
    (∀ b, b ≠ a → (debit h a cost).accounts b = h.accounts b) ∧
    (∀ p, p ∉ h.attached a → (debit h a cost).pools p = h.pools p) ∧
    (∀ p, poolBal (debit h a cost).pools p ≤ poolBal h.pools p) :=
  ⟨(debit_frame h a cost).1, (debit_frame h a cost).2.1, (debit_frame h a cost).2.2.1⟩

/-- a debit happens only for a read, write or verification, for exactly its priced cost, with
sufficient drawable funds, and the service is then carried out (`ok`) -/
theorem debit_is_priced_service (h : Host) (r : Req) :
    (match (Rhp.decide h r).eff with
     | .debit a cost =>
        (∃ p t root off len, r = .read p t root off len ∧ a = t.account ∧ cost = readCost p.f len ∧ h.sectors root = true) ∨
        (∃ p t root leaf, r = .verify p t root leaf ∧ a = t.account ∧ cost = verifyCost p.f ∧ h.sectors root = true)
     | .debitStore a cost root =>
        ∃ p t len, r = .write p t len (some root) ∧ a = t.account ∧ cost = writeCost p.f len
     | _ => True) ∧
    ((∀ a cost, (Rhp.decide h r).eff = .debit a cost → canDebit h a cost = true ∧ (Rhp.decide h r).out.cls = .ok) ∧
     (∀ a cost root, (Rhp.decide h r).eff = .debitStore a cost root →
        canDebit h a cost = true ∧ (Rhp.decide h r).out.cls = .ok ∧ (step h r).1.sectors root = true)) := by
  have hgood := decide_good h r
  have hok := decide_effectOk h r
  constructor
  · cases r <;> simp only [Rhp.decide] <;> try trivial
    case latest cid =>
      have : (decideLatest h cid).eff = .none := by unfold decideLatest; split <;> rfl
      rw [this]; trivial
    case read p t root off len =>
      by_cases hn : (decideRead h p t root off len).eff = .none
      · rw [hn]; trivial
      · obtain ⟨_, _, hs, _, he⟩ := decideRead_eff rfl hn
        rw [he]; exact Or.inl ⟨p, t, root, off, len, rfl, rfl, rfl, hs⟩
    case write p t len data =>
      by_cases hn : (decideWrite h p t len data).eff = .none
      · rw [hn]; trivial
      · obtain ⟨root, hd, _, _, _, he⟩ := decideWrite_eff rfl hn
        rw [he]; subst hd; exact ⟨p, t, len, rfl, rfl, rfl⟩
    case verify p t root leaf =>
      by_cases hn : (decideVerify h p t root leaf).eff = .none
      · rw [hn]; trivial
      · obtain ⟨_, _, hs, _, he⟩ := decideVerify_eff rfl hn
        rw [he]; exact Or.inr ⟨p, t, root, leaf, rfl, rfl, rfl, hs⟩
    case free cid p chal is second =>
      by_cases hn : (decideFree h cid p chal is second).eff = .none
      · rw [hn]; trivial
      · obtain ⟨_, _, _, _, _, _, _, _, _, _, _, he⟩ := decideFree_eff rfl hn; rw [he]; trivial
    case append cid p chal s second =>
      by_cases hn : (decideAppend h cid p chal s second).eff = .none
      · rw [hn]; trivial
      · obtain ⟨_, _, _, _, _, _, _, _, _, _, _, he⟩ := decideAppend_eff rfl hn; rw [he]; trivial
    case roots cid p off len sig =>
      by_cases hn : (decideRoots h cid p off len sig).eff = .none
      · rw [hn]; trivial
      · obtain ⟨_, _, _, _, _, _, _, _, _, _, he⟩ := decideRoots_eff rfl hn; rw [he]; trivial
    case fund cid ds sig =>
      by_cases hn : (decideFund h cid ds sig).eff = .none
      · rw [hn]; trivial
      · obtain ⟨_, _, _, _, _, _, _, he⟩ := decideFund_eff rfl hn; rw [he]; trivial
    case replenish pool cid accounts target chal second =>
      by_cases hn : (decideReplenish h pool cid accounts target chal second).eff = .none
      · rw [hn]; trivial
      · obtain ⟨_, _, _, _, _, _, _, _, _, _, _, he⟩ := decideReplenish_eff rfl hn; rw [he]; trivial
    case attach l =>
      by_cases hn : (decideAttach h l).eff = .none
      · rw [hn]; trivial
      · obtain ⟨_, _, _, he⟩ := decideAttach_eff rfl hn; rw [he]; trivial
    case detach l =>
      by_cases hn : (decideDetach h l).eff = .none
      · rw [hn]; trivial
      · obtain ⟨_, _, he⟩ := decideDetach_eff rfl hn; rw [he]; trivial
  · constructor
    · intro a cost he
      rw [he] at hok
      rcases hgood with hn | hk
      · rw [he] at hn; cases hn
      · exact ⟨hok, hk⟩
    · intro a cost root he
      rw [he] at hok
      rcases hgood with hn | hk
      · rw [he] at hn; cases hn
      · refine ⟨hok, hk, ?_⟩
        simp [step, he, apply, upd_same]

/-- **insufficient_is_noop**: if the drawable funds (own balance, then attached pools in attachment
order) do not cover the priced cost, a read / write / verify delivers nothing (`payment`), touches
the sector store with neither a read nor a store, and leaves every balance — the whole host state —
as it was -/
theorem insufficient_is_noop (h : Host) (p : Prices) (t : Token) :
    (∀ root off len, canDebit h t.account (readCost p.f len) = false →
       (step h (.read p t root off len)).1 = h ∧ (step h (.read p t root off len)).2.1.cls ≠ .ok ∧
       ∀ e ∈ (step h (.read p t root off len)).2.2, e.isService = false) ∧
    (∀ len data, canDebit h t.account (writeCost p.f len) = false →
       (step h (.write p t len data)).1 = h ∧ (step h (.write p t len data)).2.1.cls ≠ .ok ∧
       ∀ e ∈ (step h (.write p t len data)).2.2, e.isService = false) ∧
    (∀ root leaf, canDebit h t.account (verifyCost p.f) = false →
       (step h (.verify p t root leaf)).1 = h ∧ (step h (.verify p t root leaf)).2.1.cls ≠ .ok ∧
       ∀ e ∈ (step h (.verify p t root leaf)).2.2, e.isService = false) := by
  refine ⟨?_, ?_, ?_⟩
  · intro root off len hc
    have hn : (decideRead h p t root off len).eff = .none := by
      by_cases hn : (decideRead h p t root off len).eff = .none
      · exact hn
      · obtain ⟨_, _, _, hd, _⟩ := decideRead_eff rfl hn; rw [hc] at hd; cases hd
    have hcls : (decideRead h p t root off len).out.cls ≠ .ok := fun hk => decideRead_strict h p t root off len hk hn
    refine ⟨by simp only [step, Rhp.decide, hn, apply], hcls, ?_⟩
    simp only [step, Rhp.decide, decideRead, hc, Bool.not_false, if_true]
    repeat' split
    all_goals (intro e he; simp [reject] at he)
    all_goals (first | (rcases he with rfl | rfl <;> rfl) | (subst he; rfl))
  · intro len data hc
    have hn : (decideWrite h p t len data).eff = .none := by
      by_cases hn : (decideWrite h p t len data).eff = .none
      · exact hn
      · obtain ⟨_, _, _, _, hd, _⟩ := decideWrite_eff rfl hn; rw [hc] at hd; cases hd
    have hcls : (decideWrite h p t len data).out.cls ≠ .ok := fun hk => decideWrite_strict h p t len data hk hn
    refine ⟨by simp only [step, Rhp.decide, hn, apply], hcls, ?_⟩
    simp only [step, Rhp.decide, decideWrite, hc, Bool.not_false, if_true]
    repeat' split
    all_goals (intro e he; simp [reject] at he)
    all_goals (first | (rcases he with rfl | rfl <;> rfl) | (subst he; rfl))
  · intro root leaf hc
    have hn : (decideVerify h p t root leaf).eff = .none := by
      by_cases hn : (decideVerify h p t root leaf).eff = .none
      · exact hn
      · obtain ⟨_, _, _, hd, _⟩ := decideVerify_eff rfl hn; rw [hc] at hd; cases hd
    have hcls : (decideVerify h p t root leaf).out.cls ≠ .ok := fun hk => decideVerify_strict h p t root leaf hk hn
    refine ⟨by simp only [step, Rhp.decide, hn, apply], hcls, ?_⟩
    simp only [step, Rhp.decide, decideVerify, hc, Bool.not_false, if_true]
    repeat' split
    all_goals (intro e he; simp [reject] at he)
    all_goals (first | (rcases he with rfl | rfl <;> rfl) | (subst he; rfl))

/-- **service_after_debit**: in the calls any handler makes for any request, every sector read or
store comes after a successful `DebitAccount` (existence check → debit → read; debit → store) -/
theorem service_after_debit (h : Host) (r : Req) : paidFirst false (step h r).2.2 = true :=
  decide_paidFirst h r

open Verif.Extracted in
/-- the statement order the model transcribes, re-read from `/repo/rhp/v4/server.go` on every run
(`Extracted/RhpHostFacts.lean`): existence check → the single debit → read; the single debit →
store; attach/detach verify every signature before the contractor is called -/
theorem source_order_service :
    (RhpHost.read.found = true ∧ 0 < RhpHost.read.validate ∧ RhpHost.read.validate < RhpHost.read.hasSector ∧
      RhpHost.read.hasSector < RhpHost.read.debit ∧ RhpHost.read.debit < RhpHost.read.service ∧ RhpHost.read.debitCalls = 1) ∧
    (RhpHost.verify.found = true ∧ 0 < RhpHost.verify.validate ∧ RhpHost.verify.validate < RhpHost.verify.hasSector ∧
      RhpHost.verify.hasSector < RhpHost.verify.debit ∧ RhpHost.verify.debit < RhpHost.verify.service ∧ RhpHost.verify.debitCalls = 1) ∧
    (RhpHost.write.found = true ∧ 0 < RhpHost.write.validate ∧ RhpHost.write.validate < RhpHost.write.debit ∧
      RhpHost.write.debit < RhpHost.write.service ∧ RhpHost.write.debitCalls = 1) ∧
    (RhpHost.attach.found = true ∧ 0 < RhpHost.attach.verifySig ∧ RhpHost.attach.verifySig < RhpHost.attach.persist) ∧
    (RhpHost.detach.found = true ∧ 0 < RhpHost.detach.verifySig ∧ RhpHost.detach.verifySig < RhpHost.detach.persist) := by
  decide

open Verif.Extracted in
/-- the replenish handlers check for duplicate accounts before they lock the contract -/
theorem source_order_replenish_guard :
    ∀ hd ∈ [RhpHost.replenishAccounts, RhpHost.replenishPools],
      0 < hd.uniqueAccounts ∧ hd.uniqueAccounts < hd.lock := by
  decide

open Verif.Extracted in
/-- a credit is handed to the contractor only after the renter's signature over the revision has
been verified, and there is exactly one crediting call -/
theorem source_order_credit_after_verification :
    ∀ hd ∈ [RhpHost.fund, RhpHost.replenishAccounts, RhpHost.replenishPools],
      hd.found = true ∧ 0 < hd.verifySig ∧ hd.verifySig < hd.persist ∧ hd.persistCalls = 1 := by
  decide

/-! ### replenish -/

/-- **replenish_tops_up**: a replenish that answers `ok` names every account (pool) once, brings
each of them up to the target and never beyond (`max balance target`), and touches no other
balance.  The duplicate-free list is a checked guard of the handler, not an assumption. -/
theorem replenish_tops_up (h : Host) (pool : Bool) (cid : Nat) (accounts : List Nat) (target : Nat) (chal : Sig)
    (second : Option Sig)
    (hok : (step h (.replenish pool cid accounts target chal second)).2.1.cls = .ok) :
    accounts.Nodup ∧
    (if pool then
       (∀ a, poolBal (step h (.replenish pool cid accounts target chal second)).1.pools a
          = if a ∈ accounts then max (poolBal h.pools a) target else poolBal h.pools a) ∧
       (step h (.replenish pool cid accounts target chal second)).1.accounts = h.accounts
     else
       (∀ a, (step h (.replenish pool cid accounts target chal second)).1.accounts a
          = if a ∈ accounts then max (h.accounts a) target else h.accounts a) ∧
       (step h (.replenish pool cid accounts target chal second)).1.pools = h.pools) := by
  obtain ⟨hdup, hzero⟩ := decideReplenish_ok h pool cid accounts target chal second hok
  have hnd := hasDup_false hdup
  refine ⟨hnd, ?_⟩
  by_cases hn : (decideReplenish h pool cid accounts target chal second).eff = .none
  · -- nothing needed topping up
    have hz := replenish_zero_total (hzero hn)
    have hst : (step h (.replenish pool cid accounts target chal second)).1 = h := by
      simp only [step, Rhp.decide, hn, apply]
    rw [hst]
    cases pool
    · simp only [Bool.false_eq_true, if_false] at hz ⊢
      refine ⟨fun a => ?_, by first | rfl | trivial⟩
      split
      · rename_i ha; have := hz a ha; omega
      · rfl
    · simp only [if_true] at hz ⊢
      refine ⟨fun a => ?_, by first | rfl | trivial⟩
      split
      · rename_i ha; have := hz a ha; omega
      · rfl
  · obtain ⟨cs, b', rsig, hc, _, _, _, _, _, _, _, he⟩ := decideReplenish_eff rfl hn
    cases pool
    · simp only [Bool.false_eq_true, if_false] at he ⊢
      simp only [step, Rhp.decide, he, apply, hc, Bool.false_eq_true, if_false]
      refine ⟨fun a => ?_, ?_⟩
      · rw [creditAccounts_apply, depositTo_replenish _ _ _ hnd]
        split <;> omega
      · first | rfl | trivial
    · simp only [if_true] at he ⊢
      simp only [step, Rhp.decide, he, apply, hc, if_true]
      refine ⟨fun a => ?_, ?_⟩
      · rw [creditPools_apply, depositTo_replenish _ _ _ hnd]
        split <;> omega
      · first | rfl | trivial

/-- the pinned code computed every deposit from the balances read before the RPC and had no
duplicate check: with the same account twice the balance ends above the target.  (What the
handler would do without its guard, on a concrete request.) -/
theorem replenish_without_guard_exceeds_target :
    ∃ (bal : Nat → Nat) (target a : Nat),
      creditAccounts bal (replenishDeposits bal target [a, a]) a > max (bal a) target :=
  ⟨fun _ => 0, 1, 7, by decide⟩

/-! ### attach / detach -/

/-- **attach_detach_need_sig**: an attach batch takes effect only if *every* entry carries a
signature by its pool's key over exactly (attach, this host, account, pool, expiry), is unexpired
and names an existing pool; otherwise nothing changes -/
theorem attach_needs_pool_signature (h : Host) (l : List Link) :
    ((step h (.attach l)).1 ≠ h →
      ∀ a ∈ l, a.sig = .mk a.pool (.attach h.hostKey a.account a.pool a.validUntil) ∧
               ¬ (a.validUntil < h.now) ∧ (h.pools a.pool).isSome = true) ∧
    ((∃ a ∈ l, a.sig ≠ .mk a.pool (.attach h.hostKey a.account a.pool a.validUntil)) → (step h (.attach l)).1 = h) := by
  have key : (decideAttach h l).eff ≠ .none →
      ∀ a ∈ l, a.sig = .mk a.pool (.attach h.hostKey a.account a.pool a.validUntil) ∧
               ¬ (a.validUntil < h.now) ∧ (h.pools a.pool).isSome = true := by
    intro hn a ha
    obtain ⟨hv, hs, hp, _⟩ := decideAttach_eff rfl hn
    have h1 := List.all_eq_true.mp hs a ha
    have h2 := List.all_eq_true.mp hp a ha
    simp only [linksValid, Bool.and_eq_true] at hv
    have h3 := List.all_eq_true.mp hv.2 a ha
    simp only [Bool.and_eq_true, Bool.not_eq_true', decide_eq_false_iff_not] at h3
    exact ⟨(verify_iff _ _ _).mp h1, h3.1.2, h2⟩
  constructor
  · intro hne
    apply key
    intro hn
    apply hne
    simp only [step, Rhp.decide, hn, apply]
  · rintro ⟨a, ha, hbad⟩
    by_cases hn : (decideAttach h l).eff = .none
    · simp only [step, Rhp.decide, hn, apply]
    · exact absurd (key hn a ha).1 hbad

/-- … and a detach batch only if every entry is signed by the pool's or the account's key over
exactly (detach, this host, account, pool, expiry) — an attach signature does not detach -/
theorem detach_needs_signature (h : Host) (l : List Link) :
    (step h (.detach l)).1 ≠ h →
      ∀ d ∈ l, (d.sig = .mk d.pool (.detach h.hostKey d.account d.pool d.validUntil) ∨
                d.sig = .mk d.account (.detach h.hostKey d.account d.pool d.validUntil)) ∧
               ¬ (d.validUntil < h.now) := by
  intro hne d hd
  have hn : (decideDetach h l).eff ≠ .none := by
    intro hn; apply hne; simp only [step, Rhp.decide, hn, apply]
  obtain ⟨hv, hs, _⟩ := decideDetach_eff rfl hn
  have h1 := List.all_eq_true.mp hs d hd
  simp only [linksValid, Bool.and_eq_true] at hv
  have h3 := List.all_eq_true.mp hv.2 d hd
  simp only [Bool.and_eq_true, Bool.not_eq_true', decide_eq_false_iff_not] at h3
  simp only [Bool.or_eq_true, verify_iff] at h1
  exact ⟨h1, h3.1.2⟩

/-! ### non-vacuity -/

namespace Example
def pf : PriceFields := { contractPrice := 5, collateral := 2, storage := 1, ingress := 1, egress := 3,
                          freeSector := 7, tipHeight := 10, validUntil := 2000 }
def pr : Prices := { f := pf, sig := .mk 1 (.prices pf) }
def b0 : Body := { rev := 0, renterOut := 10 ^ 15, hostOut := 10 ^ 15 + 5, missedHost := 10 ^ 15, totalColl := 10 ^ 15,
                   filesize := 0, capacity := 0, proofHeight := 100, expHeight := 244, renterKey := 3, hostKey := 1,
                   root := .zero }
def c0 : Contract := { body := b0, renterSig := .mk 3 (.contract b0), hostSig := .mk 1 (.contract b0) }
def sign (h : Host) (cid : Nat) (amount : Nat) : Sig :=
  match h.contracts cid with
  | some cs => match reviseFund cs.c.body amount with
    | some b => .mk cs.c.body.renterKey (.contract b)
    | none => .bad
  | none => .bad
def replChal (h : Host) (cid : Nat) (accts : List Nat) (target : Nat) : Sig :=
  match h.contracts cid with
  | some cs => .mk cs.c.body.renterKey (.replChallenge accts target cid cs.c.body.rev)
  | none => .bad
def tok (a : Nat) : Token := { hostKey := 1, account := a, validUntil := 2000, sig := .mk a (.token 1 a 2000) }
/-- read cost of 64 bytes at egress 3 = 3 * 4096 = 12288 -/
def cost : Nat := readCost pf 64
def h0 : Host := run (Host.init 1 1000 10) [.form 1 c0, .sector 11]
-- fund account 10 with cost-1, pool 20 gets 1 by a pool replenish, attach 20 to 10
def h1 : Host := (step h0 (.fund 1 [(10, cost - 1)] (sign h0 1 (cost - 1)))).1
def h2 : Host := (step h1 (.replenish true 1 [20] 1 (replChal h1 1 [20] 1) (some (sign h1 1 1)))).1
def h3 : Host := (step h2 (.attach [{ account := 10, pool := 20, validUntil := 2000, sig := .mk 20 (.attach 1 10 20 2000) }])).1

example : h1.accounts 10 = cost - 1 := by decide
example : (step h1 (.read pr (tok 10) 11 0 64)).2.1.cls = .payment := by decide   -- one short: refused
example : (step h1 (.read pr (tok 10) 11 0 64)).1.accounts 10 = cost - 1 := by decide
example : poolBal h2.pools 20 = 1 := by decide
example : h3.attached 10 = [20] := by decide
example : (step h3 (.read pr (tok 10) 11 0 64)).2.1 = { cls := .ok, vals := [64] } := by decide   -- exactly enough
example : (step h3 (.read pr (tok 10) 11 0 64)).1.accounts 10 = 0 := by decide
example : poolBal (step h3 (.read pr (tok 10) 11 0 64)).1.pools 20 = 0 := by decide
example : (step h3 (.read pr (tok 10) 11 0 64)).2.2 = [.has 11, .debit 10 cost true, .read 11 0 64] := by decide
-- the same account twice is refused
example : (step h3 (.replenish false 1 [10, 10] 5 (replChal h3 1 [10, 10] 5) (some (sign h3 1 10)))).2.1.cls = .badreq := by decide
-- an attach signed by the account instead of the pool changes nothing
example : (step h2 (.attach [{ account := 10, pool := 20, validUntil := 2000, sig := .mk 10 (.attach 1 10 20 2000) }])).1.attached 10 = [] := by
  decide
end Example

end Verif.C15
