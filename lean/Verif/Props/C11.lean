/-
C11 — a Byzantine peer cannot corrupt, crash or stall an honest syncer's chain.

Property theorems only (helper lemmas: `Lemmas/Sync.lean`, model: `Model/Sync.lean`).  The
theorems are about the **decision logic** of the syncer (`syncLoop`, `Peer.SendHeaders`,
`Peer.SendCheckpoint`, `parallelSync`'s `workFn`/finisher, the relay handlers) composed with a
minimal abstract chain manager, for *any* peer behaviour: a behaviour is a list of events
(`Ev`), each carrying whatever the peer chose to answer; `Ev.batch` reaches the manager with an
arbitrary request, so every interleaving, duplication and re-queueing of requests of any number
of peers is such a list.  Consensus (what `ValidateHeader/ValidateOrphan/ValidateBlock` say
about a block on its own ancestry) and hash injectivity are parameters (`Blk` attributes,
`HashBinds`).  Network timing, timeouts and resource exhaustion are not modelled; that the
handler goroutine survives a panic is a fact regenerated from the source
(`handler_panics_recovered`); that the node still reaches the honest peers' heaviest chain
*within a deadline* is checked on the implementation only.
-/
import Verif.Lemmas.Sync
import Verif.Lemmas.SyncChain
import Verif.Props.C01
import Verif.Extracted.SyncerFacts

namespace Verif.C11
open Verif.Sync

/-- **below the require height** a batch reaches the manager only through the fully
validating `AddBlocks` and only if the delivered blocks carry exactly the IDs of the validated
headers of that request. -/
theorem gate_v1_sound (U : Univ) (cfg : Cfg) (q : Req) (r : BResp) (bs : List Nat)
    (h : gateBatch U cfg q r = .ok bs false) :
    q.baseHeight < cfg.require ∧ r.blocks = some bs ∧
      bs.map (fun b => (U b).cid) = q.hdrs.map (fun b => (U b).cid) :=
  gateBatch_ok_false cfg q r bs h

/-- a **truncated** (or over-long) answer — e.g. a genuine prefix of the batch, no field
corrupted — never reaches the manager on either path: the request is retried with another peer
(if it were accepted, the next batch would lack its parent and its honest sender would be blamed) -/
theorem truncated_batch_not_accepted (U : Univ) (cfg : Cfg) (q : Req) (cp : Option CpResp) (bs : List Nat)
    (hl : bs.length ≠ q.hdrs.length) : gateBatch U cfg q ⟨cp, some bs⟩ = .retry := by
  unfold gateBatch
  simp only []
  cases cp <;> repeat' split
  all_goals first
    | rfl
    | (rename_i h; simp_all)

/-- **at or above the require height** a batch reaches `AddValidatedV2Blocks` only if the
checkpoint answer is a v2 block with one miner payout, carrying the requested ID, whose
commitment matches the supplied state, the right number of blocks ending in the request's tip
was delivered, and every block passed `ValidateBlock` on the state chain derived from the
checkpoint. -/
theorem gate_v2_sound (U : Univ) (cfg : Cfg) (q : Req) (r : BResp) (bs : List Nat)
    (h : gateBatch U cfg q r = .ok bs true) :
    cfg.require ≤ q.baseHeight ∧ ∃ cp, r.cp = some cp ∧ cp.isV2 = true ∧ cp.onePayout = true ∧ cp.noV1 = true ∧
      sameId U cp.blk q.base = true ∧ cp.commitOk = true ∧ (U cp.blk).orphan = true ∧ r.blocks = some bs ∧
      bs.length = q.hdrs.length ∧ sameId U (bs.getLastD 0) (q.hdrs.getLastD 0) = true ∧
      validateChain U cp.genuine cp.blk bs = true :=
  gateBatch_ok_true cfg q r bs h

/-- (repaired defect) a checkpoint answer whose block carries a v1 transaction never gets as far
as `ApplyBlock` (which would index the empty v1 supplement): the request is retried -/
theorem checkpoint_with_v1_txns_rejected (U : Univ) (cfg : Cfg) (q : Req) (cp : CpResp) (bl : Option (List Nat))
    (hh : cfg.require ≤ q.baseHeight) (hv1 : cp.noV1 = false) :
    gateBatch U cfg q ⟨some cp, bl⟩ = .retry := by
  simp [gateBatch, hh, hv1]

/-- … and that is exactly the manager's pre-validation contract: under hash injectivity every
block handed to `AddValidatedV2Blocks` is valid whenever its ancestry is. -/
theorem gate_v2_prevalidated (U : Univ) (wf : WF U) (hb : HashBinds U) (cfg : Cfg) (q : Req) (r : BResp)
    (bs : List Nat) (h : gateBatch U cfg q r = .ok bs true) :
    ∀ b ∈ bs, ValidTo U (U b).parent → (U b).body = true :=
  gateBatch_pre wf hb cfg q r bs h

/-- without that hypothesis the gate is **not** sound: a state that is not the genuine one lets
an invalid block through (the witness: block 1 is invalid, the checkpoint answer claims a
matching commitment for a bogus state). So `HashBinds` is not decoration. -/
theorem gate_v2_needs_binding :
    ∃ (U : Univ) (cfg : Cfg) (q : Req) (r : BResp),
      gateBatch U cfg q r = .ok [1] true ∧ (U 1).body = false := by
  refine ⟨fun i => if i = 0 then ⟨0, 0, 0, 1, 5, true, true, true, true, true, false⟩
                    else ⟨0, 1, 1, 2, 5, true, true, true, false, true, false⟩,
    ⟨0, 100⟩, ⟨0, 0, [1]⟩, ⟨some ⟨0, true, true, true, false, true⟩, some [1]⟩, by decide, by decide⟩

/-- **relay gates**: a relayed header never touches the chain; a relayed outline reaches the
manager only if its parent is known, it attaches to the tip, it has sufficient work and its
missing transactions were completed; then it goes through the fully validating `AddBlocks`. -/
theorem relay_gates (U : Univ) (n : Node) (b : Nat) (m : Missing) :
    (stepOutline U n b m).2 = .apply →
      n.known.contains (U b).parent = true ∧ (U b).pow = true ∧
      (U b).parent = (U n.tip).cid ∧ m ≠ .fetchFail ∧ m ≠ .wrong ∧
      (stepOutline U n b m).1 = (addBlocks U n [b]).1 ∧ (addBlocks U n [b]).2 = none := by
  intro h
  unfold stepOutline at h ⊢
  by_cases h1 : (!n.known.contains (U b).parent) = true
  · rw [if_pos h1] at h; cases h
  rw [if_neg h1] at h ⊢
  by_cases h2 : (n.supp.contains (U b).parent && n.known.any (sameId U b)) = true
  · rw [if_pos h2] at h; cases h
  rw [if_neg h2] at h ⊢
  by_cases h3 : ((U b).parent != (U n.tip).cid) = true
  · rw [if_pos h3] at h; cases h
  rw [if_neg h3] at h ⊢
  by_cases h4 : (!(U b).pow) = true
  · rw [if_pos h4] at h; cases h
  rw [if_neg h4] at h ⊢
  refine ⟨by simpa using h1, by simpa using h4, by simpa using h3, ?_⟩
  cases m <;> simp_all

/-- wrong "missing" transactions, insufficient work, or a block the manager rejects ⇒ `ban` —
for an outline that attaches to the tip (only then is its ID meaningful) -/
theorem relay_outline_bans (U : Univ) (n : Node) (b : Nat) (m : Missing)
    (hp : n.known.contains (U b).parent = true)
    (hnew : (n.supp.contains (U b).parent && n.known.any (sameId U b)) = false)
    (ht : (U b).parent = (U n.tip).cid) :
    ((U b).pow = false → (stepOutline U n b m).2 = .ban) ∧
    ((U b).pow = true → m = .wrong → (stepOutline U n b m).2 = .ban) ∧
    ((U b).pow = true → m ≠ .fetchFail → (addBlocks U n [b]).2.isSome = true →
      (stepOutline U n b m).2 = .ban) := by
  rw [ht] at hp hnew
  refine ⟨?_, ?_, ?_⟩
  · intro h; simp only [stepOutline, ht, hp, hnew, h]; simp
  · intro h1 h3; subst h3; simp only [stepOutline, ht, hp, hnew, h1]; simp
  · intro h1 h3 h4
    cases m <;> simp only [stepOutline, ht, hp, hnew, h1, h4] <;> simp at h3 ⊢

/-- (repaired defect) an outline that does **not** attach to the tip is never answered with a
ban, whatever its recomputed ID looks like: a peer announcing a block of a fork we downloaded
but did not adopt is honest. -/
theorem sidechain_outline_never_banned (U : Univ) (n : Node) (b : Nat) (m : Missing)
    (ht : (U b).parent ≠ (U n.tip).cid) :
    (stepOutline U n b m).2 ≠ .ban ∧ (stepOutline U n b m).1 = n := by
  unfold stepOutline
  split
  · simp
  · split
    · simp
    · simp [ht]

theorem relay_header_bans (U : Univ) (cfg : Cfg) (n : Node) (h : Nat)
    (hp : n.known.contains (U h).parent = true) (hnew : n.known.any (sameId U h) = false)
    (hpow : (U h).pow = false) : gateRelayHeader U cfg n h = .ban := by
  simp only [gateRelayHeader, hp, hnew, hpow]; rfl

/-- a header that fails the work test of its (known) parent is banned **whether or not it
attaches to the tip**: the parent's target is header-level data the node holds for every block it
stores, and a header's ID is the header hash itself (unlike an outline's), so the test is
meaningful for a parent that is an earlier block of the best chain or a side-chain block. -/
theorem weak_header_banned_off_tip (U : Univ) (cfg : Cfg) (n : Node) (h : Nat)
    (hp : n.known.contains (U h).parent = true) (hnew : n.known.any (sameId U h) = false)
    (hpow : (U h).pow = false) (_hoff : (U h).parent ≠ (U n.tip).cid) :
    gateRelayHeader U cfg n h = .ban :=
  relay_header_bans U cfg n h hp hnew hpow

/-- (repaired defect) below the require height a valid relayed header that attaches to the tip
flips the peer to unsynced, so the sync loop fetches the (possibly v1) block -/
theorem relay_header_v1_resyncs (U : Univ) (cfg : Cfg) (n : Node) (h : Nat)
    (hp : n.known.contains (U h).parent = true) (hnew : n.known.any (sameId U h) = false)
    (hpow : (U h).pow = true) (ht : (U h).parent = (U n.tip).cid)
    (hv1 : (U n.tip).height + 1 < cfg.require) : gateRelayHeader U cfg n h = .resync := by
  rw [ht] at hp
  simp only [gateRelayHeader, ht, hp, hnew, hpow]; simp [hv1]

/-- **a first-seen memo never suppresses the resync of the relaying peer**: whatever the memo
says, the decision about the peer that relayed a header is the memo-free gate's; the memo only
decides whether the header is passed on. -/
theorem memo_never_suppresses_resync (U : Univ) (cfg : Cfg) (n : Node) (h : Nat) (relayedBefore : Bool) :
    (relayHeaderM U cfg n h relayedBefore).1 = gateRelayHeader U cfg n h := by
  unfold relayHeaderM gateRelayHeader
  repeat' split
  all_goals rfl

/-- hence **every** honest announcement, below the require height, of a block on top of our tip
leads to a pull from THAT peer — also when another peer relayed the same header first -/
theorem every_honest_announcement_pulls (U : Univ) (cfg : Cfg) (n : Node) (h : Nat) (relayedBefore : Bool)
    (hp : n.known.contains (U h).parent = true) (hnew : n.known.any (sameId U h) = false)
    (hpow : (U h).pow = true) (ht : (U h).parent = (U n.tip).cid)
    (hv1 : (U n.tip).height + 1 < cfg.require) :
    (relayHeaderM U cfg n h relayedBefore).1 = .resync := by
  rw [memo_never_suppresses_resync]
  exact relay_header_v1_resyncs U cfg n h hp hnew hpow ht hv1

theorem relay_empty_txnset_bans (a v : Bool) : gateRelayTxns true true a v = .ban := rfl

/-- **no invalid block is ever on the best chain**, whatever any number of peers send, in any
order: starting from a state satisfying the invariant (e.g. the genesis state) every block of
the best chain, and all its ancestors, pass `ValidateBlock`. -/
theorem syncer_preserves_validity (U : Univ) (wf : WF U) (hb : HashBinds U) (cfg : Cfg) (n : Node)
    (h : Inv U n) (evs : List Ev) : ∀ b ∈ (run U cfg n evs).best, (U b).body = true :=
  fun b hbm => ((run_inv wf hb cfg evs n h).best b hbm).body wf

theorem syncer_preserves_inv (U : Univ) (wf : WF U) (hb : HashBinds U) (cfg : Cfg) (n : Node)
    (h : Inv U n) (evs : List Ev) : Inv U (run U cfg n evs) :=
  run_inv wf hb cfg evs n h

/-- **the tip's total work never decreases**, under any message sequence (no hypothesis at all:
not even hash injectivity is needed for this one). -/
theorem tip_work_mono (U : Univ) (cfg : Cfg) (n : Node) (evs : List Ev) :
    (U n.tip).work ≤ (U (run U cfg n evs).tip).work :=
  run_work U cfg evs n

/-- and whenever an event moves the tip, the new tip is *sufficiently* heavier than the old one -/
theorem tip_moves_only_to_heavier (U : Univ) (cfg : Cfg) (n : Node) (q : Req) (r : BResp) :
    (stepBatch U cfg n q r).1.tip = n.tip ∨ heavier U (stepBatch U cfg n q r).1.tip n.tip = true :=
  stepBatch_tip U cfg n q r

/-- **misbehaviour ⇒ ban (1)**: a delivered batch that matches its headers / its checkpoint but
that the manager rejects (an invalid, future or unattached block, a reorg that fails on an
invalid body) is answered with `ban`. -/
theorem rejected_batch_bans (U : Univ) (cfg : Cfg) (n : Node) (q : Req) (r : BResp) (bs : List Nat) (pre : Bool)
    (hg : gateBatch U cfg q r = .ok bs pre)
    (hrej : (if pre then addValidated U n bs else addBlocks U n bs).2.isSome = true) :
    (stepBatch U cfg n q r).2 = .ban := by
  simp only [stepBatch, hg]
  simp [hrej]

/-- **misbehaviour ⇒ ban (2)**: above the require height, a correct checkpoint followed by the
right number of blocks ending in the right tip, one of which fails `ValidateBlock` on the
genuine state chain, is answered with `ban`. -/
theorem invalid_v2_block_bans (U : Univ) (cfg : Cfg) (n : Node) (q : Req) (cp : CpResp) (bs : List Nat)
    (hh : cfg.require ≤ q.baseHeight) (h1 : cp.isV2 = true) (h2 : cp.onePayout = true) (h2' : cp.noV1 = true)
    (h3 : sameId U cp.blk q.base = true) (h4 : cp.commitOk = true) (h4' : (U cp.blk).orphan = true)
    (h5 : bs.length = q.hdrs.length) (h6 : sameId U (bs.getLastD 0) (q.hdrs.getLastD 0) = true)
    (hbad : validateChain U cp.genuine cp.blk bs = false) :
    (stepBatch U cfg n q ⟨some cp, some bs⟩).2 = .ban := by
  simp only [stepBatch, gateBatch, hh, h1, h2, h2', h3, h4, h4', h5, h6, hbad]; simp

/-- **misbehaviour ⇒ ban (3)**: below the require height, blocks that carry the validated
header IDs but contain a block failing `ValidateOrphan` are answered with `ban`, at whatever
position the block sits. -/
theorem invalid_v1_block_bans (U : Univ) (cfg : Cfg) (n : Node) (q : Req) (bs : List Nat)
    (hh : q.baseHeight < cfg.require)
    (hids : bs.map (fun b => (U b).cid) = q.hdrs.map (fun b => (U b).cid))
    (hrej : (addBlocks U n bs).2.isSome = true) :
    (stepBatch U cfg n q ⟨none, some bs⟩).2 = .ban := by
  have hl : bs.length = q.hdrs.length := by simpa using congrArg List.length hids
  have hg : gateBatch U cfg q ⟨none, some bs⟩ = .ok bs false := by
    simp [gateBatch, Nat.not_le.mpr hh, hl, hids]
  exact rejected_batch_bans U cfg n q _ bs false hg (by simpa using hrej)

/-- what is *not* ban-worthy by the code's own policy: headers that fail validation only drop
the peer, blocks that do not match the headers or a checkpoint that does not bind are retried
with another peer. -/
theorem invalid_headers_only_drop (U : Univ) (cfg : Cfg) (n : Node) (base : Nat) (rest l : List Nat) (rem : Nat)
    (rs : List HResp) (bs : List BResp) (hh : history n.best = base :: rest)
    (hbad : headersOk U base l = false) :
    (stepSync U cfg n (.hdrs l rem :: rs) bs).2.dec = .drop ∧ (stepSync U cfg n (.hdrs l rem :: rs) bs).1 = n := by
  unfold stepSync
  rw [hh]
  simp only [headerPhase, hbad]
  simp

/-! ### the same gates in front of the chain-manager model M2 (`Model/Chain.lean`, C01)

`SyncC.stepC` feeds `Chain.addBlocks` below the require height and `Chain.addValidatedV2` at/above
it.  `Chain.Inv` (C01) is **not** an invariant of that system under an arbitrary peer — see
`chain_inv_not_preserved` — and not even between two requests of an honest round: a request below
the require height that is not heavier is stored without being applied, and the next one is
stored *with* supplements on top of it.  The invariant that does hold for every peer behaviour is
`SyncC.InvW` (supplement ⇒ valid *relative to the ancestry*; best chain fully valid). -/

section OnChainModel
open Verif.SyncC

/-- **any peer behaviour, on the chain-manager model**: the weak invariant is preserved by every
list of events (sync rounds with arbitrary answers, single requests with arbitrary request data
in any order, relays), from any state satisfying it — in particular from `Chain.Mgr.init`. -/
theorem chain_syncer_preserves_invW (U : Univ) (nv : NoVariants U) (hU : WFH (toChain U)) (hb : HashBindsC U)
    (cfg : Cfg) (m : Chain.Mgr) (h : InvW (toChain U) m) (evs : List Ev) :
    InvW (toChain U) (runC U cfg m evs) :=
  (runC_spec nv hU hb cfg evs m h).1

/-- … hence the best chain of the chain-manager model is parent-linked from genesis, every block
on it is stored with body and supplement, and it and all its ancestors passed `ValidateBlock` -/
theorem chain_best_always_valid (U : Univ) (nv : NoVariants U) (hU : WFH (toChain U)) (hb : HashBindsC U)
    (cfg : Cfg) (evs : List Ev) :
    Chain.Chain (toChain U) (runC U cfg Chain.Mgr.init evs).best ∧
    ∀ i ∈ (runC U cfg Chain.Mgr.init evs).best, i ≠ 0 → (U i).body = true := by
  have h := chain_syncer_preserves_invW U nv hU hb cfg _ (invW_init hU) evs
  exact ⟨h.chain, fun i hi hne => (h.bestvalid i hi).body hne⟩

/-- … and the total work of its tip never decreases -/
theorem chain_tip_work_mono (U : Univ) (nv : NoVariants U) (hU : WFH (toChain U)) (hb : HashBindsC U)
    (cfg : Cfg) (m : Chain.Mgr) (h : InvW (toChain U) m) (evs : List Ev) :
    (U m.tip).work ≤ (U (runC U cfg m evs).tip).work :=
  (runC_spec nv hU hb cfg evs m h).2

/-- **the bridge to C01's `PreValidated`**: the conclusion of `gate_v2_sound` gives the contract
`C01.inv_addValidatedV2` asks for, *provided* (1) the manager satisfies the strong invariant,
(2) the request's base — the checkpoint block — has been **applied** by this manager (true for
the first request of a round, whose base is on the best chain; true for a later request iff the
previous one was applied or itself went through `AddValidatedV2Blocks`; false after a request
below the require height that was stored without being heavier), and (3) the delivered blocks
pass `ValidateOrphan` and are v2 blocks.  (3) is not established by the gate: `ValidateBlock` on
the derived state implies `ValidateOrphan` only if that state is genuine, and "is a v2 block" is
tested by the manager itself (`notV2`).  That no block is from the future *is* established
(repaired: the checkpoint path applied no future-timestamp policy). -/
theorem gate_v2_gives_PreValidated (U : Univ) (nv : NoVariants U) (hU : WFH (toChain U)) (hb : HashBindsC U)
    (cfg : Cfg) (q : Req) (r : BResp) (bs : List Nat) (m : Chain.Mgr)
    (hg : gateBatch U cfg q r = .ok bs true)
    (hI : Chain.Inv (toChain U) m)
    (hbase : m.recs q.base = some ⟨true, true⟩)
    (hextra : ∀ b ∈ bs, (U b).orphan = true ∧ (U b).v2 = true) :
    Chain.PreValidated (toChain U) m bs := by
  obtain ⟨hl, hc⟩ := gate_v2_contract' nv hU hb cfg q r bs hg
  have hvb : VT (toChain U) q.base := inv_applied_VT hI _ _ rfl hbase
  obtain ⟨_, cp, _, _, _, _, _, _, _, _, _, _, hvc⟩ := gateBatch_ok_true cfg q r bs hg
  constructor
  · intro b hbm
    obtain ⟨e1, e3⟩ := hextra b hbm
    exact ⟨e1, linked_all_body bs q.base hvb hl hc b hbm, validateChain_nofuture cp.genuine bs cp.blk hvc b hbm, e3⟩
  · intro b0 rest e
    subst e
    have hp : Chain.par (toChain U) b0 = q.base := hl.1
    exact ⟨hp ▸ hl, hp ▸ hbase⟩

/-- with that contract the strong invariant of C01 is preserved by one request reaching the
manager (`Chain.addBlocks` below the require height: `addBlocks_spec`; `Chain.addValidatedV2`
at/above it: `C01.inv_addValidatedV2`) -/
theorem chain_inv_strong_step (U : Univ) (hW : Chain.WFU (toChain U)) (cfg : Cfg) (m : Chain.Mgr)
    (q : Req) (r : BResp) (hI : Chain.Inv (toChain U) m)
    (hpre : ∀ bs, gateBatch U cfg q r = .ok bs true → Chain.PreValidated (toChain U) m bs) :
    Chain.Inv (toChain U) (stepBatchC U cfg m q r).1 := by
  unfold stepBatchC
  split
  · exact hI
  · exact hI
  · rename_i bs pre hg
    cases pre
    · exact (Chain.addBlocks_spec hW hI bs).1
    · exact (Verif.C01.inv_addValidatedV2 hW hI bs bs.length (hpre bs hg)).1

/-- the universe of the exception: genesis 0; the victim's block 1 (work 30); the peer's block 2
(work 20) is header-valid but its body is not (its commitment commits to a made-up state); block
3 (work 40) is "valid" on that made-up state only -/
def fakeU : Univ := fun i =>
  match i with
  | 0 => ⟨0, 0, 0, 10, 10, true, true, true, true, false, false⟩
  | 1 => ⟨0, 1, 1, 30, 10, true, true, true, true, true, false⟩
  | 2 => ⟨0, 2, 1, 20, 10, true, true, true, false, true, false⟩
  | 3 => ⟨2, 3, 2, 40, 10, true, true, true, false, true, false⟩
  | _ => ⟨0, 0, 0, 0, 0, false, false, false, false, false, false⟩

/-- the two requests of the exceptional round (require height 1): blocks `[2]` below the require
height (stored, not heavier than the victim's tip 1, never validated), then `[3]` through the
checkpoint path with block 2 as checkpoint and a made-up state that its commitment matches -/
def fakeRound : List Ev :=
  [.batch ⟨0, 0, [1]⟩ ⟨none, some [1]⟩,
   .batch ⟨0, 0, [2]⟩ ⟨none, some [2]⟩,
   .batch ⟨2, 1, [3]⟩ ⟨some ⟨2, true, true, true, false, true⟩, some [3]⟩]

/-- **`Chain.Inv` is not preserved by the syncer under a Byzantine peer** (nor is it by the real
code, which this model transcribes): after the exceptional round block 3 is stored with a
supplement on top of block 2, which has none (`suppclosed`), and never passed `ValidateBlock`
(`valid`).  The reorg it triggers fails at block 2 and is rolled back: the best chain is untouched
and `InvW` holds (`chain_syncer_preserves_invW`). -/
theorem chain_inv_not_preserved :
    ¬ Chain.Inv (toChain fakeU) (runC fakeU ⟨1, 100⟩ Chain.Mgr.init fakeRound) ∧
    (runC fakeU ⟨1, 100⟩ Chain.Mgr.init fakeRound).best = [1, 0] := by
  refine ⟨?_, by decide⟩
  intro h
  have h3 : (runC fakeU ⟨1, 100⟩ Chain.Mgr.init fakeRound).recs 3 = some ⟨true, true⟩ := by decide
  have := h.s.valid 3 (by decide) h3
  revert this
  decide

end OnChainModel

/-! ### facts regenerated from `/repo/syncer/peer.go` on every run (`harness/srcfacts/syncer.go`) -/

/-- **the handler goroutine survives a panic**: `handleRPC` starts with a deferred function that
calls `recover()` (a panic while serving one RPC of one peer does not take the node down). -/
theorem handler_panics_recovered : Verif.Extracted.syncerFacts.handleRPCRecovers = true := by decide

/-- the source order of the tests in the relay handlers is the order the model transcribes:
outline — attachment to the tip before the work of the recomputed ID (the repaired order);
header — work before attachment, a resync below the require height, and that resync before any
use of the "relayed recently" memo (`relayHeaderM`). -/
theorem relay_check_order_as_modelled :
    Verif.Extracted.syncerFacts.outlineTipTestBeforeWorkTest = true ∧
    Verif.Extracted.syncerFacts.headerWorkTestBeforeTipTest = true ∧
    Verif.Extracted.syncerFacts.headerResyncBelowRequire = true ∧
    Verif.Extracted.syncerFacts.headerResyncBeforeMemo = true := by decide

/-- every RPC of the gateway protocol has exactly one case in `handleRPC`, and anything else
falls into `default` (an error, no state change): the set the harness enumerates is complete. -/
theorem every_gateway_rpc_has_a_case :
    Verif.Extracted.syncerFacts.handlerCases =
      ["RPCShareNodes", "RPCDiscoverIP", "RPCSendHeaders", "RPCSendV2Blocks", "RPCSendTransactions",
       "RPCSendCheckpoint", "RPCRelayV2Header", "RPCRelayV2BlockOutline", "RPCRelayV2TransactionSet",
       "default"] := by decide

/-! ### non-vacuity: a concrete universe and a concrete adversarial run -/

/-- **the header list and the remainder are two independent peer-controlled values.**  An answer
without headers ends the header phase as "synced" whatever number of remaining headers it claims
(the node is unchanged by the round), and the phase hands headers on (`go`) only when the list is
non-empty — so the "last header" the sync loop then takes always exists.  (A loop that tested
`len = 0 ∧ remaining = 0` and indexed the last header otherwise would die on `[]`/`7`: the sync
loop has no recover.) -/
theorem empty_headers_synced_whatever_remaining (U : Univ) (id : Nat) (hist : List Nat) (rem : Nat)
    (rs : List HResp) :
    headerPhase U (id :: hist) (.hdrs [] rem :: rs) = (.synced, [id]) ∧
    (∀ (h : List Nat) (resp : List HResp) (base : Nat) (l : List Nat) (r : Nat) (asked : List Nat),
      headerPhase U h resp = (.go base l r, asked) → l ≠ []) := by
  refine ⟨by simp [headerPhase, headersOk], ?_⟩
  intro h
  induction h with
  | nil => intro resp base l r asked he; simp [headerPhase] at he
  | cons i hist ih =>
    intro resp base l r asked he
    cases resp with
    | nil => simp [headerPhase] at he
    | cons x xs =>
      cases x with
      | eof =>
        simp only [headerPhase] at he
        have h1 : (headerPhase U hist xs).1 = .go base l r := by
          have := congrArg Prod.fst he; simpa using this
        exact ih xs base l r (headerPhase U hist xs).2 (by rw [← h1])
      | err => simp [headerPhase] at he
      | hdrs l' rem' =>
        simp only [headerPhase] at he
        split at he
        · simp at he
        · split at he
          · simp at he
          · rename_i _ hne
            have : l' = l := by
              have := congrArg Prod.fst he; simp at this; exact this.2.1
            subst this
            intro hnil; subst hnil; simp at hne

/-- **a relayed outline is judged by the block it determines, not by its ID.**  The model's
`relayOutline b` carries a *block* of the universe — every field the outline fixes, the height
it claims included (`(U b).orphan` is `ValidateOrphan` of that block) — and several blocks may
share one header ID (`sameId`): the ID of an outline does not cover its height field, so anybody
who has seen a valid block can produce an outline with the same ID (and proof of work) that
`ValidateOrphan` rejects.  Such an outline `v` is answered (with a ban when it attaches to the
tip) and leaves **no trace**: the node is unchanged, hence the verdict on any outline `b` relayed
afterwards — in particular the real block with the same ID, relayed by honest peers — is exactly
what it would have been.  (A handler that remembered "an outline with this ID was rejected" and
judged later outlines by that would ban every honest relayer of the block.) -/
theorem outline_judged_by_block_not_id (U : Univ) (n : Node) (v b : Nat) (mv m : Missing)
    (hv : (U v).orphan = false) (hs : n.supp.any (sameId U v) = false) :
    (stepOutline U n v mv).1 = n ∧
    stepOutline U (stepOutline U n v mv).1 b m = stepOutline U n b m := by
  have h1 : (stepOutline U n v mv).1 = n := by
    have hsl : ∃ e, storeLoop U n n.tip [v] = (n, n.tip, some e) := by
      simp only [storeLoop, hs, hv]
      rw [if_neg (by decide)]
      by_cases hp : ((U v).parent != (U n.tip).cid && !n.known.contains (U v).parent) = true
      · exact ⟨_, by rw [if_pos hp]⟩
      · rw [if_neg hp]
        by_cases hf : (U v).future = true
        · exact ⟨_, by rw [if_pos hf]⟩
        · exact ⟨_, by rw [if_neg hf, if_pos (by decide)]⟩
    have ha : (addBlocks U n [v]).1 = n := by
      obtain ⟨e, he⟩ := hsl
      simp only [addBlocks, he]
      simp
    unfold stepOutline
    split
    · rfl
    · split
      · rfl
      · split
        · rfl
        · split
          · rfl
          · cases mv <;> simp [ha]
  exact ⟨h1, by rw [h1]⟩

/-- **"in the store" is not "validated".**  `Inv` does not mention `known`: the manager stores a
block (with a header-level state) before it validates it, and the block stays stored when the
reorg fails — e.g. a relayed outline with an invalid transaction, whose sender was banned.
Whatever is stored, whatever any number of peers send afterwards (in particular a chain that
contains the stored block and continues on the state stored for it): a block that fails
`ValidateBlock` is never on the best chain, and every block of the best chain has a fully valid
ancestry.  The checkpoint path validates every block of a batch, stored or not
(`gate_v2_sound`). -/
theorem stored_invalid_block_never_adopted (U : Univ) (wf : WF U) (hb : HashBinds U) (cfg : Cfg)
    (n : Node) (h : Inv U n) (x : Nat) (hx : (U x).body = false) (evs : List Ev) :
    x ∉ (run U cfg n evs).best ∧ ∀ b ∈ (run U cfg n evs).best, ValidTo U b := by
  refine ⟨fun hm => ?_, (run_inv wf hb cfg evs n h).best⟩
  have := syncer_preserves_validity U wf hb cfg n h evs x hm
  rw [hx] at this; cases this

/-- genesis 0; honest chain 0←1←2←3 (3 is v2 and above the require height 2); 4 is a variant of 3
with the same ID whose body is invalid; 5 is a header-valid, body-invalid child of 1; 6 is 3's
outline with another height field: same ID, same proof of work, rejected by `ValidateOrphan` -/
def exU : Univ := fun i =>
  match i with
  | 0 => ⟨0, 0, 0, 10, 10, true, true, true, true, false, false⟩
  | 1 => ⟨0, 1, 1, 20, 10, true, true, true, true, false, false⟩
  | 2 => ⟨1, 2, 2, 30, 10, true, true, true, true, true, false⟩
  | 3 => ⟨2, 3, 3, 40, 10, true, true, true, true, true, false⟩
  | 4 => ⟨2, 3, 3, 40, 10, true, true, true, false, true, false⟩
  | 5 => ⟨1, 5, 2, 35, 10, true, true, true, false, false, false⟩
  | 6 => ⟨2, 3, 3, 40, 10, true, true, false, false, true, false⟩
  | _ => ⟨0, 0, 0, 0, 0, false, false, false, false, false, false⟩

def exCfg : Cfg := ⟨2, 100⟩

/-- honest sync of 1,2 (v1 path), then 3 through the checkpoint path: applied, tip 3 -/
example : (run exU exCfg Node.init
    [.sync [.hdrs [1, 2] 1] [⟨none, some [1, 2]⟩],
     .sync [.hdrs [3] 0] [⟨some ⟨2, true, true, true, true, true⟩, some [3]⟩]]).best = [3, 2, 1, 0] := by decide

/-- the variant with the same ID and an invalid body is caught by `ValidateBlock` ⇒ ban, tip unchanged -/
example : (step exU exCfg ⟨[2, 1, 0], [2, 1, 0], [2, 1, 0]⟩
    (.sync [.hdrs [3] 0] [⟨some ⟨2, true, true, true, true, true⟩, some [4]⟩])) = (⟨[2, 1, 0], [2, 1, 0], [2, 1, 0]⟩, .ban) := by decide

/-- a header-valid block with an invalid body delivered below the require height: stored, the
reorg fails, rolled back ⇒ ban, tip unchanged -/
example : (step exU exCfg ⟨[1, 0], [1, 0], [1, 0]⟩ (.sync [.hdrs [5] 0] [⟨none, some [5]⟩])).2 = .ban
    ∧ (step exU exCfg ⟨[1, 0], [1, 0], [1, 0]⟩ (.sync [.hdrs [5] 0] [⟨none, some [5]⟩])).1.best = [1, 0] := by decide

/-- the outline of 3 with another height (6: same ID) is relayed first: ban, nothing stored; the
real block 3 relayed afterwards is applied -/
example : (step exU exCfg ⟨[2, 1, 0], [2, 1, 0], [2, 1, 0]⟩ (.relayOutline 6 .complete)) = (⟨[2, 1, 0], [2, 1, 0], [2, 1, 0]⟩, .ban)
    ∧ (step exU exCfg (step exU exCfg ⟨[2, 1, 0], [2, 1, 0], [2, 1, 0]⟩ (.relayOutline 6 .complete)).1 (.relayOutline 3 .complete)).2 = .apply
    ∧ (run exU exCfg ⟨[2, 1, 0], [2, 1, 0], [2, 1, 0]⟩ [.relayOutline 6 .complete, .relayOutline 3 .complete]).best = [3, 2, 1, 0] := by decide

/-- two steps, two peers: the outline of 4 (3's ID, invalid body) is relayed: stored, the reorg
fails, ban; a second peer then delivers it in a checkpoint batch: validated again, ban, tip unchanged -/
example : (step exU exCfg ⟨[2, 1, 0], [2, 1, 0], [2, 1, 0]⟩ (.relayOutline 4 .complete)).2 = .ban
    ∧ (step exU exCfg ⟨[2, 1, 0], [2, 1, 0], [2, 1, 0]⟩ (.relayOutline 4 .complete)).1.known.contains 4 = true
    ∧ (step exU exCfg (step exU exCfg ⟨[2, 1, 0], [2, 1, 0], [2, 1, 0]⟩ (.relayOutline 4 .complete)).1
        (.sync [.hdrs [3] 0] [⟨some ⟨2, true, true, true, true, true⟩, some [4]⟩])).2 = .ban
    ∧ (run exU exCfg ⟨[2, 1, 0], [2, 1, 0], [2, 1, 0]⟩ [.relayOutline 4 .complete,
        .sync [.hdrs [3] 0] [⟨some ⟨2, true, true, true, true, true⟩, some [4]⟩]]).best = [2, 1, 0] := by decide

/-- the invariant's hypotheses are satisfiable: `exU` is well-formed and the genesis node satisfies `Inv` -/
theorem exU_wf : WF exU := by
  refine ⟨by decide, by decide, ?_⟩
  intro b
  match b with
  | 0 | 1 | 2 | 3 | 4 | 5 | 6 => rfl
  | _ + 7 => rfl

example : Inv exU Node.init := Inv.init exU_wf

end Verif.C11
