/-
C05 (and the other pool properties C13, C14), source tie: the lock discipline of the pool's methods
of `chain.Manager`, over the table regenerated from chain/manager.go on every run
(`Extracted.managerLocks`, harness/srcfacts/chain.go).

"At every moment the transactions the pool reports ..." quantifies over every schedule of callers.
The model's pool operations are atomic steps; these theorems are what licenses that for the code:
every pool method is one critical section of an EXCLUSIVE lock (several of the "readers" revalidate
and rewrite the pool lazily, so a shared lock would let two of them write at once), except for the
one window in which the two submission methods call the listeners.
-/
import Verif.Lemmas.SkelTok
import Verif.Lemmas.LockTab
import Verif.Extracted.ChainSkel

namespace Verif.C05Src
open Verif.Skel Verif.Extracted Verif.LockTab

/-- the pool's methods of the manager -/
def poolMethods : List String :=
  ["AddPoolTransactions", "AddV2PoolTransactions", "PoolTransaction", "PoolTransactions", "V2PoolTransaction",
   "V2PoolTransactions", "RecommendedFee", "UnconfirmedParents", "TransactionsForPartialBlock",
   "UpdateV2TransactionSet", "V2TransactionSet", "OnPoolChange",
   "applyPoolUpdate", "revertPoolUpdate", "revalidatePool", "checkTxnSet", "computeMedianFee", "computeParentMap",
   "overwriteExpirations", "updateV2TransactionProofs"]

def poolLocks := managerLocks.filter (fun e => poolMethods.contains e.1)

/-- the manager's mutex is an exclusive lock -/
theorem src_manager_mutex_exclusive : managerMutexType = "sync.Mutex" := by decide

/-- no `RLock`/`TryLock` on the pool's paths -/
theorem src_pool_lock_ops_closed : opsClosed poolLocks = true := by decide

/-- every exported pool method takes the lock first, releases it by a deferred unlock, and reads
nothing of the manager before the lock is held -/
theorem src_pool_exported_methods_lock_first : exportedLockFirst poolLocks = true := by decide

/-- `revalidatePool`, `applyPoolUpdate`, `revertPoolUpdate`, `checkTxnSet`, ... never operate on the
lock: they run inside their caller's critical section -/
theorem src_pool_internal_methods_never_lock : internalNeverLock poolLocks = true := by decide

/-- only the two submission methods open the lock in the middle (to call the pool listeners), once,
closing it again at once; every other pool method holds it from first statement to return -/
theorem src_pool_unlock_windows :
    (poolLocks.filter (fun e => (lkOps e).contains "Unlock")).map (·.1) = ["AddPoolTransactions", "AddV2PoolTransactions"] ∧
    poolLocks.all (fun e => windowsClosed (lkOps e)) = true ∧
    poolLocks.all (fun e => (lkOps e).count "Unlock" ≤ 1) = true ∧
    poolLocks.all (fun e => !(lkExported e && lkTouches e) || (lkOps e).contains "Unlock" || e.1 == "OnPoolChange" ||
      lkOps e == ["Lock", "defer Unlock"]) = true := by decide

/-- non-vacuity: every method named above is in the extracted table, and with `C01Src.chainMethods`
the two lists cover the whole table -/
theorem src_pool_lock_table_covers :
    poolMethods.all (fun n => managerLocks.any (·.1 == n)) = true ∧ poolLocks.length = poolMethods.length ∧
    poolLocks.length + 18 = managerLocks.length := by decide

end Verif.C05Src
