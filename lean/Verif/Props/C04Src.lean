/-
C04, source tie: the regenerated control skeleton of `(*Manager).UpdatesSince` has the shape the
model (`Verif/Model/Chain.lean: nextUpd, updatesSince`) transcribes: the loop runs while the
subscriber is not at the tip and fewer than `maxBlocks` updates (reverts and applies together)
were collected; one revert when off the best chain, else one apply of the next best block;
nothing is written.
-/
import Verif.Extracted.ChainSkel

namespace Verif.C04Src
open Verif.Skel Verif.Extracted

theorem src_updatesSince_balanced : balanced skel_UpdatesSince 0 = true := by decide

def isMainLoop : Tok → Bool
  | .loop ["index", "m.tipState.Index", "len()", "len()", "maxBlocks"] ["!=", "&&", "+", "<"] => true
  | _ => false

/-- the only loop: `for index != m.tipState.Index && len(rus)+len(aus) < maxBlocks` -/
theorem src_updatesSince_loop_bound :
    (skel_UpdatesSince.filter (fun t => match t with | .loop .. => true | _ => false)).length = 1 ∧
    occurs isMainLoop skel_UpdatesSince = true := by decide

def isOffBestTest : Tok → Bool
  | .ifc ["closure1()", "index"] ["!"] => true
  | _ => false

/-- off the best chain: one `RevertBlock`; on it: one `ApplyBlock` (of a block looked up with
`BestIndex`); both inside the loop -/
theorem src_updatesSince_branches :
    guardedBy (isCall "consensus.RevertBlock") isOffBestTest skel_UpdatesSince = true ∧
    inElseOf (isCall "consensus.ApplyBlock") isOffBestTest skel_UpdatesSince = true ∧
    guardedBy (isCall "consensus.RevertBlock") isMainLoop skel_UpdatesSince = true ∧
    guardedBy (isCall "consensus.ApplyBlock") isMainLoop skel_UpdatesSince = true ∧
    (callNames skel_UpdatesSince).count "consensus.RevertBlock" = 1 ∧
    (callNames skel_UpdatesSince).count "consensus.ApplyBlock" = 1 := by decide

/-- every failure returns no updates at all (`nil, nil, err`): a partial list is never returned
together with an error -/
theorem src_updatesSince_errors_return_nothing :
    (skel_UpdatesSince.filter (fun t => match t with | .ret (_ :: _ :: _) => true | _ => false)).all
      (· == .ret ["nil", "nil", "E"]) = true := by decide

/-- read-only: no store write, no assignment to a manager field -/
theorem src_updatesSince_readonly :
    occurs isStoreWrite skel_UpdatesSince = false ∧ occurs isSet skel_UpdatesSince = false ∧
    occurs (isCall "m.reorgTo") skel_UpdatesSince = false := by decide

/-- held under the manager's lock for its whole duration -/
theorem src_updatesSince_locked :
    matchPrefix [isCall "m.mu.Lock", (· == .defer), isCall "m.mu.Unlock"] skel_UpdatesSince = true ∧
    (callNames skel_UpdatesSince).count "m.mu.Unlock" = 1 := by decide

/-- listeners of `AddBlocks` run with the lock released (so that they may call back into the
manager, e.g. `UpdatesSince`), and the lock is re-taken before returning -/
theorem src_listeners_called_unlocked :
    hasInfix [isCall "m.mu.Unlock", (· == .loop ["range", "fns"] []), isCall "fn", (· == .done), isCall "m.mu.Lock"]
      skel_AddBlocks = true ∧
    hasInfix [isCall "m.mu.Unlock", (· == .loop ["range", "fns"] []), isCall "fn", (· == .done), isCall "m.mu.Lock"]
      skel_AddValidatedV2Blocks = true := by decide

/-- the update stream replays STORED supplements: `applyTip` records a first-applied block
(`AddBlock`) only after the configured order of its expiring contracts has been imposed on the
supplement (`overwriteExpirations`), so the stored supplement is the one the block was applied with,
and it is the same call in both branches (seeded C04-r12m1 stores the block before the reordering:
with `WithExpiringContractOrder` the missed-proof outputs of the replayed update get permuted leaf
indices) -/
theorem src_applyTip_stores_the_supplement_it_applies :
    firstBefore (isCall "m.overwriteExpirations") (isCall "m.store.AddBlock") skel_applyTip = true ∧
    firstBefore (isCall "m.overwriteExpirations") (isCall "consensus.ApplyBlock") skel_applyTip = true ∧
    (callNames skel_applyTip).count "m.overwriteExpirations" = 2 ∧
    (callNames skel_applyTip).count "m.store.AddBlock" = 1 := by decide

end Verif.C04Src
