/-
C07 — wallet funding never double-allocates, conserves value and yields valid spends.

Property theorems only.  The model is `Verif/Model/Funding.lean` (a transcription of
`/repo/wallet/wallet.go`), helper lemmas are in `Verif/Lemmas/Funding.lean`.  Every wallet
operation is one step of the model because every method involved locks `sw.mu` first and holds
it to its end (`ops_atomic`, over facts regenerated from the source on every run); "every
interleaving" is therefore "every list of operations", and the theorems quantify over all
lists, all states, all configurations and every sort function that permutes its input.

Environment hypotheses are explicit and are facts about consensus / hashing, not about the wallet:
`StoreWF` (the store lists an output once; a pooled transaction does not create an output the
store already holds), `PoolOrdered` (a pooled input never names an output of the same or a later
pooled transaction), `PoolOwn` (a pooled input naming a store output carries the wallet's address).
-/
import Verif.Lemmas.Funding
import Verif.Lemmas.WalletLock

namespace Verif.C07
open Verif.Funding

/-! ### atomicity (regenerated source tie) -/

/-- the methods the interleaving argument treats as one step each -/
def atomicOps : List String :=
  ["Balance", "SpendableOutputs", "FundTransaction", "FundV2Transaction", "Redistribute",
   "SplitUTXO", "ReleaseInputs", "SignV2Inputs"]

/-- each of them is one critical section of `sw.mu` (Lock at the top of the body, deferred Unlock,
no other Unlock, no goroutine, nothing touching the reservation map before the Lock) -/
theorem ops_atomic : ∀ m ∈ atomicOps, m ∈ Verif.WalletLock.lockedMethods := by decide

/-- nothing reaches the reservation map `sw.locked` (directly or through the unexported helpers
`isLocked`, `lockUTXOs`, `cleanLockedUTXOs`, `selectUTXOs`, …) outside such a critical section -/
theorem locked_only_under_mutex : Verif.WalletLock.discipline = true := by decide

/-- in particular none of them — `SplitUTXO` with its pool insertion and broadcast included —
gives the mutex up between its first selection and its reservation: the body contains no
`sw.mu.Unlock()` besides the deferred one and starts no goroutine -/
theorem critical_sections_unbroken :
    ∀ w ∈ Verif.Extracted.walletMethods, w.method = true → w.name ∈ atomicOps →
      w.lockFirst = true ∧ w.unlocks = 0 ∧ w.goStmts = 0 := by decide

/-- and no critical section calls a method that takes the mutex again -/
theorem no_reentrant_lock : Verif.WalletLock.noReentry = true := by decide

/-! ### what is selected -/

/-- **select_sound.** Every selected input is an unspent output of the wallet in the store,
mature, not reserved and not spent by a pooled transaction (v1 or v2) — or, only with
`useUnconfirmed`, an unreserved output paying the wallet that a pooled transaction of the
funded transaction's version creates and no pooled transaction spends. -/
theorem select_sound (S : Sorter) (s : State) (amount inputs : Nat) (uc v2 : Bool) (sel : List Utxo)
    (hord : PoolOrdered (s.poolV1 ++ s.poolV2))
    (h : s.selectUTXOs S amount inputs uc v2 = some sel) :
    ∀ u ∈ sel,
      (u ∈ s.utxos ∧ u.maturity ≤ s.height ∧ s.isLocked u.id = false ∧ u.id ∉ s.inPool) ∨
      (uc = true ∧ s.isLocked u.id = false ∧ u.id ∉ s.inPool ∧
        ∃ t ∈ s.poolV1 ++ s.poolV2, t.v2 = v2 ∧ ∃ o ∈ t.outs, o.own = true ∧ o.id = u.id ∧ o.value = u.value) := by
  intro u hu
  rcases select_mem S s amount inputs uc v2 sel h u hu with hc | ⟨huc, hc⟩
  · left
    have := (mem_candidates s v2 u).mp hc
    exact ⟨this.1, this.2.2.2, this.2.1, this.2.2.1⟩
  · right
    obtain ⟨o, ho, hown, hl, rfl⟩ := mem_unconfCandidates s v2 u hc
    obtain ⟨t, ht, hv, hot⟩ := created_origin false false _ _ o ho
    refine ⟨huc, hl, ?_, t, ht, by simpa using hv, o, hot, hown, rfl, rfl⟩
    exact created_unspent false _ _ hord o ho

/-- a transaction never receives the same input twice -/
theorem select_inputs_distinct (S : Sorter) (s : State) (amount inputs : Nat) (uc v2 : Bool) (sel : List Utxo)
    (hwf : StoreWF s) (h : s.selectUTXOs S amount inputs uc v2 = some sel) : (sel.map (·.id)).Nodup :=
  select_nodup S s amount inputs uc v2 sel hwf h

/-! ### no two outstanding requests share an input -/

/-- the states a script visits -/
def visited (S : Sorter) : State → List Op → List State
  | s, [] => [s]
  | s, o :: ops => s :: visited S (s.step S o) ops

/-- **outstanding_disjoint.** From any state satisfying the invariant (e.g. a fresh wallet), after
ANY sequence of Fund / FundV2 / Redistribute / SplitUTXO / ReleaseInputs calls, broadcasts,
external spends, blocks, clock ticks, restarts and arbitrary other changes of store and pool
(`Op.env`), the invariant holds: the inputs of every un-released request whose reservation
period has not ended are reserved, and such requests are pairwise disjoint. -/
theorem outstanding_disjoint (S : Sorter) (ops : List Op) (s : State) (h : Inv s)
    (hstore : ∀ st ∈ visited S s ops, (st.utxos.map (·.id)).Nodup) : Inv (s.run S ops) := by
  induction ops generalizing s with
  | nil => exact h
  | cons o ops ih =>
    unfold State.run
    simp only [List.foldl_cons]
    apply ih
    · exact inv_step S s h (hstore s (by simp [visited])) o
    · intro st hst; exact hstore st (by simp [visited, hst])

theorem fresh_wallet_inv (cfg : Cfg) : Inv (State.init cfg) := inv_init cfg

/-- the reading of the invariant the property states: two different un-released requests whose
reservations have not ended have no input in common -/
theorem no_shared_input (s : State) (h : Inv s) :
    s.out.Pairwise fun a b => s.now < a.expiry → s.now < b.expiry → ∀ u ∈ a.ins, ∀ v ∈ b.ins, u.id ≠ v.id :=
  h.disj

/-- and a new selection avoids every input of every such request -/
theorem select_avoids_outstanding (S : Sorter) (s : State) (h : Inv s) (amount inputs : Nat) (uc v2 : Bool)
    (sel : List Utxo) (hs : s.selectUTXOs S amount inputs uc v2 = some sel) :
    ∀ r ∈ s.out, s.now < r.expiry → ∀ u ∈ r.ins, ∀ v ∈ sel, u.id ≠ v.id := by
  intro r hr hlive u hu v hv heq
  have h1 := h.held r hr hlive u hu
  have h2 := select_unlocked S s amount inputs uc v2 sel hs v hv
  rw [← heq] at h2
  simp [State.isLocked] at h2
  omega

/-! ### conservation -/

/-- **fund_conserves.** A successful Fund call returns inputs worth exactly the amount plus the
change it wrote into the transaction; there is a change output iff the inputs exceed the amount. -/
theorem fund_conserves (S : Sorter) (s : State) (h : Nat) (v2 : Bool) (amount : Nat) (uc : Bool) (inputs : Nat)
    (pre : List (Nat × Bool)) (ins : List Utxo) (sum change : Nat)
    (hf : (s.fund S h v2 amount uc inputs pre).2 = .ok ins sum change) :
    sumV ins = amount + change ∧ sum = sumV ins := by
  unfold State.fund at hf
  split at hf
  · simp only [FundOut.ok.injEq] at hf
    obtain ⟨rfl, rfl, rfl⟩ := hf; subst_vars; simp [sumV]
  · split at hf
    · cases hf
    · rename_i sel hsel
      simp only [FundOut.ok.injEq] at hf
      obtain ⟨rfl, rfl, rfl⟩ := hf
      have := select_ge S s amount inputs uc v2 _ hsel
      omega

/-- **redistribute_conserves.** Every transaction `Redistribute` returns: inputs = outputs + change + fee. -/
theorem redistribute_conserves (S : Sorter) (s : State) (h0 outputs amount fpb : Nat) (txns : List RTxn)
    (hr : (s.redistribute S h0 outputs amount fpb).2 = .ok txns) :
    ∀ t ∈ txns, sumV t.ins = amount * t.nout + t.change + t.fee := by
  unfold State.redistribute at hr
  simp only at hr
  split at hr
  · cases hr
  · split at hr
    · cases hr
    · split at hr
      · cases hr
      · rename_i res hloop
        simp only [RedistOut.ok.injEq] at hr
        subst hr
        obtain ⟨rest, hres, _, hcons⟩ := redistLoop_spec _ _ _ _ _ _ _ _ hloop
        simp only [List.nil_append] at hres
        subst hres
        exact hcons

/-- **split_conserves.** The split transaction spends one output into `nout` outputs and the fee. -/
theorem split_conserves (s : State) (h n m fee : Nat) (input : Utxo) (nout per last f : Nat)
    (hs : (s.split h n m fee).2 = .ok input nout per last f) :
    input.value = per * (nout - 1) + last + f ∧ m ≤ per ∧ per ≤ last := by
  unfold State.split at hs
  simp only at hs
  repeat' split at hs
  all_goals try cases hs
  rename_i hval _ hper _
  have hle := Nat.div_mul_le_self ((s.splitPick m).2.value - fee * 2000) (n - (s.splitPick m).1 + 1)
  refine ⟨?_, by omega, by omega⟩
  generalize ((s.splitPick m).2.value - fee * 2000) / (n - (s.splitPick m).1 + 1) = q at *
  generalize n - (s.splitPick m).1 = k at *
  simp only [Nat.add_sub_cancel]
  have : q * (k + 1) = q * k + q := by rw [Nat.mul_succ]
  omega

/-! ### failure, release, expiry -/

/-- **fail_reserves_nothing.** A request that returns an error leaves the wallet exactly as it was. -/
theorem fail_reserves_nothing_fund (S : Sorter) (s : State) (h : Nat) (v2 : Bool) (amount : Nat) (uc : Bool)
    (inputs : Nat) (pre : List (Nat × Bool)) (hf : (s.fund S h v2 amount uc inputs pre).2 = .err) :
    (s.fund S h v2 amount uc inputs pre).1 = s := by
  by_cases h0 : amount = 0
  · simp [State.fund, h0]
  · cases hsel : s.selectUTXOs S amount inputs uc v2 with
    | none => simp [State.fund, h0, hsel]
    | some sel => simp [State.fund, h0, hsel] at hf

theorem fail_reserves_nothing_redistribute (S : Sorter) (s : State) (h0 outputs amount fpb : Nat)
    (hf : (s.redistribute S h0 outputs amount fpb).2 = .err) :
    (s.redistribute S h0 outputs amount fpb).1 = s := by
  by_cases ha : amount = 0
  · simp [State.redistribute, ha]
  · by_cases hc : (s.redistCandidates S outputs amount).1 = 0
    · simp [State.redistribute, ha, hc]
    · cases hl : redistLoop s.cfg amount fpb (s.redistCandidates S outputs amount).1
          (s.redistCandidates S outputs amount).1 (s.redistCandidates S outputs amount).2 [] with
      | none => simp [State.redistribute, ha, hc, hl]
      | some txns => simp [State.redistribute, ha, hc, hl] at hf

theorem fail_reserves_nothing_split (s : State) (h n m fee : Nat) (hf : (s.split h n m fee).2 = .err) :
    (s.split h n m fee).1 = s := by
  unfold State.split at hf ⊢
  simp only at hf ⊢
  repeat' split
  all_goals first | rfl | (simp_all)

/-- a `SplitUTXO` whose transaction the pool refuses leaves the wallet exactly as it was (nothing
reserved, nothing pooled, no set stored) -/
theorem split_pool_failure_reserves_nothing (s : State) (h n m fee : Nat) :
    (s.splitPoolFails h n m fee).1 = s := by
  unfold State.splitPoolFails
  split
  · rfl
  · rename_i r hne
    cases hr : (s.split h n m fee).2 with
    | ok i a b c d => exact absurd (Prod.ext rfl hr : s.split h n m fee = ((s.split h n m fee).1, .ok i a b c d)) (hne _ i a b c d)
    | err => exact fail_reserves_nothing_split s h n m fee hr
    | none =>
      have := hr
      unfold State.split at this ⊢
      simp only at this ⊢
      repeat' split
      all_goals first | rfl | (simp_all)

/-- **release_unlocks.** After `ReleaseInputs` none of the named inputs is reserved. -/
theorem release_unlocks (s : State) (ids : List Nat) : ∀ id ∈ ids, (s.release ids).isLocked id = false := by
  intro id hid
  simp [State.release, State.isLocked, cleanLocked, hid]

/-- **expiry_unlocks.** In every state a script can reach, once the reservation period has
passed nothing is reserved any more. -/
theorem expiry_unlocks (s : State) (h : Inv s) (d : Nat) (hd : s.cfg.reservation ≤ d) :
    ∀ id, (s.tick d).isLocked id = false := by
  intro id
  have := h.bounded id
  simp only [State.isLocked, State.tick]
  exact decide_eq_false (by omega)

/-- a restart forgets every reservation -/
theorem restart_unreserves (s : State) (f : Bool) : ∀ id, (s.restart f).isLocked id = false := by
  intro id
  have hc := foldl_addSet_core s.reloadable
    (if f then { s with locked := fun _ => 0, out := [], poolV1 := [], poolV2 := [] }
     else { s with locked := fun _ => 0, out := [] })
  unfold State.restart State.isLocked
  simp only [State.core, Prod.mk.injEq] at hc
  simp only
  rw [hc.2.2.1]
  cases f <;> simp

/-- the state a restart starts re-loading from -/
def restartBase (s : State) (freshPool : Bool) : State :=
  if freshPool then { s with locked := fun _ => 0, out := [], poolV1 := [], poolV2 := [] }
  else { s with locked := fun _ => 0, out := [] }

/-- **restart_reloads.** A restart offers every stored broadcast set that is not older than the
rebroadcast period to the pool, in the store's order, whatever older sets are stored before,
between or after them (`reloadable` skips exactly the expired ones); and what a set put into the
pool stays there while the remaining sets are offered. -/
theorem restart_reloads (s : State) (f : Bool) (before after : List (List PTxn)) (set : List PTxn)
    (h : s.reloadable = before ++ set :: after) (p : PTxn)
    (hp : p ∈ ((before.foldl State.addSet (restartBase s f)).addSet set).poolV2) :
    p ∈ (s.restart f).poolV2 := by
  have : s.restart f = s.reloadable.foldl State.addSet (restartBase s f) := by
    unfold State.restart restartBase; cases f <;> rfl
  rw [this, h, List.foldl_append, List.foldl_cons]
  exact foldl_addSet_poolV2_mono after _ p hp

theorem reloadable_spec (s : State) (set : List PTxn) :
    set ∈ s.reloadable ↔ ∃ b ∈ s.bsets, b.expired = false ∧ b.txns = set := by
  simp [State.reloadable, and_assoc]

/-- in particular an unexpired set of one transaction that the pool accepts at its turn (alone on
the tip and on top of what was re-loaded before it) is in the pool after the restart -/
theorem restart_reloads_single (s : State) (f : Bool) (before after : List (List PTxn)) (p : PTxn)
    (h : s.reloadable = before ++ [p] :: after)
    (h1 : ({ before.foldl State.addSet (restartBase s f) with poolV1 := [], poolV2 := [] } : State).accepts true (p.ins.map (·.id)) = true)
    (h2 : (before.foldl State.addSet (restartBase s f)).accepts true (p.ins.map (·.id)) = true) :
    p ∈ (s.restart f).poolV2 :=
  restart_reloads s f before after [p] h p (addSet_single _ p h1 h2)

/-! ### the views agree -/

/-- **views_agree.** In every state (hence also right after a restart, whatever the re-loaded
broadcast sets put into the pool): `SpendableOutputs()` is exactly the list input selection
chooses from, `Balance().Spendable` is its sum, and a request without unconfirmed outputs
succeeds exactly when the amount does not exceed that balance. -/
theorem views_agree (S : Sorter) (s : State) (hown : PoolOwn s) (v2 : Bool) :
    s.spendable = s.candidates v2 ∧
    s.balance.spendable = sumV s.spendable ∧
    ∀ amount inputs, amount ≠ 0 →
      ((s.selectUTXOs S amount inputs false v2).isSome = true ↔ amount ≤ s.balance.spendable) := by
  refine ⟨spendable_eq_candidates s v2, balance_spendable s hown, ?_⟩
  intro amount inputs h0
  rw [select_complete S s amount inputs v2 h0, balance_spendable s hown, spendable_eq_candidates s v2]

/-- the spendable outputs are the unspent, mature, unreserved outputs no pooled transaction spends -/
theorem spendable_spec (s : State) (u : Utxo) :
    u ∈ s.spendable ↔ u ∈ s.utxos ∧ u.maturity ≤ s.height ∧ s.isLocked u.id = false ∧ u.id ∉ s.inPool := by
  rw [spendable_eq_candidates s true, mem_candidates]; grind

/-! ### the signed result is accepted -/

/-- **funded_accepted.** Right after a successful Fund call (before the chain or the pool change)
every input of the funded transaction passes the pool's test (the store may lag behind the
manager, never lead it): unspent in the pool and either a
confirmed output spendable in the next block or an output of a pooled transaction of its version. -/
theorem funded_accepted (S : Sorter) (s : State) (h : Nat) (v2 : Bool) (amount : Nat) (uc : Bool) (inputs : Nat)
    (pre : List (Nat × Bool)) (ins : List Utxo) (sum change : Nat)
    (hord : PoolOrdered (s.poolV1 ++ s.poolV2)) (hlag : s.height ≤ s.cmHeight)
    (hf : (s.fund S h v2 amount uc inputs pre).2 = .ok ins sum change) :
    (s.fund S h v2 amount uc inputs pre).1.accepts v2 (ins.map (·.id)) = true := by
  have hsel : amount = 0 ∧ ins = [] ∨ s.selectUTXOs S amount inputs uc v2 = some ins := by
    unfold State.fund at hf
    split at hf
    · left; simp only [FundOut.ok.injEq] at hf; exact ⟨by assumption, hf.1.symm⟩
    · split at hf
      · cases hf
      · rename_i sel hsel; simp only [FundOut.ok.injEq] at hf; right; rw [hsel, hf.1]
  have hacc : ∀ st : State, st.utxos = s.utxos → st.cmHeight = s.cmHeight → st.poolV1 = s.poolV1 → st.poolV2 = s.poolV2 →
      st.accepts v2 (ins.map (·.id)) = true := by
    intro st h1 h2 h3 h4
    rcases hsel with ⟨_, rfl⟩ | hsel
    · simp [State.accepts]
    · unfold State.accepts State.scanPool State.scanSelect
      simp only [h1, h2, h3, h4, List.all_map, List.all_eq_true, Function.comp]
      intro u hu
      rcases select_mem S s amount inputs uc v2 ins hsel u hu with hc | ⟨_, hc⟩
      · have hm := (mem_candidates s v2 u).mp hc
        have hns : (scanTxns false false (fun _ => true) (s.poolV1 ++ s.poolV2)).spent.contains u.id = false := by
          rw [Bool.eq_false_iff]; simp only [List.contains_eq_mem, decide_eq_true_eq, ne_eq]
          rw [scan_spent_false, ← inPool_eq]; exact hm.2.2.1
        simp only [hns, Bool.not_false, Bool.true_and, Bool.or_eq_true, List.any_eq_true]
        left; exact ⟨u, hm.1, by simp; omega⟩
      · obtain ⟨o, ho, _, _, rfl⟩ := mem_unconfCandidates s v2 u hc
        have hns : (scanTxns false false (fun _ => true) (s.poolV1 ++ s.poolV2)).spent.contains o.toUtxo.id = false := by
          rw [Bool.eq_false_iff]; simp only [List.contains_eq_mem, decide_eq_true_eq, ne_eq]
          rw [scan_spent_false]; exact created_unspent false _ _ hord o ho
        simp only [hns, Bool.not_false, Bool.true_and, Bool.or_eq_true, List.any_eq_true]
        right; exact ⟨o, ho, by simp [POut.toUtxo]⟩
  unfold State.fund
  split
  · exact hacc _ rfl rfl rfl rfl
  · split
    · exact hacc _ rfl rfl rfl rfl
    · exact hacc _ (by simp) (by simp) (by simp) (by simp)

/-! ### non-vacuity: a concrete reachable state -/

private def cfg0 : Cfg := ⟨1, 10, 10, 100, 0, 48, 2⟩
private def s0 : State :=
  { State.init cfg0 with utxos := [⟨1, 300, 3⟩, ⟨2, 200, 4⟩, ⟨3, 100, 5⟩, ⟨4, 50, 20⟩], height := 8, cmHeight := 8, nextId := 5 }

/-- funding 250 takes the largest output and defrags the two others; the immature one is left -/
example : (s0.selectUTXOs stdSorter 250 0 false true) = some [⟨1, 300, 3⟩, ⟨3, 100, 5⟩, ⟨2, 200, 4⟩] := by decide
/-- the pinned code selected every output twice when the amount needed all of them; the repaired model does not -/
example : (s0.selectUTXOs stdSorter 600 0 false true) = some [⟨1, 300, 3⟩, ⟨2, 200, 4⟩, ⟨3, 100, 5⟩] := by decide
example : (s0.selectUTXOs stdSorter 601 0 false true) = none := by decide
example : s0.balance.spendable = 600 ∧ sumV s0.spendable = 600 := by decide
/-- a v2 spend in the pool without a reservation (the state in which the pinned `SpendableOutputs`
disagreed with `Balance`): both views drop output 1 -/
example :
    let s := (s0.xspend true 1 0 300).1
    s.balance.spendable = 300 ∧ s.spendable = [⟨2, 200, 4⟩, ⟨3, 100, 5⟩] := by decide
/-- an expired set stored ahead of a fresh one does not stop the reload: after a restart with a new
manager the broadcast transaction is pooled again and both views drop its input -/
example :
    let s := ((((s0.stale).fund stdSorter 0 true 250 false 0 [(250, false)]).1.bcast 0 true).1).restart true
    s.poolV2.length = 1 ∧ s.balance.spendable = 0 ∧ s.spendable = [] := by decide
example : Inv s0 := inv'_restart _ _
example : StoreWF s0 := ⟨by decide, by simp [s0, State.init]⟩
example : PoolOrdered ((s0.xspend true 1 0 300).1.poolV1 ++ (s0.xspend true 1 0 300).1.poolV2) := by
  simp [s0, State.init, State.xspend, State.accepts, State.scanPool, State.scanSelect, scanTxns, State.addPool,
    numberOuts, PoolOrdered]

end Verif.C07
