/-
C05 — the transaction pool is always a valid, minable continuation of the tip.

Property theorems only (lemmas: `Verif/Lemmas/Pool*.lean`; model: `Verif/Model/Pool.lean`,
transcribed from `/repo/chain/manager.go` and `/repo/miner.go` as repaired).  The theorems are about
every pool state reachable from an empty pool on an arbitrary ledger by ANY history `ops : List Op`
of v1 / v2 submissions (any sets, any basis paths), tip changes (any reverted and applied blocks,
any verdicts of core on re-offered transactions) and queries — no bound anywhere.

Hypothesis on histories (`Hist S ops`): transaction ids are ideal hashes — every transaction that
appears in a v1 position (a v1 set, the v1 transactions of a reverted tip) is the pre-image
`S id = (false, inputs, outputs)` of its id, every one in a v2 position `S id = (true, …)`.  Without
it the reported order is NOT always valid in the model: a v1 set may skip a transaction whose id
collides with a pooled v2 transaction and insert its child in front of that v2 transaction.

Consensus is a parameter: `txValid` combines the harness-supplied verdicts (`ok`, `era`, `bad`) with
what the pool logic itself decides (double spends, missing / not yet created outputs, leaf index =
the ledger's, height windows).  Tied to the real `chain.Manager` and `coreutils.MineBlock` by
`harness/c05` (pool contents after every step; every mined block).
-/
import Verif.Lemmas.PoolHistory
import Verif.Lemmas.PoolWeight

namespace Verif.C05
open Verif.Pool

def reach (cfg : Cfg) (l : Ledger) (ops : List Op) : Pool := run cfg (Pool.init l) ops

/-- the pool as every entry point reports it (each starts with `revalidatePool`) -/
def seen (cfg : Cfg) (p : Pool) : Pool := revalidate cfg p

def Hist (S : Nat → Bool × List Nat × List Nat) (ops : List Op) : Prop := ∀ op ∈ ops, OpConf S op

theorem seen_good (cfg : Cfg) (S : Nat → Bool × List Nat × List Nat) (l : Ledger) (ops : List Op) (h : Hist S ops) :
    PoolConf S (seen cfg (reach cfg l ops)) ∧ IdxOK (seen cfg (reach cfg l ops)) ∧ Valid cfg (seen cfg (reach cfg l ops)) :=
  revalidate_good (run_invV ops _ (init_invV cfg S l) h)

/-! ### the reported pool: every prefix valid against the current tip -/

/-- **PoolValid**: the reported v1 slice is a valid sequence on the tip, and the reported v2 slice is
a valid sequence on top of it (so every prefix of `v1 ++ v2` is valid: `pool_prefix_valid`) —
whatever happened before, in particular after any blocks were applied or reverted underneath. -/
theorem pool_valid (cfg : Cfg) (S : Nat → Bool × List Nat × List Nat) (l : Ledger) (ops : List Op) (h : Hist S ops) :
    seqValid cfg (seen cfg (reach cfg l ops)).led false MidState.empty (seen cfg (reach cfg l ops)).txns = true ∧
    seqValid cfg (seen cfg (reach cfg l ops)).led true (msOf MidState.empty (seen cfg (reach cfg l ops)).txns)
      (seen cfg (reach cfg l ops)).v2txns = true :=
  ⟨(seen_good cfg S l ops h).2.2.v1, (seen_good cfg S l ops h).2.2.v2⟩

/-- every prefix `a ++ b` (`a` a prefix of the v1 slice, `b` a prefix of the v2 slice, `b` empty
unless `a` is the whole v1 slice) is valid -/
theorem pool_prefix_valid (cfg : Cfg) (S : Nat → Bool × List Nat × List Nat) (l : Ledger) (ops : List Op) (h : Hist S ops)
    (a b : List Txn) (ha : a <+: (seen cfg (reach cfg l ops)).txns) (hb : b <+: (seen cfg (reach cfg l ops)).v2txns)
    (hab : b = [] ∨ a = (seen cfg (reach cfg l ops)).txns) :
    seqValid cfg (seen cfg (reach cfg l ops)).led false MidState.empty a = true ∧
    seqValid cfg (seen cfg (reach cfg l ops)).led true (msOf MidState.empty a) b = true := by
  obtain ⟨h1, h2⟩ := pool_valid cfg S l ops h
  refine ⟨seqValid_prefix cfg _ false _ ha h1, ?_⟩
  rcases hab with rfl | rfl
  · rfl
  · exact seqValid_prefix cfg _ true _ hb h2

/-- no double spends: no element is spent twice anywhere in the reported pool -/
theorem pool_no_double_spend (cfg : Cfg) (S : Nat → Bool × List Nat × List Nat) (l : Ledger) (ops : List Op) (h : Hist S ops) :
    (spentOf ((seen cfg (reach cfg l ops)).txns ++ (seen cfg (reach cfg l ops)).v2txns)).Nodup := by
  obtain ⟨h1, h2⟩ := pool_valid cfg S l ops h
  obtain ⟨n1, _⟩ := seqValid_nodup cfg _ false _ _ h1
  obtain ⟨n2, d2⟩ := seqValid_nodup cfg _ true _ _ h2
  rw [spentOf_append, List.nodup_append]
  refine ⟨n1, n2, ?_⟩
  intro a ha b hb hab
  subst hab
  exact d2 a hb ((mem_empty_msOf_spent _ _).2 ha)

/-- no references to missing outputs, v2 proofs match the tip: an input of a reported v2
transaction is either ephemeral and created by a transaction reported before it, or carries
exactly the leaf index the tip's ledger has for that (unspent) element, with a proof core accepts -/
theorem pool_v2_inputs_resolve (cfg : Cfg) (S : Nat → Bool × List Nat × List Nat) (l : Ledger) (ops : List Op) (h : Hist S ops)
    (pre : List Txn) (t : Txn) (post : List Txn) (hsplit : (seen cfg (reach cfg l ops)).v2txns = pre ++ t :: post)
    (i : Inp) (hi : i ∈ t.inputs) :
    match i.leaf with
    | none => i.elem ∈ createdOf ((seen cfg (reach cfg l ops)).txns ++ pre)
    | some lf => (seen cfg (reach cfg l ops)).led.leafOf i.elem = some lf ∧ i.bad = false := by
  obtain ⟨_, h2⟩ := pool_valid cfg S l ops h
  rw [hsplit] at h2
  have hv := seqValid_at cfg _ true _ pre t post h2
  simp only [txValid, Bool.and_eq_true] at hv
  obtain ⟨_, fb, _⟩ := inputsOk_facts _ _ true t.inputs _ hv.2
  have := fb i hi
  unfold inpRes at this
  simp only [↓reduceIte] at this
  cases hl : i.leaf with
  | none =>
    simp only [hl, List.contains_eq_mem, decide_eq_true_eq] at this ⊢
    rw [← msOf_append, mem_empty_msOf_created] at this
    exact this
  | some lf =>
    simp only [hl, Bool.and_eq_true, Bool.not_eq_true', beq_iff_eq] at this ⊢
    exact ⟨this.2, this.1⟩

/-- … and an input of a reported v1 transaction names an element the tip's ledger holds or one
created by a transaction reported before it -/
theorem pool_v1_inputs_resolve (cfg : Cfg) (S : Nat → Bool × List Nat × List Nat) (l : Ledger) (ops : List Op) (h : Hist S ops)
    (pre : List Txn) (t : Txn) (post : List Txn) (hsplit : (seen cfg (reach cfg l ops)).txns = pre ++ t :: post)
    (i : Inp) (hi : i ∈ t.inputs) :
    i.elem ∈ createdOf pre ∨ ((seen cfg (reach cfg l ops)).led.leafOf i.elem).isSome = true := by
  obtain ⟨h1, _⟩ := pool_valid cfg S l ops h
  rw [hsplit] at h1
  have hv := seqValid_at cfg _ false _ pre t post h1
  simp only [txValid, Bool.and_eq_true] at hv
  obtain ⟨_, fb, _⟩ := inputsOk_facts _ _ false t.inputs _ hv.2
  have := fb i hi
  unfold inpRes at this
  simp only [Bool.false_eq_true, ↓reduceIte, Bool.or_eq_true, List.contains_eq_mem, decide_eq_true_eq] at this
  rcases this with h' | h'
  · exact Or.inl ((mem_empty_msOf_created _ _).1 h')
  · exact Or.inr h'

/-! ### a block assembled from the reported pool -/

/-- weight of the block `MineBlock` assembles: its own uniqueness transaction (when the block
carries v2 data) plus the selected transactions -/
def blockWeight (cfg : Cfg) (p : Pool) (sel : List Txn × List Txn) : Nat :=
  (if cfg.allow ≤ p.led.height + 1 then cfg.filler else 0) + sumW sel.1 + sumW sel.2

/-- `MineBlock` selects a prefix of the reported pool … -/
theorem mine_prefix (cfg : Cfg) (p : Pool) :
    (mineSelect cfg p).1 <+: p.txns ∧ (mineSelect cfg p).2 <+: p.v2txns ∧
    ((mineSelect cfg p).2 = [] ∨ (mineSelect cfg p).1 = p.txns) := by
  unfold mineSelect
  by_cases hon : cfg.allow ≤ p.led.height + 1
  · simp only [hon, decide_true, if_true]
    refine ⟨takeWeight_prefix _ _ _, takeWeight_prefix _ _ _, ?_⟩
    by_cases hw : (takeWeight cfg.maxWeight cfg.filler p.txns).2 ≤ cfg.maxWeight
    · exact Or.inr (takeWeight_full _ _ _ hw)
    · exact Or.inl (takeWeight_over _ _ _ (by omega))
  · simp only [hon, decide_false, Bool.false_eq_true, if_false]
    exact ⟨takeWeight_prefix _ _ _, List.nil_prefix, Or.inl trivial⟩

/-- … which never weighs more than a block may (the repaired loop counts the uniqueness
transaction) … -/
theorem mine_weight_le (cfg : Cfg) (p : Pool) (hf : cfg.filler ≤ cfg.maxWeight) :
    blockWeight cfg p (mineSelect cfg p) ≤ cfg.maxWeight := by
  unfold blockWeight mineSelect
  by_cases hon : cfg.allow ≤ p.led.height + 1
  · simp only [hon, decide_true, if_true]
    have h1 := takeWeight_le cfg.maxWeight p.txns cfg.filler hf
    by_cases hw : (takeWeight cfg.maxWeight cfg.filler p.txns).2 ≤ cfg.maxWeight
    · have hfull := takeWeight_full _ _ _ hw
      have hsnd := takeWeight_snd _ _ _ hw
      have h2 := takeWeight_le cfg.maxWeight p.v2txns _ hw
      rw [hsnd] at h2
      rw [hfull, hsnd]
      omega
    · have hb : (takeWeight cfg.maxWeight (takeWeight cfg.maxWeight cfg.filler p.txns).2 p.v2txns).1 = [] :=
        takeWeight_over _ _ _ (by omega)
      rw [hb]
      simp only [sumW_nil]; omega
  · simp only [hon, decide_false, Bool.false_eq_true, if_false, sumW_nil]
    have := takeWeight_le cfg.maxWeight p.txns 0 (by omega)
    omega

/-- … and is valid on the tip, for every reachable pool: the block `MineBlock` assembles from what
the pool reports consists of a valid transaction sequence within the weight limit -/
theorem mine_valid (cfg : Cfg) (S : Nat → Bool × List Nat × List Nat) (l : Ledger) (ops : List Op) (h : Hist S ops)
    (hf : cfg.filler ≤ cfg.maxWeight) :
    let r := mineBlock cfg (reach cfg l ops)
    seqValid cfg r.1.led false MidState.empty r.2.1 = true ∧
    seqValid cfg r.1.led true (msOf MidState.empty r.2.1) r.2.2 = true ∧
    blockWeight cfg r.1 r.2 ≤ cfg.maxWeight := by
  intro r
  obtain ⟨p1, p2, p3⟩ := mine_prefix cfg (seen cfg (reach cfg l ops))
  have := pool_prefix_valid cfg S l ops h _ _ p1 p2 p3
  exact ⟨this.1, this.2, mine_weight_le cfg _ hf⟩

/-! ### the weight counter (what decides eviction) -/

/-- **the pool's weight is the weight of what is pooled**, in every reachable state as every entry
point sees it — whatever was submitted how often: transactions skipped as already known, rejected
sets, rolled back sets and tip changes leave no trace in the counter.  (No hypothesis on ids.) -/
theorem pool_weight_exact (cfg : Cfg) (l : Ledger) (ops : List Op) :
    (seen cfg (reach cfg l ops)).weight =
      sumW ((seen cfg (reach cfg l ops)).txns ++ (seen cfg (reach cfg l ops)).v2txns) :=
  revalidate_weight cfg _ (run_winv cfg ops _ (fun hc => by simp [Pool.init] at hc))

/-- hence nothing is evicted for low fees unless the pooled transactions themselves weigh ten
blocks: below that, a further entry point reports exactly the same pool -/
theorem eviction_only_when_full (cfg : Cfg) (l : Ledger) (ops : List Op)
    (h : sumW ((seen cfg (reach cfg l ops)).txns ++ (seen cfg (reach cfg l ops)).v2txns) < cfg.maxWeight * 10) :
    seen cfg (seen cfg (reach cfg l ops)) = seen cfg (reach cfg l ops) := by
  have hw := pool_weight_exact cfg l ops
  have hms : (seen cfg (reach cfg l ops)).ms.isSome = true := revalidate_ms cfg _
  show revalidate cfg (seen cfg (reach cfg l ops)) = seen cfg (reach cfg l ops)
  unfold revalidate
  rw [if_pos (by rw [hms, hw]; simpa using h)]

/-- **a rejected set leaves nothing behind**: when a submission fails — at the check against the
tip or at any position of the loop against the pool — then, unless the pool is full, the next
entry point reports exactly the pool that was reported before the submission: the slices, the index
and the weight are rolled back to what they were AFTER the submission's own re-validation, so the
forced re-validation neither keeps a member of the set nor evicts anything. -/
theorem rejected_set_leaves_pool (cfg : Cfg) (S : Nat → Bool × List Nat × List Nat) (l : Ledger) (ops : List Op)
    (h : Hist S ops) (v2 : Bool) (set : List Txn)
    (hfull : sumW ((seen cfg (reach cfg l ops)).txns ++ (seen cfg (reach cfg l ops)).v2txns) < cfg.maxWeight * 10)
    (herr : (addSet cfg v2 (seen cfg (reach cfg l ops)) set).2 = .err) :
    (seen cfg (addSet cfg v2 (seen cfg (reach cfg l ops)) set).1).txns = (seen cfg (reach cfg l ops)).txns ∧
    (seen cfg (addSet cfg v2 (seen cfg (reach cfg l ops)) set).1).v2txns = (seen cfg (reach cfg l ops)).v2txns := by
  obtain ⟨gc, gi, gv⟩ := seen_good cfg S l ops h
  have hw := pool_weight_exact cfg l ops
  have hlr := revalidate_lr (cfg := cfg) (run_lrinv cfg ops (Pool.init l) (fun hc => by simp [Pool.init] at hc))
  have hms : (seen cfg (reach cfg l ops)).ms.isSome = true := revalidate_ms cfg _
  have ho := addSet_outcome cfg v2 (seen cfg (reach cfg l ops)) set hms
  have hidem : seen cfg (seen cfg (reach cfg l ops)) = seen cfg (reach cfg l ops) := eviction_only_when_full cfg l ops hfull
  generalize addSet cfg v2 (seen cfg (reach cfg l ops)) set = r at ho herr
  cases ho with
  | invalid _ => rw [hidem]; exact ⟨rfl, rfl⟩
  | known _ _ => cases herr
  | added p' new _ _ _ _ _ _ _ _ _ _ _ _ _ _ => cases herr
  | conflict p' _ _ h1 h2 _ h4 h5 h6 h7 hms' =>
    have hrv : seen cfg p' = rebuild cfg p' := by
      unfold seen revalidate
      rw [hms']
      simp only [Option.isSome_none, Bool.false_and, Bool.false_eq_true, ↓reduceIte]
      rw [if_neg (by rw [h4, hw]; omega)]
    rw [hrv]
    exact rebuild_same gc gi gv h1 h2 h5 (by rw [h6]; exact hlr.1) (by rw [h7]; exact hlr.2)

/-! ### retention

"Stays reported until it is confirmed, one of its inputs is spent by an applied block or its
creation is reverted by a reverted block (also transiently inside a reorg), or it is evicted when
the pool is full" — stated for a **self-valid set** `K1 ⊆ v1 slice, K2 ⊆ v2 slice` of the reported
pool (`Robust`: valid as a sequence on its own; `closed_is_self_valid`: any set that contains the
pooled creators of its members' inputs, e.g. a transaction with all its pooled ancestors;
`whole_pool_self_valid`), because a transaction cannot outlive a pooled parent that is lost.

In the model a tip change `reorg rev app` runs `revertPoolUpdate` for every block of `rev`, then
`applyPoolUpdate` for every block of `app`, then discards the mid-state; the next entry point
re-validates.  **"Transiently"** means: the exceptions are judged block by block, against the ledger
and the set as they are when that block is processed (`RevPathOK`, `AppPathOK`), not on the net effect
of the path — `RevOK.kept`: the reverted block created no input of a member; `AppOK.unspent*`: the
applied block spends no input of a member it does not confirm.  A member that an applied block
confirms leaves the set (`track` / `carryApp`) and its children's inputs become confirmed; it is not
claimed to stay, also not when that block is reverted later.  The other fields of `RevOK` / `AppOK`
are consistency of the block with the ledger it meets (leaf indices below the leaf counts, created
elements new, the outputs of a confirmed member among the created elements); `ObsOK` at every
entry point: the pool is not full and the tip is in a rule regime that allows the members (`ok`,
v1 signature era, height windows); the third part of `OpSafe` for a reorg: the transactions of the
reverted tip (re-offered once) spend nothing a member spends — they were confirmed on the chain the
members were valid on. -/

/-- **retained** (any history): let `K1, K2` be a self-valid set inside the pool reported after the
history `pre`; then after ANY further history `ops` of submissions, tip changes and queries whose
operations are safe for the set (`Safe`), everything that is left of the set after removing the
members confirmed on the way (`ops.foldl track`) is reported, in order. -/
theorem retained (cfg : Cfg) (S : Nat → Bool × List Nat × List Nat) (l : Ledger) (pre ops : List Op)
    (h : Hist S (pre ++ Op.query :: ops)) (K1 K2 : List Txn)
    (h1 : K1.Sublist (seen cfg (reach cfg l pre)).txns) (h2 : K2.Sublist (seen cfg (reach cfg l pre)).v2txns)
    (hr : Robust (seen cfg (reach cfg l pre)).led K1 K2)
    (hs : Safe cfg (seen cfg (reach cfg l pre)) (K1, K2) (ops ++ [Op.query])) :
    (ops.foldl track (K1, K2)).1.Sublist (seen cfg (reach cfg l (pre ++ Op.query :: ops))).txns ∧
    (ops.foldl track (K1, K2)).2.Sublist (seen cfg (reach cfg l (pre ++ Op.query :: ops))).v2txns := by
  have hpre : Hist S pre := fun op hop => h op (List.mem_append_left _ hop)
  have hops : ∀ op ∈ ops ++ [Op.query], OpConf S op := by
    intro op hop
    rcases List.mem_append.1 hop with hop | hop
    · exact h op (List.mem_append_right _ (List.mem_cons_of_mem _ hop))
    · simp only [List.mem_singleton] at hop; subst hop; trivial
  obtain ⟨gc, gi, gv⟩ := seen_good cfg S l pre hpre
  have hinv : InvV cfg S (seen cfg (reach cfg l pre)) := ⟨gc, fun _ => ⟨gi, gv⟩⟩
  have hlr := revalidate_lr (cfg := cfg) (run_lrinv cfg pre (Pool.init l) (fun hc => by simp [Pool.init] at hc))
  have hcar : Carried S (seen cfg (reach cfg l pre)) K1 K2 :=
    ⟨gc, ListsOK.of_good gi gv, h1, h2, hr, by
      intro w hw
      have e1 : (seen cfg (reach cfg l pre)).lastReverted = [] := hlr.1
      have e2 : (seen cfg (reach cfg l pre)).lastRevertedV2 = [] := hlr.2
      rw [e1, e2] at hw; cases hw⟩
  obtain ⟨hfin, _⟩ := run_carried (ops ++ [Op.query]) _ (K1, K2) hinv hcar hops hs
  have hrun : run cfg (seen cfg (reach cfg l pre)) (ops ++ [Op.query]) = seen cfg (reach cfg l (pre ++ Op.query :: ops)) := by
    unfold reach seen
    rw [run_append, run_append]
    simp [run, step]
  rw [foldl_track_query, hrun] at hfin
  exact ⟨hfin.sub1, hfin.sub2⟩

/-- **retained, per transaction**: a member of such a set that no applied block of the history
confirms is reported at the end — a v1 member as it is, a v2 member under its id (its inputs may
have become confirmed) -/
theorem retained_member (cfg : Cfg) (S : Nat → Bool × List Nat × List Nat) (l : Ledger) (pre ops : List Op)
    (h : Hist S (pre ++ Op.query :: ops)) (K1 K2 : List Txn)
    (h1 : K1.Sublist (seen cfg (reach cfg l pre)).txns) (h2 : K2.Sublist (seen cfg (reach cfg l pre)).v2txns)
    (hr : Robust (seen cfg (reach cfg l pre)).led K1 K2)
    (hs : Safe cfg (seen cfg (reach cfg l pre)) (K1, K2) (ops ++ [Op.query])) :
    (∀ k ∈ K1, (∀ b ∈ appliedBlocks ops, k.id ∉ conf1 b) →
      k ∈ (seen cfg (reach cfg l (pre ++ Op.query :: ops))).txns) ∧
    (∀ k ∈ K2, (∀ b ∈ appliedBlocks ops, k.id ∉ conf2 b) →
      k.id ∈ (seen cfg (reach cfg l (pre ++ Op.query :: ops))).v2txns.map (·.id)) := by
  obtain ⟨r1, r2⟩ := retained cfg S l pre ops h K1 K2 h1 h2 hr hs
  constructor
  · intro k hk hn
    exact r1.subset (track_ids1 ops (K1, K2) k hk hn)
  · intro k hk hn
    obtain ⟨k', hk', e⟩ := track_ids2 ops (K1, K2) k hk hn
    exact List.mem_map.2 ⟨k', r2.subset hk', e⟩

/-- a set that contains every pooled transaction creating an input of one of its members (e.g. a
transaction together with all its pooled ancestors) is self-valid … -/
theorem closed_is_self_valid (cfg : Cfg) (S : Nat → Bool × List Nat × List Nat) (l : Ledger) (ops : List Op) (h : Hist S ops)
    (K1 K2 : List Txn) (h1 : K1.Sublist (seen cfg (reach cfg l ops)).txns) (h2 : K2.Sublist (seen cfg (reach cfg l ops)).v2txns)
    (hc1 : ∀ c ∈ (seen cfg (reach cfg l ops)).txns, ∀ e ∈ c.outputs, e ∈ spentOf (K1 ++ K2) → c ∈ K1)
    (hc2 : ∀ c ∈ (seen cfg (reach cfg l ops)).v2txns, ∀ e ∈ c.outputs, e ∈ spentOf (K1 ++ K2) → c ∈ K2) :
    Robust (seen cfg (reach cfg l ops)).led K1 K2 := by
  obtain ⟨_, gi, gv⟩ := seen_good cfg S l ops h
  exact robust_of_closed gv gi h1 h2 hc1 hc2

/-- … and so is the whole reported pool -/
theorem whole_pool_self_valid (cfg : Cfg) (S : Nat → Bool × List Nat × List Nat) (l : Ledger) (ops : List Op) (h : Hist S ops) :
    Robust (seen cfg (reach cfg l ops)).led (seen cfg (reach cfg l ops)).txns (seen cfg (reach cfg l ops)).v2txns :=
  (seen_good cfg S l ops h).2.2.robust

/-- **retained, whole pool, one applied block** (the frame form): when the block touches no input
of any pooled transaction and crosses no rule boundary then — unless the pool is full — the pool
reported afterwards is exactly the pool reported before, same transactions, same order. -/
theorem retained_whole_pool (cfg : Cfg) (S : Nat → Bool × List Nat × List Nat) (l : Ledger) (ops : List Op) (h : Hist S ops)
    (b : Blk) (flags : List Bool)
    (hfull : (seen cfg (reach cfg l ops)).weight < cfg.maxWeight * 10)
    (hun : ∀ t ∈ (seen cfg (reach cfg l ops)).txns ++ (seen cfg (reach cfg l ops)).v2txns, ∀ i ∈ t.inputs,
      i.elem ∉ ids b.spent ∧ i.elem ∉ ids b.created)
    (hleaf : ∀ t ∈ (seen cfg (reach cfg l ops)).v2txns, proofsOk b.leavesAfter t = true)
    (hr : SameRules cfg (seen cfg (reach cfg l ops)).led ((seen cfg (reach cfg l ops)).led.apply b)) :
    (seen cfg (reorg (seen cfg (reach cfg l ops)) [] [b] flags)).txns = (seen cfg (reach cfg l ops)).txns ∧
    (seen cfg (reorg (seen cfg (reach cfg l ops)) [] [b] flags)).v2txns = (seen cfg (reach cfg l ops)).v2txns := by
  obtain ⟨gc, gi, gv⟩ := seen_good cfg S l ops h
  have hlr := revalidate_lr (cfg := cfg) (run_lrinv cfg ops (Pool.init l) (fun hc => by simp [Pool.init] at hc))
  have e1 : (seen cfg (reach cfg l ops)).lastReverted = [] := hlr.1
  have e2 : (seen cfg (reach cfg l ops)).lastRevertedV2 = [] := hlr.2
  exact apply_frame cfg S _ b flags gv gi gc hfull hun hleaf hr (by rw [e1]; simp) (by rw [e2]; simp [zipBad])

/-! ### non-vacuity -/

private def cfg0 : Cfg := { allow := 1, require := 100, maxWeight := 1000, filler := 12 }
private def led0 : Ledger := ⟨[(1, 0), (2, 1), (3, 2)], 3, 1⟩
private def S0 : Nat → Bool × List Nat × List Nat
  | 10 => (false, [1], [11]) | 20 => (true, [2], [21]) | 30 => (true, [21], [31]) | _ => (false, [], [])
private def tA : Txn := ⟨10, true, 2, 5, 400, [⟨1, none, false⟩], [11]⟩     -- v1
private def tB : Txn := ⟨20, true, 2, 5, 400, [⟨2, some 1, false⟩], [21]⟩  -- v2
private def tC : Txn := ⟨30, true, 2, 5, 300, [⟨21, none, false⟩], [31]⟩   -- v2, child of B
private def blk : Blk := ⟨2, 3, 5, [], [], [(3, 2)], [(7, 3), (8, 4)]⟩       -- touches nothing pooled

/-- a reachable pool with a v2 parent/child chain and a v1 transaction submitted after it (and
reported in front of it); an unrelated block keeps all of it (the ephemeral child included — the
pinned `updateTxnProofs` dropped C here); the miner takes the prefix that fits 1000 together with
its own 12 (A, B: 812; C would make 1112) -/
example :
    let p := reach cfg0 led0 [.addV2 (some ([], [])) [tB, tC], .addV1 [tA]]
    Hist S0 [.addV2 (some ([], [])) [tB, tC], .addV1 [tA]] ∧
    ((seen cfg0 p).txns.map (·.id), (seen cfg0 p).v2txns.map (·.id)) = ([10], [20, 30]) ∧
    ((seen cfg0 (reorg p [] [blk] [])).v2txns.map (·.id)) = [20, 30] ∧
    ((mineBlock cfg0 p).2.1.map (·.id), (mineBlock cfg0 p).2.2.map (·.id)) = ([10], [20]) := by
  refine ⟨?_, by decide, by decide, by decide⟩
  intro op hop
  simp only [List.mem_cons, List.not_mem_nil, or_false] at hop
  rcases hop with rfl | rfl <;> simp [OpConf, Conf, S0, tA, tB, tC]

private def bConf : Blk := ⟨2, 3, 6, [], [tB], [(2, 1)], [(21, 3), (7, 4), (8, 5)]⟩   -- confirms B only

/-- non-vacuity of `retained`: the pool `A | B, C` (C spends B's output) is a self-valid set; a block
that confirms B (and nothing else of it) is safe for it; what is left — A, and C with its input now
confirmed at leaf 3 — is reported afterwards.  (With `applyPoolUpdate` handed the pre-block state, a
seeded change, C would be lost here.) -/
example :
    let pre : List Op := [.addV2 (some ([], [])) [tB, tC], .addV1 [tA]]
    let ops : List Op := [.reorg [] [bConf] []]
    Hist S0 (pre ++ Op.query :: ops) ∧
    Safe cfg0 (seen cfg0 (reach cfg0 led0 pre)) ([tA], [tB, tC]) (ops ++ [Op.query]) ∧
    ops.foldl track ([tA], [tB, tC]) = ([tA], [{ tC with inputs := [⟨21, some 3, false⟩] }]) ∧
    [{ tC with inputs := [⟨21, some 3, false⟩] }].Sublist (seen cfg0 (reach cfg0 led0 (pre ++ Op.query :: ops))).v2txns := by
  intro pre ops
  have hh : Hist S0 (pre ++ Op.query :: ops) := by
    intro op hop
    simp only [pre, ops, List.cons_append, List.nil_append, List.mem_cons, List.not_mem_nil, or_false] at hop
    rcases hop with rfl | rfl | rfl | rfl
    · simp [OpConf, Conf, S0, tB, tC]
    · simp [OpConf, Conf, S0, tA]
    · trivial
    · simp [OpConf]
  have hsafe : Safe cfg0 (seen cfg0 (reach cfg0 led0 pre)) ([tA], [tB, tC]) (ops ++ [Op.query]) := by
    refine ⟨⟨trivial, ⟨⟨by decide, by decide, by decide, by decide, by decide, ?_, by decide⟩, trivial⟩, by decide⟩, ⟨by decide, by decide, by decide⟩, trivial⟩
    exact leaves_lt_of_all _ _ (by decide)
  refine ⟨hh, hsafe, by decide, ?_⟩
  exact (retained cfg0 S0 led0 pre ops hh [tA] [tB, tC] (by decide) (by decide) ⟨by decide, by decide⟩ hsafe).2

end Verif.C05
