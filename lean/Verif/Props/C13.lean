/-
C13 — rebasing a v2 transaction set yields proofs valid at the target index.

Property theorems only (lemmas: `Verif/Lemmas/PoolRebase.lean`, `PoolParents.lean`; model:
`Verif/Model/Pool.lean`, transcribed from `updateV2TransactionProofs`, `UpdateV2TransactionSet`,
`V2TransactionSet`, `computeParentMap` of `/repo/chain/manager.go` as repaired).  Everything is for
arbitrary transaction sets, arbitrary revert/apply paths of arbitrary blocks, arbitrary pools.

`rebase cfg ts path`: `path = none` — the basis or the target is not a block the store has a full
state for; `some (rev, app)` — the two legs of `reorgPath(from, to, 144)` (that the path IS the one
via the common ancestor is `reorgPath_spec` of the chain model; the harness reads it off its own
tree).  Core's Merkle verifier is a parameter: `bad` is its verdict on an input's proof against the
claimed basis; its soundness is the explicit hypothesis `hbasis` of `rebase_leaves`.
Tied to the real code by `harness/c13`.
-/
import Verif.Lemmas.PoolParents

namespace Verif.C13
open Verif.Pool

/-! ### what comes back -/

/-- the same transactions minus those confirmed along the way, in the same order, with the same
input elements; the transformation of the inputs is `confirmSeq app` -/
theorem rebase_result (cfg : Cfg) (ts : List Txn) (rev app : List Blk) (out : List Txn)
    (h : rebase cfg ts (some (rev, app)) = some out) :
    out = (ts.filter fun t => !(confirmedIds app).contains t.id).map (mapInputs (confirmSeq app)) :=
  Verif.Pool.rebase_result cfg ts rev app out h

/-- ids: exactly the unconfirmed ones, order preserved -/
theorem rebase_ids (cfg : Cfg) (ts : List Txn) (rev app : List Blk) (out : List Txn)
    (h : rebase cfg ts (some (rev, app)) = some out) :
    out.map (·.id) = (ts.map (·.id)).filter (fun id => !(confirmedIds app).contains id) ∧
    (out.map (·.id)).Sublist (ts.map (·.id)) := by
  have hr := rebase_result cfg ts rev app out h
  have : out.map (·.id) = (ts.map (·.id)).filter (fun id => !(confirmedIds app).contains id) := by
    rw [hr, List.map_map, List.filter_map]
    rfl
  exact ⟨this, this ▸ List.filter_sublist⟩

/-- over a path of several blocks: a member comes back iff NO block of the apply leg confirms it —
whichever block confirms which member, in whatever order relative to the set's order; the survivors
keep their relative order (`rebase_ids`) -/
theorem rebase_removes_exactly (cfg : Cfg) (ts : List Txn) (rev app : List Blk) (out : List Txn)
    (h : rebase cfg ts (some (rev, app)) = some out) (id : Nat) :
    id ∈ out.map (·.id) ↔ id ∈ ts.map (·.id) ∧ ∀ b ∈ app, id ∉ b.v2txns.map (·.id) := by
  rw [(rebase_ids cfg ts rev app out h).1]
  simp only [List.mem_filter, Bool.not_eq_true', List.contains_eq_mem, decide_eq_false_iff_not, confirmedIds,
    List.mem_flatMap, not_exists, not_and]

/-- no transaction of the set is invented, dropped without being confirmed, or altered in anything
but the leaf indices of its inputs -/
theorem rebase_members (cfg : Cfg) (ts : List Txn) (rev app : List Blk) (out : List Txn)
    (h : rebase cfg ts (some (rev, app)) = some out) (u : Txn) :
    u ∈ out ↔ ∃ t ∈ ts, t.id ∉ confirmedIds app ∧ u = mapInputs (confirmSeq app) t := by
  rw [rebase_result cfg ts rev app out h]
  simp only [List.mem_map, List.mem_filter, Bool.not_eq_true', List.contains_eq_mem, decide_eq_false_iff_not]
  constructor
  · rintro ⟨t, ⟨ht, hc⟩, rfl⟩; exact ⟨t, ht, hc, rfl⟩
  · rintro ⟨t, ht, hc, rfl⟩; exact ⟨t, ⟨ht, hc⟩, rfl⟩

theorem rebase_elems (app : List Blk) (t : Txn) :
    (mapInputs (confirmSeq app) t).inputs.map (·.elem) = t.inputs.map (·.elem) ∧
    (mapInputs (confirmSeq app) t).outputs = t.outputs ∧ (mapInputs (confirmSeq app) t).id = t.id := by
  refine ⟨?_, rfl, rfl⟩
  simp only [mapInputs, List.map_map]
  apply List.map_congr_left
  intro i _
  exact confirmSeq_elem app i

/-- an input that was confirmed stays as it is; an ephemeral input whose element a block of the
apply leg creates comes out confirmed; one that no block creates stays ephemeral -/
theorem rebase_input_cases (app : List Blk) (i : Inp) :
    (i.leaf.isSome = true → (confirmSeq app i).leaf = i.leaf) ∧
    (i.leaf = none → (∃ b ∈ app, (b.created.lookup i.elem).isSome = true) → ((confirmSeq app i).leaf).isSome = true) ∧
    (i.leaf = none → (∀ b ∈ app, b.created.lookup i.elem = none) → confirmSeq app i = i) :=
  ⟨confirmSeq_leaf_some app i, confirmSeq_confirms app i, confirmSeq_stays app i⟩

/-- **every returned leaf index is the target ledger's**: with core's verifier sound at the basis,
path blocks consistent with the ledgers they are reverted from / applied to, and no block of the
apply leg spending an input of a transaction that survives -/
theorem rebase_leaves (cfg : Cfg) (ts : List Txn) (rev app : List Blk) (out : List Txn) (lfrom : Ledger)
    (h : rebase cfg ts (some (rev, app)) = some out)
    (hbasis : ∀ t ∈ ts, ∀ i ∈ t.inputs, ∀ lf, i.leaf = some lf → i.bad = false → lfrom.leafOf i.elem = some lf)
    (hrev : RevPathWF lfrom rev) (happ : AppPathWF (rev.foldl Ledger.revert lfrom) app)
    (hns : ∀ b ∈ app, ∀ t ∈ ts, t.id ∉ confirmedIds app → ∀ i ∈ t.inputs, i.elem ∉ ids b.spent) :
    ∀ t ∈ out, ∀ i ∈ t.inputs, ∀ lf, i.leaf = some lf → (ledgerAlong lfrom rev app).leafOf i.elem = some lf :=
  Verif.Pool.rebase_leaves cfg ts rev app out lfrom h hbasis hrev happ hns

/-! ### what is refused (an error, never a panic: `rebase` is a total function) -/

theorem rebase_rejects_unknown (cfg : Cfg) (ts : List Txn) : rebase cfg ts none = none := rfl

/-- a proof core rejects against the basis, on any input of any transaction -/
theorem rebase_rejects_bad_proof (cfg : Cfg) (ts : List Txn) (path : List Blk × List Blk) (t : Txn) (ht : t ∈ ts)
    (i : Inp) (hi : i ∈ t.inputs) (hl : i.leaf.isSome = true) (hb : i.bad = true) : rebase cfg ts (some path) = none := by
  apply rebase_none_of_bad
  rw [List.all_eq_false]
  refine ⟨t, ht, ?_⟩
  unfold basisOk
  rw [Bool.not_eq_true, List.all_eq_false]
  refine ⟨i, hi, ?_⟩
  obtain ⟨lf, hlf⟩ := Option.isSome_iff_exists.1 hl
  simp [hlf, hb]

/-- a path longer than the supported distance -/
theorem rebase_rejects_long (cfg : Cfg) (ts : List Txn) (rev app : List Blk)
    (h : cfg.maxReorg < rev.length + app.length) : rebase cfg ts (some (rev, app)) = none :=
  rebase_none_of_long cfg ts rev app h

/-- **acceptance**: a set valid at `from` (core accepts every proof; the verifier is sound: an
accepted proof means the ledger at `from` holds the element at that leaf) is moved over ANY path
within the supported distance, provided no reverted block created an input of the set and the
path's blocks are consistent with the ledgers they meet (`RevPathWF2`: what a reverted block created
lies at or beyond its parent's leaf count and everything else the ledger holds below it;
`AppLeaves`: leaf counts do not shrink along the apply leg and created elements lie below the count
of their block).  Together with the `rebase_rejects_*` theorems: a rebase of a valid set fails only
for an unknown index, too long a path, or an element created on the abandoned branch. -/
theorem rebase_accepts (cfg : Cfg) (ts : List Txn) (rev app : List Blk) (lfrom : Ledger)
    (hb : ts.all basisOk = true) (hlen : rev.length + app.length ≤ cfg.maxReorg)
    (hbasis : ∀ t ∈ ts, ∀ i ∈ t.inputs, ∀ lf, i.leaf = some lf → i.bad = false → lfrom.leafOf i.elem = some lf)
    (hrev : RevPathWF2 lfrom rev)
    (hkept : ∀ b ∈ rev, ∀ t ∈ ts, ∀ i ∈ t.inputs, i.elem ∉ ids b.created)
    (hmid : ∀ e lf, (rev.foldl Ledger.revert lfrom).leafOf e = some lf → lf < (rev.foldl Ledger.revert lfrom).numLeaves)
    (happ : AppLeaves (rev.foldl Ledger.revert lfrom).numLeaves app) :
    (rebase cfg ts (some (rev, app))).isSome = true :=
  Verif.Pool.rebase_accepts cfg ts rev app lfrom hb hlen hbasis hrev hkept hmid happ

/-- an element that does not exist below a reverted block (it was created on the abandoned branch) -/
theorem rebase_rejects_vanished (cfg : Cfg) (ts : List Txn) (rev app : List Blk) (b : Blk) (hb : b ∈ rev)
    (t : Txn) (ht : t ∈ ts) (i : Inp) (hi : i ∈ t.inputs) (lf : Nat) (hl : i.leaf = some lf) (hge : b.leavesBefore ≤ lf) :
    rebase cfg ts (some (rev, app)) = none := by
  apply rebase_none_of_vanished cfg ts rev app b hb t ht
  unfold proofsOk
  rw [List.all_eq_false]
  refine ⟨i, hi, ?_⟩
  simp [hl]; omega

/-- `UpdateV2TransactionSet` with `from == to` returns its input as it is (documented) -/
theorem update_same (cfg : Cfg) (path : Option (List Blk × List Blk)) (ts : List Txn) :
    updateV2TransactionSet cfg true path ts = some ts := rfl

/-! ### assembling a broadcastable set -/

/-- `V2TransactionSet`: the caller's transaction rebased from its basis to the tip, preceded by
pooled transactions only, in pool order (hence parents before children, see below), containing the
pooled creator of every input of the transaction and of every parent; an unknown basis, too long a
path or a bad proof of the caller's transaction is an error; the pool is not changed (beyond
`revalidatePool`). -/
theorem tset_spec (cfg : Cfg) (p : Pool) (path : Option (List Blk × List Blk)) (t : Txn) :
    (v2TransactionSet cfg p path t).1 = revalidate cfg p ∧
    (rebase cfg [t] path = none → (v2TransactionSet cfg p path t).2 = none) ∧
    (∀ ts, rebase cfg [t] path = some ts →
      ∃ parents, (v2TransactionSet cfg p path t).2 = some (parents ++ ts) ∧
        parents.Sublist (revalidate cfg p).v2txns ∧
        ∃ seen, parents = keepIdx (revalidate cfg p).v2txns seen ∧
          ClosedSet (revalidate cfg p).v2txns seen ∧
          (∀ i ∈ t.inputs, ∀ j, parentIndex (revalidate cfg p).v2txns i.elem = some j → j ∈ seen)) := by
  refine ⟨by unfold v2TransactionSet; simp only; split <;> rfl, ?_, ?_⟩
  · intro h; simp [v2TransactionSet, h]
  · intro ts h
    obtain ⟨hs, seen, he, hc, ht⟩ := parentsOf_spec (revalidate cfg p).v2txns t
    exact ⟨parentsOf (revalidate cfg p).v2txns t, by simp [v2TransactionSet, h], hs, seen, he, hc, ht⟩

/-- **parents before children**: in a valid pool whose elements have one creator each, the pooled
creator of an ephemeral input sits at a smaller pool position than the transaction spending it;
since the parents are returned in pool order (`tset_spec`) and contain every pooled creator, each
returned transaction comes after all its returned parents. -/
theorem creator_before_spender (cfg : Cfg) (l : Ledger) (base : MidState) (pool : List Txn)
    (hv : seqValid cfg l true base pool = true)
    (huniq : ∀ (a b : Nat) (ta tb : Txn) (e : Nat), pool[a]? = some ta → pool[b]? = some tb → e ∈ ta.outputs → e ∈ tb.outputs → a = b)
    (k : Nat) (u : Txn) (hu : pool[k]? = some u) (i : Inp) (hi : i ∈ u.inputs) (hl : i.leaf = none)
    (hbase : i.elem ∉ base.created) (j : Nat) (hj : parentIndex pool i.elem = some j) : j < k := by
  have hk : k < pool.length := (List.getElem?_eq_some_iff.1 hu).1
  have hsplit : pool = pool.take k ++ u :: pool.drop (k + 1) := by
    have hu' : pool[k] = u := (List.getElem?_eq_some_iff.1 hu).2
    rw [← hu']
    exact (List.take_append_drop k pool).symm.trans (by rw [List.drop_eq_getElem_cons hk])
  rw [hsplit] at hv
  have htv := seqValid_at cfg l true base _ u _ hv
  simp only [txValid, Bool.and_eq_true] at htv
  obtain ⟨_, fb, _⟩ := inputsOk_facts l _ true u.inputs _ htv.2
  have hr := fb i hi
  unfold inpRes at hr
  simp only [↓reduceIte, hl, List.contains_eq_mem, decide_eq_true_eq] at hr
  rw [mem_msOf_created] at hr
  rcases hr with hr | hr
  · exact absurd hr hbase
  · obtain ⟨w, hw, hew⟩ := mem_createdOf.1 hr
    obtain ⟨a, ha⟩ := List.getElem?_of_mem hw
    have halt : a < k := by
      have := (List.getElem?_eq_some_iff.1 ha).1
      simp only [List.length_take] at this
      omega
    have ha' : pool[a]? = some w := by
      rw [List.getElem?_take] at ha
      simpa [halt] using ha
    obtain ⟨tj, htj, hej⟩ := parentIndex_some hj
    have := huniq a j w tj i.elem ha' htj hew hej
    omega

/-- `UnconfirmedParents` (v1): same closure over the v1 slice -/
theorem parents_spec (cfg : Cfg) (p : Pool) (t : Txn) :
    (unconfirmedParents cfg p t).1 = revalidate cfg p ∧
    ((unconfirmedParents cfg p t).2).Sublist (revalidate cfg p).txns ∧
    ∃ seen, (unconfirmedParents cfg p t).2 = keepIdx (revalidate cfg p).txns seen ∧
      ClosedSet (revalidate cfg p).txns seen ∧
      (∀ i ∈ t.inputs, ∀ j, parentIndex (revalidate cfg p).txns i.elem = some j → j ∈ seen) := by
  obtain ⟨hs, seen, he, hc, ht⟩ := parentsOf_spec (revalidate cfg p).txns t
  exact ⟨rfl, hs, seen, he, hc, ht⟩

/-! ### non-vacuity -/

private def cfg0 : Cfg := { allow := 1, require := 100, maxWeight := 2000000, filler := 12, maxReorg := 3 }
private def tP : Txn := ⟨1, true, 2, 5, 100, [⟨10, some 3, false⟩], [20, 21]⟩   -- parent, confirmed input
private def tC : Txn := ⟨2, true, 2, 5, 100, [⟨20, none, false⟩], [30]⟩        -- child, ephemeral input
private def tQ : Txn := ⟨3, true, 2, 5, 100, [⟨11, some 4, false⟩], [40]⟩       -- independent
private def bOther : Blk := ⟨5, 6, 8, [], [], [], [(50, 6), (51, 7)]⟩            -- confirms nothing of the set
private def bConf : Blk := ⟨6, 8, 12, [], [tP], [(10, 3)], [(20, 8), (21, 9), (52, 10), (53, 11)]⟩  -- confirms the parent

/-- `[parent, child, other]` across one unrelated block stays as it is (the pinned code failed
here: "references element that does not exist"); across a block that confirms the parent, the
parent is dropped, the child's ephemeral input becomes leaf 8, the order is kept; a path longer
than the supported distance (here 3) is refused; a corrupted proof is refused -/
example :
    rebase cfg0 [tP, tC, tQ] (some ([], [bOther])) = some [tP, tC, tQ] ∧
    (rebase cfg0 [tP, tC, tQ] (some ([], [bOther, bConf]))).map (·.map fun t => (t.id, t.inputs.map (·.leaf)))
      = some [(2, [some 8]), (3, [some 4])] ∧
    (rebase cfg0 [tQ, tP, tC] (some ([], [bConf, ⟨7, 12, 14, [], [tQ], [(11, 4)], [(40, 12), (54, 13)]⟩]))).map (·.map (·.id))
      = some [2] ∧
    rebase cfg0 [tP] (some ([], [bOther, bOther, bOther, bOther])) = none ∧
    (rebase cfg0 [tP] (some ([], [bOther, bOther, bOther]))).isSome = true ∧
    rebase cfg0 [{ tP with inputs := [⟨10, some 3, true⟩] }] (some ([], [bOther])) = none ∧
    rebase cfg0 [tC] (some ([⟨5, 3, 6, [], [], [], []⟩], [])) = some [tC] ∧
    rebase cfg0 [tQ] (some ([⟨5, 4, 6, [], [], [], [(11, 4)]⟩], [])) = none := by
  decide

/-- non-vacuity of `rebase_accepts`: `[parent, child, other]` valid on a ledger holding elements 10
and 11 at leaves 3 and 4, moved back over a block that created nothing of it and forward over two
blocks -/
example :
    let lfrom : Ledger := ⟨[(10, 3), (11, 4), (60, 5)], 6, 5⟩
    let bRev : Blk := ⟨5, 5, 6, [], [], [], [(60, 5)]⟩
    (rebase cfg0 [tP, tC, tQ] (some ([bRev], [bOther, bConf]))).isSome = true := by
  intro lfrom bRev
  apply rebase_accepts cfg0 [tP, tC, tQ] [bRev] [bOther, bConf] lfrom (by decide) (by decide)
  · intro t ht i hi lf hlf _
    simp only [List.mem_cons, List.not_mem_nil, or_false] at ht
    rcases ht with rfl | rfl | rfl <;> simp [tP, tC, tQ] at hi <;> subst hi <;> simp at hlf <;> subst hlf <;> decide
  · refine ⟨⟨?_, by decide⟩, ?_, trivial⟩
    · intro p hp
      simp only [bRev, List.mem_cons, List.not_mem_nil, or_false] at hp
      subst hp; exact ⟨by decide, by decide⟩
    · intro e lf he hn
      have := lookup_some_mem e lf _ he
      simp only [lfrom, List.mem_cons, Prod.mk.injEq, List.not_mem_nil, or_false] at this
      rcases this with ⟨rfl, rfl⟩ | ⟨rfl, rfl⟩ | ⟨rfl, rfl⟩
      · decide
      · decide
      · exact absurd (by decide) hn
  · decide
  · exact leaves_lt_of_all _ _ (by decide)
  · exact ⟨by decide, by decide, by decide, by decide, trivial⟩

end Verif.C13
