/-
C02 — the chain store depends only on the best chain, not on the reorgs witnessed.

Property theorems only; the model is `Verif/Model/Elements.lean` (M3), the helper lemmas
`Verif/Lemmas/Elements.lean` and `Verif/Lemmas/ElementsTree.lean`.  Consensus is a
parameter: a block is the list of element diffs `consensus.ApplyBlock` produces for it, and
the hypotheses `WF` / `WFBlocks` say what consensus guarantees about those diffs relative to
the store they are applied to.  The model is tied to `/repo/chain/db.go` by `harness/c02`
(every apply and revert the real manager performs during generated fork histories is replayed
on the model and the key sets of every bucket and every expiration list are compared).

Summary.  On the keyed buckets `revertElements ∘ applyElements` is the identity for every
well-formed diff list (`revert_apply_sets`).  The expiration lists are restored as multisets
always (`revert_apply_exp_perm`) but as *lists* only in the cases characterised by
`exp_single_roundtrip_iff` / `exp_expiry_roundtrip` / `exp_create_roundtrip`; the witness
`exp_midremove_counterexample` shows a mid-list removal coming back permuted.  Hence the full
history-independence statement is false of the code (`store_history_independent_full_false`,
upstream-acknowledged, see DESIGN §5/C02) and what is proved is
`store_history_independent_partial`: for every history whose reverted blocks are `ExpStable`,
the store equals that of a node that only ever saw the best chain linearly.
-/
import Verif.Lemmas.Elements
import Verif.Lemmas.ElementsTree

namespace Verif.C02
open Verif.Elements

/-! ### apply-then-revert on one block -/

/-- **exact inverse on every keyed bucket**: siacoin and siafund elements, contracts (with
their window end and revision number — a revision with or without window change gives the
*prior* contract back), best index and height, for every well-formed diff list (ephemeral
created-and-spent elements included). -/
theorem revert_apply_sets (s : Store) (ds : List Diff) (hw : WF s ds) :
    (revertDiffs (applyDiffs s ds) ds.reverse).sc = s.sc ∧
    (revertDiffs (applyDiffs s ds) ds.reverse).sf = s.sf ∧
    (revertDiffs (applyDiffs s ds) ds.reverse).fc = s.fc ∧
    (revertDiffs (applyDiffs s ds) ds.reverse).index = s.index ∧
    (revertDiffs (applyDiffs s ds) ds.reverse).height = s.height :=
  revertDiffs_applyDiffs_keyed s ds hw

/-- the expiration lists are always restored as multisets -/
theorem revert_apply_exp_perm (s : Store) (ds : List Diff) (hw : WF s ds) (h : Nat) :
    ((revertDiffs (applyDiffs s ds) ds.reverse).exp h).Perm (s.exp h) := by
  rw [revertDiffs_applyDiffs_exp]
  exact exp_roundtrip_perm ds s.exp hw.distinct hw.exp h

/-- and neither direction panics on a well-formed diff list (apply side) -/
theorem apply_never_panics (s : Store) (ds : List Diff) (hw : WF s ds) : applyDiffsPanics s ds = false :=
  applyDiffsPanics_false ds s hw.distinct hw.exp

/-- one swap-removal followed by the reverting prepend gives the list back **iff** the removed
id was the head of a list of length at most two -/
theorem exp_single_roundtrip_iff (l : List Nat) (id : Nat) (hnd : l.Nodup) (hm : id ∈ l) :
    putExp (delExp l id) id false = l ↔ l.head? = some id ∧ l.length ≤ 2 := by
  simpa [putExp] using cons_delExp_eq_iff hnd hm

/-- the whole-list expiry the scheme was built for: removing every entry in list order (the
supplement order) and prepending them back in the reversed diff order is exact -/
theorem exp_expiry_roundtrip (l : List Nat) :
    l.reverse.foldl (fun acc id => putExp acc id false) (l.foldl delExp l) = l := by
  rw [foldl_delExp_all l l (List.Perm.refl l)]
  have := foldl_cons_reverse l []
  simp only [List.append_nil] at this
  simp [putExp, this]

/-- creation: append then remove-last is exact -/
theorem exp_create_roundtrip (l : List Nat) (id : Nat) (h : id ∉ l) : delExp (putExp l id true) id = l := by
  simpa [putExp] using delExp_append_self h

/-- **the revert guard mirrors the apply guard**: reverting a revision moves the expiration entry
back exactly when applying it moved the entry — whenever the revised `WindowEnd` differs from the
prior one, in *either* direction (a revision may pull the window in as well as push it out).
Applying a window-changing revision takes the contract off the list of its prior window end and
puts it on the list of the revised one; apply-then-revert has it on the prior list again and not
on the revised one; a revision that keeps the window end touches neither list in either direction. -/
theorem revision_revert_moves_back (e : Nat → List Nat) (d : Diff) (r : Nat × Nat)
    (hk : d.kind = .fc) (hs : d.spent = false) (hr : d.rev = some r)
    (hin : d.id ∈ e d.we) (hnd : (e d.we).Nodup) (hout : d.id ∉ e r.1) :
    (r.1 ≠ d.we → d.id ∉ appExp e d d.we ∧ d.id ∈ appExp e d r.1) ∧
    d.id ∈ revExp (appExp e d) d d.we ∧
    (r.1 ≠ d.we → d.id ∉ revExp (appExp e d) d r.1) ∧
    (r.1 = d.we → appExp e d = e ∧ revExp e d = e) := by
  have hw : WFExp e d := by
    intro _ _
    refine ⟨fun h => ?_, fun _ _ _ _ => hin⟩
    rw [hs] at h; exact absurd h (by decide)
  have hp := revExp_appExp_perm e d hw
  refine ⟨?_, (hp d.we).mem_iff.mpr hin, fun _ h => hout ((hp r.1).mem_iff.mp h), ?_⟩
  · intro hne
    rw [appExp_rev_move e d hk hs r hr hne]
    have hne' : d.we ≠ r.1 := fun x => hne x.symm
    constructor
    · rw [set_other _ _ _ _ hne', set_same]
      intro h
      have hmem : d.id ∈ (e d.we).erase d.id := ((delExp_perm_erase _ _).mem_iff).mp h
      exact absurd rfl (hnd.mem_erase_iff.mp hmem).1
    · rw [set_same]; simp
  · intro heq
    exact ⟨appExp_rev_same e d hk hs r hr heq, revExp_rev_same e d hk hs r hr heq⟩

/-- non-vacuity, with the window pulled *in*: contract 1 moves from height 9 to 6 and back -/
example :
    let e : Nat → List Nat := fun h => if h = 9 then [1, 2] else if h = 6 then [3] else []
    let d : Diff := ⟨.fc, 1, false, false, 9, 0, some (6, 1)⟩
    (appExp e d 9, appExp e d 6) = ([2], [3, 1]) ∧
    (revExp (appExp e d) d 9, revExp (appExp e d) d 6) = ([1, 2], [3]) := by decide

/-- **ExpStable**, defined semantically -/
def ExpStable (s : Store) (ds : List Diff) : Prop :=
  (revertDiffs (applyDiffs s ds) ds.reverse).exp = s.exp

/-- it is decided by looking at the heights the diff list mentions (what the driver evaluates) -/
theorem expStableB_iff (s : Store) (ds : List Diff) : expStableB s ds = true ↔ ExpStable s ds :=
  expStableB_iff' s ds

/-- with `ExpStable` the whole block round-trips: `RevertBlock ∘ ApplyBlock = id` on the store,
across the require-height guards (`height ≤ req` on apply, `height - 1 ≤ req` on revert) -/
theorem revertBlock_applyBlock_id (req : Nat) (s : Store) (b h : Nat) (ds : List Diff)
    (hw : WF s ds) (hno : h > req → ∀ d ∈ ds, d.kind ≠ .fc) (hst : h ≤ req → ExpStable s ds)
    (hidx : s.index h = none) (hh : s.height + 1 = h) :
    revertBlock req (applyBlock req s b h ds) h ds.reverse = s :=
  revertBlock_applyBlock req s b h ds hw hno hst hidx hh

/-- checkpoint stores / blocks far above the require height: neither direction touches an
element bucket -/
theorem above_require_noop (req : Nat) (s : Store) (b h : Nat) (ds dsRev : List Diff) (hh : h > req + 1) :
    applyBlock req s b h ds = applyState s b h ∧ revertBlock req s h dsRev = revertState s (h - 1) := by
  have h1 : ¬ h ≤ req := by omega
  have h2 : ¬ h - 1 ≤ req := by omega
  simp [applyBlock, revertBlock, h1, h2]

/-! ### the witnesses -/

/-- a store holding contracts 1 and 2, both expiring at height 5 -/
def wStore : Store :=
  applyDiffs Store.empty [⟨.fc, 1, true, false, 5, 0, none⟩, ⟨.fc, 2, true, false, 5, 0, none⟩]

/-- a storage proof for contract 2 -/
def wProof2 : List Diff := [⟨.fc, 2, false, true, 5, 0, none⟩]

/-- the witness: the storage proof of `2` in `[1, 2]`, reverted, leaves `[2, 1]` -/
theorem exp_midremove_counterexample :
    wStore.exp 5 = [1, 2] ∧ (revertDiffs (applyDiffs wStore wProof2) wProof2.reverse).exp 5 = [2, 1] := by
  decide

/-- so that block is not `ExpStable` although its diff list is well formed -/
theorem exp_midremove_not_stable : ¬ ExpStable wStore wProof2 := by
  intro h
  have := congrFun h 5
  revert this
  decide

/-- the diff `consensus` produces for a contract that is revised and storage-proved in one
block: the element is already the *revised* contract (`resolveFileContractElement` overwrites
it) and `Revision` still points to it.  It is not well formed (the store holds revision 0),
the round trip restores the revised contract, and with a window change `applyElements` panics. -/
def wRevisedResolved (we' : Nat) : Diff := ⟨.fc, 1, false, true, we', 1, some (we', 1)⟩

theorem revised_resolved_counterexample :
    wStore.fc 1 = some (5, 0) ∧
    (revertDiffs (applyDiffs wStore [wRevisedResolved 5]) [wRevisedResolved 5]).fc 1 = some (5, 1) ∧
    applyDiffsPanics wStore [wRevisedResolved 8] = true := by
  decide

/-! ### histories -/

/-- block `b` gets its expiration lists back in order when applied to and reverted from the
linear store of its parent -/
def Stable (req : Nat) (U : Nat → BlkInfo) (b : Nat) : Prop :=
  ExpStable (lin req U (U b).parent) (blockDiffs req (lin req U (U b).parent) (U b))

/-- every `revert` of the run undoes a `Stable` block -/
def RevertsStable (req : Nat) (U : Nat → BlkInfo) : Node → List Op → Prop
  | _, [] => True
  | n, op :: ops =>
    (op = .revert → Stable req U n.tip) ∧
    match n.step op with
    | none => True
    | some n' => RevertsStable req U n' ops

theorem revertsStable_iff (req : Nat) (U : Nat → BlkInfo) (ops : List Op) :
    ∀ n, RevertsStable req U n ops ↔ Verif.Elements.RevertsStable req U n ops := by
  induction ops with
  | nil => intro n; exact Iff.rfl
  | cons op ops ih =>
    intro n
    simp only [RevertsStable, Verif.Elements.RevertsStable]
    cases n.step op with
    | none => exact Iff.rfl
    | some n' => exact and_congr Iff.rfl (ih n')

/-- **history independence (partial)**: for every block universe, every history of applies and
reverts (any length, any shape the manager's `reorgTo` can produce and more) all of whose
reverted blocks are `ExpStable`, the store the node ends with is the store of the node that was
fed exactly the ancestry of its tip, one block after the other. -/
theorem store_history_independent_partial (req : Nat) (U : Nat → BlkInfo) (hU : WFU U) (hB : WFBlocks req U)
    (ops : List Op) (n : Node) (hs : RevertsStable req U (Node.init req U) ops)
    (hr : (Node.init req U).run ops = some n) :
    ∃ n', (Node.init req U).run ((path U n.tip).map Op.apply) = some n' ∧ n'.tip = n.tip ∧ n'.store = n.store := by
  have hi := inv_run req U hU hB ops _ n (inv_init req U hU) ((revertsStable_iff req U ops _).mp hs) hr
  obtain ⟨n', h1, h2, h3, _⟩ := linear_run req U hU (U n.tip).height n.tip rfl
  exact ⟨n', h1, h3, by rw [h2, hi.store_eq]⟩

/-- TARGET (false of the current code): the same without the `ExpStable` side condition -/
def C02_store_history_independent_full : Prop :=
  ∀ (req : Nat) (U : Nat → BlkInfo), WFU U → WFBlocks req U →
    ∀ (ops : List Op) (n : Node), (Node.init req U).run ops = some n →
      ∃ n', (Node.init req U).run ((path U n.tip).map Op.apply) = some n' ∧ n'.tip = n.tip ∧ n'.store = n.store

/-- the witness universe: block 1 forms contracts 1 and 2 (both expiring at height 5); block 2
proves contract 2, block 4 proves contract 1, block 3 is empty; 2, 3 and 4 are siblings -/
def wU : Nat → BlkInfo := fun b =>
  if b = 0 then ⟨0, 0, [⟨.sc, 100, true, false, 0, 0, none⟩]⟩
  else if b = 1 then ⟨0, 1, [⟨.sc, 101, true, false, 0, 0, none⟩, ⟨.fc, 1, true, false, 5, 0, none⟩, ⟨.fc, 2, true, false, 5, 0, none⟩]⟩
  else if b = 2 then ⟨1, 2, [⟨.sc, 102, true, false, 0, 0, none⟩, ⟨.fc, 2, false, true, 5, 0, none⟩]⟩
  else if b = 3 then ⟨1, 2, [⟨.sc, 103, true, false, 0, 0, none⟩]⟩
  else if b = 4 then ⟨1, 2, [⟨.sc, 104, true, false, 0, 0, none⟩, ⟨.fc, 1, false, true, 5, 0, none⟩]⟩
  else ⟨0, 1, []⟩

/-- the history with the known finding: apply 1, apply 2, revert 2, apply 3 -/
def wOpsBad : List Op := [.apply 1, .apply 2, .revert, .apply 3]
/-- a history with a reorg whose reverted block is stable: apply 1, apply 4, revert 4, apply 3 -/
def wOpsGood : List Op := [.apply 1, .apply 4, .revert, .apply 3]

theorem wU_wf : WFU wU := by
  constructor
  · decide
  · intro b hb
    by_cases h1 : b = 1; · subst h1; decide
    by_cases h2 : b = 2; · subst h2; decide
    by_cases h3 : b = 3; · subst h3; decide
    by_cases h4 : b = 4; · subst h4; decide
    simp [wU, hb, h1, h2, h3, h4]

theorem wU_blocks : WFBlocks 100 wU := by
  constructor
  · intro b hb
    by_cases h1 : b = 1; · subst h1; decide
    by_cases h2 : b = 2; · subst h2; decide
    by_cases h3 : b = 3; · subst h3; decide
    by_cases h4 : b = 4; · subst h4; decide
    have hb' : wU b = ⟨0, 1, []⟩ := by simp [wU, hb, h1, h2, h3, h4]
    rw [hb']
    have : blockDiffs 100 (lin 100 wU 0) ⟨0, 1, []⟩ = [] := by decide
    show WF (lin 100 wU 0) (blockDiffs 100 (lin 100 wU 0) ⟨0, 1, []⟩)
    rw [this]
    exact ⟨List.Pairwise.nil, nofun, nofun, nofun, nofun⟩
  · intro b hb hh
    by_cases h1 : b = 1; · subst h1; revert hh; decide
    by_cases h2 : b = 2; · subst h2; revert hh; decide
    by_cases h3 : b = 3; · subst h3; revert hh; decide
    by_cases h4 : b = 4; · subst h4; revert hh; decide
    have hb' : wU b = ⟨0, 1, []⟩ := by simp [wU, hb, h1, h2, h3, h4]
    rw [hb']; nofun

/-- **the full statement is false of the current code**: after apply 1, apply 2, revert 2,
apply 3 the list at height 5 is `[2, 1]`; the linear node holds `[1, 2]` -/
theorem store_history_independent_full_false : ¬ C02_store_history_independent_full := by
  intro h
  have hbad : ((Node.init 100 wU).run wOpsBad).map (fun n => (n.tip, n.store.exp 5)) = some (3, [2, 1]) := by
    decide
  have hlin : ((Node.init 100 wU).run ((path wU 3).map Op.apply)).map (fun n => n.store.exp 5) = some [1, 2] := by
    decide
  cases hr : (Node.init 100 wU).run wOpsBad with
  | none => rw [hr] at hbad; cases hbad
  | some n =>
    rw [hr] at hbad
    simp only [Option.map_some, Option.some.injEq, Prod.mk.injEq] at hbad
    obtain ⟨n', h1, _, h3⟩ := h 100 wU wU_wf wU_blocks wOpsBad n hr
    rw [hbad.1] at h1
    rw [h1] at hlin
    simp only [Option.map_some, Option.some.injEq] at hlin
    rw [h3, hbad.2] at hlin
    cases hlin

/-- non-vacuity of `store_history_independent_partial`: a history with a real reorg (block 4,
which removed the head of a two-element expiration list, is reverted) satisfies every
hypothesis, so its store equals the linear one — here checked independently by evaluation. -/
example : ∃ n, (Node.init 100 wU).run wOpsGood = some n ∧ n.tip = 3 ∧
    RevertsStable 100 wU (Node.init 100 wU) wOpsGood := by
  cases hr : (Node.init 100 wU).run wOpsGood with
  | none =>
    have : ((Node.init 100 wU).run wOpsGood).isSome = true := by decide
    rw [hr] at this; cases this
  | some n =>
    refine ⟨n, rfl, ?_, ?_⟩
    · have : ((Node.init 100 wU).run wOpsGood).map (·.tip) = some 3 := by decide
      rw [hr] at this; simpa using this
    · exact (revertsStable_iff _ _ _ _).mpr (revertsStableB_sound 100 wU wOpsGood _ (by decide))

example : ((Node.init 100 wU).run wOpsGood).map (fun n => n.store.exp 5) = some [1, 2] := by decide

/-- non-vacuity of `revert_apply_sets` / `revert_apply_exp_perm`: a well-formed diff list with a
spend, an ephemeral element, a creation, a window-changing revision and a resolution -/
def wDiffs : List Diff :=
  [⟨.sc, 7, false, true, 0, 0, none⟩, ⟨.sc, 8, true, true, 0, 0, none⟩, ⟨.sc, 9, true, false, 0, 0, none⟩,
   ⟨.fc, 1, false, false, 5, 0, some (6, 1)⟩, ⟨.fc, 2, false, true, 5, 0, none⟩, ⟨.fc, 3, true, false, 6, 0, none⟩]

example : WF (applyDiffs wStore [⟨.sc, 7, true, false, 0, 0, none⟩]) wDiffs := by decide

/-- and the bad histories are really outside the hypothesis: block 2 is not `Stable` -/
example : ¬ Stable 100 wU 2 := by
  intro h
  have := (expStableB_iff _ _).mpr h
  revert this
  decide

/-! ### the Tree bucket -/

/-- distinct live positions get distinct keys (`col < 2^(31-row)`, i.e. fewer than `2^31`
leaves) -/
theorem treeKey_injective {r c r' c' : Nat} (hr : r < 32) (hr' : r' < 32)
    (hc : c < 2 ^ (31 - r)) (hc' : c' < 2 ^ (31 - r')) (h : treeKey r c = treeKey r' c') :
    r = r' ∧ c = c' :=
  Verif.Elements.treeKey_injective hr hr' hc hc' h

/-- every node `getElementProof(leaf, n)` reads roots a complete subtree inside `[0, n)`: a node
left over from a larger tree (stale after a revert shrank the accumulator) is never read -/
theorem proof_reads_live_nodes {leaf n i : Nat} (h : leaf < n) (hi : i < proofLen leaf n) :
    nodeLive n i ((leaf >>> i) ^^^ 1) :=
  Verif.Elements.proof_reads_live_nodes h hi

example : proofPositions 5 7 = [(0, 4)] ∧ proofPositions 2 7 = [(0, 3), (1, 0)] := by decide

end Verif.C02
