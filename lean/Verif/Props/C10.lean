/-
C10 — a successful renter RPC is cryptographically bound, whatever the host does.

Property theorems only.  The model (`Model/RhpClient.lean`) is a total function of the request
parameters and of the *list of messages the host sends*; every theorem below is universally
quantified over that list (and over the primitives), so it covers every host behaviour —
corrupted, truncated, re-signed, replayed, or stopping anywhere.  `go.sia.tech/core`'s verifiers
are parameters; what the theorems need of them is the explicit hypothesis `Sound` (what a
collision-resistant Merkle tree gives), shown satisfiable by `toy_sound` at the end.

All theorems are about `Cfg.fixed` (the repaired client); `read_pinned_overdelivers` and
`roots_pinned_crashes`, `free_pinned_accepts_misshapen` are the witnesses that the pinned code (`325a596`) did not have the
property.  The tie to `/repo/rhp/v4/rpc.go` is the correspondence check `harness/c10`.
-/
import Verif.Lemmas.RhpClient

namespace Verif.C10
open Verif.RhpClient

variable {ρ π σ : Type}

/-- bytes `[off, off+len)` of a list -/
def slice {α} (l : List α) (off len : Nat) : List α := (l.drop off).take len

/-- swap two positions (no-op when out of range) -/
def swapAt {α} (l : List α) (a b : Nat) : List α :=
  match l[a]?, l[b]? with
  | some x, some y => (l.set a y).set b x
  | _, _ => l

/-- the reference meaning of "free these sectors": the actions `convertFreeActions` hands to
the diff-proof verifier — swap the i-th index with position `n-1-i`, then trim -/
def swapAll {α} (l : List α) (n : Nat) : List Nat → Nat → List α
  | [], _ => l
  | x :: xs, i => swapAll (swapAt l x (n - i - 1)) n xs (i + 1)

def freeBatch {α} (rs : List α) (idx : List Nat) : List α :=
  (swapAll rs rs.length idx 0).take (rs.length - idx.length)

/-- what the theorems assume of the verifiers (`sectorRoot`/`metaRoot` are the hash functions
the host and renter agree on).  Each line: *if the verifier accepts against the root of a known
object, the verified value is the corresponding part of that object.* -/
structure Sound (P : Prims ρ π σ) (sectorRoot : List Nat → ρ) (metaRoot : List ρ → ρ) : Prop where
  range : ∀ pf data s e sec, sec.length = sectorSize →
    P.verifyRange pf data s e (sectorRoot sec) = true → data = slice sec (leafSize * s) (leafSize * (e - s))
  leaf : ∀ pf lf i sec, sec.length = sectorSize →
    P.verifyLeaf pf lf i (sectorRoot sec) = true → lf = slice sec (leafSize * i) leafSize
  roots : ∀ pf roots s e (rs : List ρ),
    P.verifyRoots pf roots rs.length s e (metaRoot rs) = true → roots = slice rs s (e - s)
  append : ∀ sub app (rs : List ρ) newRoot,
    P.verifyAppend rs.length sub app (metaRoot rs) newRoot = true → newRoot = metaRoot (rs ++ app)
  free : ∀ sub lv idx (rs : List ρ) newRoot, P.freeShapeOk sub lv idx rs.length = true →
    P.verifyFree sub lv idx rs.length (metaRoot rs) newRoot = true → newRoot = metaRoot (freeBatch rs idx)

/-- the revision carries a host signature that verifies over exactly that revision -/
def HostSigned (P : Prims ρ π σ) (key : Nat) (r : Rev ρ σ) : Prop :=
  ∃ sig, r.hostSig = some sig ∧ P.verifySig key r.unsigned sig = true

/-- what `pay` does to the money: one more revision, `cost` moved renter → host, nothing else -/
def Charged (c rev : Rev ρ σ) (cost : Nat) : Prop :=
  rev.revNum = c.revNum + 1 ∧ cost ≤ c.renterOut ∧ rev.renterOut = c.renterOut - cost ∧
  rev.hostOut = c.hostOut + cost ∧ rev.missedHost ≤ c.missedHost ∧ rev.hostKey = c.hostKey ∧
  rev.expHeight = c.expHeight

/-! ## read -/

/-- **read**: success ⇒ the bytes written to the caller are exactly bytes
`[offset, offset+length)` of the sector with the requested root — for every message list. -/
theorem read_ok_exact (P : Prims ρ π σ) (sectorRoot : List Nat → ρ) (metaRoot : List ρ → ρ)
    (hS : Sound P sectorRoot metaRoot) (prices : Prices) (reqOk : Bool) (sec : List Nat)
    (hsec : sec.length = sectorSize) (offset length : Nat) (wcap : Option Nat) (msgs : List (Msg ρ π σ))
    (out : List Nat) (u : Usage)
    (h : rpcRead Cfg.fixed P prices reqOk ⟨sectorRoot sec, offset, length, wcap⟩ msgs = .ok (out, u)) :
    out = slice sec offset length ∧ out.length = length ∧ u = readCost prices length ∧
    writerAccepts wcap out.length = true := by
  simp only [rpcRead, bind_ok_iff, check_ok_iff, expectReadResp_ok, pure_ok_iff, exists_const,
    Prod.mk.injEq] at h
  obtain ⟨hv, r, _, hdl, hw, _, hlen, hvr, hout, hu⟩ := h
  simp only [Cfg.fixed, Bool.not_true, Bool.false_or, beq_iff_eq] at hdl hlen
  simp only [Bool.and_eq_true, readValid, bne_iff_ne, ne_eq, decide_eq_true_eq, beq_iff_eq] at hv
  obtain ⟨_, ⟨⟨hne, hoff⟩, hle⟩, hal⟩ := hv
  have hrange := hS.range _ _ _ _ sec hsec hvr
  rw [hout] at hrange hlen
  rw [hdl] at hlen
  -- the verified data has the requested length, hence the range starts at `offset`
  have hl : length = leafSize * ((offset + length + leafSize - 1) / leafSize - offset / leafSize) := by
    have h1 : out.length = (slice sec (leafSize * (offset / leafSize))
        (leafSize * ((offset + length + leafSize - 1) / leafSize - offset / leafSize))).length := by
      rw [← hrange]
    simp only [slice, List.length_take, List.length_drop, hsec] at h1
    simp only [leafSize, sectorSize] at *
    omega
  have hoff' : leafSize * (offset / leafSize) = offset := by
    simp only [leafSize, sectorSize] at *
    omega
  rw [hout] at hw
  refine ⟨?_, hlen, hu.symm, hw⟩
  rw [hrange, hoff', ← hl]

/-- **a failing writer is a failing call**: if the caller's writer stops accepting bytes before the
whole verified range has been handed to it, the call does not report success — for every host
message list. -/
theorem read_writer_failure_is_error (P : Prims ρ π σ) (prices : Prices) (reqOk : Bool) (cfg : Cfg)
    (root : ρ) (offset length k : Nat) (hk : k < length) (msgs : List (Msg ρ π σ)) :
    ∀ r, rpcRead (Cfg.mk true cfg.checkRootsLen cfg.checkFreeShape) P prices reqOk ⟨root, offset, length, some k⟩ msgs ≠ .ok r := by
  intro r h
  simp only [rpcRead, bind_ok_iff, check_ok_iff, expectReadResp_ok, pure_ok_iff, exists_const,
    Bool.not_true, Bool.false_or, beq_iff_eq] at h
  obtain ⟨_, a, _, hdl, hw, _, hlen, _, _⟩ := h
  simp only [writerAccepts, decide_eq_true_eq] at hw
  omega

/-- the pinned client (no `DataLength` check) reports success on a 32-byte request at offset 32
when the host sends the whole enclosing leaf with a proof that verifies — 64 bytes reach the
caller.  (Finding C10/read-unaligned; the real code was shown doing this by `harness/c10`.) -/
theorem read_pinned_overdelivers (P : Prims ρ π σ) (prices : Prices) (root : ρ) (pf : π)
    (leaf : List Nat) (hl : leaf.length = 64) (hv : P.verifyRange pf leaf 0 1 root = true) :
    rpcRead Cfg.pinned P prices true ⟨root, 32, 32, none⟩ [.readResp pf 64, .stream leaf]
      = .ok (leaf, readCost prices 32) := by
  have hp : pulled leaf 64 64 = leaf := by simp [pulled, ← hl]
  simp [rpcRead, writerAccepts, Bind.bind, Res.bind, check, expectReadResp, streamOf, pure, readValid, Cfg.pinned,
    leafSize, sectorSize, hp, hl, hv]

/-! ## write, verify -/

/-- **write**: success ⇒ the returned root is the root of exactly the (padded) bytes sent. -/
theorem write_ok_root [DecidableEq ρ] (P : Prims ρ π σ) (prices : Prices) (reqOk : Bool) (data : List Nat)
    (length : Nat) (msgs : List (Msg ρ π σ)) (r : ρ) (u : Usage)
    (h : rpcWrite P prices reqOk data length msgs = .ok (r, u)) :
    r = P.rootOfData (padSector (data.take length)) ∧ u = writeCost prices length := by
  simp only [rpcWrite, bind_ok_iff, check_ok_iff, expectWriteResp_ok, pure_ok_iff, exists_const,
    Prod.mk.injEq, beq_iff_eq] at h
  obtain ⟨_, _, _, w, _, hr, h1, h2⟩ := h
  exact ⟨h1 ▸ hr, h2.symm⟩

/-- **verify**: success ⇒ the host produced the leaf of the requested sector at the index the
renter drew locally. -/
theorem verify_ok_leaf (P : Prims ρ π σ) (sectorRoot : List Nat → ρ) (metaRoot : List ρ → ρ)
    (hS : Sound P sectorRoot metaRoot) (prices : Prices) (sec : List Nat)
    (hsec : sec.length = sectorSize) (index : Nat) (msgs : List (Msg ρ π σ)) (u : Usage)
    (h : rpcVerify P prices (sectorRoot sec) index msgs = .ok u) :
    ∃ pf rest, msgs = .verifyResp pf (slice sec (leafSize * index) leafSize) :: rest := by
  simp only [rpcVerify, bind_ok_iff, check_ok_iff, expectVerifyResp_ok, pure_ok_iff, exists_const] at h
  obtain ⟨r, hm, hv, _⟩ := h
  have := hS.leaf _ _ _ sec hsec hv
  exact ⟨r.1, r.2.2, by rw [hm, this]⟩

/-! ## sector roots -/

/-- **roots**: success ⇒ the returned roots are the contract's actual roots `[offset,
offset+length)`, the returned revision is the locally computed one, host-signed, and charges
exactly the price-table cost. -/
theorem roots_ok_exact (P : Prims ρ π σ) (sectorRoot : List Nat → ρ) (metaRoot : List ρ → ρ)
    (hS : Sound P sectorRoot metaRoot) (prices : Prices) (pricesOk : Bool) (c : Rev ρ σ)
    (rs : List ρ) (hroot : c.root = metaRoot rs) (hsize : c.filesize = sectorSize * rs.length)
    (offset length : Nat) (msgs : List (Msg ρ π σ)) (rev : Rev ρ σ) (u : Usage) (out : List ρ)
    (h : rpcRoots Cfg.fixed P prices pricesOk c offset length msgs = .ok (rev, u, out)) :
    out = slice rs offset length ∧ out.length = length ∧ HostSigned P c.hostKey rev ∧
    u = rootsCost prices length ∧ Charged c rev u.renterCost ∧
    rev.root = c.root ∧ rev.filesize = c.filesize := by
  simp only [rpcRoots, bind_ok_iff, check_ok_iff, ofOption_ok_iff, expectRootsResp_ok, pure_ok_iff,
    rootsCount_ok, exists_const, Prod.mk.injEq, beq_iff_eq] at h
  obtain ⟨ru, hrev, _, r, _, hlen, hvr, hsig, hr, hu, ho⟩ := h
  simp only [reviseForRoots, Option.map_eq_some_iff] at hrev
  obtain ⟨r1, hp, rfl⟩ := hrev
  obtain ⟨h1, h2, h3⟩ := pay_some hp
  have hn : (c.filesize + sectorSize - 1) / sectorSize = rs.length := by
    rw [hsize]; exact numSectors_ceil _
  rw [hn, hroot] at hvr
  have hsl := hS.roots _ _ _ _ rs hvr
  subst ho hr hu
  refine ⟨?_, hlen, ⟨r.2.2.1, rfl, hsig⟩, rfl, ?_, ?_, ?_⟩
  · rw [hsl]; congr 1; omega
  · subst h3; exact ⟨rfl, h1, rfl, rfl, Nat.sub_le _ _, rfl, rfl⟩
  · subst h3; rfl
  · subst h3; rfl

/-- the pinned client hands a roots list of the wrong length to a verifier that panics on it:
the call neither succeeds nor returns an error.  (Finding C10/roots-count-panic.) -/
theorem roots_pinned_crashes (P : Prims ρ π σ) (prices : Prices) (c : Rev ρ σ) (pf : π)
    (r : ρ) (sig : σ) (hpay : (rootsCost prices 1).renterCost ≤ c.renterOut)
    (hsz : c.filesize = sectorSize) :
    rpcRoots Cfg.pinned P prices true c 0 1 [.rootsResp pf [r, r] sig] = .crash := by
  have hp : ∃ r1, pay c (rootsCost prices 1) = some r1 := by
    unfold pay
    have : (rootsCost prices 1).risked = 0 := rfl
    rw [if_neg (by omega), if_neg (by omega)]
    exact ⟨_, rfl⟩
  obtain ⟨r1, hr1⟩ := hp
  have hval : rootsValid c 0 1 = true := by
    simp [rootsValid, hsz, sectorSize]
  simp [rpcRoots, reviseForRoots, hr1, hval, ofOption, check, expectRootsResp, rootsCount,
    Cfg.pinned, Bind.bind, Res.bind]

/-- the repaired client never crashes, whatever the host sends -/
theorem roots_fixed_never_crashes (P : Prims ρ π σ) (prices : Prices) (pricesOk : Bool)
    (c : Rev ρ σ) (offset length : Nat) (msgs : List (Msg ρ π σ)) :
    rpcRoots Cfg.fixed P prices pricesOk c offset length msgs ≠ .crash := by
  intro h
  have e1 : ∀ m : List (Msg ρ π σ), expectRootsResp m ≠ .crash := by
    intro m; unfold expectRootsResp; split <;> simp
  have e2 : ∀ b, rootsCount Cfg.fixed b ≠ .crash := by
    intro b; cases b <;> simp [rootsCount, Cfg.fixed]
  simp only [rpcRoots, bind_crash_iff, check_ne_crash, ofOption_ne_crash, pure_ne_crash, e1, e2,
    or_false, and_false, exists_false] at h

/-! ## append, free -/

/-- **append**: success ⇒ the new Merkle root is the root of the renter's previous roots
followed by the accepted sectors (a sub-list, in order, of the requested ones, chosen by one
flag per requested root); the revision is the locally computed one, host-signed; the charge is
the price-table cost of the sectors actually appended, which is at most that of the request. -/
theorem append_ok (P : Prims ρ π σ) (sectorRoot : List Nat → ρ) (metaRoot : List ρ → ρ)
    (hS : Sound P sectorRoot metaRoot) (prices : Prices) (c : Rev ρ σ)
    (rs : List ρ) (hroot : c.root = metaRoot rs) (hsize : c.filesize = sectorSize * rs.length)
    (roots : List ρ) (msgs : List (Msg ρ π σ)) (rev : Rev ρ σ) (u : Usage) (app : List ρ)
    (h : rpcAppend P prices c roots msgs = .ok (rev, u, app)) :
    (∃ acc : List Bool, acc.length = roots.length ∧ app = acceptedRoots roots acc) ∧
    rev.root = metaRoot (rs ++ app) ∧ rev.filesize = sectorSize * (rs ++ app).length ∧
    HostSigned P c.hostKey rev ∧ Charged c rev u.renterCost ∧
    u.renterCost ≤ (appendCost prices roots.length (c.expHeight - prices.tipHeight)).renterCost := by
  simp only [rpcAppend, bind_ok_iff, check_ok_iff, ofOption_ok_iff, expectAppendResp_ok,
    expectHostSig_ok, pure_ok_iff, exists_const, Prod.mk.injEq, beq_iff_eq] at h
  obtain ⟨r, _, hlen, hva, ru, hrev, s, _, hsig, hr, hu, ha⟩ := h
  have hn : (c.filesize + sectorSize - 1) / sectorSize = rs.length := by
    rw [hsize]; exact numSectors_ceil _
  rw [hn, hroot] at hva
  have hnew := hS.append _ _ rs _ hva
  simp only [reviseForAppend, Option.map_eq_some_iff] at hrev
  obtain ⟨r1, hp, rfl⟩ := hrev
  obtain ⟨h1, h2, h3⟩ := pay_some hp
  subst hr hu ha
  have hle := acceptedRoots_length_le roots r.1
  refine ⟨⟨r.1, hlen, rfl⟩, ?_, ?_, ⟨s.1, rfl, hsig⟩, ?_, ?_⟩
  · subst h3; exact hnew
  · subst h3; show c.filesize + sectorSize * _ = _; rw [hsize, List.length_append, Nat.mul_add]
  · subst h3; exact ⟨rfl, h1, rfl, rfl, Nat.sub_le _ _, rfl, rfl⟩
  · exact appendCost_mono prices _ (Nat.le_trans (Nat.sub_le _ _) hle)

/-- **free**: success ⇒ the new Merkle root is the root of the previous roots with the
requested (sorted, de-duplicated) indices swap-removed; the file shrinks by exactly that many
sectors; the revision is the locally computed one, host-signed; the charge is the price-table
cost.  `hidx` (every index addresses an existing sector) is the caller's obligation: the client
does not check it, an honest host rejects such a request. -/
theorem free_ok (P : Prims ρ π σ) (sectorRoot : List Nat → ρ) (metaRoot : List ρ → ρ)
    (hS : Sound P sectorRoot metaRoot) (prices : Prices) (c : Rev ρ σ)
    (rs : List ρ) (hroot : c.root = metaRoot rs) (hsize : c.filesize = sectorSize * rs.length)
    (h64 : c.filesize < 2 ^ 64) (indices : List Nat) (hidx : ∀ i ∈ indices, i < rs.length)
    (msgs : List (Msg ρ π σ)) (rev : Rev ρ σ) (u : Usage)
    (h : rpcFree Cfg.fixed P prices c indices msgs = .ok (rev, u)) :
    rev.root = metaRoot (freeBatch rs (normalize indices)) ∧
    rev.filesize = sectorSize * (rs.length - (normalize indices).length) ∧
    HostSigned P c.hostKey rev ∧ Charged c rev u.renterCost ∧
    u.renterCost = prices.freeSector * (normalize indices).length ∧
    u.renterCost ≤ prices.freeSector * indices.length := by
  simp only [rpcFree, bind_ok_iff, check_ok_iff, ofOption_ok_iff, expectFreeResp_ok,
    expectHostSig_ok, pure_ok_iff, exists_const, Prod.mk.injEq] at h
  obtain ⟨r, _, hshape, hvf, ru, hrev, s, _, hsig, hr, hu⟩ := h
  have hn : c.filesize / sectorSize = rs.length := by
    rw [hsize]; exact numSectors_floor _
  simp only [Cfg.fixed, Bool.not_true, Bool.false_or] at hshape
  rw [hn] at hshape
  rw [hn, hroot] at hvf
  have hnew := hS.free _ _ _ rs _ hshape hvf
  have hk := normalize_length_le_of_bounded indices rs.length hidx
  simp only [reviseForFree, Option.map_eq_some_iff] at hrev
  obtain ⟨r1, hp, rfl⟩ := hrev
  obtain ⟨h1, h2, h3⟩ := pay_some hp
  subst hr hu
  have hcost : (freeCost prices (normalize indices).length).renterCost
      = prices.freeSector * (normalize indices).length := by
    simp [freeCost, Usage.renterCost]
  refine ⟨?_, ?_, ⟨s.1, rfl, hsig⟩, ?_, hcost, ?_⟩
  · subst h3; exact hnew
  · subst h3
    show sub64 c.filesize (sectorSize * (normalize indices).length) = _
    rw [sub64_exact h64 (by rw [hsize]; exact Nat.mul_le_mul_left _ hk), hsize,
      Nat.mul_sub]
  · subst h3; exact ⟨rfl, h1, rfl, rfl, Nat.sub_le _ _, rfl, rfl⟩
  · rw [hcost]; exact Nat.mul_le_mul_left _ (normalize_length indices)

/-- the pinned client (no proof-size check) accepts whatever `VerifyFreeSectorsProof` accepts — and
that verifier, handed too few subtree hashes, accepts a proof built for *another* index set
together with the root that results from removing those other sectors (shown on the real
verifier by `harness/c10`: 6 sectors, requested index 3, answered with the proof and root for
index 4).  (Finding C10/free-proof-substitution.) -/
theorem free_pinned_accepts_misshapen (P : Prims ρ π σ) (prices : Prices) (c : Rev ρ σ)
    (indices : List Nat) (sub lv : π) (newRoot : ρ) (sig : σ) (rev : Rev ρ σ) (u : Usage)
    (hv : P.verifyFree sub lv (normalize indices) (c.filesize / sectorSize) c.root newRoot = true)
    (hrev : reviseForFree c prices newRoot (normalize indices).length = some (rev, u))
    (hsig : P.verifySig c.hostKey rev.unsigned sig = true) :
    rpcFree Cfg.pinned P prices c indices [.freeResp sub lv newRoot, .hostSig sig]
      = .ok ({ rev with hostSig := some sig }, u) ∧
    rpcFree Cfg.fixed P prices c indices [.freeResp sub lv newRoot, .hostSig sig]
      = (if P.freeShapeOk sub lv (normalize indices) (c.filesize / sectorSize)
          then .ok ({ rev with hostSig := some sig }, u) else .err) := by
  constructor
  · simp [rpcFree, Cfg.pinned, Bind.bind, Res.bind, check, expectFreeResp, expectHostSig, ofOption,
      hv, hrev, hsig, pure]
  · by_cases hs : P.freeShapeOk sub lv (normalize indices) (c.filesize / sectorSize) = true
    · simp [rpcFree, Cfg.fixed, Bind.bind, Res.bind, check, expectFreeResp, expectHostSig, ofOption,
        hv, hrev, hsig, hs, pure]
    · simp [rpcFree, Cfg.fixed, Bind.bind, Res.bind, check, expectFreeResp, hs]

/-! ## fund, replenish -/

/-- **fund**: success ⇒ host-signed locally computed revision charging exactly Σ deposits. -/
theorem fund_ok (P : Prims ρ π σ) (c : Rev ρ σ) (deposits : List (Nat × Nat))
    (msgs : List (Msg ρ π σ)) (rev : Rev ρ σ) (u : Usage) (bal : List (Nat × Nat))
    (h : rpcFund P c deposits msgs = .ok (rev, u, bal)) :
    HostSigned P c.hostKey rev ∧ Charged c rev u.renterCost ∧ u.renterCost = total deposits ∧
    rev.root = c.root ∧ rev.filesize = c.filesize := by
  simp only [rpcFund, bind_ok_iff, check_ok_iff, ofOption_ok_iff, expectFundResp_ok,
    pure_ok_iff, exists_const, Prod.mk.injEq] at h
  obtain ⟨ru, hrev, _, r, _, _, hsig, hr, hu, _⟩ := h
  simp only [reviseForFunding, Option.map_eq_some_iff] at hrev
  obtain ⟨r1, hp, rfl⟩ := hrev
  obtain ⟨h1, h2, h3⟩ := pay_some hp
  subst hr hu h3
  refine ⟨⟨r.2.1, rfl, hsig⟩, ⟨rfl, h1, rfl, rfl, Nat.sub_le _ _, rfl, rfl⟩, ?_, rfl, rfl⟩
  simp [Usage.renterCost]

/-- **replenish** (accounts and pools): success ⇒ the charge is at most `target × #accounts`
(and every single deposit at most `target`); the returned revision is host-signed — either the
locally computed one, or, when the host asks for nothing, the caller's own unchanged revision
(`hIn`: which the caller holds host-signed).  Note: only the pools twin also forces
`#deposits = #accounts`; the bound does not need it. -/
theorem replenish_ok (P : Prims ρ π σ) (pools : Bool) (c : Rev ρ σ) (hIn : HostSigned P c.hostKey c)
    (accounts : List Nat) (target : Nat) (msgs : List (Msg ρ π σ)) (rev : Rev ρ σ) (u : Usage)
    (deps : List (Nat × Nat))
    (h : rpcReplenish P pools c accounts target msgs = .ok (rev, u, deps)) :
    HostSigned P c.hostKey rev ∧ u.renterCost ≤ target * accounts.length ∧
    u.renterCost = total deps ∧ (∀ d ∈ deps, d.2 ≤ target) ∧
    (pools = true → deps.length = accounts.length) ∧
    ((rev = c ∧ u.renterCost = 0) ∨ (Charged c rev u.renterCost ∧ rev.root = c.root ∧ rev.filesize = c.filesize)) := by
  simp only [rpcReplenish, bind_ok_iff, check_ok_iff, expectReplenishResp_ok, exists_const] at h
  obtain ⟨_, r, _, hpl, hany, h⟩ := h
  simp only [Bool.not_eq_eq_eq_not, Bool.not_true] at hany
  have hall : ∀ d ∈ r.1, d.2 ≤ target := by
    intro d hd
    have := List.any_eq_false.mp hany d hd
    simpa using this
  have hplen : pools = true → r.1.length = accounts.length := by
    intro hp
    simpa [hp] using hpl
  split at h
  · rename_i hz
    simp only [pure_ok_iff, Prod.mk.injEq] at h
    obtain ⟨hr, hu, hd⟩ := h
    simp only [beq_iff_eq] at hz
    subst hr hu hd
    exact ⟨hIn, by simp [Usage.renterCost], by simp [Usage.renterCost, hz], hall, hplen,
      .inl ⟨rfl, by simp [Usage.renterCost]⟩⟩
  · simp only [bind_ok_iff, check_ok_iff, ofOption_ok_iff, expectHostSig_ok, pure_ok_iff,
      exists_const, Prod.mk.injEq, decide_eq_true_eq] at h
    obtain ⟨hmax, ru, hrev, s, _, hsig, hr, hu, hd⟩ := h
    simp only [reviseForFunding, Option.map_eq_some_iff] at hrev
    obtain ⟨r1, hp, rfl⟩ := hrev
    obtain ⟨h1, h2, h3⟩ := pay_some hp
    subst hr hu hd h3
    have hc : ({ funding := total r.1 } : Usage).renterCost = total r.1 := by
      simp [Usage.renterCost]
    refine ⟨⟨s.1, rfl, hsig⟩, ?_, hc, hall, hplen,
      .inr ⟨⟨rfl, h1, rfl, rfl, Nat.sub_le _ _, rfl, rfl⟩, rfl, rfl⟩⟩
    rw [hc]; exact hmax

/-! ## "in every other case an error": the checks are not skippable -/

/-- a failing proof, a failing signature, a missing or unreadable message ⇒ no success -/
theorem read_rejects_bad_proof (P : Prims ρ π σ) (prices : Prices) (reqOk : Bool) (p : ReadParams ρ)
    (pf : π) (n : Nat) (rest : List (Msg ρ π σ))
    (hbad : ∀ data s e, P.verifyRange pf data s e p.root = false) (cfg : Cfg) :
    ∀ r, rpcRead cfg P prices reqOk p (.readResp pf n :: rest) ≠ .ok r := by
  intro r h
  simp only [rpcRead, bind_ok_iff, check_ok_iff, expectReadResp_ok, pure_ok_iff, exists_const] at h
  obtain ⟨_, a, hm, _, _, _, _, hv, _⟩ := h
  simp only [List.cons.injEq, Msg.readResp.injEq] at hm
  rw [← hm.1.1, hbad] at hv
  cases hv

theorem free_rejects_bad_signature (P : Prims ρ π σ) (prices : Prices) (c : Rev ρ σ)
    (indices : List Nat) (m : Msg ρ π σ) (s : σ) (rest : List (Msg ρ π σ))
    (hbad : ∀ r, P.verifySig c.hostKey r s = false) :
    ∀ cfg r, rpcFree cfg P prices c indices (m :: .hostSig s :: rest) ≠ .ok r := by
  intro cfg r h
  simp only [rpcFree, bind_ok_iff, check_ok_iff, ofOption_ok_iff, expectFreeResp_ok,
    expectHostSig_ok, pure_ok_iff, exists_const] at h
  obtain ⟨a, hm, _, _, ru, _, s', hs, hsig, _⟩ := h
  simp only [List.cons.injEq] at hm
  rw [← hm.2] at hs
  simp only [List.cons.injEq, Msg.hostSig.injEq] at hs
  rw [← hs.1, hbad] at hsig
  cases hsig

theorem no_messages_no_success [DecidableEq ρ] (P : Prims ρ π σ) (prices : Prices) (c : Rev ρ σ) :
    (∀ cfg b p, rpcRead cfg P prices b p ([] : List (Msg ρ π σ)) = .err) ∧
    (∀ b d n r, rpcWrite P prices b d n ([] : List (Msg ρ π σ)) ≠ .ok r) ∧
    (∀ root i, rpcVerify P prices root i ([] : List (Msg ρ π σ)) = .err) ∧
    (∀ cfg idx, rpcFree cfg P prices c idx ([] : List (Msg ρ π σ)) = .err) ∧
    (∀ roots, rpcAppend P prices c roots ([] : List (Msg ρ π σ)) = .err) ∧
    (∀ ds r, rpcFund P c ds ([] : List (Msg ρ π σ)) ≠ .ok r) ∧
    (∀ b a t r, rpcReplenish P b c a t ([] : List (Msg ρ π σ)) ≠ .ok r) ∧
    (∀ cfg b o l r, rpcRoots cfg P prices b c o l ([] : List (Msg ρ π σ)) ≠ .ok r) := by
  refine ⟨?_, ?_, ?_, ?_, ?_, ?_, ?_, ?_⟩
  · intro cfg b p
    simp only [rpcRead, expectReadResp, check]
    split <;> rfl
  · intro b d n r h
    simp [rpcWrite] at h
  · intros; rfl
  · intros; rfl
  · intros; rfl
  · intro ds r h
    simp [rpcFund] at h
  · intro b a t r h
    simp [rpcReplenish] at h
  · intro cfg b o l r h
    simp [rpcRoots] at h

/-! ## the hypotheses are satisfiable: a transparent "hash" -/

/-- roots are the hashed objects themselves (an injective hash) -/
inductive ToyH where
  | sector (bytes : List Nat)
  | contract (roots : List ToyH)

noncomputable instance : DecidableEq ToyH := fun _ _ => Classical.propDecidable _

def toySectorRoot (b : List Nat) : ToyH := .sector b
def toyMetaRoot (rs : List ToyH) : ToyH := .contract rs

/-- proofs carry nothing; the verifier looks inside the transparent root -/
noncomputable def toyPrims : Prims ToyH Unit Nat where
  verifySig := fun k _ s => s == k
  rootOfData := toySectorRoot
  verifyRange := fun _ data s e root => match root with
    | .sector sec => data == slice sec (leafSize * s) (leafSize * (e - s))
    | _ => false
  verifyLeaf := fun _ lf i root => match root with
    | .sector sec => lf == slice sec (leafSize * i) leafSize
    | _ => false
  verifyRoots := fun _ roots n s e root => match root with
    | .contract rs => rs.length == n && roots == slice rs s (e - s)
    | _ => false
  verifyAppend := fun n _ app old new => match old with
    | .contract rs => rs.length == n && new == .contract (rs ++ app)
    | _ => false
  verifyFree := fun _ _ idx n old new => match old with
    | .contract rs => rs.length == n && new == .contract (freeBatch rs idx)
    | _ => false
  freeShapeOk := fun _ _ _ _ => true

theorem toy_sound : Sound toyPrims toySectorRoot toyMetaRoot where
  range := by intro pf data s e sec _ h; simpa [toyPrims, toySectorRoot] using h
  leaf := by intro pf lf i sec _ h; simpa [toyPrims, toySectorRoot] using h
  roots := by intro pf roots s e rs h; simpa [toyPrims, toyMetaRoot] using h
  append := by intro sub app rs newRoot h; simpa [toyPrims, toyMetaRoot] using h
  free := by intro sub lv idx rs newRoot _ h; simpa [toyPrims, toyMetaRoot] using h



/-- non-vacuity: success is reachable (an honest host's answer to an aligned one-leaf read is
accepted by the repaired client and delivers exactly the leaf) … -/
example : rpcRead (ρ := Nat) (π := Nat) (σ := Nat) Cfg.fixed
    { verifySig := fun _ _ _ => true, rootOfData := fun _ => 0, verifyRange := fun pf _ _ _ _ => pf == 1,
      verifyLeaf := fun _ _ _ _ => true, verifyFree := fun _ _ _ _ _ _ => true, freeShapeOk := fun _ _ _ _ => true,
      verifyAppend := fun _ _ _ _ _ => true, verifyRoots := fun _ _ _ _ _ _ => true }
    ⟨0, 0, 100, 0, 0, 0⟩ true ⟨7, 64, 64, none⟩ [.readResp 1 64, .stream (List.replicate 64 9)]
    = .ok (List.replicate 64 9, { egress := 409600 }) := by decide

/-- … and the over-long answer the pinned client accepted is now an error -/
example : rpcRead (ρ := Nat) (π := Nat) (σ := Nat) Cfg.fixed
    { verifySig := fun _ _ _ => true, rootOfData := fun _ => 0, verifyRange := fun pf _ _ _ _ => pf == 1,
      verifyLeaf := fun _ _ _ _ => true, verifyFree := fun _ _ _ _ _ _ => true, freeShapeOk := fun _ _ _ _ => true,
      verifyAppend := fun _ _ _ _ _ => true, verifyRoots := fun _ _ _ _ _ _ => true }
    ⟨0, 0, 100, 0, 0, 0⟩ true ⟨7, 32, 32, none⟩ [.readResp 1 64, .stream (List.replicate 64 9)]
    = .err := by decide

end Verif.C10
