/-
C12 — honest connected nodes converge to the same heaviest chain.

Property theorems only (helper lemmas: `Lemmas/Sync.lean`, model: `Model/Sync.lean`).  The
theorems are about an **abstract gossip system**: any number `N` of nodes, each holding a tip
of one shared block universe, an arbitrary "pulls from" relation, and a step "node `i` obtains
the best chain of `j` and submits it to its manager", which by `Manager.AddBlocks` moves `i`
iff `j`'s chain is *sufficiently heavier* (`heavier`, consensus/state.go:217-238).  Runs are
infinite schedules; liveness is proved for every **fair** schedule.  That one real sync round
delivers the neighbour's chain (history sample → headers → batches → manager) is the decision
logic of C11 plus `history_finds_ancestor`; network timing is not modelled, and on the
implementation "eventually" is observed as "within a deadline".
-/
import Verif.Lemmas.Sync
import Verif.Lemmas.SyncRound

namespace Verif.C12
open Verif.Sync

/-- **decisive class**: in a connected system, if the chain held by node `m` is sufficiently
heavier than every other tip present, then under *every* fair schedule there is a time after
which every node is on that chain, forever.  (Measure: the number of nodes not on it —
`Lemmas.Sync.converge_measure`; a node on it never leaves, every tip present is an initial
tip, and a boundary edge exists by connectivity and fires by fairness.) -/
theorem converge_decisive (U : Univ) (N : Nat) (adj : Nat → Nat → Prop) (σ0 : Nat → Nat) (m : Nat)
    (hdec : ∀ i, i < N → σ0 i ≠ σ0 m → heavier U (σ0 m) (σ0 i) = true)
    (hconn : ∀ i, i < N → Reach adj N m i)
    (sched : Nat → Nat × Nat) (hr : InRange N sched) (hfair : Fair adj sched) :
    ∃ K, ∀ k, K ≤ k → ∀ i, i < N → runSched U σ0 sched k i = σ0 m := by
  have hg : Good U (σ0 m) N σ0 := hdec
  obtain ⟨K, _, hz⟩ := converge_measure U hg hr rfl hconn hfair (cnt (σ0 m) N σ0) 0 (Nat.le_refl _)
  refine ⟨K, fun k hk i hi => ?_⟩
  exact run_stay' U hg hr hk (cnt_zero hz i hi)

/-- the part of the TARGET `C12_converge_full` (below) that holds of the code: convergence to
*some* common tip, under the decisiveness hypothesis -/
theorem converge_partial (U : Univ) (N : Nat) (adj : Nat → Nat → Prop) (σ0 : Nat → Nat) (m : Nat)
    (hdec : ∀ i, i < N → σ0 i ≠ σ0 m → heavier U (σ0 m) (σ0 i) = true)
    (hconn : ∀ i, i < N → Reach adj N m i)
    (sched : Nat → Nat × Nat) (hr : InRange N sched) (hfair : Fair adj sched) :
    ∃ K t, ∀ k, K ≤ k → ∀ i, i < N → runSched U σ0 sched k i = t :=
  let ⟨K, h⟩ := converge_decisive U N adj σ0 m hdec hconn sched hr hfair
  ⟨K, σ0 m, h⟩

/-- throughout any run (fair or not) no node's tip ever loses work -/
theorem gossip_work_mono (U : Univ) (σ0 : Nat → Nat) (sched : Nat → Nat × Nat) (k i : Nat) :
    (U (runSched U σ0 sched k i)).work ≤ (U (runSched U σ0 sched (k + 1) i)).work := by
  show _ ≤ (U (pull U (runSched U σ0 sched k) (sched k) i)).work
  unfold pull
  split
  · rename_i h; obtain ⟨rfl, hh⟩ := h; exact Nat.le_of_lt (heavier_work hh)
  · exact Nat.le_refl _

/-- **near-tie class**: if no tip present is sufficiently heavier than another (all pairwise
differences are within a fifth of the difficulty), no node ever moves, under any schedule. -/
theorem near_tie_no_convergence (U : Univ) (N : Nat) (σ0 : Nat → Nat)
    (h : ∀ i j, i < N → j < N → heavier U (σ0 i) (σ0 j) = false)
    (sched : Nat → Nat × Nat) (hr : InRange N sched) :
    ∀ k i, i < N → runSched U σ0 sched k i = σ0 i := by
  intro k
  induction k with
  | zero => intro i _; rfl
  | succ k ih =>
    intro i hi
    show pull U (runSched U σ0 sched k) (sched k) i = σ0 i
    unfold pull
    split
    · rename_i hc
      obtain ⟨rfl, hh⟩ := hc
      rw [ih _ (hr k).1, ih _ (hr k).2, h _ _ (hr k).2 (hr k).1] at hh
      cases hh
    · exact ih i hi

/-- TARGET (the property as stated: convergence without the decisiveness hypothesis).  It is
**false** of the code by design of its chain-selection rule — see `converge_full_false`. -/
def C12_converge_full : Prop :=
  ∀ (U : Univ) (N : Nat) (adj : Nat → Nat → Prop) (σ0 : Nat → Nat) (m : Nat),
    (∀ i, i < N → Reach adj N m i) →
    ∀ sched : Nat → Nat × Nat, InRange N sched → Fair adj sched →
      ∃ K t, ∀ k, K ≤ k → ∀ i, i < N → runSched U σ0 sched k i = t

/-- two sibling blocks of equal work -/
def tieU : Univ := fun i =>
  match i with
  | 0 => ⟨0, 0, 0, 10, 10, true, true, true, true, false, false⟩
  | 1 => ⟨0, 1, 1, 20, 10, true, true, true, true, false, false⟩
  | _ => ⟨0, 2, 1, 21, 10, true, true, true, true, false, false⟩

def twoAdj : Nat → Nat → Prop := fun i j => (i = 0 ∧ j = 1) ∨ (i = 1 ∧ j = 0)
def twoSched : Nat → Nat × Nat := fun k => if k % 2 = 0 then (0, 1) else (1, 0)

theorem twoSched_inRange : InRange 2 twoSched := by
  intro k; unfold twoSched; split <;> simp

theorem twoSched_fair : Fair twoAdj twoSched := by
  intro i j h k
  rcases h with ⟨rfl, rfl⟩ | ⟨rfl, rfl⟩
  · exact ⟨2 * k, by omega, by simp [twoSched]⟩
  · exact ⟨2 * k + 1, by omega, by simp [twoSched]⟩

theorem two_connected : ∀ i, i < 2 → Reach twoAdj 2 0 i := by
  intro i hi
  match i, hi with
  | 0, _ => exact .base
  | 1, _ => exact .step .base (by omega) (by omega) (.inr ⟨rfl, rfl⟩)

/-- two connected nodes on sibling tips whose works differ by 1 ≤ 10/5 never agree, although
both are scheduled forever -/
theorem converge_full_false : ¬ C12_converge_full := by
  intro h
  obtain ⟨K, t, hK⟩ := h tieU 2 twoAdj (fun i => i + 1) 0 two_connected twoSched twoSched_inRange twoSched_fair
  have hnt := near_tie_no_convergence tieU 2 (fun i => i + 1)
    (by intro i j hi hj
        match i, j, hi, hj with
        | 0, 0, _, _ | 0, 1, _, _ | 1, 0, _, _ | 1, 1, _, _ => decide)
    twoSched twoSched_inRange K
  have h0 := hK K (Nat.le_refl _) 0 (by omega)
  have h1 := hK K (Nat.le_refl _) 1 (by omega)
  rw [hnt 0 (by omega)] at h0
  rw [hnt 1 (by omega)] at h1
  omega

/-- **the exponentially spaced history sample always contains a common block**: for a chain
`a` (tip first, ending in genesis) of at most `7 + 2^23 + 1` blocks and any chain `b` containing
genesis, the first history entry of `a` that is on `b` exists and is on both chains — so the
header request of `syncLoop` succeeds at the latest on its last history entry.  (Beyond that
length the 32-entry sample of the code no longer reaches genesis; this bound is the code's.) -/
theorem history_finds_ancestor (a b : List Nat) (hne : a ≠ []) (ha : a.getLast hne = 0) (hb : 0 ∈ b)
    (hlen : a.length ≤ 8388616) :
    ∃ x, (history a).find? (fun id => b.contains id) = some x ∧ x ∈ a ∧ x ∈ b := by
  have h0 : (0 : Nat) ∈ history a := ha ▸ last_mem_history a hne hlen
  cases hf : (history a).find? (fun id => b.contains id) with
  | none =>
    rw [List.find?_eq_none] at hf
    exact absurd (by simpa using hb) (hf 0 h0)
  | some x =>
    refine ⟨x, rfl, mem_of_mem_history a hne (List.mem_of_find?_eq_some hf), ?_⟩
    simpa using List.find?_some hf

/-- the first history entry is the tip itself (so a peer that is ahead on the same chain
answers the very first request) -/
theorem history_head (a : List Nat) : (history a).head? = some (a.getD 0 0) := by
  simp [history, List.range_succ_eq_map, histOffset]

/-! ### the concrete round: gates + manager instead of the abstract pull

In an honest network (every block of the universe valid — `AllValid` —, arbitrary forks) node
`i`'s `syncLoop` iteration against node `j` is `honestRound`: history sample, `SendHeaders` from
the first entry `j` recognises (found by `history_finds_ancestor`), the request split,
`SendCheckpoint`/`SendV2Blocks`, the gates of C11, `AddBlocks`/`AddValidatedV2Blocks` of the
minimal manager, both sides running the model. -/

/-- **one real sync round against an honest peer is one abstract pull step**: the node's best
chain becomes the peer's iff the peer's tip is sufficiently heavier than its own tip, otherwise
it is unchanged; the node invariant (best chain parent-linked from genesis, applied, stored;
stored blocks closed under parents) is kept. -/
theorem honest_round_is_pull (U : Univ) (cfg : Cfg) (av : AllValid U cfg) (n : Node) (h : NodeOK U n)
    (pb : List Nat) (hpb : IsChain U pb) (hlen : n.best.length ≤ 8388616) :
    NodeOK U (honestRound U cfg n pb) ∧
    (honestRound U cfg n pb).best = (if heavier U (pb.headD 0) n.tip then pb else n.best) :=
  honestRound_spec av h hpb hlen

/-- the concrete system (`runSchedC`: every step is a real round) and the abstract one (`runSched`:
every step is a pull) agree on every node's tip at every time, for every schedule -/
theorem concrete_refines_abstract (U : Univ) (cfg : Cfg) (av : AllValid U cfg) (hbd : HeightBound U)
    (σ0 : Nat → Node) (h0 : ∀ x, NodeOK U (σ0 x)) (sched : Nat → Nat × Nat) (k x : Nat) :
    NodeOK U (runSchedC U cfg σ0 sched k x) ∧
    (runSchedC U cfg σ0 sched k x).tip = runSched U (fun y => (σ0 y).tip) sched k x :=
  runSchedC_spec av hbd h0 sched k x

/-- **`converge_decisive` for the concrete round function**: any number of honest nodes holding
arbitrary best chains, any connected "syncs from" relation, every fair schedule of real rounds:
if node `m`'s chain is sufficiently heavier than every other tip, there is a time after which
every node's **best chain** is `m`'s chain, forever. -/
theorem converge_decisive_concrete (U : Univ) (cfg : Cfg) (av : AllValid U cfg) (hbd : HeightBound U)
    (N : Nat) (adj : Nat → Nat → Prop) (σ0 : Nat → Node) (h0 : ∀ x, NodeOK U (σ0 x)) (m : Nat)
    (hdec : ∀ i, i < N → (σ0 i).tip ≠ (σ0 m).tip → heavier U (σ0 m).tip (σ0 i).tip = true)
    (hconn : ∀ i, i < N → Reach adj N m i)
    (sched : Nat → Nat × Nat) (hr : InRange N sched) (hfair : Fair adj sched) :
    ∃ K, ∀ k, K ≤ k → ∀ i, i < N → (runSchedC U cfg σ0 sched k i).best = (σ0 m).best := by
  obtain ⟨K, hK⟩ := converge_decisive U N adj (fun y => (σ0 y).tip) m hdec hconn sched hr hfair
  refine ⟨K, fun k hk i hi => ?_⟩
  obtain ⟨ok, ht⟩ := concrete_refines_abstract U cfg av hbd σ0 h0 sched k i
  rw [hK k hk i hi] at ht
  exact ok.best_eq (h0 m).chain (by rw [(h0 m).tip_head, ht])

/-! ### non-vacuity -/

/-- an honest universe: 0 ← 1 ← 2 and a fork 0 ← 3; require height 1 (so the second request of a
round goes through the checkpoint path); (every other id is a sibling of 3); a node on [3, 0] syncing from a peer on [2, 1, 0] with
one block per request adopts the peer's chain -/
def honU : Univ := fun i =>
  match i with
  | 0 => ⟨0, 0, 0, 10, 10, true, true, true, true, false, false⟩
  | 1 => ⟨0, 1, 1, 20, 10, true, true, true, true, true, false⟩
  | 2 => ⟨1, 2, 2, 30, 10, true, true, true, true, true, false⟩
  | n + 3 => ⟨0, n + 3, 1, 21, 10, true, true, true, true, true, false⟩

/-- the hypotheses of the round theorems are satisfiable -/
theorem honU_allValid : AllValid honU ⟨1, 1⟩ := by
  have hcase : ∀ (P : Nat → Prop), P 0 → P 1 → P 2 → (∀ n, P (n + 3)) → ∀ b, P b := by
    intro P h0 h1 h2 h3 b
    match b with
    | 0 => exact h0
    | 1 => exact h1
    | 2 => exact h2
    | n + 3 => exact h3 n
  refine ⟨rfl, rfl, ?_, ?_, ?_, ?_, ?_, ?_, ?_, ?_, by decide⟩
  · exact hcase _ (by simp) (by intro _; rfl) (by intro _; rfl) (by intro n _; rfl)
  · exact hcase _ rfl rfl rfl (by intro n; rfl)
  · exact hcase _ rfl rfl rfl (by intro n; rfl)
  · exact hcase _ rfl rfl rfl (by intro n; rfl)
  · exact hcase _ rfl rfl rfl (by intro n; rfl)
  · exact hcase _ rfl rfl rfl (by intro n; rfl)
  · exact hcase _ (by intro h; exact absurd h (by decide)) (by intro h; exact absurd h (by decide)) (by intro _; rfl) (by intro n _; rfl)
  · exact hcase _ (by simp) (by intro _; decide) (by intro _; decide) (by intro n _; show 21 > 10 + 10 / 5; decide)

example : (honestRound honU ⟨1, 1⟩ ⟨[3, 0], [3, 0], [3, 0]⟩ [2, 1, 0]).best = [2, 1, 0] := by decide
example : (honestRound honU ⟨1, 1⟩ ⟨[2, 1, 0], [2, 1, 0], [2, 1, 0]⟩ [3, 0]).best = [2, 1, 0] := by decide


/-- a decisive instance: node 1's tip (block 2, work 40) is sufficiently heavier than node 0's
(block 1, work 20, difficulty 10): every fair run converges to block 2 -/
def decU : Univ := fun i =>
  match i with
  | 0 => ⟨0, 0, 0, 10, 10, true, true, true, true, false, false⟩
  | 1 => ⟨0, 1, 1, 20, 10, true, true, true, true, false, false⟩
  | _ => ⟨0, 2, 1, 40, 10, true, true, true, true, false, false⟩

example : ∃ K, ∀ k, K ≤ k → ∀ i, i < 2 → runSched decU (fun i => i + 1) twoSched k i = 2 := by
  have hconn : ∀ i, i < 2 → Reach twoAdj 2 1 i := by
    intro i hi
    match i, hi with
    | 1, _ => exact .base
    | 0, _ => exact .step .base (by omega) (by omega) (.inl ⟨rfl, rfl⟩)
  exact converge_decisive decU 2 twoAdj (fun i => i + 1) 1
    (by intro i hi hne
        match i, hi with
        | 0, _ => decide
        | 1, _ => exact absurd rfl hne)
    hconn twoSched twoSched_inRange twoSched_fair

/-- and it does so after one step of the concrete schedule -/
example : runSched decU (fun i => i + 1) twoSched 1 0 = 2 ∧ runSched decU (fun i => i + 1) twoSched 1 1 = 2 := by
  decide

/-- the history sample of a 40-block chain: tip, the nine blocks below it, then exponentially
spaced heights down to genesis -/
example : history ((List.range 40).reverse) =
    [39, 38, 37, 36, 35, 34, 33, 32, 31, 30, 28, 24, 16, 0, 0, 0, 0, 0, 0, 0, 0, 0, 0, 0, 0, 0, 0, 0, 0, 0, 0, 0] := by
  decide

end Verif.C12
