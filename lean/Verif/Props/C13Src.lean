/-
C13, source tie: the lock discipline of the methods C13 names, over the table regenerated from
chain/manager.go on every run (`Extracted.managerLocks`).  The model's `rebase`, `v2TransactionSet`
and `unconfirmedParents` are atomic steps; `V2TransactionSet` and `UnconfirmedParents` re-validate (and
rewrite) the pool before they read it, so they need the EXCLUSIVE lock for their whole body like the
submission methods.  Same theorems as `Props/C05Src.lean`, restated for these methods.
-/
import Verif.Lemmas.SkelTok
import Verif.Lemmas.LockTab
import Verif.Extracted.ChainSkel

namespace Verif.C13Src
open Verif.Skel Verif.Extracted Verif.LockTab

def rebaseMethods : List String :=
  ["UpdateV2TransactionSet", "V2TransactionSet", "UnconfirmedParents", "AddV2PoolTransactions",
   "updateV2TransactionProofs", "computeParentMap", "revalidatePool", "checkTxnSet", "overwriteExpirations"]

def rebaseLocks := managerLocks.filter (fun e => rebaseMethods.contains e.1)

theorem src_manager_mutex_exclusive : managerMutexType = "sync.Mutex" := by decide

/-- no `RLock`/`TryLock` on these paths -/
theorem src_rebase_lock_ops_closed : opsClosed rebaseLocks = true := by decide

/-- every exported one takes the lock first, releases it by a deferred unlock, and reads nothing of
the manager before the lock is held -/
theorem src_rebase_exported_methods_lock_first : exportedLockFirst rebaseLocks = true := by decide

/-- the helpers never operate on the lock: they run inside their caller's critical section -/
theorem src_rebase_internal_methods_never_lock : internalNeverLock rebaseLocks = true := by decide

/-- only `AddV2PoolTransactions` opens the lock in the middle (listener window), once -/
theorem src_rebase_unlock_windows :
    (rebaseLocks.filter (fun e => (lkOps e).contains "Unlock")).map (·.1) = ["AddV2PoolTransactions"] ∧
    rebaseLocks.all (fun e => windowsClosed (lkOps e)) = true := by decide

/-- non-vacuity: every method named above is in the extracted table -/
theorem src_rebase_lock_table_covers :
    rebaseMethods.all (fun n => managerLocks.any (·.1 == n)) = true ∧ rebaseLocks.length = rebaseMethods.length := by decide

end Verif.C13Src
