/-
C16 — contract formation / renewal / refresh yields a confirmable contract or leaves no trace.

Property theorems only.  The model (`Model/Formation.lean`) runs the renter's and the host's
steps of one exchange under exactly one fault; the theorems are quantified over **every** RPC,
every environment (basis relation, parents), **every** fault point — each message lost or the
renter cancelling while it is in flight, the dial failing, each fallible call of either side
failing, each check tripped by a corrupted message — and over **any number** of attempts in a
row.  The fault space is finite, so the per-attempt statements are decided by evaluating the
model on the complete enumeration (`forallAttempts`, kernel evaluation, no `native_decide`) and
then hold for an arbitrary attempt by `forallAttempts_spec`; the statements about sequences are
by induction.

Which code the theorems talk about is **not assumed**: `sourceCfg` is computed from
`Extracted/FormationFacts.lean`, which `vh srcfacts` regenerates from `rhp/v4/rpc.go` and
`rhp/v4/server.go` on every run (every `return` after `FundV2Transaction` and whether a
`ReleaseInputs` precedes it, the host's deferred release and the position of `broadcast = true`,
the transaction-id comparison, the detachment of the host's inputs).  `source_is_repaired` and
`source_skeleton_ok` are the obligations over those facts; the behaviour itself is tied by the
correspondence check `harness/c16` (call traces of both sides under every fault).
-/
import Verif.Lemmas.Formation
import Verif.Extracted.FormationFacts

namespace Verif.C16
open Verif.Formation
open Verif.Extracted.Formation

/-! ## what the source says (regenerated facts) -/

/-- every error return after the funding call is preceded by `ReleaseInputs` in its block
(the return guarding the funding call's own error excepted: nothing is reserved then) -/
def renterReleases (fn : RenterFn) : Bool :=
  fn.found && fn.rets.all fun r => !(r.afterFund && r.returnsErr && !r.fundErr) || r.released

/-- the function compares transaction ids and returns the locally built contract -/
def renterBinds (fn : RenterFn) : Bool := fn.found && fn.comparesTxnID && fn.returnsLocalContract

/-- the handler registers the `broadcast`-guarded release of its transaction right after funding,
admits the set to the pool before the contractor sees it, sets `broadcast` once, after contractor
and wallet broadcast, and before the final response -/
def hostDisciplined (h : HostFn) : Bool :=
  h.found && h.fund != 0 && decide (h.fund < h.deferRelease) && h.returnsBetweenFundAndDefer == 0 &&
  h.deferGuarded && h.deferReleasesTxn && decide (h.deferRelease < h.poolAdd) &&
  decide (h.poolAdd < h.record) && decide (h.record < h.walletBroadcast) &&
  decide (h.walletBroadcast < h.setBroadcast) && decide (h.setBroadcast < h.finalWrite) &&
  h.broadcastAssignments == 1

/-- the configuration of the model the current source corresponds to -/
def sourceCfg : Cfg where
  releaseOnDial := renterReleases renterForm && renterReleases renterRenew && renterReleases renterRefresh
  keepHostInputs := !hostForm.detachesHostInputs && !hostRenew.detachesHostInputs && !hostRefresh.detachesHostInputs
  bindFinal := renterBinds renterForm && renterBinds renterRenew && renterBinds renterRefresh

/-- obligation over the regenerated facts: the three host handlers have the release skeleton the
model's `hostDefers` / `script` assume -/
theorem source_skeleton_ok :
    hostDisciplined hostForm = true ∧ hostDisciplined hostRenew = true ∧ hostDisciplined hostRefresh = true := by
  decide

/-- obligation over the regenerated facts: the source is the repaired code -/
theorem source_is_repaired : sourceCfg = Cfg.fixed := by decide

/-! ## one attempt, any fault

`atFinalMessage`, `hostBroadcastFails`, the predicate `attemptGood` (the conjunction of the facts
restated below) and its evaluation on the whole fault space (`attemptGood_fixed`, kernel
evaluation of the model on 3 RPCs × 12 environments × 41 faults) are in `Lemmas/Formation.lean`. -/

/-- **success ⇒ agreement**: if the renter's call succeeds then the host has recorded a contract,
it is the one returned to the renter, fully signed, its transaction set was accepted by the
host's pool (before the contractor was told), the host broadcast it and its handler completed. -/
theorem success_agree (rpc : Rpc) (env : Env) (f : Fault) :
    let s := run sourceCfg rpc env f
    s.rOk = true → s.recorded = true ∧ s.same = true ∧ s.signed = true ∧ s.inPool = true ∧
      s.broadcast = true ∧ s.hOk = true := by
  have h := forallAttempts_spec attemptGood_fixed rpc env f
  rw [source_is_repaired]
  simp only [attemptGood, Bool.and_eq_true, Bool.or_eq_true, Bool.not_eq_true'] at h
  intro s hs
  rcases h.1.1.1.1.1.1 with h1 | h1
  · rw [hs] at h1; cases h1
  · exact ⟨h1.1.1.1.1.1, h1.1.1.1.1.2, h1.1.1.1.2, h1.1.1.2, h1.1.2, h1.2⟩

/-- the set is accepted by the pool before the contract is recorded, under every fault -/
theorem pool_before_record (rpc : Rpc) (env : Env) (f : Fault) :
    (run sourceCfg rpc env f).recorded = true → (run sourceCfg rpc env f).inPool = true := by
  have h := forallAttempts_spec attemptGood_fixed rpc env f
  rw [source_is_repaired]
  simp only [attemptGood, Bool.and_eq_true, Bool.or_eq_true, Bool.not_eq_true'] at h
  intro hr
  rcases h.1.1.1.1.1.2 with h1 | h1
  · rw [hr] at h1; cases h1
  · exact h1

/-- **the host releases**: under every fault, unless the host reached `broadcast = true` (which
it only does with the contract recorded), its wallet holds nothing back afterwards. -/
theorem abort_releases_host (rpc : Rpc) (env : Env) (f : Fault) :
    let s := run sourceCfg rpc env f
    (s.broadcast = false → s.hLocked = false) ∧ (s.broadcast = true → s.recorded = true) := by
  have h := forallAttempts_spec attemptGood_fixed rpc env f
  rw [source_is_repaired]
  simp only [attemptGood, Bool.and_eq_true, Bool.or_eq_true, Bool.not_eq_true'] at h
  refine ⟨fun hb => ?_, fun hb => ?_⟩
  · rcases h.1.1.1.2 with h1 | h1
    · rw [hb] at h1; cases h1
    · exact h1
  · rcases h.1.1.1.1.2 with h1 | h1
    · rw [hb] at h1; cases h1
    · exact h1

/-- **the renter releases**: under every fault, a failed call leaves nothing reserved. -/
theorem abort_releases_renter (rpc : Rpc) (env : Env) (f : Fault) :
    (run sourceCfg rpc env f).rOk = false → (run sourceCfg rpc env f).rLocked = false := by
  have h := forallAttempts_spec attemptGood_fixed rpc env f
  rw [source_is_repaired]
  simp only [attemptGood, Bool.and_eq_true, Bool.or_eq_true, Bool.not_eq_true'] at h
  intro hr
  rcases h.1.1.2 with h1 | h1
  · rw [hr] at h1; cases h1
  · exact h1

/-- **no contract on abort** (the provable part): a failed attempt leaves no contract with the
host — unless the fault struck at the final message, after the host had committed, or the
host's own wallet failed to broadcast after the contractor had recorded the contract. -/
theorem no_contract_on_abort_partial (rpc : Rpc) (env : Env) (f : Fault) :
    (run sourceCfg rpc env f).rOk = false → atFinalMessage f = false → hostBroadcastFails f = false →
    (run sourceCfg rpc env f).recorded = false := by
  have h := forallAttempts_spec attemptGood_fixed rpc env f
  rw [source_is_repaired]
  simp only [attemptGood, Bool.and_eq_true, Bool.or_eq_true, Bool.not_eq_true'] at h
  intro hr hf hb
  rcases h.1.2 with ((h1 | h1) | h1) | h1
  · rw [hr] at h1; cases h1
  · exact h1
  · rw [hf] at h1; cases h1
  · rw [hb] at h1; cases h1

/-- TARGET (the property as stated): *whenever* the call fails the host has no contract. -/
def C16_no_contract_on_abort_full : Prop :=
  ∀ rpc env f, (run sourceCfg rpc env f).rOk = false → (run sourceCfg rpc env f).recorded = false

/-- … which no implementation of this exchange can have: when the final message is lost the host
has already recorded and broadcast the contract, and the renter — who cannot tell this from an
early failure — reports an error and releases its inputs.  (Known finding
`final-response-lost`; replayed on the real code by `harness/c16`.) -/
theorem C16_no_contract_on_abort_full_false : ¬ C16_no_contract_on_abort_full := by
  intro h
  have := h .form ⟨.same, false, false⟩ (.drop 3)
  rw [source_is_repaired] at this
  revert this
  decide +kernel

/-- the same window for a host-local fault (known finding
`host-local-failure-after-pool-accept:broadcast`) -/
theorem broadcast_failure_keeps_contract :
    (run sourceCfg .form ⟨.same, false, false⟩ (.hcall .broadcast)).recorded = true ∧
    (run sourceCfg .form ⟨.same, false, false⟩ (.hcall .broadcast)).rOk = false := by
  rw [source_is_repaired]; decide +kernel

/-! ## any number of attempts -/

/-- **repeated failures are bounded**: after any sequence of attempts, with any faults, neither
wallet holds back a single output on account of an attempt that did not go through. -/
theorem repeated_failures_bounded (as : List Attempt) : leaks sourceCfg as = (0, 0) := by
  rw [source_is_repaired]
  induction as with
  | nil => rfl
  | cons a as ih =>
    have h := forallAttempts_spec attemptGood_fixed a.rpc a.env a.fault
    simp only [attemptGood, Bool.and_eq_true, Bool.or_eq_true, Bool.not_eq_true'] at h
    have hr : (!(run Cfg.fixed a.rpc a.env a.fault).rOk && (run Cfg.fixed a.rpc a.env a.fault).rHeld) = false := by
      rcases h.1.1.2 with h1 | h1 <;> simp [St.rHeld, h1]
    have hh : (!(run Cfg.fixed a.rpc a.env a.fault).recorded && (run Cfg.fixed a.rpc a.env a.fault).hHeld) = false := by
      rcases h.1.1.1.2 with h1 | h1
      · rcases h.1.1.1.1.2 with h2 | h2
        · rw [h1] at h2; cases h2
        · simp [h2]
      · simp [St.hHeld, h1]
    simp only [leaks, ih, hr, hh]
    rfl

/-! ## the pinned code did not have the property (witnesses; each was replayed on the real code) -/

/-- finding C16/renter-inputs-not-released: in the pinned code every failed dial of a renewal
leaks one reservation — `n` failed attempts hold back `n` outputs. -/
theorem pinned_dial_leaks (n : Nat) (env : Env) :
    leaks Cfg.pinned (List.replicate n ⟨.renew, env, .dial⟩) = (n, 0) := by
  induction n with
  | zero => rfl
  | succ n ih =>
    have h : (!(run Cfg.pinned .renew env .dial).rOk && (run Cfg.pinned .renew env .dial).rHeld) = true
        ∧ (!(run Cfg.pinned .renew env .dial).recorded && (run Cfg.pinned .renew env .dial).hHeld) = false := by
      obtain ⟨a, c, d⟩ := env
      cases a <;> cases c <;> cases d <;> decide +kernel
    simp only [List.replicate_succ, leaks, ih, h.1, h.2]
    rfl

/-- finding C16/host-inputs-not-released: in the pinned code a request whose basis the host
cannot rebase from (a renter on a stale fork, or any unknown basis) makes the host keep its own
inputs reserved — `n` such requests hold back `n` outputs of the host. -/
theorem pinned_rebase_failure_leaks (n : Nat) (rpc : Rpc) :
    leaks Cfg.pinned (List.replicate n ⟨rpc, ⟨.unknown, false, false⟩, .none⟩) = (0, n) := by
  induction n with
  | zero => rfl
  | succ n ih =>
    have h : (!(run Cfg.pinned rpc ⟨.unknown, false, false⟩ .none).rOk && (run Cfg.pinned rpc ⟨.unknown, false, false⟩ .none).rHeld) = false
        ∧ (!(run Cfg.pinned rpc ⟨.unknown, false, false⟩ .none).recorded && (run Cfg.pinned rpc ⟨.unknown, false, false⟩ .none).hHeld) = true := by
      cases rpc <;> decide +kernel
    simp only [List.replicate_succ, leaks, ih, h.1, h.2]
    rfl

/-- finding C16/success-different-contract: the pinned renew/refresh returned the host's copy of
the new contract after checking the host's signatures over the locally built one. -/
theorem pinned_returns_host_copy :
    (run Cfg.pinned .renew ⟨.same, false, false⟩ .finalContractAltered).rOk = true ∧
    (run Cfg.pinned .renew ⟨.same, false, false⟩ .finalContractAltered).same = false ∧
    (run Cfg.pinned .refresh ⟨.same, false, false⟩ .finalContractUnsigned).signed = false := by
  decide +kernel

/-- non-vacuity: the honest exchange succeeds (in every environment whose basis the host knows)
and a lost request fails cleanly. -/
example : (run Cfg.fixed .renew ⟨.behind, false, true⟩ .none).rOk = true ∧
    (run Cfg.fixed .renew ⟨.behind, false, true⟩ .none).hTrace =
      [.lock, .element, .fund, .updateInputs, .sign, .addParents, .txset, .addPool, .record, .broadcast, .unlock] ∧
    (run Cfg.fixed .form ⟨.same, false, false⟩ (.drop 0)).rTrace = [.fund, .txset, .release] := by
  decide +kernel

end Verif.C16
