/-
C03 — every durable commit point reopens to a consistent chain and catches up.

Property theorems only; the model is `Verif/Model/Commit.lean` (the M3 node of
`Verif/Model/Elements.lean` behind a durable/pending split, at the granularity of the write
groups of one block), helper lemmas in `Verif/Lemmas/Commit.lean`.

"The process stops at any moment" is a cut of the micro-op stream at an arbitrary position `k`.
A commit is issued only at the end of `ApplyBlock` / `RevertBlock` (`shouldFlush`) or at the end
of `reorgTo`; `compile` is that discipline.  `harness/c03` ties it to the code: a recording
`chain.DB` snapshots the committed image at every `Flush`, `VerifForceFlushNext` is armed after
every block boundary of every reorg, every snapshot is reopened with `NewDBStore`+`NewManager`,
audited and caught up, and the model predicts the tip of every commit point.
-/
import Verif.Lemmas.Commit
import Verif.Props.C02

namespace Verif.C03
open Verif.Elements Verif.Commit

/-- the durable image when the process stops after `k` micro-ops of the history `ops` -/
def durableAt (n0 : Node) (ops : List BOp) (k : Nat) : Node :=
  ((Sys.init n0).exec ((compile ops).take k)).durable

/-- **never a torn block**: wherever the process stops, the durable image is the image the node
had at some block boundary of the history -/
theorem durable_is_block_prefix (n0 : Node) (ops : List BOp) (k : Nat) :
    ∃ j, j ≤ ops.length ∧ durableAt n0 ops k = blockRun n0 (ops.take j) := by
  have h := durable_mem_boundaries ops (Sys.init n0) k (fun x => x ∈ boundaries n0 ops)
    (boundaries_head n0 ops) (fun x hx => hx)
  exact (mem_boundaries_iff ops n0 _).mp h

/-- hence the tip a reopened database reports is a tip the node actually had -/
theorem durable_tip_was_a_tip (n0 : Node) (ops : List BOp) (k : Nat) :
    ∃ j, j ≤ ops.length ∧ (durableAt n0 ops k).tip = (blockRun n0 (ops.take j)).tip := by
  obtain ⟨j, hj, h⟩ := durable_is_block_prefix n0 ops k
  exact ⟨j, hj, by rw [h]⟩

/-- **mutually consistent** (partial: `ExpStable` reverts, see C02): the durable image is exactly
the store a linear replay of *its own* tip's ancestry produces — height key, best index, element
sets and expiration lists all belong to that one tip. -/
theorem durable_consistent_partial (req : Nat) (U : Nat → BlkInfo) (hU : WFU U) (hB : WFBlocks req U)
    (ops : List BOp) (n : Node) (hrun : (Node.init req U).run (toOps ops) = some n)
    (hs : RevertsStable req U (Node.init req U) (toOps ops)) (k : Nat) :
    (durableAt (Node.init req U) ops k).store = lin req U (durableAt (Node.init req U) ops k).tip := by
  obtain ⟨j, _, h⟩ := durable_is_block_prefix (Node.init req U) ops k
  obtain ⟨m, hm⟩ := run_take ops _ n j hrun
  have hb := run_eq_blockRun (ops.take j) _ m hm
  have hi := inv_run req U hU hB _ _ m (inv_init req U hU) (revertsStable_take req U ops _ j hs) hm
  rw [h, hb]
  exact hi.store_eq

/-- **recover, then catch up** (partial): reopen the durable image of any stopping point and run
any continuation (the manager's reverts and applies while the remaining blocks are resubmitted);
if it ends on the tip of the uninterrupted run, it ends with the same store.  Side conditions,
both explicit: (a) reverted blocks are `ExpStable` in both runs (C02's known class otherwise);
(b) that the continuation *reaches the same tip* is the manager's chain selection (C01's model
and, for the resubmission schedule, the implementation-side check of `harness/c03`). -/
theorem recover_then_catchup_partial (req : Nat) (U : Nat → BlkInfo) (hU : WFU U) (hB : WFBlocks req U)
    (ops : List BOp) (nU : Node) (hrun : (Node.init req U).run (toOps ops) = some nU)
    (hs : RevertsStable req U (Node.init req U) (toOps ops)) (k : Nat)
    (ops2 : List Elements.Op) (nR : Node)
    (hrec : (durableAt (Node.init req U) ops k).run ops2 = some nR)
    (hs2 : RevertsStable req U (durableAt (Node.init req U) ops k) ops2)
    (htip : nR.tip = nU.tip) :
    nR.store = nU.store := by
  obtain ⟨j, _, h⟩ := durable_is_block_prefix (Node.init req U) ops k
  obtain ⟨m, hm⟩ := run_take ops _ nU j hrun
  have hb := run_eq_blockRun (ops.take j) _ m hm
  have hid := inv_run req U hU hB _ _ m (inv_init req U hU) (revertsStable_take req U ops _ j hs) hm
  have hiU := inv_run req U hU hB _ _ nU (inv_init req U hU) hs hrun
  rw [h, hb] at hrec hs2
  have hiR := inv_run req U hU hB ops2 m nR hid hs2 hrec
  rw [hiR.store_eq, hiU.store_eq, htip]

/-- TARGET (false of the current code, for C02's reason): the same without side condition (a) -/
def C03_recover_then_catchup_full : Prop :=
  ∀ (req : Nat) (U : Nat → BlkInfo), WFU U → WFBlocks req U →
    ∀ (ops : List BOp) (nU : Node), (Node.init req U).run (toOps ops) = some nU →
      ∀ (k : Nat) (ops2 : List Elements.Op) (nR : Node),
        (durableAt (Node.init req U) ops k).run ops2 = some nR → nR.tip = nU.tip → nR.store = nU.store

/-- the uninterrupted history of the witness: block 1 applied and committed, then the reorg
2 → 3 inside one uncommitted window -/
def wHist : List BOp := [.apply 1 true, .apply 2 false, .revert false, .apply 3 false, .flush]

theorem recover_then_catchup_full_false : ¬ C03_recover_then_catchup_full := by
  intro h
  -- stop right after the first commit (4 micro-ops), reopen, apply block 3
  have hU : ((Node.init 100 C02.wU).run (toOps wHist)).map (fun n => (n.tip, n.store.exp 5)) = some (3, [2, 1]) := by
    decide
  have hR : ((durableAt (Node.init 100 C02.wU) wHist 4).run [.apply 3]).map (fun n => (n.tip, n.store.exp 5))
      = some (3, [1, 2]) := by decide
  cases hu : (Node.init 100 C02.wU).run (toOps wHist) with
  | none => rw [hu] at hU; cases hU
  | some nU =>
    cases hr : (durableAt (Node.init 100 C02.wU) wHist 4).run [.apply 3] with
    | none => rw [hr] at hR; cases hR
    | some nR =>
      rw [hu] at hU; rw [hr] at hR
      simp only [Option.map_some, Option.some.injEq, Prod.mk.injEq] at hU hR
      have := h 100 C02.wU C02.wU_wf C02.wU_blocks wHist nU hu 4 [.apply 3] nR hr (by rw [hR.1, hU.1])
      rw [this, hU.2] at hR
      exact absurd hR.2 (by decide)

/-! ### non-vacuity -/

/-- a history with a mid-reorg commit: block 1; then the reorg 4 → 3 with a forced flush after the
revert of 4.  Stopping after 8 micro-ops (inside the application of block 3) leaves the image of
the boundary after the revert: tip 1. -/
def wHist2 : List BOp := [.apply 1 false, .apply 4 false, .flush, .revert true, .apply 3 false, .flush]

example : (durableAt (Node.init 100 C02.wU) wHist2 0).tip = 0 ∧
    (durableAt (Node.init 100 C02.wU) wHist2 7).tip = 4 ∧
    (durableAt (Node.init 100 C02.wU) wHist2 10).tip = 1 ∧
    (durableAt (Node.init 100 C02.wU) wHist2 12).tip = 1 ∧
    (durableAt (Node.init 100 C02.wU) wHist2 14).tip = 3 := by decide

example : ((Node.init 100 C02.wU).run (toOps wHist2)).isSome = true ∧
    revertsStableB 100 C02.wU (Node.init 100 C02.wU) (toOps wHist2) = true := by decide

/-- and the catch-up from the mid-reorg image reaches the uninterrupted store -/
example : ((durableAt (Node.init 100 C02.wU) wHist2 12).run [.apply 3]).map (fun n => n.store.exp 5)
    = ((Node.init 100 C02.wU).run (toOps wHist2)).map (fun n => n.store.exp 5) := by decide

end Verif.C03
