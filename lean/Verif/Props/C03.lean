/-
C03 — every durable commit point reopens to a consistent chain and catches up.

Property theorems only; the model is `Verif/Model/Commit.lean` (the M3 node of
`Verif/Model/Elements.lean` behind a durable/pending split, at the granularity of the write
groups of one block), helper lemmas in `Verif/Lemmas/Commit.lean`.

"The process stops at any moment" is a cut of the micro-op stream at an arbitrary position `k`.
A commit is issued only at the end of `ApplyBlock` / `RevertBlock` (`shouldFlush`) or at the end
of `reorgTo`; `compile` is that discipline.  `harness/c03` ties it to the code: a recording
`chain.DB` snapshots the committed image at every `Flush`, `VerifForceFlushNext` is armed after
every block boundary of every reorg, every snapshot is reopened with `NewDBStore`+`NewManager`,
audited and caught up, and the model predicts the tip of every commit point.
-/
import Verif.Lemmas.Commit
import Verif.Lemmas.Catchup
import Verif.Props.C01
import Verif.Props.C02

namespace Verif.C03
open Verif.Elements Verif.Commit

/-- the durable image when the process stops after `k` micro-ops of the history `ops` -/
def durableAt (n0 : Node) (ops : List BOp) (k : Nat) : Node :=
  ((Sys.init n0).exec ((compile ops).take k)).durable

/-- **never a torn block**: wherever the process stops, the durable image is the image the node
had at some block boundary of the history -/
theorem durable_is_block_prefix (n0 : Node) (ops : List BOp) (k : Nat) :
    ∃ j, j ≤ ops.length ∧ durableAt n0 ops k = blockRun n0 (ops.take j) := by
  have h := durable_mem_boundaries ops (Sys.init n0) k (fun x => x ∈ boundaries n0 ops)
    (boundaries_head n0 ops) (fun x hx => hx)
  exact (mem_boundaries_iff ops n0 _).mp h

/-- hence the tip a reopened database reports is a tip the node actually had -/
theorem durable_tip_was_a_tip (n0 : Node) (ops : List BOp) (k : Nat) :
    ∃ j, j ≤ ops.length ∧ (durableAt n0 ops k).tip = (blockRun n0 (ops.take j)).tip := by
  obtain ⟨j, hj, h⟩ := durable_is_block_prefix n0 ops k
  exact ⟨j, hj, by rw [h]⟩

/-- **mutually consistent** (partial: `ExpStable` reverts, see C02): the durable image is exactly
the store a linear replay of *its own* tip's ancestry produces — height key, best index, element
sets and expiration lists all belong to that one tip. -/
theorem durable_consistent_partial (req : Nat) (U : Nat → BlkInfo) (hU : WFU U) (hB : WFBlocks req U)
    (ops : List BOp) (n : Node) (hrun : (Node.init req U).run (toOps ops) = some n)
    (hs : RevertsStable req U (Node.init req U) (toOps ops)) (k : Nat) :
    (durableAt (Node.init req U) ops k).store = lin req U (durableAt (Node.init req U) ops k).tip := by
  obtain ⟨j, _, h⟩ := durable_is_block_prefix (Node.init req U) ops k
  obtain ⟨m, hm⟩ := run_take ops _ n j hrun
  have hb := run_eq_blockRun (ops.take j) _ m hm
  have hi := inv_run req U hU hB _ _ m (inv_init req U hU) (revertsStable_take req U ops _ j hs) hm
  rw [h, hb]
  exact hi.store_eq

/-- **recover, then catch up** (partial): reopen the durable image of any stopping point and run
any continuation (the manager's reverts and applies while the remaining blocks are resubmitted);
if it ends on the tip of the uninterrupted run, it ends with the same store.  Side conditions,
both explicit: (a) reverted blocks are `ExpStable` in both runs (C02's known class otherwise);
(b) that the continuation *reaches the same tip* is the manager's chain selection (C01's model
and, for the resubmission schedule, the implementation-side check of `harness/c03`). -/
theorem recover_then_catchup_partial (req : Nat) (U : Nat → BlkInfo) (hU : WFU U) (hB : WFBlocks req U)
    (ops : List BOp) (nU : Node) (hrun : (Node.init req U).run (toOps ops) = some nU)
    (hs : RevertsStable req U (Node.init req U) (toOps ops)) (k : Nat)
    (ops2 : List Elements.Op) (nR : Node)
    (hrec : (durableAt (Node.init req U) ops k).run ops2 = some nR)
    (hs2 : RevertsStable req U (durableAt (Node.init req U) ops k) ops2)
    (htip : nR.tip = nU.tip) :
    nR.store = nU.store := by
  obtain ⟨j, _, h⟩ := durable_is_block_prefix (Node.init req U) ops k
  obtain ⟨m, hm⟩ := run_take ops _ nU j hrun
  have hb := run_eq_blockRun (ops.take j) _ m hm
  have hid := inv_run req U hU hB _ _ m (inv_init req U hU) (revertsStable_take req U ops _ j hs) hm
  have hiU := inv_run req U hU hB _ _ nU (inv_init req U hU) hs hrun
  rw [h, hb] at hrec hs2
  have hiR := inv_run req U hU hB ops2 m nR hid hs2 hrec
  rw [hiR.store_eq, hiU.store_eq, htip]

/-- TARGET (false of the current code, for C02's reason): the same without side condition (a) -/
def C03_recover_then_catchup_full : Prop :=
  ∀ (req : Nat) (U : Nat → BlkInfo), WFU U → WFBlocks req U →
    ∀ (ops : List BOp) (nU : Node), (Node.init req U).run (toOps ops) = some nU →
      ∀ (k : Nat) (ops2 : List Elements.Op) (nR : Node),
        (durableAt (Node.init req U) ops k).run ops2 = some nR → nR.tip = nU.tip → nR.store = nU.store

/-- the uninterrupted history of the witness: block 1 applied and committed, then the reorg
2 → 3 inside one uncommitted window -/
def wHist : List BOp := [.apply 1 true, .apply 2 false, .revert false, .apply 3 false, .flush]

theorem recover_then_catchup_full_false : ¬ C03_recover_then_catchup_full := by
  intro h
  -- stop right after the first commit (4 micro-ops), reopen, apply block 3
  have hU : ((Node.init 100 C02.wU).run (toOps wHist)).map (fun n => (n.tip, n.store.exp 5)) = some (3, [2, 1]) := by
    decide
  have hR : ((durableAt (Node.init 100 C02.wU) wHist 4).run [.apply 3]).map (fun n => (n.tip, n.store.exp 5))
      = some (3, [1, 2]) := by decide
  cases hu : (Node.init 100 C02.wU).run (toOps wHist) with
  | none => rw [hu] at hU; cases hU
  | some nU =>
    cases hr : (durableAt (Node.init 100 C02.wU) wHist 4).run [.apply 3] with
    | none => rw [hr] at hR; cases hR
    | some nR =>
      rw [hu] at hU; rw [hr] at hR
      simp only [Option.map_some, Option.some.injEq, Prod.mk.injEq] at hU hR
      have := h 100 C02.wU C02.wU_wf C02.wU_blocks wHist nU hu 4 [.apply 3] nR hr (by rw [hR.1, hU.1])
      rw [this, hU.2] at hR
      exact absurd hR.2 (by decide)

/-! ### non-vacuity -/

/-- a history with a mid-reorg commit: block 1; then the reorg 4 → 3 with a forced flush after the
revert of 4.  Stopping after 8 micro-ops (inside the application of block 3) leaves the image of
the boundary after the revert: tip 1. -/
def wHist2 : List BOp := [.apply 1 false, .apply 4 false, .flush, .revert true, .apply 3 false, .flush]

example : (durableAt (Node.init 100 C02.wU) wHist2 0).tip = 0 ∧
    (durableAt (Node.init 100 C02.wU) wHist2 7).tip = 4 ∧
    (durableAt (Node.init 100 C02.wU) wHist2 10).tip = 1 ∧
    (durableAt (Node.init 100 C02.wU) wHist2 12).tip = 1 ∧
    (durableAt (Node.init 100 C02.wU) wHist2 14).tip = 3 := by decide

example : ((Node.init 100 C02.wU).run (toOps wHist2)).isSome = true ∧
    revertsStableB 100 C02.wU (Node.init 100 C02.wU) (toOps wHist2) = true := by decide

/-- and the catch-up from the mid-reorg image reaches the uninterrupted store -/
example : ((durableAt (Node.init 100 C02.wU) wHist2 12).run [.apply 3]).map (fun n => n.store.exp 5)
    = ((Node.init 100 C02.wU).run (toOps wHist2)).map (fun n => n.store.exp 5) := by decide

/-! ### catch-up at the level of the manager (M2): which chain the resubmission ends on

The store-level theorem above leaves "the continuation reaches the uninterrupted tip" to the
manager.  Here it is discharged with the manager model of C01 (`Verif/Model/Chain.lean`,
`C01.run`).  The catch-up schedule is: **the batches of the original history from the interrupted
one on, in their original order and batching** (`hist.drop j`), submitted to the reopened manager.

* A commit at a batch boundary (the end of `reorgTo`) makes everything before it durable, so the
  reopened manager is `run (hist.take j)`: the catch-up reproduces the uninterrupted manager
  exactly, with no side condition (`catchup_from_batch_boundary`).
* A commit inside the reorg of batch `j` leaves a manager `m'` on an intermediate tip.  The
  resubmitted batch ends on the same best chain as in the uninterrupted run provided it returns
  no error and its last block is sufficiently heavier than the reopened tip
  (`catchup_interrupted_batch_best`).  The negation of the second hypothesis is the known class
  `catchup-near-tie-first-seen`.  When the first fails (the resubmitted batch offers a chain with
  an invalid block: the process had stopped inside a reorg that was going to fail) the node rolls
  back to the reopened transient tip; it is brought back by offering the earlier batches again —
  the branch the uninterrupted run returned to is stored with supplements and sufficiently heavier —
  which `harness/c03` checks on the implementation (`catchup-stays-on-lighter-chain`).  The
  notification counter is the only part of the manager that is not stored, and nothing
  `AddBlocks` decides depends on it (`addBlocks_setN`), so from then on both managers stay in
  agreement for the rest of the schedule (`catchup_mid_reorg_partial`).  Still a hypothesis there:
  that after the interrupted batch the two managers hold the same block records and states (the
  blocks the interrupted reorg had already validated are the ones the resubmission skips). -/

open Verif.Chain in
/-- two managers that agree on everything stored end every further history in agreement -/
theorem run_sameStored (U : Nat → Blk) (hist : List (List Nat)) :
    ∀ a b : Mgr, SameStored a b → SameStored (C01.run U a hist) (C01.run U b hist) := by
  induction hist with
  | nil => intro a b h; exact h
  | cons x xs ih => intro a b h; exact ih _ _ (addBlocks_sameStored U h x).1

open Verif.Chain in
/-- **catch-up from a batch-boundary commit is exact**: for every history and every `j`,
resubmitting the batches from `j` on to the manager as it was after the first `j` batches gives
the manager of the uninterrupted run — same best chain, records, states, notifications. -/
theorem catchup_from_batch_boundary (U : Nat → Blk) (hist : List (List Nat)) (j : Nat) :
    C01.run U (C01.run U Mgr.init (hist.take j)) (hist.drop j) = C01.run U Mgr.init hist := by
  rw [← C01.run_append, List.take_append_drop]

open Verif.Chain in
/-- the interrupted batch on the reopened manager (any manager satisfying the manager invariant,
e.g. any mid-reorg image) ends on the uninterrupted run's best chain outside the two known classes -/
theorem catchup_interrupted_batch_best {U : Nat → Blk} (hU : Verif.Chain.WFU U) (pre : List (List Nat))
    (m' : Mgr) (h' : Verif.Chain.Inv U m') (b : Nat) (bs : List Nat)
    (hok : (addBlocks U (C01.run U Mgr.init pre) (b :: bs)).2 = none)
    (hh : heavier U (bs.getLastD b) (C01.run U Mgr.init pre).tip = true)
    (hok' : (addBlocks U m' (b :: bs)).2 = none)
    (hh' : heavier U (bs.getLastD b) m'.tip = true) :
    (addBlocks U m' (b :: bs)).1.best = (addBlocks U (C01.run U Mgr.init pre) (b :: bs)).1.best :=
  catchup_interrupted_batch hU (C01.inv_reachable hU pre) h' b bs hok hh hok' hh'

open Verif.Chain in
/-- **recover, then catch up, at the manager level** (partial): history `pre ++ (b :: bs) :: rest`,
the process stops inside the reorg of batch `b :: bs` and reopens as `m'`.  Outside the two known
classes (hypotheses `hok'`, `hh'`) and given that the resubmitted batch leaves the same block
records and states (`hrecs`, `hstates`), the catch-up ends on exactly the best chain of the
uninterrupted run, whatever the remaining batches are. -/
theorem catchup_mid_reorg_partial {U : Nat → Blk} (hU : Verif.Chain.WFU U) (pre rest : List (List Nat))
    (m' : Mgr) (h' : Verif.Chain.Inv U m') (b : Nat) (bs : List Nat)
    (hok : (addBlocks U (C01.run U Mgr.init pre) (b :: bs)).2 = none)
    (hh : heavier U (bs.getLastD b) (C01.run U Mgr.init pre).tip = true)
    (hok' : (addBlocks U m' (b :: bs)).2 = none)
    (hh' : heavier U (bs.getLastD b) m'.tip = true)
    (hrecs : (addBlocks U m' (b :: bs)).1.recs = (addBlocks U (C01.run U Mgr.init pre) (b :: bs)).1.recs)
    (hstates : (addBlocks U m' (b :: bs)).1.states = (addBlocks U (C01.run U Mgr.init pre) (b :: bs)).1.states) :
    (C01.run U m' ((b :: bs) :: rest)).best = (C01.run U Mgr.init (pre ++ (b :: bs) :: rest)).best := by
  have hb := catchup_interrupted_batch_best hU pre m' h' b bs hok hh hok' hh'
  rw [C01.run_append]
  simp only [C01.run]
  exact (run_sameStored U rest _ _ ⟨hrecs, hstates, hb⟩).2.2

/-- non-vacuity (C01's reorg universe `Ure` of C04 is not imported here; use `C01.Uex`): the
reopened manager after `[[1, 2]]` catches up with `[[6]]` exactly -/
example : C01.run C01.Uex (C01.run C01.Uex Verif.Chain.Mgr.init [[1, 2]]) [[6]] =
    C01.run C01.Uex Verif.Chain.Mgr.init [[1, 2], [6]] :=
  catchup_from_batch_boundary C01.Uex [[1, 2], [6]] 1

/-- non-vacuity of `catchup_interrupted_batch_best` / `catchup_mid_reorg_partial`: a universe with a
real reorg (1-2 best, then 3-4 takes over), the process stopping right after block 2 was reverted -/
def wUre : Nat → Verif.Chain.Blk
  | 1 => ⟨0, 1, 200, 100, true, true, false, false⟩
  | 2 => ⟨1, 2, 300, 100, true, true, false, false⟩
  | 3 => ⟨1, 2, 301, 100, true, true, false, false⟩
  | 4 => ⟨3, 3, 400, 100, true, true, false, false⟩
  | _ => ⟨0, 0, 100, 100, false, false, false, false⟩

open Verif.Chain in
/-- the manager before the interrupted batch `[3, 4]` -/
def wPre : Mgr := C01.run wUre Mgr.init [[1, 2]]
open Verif.Chain in
/-- the image committed after `revert 2` inside the reorg towards 4 -/
def wMid : Mgr := (revertN wUre 1 (addBlocks.go wUre [3, 4] wPre wPre.tip).1).1

open Verif.Chain in
example : wMid.best = [1, 0] ∧
    (addBlocks wUre wPre [3, 4]).2 = none ∧ heavier wUre 4 wPre.tip = true ∧
    (addBlocks wUre wMid [3, 4]).2 = none ∧ heavier wUre 4 wMid.tip = true ∧
    (addBlocks wUre wMid [3, 4]).1.best = (addBlocks wUre wPre [3, 4]).1.best ∧
    (∀ i, i < 8 → (addBlocks wUre wMid [3, 4]).1.recs i = (addBlocks wUre wPre [3, 4]).1.recs i ∧
                  (addBlocks wUre wMid [3, 4]).1.states i = (addBlocks wUre wPre [3, 4]).1.states i) := by
  decide

end Verif.C03
