/-
C18 — limits and shutdown are honoured under any schedule.

Property theorems only; the transition systems are in `Verif/Model/Conc.lean`, the inductive
invariants in `Verif/Lemmas/Conc.lean`.  Every theorem quantifies over ALL runs (`tr : List _`,
any length) of a system with an unbounded number of threads; a run is any interleaving of the
atomic steps the Go code has.  The theorems are statements about the MODEL.  What ties the model
to /repo: (T) recorded `verifEvent` traces of the real ThreadGroup / syncer / rhp4 server /
wallet are replayed step by step through the same `step` functions (`harness/c18`,
`Verif/Drv/Conc.lean`), and `Extracted/ConcFacts.lean` (regenerated from source on every run)
re-checks that the atomic regions assumed here are the ones in the source.  The Go scheduler,
channel semantics and real blocking are not modelled; lost wake-ups can only be sampled by (O).
-/
import Verif.Lemmas.Conc
import Verif.Extracted.ConcFacts

namespace Verif.C18
open Verif.Conc

/-! ## ThreadGroup -/

/-- the WaitGroup counter equals the number of live threads, in every reachable state -/
theorem tg_count_eq_live (tr : List TGStep) (s : TG) (h : tgSys.run {} tr = some s) :
    s.wg = s.running :=
  (TG.inv_reach s ⟨tr, h⟩).count

/-- once stopped, always stopped -/
theorem tg_closed_stable (s s' : TG) (a : TGStep) (hc : s.closed = true) (hs : s.step a = some s') :
    s'.closed = true := by
  cases a <;> simp only [TG.step] at hs
  · simp only [hc, if_true, Option.some.injEq] at hs; subst hs; rfl
  · split at hs
    · simp only [Option.some.injEq] at hs; subst hs; exact hc
    · cases hs
  · simp only [Option.some.injEq] at hs; subst hs; rfl
  · split at hs
    · simp only [Option.some.injEq] at hs; subst hs; exact hc
    · cases hs

/-- no `Add` succeeds after `Stop`: in a stopped group an `Add` step is a rejection (the caller
gets `ErrClosed`), it joins nothing and the counter is untouched -/
theorem tg_no_add_after_stop (s s' : TG) (hc : s.closed = true) (hs : s.step .add = some s') :
    s'.running = s.running ∧ s'.wg = s.wg ∧ s'.rejected = s.rejected + 1 := by
  simp only [TG.step, hc, if_true, Option.some.injEq] at hs
  subst hs; exact ⟨rfl, rfl, rfl⟩

/-- hence after `Stop` the number of live threads never grows, whatever step is taken -/
theorem tg_live_nonincreasing_after_stop (s s' : TG) (a : TGStep) (hc : s.closed = true)
    (hs : s.step a = some s') : s'.running ≤ s.running := by
  cases a <;> simp only [TG.step] at hs
  · simp only [hc, if_true, Option.some.injEq] at hs; subst hs; exact Nat.le_refl _
  · split at hs
    · simp only [Option.some.injEq] at hs; subst hs; exact Nat.sub_le _ _
    · cases hs
  · simp only [Option.some.injEq] at hs; subst hs; exact Nat.le_refl _
  · split at hs
    · simp only [Option.some.injEq] at hs; subst hs; exact Nat.le_refl _
    · cases hs

/-- `Stop` returns only when the group is idle: in every reachable state in which some `Stop` has
returned there is no live thread, the counter is zero and the group is closed … -/
theorem tg_stop_returns_only_idle (tr : List TGStep) (s : TG) (h : tgSys.run {} tr = some s)
    (hr : 0 < s.returned) : s.running = 0 ∧ s.wg = 0 ∧ s.closed = true := by
  have hi := TG.inv_reach s ⟨tr, h⟩
  have := hi.retIdle hr
  exact ⟨this.2, by rw [hi.count]; exact this.2, this.1⟩

/-- … and it stays idle: whatever happens afterwards (any continuation of the run) -/
theorem tg_stays_idle (tr tr2 : List TGStep) (s s2 : TG) (h : tgSys.run {} tr = some s)
    (hr : 0 < s.returned) (h2 : tgSys.run s tr2 = some s2) : s2.running = 0 ∧ 0 < s2.returned := by
  have hmono : ∀ (tr : List TGStep) (a b : TG), 0 < a.returned → tgSys.run a tr = some b → 0 < b.returned :=
    Sys.run_inv tgSys (fun t => 0 < t.returned) (by
      intro t a t' ht hs
      cases a <;> simp only [tgSys, TG.step] at hs
      all_goals (repeat' split at hs)
      all_goals first
        | contradiction
        | (simp only [Option.some.injEq] at hs; subst hs; simp only; omega))
  have hr2 := hmono tr2 s s2 hr h2
  have hreach : tgSys.run {} (tr ++ tr2) = some s2 := by
    rw [Sys.run_append tgSys tr tr2 {} s h]; exact h2
  exact ⟨(tg_stop_returns_only_idle _ s2 hreach hr2).1, hr2⟩

/-- progress: a `Stop` caller never waits in a state without an enabled step of an existing
thread — either `Wait` can return or a live thread can call `done` (no thread of the group is
blocked by the group itself) -/
theorem tg_stop_progress (tr : List TGStep) (s : TG) (h : tgSys.run {} tr = some s)
    (hw : 0 < s.waiting) : (s.step .ret).isSome = true ∨ (s.step .done).isSome = true := by
  have hi := TG.inv_reach s ⟨tr, h⟩
  by_cases h0 : s.wg = 0
  · left; simp [TG.step, hw, h0]
  · right
    have : 0 < s.running := by have := hi.count; omega
    simp [TG.step, this]

/-- the `closed` check in `Add` is what the above rests on: without it the property is false -/
theorem tg_check_needed :
    ¬ (∀ (tr : List TGStep) (s : TG), tgSysNoCheck.run {} tr = some s → 0 < s.returned → s.running = 0) := by
  intro h
  have := h [.stop, .ret, .add] _ rfl (by decide)
  exact absurd this (by decide)

-- non-vacuity: a run with work before and after Stop, and a Stop that has returned
example : ∃ s, tgSys.run {} [.add, .add, .stop, .add, .done, .done, .ret, .add] = some s ∧
    0 < s.returned ∧ s.finished = 2 ∧ s.rejected = 2 ∧ s.running = 0 := ⟨_, rfl, by decide⟩
-- Stop cannot return while a thread is live
example : tgSys.run {} [.add, .stop, .ret] = none := rfl

/-! ## rhp4 server (and the wallet): Close = Stop -/

/-- `Server.Close` returns only after every handler has finished, and every stream that reaches
`tg.Add` afterwards is refused -/
theorem server_close_waits (tr : List SrvStep) (s : Srv) (h : srvSys.run {} tr = some s)
    (hr : 0 < s.tg.returned) :
    s.tg.running = 0 ∧
    ∀ s', s.step .enter = some s' → s'.tg.running = 0 ∧ s'.tg.rejected = s.tg.rejected + 1 := by
  have hi := Srv.inv_reach s ⟨tr, h⟩
  have hidle := hi.retIdle hr
  refine ⟨hidle.2, ?_⟩
  intro s' hs
  simp only [Srv.step] at hs
  split at hs
  · simp only [Option.map_eq_some_iff] at hs
    obtain ⟨t, ht, rfl⟩ := hs
    have := tg_no_add_after_stop s.tg t hidle.1 ht
    exact ⟨by rw [this.1]; exact hidle.2, this.2.2⟩
  · cases hs

/-- handlers counted by the group are exactly the running ones (no slot is lost or invented) -/
theorem server_count_eq_handlers (tr : List SrvStep) (s : Srv) (h : srvSys.run {} tr = some s) :
    s.tg.wg = s.tg.running :=
  (Srv.inv_reach s ⟨tr, h⟩).count

example : ∃ s, srvSys.run {} [.accept, .accept, .enter, .close, .enter, .finish, .closeRet, .accept, .enter]
    = some s ∧ 0 < s.tg.returned ∧ s.tg.rejected = 2 ∧ s.tg.finished = 1 := ⟨_, rfl, by decide⟩
example : srvSys.run {} [.accept, .enter, .close, .closeRet] = none := rfl

/-! ## in-flight limits of the syncer -/

/-- the handlers of one peer that are running never exceed the per-peer limit (when it is
enabled), and never exceed the slots actually taken from the semaphore -/
theorem inflight_peer_le (maxPeer maxSub : Int) (tr : List IFStep) (s : IF)
    (h : ifSys.run (IF.init maxPeer maxSub) tr = some s) :
    ∀ p ∈ s.peers, p.running ≤ p.sem ∧ (0 < maxPeer → (p.sem : Int) ≤ maxPeer) := by
  have hi := IF.inv_reach _ _ s ⟨tr, h⟩
  have hp := IF.reach_params _ _ s ⟨tr, h⟩
  intro p hmem
  obtain ⟨h1, h2, _⟩ := hi.sem p hmem
  refine ⟨?_, fun h0 => by have := h2 (by rw [hp.1]; exact h0); rw [hp.1] at this; exact this⟩
  rw [h1]; simp only [PeerSt.semHolders]; omega

/-- the handlers of one subnet that are running (over all its peers) never exceed the per-subnet
limit when it is enabled; with a limit `≤ 0` the counter is never touched and nothing is ever
dropped (disabled) -/
theorem inflight_subnet_le (maxPeer maxSub : Int) (tr : List IFStep) (s : IF)
    (h : ifSys.run (IF.init maxPeer maxSub) tr = some s) :
    (0 < maxSub → sumBy (·.running) s.peers ≤ s.subnet ∧ (s.subnet : Int) ≤ maxSub) ∧
    (maxSub ≤ 0 → s.subnet = 0 ∧ s.dropped = 0) := by
  have hi := IF.inv_reach _ _ s ⟨tr, h⟩
  have hp := IF.reach_params _ _ s ⟨tr, h⟩
  rw [← hp.2]
  refine ⟨fun h0 => ⟨?_, hi.subLe h0⟩, fun h0 => ⟨hi.subOff h0, hi.drop h0⟩⟩
  rw [hi.sub h0]
  exact sumBy_le_sumBy _ _ (fun p => by simp only [PeerSt.subHolders]; omega) _

/-- slots are returned on every exit path: in every reachable state each counter equals the
number of threads whose program counter says they hold a slot — handler refused by the thread
group, subnet over budget and normal handler end included (they are steps of the system) -/
theorem slots_returned (maxPeer maxSub : Int) (tr : List IFStep) (s : IF)
    (h : ifSys.run (IF.init maxPeer maxSub) tr = some s) :
    (∀ p ∈ s.peers, p.sem = p.semHolders) ∧
    (0 < maxSub → s.subnet = sumBy PeerSt.subHolders s.peers) := by
  have hi := IF.inv_reach _ _ s ⟨tr, h⟩
  have hp := IF.reach_params _ _ s ⟨tr, h⟩
  exact ⟨fun p hm => (hi.sem p hm).1, fun h0 => hi.sub (by rw [hp.2]; exact h0)⟩

/-- so when no handler is left and no loop is between taking and returning a slot, every
counter is back to zero -/
theorem slots_returned_quiescent (maxPeer maxSub : Int) (tr : List IFStep) (s : IF)
    (h : ifSys.run (IF.init maxPeer maxSub) tr = some s)
    (hq : ∀ p ∈ s.peers, p.semHolders = 0) :
    s.subnet = 0 ∧ ∀ p ∈ s.peers, p.sem = 0 := by
  have hs := slots_returned _ _ tr s h
  refine ⟨?_, fun p hm => by rw [hs.1 p hm]; exact hq p hm⟩
  by_cases h0 : 0 < maxSub
  · rw [hs.2 h0]
    have : ∀ l : List PeerSt, (∀ p ∈ l, p.semHolders = 0) → sumBy PeerSt.subHolders l = 0 := by
      intro l
      induction l with
      | nil => intro _; rfl
      | cons x xs ih =>
        intro hl
        have hx := hl x List.mem_cons_self
        have := ih (fun p hp => hl p (List.mem_cons_of_mem _ hp))
        simp only [PeerSt.semHolders] at hx
        simp only [sumBy, PeerSt.subHolders]; omega
    exact this _ hq
  · exact ((inflight_subnet_le _ _ tr s h).2 (by omega)).1

/-- the per-peer path has no reject transition: the only step that drops a request is the
subnet-over-budget step -/
theorem backpressure_not_drop (s s' : IF) (a : IFStep) (hs : s.step a = some s')
    (hd : s'.dropped ≠ s.dropped) : ∃ i, a = .retSub i := by
  cases a <;> simp only [IF.step] at hs
  case retSub i => exact ⟨i, rfl⟩
  all_goals (repeat' split at hs)
  all_goals first
    | contradiction
    | (simp only [Option.some.injEq] at hs; subst hs; exact absurd rfl hd)

/-- a request waiting for the per-peer slot is served as soon as a slot is free (the `take` step
is enabled exactly then); nothing else can happen to it except that the thread group closes -/
theorem backpressure_take_enabled (s : IF) (i : Nat) (p : PeerSt) (hp : s.peers[i]? = some p)
    (hw : p.loop = .want) : (s.step (.take i)).isSome = s.semFree p := by
  simp only [IF.step, hp, hw, true_and]
  split <;> simp_all

theorem backpressure_waits (s s' : IF) (a : IFStep) (i : Nat) (p : PeerSt)
    (hp : s.peers[i]? = some p) (hw : p.loop = .want) (hs : s.step a = some s') :
    ∃ p', s'.peers[i]? = some p' ∧
      (p'.loop = .want ∨ (p'.loop = .have ∧ a = .take i) ∨ (p'.loop = .closing ∧ s.tgClosed = true)) := by
  have hlen : i < s.peers.length := by
    rcases Nat.lt_or_ge i s.peers.length with h | h
    · exact h
    · rw [List.getElem?_eq_none h] at hp; cases hp
  cases a <;> simp only [IF.step] at hs
  case peerStart =>
    split at hs
    · cases hs
    · simp only [Option.some.injEq] at hs; subst hs
      exact ⟨p, by simp only [List.getElem?_append_left hlen]; exact hp, Or.inl hw⟩
  case oAdd =>
    split at hs <;> simp only [Option.some.injEq] at hs <;> subst hs <;> exact ⟨p, hp, Or.inl hw⟩
  case oDone =>
    split at hs
    · simp only [Option.some.injEq] at hs; subst hs; exact ⟨p, hp, Or.inl hw⟩
    · cases hs
  case stop => simp only [Option.some.injEq] at hs; subst hs; exact ⟨p, hp, Or.inl hw⟩
  case ret =>
    split at hs
    · simp only [Option.some.injEq] at hs; subst hs; exact ⟨p, hp, Or.inl hw⟩
    · cases hs
  all_goals
    rename_i j
    by_cases hij : j = i
    · subst hij
      simp only [hp] at hs
      (repeat' split at hs)
      all_goals first
        | contradiction
        | (simp only [Option.some.injEq] at hs; subst hs
           simp only [IF.setPeer, List.getElem?_set_self hlen, Option.some.injEq, exists_eq_left']
           simp_all)
    · (repeat' split at hs)
      all_goals first
        | contradiction
        | (simp only [Option.some.injEq] at hs; subst hs
           refine ⟨p, ?_, Or.inl hw⟩
           simp only [IF.setPeer, List.getElem?_set_ne hij]; exact hp)

-- non-vacuity: two peers of one subnet, per-peer limit 1, subnet limit 2: the third request of
-- the subnet is dropped (subnet path), the second request of peer 0 waits (per-peer path)
example : ∃ s, ifSys.run (IF.init 1 2)
    [.peerStart, .peerStart, .want 0, .take 0, .acq 0, .hAdd 0, .want 0,
     .want 1, .take 1, .acq 1, .hAdd 1, .hDone 1, .relSub 1, .relPeer 1,
     .want 1, .take 1, .acq 1, .hAdd 1] = some s ∧
    s.subnet = 2 ∧ s.dropped = 0 ∧ (s.step (.take 0)).isSome = false := ⟨_, rfl, by decide⟩
example : ∃ s, ifSys.run (IF.init 2 1)
    [.peerStart, .want 0, .take 0, .acq 0, .want 0, .take 0, .acq 0, .retSub 0] = some s ∧
    s.dropped = 1 ∧ s.subnet = 1 := ⟨_, rfl, by decide⟩
-- disabled limits (0 and negative): nothing is counted, nothing is dropped, nothing waits
example : ∃ s, ifSys.run (IF.init (-1) 0)
    [.peerStart, .want 0, .take 0, .acq 0, .want 0, .take 0, .acq 0, .want 0, .take 0, .acq 0,
     .hAdd 0, .hAdd 0, .hAdd 0] = some s ∧
    s.subnet = 0 ∧ s.dropped = 0 ∧ sumBy (·.running) s.peers = 3 := ⟨_, rfl, by decide⟩
-- the exit "thread group already closed": both slots come back
example : ∃ s, ifSys.run (IF.init 2 2)
    [.peerStart, .want 0, .take 0, .acq 0, .stop, .hAdd 0, .relSub 0, .relPeer 0, .want 0, .sawClosed 0,
     .peerExit 0, .ret] = some s ∧
    s.subnet = 0 ∧ sumBy (·.sem) s.peers = 0 ∧ s.returned = 1 := ⟨_, rfl, by decide⟩

/-! ### back-pressure and progress (KNOWN FINDING per-peer-backpressure-hol-stall) -/

/-- TARGET (false of the current code): back-pressure never stalls a peer — in every reachable
state of a peer connection in which some request is unanswered, some thread can take a step,
whatever the limit (≥ 1), the number of requests and the order in which the peer's frames reach
the wire (every id frame before its request frame).  What is missing: `runPeer` reads the id of
the next stream and only then waits for a slot, and the transport hands frames to streams one at
a time; the request frame of the waiting stream then blocks the frames behind it, among them the
request of the handler that owns the slot. -/
def C18_backpressure_progress_full : Prop :=
  ∀ (limit n : Nat) (wire : List Frame) (tr : List HOLStep) (s : HOL),
    0 < limit → wireOK n wire = true →
    holSys.run (HOL.init limit wire n) tr = some s → s.final = false → s.canStep = true

/-- the stall, reproduced on the real code (WithMaxInflightRPCs(1), three concurrent
SendV2Blocks of one peer: 4 of 100 runs time out): limit 1, two requests, wire order
id0 id1 req1 req0 -/
theorem hol_stall_witness :
    ∃ s, holSys.run (HOL.init 1 [.id 0, .id 1, .req 1, .req 0] 2)
      [.deliver, .acceptID 0, .take 0, .deliver, .acceptID 1, .deliver] = some s ∧
      s.final = false ∧ s.canStep = false ∧ s.sem = 1 ∧ s.held = some (.req 1) :=
  ⟨_, rfl, by decide⟩

theorem backpressure_progress_full_false : ¬ C18_backpressure_progress_full := by
  intro h
  obtain ⟨s, hs, hf, hn, _⟩ := hol_stall_witness
  have := h 1 2 _ _ s (by decide) (by decide) hs hf
  rw [hn] at this; cases this

/-- the provable part, a statement about `HOL` itself: when the peer issues its requests one after
the other (the wire is `seqWire n`: each request frame directly behind its id frame) the
connection never stalls — any number of requests, any limit ≥ 1, any interleaving of the server's
threads.  Proved through the simulation below and the progress of `SeqHOL`.  (The harness issues
the requests of one peer this way in its `inflight`/`rejects` scenarios and concurrently in
`holstall`; `hol_stall_witness` is the negation for concurrent issue.) -/
theorem backpressure_progress_partial (limit n : Nat) (hl : 0 < limit) (tr : List HOLStep) (s : HOL)
    (h : holSys.run (HOL.init limit (seqWire n) n) tr = some s) (hf : s.final = false) :
    s.canStep = true := by
  obtain ⟨q, hr⟩ := holRel_reach limit n tr s h
  have hlim : q.limit = limit := by
    obtain ⟨_, h1, _⟩ := hr
    have hinv : s.limit = limit :=
      Sys.run_inv holSys (fun s => s.limit = limit) (by
        intro s a s' hi hs
        cases a <;> simp only [holSys, HOL.step] at hs
        all_goals (repeat' split at hs)
        all_goals first
          | contradiction
          | (simp only [Option.some.injEq] at hs; subst hs; exact hi)) tr _ s rfl h
    omega
  have hqf : q.final = false := by
    cases hq : q.final
    · rfl
    · have := hol_final_of_seq n s q hr hq; rw [this] at hf; cases hf
  have hsem := hr.choose_spec.2.2.2.2.2.2.1
  exact hol_enabled_of_seq n s q hr (SeqHOL.progress_of_inv q (by omega) hsem hqf)

/-- the correspondence that carries it: `SeqHOL` (counters) is the sequential-issue restriction of
`HOL`.  Forward simulation — every `HOL` step from related states is a `SeqHOL` step to related
states — and every reachable `HOL` state on the sequential wire is related to some `SeqHOL` state;
conversely whatever `SeqHOL` can do the related `HOL` state can do, and only final `HOL` states are
related to final `SeqHOL` states. -/
theorem hol_seq_simulation (n : Nat) (h h' : HOL) (q : SeqHOL) (a : HOLStep) (hr : HolRel n h q)
    (hs : h.step a = some h') : ∃ b q', q.step b = some q' ∧ HolRel n h' q' :=
  hol_sim n h h' q a hr hs

theorem hol_seq_related (limit n : Nat) (tr : List HOLStep) (s : HOL)
    (h : holSys.run (HOL.init limit (seqWire n) n) tr = some s) : ∃ q, HolRel n s q :=
  holRel_reach limit n tr s h

theorem hol_seq_enabled (n : Nat) (h : HOL) (q : SeqHOL) (hr : HolRel n h q) :
    (q.canStep = true → h.canStep = true) ∧ (q.final = true → h.final = true) :=
  ⟨hol_enabled_of_seq n h q hr, hol_final_of_seq n h q hr⟩

/-- progress of the counter system on its own (all runs of `SeqHOL`) -/
theorem seq_progress (limit n : Nat) (hl : 0 < limit) (tr : List SeqStep) (s : SeqHOL)
    (h : seqHolSys.run { limit := limit, todo := n } tr = some s) (hf : s.final = false) :
    s.canStep = true := by
  have key : SeqHOL.Inv s ∧ s.limit = limit :=
    Sys.run_inv seqHolSys (fun s => SeqHOL.Inv s ∧ s.limit = limit)
      (fun s a s' hi hs => ⟨SeqHOL.inv_step s a s' hi.1 hs, (SeqHOL.step_limit s a s' hs).trans hi.2⟩)
      tr _ s ⟨⟨by simp⟩, rfl⟩ h
  exact SeqHOL.progress_of_inv s (by omega) key.1.sem hf

-- non-vacuity: the sequential system does run to completion with requests waiting for the slot
example : ∃ s, seqHolSys.run { limit := 1, todo := 2 }
    [.deliverId, .acceptID, .take, .deliverReq, .readReq, .deliverId, .acceptID, .deliverReq,
     .finish, .take, .readReq, .finish] = some s ∧ s.final = true ∧ s.doneN = 2 := ⟨_, rfl, by decide⟩
-- and the general system completes on the sequential wire where it wedged on the interleaved one
example : seqWire 2 = [.id 0, .req 0, .id 1, .req 1] := rfl
example : ∃ s, holSys.run (HOL.init 1 (seqWire 2) 2)
    [.deliver, .acceptID 0, .take 0, .deliver, .readReq 0, .deliver, .acceptID 1, .deliver,
     .finish 0, .take 1, .readReq 1, .finish 1] = some s ∧ s.final = true := ⟨_, rfl, by decide⟩

/-- `Close` of the syncer's thread group returns only when no handler is running and every
`runPeer` loop has exited -/
theorem inflight_close_waits (maxPeer maxSub : Int) (tr : List IFStep) (s : IF)
    (h : ifSys.run (IF.init maxPeer maxSub) tr = some s) (hr : 0 < s.returned) :
    ∀ p ∈ s.peers, p.running = 0 ∧ p.loop = .exited := by
  have hi := IF.inv_reach _ _ s ⟨tr, h⟩
  have h0 := (hi.ret hr).2
  have hsum : sumBy PeerSt.tgMembers s.peers = 0 := by have := hi.wg; omega
  intro p hm
  have := le_sumBy_of_mem PeerSt.tgMembers s.peers p hm
  rw [hsum] at this
  simp only [PeerSt.tgMembers] at this
  refine ⟨by omega, ?_⟩
  by_cases hl : p.loop = .exited
  · exact hl
  · simp [hl] at this

/-! ## peer caps -/

/-- TARGET, proved for the repaired code (`addPeer` re-checks under the mutex of the insert):
the number of inbound peers never exceeds `MaxInboundPeers`, for every number of simultaneous
connection attempts and every interleaving of their `allowConnect` / `addPeer` steps (a limit
`≤ 0` admits no inbound peer) -/
theorem peer_caps_hold (maxIn maxOut : Int) (tr : List CapStep) (s : Caps)
    (h : (capsSys true).run (Caps.init maxIn maxOut) tr = some s) :
    0 < s.inP → (s.inP : Int) ≤ maxIn := by
  have key : s.InInv ∧ s.maxIn = maxIn :=
    Sys.run_inv (capsSys true) (fun s => s.InInv ∧ s.maxIn = maxIn)
      (fun s a s' hi hs => ⟨Caps.inInv_step s a s' hi.1 hs,
        (Caps.step_params true s a s' hs).1.trans hi.2⟩)
      tr _ s ⟨by intro h0; simp [Caps.init] at h0, rfl⟩ h
  intro h0
  have := key.1 h0
  rw [key.2] at this; exact this

/-- outbound: the automatic dialer (`peerLoop`, one thread: check then insert) never takes the
number of outbound peers above `MaxOutboundPeers` as long as no explicit `Connect` is made;
explicit `Connect` calls are not subject to the limit (by design, see `outbound_explicit_exempt`).
Holds for the pinned and the repaired code. -/
theorem peer_caps_hold_outbound_auto (fixed : Bool) (maxIn maxOut : Int) (tr : List CapStep) (s : Caps)
    (hnd : ∀ a ∈ tr, a ≠ CapStep.direct)
    (h : (capsSys fixed).run (Caps.init maxIn maxOut) tr = some s) :
    0 < s.outP → (s.outP : Int) ≤ maxOut := by
  have key : s.OutInv ∧ s.maxOut = maxOut :=
    Sys.run_inv_lab (capsSys fixed) (fun s => s.OutInv ∧ s.maxOut = maxOut) (· ≠ CapStep.direct)
      (fun s a s' ha hi hs => ⟨Caps.outInv_step fixed s a s' ha hi.1 hs,
        (Caps.step_params fixed s a s' hs).2.trans hi.2⟩)
      tr _ s hnd ⟨by intro h0; simp [Caps.init] at h0, rfl⟩ h
  intro h0
  have h1 := key.1
  unfold Caps.OutInv at h1
  rw [key.2] at h1
  split at h1 <;> omega

/-- the defect of the pinned code (check and insert are two steps): a concrete run in which 12
simultaneous inbound connections all pass `allowConnect` and are all inserted, limit 2 — the run
the harness reproduced on the real code before the repair -/
theorem caps_race_witness :
    ∃ s, (capsSys false).run (Caps.init 2 16)
      (List.replicate 12 (.allow true) ++ List.replicate 12 (.add true)) = some s ∧ s.inP = 12 :=
  ⟨_, rfl, by decide⟩

/-- so the TARGET is false of the pinned code … -/
theorem peer_caps_hold_pinned_false :
    ¬ (∀ (maxIn maxOut : Int) (tr : List CapStep) (s : Caps),
        (capsSys false).run (Caps.init maxIn maxOut) tr = some s → 0 < s.inP → (s.inP : Int) ≤ maxIn) := by
  intro h
  obtain ⟨s, hs, h12⟩ := caps_race_witness
  have := h 2 16 _ s hs (by omega)
  omega

/-- … and the same schedule on the repaired code inserts exactly 2 -/
theorem caps_race_repaired :
    ∃ s, (capsSys true).run (Caps.init 2 16)
      (List.replicate 12 (.allow true) ++ List.replicate 12 (.add true)) = some s ∧ s.inP = 2 :=
  ⟨_, rfl, by decide⟩

/-- explicit `Connect` calls bypass `MaxOutboundPeers` (both versions; by design) -/
theorem outbound_explicit_exempt (fixed : Bool) :
    ∃ s, (capsSys fixed).run (Caps.init 8 1) [.direct, .direct, .direct] = some s ∧ s.outP = 3 := by
  cases fixed <;> exact ⟨_, rfl, by decide⟩

example : ∃ s, (capsSys true).run (Caps.init 2 1)
    [.allow true, .allow true, .allow true, .add true, .add true, .add true, .allow true, .remove true,
     .allow true, .add true, .allow false, .add false, .allow false] = some s ∧
    s.inP = 2 ∧ s.outP = 1 ∧ s.pendIn = 0 ∧ s.pendOut = false := ⟨_, rfl, by decide⟩

/-! ## Syncer.Run / Close -/

/-- `Syncer.Close` returns only after all background work has stopped: `Run` has returned, the
three loops have exited, no connection goroutine and no `runPeer` is left in the thread group, and
every goroutine started by a sync round has been joined: no block-ingestion goroutine is left
(`ingest = 0`; it is not a member of the thread group — `syncLoop` joins it before it returns)
(pinned and repaired code) -/
theorem syncer_close_waits (fixed : Bool) (tr : List TDStep) (s : TD)
    (h : (tdSys fixed).run {} tr = some s) (hr : s.close = .returned) :
    s.wg = 0 ∧ s.run = .done ∧ s.accept = .exited ∧ s.bgRun = 0 ∧ s.bgSend = 0 ∧ s.conns = 0 ∧
      s.sO = 0 ∧ s.sC = 0 ∧ s.tgClosed = true ∧ s.ingest = 0 := by
  have hi := TD.inv_reach fixed s ⟨tr, h⟩
  have h0 := hi.ret hr
  have hw := hi.wg
  rw [h0] at hw
  have hrun : s.run = .done := by
    cases hrn : s.run <;> first | rfl | (exfalso; simp [hrn, RunPc.live] at hw; omega)
  have hacc : s.accept = .exited := by
    cases ha : s.accept <;> first | rfl | (exfalso; simp [ha, LoopSt.live] at hw; omega)
  have hbr : s.bgRun = 0 := by omega
  have hing : s.ingest = 0 := by
    rcases Nat.eq_zero_or_pos s.ingest with h | h
    · exact h
    · have := hi.sync (hi.ing h); omega
  exact ⟨h0, hrun, hacc, hbr, by omega, by omega, by omega, by omega, hi.tgc.mpr (Or.inr hr), hing⟩

/-- a sync round's ingestion goroutine keeps `syncLoop`, hence `Close`, waiting: while it runs,
`syncLoop` cannot return and `Close` cannot return -/
theorem sync_round_joined (fixed : Bool) (tr : List TDStep) (s : TD)
    (h : (tdSys fixed).run {} tr = some s) (hi : 0 < s.ingest) :
    TD.step fixed s (.bgExit true) = none ∧ TD.step fixed s .bgFail = none ∧
      TD.step fixed s .closeRet = none := by
  have hinv := TD.inv_reach fixed s ⟨tr, h⟩
  have hsr := hinv.ing hi
  have hbr := hinv.sync hsr
  have hw := hinv.wg
  refine ⟨by simp [TD.step]; omega, by simp [TD.step]; omega, ?_⟩
  simp only [TD.step]
  rw [if_neg]
  intro hc; omega

/-! ### the worker → orchestrator channel of a sync round -/

/-- once a round is aborted (the orchestrator has stopped reading), no worker's send can block,
the round can always move on, and `wg.Wait` is reached — PROVIDED the capacity of the response
channel covers the responses already in it plus those that may still come (two for a worker whose
request was in flight: it may succeed and then fail the next buffered request; one for every
other worker).  This is the assumption the code's `make(chan Resp, 128)` ("a reasonable maximum
number of peers") stands for; it is an assumption of the model, not enforced by the code. -/
theorem round_abort_sends_never_block (c : Nat) (s0 s : Round) (tr : List RoundStep)
    (h0 : s0.reading = false ∧ s0.cap = c ∧ s0.demand ≤ c) (h : roundSys.run s0 tr = some s) :
    (0 < s.busyOld → (s.step .respondOk).isSome = true ∧ (s.step .respondErr).isSome = true) ∧
    (0 < s.busyNew → (s.step .respondErr).isSome = true) ∧
    (s.joined = false → s.canStep = true) := by
  have key := Sys.run_inv roundSys (fun s => s.reading = false ∧ s.cap = c ∧ s.demand ≤ c)
    (fun s a s' hi hs => Round.aborted_step c s s' a hi hs) tr s0 s h0 h
  obtain ⟨hr, hc, hd⟩ := key
  simp only [Round.demand] at hd
  refine ⟨?_, ?_, ?_⟩
  · intro hb
    have : s.len < s.cap := by omega
    simp [Round.step, hb, this]
  · intro hb
    have : s.len < s.cap := by omega
    simp [Round.step, hb, this]; split <;> rfl
  · intro hj
    simp only [Round.canStep, List.any_cons, List.any_nil, Bool.or_false, Bool.or_eq_true]
    by_cases h1 : 0 < s.busyOld
    · have : s.len < s.cap := by omega
      right; left; simp [Round.step, h1, this]
    by_cases h2 : 0 < s.busyNew
    · have : s.len < s.cap := by omega
      right; right; left; simp [Round.step, h2, this]; split <;> rfl
    by_cases h3 : 0 < s.idle
    · by_cases h4 : 0 < s.queued
      · left; simp [Round.step, h3, h4, hr]
      · right; right; right; left; simp [Round.step, hr, h3]; omega
    · right; right; right; right; simp [Round.step, hr, hj]; omega

/-- without that assumption it is false: capacity 1 (one request), two workers with the request and
its end-of-round duplicate in flight, the round is aborted: the second response can never be sent,
`wg.Wait` never returns (the seeded change `make(chan Resp, len(reqs))`, reproduced on the real
code: `Syncer.Close` hangs) -/
theorem round_small_cap_stuck :
    ∃ s, roundSys.run { cap := 1 } [.spawn, .spawn, .assign, .assign, .abort, .respondErr] = some s ∧
      s.joined = false ∧ s.canStep = false ∧ s.busyOld = 1 ∧ s.len = s.cap :=
  ⟨_, rfl, by decide⟩

/-- the repaired code (0194f79: the send gives up once the round's context is cancelled) needs NO
assumption on the capacity: after the abort, whatever the capacity, the number of workers and the
number of responses already in the channel, some step of an existing thread is enabled until
`wg.Wait` returns — in every state, reachable or not -/
theorem round_abort_progress_fixed (s : Round) (hr : s.reading = false) (hj : s.joined = false) :
    s.canStepFixed = true := by
  simp only [Round.canStepFixed, List.any_cons, List.any_nil, Bool.or_false, Bool.or_eq_true]
  by_cases h1 : 0 < s.busyOld
  · right; right; right; left; simp [Round.stepFixed, hr, h1]
  by_cases h2 : 0 < s.busyNew
  · right; right; right; left; simp [Round.stepFixed, hr, h1, h2]
  by_cases h3 : 0 < s.idle
  · by_cases h4 : 0 < s.queued
    · left; simp [Round.stepFixed, Round.step, h3, h4, hr]
    · right; right; right; right; left; simp [Round.stepFixed, Round.step, hr, h3]; omega
  · right; right; right; right; right; simp [Round.stepFixed, Round.step, hr, hj]; omega

/-- the schedule that is stuck with capacity 1 runs to the join on the repaired code -/
theorem round_small_cap_fixed :
    ∃ s, roundSysFixed.run { cap := 1 }
      [.spawn, .spawn, .assign, .assign, .abort, .respondErr, .dropSend, .join] = some s ∧ s.joined = true :=
  ⟨_, rfl, by decide⟩

-- non-vacuity: the same schedule with the code's capacity runs to the join
example : ∃ s, roundSys.run { cap := 128 }
    [.spawn, .spawn, .assign, .assign, .abort, .respondErr, .respondErr, .join] = some s ∧
    s.joined = true := ⟨_, rfl, by decide⟩

/-- work submitted after `Close` is rejected: a connection goroutine that reaches the thread group
after `Close` began to wait joins nothing (`Connect` returns `ErrClosed`), and a peer whose
`runPeer` starts afterwards is not served -/
theorem syncer_rejects_after_close (fixed : Bool) (tr : List TDStep) (s : TD)
    (h : (tdSys fixed).run {} tr = some s) (hc : s.close = .waiting ∨ s.close = .returned) :
    TD.step fixed s .connStart = some s ∧
    ∀ b s', TD.step fixed s (.peerAdd b) = some s' → s'.sO = s.sO ∧ s'.sC = s.sC ∧ s'.wg = s.wg := by
  have hi := TD.inv_reach fixed s ⟨tr, h⟩
  have htg := hi.tgc.mpr hc
  refine ⟨by simp [TD.step, htg], ?_⟩
  intro b s' hs
  cases b <;> simp only [TD.step, htg, if_true] at hs
  all_goals (repeat' split at hs)
  all_goals first
    | contradiction
    | (simp only [Option.some.injEq] at hs; subst hs; exact ⟨rfl, rfl, rfl⟩)

/-- `close_terminates` as a progress statement, TARGET, proved for the repaired code: in every
reachable state in which `Close` is waiting, some thread that exists in the state has an
enabled step (no thread creation and no action of the environment is needed).  Assumptions of
the model: a connection goroutine can always finish (`ConnectTimeout`), `acceptRPC` returns once
the peer's transport is closed, `Accept` returns once the listener is closed. -/
theorem close_progress (tr : List TDStep) (s : TD) (h : (tdSys true).run {} tr = some s)
    (hc : s.close = .waiting) : TD.canProgress true s = true := by
  rcases TD.progress_or_stuck true s (TD.inv_reach true s ⟨tr, h⟩) hc with h | h
  · exact h
  · exact absurd h.1 (by decide)

/-- what is provable of the pinned code: `Close` can only be stuck on a peer that is being served
with an open transport — one that `Run`'s single sweep did not see -/
theorem close_progress_partial (tr : List TDStep) (s : TD) (h : (tdSys false).run {} tr = some s)
    (hc : s.close = .waiting) : TD.canProgress false s = true ∨ 0 < s.sO := by
  rcases TD.progress_or_stuck false s (TD.inv_reach false s ⟨tr, h⟩) hc with h | h
  · exact Or.inl h
  · exact Or.inr h.2

/-- the late-peer window of the pinned code, confirmed on the real code before the repair: a
fatal `syncLoop` error makes `Run` sweep; a peer connected afterwards is served; `Close` then
waits for ever (only the remote end could unblock it) -/
theorem late_peer_witness :
    ∃ s, (tdSys false).run {}
      [.bgFail, .runRecv, .runCloseL, .runSweep, .connStart, .connAdd, .peerAdd true,
       .closeL, .closeStop, .acceptExit, .runRecv, .bgExit false, .runRecv] = some s ∧
      s.close = .waiting ∧ TD.canProgress false s = false ∧ s.sO = 1 :=
  ⟨_, rfl, by decide⟩

/-- the same window without any failure: the handshake of a connection is still in progress
when `Close` is called and the sweep runs before the thread group is stopped -/
theorem late_peer_witness_race :
    ∃ s, (tdSys false).run {}
      [.connStart, .closeL, .acceptExit, .runRecv, .runCloseL, .runSweep, .connAdd, .peerAdd true,
       .closeStop, .bgExit false, .runRecv, .bgExit true, .runRecv] = some s ∧
      s.close = .waiting ∧ TD.canProgress false s = false :=
  ⟨_, rfl, by decide⟩

theorem close_progress_pinned_false :
    ¬ (∀ (tr : List TDStep) (s : TD), (tdSys false).run {} tr = some s → s.close = .waiting →
        TD.canProgress false s = true) := by
  intro h
  obtain ⟨s, hs, hc, hn, _⟩ := late_peer_witness
  have := h _ s hs hc
  rw [hn] at this; cases this

/-- on the repaired code both schedules continue to a returned `Close` -/
theorem late_peer_repaired :
    ∃ s, (tdSys true).run {}
      [.bgFail, .runRecv, .runCloseL, .runSweep, .connStart, .connAdd, .peerAdd true,
       .closeL, .closeStop, .acceptExit, .runRecv, .bgExit false, .runRecv,
       .watch, .peerErr, .peerRemove, .runPeersDone, .runReturn, .closeRet] = some s ∧
      s.close = .returned ∧ s.leaked = 0 :=
  ⟨_, rfl, by decide⟩

/-- pinned code: a connection can be left open, owned by nobody, after `Close` has returned
(`runPeer` finds the thread group stopped and returns without closing the peer); confirmed on
the real code before the repair (37 of 60 runs of `Connect` racing `Close`) -/
theorem leak_witness :
    ∃ s, (tdSys false).run {}
      [.connStart, .closeL, .closeStop, .connAdd, .peerAdd true, .peerRemove, .acceptExit, .runRecv,
       .runCloseL, .runSweep, .bgExit false, .runRecv, .bgExit true, .runRecv, .runPeersDone, .runReturn,
       .closeRet] = some s ∧
      s.close = .returned ∧ s.leaked = 1 :=
  ⟨_, rfl, by decide⟩

/-- repaired code: no connection is ever left behind -/
theorem no_leak (tr : List TDStep) (s : TD) (h : (tdSys true).run {} tr = some s) : s.leaked = 0 :=
  (TD.inv_reach true s ⟨tr, h⟩).leak rfl

-- Close during a sync round: it returns only after the ingestion goroutine has ended
example : ∃ s, (tdSys true).run {}
    [.syncStart, .closeL, .closeStop, .acceptExit, .runRecv, .runCloseL, .runSweep, .bgExit false,
     .runRecv, .ingestDone, .bgExit true, .runRecv, .runPeersDone, .runReturn, .closeRet] = some s ∧
    s.close = .returned ∧ s.ingest = 0 := ⟨_, rfl, by decide⟩
example : (tdSys true).run {} [.syncStart, .closeL, .closeStop, .bgExit true] = none := rfl
-- non-vacuity of `syncer_close_waits` / `close_progress`: a full shutdown with a connected peer
example : ∃ s, (tdSys true).run {}
    [.connStart, .connAdd, .peerAdd true, .closeL, .closeStop, .acceptExit, .runRecv, .runCloseL,
     .runSweep, .peerErr, .peerRemove, .bgExit false, .bgExit true, .runRecv, .runRecv, .runPeersDone,
     .runReturn, .closeRet] = some s ∧ s.close = .returned ∧ s.wg = 0 := ⟨_, rfl, by decide⟩

/-! ## the atomic steps assumed above are the ones in the source

`Verif/Extracted/ConcFacts.lean` is regenerated from /repo's source on every run (go/parser,
`harness/srcfacts/conc.go`); it holds the ordered synchronisation skeleton of every anchored
function and proves, by `decide`, the obligations collected here.  If an edit of /repo moves a
check out of its critical section, drops a deferred release, or moves a hook out of the region
whose order it records, this theorem stops compiling. -/

open Verif.Extracted.ConcFacts in
theorem source_steps_atomic :
    -- ThreadGroup.Add is one step; done = hook then wg.Done; Stop closes under the mutex and waits outside it
    (under "ThreadGroup.Add" "call tg.mu.Lock" "call tg.mu.Unlock"
        ["recv tg.closed", "call tg.wg.Add", "event tg.add"] = true) ∧
    (under "ThreadGroup.Stop" "call tg.mu.Lock" "call tg.mu.Unlock"
        ["recv tg.closed", "close tg.closed", "event tg.stop"] = true) ∧
    ((before "ThreadGroup.Stop" "call tg.mu.Unlock" "call tg.wg.Wait" &&
      before "ThreadGroup.Stop" "call tg.wg.Wait" "event tg.stopped") = true) ∧
    (precededBy "ThreadGroup.Stop" "close tg.closed" "event tg.stop" = true) ∧
    -- acquire / release are one step each under inflightMu
    (under "Syncer.acquireInflight" "call s.inflightMu.Lock" "call s.inflightMu.Unlock"
        ["index s.inflightSubnet", "event s.sub.acq", "event s.sub.rej"] = true) ∧
    (under "Syncer.releaseInflight" "call s.inflightMu.Lock" "call s.inflightMu.Unlock"
        ["index s.inflightSubnet", "delete s.inflightSubnet", "event s.sub.rel"] = true) ∧
    -- allowConnect and addPeer are one step each under s.mu; addPeer re-counts under the insert's acquisition
    (under "Syncer.allowConnect" "call s.mu.Lock" "call s.mu.Unlock"
        ["range s.peers", "event s.allow.ok", "event s.allow.rej"] = true) ∧
    (under "Syncer.addPeer" "call s.mu.Lock" "call s.mu.Unlock"
        ["range s.peers", "index s.peers", "event s.addpeer", "event s.addpeer.rej"] = true) ∧
    -- the peer store can only refuse a peer BEFORE it is inserted
    ((before "Syncer.addPeer" "call s.pm.AddPeer" "call s.mu.Lock" &&
      before "Syncer.addPeer" "call s.pm.UpdatePeerInfo" "call s.mu.Lock" &&
      before "Syncer.addPeer" "call s.pm.UpdatePeerInfo" "index s.peers") = true) :=
  ⟨tg_add_atomic, tg_stop_close_locked, tg_stop_waits_unlocked, tg_stop_hook_before_close, acquire_atomic, release_atomic,
   allow_atomic, addPeer_atomic, addPeer_store_before_insert⟩

open Verif.Extracted.ConcFacts in
/-- every exit path of the handler and of `runPeer` returns what it took, the per-peer path only
blocks, and every `Close` is `Stop` of the thread group -/
theorem source_exits_release :
    ((beforeFrom "Syncer.runPeer" "event s.h.start" "defer call s.releaseInflight" "call s.tg.Add" &&
      beforeFrom "Syncer.runPeer" "event s.h.start" "recv inflight" "defer call s.releaseInflight" &&
      beforeFrom "Syncer.runPeer" "event s.h.start" "defer event s.slot.ret" "defer call s.releaseInflight" &&
      beforeFrom "Syncer.runPeer" "event s.h.start" "call s.tg.Add" "call s.handleRPC" &&
      beforeFrom "Syncer.runPeer" "event s.h.start" "defer call done" "call s.handleRPC") = true) ∧
    ((before "Syncer.runPeer" "call s.acquireInflight" "recv inflight" &&
      before "Syncer.runPeer" "recv inflight" "continue") = true) ∧
    ((countBetween "Syncer.runPeer" "call s.acquireInflight" "event s.h.start" "continue" == 1 &&
      countBetween "Syncer.runPeer" "call s.acquireInflight" "event s.h.start" "return" == 0 &&
      countBetween "Syncer.runPeer" "call s.acquireInflight" "event s.h.start" "recv inflight" == 1) = true) ∧
    ((beforeFrom "Syncer.runPeer" "event s.slot.want" "send inflight" "recv s.tg.Done()" &&
      beforeFrom "Syncer.runPeer" "event s.slot.want" "recv s.tg.Done()" "call s.acquireInflight" &&
      !has "Syncer.runPeer" "default") = true) ∧
    ((before "Syncer.runPeer" "call p.Close" "delete s.peers" && has "Syncer.runPeer" "recv s.tg.Done()") = true) ∧
    ((has "Syncer.Close" "call s.tg.Stop" && before "Syncer.Close" "call s.l.Close" "call s.tg.Stop" &&
      has "Server.Close" "call s.tg.Stop" && has "SingleAddressWallet.Close" "call sw.tg.Stop") = true) ∧
    ((before "Server.Serve" "go{" "call s.tg.Add" &&
      before "Server.Serve" "call s.tg.Add" "call s.handleHostStream" &&
      before "Server.Serve" "defer call done" "call s.handleHostStream") = true) ∧
    -- every relay goroutine of a broadcast joins the thread group itself
    ((before "Syncer.withPeers" "go{" "call s.tg.Add" &&
      beforeFrom "Syncer.withPeers" "go{" "call s.tg.Add" "call fn" &&
      beforeFrom "Syncer.withPeers" "go{" "defer call done" "call fn") = true) :=
  ⟨handler_defers_cover_every_exit, runPeer_reject_returns_slot, runPeer_only_reject_exit_before_handler, runPeer_take_blocks, runPeer_closes_peer,
   closes_stop_group, serve_joins_group, withPeers_registers_each_goroutine⟩

end Verif.C18
