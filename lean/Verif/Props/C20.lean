/-
C20 — seed phrases and derived keys round-trip exactly.

Property theorems only.  The model (`Verif/Model/Seed.lean`) is the computation of
`/repo/wallet/seed.go` on a `(hi, lo)` pair of `uint64`s with the shifts, masks and truncations of
the source; helper lemmas are in `Verif/Lemmas/Seed.lean`; the facts about the word table and the
literals that are re-extracted from the source on every run are in `Verif/Lemmas/SeedWordlist.lean`.

Quantifiers: every theorem is for **all** 2^128 entropies / **all** lists of word indices (any
length, any values) / **all** strings / **all** `uint64` key indices — no bound appears.  The
checksum is a parameter: the theorems hold for *every* function `ck` into `0..15`, in particular
(`*_sha`) for `nibble ∘ sha0` where `sha0 e` is the first byte of `SHA-256(entropy e)` — whatever
SHA-256 is.  BLAKE2b and Ed25519 are outside the model: for key derivation the theorems are about
the byte strings that are hashed (`kdfInput`, `seedInput`); that the real `KeyFromSeed` is
`ed25519(blake2b(kdfInput))`, is repeatable and separates indices is checked on the real code by
the harness (`harness/c20`).
-/
import Verif.Lemmas.Seed
import Verif.Lemmas.SeedWordlist

namespace Verif.C20
open Verif.Seed

/-- the word table of `/repo/wallet/seed.go`, as extracted on this run -/
abbrev wl : List (List Nat) := Verif.Extracted.Seed.wordlist

/-! ### the `(hi, lo)` manipulation is 128-bit arithmetic -/

/-- seed.go:76-77 `lo = lo>>11 | hi<<(64-11); hi >>= 11` is `x ↦ x / 2^11` on `hi·2^64 + lo` -/
theorem pair_shr (hi lo : Nat) (hh : hi < 2 ^ 64) (hl : lo < 2 ^ 64) :
    pairVal (shr hi wordBits, shr lo wordBits ||| shl hi (64 - wordBits)) = pairVal (hi, lo) / 2 ^ 11 ∧
    pairVal (shr hi lastBits, shr lo lastBits ||| shl hi (64 - lastBits)) = pairVal (hi, lo) / 2 ^ 7 := by
  obtain ⟨a1, a2⟩ := pair_shr11 hi lo hh hl
  obtain ⟨b1, b2⟩ := pair_shr7 hi lo hh hl
  simp only [pairVal, a1, a2, b1, b2]
  exact ⟨Nat.div_add_mod' _ _, Nat.div_add_mod' _ _⟩

/-- seed.go:99-100 `hi = hi<<11 | lo>>(64-11); lo = lo<<11 | v` is `x ↦ (x·2^11 + v) mod 2^128` -/
theorem pair_shl (hi lo v : Nat) (hh : hi < 2 ^ 64) (hl : lo < 2 ^ 64) (hv : v < 2048) :
    pairVal (decStep (hi, lo) v) = (pairVal (hi, lo) * 2 ^ 11 + v) % 2 ^ 128 := by
  obtain ⟨a1, a2⟩ := pair_shl11 hi lo v hh hl hv
  simp only [pairVal, a1, a2]
  omega

/-- `bip39checksum` returns a nibble for every hash byte (seed.go:59), the high one -/
theorem checksum_nibble (h0 : Nat) : nibble h0 < 16 ∧ (h0 < 256 → nibble h0 = h0 / 16) :=
  ⟨nibble_lt h0, nibble_eq h0⟩

/-! ### code-level codec = base-2048 digits of `e·16 + ck e` -/

theorem code_eq_spec_encode (ck : Nat → Nat) (e : Nat) (he : e < 2 ^ 128) (hck : ck e < 16) :
    encode ck e = specEncode ck e := by
  have hp : pairVal (e / 2 ^ 64, e % 2 ^ 64) = e := Nat.div_add_mod' _ _
  rw [encode, encodeIdx_eq_spec ck _ _ (by omega) (by omega) (by rw [hp]; exact hck), hp]

/-- for every list of indices (any length, any values) and every `ck` -/
theorem code_eq_spec_decode (ck : Nat → Nat) (ws : List Nat) : decode ck ws = specDecode ck ws :=
  decode_eq_spec ck ws

/-- `bip39EnglishWordList[w]` never panics: the encoder produces 12 indices below 2048 -/
theorem encode_in_range (ck : Nat → Nat) (e : Nat) (he : e < 2 ^ 128) (hck : ck e < 16) :
    (encode ck e).length = 12 ∧ ∀ w ∈ encode ck e, w < 2048 := by
  rw [code_eq_spec_encode ck e he hck]
  exact ⟨length_digitsBE _ _, digitsBE_lt _ _⟩

/-! ### round trips on word indices -/

/-- **every 128-bit entropy encodes to 12 words that decode back to it** -/
theorem decode_encode (ck : Nat → Nat) (e : Nat) (he : e < 2 ^ 128) (hck : ck e < 16) :
    decode ck (encode ck e) = .ok e := by
  rw [code_eq_spec_encode ck e he hck, code_eq_spec_decode, specDecode_specEncode ck e he hck]

/-- **a word sequence decodes iff it has 12 in-range words and its checksum nibble is correct** -/
theorem decode_ok_iff (ck : Nat → Nat) (ws : List Nat) (e : Nat) :
    decode ck ws = .ok e ↔
      ws.length = 12 ∧ (∀ w ∈ ws, w < 2048) ∧ ck e = value ws % 16 ∧ e = value ws / 16 := by
  rw [code_eq_spec_decode]; exact specDecode_ok_iff ck ws e

/-- the checksum nibble of a phrase is the low nibble of its last word -/
theorem value_mod16 (ws : List Nat) (h : ws.length = 12) : value ws % 16 = ws.getD 11 0 % 16 := by
  have hs := eq_take_snoc ws 11 h
  have : value ws = value (ws.take 11) * 2048 + ws.getD 11 0 := by
    conv => lhs; rw [hs]
    exact value_snoc _ _
  omega

/-- the entropy of a phrase that decodes is below 2^128 -/
theorem decode_lt (ck : Nat → Nat) (ws : List Nat) (e : Nat) (h : decode ck ws = .ok e) :
    e < 2 ^ 128 := by
  obtain ⟨hl, hr, _, he⟩ := (decode_ok_iff ck ws e).mp h
  have := value_lt ws hr
  rw [hl] at this
  have : value ws < 2 ^ 132 := this
  omega

/-- **every word sequence that decodes re-encodes to itself** (all 2048^12 sequences, and
vacuously all others) -/
theorem encode_decode (ck : Nat → Nat) (ws : List Nat) (e : Nat) (h : decode ck ws = .ok e) :
    encode ck e = ws := by
  have he := decode_lt ck ws e h
  obtain ⟨_, _, hc, _⟩ := (decode_ok_iff ck ws e).mp h
  rw [code_eq_spec_encode ck e he (by omega)]
  rw [code_eq_spec_decode] at h
  exact specEncode_of_specDecode ck ws e h

/-- hence decoding is injective on the phrases that decode -/
theorem decode_injective (ck : Nat → Nat) (ws ws' : List Nat) (e : Nat)
    (h : decode ck ws = .ok e) (h' : decode ck ws' = .ok e) : ws = ws' := by
  rw [← encode_decode ck ws e h, ← encode_decode ck ws' e h']

/-- and encoding is injective on entropies -/
theorem encode_injective (ck : Nat → Nat) (e e' : Nat) (he : e < 2 ^ 128) (he' : e' < 2 ^ 128)
    (hck : ck e < 16) (hck' : ck e' < 16) (h : encode ck e = encode ck e') : e = e' := by
  have h1 := decode_encode ck e he hck
  rw [h, decode_encode ck e' he' hck'] at h1
  exact (Except.ok.inj h1).symm

/-! ### malformed word sequences are rejected, and with which error -/

theorem decode_count_iff (ck : Nat → Nat) (ws : List Nat) :
    decode ck ws = .error .count ↔ ws.length ≠ 12 := by
  rw [code_eq_spec_decode]; unfold specDecode
  by_cases h : ws.length = 12
  · by_cases ha : ws.any (fun w => decide (2048 ≤ w)) = true
    · simp [h, ha]
    · by_cases hc : ck (value ws / 16) = value ws % 16 <;> simp [h, ha, hc]
  · simp [h]

theorem decode_unknown_iff (ck : Nat → Nat) (ws : List Nat) :
    decode ck ws = .error .unknown ↔ ws.length = 12 ∧ ∃ w ∈ ws, 2048 ≤ w := by
  have hany : (ws.any (fun w => decide (2048 ≤ w)) = true) ↔ ∃ w ∈ ws, 2048 ≤ w := by
    simp [List.any_eq_true]
  rw [code_eq_spec_decode]; unfold specDecode
  by_cases h : ws.length = 12
  · by_cases ha : ws.any (fun w => decide (2048 ≤ w)) = true
    · have := hany.mp ha
      simp [h, ha, this]
    · have := mt hany.mpr ha
      by_cases hc : ck (value ws / 16) = value ws % 16 <;> simp [h, ha, hc, this]
  · simp [h]

theorem decode_checksum_iff (ck : Nat → Nat) (ws : List Nat) :
    decode ck ws = .error .checksum ↔
      ws.length = 12 ∧ (∀ w ∈ ws, w < 2048) ∧ ck (value ws / 16) ≠ value ws % 16 := by
  have hany : (ws.any (fun w => decide (2048 ≤ w)) = true) ↔ ¬ ∀ w ∈ ws, w < 2048 := by
    simp [List.any_eq_true]
  rw [code_eq_spec_decode]; unfold specDecode
  by_cases h : ws.length = 12
  · by_cases ha : ws.any (fun w => decide (2048 ≤ w)) = true
    · have := hany.mp ha
      simp [h, ha, this]
    · have hr : ∀ w ∈ ws, w < 2048 := Classical.not_not.mp (mt hany.mpr ha)
      by_cases hc : ck (value ws / 16) = value ws % 16
      · simp [h, ha, hc]
      · simp only [h, ha, hc, ne_eq, not_true_eq_false, not_false_eq_true, if_false, if_true,
          true_and, true_iff, Bool.false_eq_true]
        exact ⟨hr, trivial⟩
  · simp [h]

/-! ### instantiated with the real checksum `(sha256(entropy)[0] & 0xF0) >> 4`, for any SHA-256 -/

/-- `bip39checksum` as a function of the entropy's value; `sha0 e` is `sha256(entropy)[0]` -/
def ckSha (sha0 : Nat → Nat) : Nat → Nat := fun e => nibble (sha0 e)

theorem decode_encode_sha (sha0 : Nat → Nat) (e : Nat) (he : e < 2 ^ 128) :
    decode (ckSha sha0) (encode (ckSha sha0) e) = .ok e :=
  decode_encode _ e he (nibble_lt _)

theorem encode_decode_sha (sha0 : Nat → Nat) (ws : List Nat) (e : Nat)
    (h : decode (ckSha sha0) ws = .ok e) : encode (ckSha sha0) e = ws :=
  encode_decode _ ws e h

/-! ### the entropy bytes -/

/-- the 16 bytes written by `decodeBIP39Phrase` (seed.go:110-111) read back (seed.go:64-65) to the
same pair: the byte string and the `(hi, lo)` pair determine each other -/
theorem bytes_roundtrip (p : Nat × Nat) (h1 : p.1 < 2 ^ 64) (h2 : p.2 < 2 ^ 64) :
    pairOfBytes (bytesOfPair p) = p ∧ (bytesOfPair p).length = 16 ∧ ∀ b ∈ bytesOfPair p, b < 256 := by
  refine ⟨pairOfBytes_bytesOfPair p h1 h2, rfl, ?_⟩
  intro b hb
  rcases List.mem_append.mp hb with hb | hb <;> exact putBe64_lt _ b hb

/-! ### the tokeniser: white-space variations do not change the result -/

/-- any rendering of the tokens `ts` — arbitrary leading white space, every token followed by a
non-empty run of arbitrary white space (spaces, tabs, newlines, U+00A0, U+2028, …), the last run
possibly empty — tokenises to `ts` -/
theorem fields_render (pre : List Nat) (items : List (List Nat × List Nat))
    (hpre : AllSpace pre) (h : Rendering items) :
    fields (pre ++ render items) = items.map Prod.fst :=
  Verif.Seed.fields_render pre items hpre h

/-- in particular `strings.Join(ws, " ")` tokenises to `ws` -/
theorem fields_join (ws : List (List Nat)) (h : ∀ w ∈ ws, TokOk w) : fields (joinSp ws) = ws :=
  fields_joinSp ws h

/-- so two renderings of the same tokens decode identically (same entropy or same error), over
any word list and any checksum function -/
theorem decodePhrase_whitespace_invariant (wl : List (List Nat)) (ck : Nat → Nat)
    (pre pre' : List Nat) (items items' : List (List Nat × List Nat))
    (hpre : AllSpace pre) (hpre' : AllSpace pre') (h : Rendering items) (h' : Rendering items')
    (hsame : items.map Prod.fst = items'.map Prod.fst) :
    decodePhrase wl ck (pre ++ render items) = decodePhrase wl ck (pre' ++ render items') := by
  simp only [decodePhrase, fields_render pre items hpre h, fields_render pre' items' hpre' h', hsame]

/-! ### the word table extracted from `seed.go` on this run -/

/-- 2048 words, pairwise distinct (strictly sorted), each non-empty and free of white space
(lower-case ASCII letters only) -/
theorem wordlist_good : GoodList wl := Verif.Seed.wordlist_good

/-- the source's literals and byte orders are the model's -/
theorem source_constants :
    Verif.Extracted.Seed.checksumLits = checksumLits ∧ Verif.Extracted.Seed.encodeLits = encodeLits ∧
    Verif.Extracted.Seed.decodeLits = decodeLits ∧ Verif.Extracted.Seed.keyFromSeedLits = keyFromSeedLits ∧
    Verif.Extracted.Seed.encodeSelectors = ["binary.BigEndian.Uint64", "binary.BigEndian.Uint64", "strings.Join"] ∧
    Verif.Extracted.Seed.decodeSelectors = ["strings.Fields", "errors.New", "fmt.Errorf",
      "binary.BigEndian.PutUint64", "binary.BigEndian.PutUint64", "errors.New"] ∧
    Verif.Extracted.Seed.keyFromSeedSelectors =
      ["binary.LittleEndian.PutUint64", "blake2b.Sum256", "types.NewPrivateKeyFromSeed"] :=
  ⟨checksumLits_eq, encodeLits_eq, decodeLits_eq, keyFromSeedLits_eq, encodeSelectors_eq,
    decodeSelectors_eq, keyFromSeedSelectors_eq⟩

/-! ### round trips on phrases (strings), over the extracted table -/

/-- **`decodeBIP39Phrase(encodeBIP39Phrase(entropy)) = entropy`** for all 2^128 entropies -/
theorem phrase_decode_encode (ck : Nat → Nat) (hi lo : Nat) (hh : hi < 2 ^ 64) (hl : lo < 2 ^ 64)
    (hck : ck (pairVal (hi, lo)) < 16) :
    decodePhrase wl ck (encodePhrase wl ck hi lo) = .ok (hi, lo) :=
  decodePhrase_encodePhrase wl wordlist_good ck hi lo hh hl hck

/-- **a string decodes iff it is 12 words of the table, separated by white space, whose checksum
nibble is correct**; the entropy is then `value / 16` -/
theorem phrase_decode_ok_iff (ck : Nat → Nat) (s : List Nat) (p : Nat × Nat) :
    decodePhrase wl ck s = .ok p ↔
      ∃ ws : List Nat, fields s = ws.map (fun w => wl.getD w []) ∧ ws.length = 12 ∧
        (∀ w ∈ ws, w < 2048) ∧ ck (value ws / 16) = value ws % 16 ∧
        p = (value ws / 16 / 2 ^ 64, value ws / 16 % 2 ^ 64) :=
  decodePhrase_ok_iff wl wordlist_good ck s p

/-- **a string that decodes re-encodes to itself** — exactly, up to the white space that
`strings.Fields` discards (`joinSp (fields s)` is `s` with single spaces and trimmed ends) -/
theorem phrase_encode_decode (ck : Nat → Nat) (s : List Nat) (p : Nat × Nat)
    (h : decodePhrase wl ck s = .ok p) :
    (p.1 < 2 ^ 64 ∧ p.2 < 2 ^ 64) ∧ encodePhrase wl ck p.1 p.2 = joinSp (fields s) :=
  encodePhrase_of_decodePhrase wl wordlist_good.1 ck s p h

/-- a canonical phrase (what `encodeBIP39Phrase` returns) that decodes re-encodes to itself
byte for byte -/
theorem phrase_encode_decode_exact (ck : Nat → Nat) (ws : List (List Nat)) (p : Nat × Nat)
    (hw : ∀ w ∈ ws, TokOk w) (h : decodePhrase wl ck (joinSp ws) = .ok p) :
    encodePhrase wl ck p.1 p.2 = joinSp ws := by
  have := (phrase_encode_decode ck (joinSp ws) p h).2
  rwa [fields_join ws hw] at this

/-- **malformed phrases are rejected**: not 12 tokens -/
theorem phrase_wrong_count (ck : Nat → Nat) (s : List Nat) (h : (fields s).length ≠ 12) :
    decodePhrase wl ck s = .error .count :=
  decodePhrase_count wl ck s h

/-- 12 tokens, one of which is not in the table -/
theorem phrase_unknown_word (ck : Nat → Nat) (s : List Nat) (h : (fields s).length = 12)
    (t : List Nat) (ht : t ∈ fields s) (hn : t ∉ wl) :
    decodePhrase wl ck s = .error .unknown :=
  decodePhrase_unknown wl ck s h t ht hn

/-- a phrase containing any character that is neither white space nor `a`…`z` (an upper-case
letter, a digit, punctuation, a non-ASCII letter) never decodes -/
theorem phrase_case_rejected (ck : Nat → Nat) (s : List Nat) (t : List Nat) (ht : t ∈ fields s)
    (c : Nat) (hc : c ∈ t) (hn : ¬ (97 ≤ c ∧ c ≤ 122)) (p : Nat × Nat) :
    decodePhrase wl ck s ≠ .ok p := by
  intro h
  have hnot : t ∉ wl := not_mem_of_not_lower wl wordlist_lower t c hc hn
  by_cases h12 : (fields s).length = 12
  · rw [phrase_unknown_word ck s h12 t ht hnot] at h; cases h
  · rw [phrase_wrong_count ck s h12] at h; cases h

/-! ### key derivation: the hashed byte strings separate (seed, index) and entropies -/

/-- `KeyFromSeed` hashes `seed ‖ LE64(index)` (seed.go:48-51): 40 bytes, and distinct
`(seed, index)` pairs give distinct hash inputs, for all 32-byte seeds and all `uint64` indices -/
theorem kdfInput_injective (s s' : List Nat) (i i' : Nat) (hs : s.length = 32) (hs' : s'.length = 32)
    (hi : i < 2 ^ 64) (hi' : i' < 2 ^ 64) (h : kdfInput s i = kdfInput s' i') : s = s' ∧ i = i' :=
  kdfInput_inj s s' i i' hs hs' hi hi' h

theorem kdfInput_length (s : List Nat) (i : Nat) (hs : s.length = 32) : (kdfInput s i).length = 40 :=
  length_kdfInput s i hs

/-- `SeedFromPhrase` hashes the 16 entropy bytes (seed.go:39): distinct entropies give distinct
hash inputs -/
theorem seedInput_injective (p q : Nat × Nat) (hp1 : p.1 < 2 ^ 64) (hp2 : p.2 < 2 ^ 64)
    (hq1 : q.1 < 2 ^ 64) (hq2 : q.2 < 2 ^ 64) (h : seedInput p = seedInput q) : p = q :=
  seedInput_inj p q hp1 hp2 hq1 hq2 h

/-- so two phrases that decode have the same seed pre-image iff they consist of the same words -/
theorem phrase_seedInput_eq_iff (ck : Nat → Nat) (s s' : List Nat) (p p' : Nat × Nat)
    (h : decodePhrase wl ck s = .ok p) (h' : decodePhrase wl ck s' = .ok p') :
    seedInput p = seedInput p' ↔ fields s = fields s' := by
  obtain ⟨⟨b1, b2⟩, e⟩ := phrase_encode_decode ck s p h
  obtain ⟨⟨b1', b2'⟩, e'⟩ := phrase_encode_decode ck s' p' h'
  constructor
  · intro hs
    have hp := seedInput_injective p p' b1 b2 b1' b2' hs
    subst hp
    have hj : joinSp (fields s) = joinSp (fields s') := by rw [← e, ← e']
    obtain ⟨ws, hf, _, hr, _⟩ := (phrase_decode_ok_iff ck s p).mp h
    obtain ⟨ws', hf', _, hr', _⟩ := (phrase_decode_ok_iff ck s' p).mp h'
    have ht : ∀ t ∈ fields s, TokOk t := by
      rw [hf]; intro t ht
      obtain ⟨w, hw, rfl⟩ := List.mem_map.mp ht
      exact getD_tokOk wl wordlist_good w (hr w hw)
    have ht' : ∀ t ∈ fields s', TokOk t := by
      rw [hf']; intro t ht
      obtain ⟨w, hw, rfl⟩ := List.mem_map.mp ht
      exact getD_tokOk wl wordlist_good w (hr' w hw)
    rw [← fields_join (fields s) ht, hj, fields_join (fields s') ht']
  · intro hf
    have : decodePhrase wl ck s = decodePhrase wl ck s' := by simp only [decodePhrase, hf]
    rw [h, h'] at this
    rw [Except.ok.inj this]

/-! ### non-vacuity: concrete instances (BIP-39 test vectors; `0x37`, `0x5A…` are the real
first SHA-256 bytes) -/

/-- entropy 0 ↦ `abandon ×11 about` (indices 0 ×11, 3): `sha256(0^16)[0] = 0x37` -/
example : encode (ckSha fun _ => 0x37) 0 = [0, 0, 0, 0, 0, 0, 0, 0, 0, 0, 0, 3] := by decide +kernel
example : decode (ckSha fun _ => 0x37) [0, 0, 0, 0, 0, 0, 0, 0, 0, 0, 0, 3] = .ok 0 := by decide +kernel
/-- entropy 2^128-1 ↦ `zoo ×11 wrong` (2047 ×11, 2037): `sha256(ff^16)[0]` has high nibble 5 -/
example : encode (fun _ => 5) (2 ^ 128 - 1) =
    [2047, 2047, 2047, 2047, 2047, 2047, 2047, 2047, 2047, 2047, 2047, 2037] := by decide +kernel
example : decode (fun _ => 5)
    [2047, 2047, 2047, 2047, 2047, 2047, 2047, 2047, 2047, 2047, 2047, 2037] = .ok (2 ^ 128 - 1) := by
  decide +kernel
/-- a wrong checksum, a wrong count and an out-of-range word are all reachable -/
example : decode (fun _ => 5) [0, 0, 0, 0, 0, 0, 0, 0, 0, 0, 0, 3] = .error .checksum := by decide +kernel
example : decode (fun _ => 3) [0, 0, 0, 0, 0, 0, 0, 0, 0, 0, 3] = .error .count := by decide +kernel
example : decode (fun _ => 3) [0, 0, 0, 0, 0, 0, 0, 0, 0, 0, 2048, 3] = .error .unknown := by decide +kernel
/-- the hypotheses of `decode_ok_iff` are satisfiable with a non-zero entropy -/
example : decode (fun _ => 9) [1, 2, 3, 4, 5, 6, 7, 8, 9, 10, 11, 0x19] = .ok (value [1, 2, 3, 4, 5, 6, 7, 8, 9, 10, 11, 0x19] / 16) := by
  decide +kernel
/-- the extracted table starts with `abandon` and ends with `zoo` -/
example : wl.getD 0 [] = [97, 98, 97, 110, 100, 111, 110] ∧ wl.getD 2047 [] = [122, 111, 111] := by
  decide +kernel
/-- tokenising `"\t abandon\n\nabout  "` gives the two words -/
example : fields ([9, 32] ++ wl.getD 0 [] ++ [10, 10] ++ wl.getD 3 [] ++ [32, 0xA0]) = [wl.getD 0 [], wl.getD 3 []] := by
  decide +kernel
/-- a full phrase with mixed white space decodes; with an upper-case first letter it does not -/
example : decodePhrase wl (fun _ => 3)
    ([10] ++ joinSp (List.replicate 11 (wl.getD 0 [])) ++ [9, 13, 10] ++ wl.getD 3 [] ++ [32]) = .ok (0, 0) := by
  decide +kernel
example : decodePhrase wl (fun _ => 3)
    (65 :: (joinSp (List.replicate 11 (wl.getD 0 []) ++ [wl.getD 3 []])).drop 1) = .error .unknown := by
  decide +kernel
/-- a rendering in the sense of `fields_render` -/
example : Rendering [([97], [32, 9]), ([98], [10]), ([99], [])] := by
  simp [Rendering, TokOk, AllSpace, isSpace]
/-- the KDF pre-image of index 1 and of index 2^56 differ (little-endian: first vs last byte) -/
example : kdfInput (List.replicate 32 7) 1 ≠ kdfInput (List.replicate 32 7) (2 ^ 56) := by decide +kernel
example : (kdfInput (List.replicate 32 7) 1).drop 32 = [1, 0, 0, 0, 0, 0, 0, 0] := by decide +kernel

end Verif.C20
