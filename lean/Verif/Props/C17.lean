/-
C17 — all key-value backends behave identically, including before a flush.

Property theorems only; helper lemmas are in `Verif/Lemmas/KV.lean`, the models in
`Verif/Model/KV.lean`.  The models are tied to `/repo/chain/db.go` by the
correspondence check (`harness/c17`): every operation sequence over a small
alphabet up to the tier's length (exhaustively) and long random sequences are run
on the real MemDB / CacheDB(MemDB) / CacheDB(Bolt) / Bolt and on these definitions.
-/
import Verif.Lemmas.KV

namespace Verif.C17
open Verif.KV Std

/-- outputs of a whole operation sequence -/
def runOuts {σ} (step : σ → Op → σ × Out) : σ → List Op → List Out
  | _, [] => []
  | s, op :: ops => (step s op).2 :: runOuts step (step s op).1 ops

def runState {σ} (step : σ → Op → σ × Out) : σ → List Op → σ
  | s, [] => s
  | s, op :: ops => runState step (step s op).1 ops

/-- **MemDB refines the specification**: one step from related states gives the same
output and related states. -/
theorem memdb_refines_spec (d : MemDB) (s : Spec) (h : R d s) (op : Op) :
    (d.step op).2 = (s.step op).2 ∧ R (d.step op).1 (s.step op).1 :=
  memdb_step_refines d s h op

/-- hence for **every** operation sequence (any length) the real-code model of MemDB
returns exactly what the abstract map returns. -/
theorem memdb_trace_eq (ops : List Op) :
    runOuts MemDB.step MemDB.init ops = runOuts Spec.step Spec.init ops := by
  suffices h : ∀ d s, R d s → runOuts MemDB.step d ops = runOuts Spec.step s ops from
    h _ _ R_init
  induction ops with
  | nil => intros; rfl
  | cons op ops ih =>
    intro d s hR
    have h := memdb_step_refines d s hR op
    simp only [runOuts, h.1, ih _ _ h.2]

/-! ### what the specification promises (so that "refines Spec" means something) -/

/-- read-your-writes before any flush -/
theorem spec_get_after_put (s : Spec) (b k v : Nat) (m : KMap) (h : s.working b = some m) :
    ((s.step (.put b k v)).1.step (.get b k)).2 = .val (some v) := by
  simp [Spec.step, h]

/-- read-your-deletes before any flush -/
theorem spec_get_after_del (s : Spec) (b k : Nat) (m : KMap) (h : s.working b = some m) :
    ((s.step (.del b k)).1.step (.get b k)).2 = .val none := by
  simp [Spec.step, h]

/-- iteration reflects an unflushed put -/
theorem spec_iter_after_put (s : Spec) (b k v : Nat) (m : KMap) (h : s.working b = some m) :
    ((s.step (.put b k v)).1.step (.iter b)).2 = .kvs (m.insert k v).toList := by
  simp [Spec.step, h]

/-- flush makes the working image durable; cancel discards exactly the unflushed part -/
theorem spec_flush_durable (s : Spec) : (s.step .flush).1.durable = s.working := rfl
theorem spec_cancel_discards (s : Spec) : (s.step .cancel).1.working = s.durable := rfl
theorem spec_cancel_after_flush (s : Spec) :
    ((s.step .flush).1.step .cancel).1.working = s.working := rfl

/-- every reachable MemDB state is related to the spec state reached by the same history -/
theorem memdb_reachable_related (ops : List Op) :
    R (runState MemDB.step MemDB.init ops) (runState Spec.step Spec.init ops) := by
  suffices key : ∀ d s, R d s → R (runState MemDB.step d ops) (runState Spec.step s ops) from
    key _ _ R_init
  induction ops with
  | nil => intro d s h; exact h
  | cons op ops ih => intro d s h; exact ih _ _ (memdb_step_refines d s h op).2

/-- and therefore the MemDB model has the spec's properties on every reachable state: e.g. a
`get` after any history followed by `put b k v` on an existing bucket returns `v`. -/
theorem memdb_get_after_put (ops : List Op) (b k v : Nat)
    (hb : ((runState MemDB.step MemDB.init ops).has b) = true) :
    (((runState MemDB.step MemDB.init ops).step (.put b k v)).1.step (.get b k)).2
      = .val (some v) := by
  have hR := memdb_reachable_related ops
  generalize runState MemDB.step MemDB.init ops = d at *
  generalize runState Spec.step Spec.init ops = s at *
  have h1 := memdb_step_refines d s hR (.put b k v)
  have h2 := memdb_step_refines _ _ h1.2 (.get b k)
  rw [h2.1]
  have hw : (s.working b).isSome = true := by rw [hR.has b]; exact hb
  obtain ⟨m, hm⟩ := Option.isSome_iff_exists.mp hw
  exact spec_get_after_put s b k v m hm

/-- non-vacuity: a concrete non-trivial reachable state is related to its spec state and
exhibits the unflushed-iteration behaviour the pinned code got wrong. -/
example : runOuts MemDB.step MemDB.init [.create 0, .put 0 1 1, .iter 0] = [.ok, .ok, .kvs [(1, 1)]] := by
  rw [memdb_trace_eq]; decide

end Verif.C17
