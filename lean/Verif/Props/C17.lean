/-
C17 — all key-value backends behave identically, including before a flush.

Property theorems only; helper lemmas are in `Verif/Lemmas/KV.lean`, the models in
`Verif/Model/KV.lean`.  The models are tied to `/repo/chain/db.go` by the
correspondence check (`harness/c17`): every operation sequence over a small
alphabet up to the tier's length (exhaustively) and long random sequences are run
on the real MemDB / CacheDB(MemDB) / CacheDB(Bolt) / Bolt and on these definitions.

Both halves are theorems: MemDB refines Spec (`memdb_refines_spec`), and CacheDB over ANY
backend that refines Spec refines Spec (`cachedb_refines_spec`, `cache_refines`), hence
all four model backends give identical outputs on every operation list (`backends_agree`).
-/
import Verif.Lemmas.KV
import Verif.Lemmas.KVCache
import Verif.Lemmas.KVFault

namespace Verif.C17
open Verif.KV Std

/-- outputs of a whole operation sequence -/
def runOuts {σ} (step : σ → Op → σ × Out) : σ → List Op → List Out
  | _, [] => []
  | s, op :: ops => (step s op).2 :: runOuts step (step s op).1 ops

def runState {σ} (step : σ → Op → σ × Out) : σ → List Op → σ
  | s, [] => s
  | s, op :: ops => runState step (step s op).1 ops

/-- **MemDB refines the specification**: one step from related states gives the same
output and related states. -/
theorem memdb_refines_spec (d : MemDB) (s : Spec) (h : R d s) (op : Op) :
    (d.step op).2 = (s.step op).2 ∧ R (d.step op).1 (s.step op).1 :=
  memdb_step_refines d s h op

/-- hence for **every** operation sequence (any length) the real-code model of MemDB
returns exactly what the abstract map returns. -/
theorem memdb_trace_eq (ops : List Op) :
    runOuts MemDB.step MemDB.init ops = runOuts Spec.step Spec.init ops := by
  suffices h : ∀ d s, R d s → runOuts MemDB.step d ops = runOuts Spec.step s ops from
    h _ _ R_init
  induction ops with
  | nil => intros; rfl
  | cons op ops ih =>
    intro d s hR
    have h := memdb_step_refines d s hR op
    simp only [runOuts, h.1, ih _ _ h.2]

/-! ### what the specification promises (so that "refines Spec" means something) -/

/-- read-your-writes before any flush -/
theorem spec_get_after_put (s : Spec) (b k v : Nat) (m : KMap) (h : s.working b = some m) :
    ((s.step (.put b k v)).1.step (.get b k)).2 = .val (some v) := by
  simp [Spec.step, h]

/-- read-your-deletes before any flush -/
theorem spec_get_after_del (s : Spec) (b k : Nat) (m : KMap) (h : s.working b = some m) :
    ((s.step (.del b k)).1.step (.get b k)).2 = .val none := by
  simp [Spec.step, h]

/-- iteration reflects an unflushed put -/
theorem spec_iter_after_put (s : Spec) (b k v : Nat) (m : KMap) (h : s.working b = some m) :
    ((s.step (.put b k v)).1.step (.iter b)).2 = .kvs (m.insert k v) := by
  simp [Spec.step, h]

/-- flush makes the working image durable; cancel discards exactly the unflushed part -/
theorem spec_flush_durable (s : Spec) : (s.step .flush).1.durable = s.working := rfl
theorem spec_cancel_discards (s : Spec) : (s.step .cancel).1.working = s.durable := rfl
theorem spec_cancel_after_flush (s : Spec) :
    ((s.step .flush).1.step .cancel).1.working = s.working := rfl

/-- every reachable MemDB state is related to the spec state reached by the same history -/
theorem memdb_reachable_related (ops : List Op) :
    R (runState MemDB.step MemDB.init ops) (runState Spec.step Spec.init ops) := by
  suffices key : ∀ d s, R d s → R (runState MemDB.step d ops) (runState Spec.step s ops) from
    key _ _ R_init
  induction ops with
  | nil => intro d s h; exact h
  | cons op ops ih => intro d s h; exact ih _ _ (memdb_step_refines d s h op).2

/-- and therefore the MemDB model has the spec's properties on every reachable state: e.g. a
`get` after any history followed by `put b k v` on an existing bucket returns `v`. -/
theorem memdb_get_after_put (ops : List Op) (b k v : Nat)
    (hb : ((runState MemDB.step MemDB.init ops).has b) = true) :
    (((runState MemDB.step MemDB.init ops).step (.put b k v)).1.step (.get b k)).2
      = .val (some v) := by
  have hR := memdb_reachable_related ops
  generalize runState MemDB.step MemDB.init ops = d at *
  generalize runState Spec.step Spec.init ops = s at *
  have h1 := memdb_step_refines d s hR (.put b k v)
  have h2 := memdb_step_refines _ _ h1.2 (.get b k)
  rw [h2.1]
  have hw : (s.working b).isSome = true := by rw [hR.has b]; exact hb
  obtain ⟨m, hm⟩ := Option.isSome_iff_exists.mp hw
  exact spec_get_after_put s b k v m hm

/-- non-vacuity: a concrete non-trivial reachable state is related to its spec state and
exhibits the unflushed-iteration behaviour the pinned code got wrong. -/
example : runOuts MemDB.step MemDB.init [.create 0, .put 0 1 1, .iter 0] =
    [.ok, .ok, .kvs (ExtTreeMap.ofList [(1, 1)])] := by
  rw [memdb_trace_eq]; decide

/-! ### CacheDB over any refining backend -/

/-- **CacheDB over any backend that refines `Spec` refines `Spec`**: one step from related
states gives the same output and related states.  `Refines B Ri` is the one-step
simulation of the inner backend; `Rc Ri c s` says there is an inner spec state `t` with
`Ri c.inner t` such that `s` is `t` seen through the (well-formed, never flushed) overlay.
`names` — the bucket names `Flush` ranges over — may be ANY list containing the overlay's
buckets: any order (Go's map order is arbitrary), duplicates allowed. -/
theorem cachedb_refines_spec {σ} {B : Backend σ} {Ri : σ → Spec → Prop} (hB : Refines B Ri)
    (c : CacheDB σ) (s : Spec) (h : Rc Ri c s) (names : List Nat)
    (hn : ∀ b, c.mem.has b = true → b ∈ names) (op : Op) :
    (CacheDB.step B names c op).2 = (s.step op).2 ∧
      Rc Ri (CacheDB.step B names c op).1 (s.step op).1 :=
  cachedb_step_refines hB c s h names hn op

/-- the two inner backends of the model refine `Spec` -/
theorem mem_refines : Refines memBackend R := refines_mem
theorem spec_refines : Refines specBackend Eq := refines_spec

/-- compositional form, with the driver's bookkeeping of names (`CacheDB.stepN`): the cache
over a refining backend is again a refining backend (so caches can be stacked). -/
theorem cache_refines {σ} {B : Backend σ} {Ri : σ → Spec → Prop} (hB : Refines B Ri) :
    Refines (cacheBackend B) (RcN Ri) :=
  refines_cache hB

/-- the order in which `Flush` visits the buckets is irrelevant: two admissible name lists
give the same output and successors that represent the same spec state. -/
theorem cachedb_names_irrelevant {σ} {B : Backend σ} {Ri : σ → Spec → Prop} (hB : Refines B Ri)
    (c : CacheDB σ) (s : Spec) (h : Rc Ri c s) (n₁ n₂ : List Nat)
    (h₁ : ∀ b, c.mem.has b = true → b ∈ n₁) (h₂ : ∀ b, c.mem.has b = true → b ∈ n₂) (op : Op) :
    (CacheDB.step B n₁ c op).2 = (CacheDB.step B n₂ c op).2 ∧
      Rc Ri (CacheDB.step B n₁ c op).1 (s.step op).1 ∧
      Rc Ri (CacheDB.step B n₂ c op).1 (s.step op).1 := by
  have a := cachedb_step_refines hB c s h n₁ h₁ op
  have b := cachedb_step_refines hB c s h n₂ h₂ op
  exact ⟨a.1.trans b.1.symm, a.2, b.2⟩

/-- a backend that refines `Spec` gives, from related states, exactly the spec's outputs on
every operation list. -/
theorem refines_trace_eq {σ} {B : Backend σ} {Ri : σ → Spec → Prop} (hB : Refines B Ri)
    (ops : List Op) : ∀ x s, Ri x s → runOuts B.step x ops = runOuts Spec.step s ops := by
  induction ops with
  | nil => intros; rfl
  | cons op ops ih =>
    intro x s h
    have h' := hB.step x s h op
    simp only [runOuts, h'.1, ih _ _ h'.2]

/-- CacheDB over any refining backend started on a state that represents the empty spec
state returns, for **every** operation list, exactly what the abstract map returns. -/
theorem cachedb_any_trace_eq {σ} {B : Backend σ} {Ri : σ → Spec → Prop} (hB : Refines B Ri)
    (x : σ) (hx : Ri x Spec.init) (ops : List Op) :
    runOuts (CacheDB.stepN B) (CacheDB.init x) ops = runOuts Spec.step Spec.init ops :=
  refines_trace_eq (refines_cache hB) ops _ _ (RcN_init Ri x hx)

/-- in particular CacheDB over MemDB and CacheDB over Spec (the two variants the driver runs
against the real `CacheDB(MemDB)` / `CacheDB(Bolt)`). -/
theorem cachedb_trace_eq (ops : List Op) :
    runOuts (CacheDB.stepN memBackend) (CacheDB.init MemDB.init) ops
        = runOuts Spec.step Spec.init ops ∧
    runOuts (CacheDB.stepN specBackend) (CacheDB.init Spec.init) ops
        = runOuts Spec.step Spec.init ops :=
  ⟨cachedb_any_trace_eq refines_mem MemDB.init R_init ops,
   cachedb_any_trace_eq refines_spec Spec.init rfl ops⟩

/-- a cache stacked on a cache (over MemDB) still behaves like the abstract map -/
theorem cache_of_cache_trace_eq (ops : List Op) :
    runOuts (CacheDB.stepN (cacheBackend memBackend)) (CacheDB.init (CacheDB.init MemDB.init)) ops
      = runOuts Spec.step Spec.init ops :=
  cachedb_any_trace_eq (refines_cache refines_mem) _ (RcN_init R MemDB.init R_init) ops

/-- **all backends agree**: MemDB, CacheDB(MemDB), CacheDB(Spec) and Spec give identical
output sequences on every operation list, flushed or not. -/
theorem backends_agree (ops : List Op) :
    runOuts MemDB.step MemDB.init ops = runOuts Spec.step Spec.init ops ∧
    runOuts (CacheDB.stepN memBackend) (CacheDB.init MemDB.init) ops
        = runOuts Spec.step Spec.init ops ∧
    runOuts (CacheDB.stepN specBackend) (CacheDB.init Spec.init) ops
        = runOuts Spec.step Spec.init ops ∧
    runOuts (CacheDB.stepN memBackend) (CacheDB.init MemDB.init) ops
        = runOuts MemDB.step MemDB.init ops :=
  ⟨memdb_trace_eq ops, (cachedb_trace_eq ops).1, (cachedb_trace_eq ops).2,
   (cachedb_trace_eq ops).1.trans (memdb_trace_eq ops).symm⟩

/-- every reachable CacheDB state is related to the spec state reached by the same history -/
theorem cachedb_reachable_related {σ} {B : Backend σ} {Ri : σ → Spec → Prop} (hB : Refines B Ri)
    (x : σ) (hx : Ri x Spec.init) (ops : List Op) :
    RcN Ri (runState (CacheDB.stepN B) (CacheDB.init x) ops) (runState Spec.step Spec.init ops) := by
  suffices key : ∀ cn s, RcN Ri cn s →
      RcN Ri (runState (CacheDB.stepN B) cn ops) (runState Spec.step s ops) from
    key _ _ (RcN_init Ri x hx)
  induction ops with
  | nil => intro cn s h; exact h
  | cons op ops ih => intro cn s h; exact ih _ _ ((refines_cache hB).step cn s h op).2

/-- hence the spec's promises hold for the CacheDB model on every reachable state, e.g.
read-your-writes before any flush: after any history, a `put` to a bucket that exists is
seen by `get` (over MemDB). -/
theorem cachedb_get_after_put (ops : List Op) (b k v : Nat)
    (hb : ((runState Spec.step Spec.init ops).working b).isSome = true) :
    let cn := runState (CacheDB.stepN memBackend) (CacheDB.init MemDB.init) ops
    ((CacheDB.stepN memBackend (CacheDB.stepN memBackend cn (.put b k v)).1 (.get b k)).2)
      = .val (some v) := by
  intro cn
  have hR := cachedb_reachable_related refines_mem MemDB.init R_init ops
  have hc := refines_cache refines_mem
  have h1 := hc.step _ _ hR (.put b k v)
  have h2 := hc.step _ _ h1.2 (.get b k)
  obtain ⟨m, hm⟩ := Option.isSome_iff_exists.mp hb
  exact h2.1.trans (spec_get_after_put _ b k v m hm)

/-! ### non-vacuity: concrete histories, evaluated -/

/-- the hypotheses of `cachedb_refines_spec` are satisfiable: the initial states are related -/
example : Rc R (CacheDB.init MemDB.init).1 Spec.init ∧
    ∀ b, (CacheDB.init MemDB.init).1.mem.has b = true → b ∈ (CacheDB.init MemDB.init).2 :=
  ⟨(RcN_init R MemDB.init R_init).1, (RcN_init R MemDB.init R_init).2.1⟩

/-- unflushed put/delete seen by get and iter, flush with pending puts and deletes in two
buckets, cancel after flush, a rejected duplicate create and a missing bucket: the model of
CacheDB(MemDB) computes, by evaluation, these outputs ... -/
def demoOps : List Op :=
  [.create 0, .create 1, .put 0 1 10, .put 0 2 20, .put 1 5 50, .get 0 1, .iter 0,
   .flush, .del 0 1, .put 0 3 30, .put 0 2 21, .get 0 1, .iter 0, .flush, .iter 0,
   .del 1 5, .put 1 6 60, .cancel, .iter 1, .create 0, .get 7 0]

def demoOuts : List Out :=
  [.ok, .ok, .ok, .ok, .ok, .val (some 10), .kvs (ExtTreeMap.ofList [(1, 10), (2, 20)]),
   .ok, .ok, .ok, .ok, .val none, .kvs (ExtTreeMap.ofList [(2, 21), (3, 30)]), .ok,
   .kvs (ExtTreeMap.ofList [(2, 21), (3, 30)]),
   .ok, .ok, .ok, .kvs (ExtTreeMap.ofList [(5, 50)]), .err, .nobucket]

example : runOuts (CacheDB.stepN memBackend) (CacheDB.init MemDB.init) demoOps = demoOuts := by
  decide +kernel

example : runOuts (CacheDB.stepN specBackend) (CacheDB.init Spec.init) demoOps = demoOuts := by
  decide +kernel

/-- ... and they are the spec's (directly, and through the theorem) -/
example : runOuts Spec.step Spec.init demoOps = demoOuts := by decide +kernel

example : runOuts (CacheDB.stepN memBackend) (CacheDB.init MemDB.init) demoOps = demoOuts := by
  rw [(cachedb_trace_eq demoOps).1]; decide

/-- the stacked cache on the same history -/
example : runOuts (CacheDB.stepN (cacheBackend memBackend)) (CacheDB.init (CacheDB.init MemDB.init))
    demoOps = demoOuts := by decide +kernel

/-! ### the physical database fails in the middle (`Model/KVFault.lean`)

Histories may contain, anywhere, a `CreateBucket` the physical database refuses and a `Flush`
whose commit fails with the batch left pending. The specification (`Spec.stepF`) demands of every
backend: the failing call returns an error and changes NOTHING — working and durable image stay
as they are, every later operation answers as if the failing call had not been made. -/

def runOutsF {σ} (step : σ → FOp → σ × Out) : σ → List FOp → List Out
  | _, [] => []
  | s, op :: ops => (step s op).2 :: runOutsF step (step s op).1 ops

theorem refinesF_trace_eq {σ} {B : BackendF σ} {Ri : σ → Spec → Prop} (hB : RefinesF B Ri)
    (ops : List FOp) : ∀ x s, Ri x s → runOutsF B.step x ops = runOutsF Spec.stepF s ops := by
  induction ops with
  | nil => intros; rfl
  | cons op ops ih =>
    intro x s h
    have h' := hB.step x s h op
    simp only [runOutsF, h'.1, ih _ _ h'.2]

/-- **all backends agree under failures of the physical database**: MemDB behind a failing
database, CacheDB over it, CacheDB over a failing abstract map, and a cache stacked on a cache
return, on EVERY history with failing calls anywhere, exactly what the specification returns -/
theorem backends_agree_under_faults (ops : List FOp) :
    runOutsF MemDB.stepF MemDB.init ops = runOutsF Spec.stepF Spec.init ops ∧
    runOutsF (CacheDB.stepNF memBackendF) (CacheDB.init MemDB.init) ops = runOutsF Spec.stepF Spec.init ops ∧
    runOutsF (CacheDB.stepNF specBackendF) (CacheDB.init Spec.init) ops = runOutsF Spec.stepF Spec.init ops ∧
    runOutsF (CacheDB.stepNF (cacheBackendF memBackendF)) (CacheDB.init (CacheDB.init MemDB.init)) ops
      = runOutsF Spec.stepF Spec.init ops :=
  ⟨refinesF_trace_eq refinesF_mem ops _ _ R_init,
   refinesF_trace_eq (refinesF_cache refinesF_mem) ops _ _ (RcN_init R MemDB.init R_init),
   refinesF_trace_eq (refinesF_cache refinesF_spec) ops _ _ (RcN_init Eq Spec.init rfl),
   refinesF_trace_eq (refinesF_cache (refinesF_cache refinesF_mem)) ops _ _
     (RcN_init (RcN R) _ (RcN_init R MemDB.init R_init))⟩

/-- without failing calls the extended machines ARE the machines of `backends_agree` -/
theorem stepF_op_eq (o : Op) (d : MemDB) (s : Spec) (cn : CacheDB MemDB × List Nat) :
    MemDB.stepF d (.op o) = MemDB.step d o ∧ Spec.stepF s (.op o) = Spec.step s o ∧
    CacheDB.stepNF memBackendF cn (.op o) = CacheDB.stepN memBackend cn o := ⟨rfl, rfl, rfl⟩

/-- the seeded "ask the overlay first" variant of `CacheDB.CreateBucket`: a refused creation
leaves the bucket registered in the overlay, so the retry fails although the specification (and
the raw backend) accepts it -/
def createOverlayFirst {σ} (B : BackendF σ) (c : CacheDB σ) (b : Nat) (fails : Bool) : CacheDB σ × Out :=
  match c.mem.create b with
  | none => (c, .err)
  | some m =>
    let c' : CacheDB σ := { c with mem := m }
    match B.step c'.inner (if fails then .failCreate b else .op (.create b)) with
    | (s', .ok) => ({ c' with inner := s' }, .ok)
    | (s', _) => ({ c' with inner := s' }, .err)

example :
    -- the code: refused, then accepted
    runOutsF (CacheDB.stepNF memBackendF) (CacheDB.init MemDB.init) [.failCreate 0, .op (.create 0)] = [.err, .ok] ∧
    runOutsF Spec.stepF Spec.init [.failCreate 0, .op (.create 0)] = [.err, .ok] ∧
    -- the variant: refused, then refused again
    (createOverlayFirst memBackendF (createOverlayFirst memBackendF (CacheDB.init MemDB.init).1 0 true).1 0 false).2 = .err := by
  decide +kernel

/-- non-vacuity: a history with both kinds of failure, evaluated on the CacheDB(MemDB) model and
on the specification: the failed flush loses nothing and commits nothing (the `cancel` after it
returns to the last successful flush), the refused creation can be retried -/
def demoOpsF : List FOp :=
  [.failCreate 0, .op (.create 0), .op (.put 0 1 10), .op .flush, .op (.put 0 2 20), .op (.del 0 1),
   .failFlush, .op (.iter 0), .op .cancel, .op (.iter 0), .op (.put 0 3 30), .failFlush, .op .flush,
   .op .cancel, .op (.iter 0)]

def demoOutsF : List Out :=
  [.err, .ok, .ok, .ok, .ok, .ok, .err, .kvs (ExtTreeMap.ofList [(2, 20)]), .ok,
   .kvs (ExtTreeMap.ofList [(1, 10)]), .ok, .err, .ok, .ok, .kvs (ExtTreeMap.ofList [(1, 10), (3, 30)])]

example : runOutsF (CacheDB.stepNF memBackendF) (CacheDB.init MemDB.init) demoOpsF = demoOutsF := by
  decide +kernel

example : runOutsF Spec.stepF Spec.init demoOpsF = demoOutsF := by decide +kernel

end Verif.C17
