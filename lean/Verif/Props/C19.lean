/-
C19 — pruning removes only old block bodies and never breaks the node.

Theorems about `prune` (`Manager.PruneBlocks`, as repaired: the height is clamped to tip+1) and
about resubmission of pruned blocks (`AddBlocks`, as repaired: a pruned block is skipped) in the
model `Verif/Model/Chain.lean`.  Tied to the code by `harness/c19`.
-/
import Verif.Lemmas.Prune
import Verif.Props.C01
import Verif.Props.C04

namespace Verif.C19
open Verif.Chain

/-- **PruneBlocks removes nothing but bodies (and supplements) of best-chain blocks below the
height**: best chain, states and notification count are untouched, every record stays present
(so every header stays served), and a record changes only by becoming header-only, only for a
block that sits on the best chain below `min height (tip+1)`. -/
theorem prune_only_bodies (m : Mgr) (height : Nat) :
    (prune m height).best = m.best ∧ (prune m height).states = m.states ∧
    (prune m height).notified = m.notified ∧
    ∀ i, (prune m height).recs i = m.recs i ∨
      ((prune m height).recs i = some ⟨false, false⟩ ∧ (m.recs i).isSome = true ∧
        ∃ k, k < height ∧ k ≤ m.tipHeight ∧ m.bestAt k = some i) := by
  obtain ⟨h1, h2, h3, h4⟩ := prune_go_spec (min height (m.tipHeight + 1)) m
  refine ⟨h1, h2, h3, fun i => ?_⟩
  rcases h4 i with e | ⟨e1, e2, k, hk, e3⟩
  · exact Or.inl e
  · exact Or.inr ⟨e1, e2, k, by omega, by omega, e3⟩

/-- hence tip, best index at every height, header presence, states and the history sample are
exactly as before -/
theorem prune_keeps_queries (m : Mgr) (height : Nat) :
    (prune m height).tip = m.tip ∧
    (∀ k, (prune m height).bestAt k = m.bestAt k) ∧
    (∀ i, (prune m height).header i = m.header i) ∧
    (∀ i, (prune m height).states i = m.states i) ∧
    history (prune m height) = history m := by
  obtain ⟨h1, h2, _, h4⟩ := prune_only_bodies m height
  have hb : ∀ k, (prune m height).bestAt k = m.bestAt k := by
    intro k; simp [Mgr.bestAt, h1]
  refine ⟨by simp [Mgr.tip, h1], hb, ?_, fun i => by rw [h2], ?_⟩
  · intro i
    rcases h4 i with e | ⟨e1, e2, _⟩
    · simp [Mgr.header, e]
    · simp [Mgr.header, e1, e2]
  · simp [history, hb, Mgr.tipHeight, h1]

/-- only best-chain blocks lose their body -/
theorem prune_only_best_chain (m : Mgr) (height : Nat) (i : Nat) (hi : i ∉ m.best) :
    (prune m height).recs i = m.recs i := by
  rcases (prune_only_bodies m height).2.2.2 i with e | ⟨_, _, k, _, _, e3⟩
  · exact e
  · exact absurd (bestAt_mem e3) hi

/-- a block that was stored with a body keeps being served as long as it is not a best-chain block
below the height -/
theorem prune_keeps_other_bodies (m : Mgr) (height : Nat) (i : Nat)
    (h : ∀ k, k < height → m.bestAt k ≠ some i) :
    (prune m height).block i = m.block i := by
  rcases (prune_only_bodies m height).2.2.2 i with e | ⟨_, _, k, hk, _, e3⟩
  · simp [Mgr.block, e]
  · exact absurd e3 (h k hk)

/-- **on a node that has not pruned yet, `PruneBlocks(height)` removes exactly the bodies of the
best-chain blocks below `min height (tip+1)`** — in every state reachable by block submissions,
for every height (also beyond the tip): the block at best height `k` has no body afterwards iff
`k < height`. -/
theorem prune_exact {U} (hU : WFU U) (hist : List (List Nat)) (height k : Nat)
    (hk : k ≤ (C01.run U Mgr.init hist).tipHeight) :
    ∃ i, (C01.run U Mgr.init hist).bestAt k = some i ∧
      (((prune (C01.run U Mgr.init hist) height).block i = none) ↔ k < height) := by
  have hinv := C01.inv_reachable hU hist
  generalize C01.run U Mgr.init hist = m at *
  have hlen : m.best.length ≠ 0 := by have := hinv.chain.ne_nil; simpa using this
  have hkl : k < m.best.length := by simp [Mgr.tipHeight] at hk; omega
  have hex : ∃ i, m.bestAt k = some i := by
    unfold Mgr.bestAt; rw [if_pos hkl]; exact ⟨_, List.getElem?_eq_getElem (by omega)⟩
  obtain ⟨i, hi⟩ := hex
  refine ⟨i, hi, ?_⟩
  have hbody : (m.block i).isSome = true := by
    have := hinv.bestsupp i (bestAt_mem hi); simp [Mgr.block, this]
  constructor
  · intro hnone
    by_cases hlt : k < height
    · exact hlt
    · have := prune_keeps_other_bodies m height i (fun k' hk' e => by
        have := bestAt_inj hinv.nodup e hi; omega)
      rw [this] at hnone; simp [hnone] at hbody
  · intro hlt
    have hall := prune_go_all (min height (m.tipHeight + 1)) m hinv.nodup (by simp [Mgr.tipHeight]; omega)
      (fun k' _ j hj => by have := hinv.bestsupp j (bestAt_mem hj); simp [Mgr.block, this])
      k (by simp [Mgr.tipHeight] at hk ⊢; omega) i hi
    simp [prune, Mgr.block, hall]

/-- **resubmitting a pruned block is a no-op**: the per-block loop of `AddBlocks` skips a block
whose header is stored without a body (it does not store it again without its supplement) -/
theorem resubmit_pruned_skipped (U : Nat → Blk) (m : Mgr) (b cs : Nat) (rest : List Nat)
    (hp : m.recs b = some ⟨false, false⟩) :
    addBlocks.go U (b :: rest) m cs = addBlocks.go U rest m b := by
  have h1 : m.block b = none := by simp [Mgr.block, hp]
  have h2 : m.header b = true := by simp [Mgr.header, hp]
  rw [addBlocks.go]
  simp [h1, h2]

/-- a batch consisting only of pruned blocks changes nothing and does not move the tip when the
last of them is not sufficiently heavier -/
theorem resubmit_pruned_batch_noop (U : Nat → Blk) (m : Mgr) (batch : List Nat) (cs : Nat)
    (hp : ∀ b ∈ batch, m.recs b = some ⟨false, false⟩) :
    (addBlocks.go U batch m cs).1 = m ∧ (addBlocks.go U batch m cs).2.1 = none := by
  induction batch generalizing cs with
  | nil => simp [addBlocks.go]
  | cons b bs ih =>
    rw [resubmit_pruned_skipped U m b cs bs (hp b (by simp))]
    exact ih b (fun x hx => hp x (List.mem_cons_of_mem _ hx))

/-- an operation of a node that prunes: a block submission or a prune -/
inductive NodeOp where
  | add (batch : List Nat)
  | prune (height : Nat)

def stepOp (U : Nat → Blk) (m : Mgr) : NodeOp → Mgr
  | .add batch => (addBlocks U m batch).1
  | .prune h => prune m h

def runOps (U : Nat → Blk) : Mgr → List NodeOp → Mgr
  | m, [] => m
  | m, op :: ops => runOps U (stepOp U m op) ops

/-- the pruning-tolerant invariant holds after any interleaving of submissions and prunes -/
theorem winv_reachable {U} (hU : WFU U) (ops : List NodeOp) : WInv U (runOps U Mgr.init ops) := by
  suffices h : ∀ m, WInv U m → WInv U (runOps U m ops) from h _ (inv_init hU).toWInv
  induction ops with
  | nil => intro m h; exact h
  | cons op ops ih =>
    intro m h
    apply ih
    cases op with
    | add batch => exact (addBlocks_w hU h batch).1
    | prune height => exact prune_w h height

/-- **never a panic**: after any interleaving of block submissions (valid, invalid, forks above,
at or below the pruned height, resubmission of pruned blocks) and prunes at any heights, the next
`AddBlocks` returns normally — with a result or an error, never the nil-supplement dereference
or the non-attaching-block panic -/
theorem never_panics_with_pruning {U} (hU : WFU U) (ops : List NodeOp) (batch : List Nat) :
    (addBlocks U (runOps U Mgr.init ops) batch).2 ≠ some .panic :=
  (addBlocks_w hU (winv_reachable hU ops) batch).2

/-- and the best chain stays parent-linked from genesis with every block either fully stored or
pruned to its header (never a body without its supplement) -/
theorem best_chain_wellformed_with_pruning {U} (hU : WFU U) (ops : List NodeOp) :
    Chain U (runOps U Mgr.init ops).best ∧
    ∀ i ∈ (runOps U Mgr.init ops).best,
      (runOps U Mgr.init ops).recs i = some ⟨true, true⟩ ∨ (runOps U Mgr.init ops).recs i = some ⟨false, false⟩ :=
  ⟨(winv_reachable hU ops).chain, (winv_reachable hU ops).bestrec⟩

/-- TARGET (not yet proved): with pruning a failed reorg is still always rolled back, i.e.
`rollbackFailed` is unreachable as well.  The argument needs the minimality of the meeting point
`reorgPath` finds (the rollback re-applies exactly the blocks the failed attempt reverted, which
all still have bodies); today this is checked by the correspondence/oracle of `harness/c19` only. -/
def rollback_never_fails_with_pruning_full : Prop :=
  ∀ (U : Nat → Blk), WFU U → ∀ (ops : List NodeOp) (batch : List Nat),
    (addBlocks U (runOps U Mgr.init ops) batch).2 ≠ some .rollbackFailed

/-! ### non-vacuity -/

-- a fork point at the pruned height still works
example : (runOps C04.Ure Mgr.init [.add [1, 2], .prune 2, .add [1], .add [3, 4]]).best = [4, 3, 1, 0] := by decide
-- prune below the fork, resubmit the pruned blocks, then reorg below them: an error, not a panic
example : (addBlocks C04.Ure (runOps C04.Ure Mgr.init [.add [1, 2], .prune 3, .add [1]]) [3, 4]).2 = some .reorgFailed := by decide
example : (runOps C04.Ure Mgr.init [.add [1, 2], .prune 3, .add [1], .add [3, 4]]).best = [2, 1, 0] := by decide


example : (prune (C01.run C01.Uex Mgr.init [[1, 2], [6]]) 2).block 1 = none := by decide
example : (prune (C01.run C01.Uex Mgr.init [[1, 2], [6]]) 2).block 2 = some true := by decide
example : (prune (C01.run C01.Uex Mgr.init [[1, 2], [6]]) 100).block 6 = none := by decide
example : minReorgIndex (prune (C01.run C01.Uex Mgr.init [[1, 2], [6]]) 2) = 2 := by decide

end Verif.C19
