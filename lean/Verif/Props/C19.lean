/-
C19 — pruning removes only old block bodies and never breaks the node.

Theorems about `prune` (`Manager.PruneBlocks`, as repaired: the height is clamped to tip+1) and
about resubmission of pruned blocks (`AddBlocks`, as repaired: a pruned block is skipped) in the
model `Verif/Model/Chain.lean`; the pruned-node invariant `PInv` over any interleaving of
submissions and prunes (a failed reorg is always rolled back, errors change nothing); the
simulation of the unpruned node (`pruned_simulates_unpruned`).  Tied to the code by `harness/c19`.
-/
import Verif.Lemmas.Prune
import Verif.Lemmas.PruneSim
import Verif.Lemmas.UpdatesPruned
import Verif.Props.C01
import Verif.Props.C04

namespace Verif.C19
open Verif.Chain

/-- **PruneBlocks removes nothing but bodies (and supplements) of best-chain blocks below the
height**: best chain, states and notification count are untouched, every record stays present
(so every header stays served), and a record changes only by becoming header-only, only for a
block that sits on the best chain below `min height (tip+1)`. -/
theorem prune_only_bodies (m : Mgr) (height : Nat) :
    (prune m height).best = m.best ∧ (prune m height).states = m.states ∧
    (prune m height).notified = m.notified ∧
    ∀ i, (prune m height).recs i = m.recs i ∨
      ((prune m height).recs i = some ⟨false, false⟩ ∧ (m.recs i).isSome = true ∧
        ∃ k, k < height ∧ k ≤ m.tipHeight ∧ m.bestAt k = some i) := by
  obtain ⟨h1, h2, h3, h4⟩ := prune_go_spec (min height (m.tipHeight + 1)) m
  refine ⟨h1, h2, h3, fun i => ?_⟩
  rcases h4 i with e | ⟨e1, e2, k, hk, e3⟩
  · exact Or.inl e
  · exact Or.inr ⟨e1, e2, k, by omega, by omega, e3⟩

/-- hence tip, best index at every height, header presence, states and the history sample are
exactly as before -/
theorem prune_keeps_queries (m : Mgr) (height : Nat) :
    (prune m height).tip = m.tip ∧
    (∀ k, (prune m height).bestAt k = m.bestAt k) ∧
    (∀ i, (prune m height).header i = m.header i) ∧
    (∀ i, (prune m height).states i = m.states i) ∧
    history (prune m height) = history m := by
  obtain ⟨h1, h2, _, h4⟩ := prune_only_bodies m height
  have hb : ∀ k, (prune m height).bestAt k = m.bestAt k := by
    intro k; simp [Mgr.bestAt, h1]
  refine ⟨by simp [Mgr.tip, h1], hb, ?_, fun i => by rw [h2], ?_⟩
  · intro i
    rcases h4 i with e | ⟨e1, e2, _⟩
    · simp [Mgr.header, e]
    · simp [Mgr.header, e1, e2]
  · simp [history, hb, Mgr.tipHeight, h1]

/-- only best-chain blocks lose their body -/
theorem prune_only_best_chain (m : Mgr) (height : Nat) (i : Nat) (hi : i ∉ m.best) :
    (prune m height).recs i = m.recs i := by
  rcases (prune_only_bodies m height).2.2.2 i with e | ⟨_, _, k, _, _, e3⟩
  · exact e
  · exact absurd (bestAt_mem e3) hi

/-- a block that was stored with a body keeps being served as long as it is not a best-chain block
below the height -/
theorem prune_keeps_other_bodies (m : Mgr) (height : Nat) (i : Nat)
    (h : ∀ k, k < height → m.bestAt k ≠ some i) :
    (prune m height).block i = m.block i := by
  rcases (prune_only_bodies m height).2.2.2 i with e | ⟨_, _, k, hk, _, e3⟩
  · simp [Mgr.block, e]
  · exact absurd e3 (h k hk)

/-- **on a node that has not pruned yet, `PruneBlocks(height)` removes exactly the bodies of the
best-chain blocks below `min height (tip+1)`** — in every state reachable by block submissions,
for every height (also beyond the tip): the block at best height `k` has no body afterwards iff
`k < height`. -/
theorem prune_exact {U} (hU : WFU U) (hist : List (List Nat)) (height k : Nat)
    (hk : k ≤ (C01.run U Mgr.init hist).tipHeight) :
    ∃ i, (C01.run U Mgr.init hist).bestAt k = some i ∧
      (((prune (C01.run U Mgr.init hist) height).block i = none) ↔ k < height) := by
  have hinv := C01.inv_reachable hU hist
  generalize C01.run U Mgr.init hist = m at *
  have hlen : m.best.length ≠ 0 := by have := hinv.chain.ne_nil; simpa using this
  have hkl : k < m.best.length := by simp [Mgr.tipHeight] at hk; omega
  have hex : ∃ i, m.bestAt k = some i := by
    unfold Mgr.bestAt; rw [if_pos hkl]; exact ⟨_, List.getElem?_eq_getElem (by omega)⟩
  obtain ⟨i, hi⟩ := hex
  refine ⟨i, hi, ?_⟩
  have hbody : (m.block i).isSome = true := by
    have := hinv.bestsupp i (bestAt_mem hi); simp [Mgr.block, this]
  constructor
  · intro hnone
    by_cases hlt : k < height
    · exact hlt
    · have := prune_keeps_other_bodies m height i (fun k' hk' e => by
        have := bestAt_inj hinv.nodup e hi; omega)
      rw [this] at hnone; simp [hnone] at hbody
  · intro hlt
    have hall := prune_go_all (min height (m.tipHeight + 1)) m hinv.nodup (by simp [Mgr.tipHeight]; omega)
      (fun k' _ j hj => by have := hinv.bestsupp j (bestAt_mem hj); simp [Mgr.block, this])
      k (by simp [Mgr.tipHeight] at hk ⊢; omega) i hi
    simp [prune, Mgr.block, hall]

/-- **resubmitting a pruned block is a no-op**: the per-block loop of `AddBlocks` skips a block
whose header is stored without a body (it does not store it again without its supplement) -/
theorem resubmit_pruned_skipped (U : Nat → Blk) (m : Mgr) (b cs : Nat) (rest : List Nat)
    (hp : m.recs b = some ⟨false, false⟩) :
    addBlocks.go U (b :: rest) m cs = addBlocks.go U rest m b := by
  have h1 : m.block b = none := by simp [Mgr.block, hp]
  have h2 : m.header b = true := by simp [Mgr.header, hp]
  rw [addBlocks.go]
  simp [h1, h2]

/-- a batch consisting only of pruned blocks changes nothing and does not move the tip when the
last of them is not sufficiently heavier -/
theorem resubmit_pruned_batch_noop (U : Nat → Blk) (m : Mgr) (batch : List Nat) (cs : Nat)
    (hp : ∀ b ∈ batch, m.recs b = some ⟨false, false⟩) :
    (addBlocks.go U batch m cs).1 = m ∧ (addBlocks.go U batch m cs).2.1 = none := by
  induction batch generalizing cs with
  | nil => simp [addBlocks.go]
  | cons b bs ih =>
    rw [resubmit_pruned_skipped U m b cs bs (hp b (by simp))]
    exact ih b (fun x hx => hp x (List.mem_cons_of_mem _ hx))

/-- an operation of a node that prunes: a block submission or a prune -/
inductive NodeOp where
  | add (batch : List Nat)
  | prune (height : Nat)

def stepOp (U : Nat → Blk) (m : Mgr) : NodeOp → Mgr
  | .add batch => (addBlocks U m batch).1
  | .prune h => prune m h

def runOps (U : Nat → Blk) : Mgr → List NodeOp → Mgr
  | m, [] => m
  | m, op :: ops => runOps U (stepOp U m op) ops

/-- the pruning-tolerant invariant holds after any interleaving of submissions and prunes -/
theorem winv_reachable {U} (hU : WFU U) (ops : List NodeOp) : WInv U (runOps U Mgr.init ops) := by
  suffices h : ∀ m, WInv U m → WInv U (runOps U m ops) from h _ (inv_init hU).toWInv
  induction ops with
  | nil => intro m h; exact h
  | cons op ops ih =>
    intro m h
    apply ih
    cases op with
    | add batch => exact (addBlocks_w hU h batch).1
    | prune height => exact prune_w h height

/-- **never a panic**: after any interleaving of block submissions (valid, invalid, forks above,
at or below the pruned height, resubmission of pruned blocks) and prunes at any heights, the next
`AddBlocks` returns normally — with a result or an error, never the nil-supplement dereference
or the non-attaching-block panic -/
theorem never_panics_with_pruning {U} (hU : WFU U) (ops : List NodeOp) (batch : List Nat) :
    (addBlocks U (runOps U Mgr.init ops) batch).2 ≠ some .panic :=
  (addBlocks_w hU (winv_reachable hU ops) batch).2

/-- and the best chain stays parent-linked from genesis with every block either fully stored or
pruned to its header (never a body without its supplement) -/
theorem best_chain_wellformed_with_pruning {U} (hU : WFU U) (ops : List NodeOp) :
    Chain U (runOps U Mgr.init ops).best ∧
    ∀ i ∈ (runOps U Mgr.init ops).best,
      (runOps U Mgr.init ops).recs i = some ⟨true, true⟩ ∨ (runOps U Mgr.init ops).recs i = some ⟨false, false⟩ :=
  ⟨(winv_reachable hU ops).chain, (winv_reachable hU ops).bestrec⟩

/-! ### the pruned-node invariant `PInv` and the rollback of failed reorgs -/

/-- the pruning frontier after a run: `PruneBlocks(h)` lifts it to `max p (min h (tip+1))`, block
submissions leave it where it is -/
def frontierOps (U : Nat → Blk) : Mgr → Nat → List NodeOp → Nat
  | _, p, [] => p
  | m, p, .add batch :: ops => frontierOps U (addBlocks U m batch).1 p ops
  | m, p, .prune h :: ops => frontierOps U (prune m h) (max p (min h m.best.length)) ops

/-- the frontier of a node started from genesis -/
def frontier (U : Nat → Blk) (ops : List NodeOp) : Nat := frontierOps U Mgr.init 0 ops

/-- **the pruned-node invariant holds after any interleaving of submissions and prunes**, with the
frontier computed by `frontierOps`: the best-chain block at height `k` is header-only iff `k` is
below the frontier and fully stored (body + supplement) otherwise, every other record has a
body, a stored supplement means a validated body, the frontier is at most `tip height + 1` -/
theorem pinv_reachable {U} (hU : WFU U) (ops : List NodeOp) :
    PInv U (runOps U Mgr.init ops) (frontier U ops) := by
  suffices h : ∀ m p, PInv U m p → PInv U (runOps U m ops) (frontierOps U m p ops) from
    h _ _ (inv_init hU).toPInv
  induction ops with
  | nil => intro m p h; exact h
  | cons op ops ih =>
    intro m p h
    cases op with
    | add batch => exact ih _ _ (addBlocks_p hU h batch).1
    | prune height => exact ih _ _ (prune_p h height)

/-- an unpruned node satisfies the invariant with frontier 0 -/
theorem pinv_of_unpruned {U} (hU : WFU U) (hist : List (List Nat)) :
    PInv U (C01.run U Mgr.init hist) 0 := (C01.inv_reachable hU hist).toPInv

/-- **exactly the best-chain blocks below the frontier have lost their body**, in every reachable
state of a pruning node; and the frontier never passes the tip -/
theorem frontier_exact {U} (hU : WFU U) (ops : List NodeOp) (k i : Nat)
    (hk : (runOps U Mgr.init ops).bestAt k = some i) :
    (((runOps U Mgr.init ops).block i = none) ↔ k < frontier U ops) ∧
    (((runOps U Mgr.init ops).block i = some true) ↔ frontier U ops ≤ k) ∧
    frontier U ops ≤ (runOps U Mgr.init ops).tipHeight + 1 := by
  have h := pinv_reachable hU ops
  obtain ⟨r1, r2, _⟩ := h.bestAt_rec hk
  have hf := h.frontier
  have hlen : (runOps U Mgr.init ops).best.length ≠ 0 := by have := h.chain.ne_nil; simpa using this
  refine ⟨⟨?_, fun hlt => by simp [Mgr.block, r1 hlt]⟩, ⟨?_, fun hle => by simp [Mgr.block, r2 hle]⟩, by simp [Mgr.tipHeight]; omega⟩
  · intro hnone
    apply Nat.lt_of_not_le
    intro hle
    simp [Mgr.block, r2 hle] at hnone
  · intro hsome
    apply Nat.le_of_not_lt
    intro hlt
    simp [Mgr.block, r1 hlt] at hsome

/-- **`MinReorgIndex` reports the frontier**: it is the best-chain block at height
`min tipHeight frontier` -/
theorem minReorgIndex_is_frontier {U} (hU : WFU U) (ops : List NodeOp) :
    (runOps U Mgr.init ops).bestAt (min (runOps U Mgr.init ops).tipHeight (frontier U ops)) =
      some (minReorgIndex (runOps U Mgr.init ops)) ∧
    (U (minReorgIndex (runOps U Mgr.init ops))).height =
      min (runOps U Mgr.init ops).tipHeight (frontier U ops) :=
  minReorgIndex_p (pinv_reachable hU ops)

/-- **`reorgPath` meets at the first common ancestor** (restated from the lemma file so that it is
audited with the property): `na = da + n`, `nb = db + n`, one of `da`, `db` is 0, both pointers are
at the same height after phases 1/2, and all `n` pairs visited in phase 3 before the meeting
differ; hence no common ancestor is reachable with fewer steps.  Holds on pruned nodes too
(`reorgPath` reads headers only). -/
theorem reorgPath_minimal {U} (hU : WFU U) (ops : List NodeOp) {a b : Nat}
    (ha : (runOps U Mgr.init ops).states a = true) (hb : (runOps U Mgr.init ops).states b = true) :
    ∃ na nb, na ≤ (U a).height ∧ nb ≤ (U b).height ∧
      reorgPath U (runOps U Mgr.init ops) a b none =
        .ok ((List.range na).map (fun k => anc U k a), ((List.range nb).map (fun k => anc U k b)).reverse) ∧
      anc U na a = anc U nb b ∧
      (∃ da db n, na = da + n ∧ nb = db + n ∧ (da = 0 ∨ db = 0) ∧
        (U a).height - da = (U b).height - db ∧ ∀ k, k < n → anc U (da + k) a ≠ anc U (db + k) b) ∧
      ∀ i k, i ≤ (U a).height → k ≤ (U b).height → anc U i a = anc U k b → na ≤ i ∧ nb ≤ k := by
  have hc := (pinv_reachable hU ops).core
  obtain ⟨na, nb, h1, h2, h3, h4, h5⟩ := reorgPath_spec_min hc ha hb
  obtain ⟨na', nb', _, _, h3', _, _, h6⟩ := reorgPath_least hc ha hb
  have e : na' = na ∧ nb' = nb := by
    rw [h3] at h3'
    have e := Except.ok.inj h3'
    have e1 := congrArg (fun x => x.1.length) e
    have e2 := congrArg (fun x => x.2.length) e
    simp at e1 e2
    omega
  obtain ⟨rfl, rfl⟩ := e
  exact ⟨na', nb', h1, h2, h3, h4, h5, h6⟩

/-- **with pruning a failed reorg is still always rolled back**: after any interleaving of block
submissions and prunes, `AddBlocks` never answers "failed to revert failed reorg".  (A failed
attempt — a pruned body among the blocks to revert, an invalid block among those to apply —
leaves the manager on a tip that shares with the old best chain everything below some block of
it; the rollback's `reorgPath` is minimal, so the rollback reverts only freshly applied blocks and
re-applies only blocks the attempt had reverted, all still fully stored.) -/
theorem rollback_never_fails_with_pruning {U} (hU : WFU U) (ops : List NodeOp) (batch : List Nat) :
    (addBlocks U (runOps U Mgr.init ops) batch).2 ≠ some .rollbackFailed := by
  obtain ⟨_, _, h⟩ := addBlocks_p hU (pinv_reachable hU ops) batch
  rcases h with ⟨h, _⟩ | ⟨h | h | h | h, _⟩ <;> simp [h]

/-- the possible answers of `AddBlocks` on a pruning node -/
theorem addBlocks_results_with_pruning {U} (hU : WFU U) (ops : List NodeOp) (batch : List Nat) :
    (addBlocks U (runOps U Mgr.init ops) batch).2 = none ∨
    (addBlocks U (runOps U Mgr.init ops) batch).2 = some .missingParent ∨
    (addBlocks U (runOps U Mgr.init ops) batch).2 = some .future ∨
    (addBlocks U (runOps U Mgr.init ops) batch).2 = some .invalidHeader ∨
    (addBlocks U (runOps U Mgr.init ops) batch).2 = some .reorgFailed := by
  obtain ⟨_, _, h⟩ := addBlocks_p hU (pinv_reachable hU ops) batch
  rcases h with ⟨h, _⟩ | ⟨h | h | h | h, _⟩ <;> simp [h]

/-- **every error leaves the chain exactly as it was**, also on a pruning node: same best chain
(hence tip and every best-chain query), no notification -/
theorem error_rolls_back_with_pruning {U} (hU : WFU U) (ops : List NodeOp) (batch : List Nat)
    (he : (addBlocks U (runOps U Mgr.init ops) batch).2 ≠ none) :
    (addBlocks U (runOps U Mgr.init ops) batch).1.best = (runOps U Mgr.init ops).best ∧
    (addBlocks U (runOps U Mgr.init ops) batch).1.notified = (runOps U Mgr.init ops).notified := by
  obtain ⟨_, _, h⟩ := addBlocks_p hU (pinv_reachable hU ops) batch
  rcases h with ⟨h, _⟩ | ⟨_, h⟩
  · exact absurd h he
  · exact h

/-- **the tip moves only to a sufficiently heavier chain**, with exactly one notification -/
theorem tip_moves_only_if_heavier_with_pruning {U} (hU : WFU U) (ops : List NodeOp) (batch : List Nat) :
    let m := runOps U Mgr.init ops
    let m' := (addBlocks U m batch).1
    (m'.tip ≠ m.tip → heavier U m'.tip m.tip = true ∧ m'.notified = m.notified + 1) ∧
    (m'.tip = m.tip → m'.notified = m.notified) := by
  intro m m'
  obtain ⟨_, _, h⟩ := addBlocks_p hU (pinv_reachable hU ops) batch
  have same : ∀ {x : Mgr}, x.best = m.best → x.tip = m.tip := by intro x hx; simp [Mgr.tip, hx]
  rcases h with ⟨_, ⟨hb, hn⟩ | ⟨hh, hn⟩⟩ | ⟨_, hb, hn⟩
  · exact ⟨fun hne => absurd (same hb) hne, fun _ => hn⟩
  · exact ⟨fun _ => ⟨hh, hn⟩, fun he => absurd he (C01.heavier_ne hh)⟩
  · exact ⟨fun hne => absurd (same hb) hne, fun _ => hn⟩

/-- **every best-chain block at or above the frontier is stored completely and valid** (header,
body, not from the future); best chain parent-linked from genesis -/
theorem best_chain_valid_above_frontier {U} (hU : WFU U) (ops : List NodeOp) :
    Chain U (runOps U Mgr.init ops).best ∧
    ∀ i ∈ (runOps U Mgr.init ops).best, frontier U ops ≤ (U i).height →
      (runOps U Mgr.init ops).recs i = some ⟨true, true⟩ ∧
      (i ≠ 0 → (U i).hdrOk = true ∧ (U i).bodyOk = true ∧ (U i).future = false) := by
  have h := pinv_reachable hU ops
  refine ⟨h.chain, fun i hi hle => ?_⟩
  have hs := h.stored i hi hle
  refine ⟨hs, fun hne => ?_⟩
  have hv := h.validHdr i hne (h.recstate i _ hs)
  exact ⟨hv.1, h.valid i hne hs, hv.2⟩

/-- **a reorg that needs a pruned body fails with an error and changes nothing**: when the fork
point of the path towards the submitted chain lies more than one block below the frontier, the
reorg step of `AddBlocks` answers `reorgFailed` and best chain and notifications stay -/
theorem deep_reorg_fails_cleanly {U} (hU : WFU U) (ops : List NodeOp) {cs na nb : Nat}
    (hcs : (runOps U Mgr.init ops).states cs = true)
    (hh : heavier U cs (runOps U Mgr.init ops).tip = true)
    (hna : na ≤ (U (runOps U Mgr.init ops).tip).height)
    (hpath : reorgPath U (runOps U Mgr.init ops) (runOps U Mgr.init ops).tip cs none =
      .ok ((List.range na).map (fun k => anc U k (runOps U Mgr.init ops).tip),
        ((List.range nb).map (fun k => anc U k cs)).reverse))
    (hdeep : (U (anc U na (runOps U Mgr.init ops).tip)).height + 1 < frontier U ops) :
    (maybeReorg U (runOps U Mgr.init ops) cs).2 = some .reorgFailed ∧
    (maybeReorg U (runOps U Mgr.init ops) cs).1.best = (runOps U Mgr.init ops).best ∧
    (maybeReorg U (runOps U Mgr.init ops) cs).1.notified = (runOps U Mgr.init ops).notified :=
  maybeReorg_deep (pinv_reachable hU ops) hcs hh hna hpath hdeep

/-! ### simulation: a pruned node behaves like the unpruned node that saw the same submissions -/

/-- pruning an unpruned node any number of times gives a pruned copy of it -/
def pruneAll : Mgr → List Nat → Mgr
  | m, [] => m
  | m, h :: hs => pruneAll (prune m h) hs

def frontierAll : Mgr → Nat → List Nat → Nat
  | _, p, [] => p
  | m, p, h :: hs => frontierAll (prune m h) (max p (min h m.best.length)) hs

/-- **`Sim` is reachable**: after any history of submissions, any sequence of prunes yields a
pruned copy of the node (same states, best chain, notifications; records equal except that
best-chain blocks below the frontier are header-only) -/
theorem sim_reachable {U} (hU : WFU U) (hist : List (List Nat)) (heights : List Nat) :
    Sim U (pruneAll (C01.run U Mgr.init hist) heights) (C01.run U Mgr.init hist)
      (frontierAll (C01.run U Mgr.init hist) 0 heights) := by
  have h0 := Sim.refl (C01.inv_reachable hU hist)
  generalize C01.run U Mgr.init hist = mu at h0 ⊢
  suffices h : ∀ mp p, Sim U mp mu p → Sim U (pruneAll mp heights) mu (frontierAll mp p heights) from h _ _ h0
  induction heights with
  | nil => intro mp p h; exact h
  | cons x xs ih => intro mp p h; exact ih _ _ (sim_prune h x)

/-- what `Sim` says about records: equal except on best-chain blocks below the frontier, which are
header-only on the pruned node and complete on the unpruned one -/
theorem sim_records {U mp mu p} (hs : Sim U mp mu p) (i : Nat) :
    (¬ (i ∈ mp.best ∧ (U i).height < p) → mp.recs i = mu.recs i) ∧
    (i ∈ mp.best → (U i).height < p →
      mp.recs i = some ⟨false, false⟩ ∧ mu.recs i = some ⟨true, true⟩) ∧
    mp.states i = mu.states i ∧ mp.best = mu.best ∧ mp.notified = mu.notified :=
  ⟨hs.recs_eq, hs.recs_pruned, hs.states i, hs.best, hs.notified⟩

/-- **a pruned node simulates the unpruned node**: for every batch, `AddBlocks` on the pruned copy
either returns the same result as on the unpruned node and the two stay related (same best
chain, states, notifications; records equal up to pruned bodies), or — only when the reorg the
unpruned node performs forks off at a height below `frontier - 1`, i.e. strictly below the
height of the reported `MinReorgIndex` — answers `reorgFailed` and keeps its best chain and
notification count. -/
theorem pruned_simulates_unpruned {U} (hU : WFU U) {mp mu : Mgr} {p : Nat} (hs : Sim U mp mu p)
    (batch : List Nat) :
    ((addBlocks U mp batch).2 = (addBlocks U mu batch).2 ∧
      Sim U (addBlocks U mp batch).1 (addBlocks U mu batch).1 p) ∨
    ((addBlocks U mp batch).2 = some .reorgFailed ∧ (addBlocks U mp batch).1.best = mp.best ∧
      (addBlocks U mp batch).1.notified = mp.notified ∧
      ∃ cs na nb, heavier U cs mu.tip = true ∧
        reorgPath U (addBlocks.go U batch mu mu.tip).1 mu.tip cs none =
          .ok ((List.range na).map (fun k => anc U k mu.tip), ((List.range nb).map (fun k => anc U k cs)).reverse) ∧
        anc U na mu.tip = anc U nb cs ∧ (U (anc U na mu.tip)).height + 1 < p ∧
        (U (anc U na mu.tip)).height < (U (minReorgIndex mp)).height) := by
  rcases addBlocks_sim hU hs batch with h | ⟨k1, k2, k3, cs, na, nb, k4, k5, k6, k7⟩
  · exact Or.inl h
  · right
    refine ⟨k1, k2, k3, cs, na, nb, k4, k5, k6, k7, ?_⟩
    have hm := (minReorgIndex_p hs.pinv).2
    have hf := hs.pinv.frontier
    rw [hm]
    simp only [Mgr.tipHeight]
    omega

/-- in particular: **a reorg whose fork point is at or above `MinReorgIndex` gives the same result
and the same chain as on the unpruned node** -/
theorem reorg_above_min_index_same {U} (hU : WFU U) {mp mu : Mgr} {p : Nat} (hs : Sim U mp mu p)
    (batch : List Nat)
    (habove : ∀ cs na nb, heavier U cs mu.tip = true →
      reorgPath U (addBlocks.go U batch mu mu.tip).1 mu.tip cs none =
        .ok ((List.range na).map (fun k => anc U k mu.tip), ((List.range nb).map (fun k => anc U k cs)).reverse) →
      (U (minReorgIndex mp)).height ≤ (U (anc U na mu.tip)).height) :
    (addBlocks U mp batch).2 = (addBlocks U mu batch).2 ∧
    (addBlocks U mp batch).1.best = (addBlocks U mu batch).1.best ∧
    (addBlocks U mp batch).1.notified = (addBlocks U mu batch).1.notified ∧
    Sim U (addBlocks U mp batch).1 (addBlocks U mu batch).1 p := by
  rcases pruned_simulates_unpruned hU hs batch with ⟨h1, h2⟩ | ⟨_, _, _, cs, na, nb, k4, k5, _, _, k8⟩
  · exact ⟨h1, h2.best, h2.notified, h2⟩
  · have := habove cs na nb k4 k5
    omega

/-- the unpruned twin of a pruning node: same submissions, prunes ignored -/
def runTwin (U : Nat → Blk) : Mgr → List NodeOp → Mgr
  | m, [] => m
  | m, .add batch :: ops => runTwin U (addBlocks U m batch).1 ops
  | m, .prune _ :: ops => runTwin U m ops

/-- the answers of the submissions of a run -/
def resOps (U : Nat → Blk) : Mgr → List NodeOp → List (Option Err)
  | _, [] => []
  | m, .add batch :: ops => (addBlocks U m batch).2 :: resOps U (addBlocks U m batch).1 ops
  | m, .prune h :: ops => resOps U (prune m h) ops

def resTwin (U : Nat → Blk) : Mgr → List NodeOp → List (Option Err)
  | _, [] => []
  | m, .add batch :: ops => (addBlocks U m batch).2 :: resTwin U (addBlocks U m batch).1 ops
  | m, .prune _ :: ops => resTwin U m ops

/-- every reorg the unpruned twin performs during the run forks off at or above the height of the
`MinReorgIndex` the pruning node reports at that moment -/
def ForksAbove (U : Nat → Blk) : Mgr → Mgr → List NodeOp → Prop
  | _, _, [] => True
  | mp, mu, .add batch :: ops =>
    (∀ cs na nb, heavier U cs mu.tip = true →
      reorgPath U (addBlocks.go U batch mu mu.tip).1 mu.tip cs none =
        .ok ((List.range na).map (fun k => anc U k mu.tip), ((List.range nb).map (fun k => anc U k cs)).reverse) →
      (U (minReorgIndex mp)).height ≤ (U (anc U na mu.tip)).height) ∧
    ForksAbove U (addBlocks U mp batch).1 (addBlocks U mu batch).1 ops
  | mp, mu, .prune h :: ops => ForksAbove U (prune mp h) mu ops

/-- **whole runs**: under any interleaving of submissions and prunes in which every reorg forks
at or above the reported `MinReorgIndex`, the pruning node gives the same answers as its unpruned
twin and ends as a pruned copy of it (same best chain, states, notifications; records equal up to
the pruned bodies) -/
theorem pruned_run_simulates_unpruned {U} (hU : WFU U) (ops : List NodeOp)
    (habove : ForksAbove U Mgr.init Mgr.init ops) :
    resOps U Mgr.init ops = resTwin U Mgr.init ops ∧
    Sim U (runOps U Mgr.init ops) (runTwin U Mgr.init ops) (frontier U ops) := by
  suffices h : ∀ mp mu p, Sim U mp mu p → ForksAbove U mp mu ops →
      resOps U mp ops = resTwin U mu ops ∧ Sim U (runOps U mp ops) (runTwin U mu ops) (frontierOps U mp p ops) from
    h _ _ _ (Sim.refl (inv_init hU)) habove
  clear habove
  induction ops with
  | nil => intro mp mu p hs _; exact ⟨rfl, hs⟩
  | cons op ops ih =>
    intro mp mu p hs hab
    cases op with
    | add batch =>
      obtain ⟨h1, h2⟩ := hab
      obtain ⟨e1, _, _, e4⟩ := reorg_above_min_index_same hU hs batch h1
      obtain ⟨i1, i2⟩ := ih _ _ p e4 h2
      exact ⟨by simp only [resOps, resTwin]; rw [e1, i1], i2⟩
    | prune height => exact ih _ _ _ (sim_prune hs height) hab

theorem Ure_wf : WFU C04.Ure := by
  refine ⟨rfl, ?_⟩
  intro b hb
  match b with
  | 1 | 2 | 3 | 4 => exact ⟨by decide, by decide⟩
  | 0 => simp [C04.Ure] at hb
  | n + 5 => simp [C04.Ure] at hb

/-! ### non-vacuity -/

-- a fork point at the pruned height still works
example : (runOps C04.Ure Mgr.init [.add [1, 2], .prune 2, .add [1], .add [3, 4]]).best = [4, 3, 1, 0] := by decide
-- prune below the fork, resubmit the pruned blocks, then reorg below them: an error, not a panic
example : (addBlocks C04.Ure (runOps C04.Ure Mgr.init [.add [1, 2], .prune 3, .add [1]]) [3, 4]).2 = some .reorgFailed := by decide
example : (runOps C04.Ure Mgr.init [.add [1, 2], .prune 3, .add [1], .add [3, 4]]).best = [2, 1, 0] := by decide


example : (prune (C01.run C01.Uex Mgr.init [[1, 2], [6]]) 2).block 1 = none := by decide
example : (prune (C01.run C01.Uex Mgr.init [[1, 2], [6]]) 2).block 2 = some true := by decide
example : (prune (C01.run C01.Uex Mgr.init [[1, 2], [6]]) 100).block 6 = none := by decide
example : minReorgIndex (prune (C01.run C01.Uex Mgr.init [[1, 2], [6]]) 2) = 2 := by decide

-- the frontier after a run, and `PInv` with a non-trivial frontier (from `pinv_reachable`)
example : frontier C04.Ure [.add [1, 2], .prune 2, .add [1]] = 2 := by decide
example : frontier C04.Ure [.add [1, 2], .prune 100, .add [1]] = 3 := by decide
example : PInv C04.Ure (runOps C04.Ure Mgr.init [.add [1, 2], .prune 2, .add [1]]) 2 :=
  pinv_reachable Ure_wf _
-- a failed reorg on a pruned node whose apply phase hits an invalid block (C01.Uex: 4 is invalid):
-- rolled back, not `rollbackFailed`
example : (addBlocks C01.Uex (runOps C01.Uex Mgr.init [.add [1, 2], .prune 2]) [3, 4, 5]).2 = some .reorgFailed := by decide
example : (addBlocks C01.Uex (runOps C01.Uex Mgr.init [.add [1, 2], .prune 2]) [3, 4, 5]).1.best = [2, 1, 0] := by decide
-- a failed reorg whose revert phase hits a pruned body: rolled back as well
example : (addBlocks C04.Ure (runOps C04.Ure Mgr.init [.add [1, 2], .prune 3]) [3, 4]).2 = some .reorgFailed := by decide
example : (addBlocks C04.Ure (runOps C04.Ure Mgr.init [.add [1, 2], .prune 3]) [3, 4]).1.best = [2, 1, 0] := by decide
-- `Sim` with a non-trivial frontier (from `sim_reachable`), the agreeing case and the diverging case
example : frontierAll (C01.run C04.Ure Mgr.init [[1, 2]]) 0 [2] = 2 := by decide
example : Sim C04.Ure (pruneAll (C01.run C04.Ure Mgr.init [[1, 2]]) [2]) (C01.run C04.Ure Mgr.init [[1, 2]]) 2 :=
  sim_reachable Ure_wf [[1, 2]] [2]
example : (addBlocks C04.Ure (pruneAll (C01.run C04.Ure Mgr.init [[1, 2]]) [2]) [3, 4]).2 = none ∧
    (addBlocks C04.Ure (C01.run C04.Ure Mgr.init [[1, 2]]) [3, 4]).2 = none ∧
    (addBlocks C04.Ure (pruneAll (C01.run C04.Ure Mgr.init [[1, 2]]) [2]) [3, 4]).1.best = [4, 3, 1, 0] := by decide
example : (addBlocks C04.Ure (pruneAll (C01.run C04.Ure Mgr.init [[1, 2]]) [3]) [3, 4]).2 = some .reorgFailed ∧
    (addBlocks C04.Ure (C01.run C04.Ure Mgr.init [[1, 2]]) [3, 4]).2 = none := by decide
-- a run with a prune in the middle and a later reorg forking at `MinReorgIndex` satisfies `ForksAbove`
example : ForksAbove C04.Ure Mgr.init Mgr.init [.add [1, 2], .prune 1, .add [3, 4]] := by
  have htip : (addBlocks C04.Ure Mgr.init [1, 2]).1.tip = 2 := by decide
  refine ⟨fun cs na nb _ _ => ?_, fun cs na nb hh hp => ?_, trivial⟩
  · have : (C04.Ure (minReorgIndex Mgr.init)).height = 0 := by decide
    omega
  · have hcs : cs = 4 := by
      rw [htip] at hh
      match cs, hh with
      | 0, hh | 1, hh | 2, hh | 3, hh => exact absurd hh (by decide)
      | 4, _ => rfl
      | n + 5, hh => simp [heavier, C04.Ure] at hh
    subst hcs
    have e : reorgPath C04.Ure (addBlocks.go C04.Ure [3, 4] (addBlocks C04.Ure Mgr.init [1, 2]).1
        (addBlocks C04.Ure Mgr.init [1, 2]).1.tip).1 (addBlocks C04.Ure Mgr.init [1, 2]).1.tip 4 none =
        .ok ([2], [3, 4]) := by rfl
    rw [e] at hp
    have hna : na = 1 := by
      have := congrArg (fun x => x.1.length) (Except.ok.inj hp)
      simpa using this.symm
    subst hna
    decide
example : resOps C04.Ure Mgr.init [.add [1, 2], .prune 1, .add [3, 4]] = [none, none] := by decide
example : (runOps C04.Ure Mgr.init [.add [1, 2], .prune 1, .add [3, 4]]).best = [4, 3, 1, 0] := by decide
-- the diverging case is exactly the one below `MinReorgIndex` (block 2 at height 2; fork point 1 at height 1)
example : minReorgIndex (pruneAll (C01.run C04.Ure Mgr.init [[1, 2]]) [3]) = 2 := by decide
example : reorgPath C04.Ure (addBlocks.go C04.Ure [3, 4] (C01.run C04.Ure Mgr.init [[1, 2]]) 2).1 2 4 none =
    .ok ([2], [3, 4]) := by rfl


/-! ### subscribers of a pruned node (`PruneBlocks`' contract: prune only below what every
subscriber has processed) -/

/-- **a subscriber that is not behind the pruning is still served**: after any interleaving of
`AddBlocks` and `PruneBlocks`, for a subscriber standing on the best chain at or above the last
pruned height (`frontier - 1`) and any `max`, `UpdatesSince` does not fail, returns only applies —
each of the next best-chain block (a contiguous walk from the subscriber's index) —, at most `max`
of them, and stops at the tip unless `max` stops it first; the index it ends on is again such a
subscriber.  Resubmitting old (pruned) blocks in between changes nothing of this: it is part of
the interleaving. -/
theorem subscriber_served_after_pruning {U} (hU : WFU U) (ops : List NodeOp) (i max : Nat)
    (hs : SubP U (runOps U Mgr.init ops) (frontier U ops) i) :
    ∃ us i', updatesSince U (runOps U Mgr.init ops)
        ((U (runOps U Mgr.init ops).tip).height - (U i).height) (some i) max [] = .ok us ∧
      walk U (some i) us = some (some i') ∧ SubP U (runOps U Mgr.init ops) (frontier U ops) i' ∧
      (∀ u ∈ us, ∃ b, u = .apply b) ∧ (i' = (runOps U Mgr.init ops).tip ∨ us.length ≥ max) ∧
      us.length ≤ max := by
  obtain ⟨us, i', h1, h2, h3, h4, h5, h6⟩ :=
    updatesSince_pruned (pinv_reachable hU ops) max _ i [] hs (Nat.le_refl _)
  exact ⟨us, i', by simpa using h1, h2, h3, h4, by simpa using h5, by simpa using h6⟩

/-- the tip itself is always such a subscriber (a subscriber that was caught up when the operator
pruned — even with `PruneBlocks(tip height + 1)` — can follow everything that comes later) -/
theorem tip_is_served_after_pruning {U} (hU : WFU U) (ops : List NodeOp) :
    SubP U (runOps U Mgr.init ops) (frontier U ops) (runOps U Mgr.init ops).tip := by
  have h := pinv_reachable hU ops
  have hw := h.toWInv
  refine ⟨hw.bestAt_of_mem hw.tip_mem, ?_⟩
  have := h.frontier
  have := hw.length
  omega

/-! ### the known finding `prune-skips-bodies-below-a-gap`, as a theorem about the model

The theorems above speak of histories of `AddBlocks` and `PruneBlocks`. `AddValidatedV2Blocks`
stores what it is given, pruned blocks included (`AddBlocks` skips them); with it in the history the
clause "after `PruneBlocks(h)` the best-chain bodies below `h` are gone" is FALSE of the model — and
of the code, on which the harness replays this history (the `island` step of `harness/c19`). -/

def Uv2 : Nat → Blk
  | 1 => ⟨0, 1, 200, 100, true, true, false, true⟩
  | 2 => ⟨1, 2, 300, 100, true, true, false, true⟩
  | 3 => ⟨2, 3, 400, 100, true, true, false, true⟩
  | 4 => ⟨3, 4, 500, 100, true, true, false, true⟩
  | _ => ⟨0, 0, 100, 100, false, false, false, false⟩

/-- chain 1-2-3-4; prune below 3; block 1 is handed over again pre-validated (its body returns
under the pruned block 2); `PruneBlocks(4)` then stops at block 2 and never reaches block 1 -/
theorem prune_misses_island_witness :
    let m0 := (addBlocks Uv2 Mgr.init [1, 2, 3, 4]).1
    let m1 := prune m0 3
    let m2 := (addValidatedV2 Uv2 m1 [1] 1).1
    let m3 := prune m2 4
    m0.best = [4, 3, 2, 1, 0] ∧ (m1.block 1).isNone = true ∧ (m1.block 2).isNone = true ∧
    (m2.block 1).isSome = true ∧
    m3.bestAt 1 = some 1 ∧ (m3.block 1).isSome = true ∧ (m3.block 2).isNone = true ∧
    (m3.block 3).isNone = true ∧ m3.tipHeight = 4 ∧ minReorgIndex m3 = 4 := by decide

end Verif.C19
