/-
C09 — the host's sector-root state always matches the committed contract, even on aborts.

Property theorems only.  Model: `Verif/Model/Rhp.lean` (the handlers of `/repo/rhp/v4/server.go` over the
reference host of `/repo/testutil/host.go`, client normalisation of `/repo/rhp/v4/rpc.go:590-600`);
helper lemmas: `Verif/Lemmas/Rhp.lean`.  Hashes are a free term algebra (`H`), signatures are
ideal, the Merkle proof verifiers of `go.sia.tech/core` appear only as explicit hypotheses.  The
model is tied to the real code by `harness/c09` (every contract size ≤ 7 × every index sequence
through the real client and a raw renter, faults at every message of free/append/roots, random
histories to 64 sectors).
-/
import Verif.Lemmas.Rhp
import Verif.Extracted.RhpHostFacts

namespace Verif.C09
open Verif.Rhp

/-! ### the commitment is binding: two different root lists never hash to the same Merkle root -/

theorem metaRoot_binds (a b : List Nat) (h : metaRoot a = metaRoot b) : a = b :=
  metaRoot_injective h

/-! ### the client's normalisation and the server's free loop -/

/-- `rpc.go:596-600`: what the client sends is strictly descending (hence duplicate-free) and names
exactly the indices the caller asked for -/
theorem normalize_sorted_nodup (is : List Nat) :
    (normalize is).Pairwise (· > ·) ∧ (normalize is).Nodup ∧ ∀ x, x ∈ normalize is ↔ x ∈ is := by
  refine ⟨normalize_strictDesc is, ?_, fun x => mem_normalize x is⟩
  exact (normalize_strictDesc is).imp (fun h => by omega)

/-- `server.go` free loop = the list model (swap-remove one index after the other), for every
roots list and every strictly descending in-range index list, of any length -/
theorem freeBatch_eq_swapRemoveSeq (rs is : List Nat) (hs : is.Pairwise (· > ·)) (hb : ∀ i ∈ is, i < rs.length) :
    freeBatch rs is = is.foldl swapRemove rs :=
  freeBatch_eq_foldl_swapRemove rs is hs hb

/-- … and it removes exactly the requested roots: what is left plus what was at the freed indices
is a permutation of the original list -/
theorem free_keeps_exactly (rs is : List Nat) (hs : is.Pairwise (· > ·)) (hb : ∀ i ∈ is, i < rs.length) :
    (is.map (fun i => rs.getD i 0) ++ freeBatch rs is).Perm rs := by
  rw [freeBatch_eq_swapRemoveSeq rs is hs hb]
  exact foldl_swapRemove_perm is rs hs hb

/-- hence a free through the real client (any indices, any order, with duplicates) behaves like the
list model on the normalised indices and loses nothing else -/
theorem client_free_is_list_model (rs is : List Nat) (hb : ∀ i ∈ is, i < rs.length) :
    freeBatch rs (normalize is) = (normalize is).foldl swapRemove rs ∧
    ((normalize is).map (fun i => rs.getD i 0) ++ freeBatch rs (normalize is)).Perm rs := by
  have hb' : ∀ i ∈ normalize is, i < rs.length := fun i hi => hb i ((mem_normalize i is).mp hi)
  exact ⟨freeBatch_eq_swapRemoveSeq _ _ (normalize_strictDesc is) hb',
         free_keeps_exactly _ _ (normalize_strictDesc is) hb'⟩

/-- why the client must normalise: on unsorted (but distinct, in-range) indices the server's loop
keeps a root that was to be freed and loses one that was to be kept -/
theorem free_unsorted_loses_root :
    ∃ rs is : List Nat, is.Nodup ∧ (∀ i ∈ is, i < rs.length) ∧
      ¬ (is.map (fun i => rs.getD i 0) ++ freeBatch rs is).Perm rs :=
  ⟨[1, 2, 3, 4], [0, 3], by decide, by decide, by decide⟩

/-! ### the handlers commit roots and revision together -/

/-- a successful free persists exactly `freeBatch roots indices` together with a revision that
commits to it -/
theorem free_commits (h : Host) (cid : Nat) (p : Prices) (chal : Sig) (is : List Nat) (second : Option Sig)
    (hok : (step h (.free cid p chal is second)).2.1.cls = .ok) :
    ∃ cs cs', h.contracts cid = some cs ∧ (step h (.free cid p chal is second)).1.contracts cid = some cs' ∧
      cs'.roots = freeBatch cs.roots is ∧ cs'.c.body.root = metaRoot cs'.roots ∧
      cs'.c.body.filesize = cs.c.body.filesize - is.length := by
  have hne := decideFree_strict h cid p chal is second hok
  obtain ⟨cs, b', rsig, hc, _, _, _, _, hb, _, _, he⟩ := decideFree_eff rfl hne
  obtain ⟨_, hf, _, hroot⟩ := reviseFree_some hb
  refine ⟨cs, { cs with c := signed h b' rsig, roots := freeBatch cs.roots is }, hc, ?_, rfl, ?_, ?_⟩
  · simp only [step, Rhp.decide, he, apply, hc, upd_same]
  · simp [signed, hroot]
  · simp [signed, hf]

/-- a successful append persists `roots ++ accepted` (the requested roots the host stores, in
request order) together with a revision that commits to it -/
theorem append_model (h : Host) (cid : Nat) (p : Prices) (chal : Sig) (sectors : List Nat) (second : Option Sig)
    (hok : (step h (.append cid p chal sectors second)).2.1.cls = .ok) :
    ∃ cs cs', h.contracts cid = some cs ∧ (step h (.append cid p chal sectors second)).1.contracts cid = some cs' ∧
      cs'.roots = cs.roots ++ sectors.filter h.sectors ∧ cs'.c.body.root = metaRoot cs'.roots ∧
      cs'.c.body.filesize = cs.c.body.filesize + (sectors.filter h.sectors).length := by
  have hne := decideAppend_strict h cid p chal sectors second hok
  obtain ⟨cs, b', rsig, hc, _, _, _, _, hb, _, _, he⟩ := decideAppend_eff rfl hne
  obtain ⟨_, hf, _, hroot⟩ := reviseAppend_some hb
  refine ⟨cs, { cs with c := signed h b' rsig, roots := cs.roots ++ acceptedRoots h sectors }, hc, ?_, rfl, ?_, ?_⟩
  · simp only [step, Rhp.decide, he, apply, hc, upd_same]
  · simp [signed, hroot]
  · simp [signed, hf, acceptedRoots]

/-! ### the invariant, over every history -/

/-- **root_commits**: from any state satisfying the invariant (in particular the empty host), after
*any* sequence of operations — RPCs with arbitrary fields and signatures, aborted or failing at
any step, chain-tip and clock changes, sectors stored, contracts formed and renewed — the roots the
host holds for every contract hash to the Merkle root of its latest revision and their number is
its file size -/
theorem root_commits (h : Host) (hi : Inv h) (ops : List Op) (cid : Nat) (cs : CState)
    (hc : (run h ops).contracts cid = some cs) :
    metaRoot cs.roots = cs.c.body.root ∧ cs.roots.length = cs.c.body.filesize :=
  ⟨(run_inv ops hi cid cs hc).root, (run_inv ops hi cid cs hc).size⟩

theorem root_commits_from_empty (hostKey now tip : Nat) (ops : List Op) (cid : Nat) (cs : CState)
    (hc : (run (Host.init hostKey now tip) ops).contracts cid = some cs) :
    metaRoot cs.roots = cs.c.body.root ∧ cs.roots.length = cs.c.body.filesize :=
  root_commits _ (inv_init hostKey now tip) ops cid cs hc

/-- **abort_atomic**: an RPC that does not end in `ok` — a failed check at any step, a stream that
ends after any message (`second = none`, `Req.garbage`, short sector data) — leaves the whole host
state (roots, revisions, balances, attachments, sectors) exactly as it was -/
theorem abort_atomic (h : Host) (r : Req) (hfail : (step h r).2.1.cls ≠ .ok) : (step h r).1 = h := by
  rcases decide_good h r with hn | hok
  · simp only [step, hn, apply]
  · exact absurd hok hfail

/-- in particular when the renter stops after the host's first response of a multi-round RPC -/
theorem abandoned_after_first_round (h : Host) (cid : Nat) (p : Prices) (chal : Sig) (l : List Nat) :
    (step h (.free cid p chal l none)).1 = h ∧ (step h (.append cid p chal l none)).1 = h := by
  constructor
  · have : (decideFree h cid p chal l none).eff = .none := by
      by_cases hn : (decideFree h cid p chal l none).eff = .none
      · exact hn
      · obtain ⟨_, _, _, _, _, hs, _⟩ := decideFree_eff rfl hn; simp at hs
    simp only [step, Rhp.decide, this, apply]
  · have : (decideAppend h cid p chal l none).eff = .none := by
      by_cases hn : (decideAppend h cid p chal l none).eff = .none
      · exact hn
      · obtain ⟨_, _, _, _, _, hs, _⟩ := decideAppend_eff rfl hn; simp at hs
    simp only [step, Rhp.decide, this, apply]

/-- the pinned code's free handler wrote through the slice it shared with the contractor: the
stored roots became `freeWrites roots 0 indices` as soon as the first round was answered.  For
copy semantics `abort_atomic` holds; for shared-slice semantics it is false: -/
theorem abort_atomic_false_with_sharing :
    ∃ rs is : List Nat, is.Pairwise (· > ·) ∧ (∀ i ∈ is, i < rs.length) ∧
      metaRoot (freeWrites rs 0 is) ≠ metaRoot rs :=
  ⟨[1, 2, 3], [0], by decide, by decide, by decide⟩

open Verif.Extracted in
/-- the copy semantics the model assumes, re-read from `/repo/rhp/v4/server.go` on every run: the
free handler clones the lent roots before its first write into them (`Extracted/RhpHostFacts.lean`) -/
theorem free_clones_before_writing :
    RhpHost.free.found = true ∧ 0 < RhpHost.free.cloneRoots ∧ RhpHost.free.cloneRoots < RhpHost.free.writeRoots ∧
    RhpHost.free.writeRoots < RhpHost.free.verifySig := by
  decide

/-- **a renewal or refresh carries the root list over unchanged**: the new contract (whose capacity
is the old file size after a renew, the old capacity after a refresh — possibly larger than the
file size) gets exactly the old contract's roots, so they hash to its Merkle root and their count is
its file size from its first moment -/
theorem renewal_carries_roots (h : Host) (hi : Inv h) (cid newcid : Nat) (c : Contract) (cs : CState)
    (hc : h.contracts cid = some cs) (hok : renewOk h cid newcid c = true) :
    ∃ cs', (stepOp h (.renew cid newcid c)).1.contracts newcid = some cs' ∧ cs'.c = c ∧ cs'.roots = cs.roots ∧
      metaRoot cs'.roots = cs'.c.body.root ∧ cs'.roots.length = cs'.c.body.filesize ∧
      cs'.c.body.filesize ≤ cs'.c.body.capacity := by
  have hinv := stepOp_inv (.renew cid newcid c) hi
  have hst : (stepOp h (.renew cid newcid c)).1.contracts newcid = some { c := c, roots := cs.roots, renewed := false } := by
    simp only [stepOp, hok, if_true, hc, upd_same]
  have ci := hinv newcid _ hst
  exact ⟨_, hst, rfl, rfl, ci.root, ci.size, ci.cap⟩

/-- **a sector store that fails in the middle of an append commits nothing**: if the lookup of any
requested root fails (whatever the error — also "not found" reported as an error), the append
leaves the whole host state as it was; an unknown root is never accepted because its lookup failed -/
theorem store_failure_commits_nothing (h : Host) (cid : Nat) (p : Prices) (chal : Sig) (sectors : List Nat)
    (second : Option Sig) (r : Nat) (hr : r ∈ sectors) (hfail : h.sectorErr r = true) :
    (step h (.append cid p chal sectors second)).1 = h ∧ (step h (.append cid p chal sectors second)).2.1.cls ≠ .ok := by
  have hn : (decideAppend h cid p chal sectors second).eff = .none := by
    by_cases hn : (decideAppend h cid p chal sectors second).eff = .none
    · exact hn
    · have := storeFailure_none sectors [] (decideAppend_store_ok rfl hn) r hr
      rw [hfail] at this; cases this
  refine ⟨by simp only [step, Rhp.decide, hn, apply], ?_⟩
  intro hok
  exact decideAppend_strict h cid p chal sectors second hok hn

/-! ### listing and reading back -/

/-- a successful sector-roots RPC returns exactly the requested window of the committed roots, the
window is inside the list, and the roots stay as they were -/
theorem roots_rpc_returns_committed_slice (h : Host) (hi : Inv h) (cid : Nat) (p : Prices) (off len : Nat) (sig : Sig)
    (hok : (step h (.roots cid p off len sig)).2.1.cls = .ok) :
    ∃ cs cs', h.contracts cid = some cs ∧ (step h (.roots cid p off len sig)).1.contracts cid = some cs' ∧
      (step h (.roots cid p off len sig)).2.1.vals = (cs.roots.drop off).take len ∧
      off + len ≤ cs.roots.length ∧ 0 < len ∧ cs'.roots = cs.roots ∧ cs'.c.body.root = metaRoot cs.roots := by
  have hne := decideRoots_strict h cid p off len sig hok
  obtain ⟨cs, b', hc, _, _, hl, hrange, hb, _, _, he⟩ := decideRoots_eff rfl hne
  obtain ⟨cs2, hc2, hvals⟩ := decideRoots_vals hok
  obtain ⟨_, _, _, hroot⟩ := revisePlain_some hb
  have hinv := hi cid cs hc
  have : cs2 = cs := by rw [hc] at hc2; simpa using hc2.symm
  subst this
  refine ⟨cs2, { cs2 with c := signed h b' sig, roots := cs2.roots }, hc, ?_, hvals, ?_, by omega, rfl, ?_⟩
  · simp only [step, Rhp.decide, he, apply, hc, upd_same]
  · rw [hinv.size]; exact hrange
  · simp [signed, hroot, hinv.root]

/-- with any complete verifier for sector-roots proofs (core's `VerifySectorRootsProof` against
`BuildSectorRootsProof`), what a successful listing returns verifies against the root committed in
the contract's revision *before* the RPC — the root the renter holds -/
theorem listed_roots_verify
    (Proof : Type) (build : List Nat → Nat → Nat → Proof) (verifyRoots : Proof → List Nat → Nat → Nat → Nat → H → Bool)
    (hComplete : ∀ rs s e, s < e → e ≤ rs.length →
      verifyRoots (build rs s e) ((rs.drop s).take (e - s)) rs.length s e (metaRoot rs) = true)
    (h : Host) (hi : Inv h) (cid : Nat) (p : Prices) (off len : Nat) (sig : Sig) (cs : CState)
    (hc : h.contracts cid = some cs)
    (hok : (step h (.roots cid p off len sig)).2.1.cls = .ok) :
    verifyRoots (build cs.roots off (off + len)) (step h (.roots cid p off len sig)).2.1.vals
      cs.c.body.filesize off (off + len) cs.c.body.root = true := by
  obtain ⟨cs1, _, hc1, _, hv, hr, hl, _, _⟩ := roots_rpc_returns_committed_slice h hi cid p off len sig hok
  have : cs1 = cs := by rw [hc] at hc1; simpa using hc1.symm
  subst this
  have hinv := hi cid cs1 hc
  rw [hv, ← hinv.size, ← hinv.root]
  have := hComplete cs1.roots off (off + len) (by omega) hr
  simpa using this

/-- every root the host lists is a sector it stores, and a well-formed, funded read of a stored
sector is served -/
theorem listed_sectors_stored (h : Host) (hi : Inv h) (ops : List Op) (cid : Nat) (cs : CState)
    (hc : (run h ops).contracts cid = some cs) (r : Nat) (hr : r ∈ cs.roots) :
    (run h ops).sectors r = true :=
  (run_inv ops hi cid cs hc).stored r hr

theorem stored_sector_readable (h : Host) (p : Prices) (t : Token) (root off len : Nat)
    (hs : h.sectors root = true) (hp : pricesValid h p = true) (ht : tokenValid h t = true)
    (hlen : 0 < len) (hrange : off + len ≤ sectorSize) (ha1 : off % leafSize = 0) (ha2 : len % leafSize = 0)
    (hfunds : canDebit h t.account (readCost p.f len) = true) :
    (step h (.read p t root off len)).2.1 = { cls := .ok, vals := [len] } := by
  have h1 : ¬ (sectorSize < off) := by omega
  have h2 : ¬ (sectorSize - off < len) := by omega
  have h3 : (off + len) % leafSize = 0 := by
    unfold leafSize at *; omega
  have h4 : len ≠ 0 := by omega
  simp [step, Rhp.decide, decideRead, hp, ht, h1, h2, h3, h4, ha1, ha2, hs, hfunds]

/-! ### non-vacuity: a concrete reachable history -/

namespace Example
def pf : PriceFields := { contractPrice := 5, collateral := 2, storage := 1, ingress := 1, egress := 1,
                          freeSector := 7, tipHeight := 10, validUntil := 2000 }
def pr : Prices := { f := pf, sig := .mk 1 (.prices pf) }
def b0 : Body := { rev := 0, renterOut := 10 ^ 15, hostOut := 10 ^ 15 + 5, missedHost := 10 ^ 15, totalColl := 10 ^ 15,
                   filesize := 0, capacity := 0, proofHeight := 100, expHeight := 244, renterKey := 3, hostKey := 1,
                   root := .zero }
def c0 : Contract := { body := b0, renterSig := .mk 3 (.contract b0), hostSig := .mk 1 (.contract b0) }
/-- what the honest renter signs: the revision the host is about to compute -/
def sign (h : Host) (cid : Nat) (f : CState → Option Body) : Sig :=
  match h.contracts cid with
  | some cs => match f cs with
    | some b => .mk cs.c.body.renterKey (.contract b)
    | none => .bad
  | none => .bad
def chal (h : Host) (cid : Nat) : Sig :=
  match h.contracts cid with
  | some cs => .mk cs.c.body.renterKey (.challenge cid (cs.c.body.rev + 1))
  | none => .bad
def h0 : Host := run (Host.init 1 1000 10) [.form 1 c0, .sector 11, .sector 12, .sector 13]
/-- append 11, 12, (unknown) 99, 13 -/
def h1 : Host := (step h0 (.append 1 pr (chal h0 1) [11, 12, 99, 13]
  (some (sign h0 1 fun cs => reviseAppend cs.c.body pf (metaRoot (cs.roots ++ [11, 12, 13])) 3)))).1
/-- free index 0 honestly -/
def h2 : Host := (step h1 (.free 1 pr (chal h1 1) [0]
  (some (sign h1 1 fun cs => reviseFree cs.c.body pf (metaRoot (freeBatch cs.roots [0])) 1)))).1
/-- a free of index 1 whose second-round signature is garbage -/
def h3 : Host := (step h2 (.free 1 pr (chal h2 1) [1] (some .bad))).1

example : (h1.contracts 1).map (·.roots) = some [11, 12, 13] := by decide
example : (h2.contracts 1).map (·.roots) = some [13, 12] := by decide
example : (h2.contracts 1).map (·.c.body.rev) = some 2 := by decide
example : (step h2 (.free 1 pr (chal h2 1) [1] (some .bad))).2.1.cls = .badreq := by decide
example : (h3.contracts 1) = (h2.contracts 1) := by decide
example : Inv h0 := run_inv _ (inv_init 1 1000 10)
example : (h2.contracts 1).map (fun cs => decide (metaRoot cs.roots = cs.c.body.root)) = some true := by decide
end Example

end Verif.C09

