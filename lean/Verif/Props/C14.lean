/-
C14 — pool submission and lookup honour their documented contracts.

Property theorems only (helper lemmas: `Verif/Lemmas/Pool.lean`; model: `Verif/Model/Pool.lean`,
transcribed from `/repo/chain/manager.go` as repaired by the `fix:` commits recorded in
`known_findings.jsonl`).  Every theorem is about an arbitrary pool state reachable from an empty
pool on an arbitrary ledger by ANY sequence of submissions (v1 / v2, any basis path, any set), tip
changes (any reverted / applied blocks, any verdicts of core on re-offered transactions) and
queries: `reach cfg l ops`.  No bound on the length of the history, the sets or the pool.

`seen cfg p` is the pool as every entry point sees it (each starts with `revalidatePool`).
The model is tied to the real `chain.Manager` by `harness/c14` (results of every call, the pool
after every step, every lookup).
-/
import Verif.Lemmas.PoolHistory

namespace Verif.C14
open Verif.Pool

/-- a pool state reachable by the history `ops` -/
def reach (cfg : Cfg) (l : Ledger) (ops : List Op) : Pool := run cfg (Pool.init l) ops

/-- the pool as an entry point sees it -/
def seen (cfg : Cfg) (p : Pool) : Pool := revalidate cfg p

theorem seen_idxOK (cfg : Cfg) (l : Ledger) (ops : List Op) : IdxOK (seen cfg (reach cfg l ops)) :=
  revalidate_idxOK cfg _ (run_inv cfg ops _ (init_inv l))

/-! ### lookups: precisely the pooled transaction with that id, or absence — for ANY id -/

/-- `PoolTransaction(id)` returns `t` iff `t` is a pooled v1 transaction and its id is `id`
(in particular never a v2 transaction, never a transaction with another id). -/
theorem lookup_v1_exact (cfg : Cfg) (l : Ledger) (ops : List Op) (id : Nat) (t : Txn) :
    (poolTransaction cfg (reach cfg l ops) id).2 = some t ↔
      t ∈ (seen cfg (reach cfg l ops)).txns ∧ t.id = id :=
  lookupIn_iff (seen_idxOK cfg l ops).v1 id t

/-- … and reports absence iff no pooled v1 transaction has that id (whatever else has it) -/
theorem lookup_v1_absent (cfg : Cfg) (l : Ledger) (ops : List Op) (id : Nat) :
    (poolTransaction cfg (reach cfg l ops) id).2 = none ↔
      ∀ t ∈ (seen cfg (reach cfg l ops)).txns, t.id ≠ id :=
  lookupIn_none_iff (seen_idxOK cfg l ops).v1 id

theorem lookup_v2_exact (cfg : Cfg) (l : Ledger) (ops : List Op) (id : Nat) (t : Txn) :
    (v2PoolTransaction cfg (reach cfg l ops) id).2 = some t ↔
      t ∈ (seen cfg (reach cfg l ops)).v2txns ∧ t.id = id :=
  lookupIn_iff (seen_idxOK cfg l ops).v2 id t

theorem lookup_v2_absent (cfg : Cfg) (l : Ledger) (ops : List Op) (id : Nat) :
    (v2PoolTransaction cfg (reach cfg l ops) id).2 = none ↔
      ∀ t ∈ (seen cfg (reach cfg l ops)).v2txns, t.id ≠ id :=
  lookupIn_none_iff (seen_idxOK cfg l ops).v2 id

/-- a lookup changes nothing but what `revalidatePool` does (and is total: the model's lookup has
no failing index expression; the bounds and id checks are the repaired code's) -/
theorem lookup_pure (cfg : Cfg) (p : Pool) (id : Nat) :
    (poolTransaction cfg p id).1 = seen cfg p ∧ (v2PoolTransaction cfg p id).1 = seen cfg p :=
  ⟨rfl, rfl⟩

/-- the pool never holds two transactions with the same id, in either slice or across them at
different positions: the shared index map is a function -/
theorem pooled_ids_unique (cfg : Cfg) (l : Ledger) (ops : List Op) (i j : Nat) (t u : Txn)
    (hi : (seen cfg (reach cfg l ops)).txns[i]? = some t ∨ (seen cfg (reach cfg l ops)).v2txns[i]? = some t)
    (hj : (seen cfg (reach cfg l ops)).txns[j]? = some u ∨ (seen cfg (reach cfg l ops)).v2txns[j]? = some u)
    (hid : t.id = u.id) : i = j := by
  have h := seen_idxOK cfg l ops
  have a : (seen cfg (reach cfg l ops)).indices t.id = some i := by
    rcases hi with hi | hi
    · exact h.v1 i t hi
    · exact h.v2 i t hi
  have b : (seen cfg (reach cfg l ops)).indices u.id = some j := by
    rcases hj with hj | hj
    · exact h.v1 j u hj
    · exact h.v2 j u hj
  rw [hid, b] at a
  exact (Option.some.inj a).symm

/-! ### submission: all of the not-yet-known transactions or none; `known` iff all pooled -/

/-- the four outcomes of `AddPoolTransactions` / `AddV2PoolTransactions` on the set that is
validated (for v2: the set moved from its basis to the tip), relative to the pool `q` the call saw -/
structure SubmitSpec (cfg : Cfg) (v2 : Bool) (q : Pool) (set : List Txn) (r : Pool × Res) : Prop where
  /-- never the nil mid-state dereference -/
  no_panic : r.2 ≠ .panic
  /-- an error leaves both slices, the index map and the weight exactly as they were: NONE of the
  set's transactions is added, whichever position failed -/
  err_none : r.2 = .err → r.1.txns = q.txns ∧ r.1.v2txns = q.v2txns ∧ r.1.indices = q.indices ∧ r.1.weight = q.weight
  /-- `known` changes nothing at all -/
  known_same : r.2 = .known → r.1 = q
  /-- `known` exactly when the set is valid against the tip and every transaction is pooled -/
  known_iff : r.2 = .known ↔ seqValid cfg q.led v2 MidState.empty set = true ∧ ∀ t ∈ set, t.id ∈ poolIds q
  /-- success appends, in the set's order, exactly the transactions whose ids were not pooled (each
  once) to the slice of its kind, leaves the other slice alone, and afterwards EVERY transaction of
  the set is pooled -/
  ok_all : r.2 = .ok → ∃ new, own v2 r.1 = own v2 q ++ new ∧ other v2 r.1 = other v2 q ∧ new ≠ [] ∧
      new.Sublist set ∧ (∀ t ∈ new, t.id ∉ poolIds q) ∧ (∀ t ∈ set, t.id ∈ poolIds r.1) ∧
      (∀ t ∈ set, t.id ∉ poolIds q → t.id ∈ new.map (·.id))

theorem addSet_spec (cfg : Cfg) (v2 : Bool) (q : Pool) (set : List Txn) (hms : q.ms.isSome = true)
    (hq : IdxOK q) : SubmitSpec cfg v2 q set (addSet cfg v2 q set) := by
  have ho := addSet_outcome cfg v2 q set hms
  generalize addSet cfg v2 q set = r at ho
  cases ho with
  | invalid hv =>
    refine ⟨by simp, fun _ => ⟨rfl, rfl, rfl, rfl⟩, (fun h => by cases h), ?_, (fun h => by cases h)⟩
    constructor
    · intro h; cases h
    · intro h; rw [hv] at h; cases h.1
  | known hv hall =>
    refine ⟨by simp, (fun h => by cases h), fun _ => rfl, ?_, (fun h => by cases h)⟩
    exact ⟨fun _ => ⟨hv, fun t ht => (hq.isSome_iff _).1 (hall t ht)⟩, fun _ => rfl⟩
  | conflict p' hv hnot h1 h2 h3 h4 _ _ _ hms' =>
    refine ⟨by simp, fun _ => ⟨h1, h2, h3, h4⟩, (fun h => by cases h), ?_, (fun h => by cases h)⟩
    constructor
    · intro h; cases h
    · intro h
      exact absurd (fun t ht => (hq.isSome_iff _).2 (h.2 t ht)) hnot
  | added p' new hv h1 h2 hne hsub hnone hkeep hall hw _ _ _ hms' hk =>
    have hi' := hk hq
    refine ⟨by simp, (fun h => by cases h), (fun h => by cases h), ?_, ?_⟩
    · constructor
      · intro h; cases h
      · intro h
        exfalso
        obtain ⟨t, ht⟩ := List.exists_mem_of_ne_nil _ hne
        exact absurd ((hq.isSome_iff _).2 (h.2 t (hsub.subset ht))) (by simp [hnone t ht])
    · intro _
      refine ⟨new, h1, h2, hne, hsub, ?_, ?_, ?_⟩
      · intro t ht hm
        have := (hq.isSome_iff _).2 hm
        simp [hnone t ht] at this
      · intro t ht; exact (hi'.isSome_iff _).1 (hall t ht)
      · intro t ht hn
        apply Decidable.byContradiction
        intro hc
        have := hkeep t.id hc
        have h1 := hall t ht
        rw [this] at h1
        exact hn ((hq.isSome_iff _).1 h1)

/-- a set that is not valid against the tip on its own is refused and nothing changes — whatever
the pool knows about the ids of its members -/
theorem invalid_set_rejected (cfg : Cfg) (v2 : Bool) (q : Pool) (set : List Txn)
    (h : seqValid cfg q.led v2 MidState.empty set = false) : addSet cfg v2 q set = (q, .err) := by
  unfold addSet
  rw [checkTxnSet_eq, h]
  simp

/-- in particular a set containing a transaction that consensus rejects on its own account (`ok =
false`: a broken signature) — also when that transaction is a same-id copy of a pooled one: an id
commits neither to signatures nor to proofs, so being pooled says nothing about the copy -/
theorem broken_member_rejected (cfg : Cfg) (l : Ledger) (ops : List Op) (v2 : Bool) (set : List Txn) (t : Txn)
    (ht : t ∈ set) (hok : t.ok = false) :
    addSet cfg v2 (seen cfg (reach cfg l ops)) set = (seen cfg (reach cfg l ops), .err) :=
  invalid_set_rejected cfg v2 _ set (seqValid_false_of_not_ok cfg _ v2 set _ t ht hok)

/-- **v1 submission**, for every reachable pool and every set -/
theorem add_v1_spec (cfg : Cfg) (l : Ledger) (ops : List Op) (set : List Txn) :
    SubmitSpec cfg false (seen cfg (reach cfg l ops)) set (addPoolTransactions cfg (reach cfg l ops) set) :=
  addSet_spec cfg false _ set (revalidate_ms cfg _) (seen_idxOK cfg l ops)

/-- **v2 submission**: if the set cannot be moved from its basis to the tip (unknown basis, path
longer than the supported distance, a proof core rejects, a vanished element) the call fails and
nothing changes; otherwise the moved set `set'` is submitted with the same guarantees -/
theorem add_v2_spec (cfg : Cfg) (l : Ledger) (ops : List Op) (path : Option (List Blk × List Blk)) (set : List Txn) :
    (rebase cfg set path = none →
      addV2PoolTransactions cfg (reach cfg l ops) path set = (seen cfg (reach cfg l ops), .err)) ∧
    (∀ set', rebase cfg set path = some set' →
      SubmitSpec cfg true (seen cfg (reach cfg l ops)) set' (addV2PoolTransactions cfg (reach cfg l ops) path set)) := by
  constructor
  · intro h; simp [addV2PoolTransactions, h, seen]
  · intro set' h
    have := addSet_spec cfg true _ set' (revalidate_ms cfg (reach cfg l ops)) (seen_idxOK cfg l ops)
    simpa [addV2PoolTransactions, h, seen] using this

/-- in particular: all or nothing, stated on ids.  After any submission that did not succeed, no
transaction of the set that was not pooled before is pooled; after one that succeeded, all are. -/
theorem add_v1_all_or_nothing (cfg : Cfg) (l : Ledger) (ops : List Op) (set : List Txn) :
    let q := seen cfg (reach cfg l ops)
    let r := addPoolTransactions cfg (reach cfg l ops) set
    (r.2 = .ok → ∀ t ∈ set, t.id ∈ poolIds r.1) ∧
    (r.2 ≠ .ok → poolIds r.1 = poolIds q) := by
  intro q r
  have h := add_v1_spec cfg l ops set
  constructor
  · intro hok; obtain ⟨new, _, _, _, _, _, hall, _⟩ := h.ok_all hok; exact hall
  · intro hne
    cases hr : r.2 with
    | ok => exact absurd hr hne
    | known => rw [h.known_same hr]
    | err =>
      obtain ⟨a, b, _, _⟩ := h.err_none hr
      show (r.1.txns ++ r.1.v2txns).map (·.id) = (q.txns ++ q.v2txns).map (·.id)
      rw [show r.1.txns = q.txns from a, show r.1.v2txns = q.v2txns from b]
    | panic => exact absurd hr h.no_panic

/-! ### non-vacuity: concrete reachable states -/

private def cfg0 : Cfg := { allow := 1, require := 100, maxWeight := 2000000, filler := 12 }
private def led0 : Ledger := ⟨[(1, 0), (2, 1), (3, 2)], 3, 1⟩
private def tA : Txn := ⟨10, true, 2, 5, 100, [⟨1, none, false⟩], [11]⟩      -- v1: spends element 1
private def tB : Txn := ⟨20, true, 2, 5, 100, [⟨2, some 1, false⟩], [21]⟩   -- v2: spends element 2
private def tC : Txn := ⟨30, true, 2, 5, 100, [⟨21, none, false⟩], [31]⟩    -- v2: spends B's output
private def tX : Txn := ⟨40, true, 2, 5, 100, [⟨2, some 1, false⟩], [41]⟩   -- v2: conflicts with B
private def tF : Txn := ⟨50, true, 2, 5, 100, [⟨3, some 2, false⟩], [51]⟩   -- v2: fresh

/-- a pooled v2 id asked through the v1 API is absent, through the v2 API it is found; the set
`[F, X]` (X conflicts with the pool at position 1) is rejected and F is not pooled -/
example :
    let p := reach cfg0 led0 [.addV1 [tA], .addV2 (some ([], [])) [tB, tC]]
    (poolTransaction cfg0 p 20).2 = none ∧ (v2PoolTransaction cfg0 p 20).2 = some tB ∧
    (poolTransaction cfg0 p 10).2 = some tA ∧ (v2PoolTransaction cfg0 p 10).2 = none ∧
    (addV2PoolTransactions cfg0 p (some ([], [])) [tF, tX]).2 = .err ∧
    ((addV2PoolTransactions cfg0 p (some ([], [])) [tF, tX]).1.v2txns.map (·.id)) = [20, 30] ∧
    (addV2PoolTransactions cfg0 p (some ([], [])) [tB, tC]).2 = .known ∧
    (addV2PoolTransactions cfg0 p (some ([], [])) [tB, tF]).2 = .ok := by
  decide

end Verif.C14
