/-
C14, source tie: the lock discipline of the submission and lookup methods, over the table regenerated
from chain/manager.go on every run (`Extracted.managerLocks`).  The lookups `PoolTransaction` /
`V2PoolTransaction` and the listings re-validate (and rewrite) the pool before they read it: they are
writers and need the EXCLUSIVE lock for their whole body.  Same theorems as `Props/C05Src.lean`,
restated for these methods.
-/
import Verif.Lemmas.SkelTok
import Verif.Lemmas.LockTab
import Verif.Extracted.ChainSkel

namespace Verif.C14Src
open Verif.Skel Verif.Extracted Verif.LockTab

def submitLookupMethods : List String :=
  ["AddPoolTransactions", "AddV2PoolTransactions", "PoolTransaction", "PoolTransactions", "V2PoolTransaction",
   "V2PoolTransactions", "TransactionsForPartialBlock", "revalidatePool", "checkTxnSet", "updateV2TransactionProofs"]

def submitLookupLocks := managerLocks.filter (fun e => submitLookupMethods.contains e.1)

theorem src_manager_mutex_exclusive : managerMutexType = "sync.Mutex" := by decide

/-- no `RLock`/`TryLock` on these paths -/
theorem src_lookup_lock_ops_closed : opsClosed submitLookupLocks = true := by decide

/-- every exported one takes the lock first, releases it by a deferred unlock, and reads nothing of
the manager before the lock is held -/
theorem src_lookup_exported_methods_lock_first : exportedLockFirst submitLookupLocks = true := by decide

/-- the helpers never operate on the lock -/
theorem src_lookup_internal_methods_never_lock : internalNeverLock submitLookupLocks = true := by decide

/-- only the two submission methods open the lock in the middle (listener window), once each -/
theorem src_lookup_unlock_windows :
    (submitLookupLocks.filter (fun e => (lkOps e).contains "Unlock")).map (·.1) = ["AddPoolTransactions", "AddV2PoolTransactions"] ∧
    submitLookupLocks.all (fun e => windowsClosed (lkOps e)) = true ∧
    submitLookupLocks.all (fun e => (lkOps e).count "Unlock" ≤ 1) = true := by decide

/-- non-vacuity -/
theorem src_lookup_lock_table_covers :
    submitLookupMethods.all (fun n => managerLocks.any (·.1 == n)) = true ∧
    submitLookupLocks.length = submitLookupMethods.length := by decide

end Verif.C14Src
