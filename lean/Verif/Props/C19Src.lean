/-
C19, source tie: the regenerated control skeleton of `(*Manager).PruneBlocks` (and the pruned-block
branch of `AddBlocks`) has the shape the model (`Verif/Model/Chain.lean: prune, addBlocks`)
transcribes: the walk starts at `min(height, tip height + 1)`, goes down, stops at the first
missing index or body, and the only write is `PruneBlock`.
-/
import Verif.Extracted.ChainSkel
import Verif.Extracted.DBSkel

namespace Verif.C19Src
open Verif.Skel Verif.Extracted

theorem src_prune_balanced : balanced skel_PruneBlocks 0 = true := by decide

/-- `for h := min(height, m.tipState.Index.Height+1); h > 0; h--` -/
theorem src_prune_clamped_to_tip :
    occurs (· == .loop ["min()", "height", "m.tipState.Index.Height"] ["+", ">", "--"]) skel_PruneBlocks = true ∧
    (skel_PruneBlocks.filter (fun t => match t with | .loop .. => true | _ => false)).length = 1 := by decide

/-- inside the loop: best index at the height, stop if absent; body, stop if absent; prune -/
theorem src_prune_loop_body :
    hasInfix [isCall "m.store.BestIndex", (· == .ifc [] ["!"]), (· == .brk), (· == .done),
      isCall "m.store.Block", (· == .ifc [] ["!"]), (· == .brk), (· == .done),
      isCall "m.store.PruneBlock", (· == .done)] skel_PruneBlocks = true := by decide

/-- the only store write is `PruneBlock`; the tip and every other manager field are untouched;
no reorg, no listener -/
theorem src_prune_only_prunes :
    (skel_PruneBlocks.filter isStoreWrite = [.call "m.store.PruneBlock" []]) ∧
    occurs isSet skel_PruneBlocks = false ∧ occurs (isCall "m.reorgTo") skel_PruneBlocks = false ∧
    occurs (isCall "fn") skel_PruneBlocks = false := by decide

/-- `AddBlocks` recognises a pruned block (header present, body absent) and skips it, taking its
stored state as the parent state of what follows -/
theorem src_addblocks_skips_pruned :
    hasInfix [isCall "m.store.Header", (· == .ifc [] ["&&", "!"]), isCall "m.store.State", (· == .cont)]
      skel_AddBlocks = true := by decide

/-- reverting and serving updates read block and parent through `blockAndParent`, which reports
"not found" when either is missing (a pruned body is reported, never dereferenced) -/
theorem src_blockAndParent_found_flag :
    skel_blockAndParent = [.call "s.Block" [], .call "s.State" [], .ret ["v", "v", "v", "v:&&"]] ∧
    matchPrefix [isCall "blockAndParent", (· == .ifc [] ["!"]), isRet ["E"]] skel_revertTip = true := by decide


/-- `DBStore.PruneBlock` rewrites the block's record (header kept, body and supplement dropped:
`putBlock(bh, nil, nil)`) and touches nothing else — no state, no index, no element -/
theorem src_store_prune_block :
    skel_DBStore_PruneBlock = [.call "db.getBlock" [], .ifc [] [], .call "db.putBlock" [], .done] := by decide


/-- `getAncestorInfo` decodes a record that may be header-only: version byte, then (for the
current version) the "has header" flag and — only when there is NO cached header — the "has
block" flag, then the header fields it needs (parent id, nonce, timestamp).  It never skips the
cached header to read from a body that a pruned record does not have. -/
theorem src_store_ancestor_info_decoder :
    skel_DBStore_getAncestorInfo = [.fn, .call ".ReadUint8" [], .ifc [] ["!=", "&&", "!="], .call ".SetErr" [], .done,
      .ifc [] ["=="], .call ".ReadBool" [], .ifc [".ReadBool()"] ["!"], .call ".ReadBool" [], .done, .done,
      .call ".DecodeFrom" [], .call ".ReadUint64" [], .call ".ReadTime" [], .done,
      .call "types.DecoderFunc" [], .call "db.bucket" [], .call "db.bucket(bBlocks).get" [], .ret []] := by decide

end Verif.C19Src
