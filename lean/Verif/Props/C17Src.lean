/-
C17, source tie: the control skeleton of the key/value backends of `chain/db.go` regenerated on
this run (`Verif/Extracted/DBSkel.lean`, by harness/srcfacts/chain.go; map expressions rooted at
the receiver are printed with their index expressions elided, `get` marks a map read) has the
shape `Verif/Model/KV.lean` transcribes:

  * `MemDB.get`: pending puts, then pending deletes (⇒ nil), then the committed bucket
  * `MemDB.put` / `delete`: refused iff the bucket exists nowhere; record in one pending map and
    remove from the other
  * `MemDB.Flush`: puts applied, then deletes, each pending map emptied; `Cancel` empties both
  * `cacheBucket.Get`: the overlay's value if non-nil, else nil if the overlay deleted the key,
    else the backend; `Iter` yields the overlay, then the backend minus overlaid keys
  * `CacheDB.Flush`: overlay puts not shadowed by an overlay delete go to the backend as puts,
    then the overlay deletes as deletes, the overlay is cleared, the backend flushed last
-/
import Verif.Extracted.DBSkel

namespace Verif.C17Src
open Verif.Skel Verif.Extracted

theorem src_db_skeletons_balanced :
    balanced skel_MemDB_Flush 0 = true ∧ balanced skel_MemDB_Cancel 0 = true ∧ balanced skel_MemDB_get 0 = true ∧
    balanced skel_MemDB_put 0 = true ∧ balanced skel_MemDB_delete 0 = true ∧ balanced skel_cacheBucket_Get 0 = true ∧
    balanced skel_cacheBucket_Iter 0 = true ∧ balanced skel_CacheDB_Flush 0 = true := by decide

/-- `MemDB.get`: puts, then dels (nil), then the committed bucket -/
theorem src_memdb_get :
    skel_MemDB_get = [.call "get" ["db.puts[][]"], .ifc [] [], .ret ["v"], .done,
      .call "get" ["db.dels[][]"], .ifc [] [], .ret ["nil"], .done,
      .ret ["v:db.buckets[][]"]] := by decide

/-- `MemDB.put`: an error iff the bucket has neither pending puts nor a committed map; the value
goes to `puts`, the key leaves `dels` -/
theorem src_memdb_put :
    skel_MemDB_put = [.ifc ["db.puts[]"] ["=="], .ifc ["db.buckets[]"] ["=="], .ret ["E"], .done,
      .set "db.puts[]", .done, .set "db.puts[][]", .call "delete" ["db.dels[]"], .ret ["nil"]] := by decide

/-- `MemDB.delete`: the mirror image -/
theorem src_memdb_delete :
    skel_MemDB_delete = [.ifc ["db.dels[]"] ["=="], .ifc ["db.buckets[]"] ["=="], .ret ["E"], .done,
      .set "db.dels[]", .done, .set "db.dels[][]", .call "delete" ["db.puts[]"], .ret ["nil"]] := by decide

/-- a bucket exists iff it has a committed map, pending puts or pending deletes; creating an
existing one is an error, creating a new one makes both pending maps -/
theorem src_memdb_buckets :
    skel_MemDB_Bucket = [.ifc ["db.buckets[]", "db.puts[]", "db.dels[]"] ["==", "&&", "==", "&&", "=="],
      .ret ["nil"], .done, .ret ["v"]] ∧
    skel_MemDB_CreateBucket = [.call "db.Bucket" [], .ifc ["db.Bucket()"] ["!="], .ret ["nil", "E"], .done,
      .set "db.puts[]", .set "db.dels[]", .call "db.Bucket" [], .ret ["v", "nil"]] := by decide

/-- `MemDB.Flush`: a loop over the pending puts writing into the committed maps and dropping
each pending map, then a loop over the pending deletes removing from the committed maps and
dropping each pending map — deletes are NOT folded into the puts loop -/
theorem src_memdb_flush :
    (skel_MemDB_Flush.filter (fun t => isRange "db.puts" t || isRange "db.dels" t) =
      [.loop ["range", "db.puts"] [], .loop ["range", "db.dels"] []]) ∧
    guardedBy (· == .set "db.buckets[][]") (isRange "db.puts") skel_MemDB_Flush = true ∧
    guardedBy (isCallA "delete" ["db.puts"]) (isRange "db.puts") skel_MemDB_Flush = true ∧
    guardedBy (isCallA "delete" ["db.buckets[]"]) (isRange "db.dels") skel_MemDB_Flush = true ∧
    guardedBy (isCallA "delete" ["db.dels"]) (isRange "db.dels") skel_MemDB_Flush = true ∧
    occurs (· == .set "db.buckets[][]") skel_MemDB_Flush = true ∧
    occurs (isCallA "delete" ["db.buckets[]"]) skel_MemDB_Flush = true ∧
    occurs (isCallA "delete" ["db.puts"]) skel_MemDB_Flush = true ∧
    occurs (isCallA "delete" ["db.dels"]) skel_MemDB_Flush = true ∧
    -- the deletes loop is not nested in the puts loop
    guardedBy (isRange "db.dels") (isRange "db.puts") skel_MemDB_Flush = false := by decide

/-- `MemDB.Cancel` empties both pending maps and touches nothing else -/
theorem src_memdb_cancel :
    skel_MemDB_Cancel = [.loop ["range", "db.puts"] [], .call "delete" ["db.puts"], .done,
      .loop ["range", "db.dels"] [], .call "delete" ["db.dels"], .done] := by decide

/-- `cacheBucket.Get`: overlay value if non-nil (`!= nil`, not a length test), else nil if the
overlay deleted the key, else the backend's value -/
theorem src_cache_get :
    skel_cacheBucket_Get = [.call "b.mb.Get" [], .ifc [] ["!="], .ret ["v"], .done,
      .call "get" ["b.mb.db.dels[][]"], .ifc [] [], .ret ["nil"], .done,
      .call "b.db.Get" [], .ret ["v"]] := by decide

/-- writes go to the overlay only -/
theorem src_cache_put_delete :
    matchPrefix [isCall "b.mb.Put", fun t => match t with | .ret [_] => true | _ => false] skel_cacheBucket_Put = true ∧
    skel_cacheBucket_Put.length = 2 ∧
    matchPrefix [isCall "b.mb.Delete", fun t => match t with | .ret [_] => true | _ => false] skel_cacheBucket_Delete = true ∧
    skel_cacheBucket_Delete.length = 2 := by decide

/-- `cacheBucket.Iter`: the overlay first, then the backend's pairs except keys the overlay put or
deleted -/
theorem src_cache_iter :
    hasInfix [(· == .loop ["range", "b.mb.Iter()", "b.mb"] []), isCall "yield"] skel_cacheBucket_Iter = true ∧
    hasInfix [(· == .loop ["range", "b.db.Iter()", "b.db"] []), isCallA "get" ["b.mb.db.puts[][]"],
      isCallA "get" ["b.mb.db.dels[][]"], (· == .ifc [] ["||"]), (· == .cont), (· == .done), isCall "yield"]
      skel_cacheBucket_Iter = true ∧
    firstBefore (· == .loop ["range", "b.mb.Iter()", "b.mb"] []) (· == .loop ["range", "b.db.Iter()", "b.db"] [])
      skel_cacheBucket_Iter = true := by decide

/-- `CacheDB.Bucket` exists iff the backend's does (the overlay's is created on demand);
`CreateBucket` creates in the backend first and stops at its error; `Cancel` cancels both -/
theorem src_cachedb_buckets :
    skel_CacheDB_Bucket = [.call "db.db.Bucket" [], .ifc [] ["=="], .ret ["nil"], .done,
      .call "db.mem.Bucket" [], .ifc ["db.mem.Bucket()", "db.mem"] ["=="], .call "db.mem.CreateBucket" [], .done,
      .ret ["v"]] ∧
    skel_CacheDB_CreateBucket = [.call "db.db.CreateBucket" [], .ifc [] ["!="], .ret ["nil", "E"], .done,
      .call "db.mem.CreateBucket" [], .ifc [] ["!="], .ret ["nil", "E"], .done, .call "db.Bucket" [], .ret ["v", "nil"]] ∧
    skel_CacheDB_Cancel = [.call "db.mem.Cancel" [], .call "db.db.Cancel" []] := by decide

/-- `CacheDB.Flush`: overlay puts (skipping keys the overlay also deleted) reach the backend as
`Put`s before the overlay deletes reach it as `Delete`s; then the three overlay maps are cleared
and the backend is flushed last, its error returned -/
theorem src_cachedb_flush :
    hasInfix [isRange "db.mem.puts", isCallA "get" ["db.kvs[]"], isRange "puts",
      isCallA "get" ["db.mem.dels[][]"], (· == .ifc [] []), (· == .cont)] skel_CacheDB_Flush = true ∧
    firstBefore (isCall ".Put") (isCall ".Delete") skel_CacheDB_Flush = true ∧
    firstBefore (isRange "db.mem.puts") (isRange "db.mem.dels") skel_CacheDB_Flush = true ∧
    (callNames skel_CacheDB_Flush).count ".Put" = 1 ∧ (callNames skel_CacheDB_Flush).count ".Delete" = 1 ∧
    (skel_CacheDB_Flush.reverse.take 11).reverse =
      [.loop ["range", "db.mem.buckets"] [], .call "clear" ["_"], .done,
       .loop ["range", "db.mem.puts"] [], .call "clear" ["_"], .done,
       .loop ["range", "db.mem.dels"] [], .call "clear" ["_"], .done,
       .call "db.db.Flush" [], .ret ["v"]] := by decide


/-- the puts loop of `MemDB.Flush` copies every pending pair into the committed map (created if
absent) and ALWAYS drops the pending map afterwards — no `continue`, no adoption of the pending
map as the committed one (which would alias them until the next flush) -/
theorem src_memdb_flush_puts_loop :
    hasInfix [isRange "db.puts", (· == .ifc ["db.buckets[]"] ["=="]), (· == .set "db.buckets[]"), (· == .done),
      isRange "puts", (· == .set "db.buckets[][]"), (· == .done), isCallA "delete" ["db.puts"], (· == .done)]
      skel_MemDB_Flush = true ∧
    occurs (· == .cont) skel_MemDB_Flush = false ∧ occurs (· == .brk) skel_MemDB_Flush = false ∧
    (skel_MemDB_Flush.filter (· == .set "db.buckets[]")).length = 2 := by decide

end Verif.C17Src
