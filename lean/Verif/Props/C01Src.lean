/-
C01, source tie: the control skeleton of `chain/manager.go` regenerated on this run
(`Verif/Extracted/ChainSkel.lean`, by harness/srcfacts/chain.go) has the shape that the model
`Verif/Model/Chain.lean` transcribes.  Each theorem is a kernel evaluation over the regenerated
data; when the source changes shape the theorem stops checking, `./check C01` searches for a
failing history with the harness and reports the broken obligation either way.

What the model takes from the code, and where it is pinned here:
  * `addBlocks`: validate (header-level) before anything is stored; known and pruned blocks are
    skipped; the reorg is attempted iff the new state is `SufficientlyHeavierThan` the tip; a
    failed reorg is followed by a reorg back to the old tip and an error; listeners are called
    only on the success path, after the reorg  (`Model/Chain.lean: addBlocks, maybeReorg`)
  * `reorgTo`: path; revert loop; apply loop; flush  (`reorgTo`)
  * `applyTip`: a block without supplement is validated before it is recorded and applied; the
    tip is assigned last  (`applyTip`);  `revertTip` likewise
  * frame: no other function of the file writes to the store or assigns the tip
-/
import Verif.Extracted.ChainSkel
import Verif.Extracted.DBSkel
import Verif.Lemmas.LockTab

namespace Verif.C01Src
open Verif.Skel Verif.Extracted

/-- the skeletons are well-formed block structures (the translator did not lose a brace) -/
theorem src_skeletons_balanced :
    balanced skel_AddBlocks 0 = true ∧ balanced skel_AddValidatedV2Blocks 0 = true ∧
    balanced skel_applyTip 0 = true ∧ balanced skel_revertTip 0 = true ∧
    balanced skel_reorgTo 0 = true ∧ balanced skel_reorgPath 0 = true := by decide

/-- every reorg started by `AddBlocks`/`AddValidatedV2Blocks` is inside the then-branch of
`if cs.SufficientlyHeavierThan(m.tipState)` (not negated, no other disjunct), and one is started -/
theorem src_reorg_only_if_sufficiently_heavier :
    guardedBy (isCall "m.reorgTo") isHeavierGuard skel_AddBlocks = true ∧
    occurs (isCall "m.reorgTo") skel_AddBlocks = true ∧
    guardedBy (isCall "m.reorgTo") isHeavierGuard skel_AddValidatedV2Blocks = true ∧
    occurs (isCall "m.reorgTo") skel_AddValidatedV2Blocks = true := by decide

/-- the tip is not touched by `AddBlocks` except through `reorgTo` -/
theorem src_addblocks_moves_tip_only_by_reorg :
    occurs isSet skel_AddBlocks = false ∧ occurs isSet skel_AddValidatedV2Blocks = false ∧
    occurs (isCall "m.applyTip") skel_AddBlocks = false ∧ occurs (isCall "m.revertTip") skel_AddBlocks = false ∧
    occurs (isCall "m.applyTip") skel_AddValidatedV2Blocks = false ∧
    occurs (isCall "m.revertTip") skel_AddValidatedV2Blocks = false := by decide

/-- the shape `if err := m.reorgTo(x); err != nil { if err := m.reorgTo(y); err != nil { return E }; return E }`
with `y ≠ x` -/
def rollbackPattern : List (Tok → Bool) :=
  [isCall "m.reorgTo", isErrCheck, isCall "m.reorgTo", isErrCheck, isRet ["E"], (· == .done), isRet ["E"], (· == .done)]

def reorgArgs : List Tok → List (List String)
  | [] => []
  | .call "m.reorgTo" a :: ts => a :: reorgArgs ts
  | _ :: ts => reorgArgs ts

/-- a failed reorg is followed by a reorg back to a different (the old) index, and an error is
returned whether or not that succeeds -/
theorem src_failed_reorg_rolled_back :
    hasInfix rollbackPattern skel_AddBlocks = true ∧ hasInfix rollbackPattern skel_AddValidatedV2Blocks = true ∧
    (∃ a b, reorgArgs skel_AddBlocks = [a, b] ∧ a ≠ b) ∧
    (∃ a b, reorgArgs skel_AddValidatedV2Blocks = [a, b] ∧ a ≠ b) := by
  refine ⟨by decide, by decide, ⟨_, _, rfl, by decide⟩, ⟨_, _, rfl, by decide⟩⟩

def isRangeOver (x : String) : Tok → Bool
  | .loop ["range", y] [] => y == x
  | _ => false

/-- listeners are collected and called only inside the heavier-guard's then-branch and after the
reorg call (whose error branch returns) -/
theorem src_notify_only_after_successful_reorg :
    guardedBy (isRangeOver "m.onReorg") isHeavierGuard skel_AddBlocks = true ∧
    guardedBy (isCall "fn") isHeavierGuard skel_AddBlocks = true ∧
    firstBefore (isCall "m.reorgTo") (isRangeOver "m.onReorg") skel_AddBlocks = true ∧
    occurs (isRangeOver "m.onReorg") (skel_AddBlocks.takeWhile (fun t => !isCall "m.reorgTo" t)) = false ∧
    guardedBy (isRangeOver "m.onReorg") isHeavierGuard skel_AddValidatedV2Blocks = true ∧
    guardedBy (isCall "fn") isHeavierGuard skel_AddValidatedV2Blocks = true ∧
    firstBefore (isCall "m.reorgTo") (isRangeOver "m.onReorg") skel_AddValidatedV2Blocks = true := by decide

/-- `AddBlocks` validates a block (`consensus.ValidateOrphan`, with an error return right after)
before the first store write, and its only store writes are `AddState`/`AddBlock` -/
theorem src_addblocks_validates_before_store :
    noneBefore isStoreWrite (isCall "consensus.ValidateOrphan") skel_AddBlocks = true ∧
    hasInfix [isCall "consensus.ValidateOrphan", isErrCheck, isRet ["E"]] skel_AddBlocks = true ∧
    (skel_AddBlocks.filter isStoreWrite = [.call "m.store.AddState" [], .call "m.store.AddBlock" []]) := by decide

/-- `AddBlocks` skips (with `continue`) a block it already has and a block whose header is present
while its body is not (pruned), before any validation -/
theorem src_addblocks_skips_known_and_pruned :
    hasInfix [isCall "m.store.Block", (· == .ifc [] ["!="]), isCall "m.store.State", (· == .cont), (· == .done),
              isCall "m.store.Header", (· == .ifc [] ["&&", "!"]), isCall "m.store.State", (· == .cont)] skel_AddBlocks = true ∧
    firstBefore (isCall "m.store.Header") (isCall "consensus.ValidateOrphan") skel_AddBlocks = true := by decide

/-- `reorgTo`: path, then a loop of `revertTip` over the revert leg, then a loop of `applyTip`
over the apply leg, each error returned at once, then `Flush`; no other store write -/
theorem src_reorgTo_shape :
    matchPrefix [isCall "m.reorgPath", isErrCheck, isRet ["E"], (· == .done),
      isRangeOver "revert", isCall "m.revertTip", isErrCheck, isRet ["E"], (· == .done), (· == .done),
      isRangeOver "apply", isCall "m.applyTip", isErrCheck, isRet ["E"], (· == .done), (· == .done),
      isCall "m.store.Flush", isErrCheck, isRet ["E"], (· == .done)] skel_reorgTo = true ∧
    (skel_reorgTo.filter isStoreWrite = [.call "m.store.Flush" []]) ∧
    occurs (isSetOf "m.tipState") skel_reorgTo = false := by decide

/-- the path `reorgTo` asks for is from the current tip to the target, unbounded -/
theorem src_reorgTo_path_args :
    skel_reorgTo.head? = some (.call "m.reorgPath" ["m.tipState.Index", "index", "math.MaxInt"]) := by decide

def inNoSupplementBranch : Tok → Bool
  | .ifc [] ["=="] => true
  | _ => false

/-- `applyTip`: a block stored without supplement is validated (`consensus.ValidateBlock`, error
returned at once) before `ApplyBlock`, `AddState`, `AddBlock`; whatever the branch, the store's
`ApplyBlock` comes after them and the tip is assigned last, exactly once -/
theorem src_applyTip_shape :
    noneBefore isStoreWrite (isCall "consensus.ValidateBlock") skel_applyTip = true ∧
    hasInfix [isCall "consensus.ValidateBlock", isErrCheck, isRet ["E"]] skel_applyTip = true ∧
    guardedBy (isCall "consensus.ValidateBlock") inNoSupplementBranch skel_applyTip = true ∧
    guardedBy (isCall "m.store.AddBlock") inNoSupplementBranch skel_applyTip = true ∧
    (skel_applyTip.filter isStoreWrite =
      [.call "m.store.AddState" [], .call "m.store.AddBlock" [], .call "m.store.ApplyBlock" []]) ∧
    (skel_applyTip.reverse.take 4).reverse =
      [.call "m.store.ApplyBlock" [], .call "m.applyPoolUpdate" ["cau", "cs"], .set "m.tipState", .ret ["nil"]] ∧
    (skel_applyTip.filter isSet = [.set "m.tipState"]) := by decide

/-- a block that already has a recorded supplement is re-applied WITH THAT supplement: the
supplement is built (`Store.SupplementTipBlock`) once, in the first-application branch only, and the
re-application branch reads the ancestor timestamp and applies, nothing else. (`UpdatesSince` and
`revertTip` replay the recorded supplement; a re-application with a freshly built one can order the
expiring contracts differently, so the tip state and the update stream would disagree on leaf
indices — seeded C06-r10m2.) -/
theorem src_applyTip_reuses_recorded_supplement :
    guardedBy (isCall "m.store.SupplementTipBlock") inNoSupplementBranch skel_applyTip = true ∧
    (callNames skel_applyTip).count "m.store.SupplementTipBlock" = 1 ∧
    ((after (· == .els) skel_applyTip).filter (fun t => match t with | .call _ _ => true | _ => false)).map
        (fun t => match t with | .call n _ => n | _ => "") =
      ["m.store.AncestorTimestamp", "m.overwriteExpirations", "consensus.ApplyBlock", "m.store.ApplyBlock",
       "m.applyPoolUpdate"] := by decide

/-- a block that does not attach to the tip is a programming error (`panic`), not a state change:
the check precedes every store access other than the read of the block -/
theorem src_applyTip_attach_check_first :
    matchPrefix [isCall "m.store.Block", (· == .ifc [] ["!"]), isRet ["E"], (· == .done),
      (fun t => match t with | .ifc _ ["!="] => true | _ => false), (· == .panic), (· == .done)] skel_applyTip = true ∧
    (skel_applyTip.filter (· == .panic)).length = 1 := by decide

/-- `revertTip`: reads block and parent state, reverts in the store, then assigns the tip -/
theorem src_revertTip_shape :
    skel_revertTip = [.call "blockAndParent" [], .ifc [] ["!"], .ret ["E"], .done,
      .call "consensus.RevertBlock" [], .call "m.store.RevertBlock" [],
      .call "m.revertPoolUpdate" ["cru", "cs"], .set "m.tipState", .ret ["nil"]] := by decide

/-- `blockAndParent` is found only if both the block and its parent's state are -/
theorem src_blockAndParent_shape :
    skel_blockAndParent = [.call "s.Block" [], .call "s.State" [], .ret ["v", "v", "v", "v:&&"]] := by decide

/-- **frame**: in all of `chain/manager.go` only these functions write to the store or assign
the tip state — every other method (pool, queries, subscriptions) leaves the chain state alone,
which is what lets the model treat `AddBlocks`, `AddValidatedV2Blocks`, `PruneBlocks` as its only
operations -/
theorem src_frame :
    chainFrame = [
      ("AddBlocks", ["AddBlock", "AddState"], []),
      ("AddValidatedV2Blocks", ["AddBlock", "AddState"], []),
      ("PruneBlocks", ["PruneBlock"], []),
      ("applyTip", ["AddBlock", "AddState", "ApplyBlock"], ["m.tipState"]),
      ("reorgTo", ["Flush"], []),
      ("revertTip", ["RevertBlock"], ["m.tipState"])] := by decide

/-- `reorgPath`: the rewinding helper stops at the length bound and at a missing header; the two
height-levelling loops and the joint loop return as soon as it fails -/
theorem src_reorgPath_shape :
    matchPrefix [(· == .fn), (· == .ifc ["len()", "len()", "maxLen"] ["+", ">"]), isRet ["false"], (· == .done),
      isCall "m.store.Header"] skel_reorgPath = true ∧
    hasInfix [(· == .loop ["a", "b"] [">"]), isCall "closure1", (· == .ifc ["closure1()", "a"] ["!"]), isRet []] skel_reorgPath = true ∧
    hasInfix [(· == .loop ["b", "a"] [">"]), isCall "closure1", (· == .ifc ["closure1()", "b"] ["!"]), isRet []] skel_reorgPath = true ∧
    hasInfix [(· == .loop ["a", "b"] ["!="]), isCall "closure1", isCall "closure1",
      (· == .ifc ["closure1()", "a", "closure1()", "b"] ["!", "||", "!"]), isRet []] skel_reorgPath = true ∧
    occurs isStoreWrite skel_reorgPath = false ∧ occurs isSet skel_reorgPath = false := by decide


/-- the reorg decision follows the per-block loop directly, for every non-empty batch: the only
successful returns are the one for an empty batch (first statement) and the last statement — no
early `return nil` (e.g. "nothing new was stored") can skip the decision -/
theorem src_addblocks_decision_always_reached :
    hasInfix [isCall "m.store.AddState", isCall "m.store.AddBlock", (· == .done),
      isCall ".SufficientlyHeavierThan", isHeavierGuard] skel_AddBlocks = true ∧
    (skel_AddBlocks.filter (isRet ["nil"])).length = 2 ∧
    matchPrefix [isCall "m.mu.Lock", (· == .defer), isCall "m.mu.Unlock",
      (· == .ifc ["len()", "blocks"] ["=="]), isRet ["nil"], (· == .done)] skel_AddBlocks = true ∧
    skel_AddBlocks.getLast? = some (.ret ["nil"]) ∧
    (skel_AddValidatedV2Blocks.filter (isRet ["nil"])).length = 2 ∧
    skel_AddValidatedV2Blocks.getLast? = some (.ret ["nil"]) := by decide

/-- `AddValidatedV2Blocks` stores every block of the batch with its supplied state
unconditionally (the only test in the loop is "is a v2 block"): a block already stored as a side
block gets its complete state (`Model/ChainF.lean: addV2LoopF`, theorem `stored_states_complete`) -/
theorem src_addv2_stores_unconditionally :
    hasInfix [(· == .loop ["range", "blocks"] []), (· == .ifc ["blocks"] ["=="]), isRet ["E"], (· == .done),
      isCall "m.store.AddBlock", isCall "m.store.AddState", (· == .done),
      isCall ".SufficientlyHeavierThan", isHeavierGuard] skel_AddValidatedV2Blocks = true := by decide


/-! ### the ancestor timestamp (pre-Oak retarget): what the manager asks for and how the store finds it -/

def ancestorArgs : List Tok → List (List String)
  | [] => []
  | .call "m.store.AncestorTimestamp" a :: ts => a :: ancestorArgs ts
  | _ :: ts => ancestorArgs ts

/-- every caller asks for the ancestor of the block's PARENT (`b.ParentID`), in both branches of
`applyTip` (first application and re-application from the store), in `AddBlocks` and in
`UpdatesSince` -/
theorem src_ancestor_timestamp_of_parent :
    ancestorArgs skel_applyTip = [[".ParentID"], [".ParentID"]] ∧
    ancestorArgs skel_AddBlocks = [[".ParentID"]] ∧
    ancestorArgs skel_UpdatesSince = [[".ParentID"]] := by decide

/-- `DBStore.AncestorTimestamp`: zero time iff the block's height is ABOVE the Oak hardfork height
(`>`); otherwise at most `AncestorDepth` and at most `height` steps, each either the jump through
the best-chain index (then stop) or one parent link; the timestamp is read once, AFTER the loop,
from the record the walk ended on -/
theorem src_store_ancestor_timestamp_shape :
    skel_DBStore_AncestorTimestamp.head? = some (.call "db.State" []) ∧
    hasInfix [(· == .ifc ["db.n.HardforkOak.Height"] [">"]), isRet ["v", "true"], (· == .done)]
      skel_DBStore_AncestorTimestamp = true ∧
    firstBefore (· == .ifc ["db.n.HardforkOak.Height"] [">"]) isLoop skel_DBStore_AncestorTimestamp = true ∧
    occurs (fun t => match t with | .loop _ ["<", "&&", "<", "++"] => true | _ => false) skel_DBStore_AncestorTimestamp = true ∧
    (skel_DBStore_AncestorTimestamp.filter isLoop).length = 1 ∧
    hasInfix [isCall "closure1", (fun t => match t with | .ifc _ ["==", "-"] => true | _ => false)]
      skel_DBStore_AncestorTimestamp = true ∧
    hasInfix [(· == .brk), (· == .done), isCall "db.getAncestorInfo", (· == .done), isCall "db.getAncestorInfo", isRet []]
      skel_DBStore_AncestorTimestamp = true ∧
    (callNames skel_DBStore_AncestorTimestamp).count "db.getAncestorInfo" = 2 ∧
    skel_DBStore_AncestorTimestamp.getLast? = some (.ret []) := by decide

/-! ### lock discipline of `chain.Manager`: the methods that read or change the CHAIN
(the pool's methods are the subject of `Props/C05Src.lean`) -/

open Verif.LockTab

/-- the methods of the manager that read or change the chain -/
def chainMethods : List String :=
  ["AddBlocks", "AddValidatedV2Blocks", "PruneBlocks", "UpdatesSince", "Tip", "TipState", "Block", "BestIndex",
   "State", "History", "Headers", "BlocksForHistory", "MinReorgIndex", "OnReorg",
   "applyTip", "revertTip", "reorgPath", "reorgTo"]

def chainLocks := managerLocks.filter (fun e => chainMethods.contains e.1)

/-- the manager's mutex is an exclusive lock: no reader can run beside a writer, or beside another
reader that fills the store's caches -/
theorem src_manager_mutex_exclusive : managerMutexType = "sync.Mutex" := by decide

/-- the only operations applied to `m.mu` are `Lock`, a deferred `Unlock` and a plain `Unlock` -/
theorem src_chain_lock_ops_closed : opsClosed chainLocks = true := by decide

/-- every exported chain method that touches the chain state, the store or the listener table
(directly or through an unexported method) takes the lock FIRST and releases it by a deferred
unlock; nothing is read before the lock is held -/
theorem src_chain_exported_methods_lock_first : exportedLockFirst chainLocks = true := by decide

/-- `reorgTo`, `applyTip`, `revertTip`, `reorgPath` never operate on the lock: they run inside their
caller's critical section, so no window opens in the middle of a change -/
theorem src_chain_internal_methods_never_lock : internalNeverLock chainLocks = true := by decide

/-- the lock is opened in the middle of a chain method only by `AddBlocks` and
`AddValidatedV2Blocks` (to call the listeners, see `C04Src`), once, and closed again at once;
every other chain method holds the lock from its first statement to its return -/
theorem src_chain_unlock_windows :
    (chainLocks.filter (fun e => (lkOps e).contains "Unlock")).map (·.1) = ["AddBlocks", "AddValidatedV2Blocks"] ∧
    chainLocks.all (fun e => windowsClosed (lkOps e)) = true ∧
    chainLocks.all (fun e => (lkOps e).count "Unlock" ≤ 1) = true ∧
    chainLocks.all (fun e => !(lkExported e && lkTouches e) || (lkOps e).contains "Unlock" || e.1 == "OnReorg" ||
      lkOps e == ["Lock", "defer Unlock"]) = true := by decide

/-- the shape `Model/Mutex.lean` gives a caller (`Props/C01.locked_callers_serializable`): every
exported chain method that touches the state is a sequence of critical sections — two for
`AddBlocks`/`AddValidatedV2Blocks` (change; listeners outside; epilogue), one for every other -/
theorem src_chain_methods_are_sections :
    (chainLocks.filter (fun e => lkExported e && lkTouches e)).map (fun e => (e.1, sectionsOf (lkOps e))) =
      [("AddBlocks", some 2), ("AddValidatedV2Blocks", some 2), ("BestIndex", some 1), ("Block", some 1),
       ("BlocksForHistory", some 1), ("Headers", some 1), ("History", some 1), ("MinReorgIndex", some 1),
       ("OnReorg", some 1), ("PruneBlocks", some 1), ("State", some 1), ("TipState", some 1),
       ("UpdatesSince", some 1)] := by decide

/-- non-vacuity: every method named above is in the table extracted from the source -/
theorem src_chain_lock_table_covers :
    chainMethods.all (fun n => managerLocks.any (·.1 == n)) = true ∧ chainLocks.length = chainMethods.length := by
  decide

end Verif.C01Src
