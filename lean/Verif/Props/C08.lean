/-
C08 — the host commits only doubly-signed, monotone, value-conserving revisions.

Property theorems only.  Model: `Verif/Model/Rhp.lean` (every revising handler of
`/repo/rhp/v4/server.go`: lock, challenge, request validation, `ReviseFor*`, renter signature over
the recomputed revision, host signature, the contractor's own checks — in source order); lemmas:
`Verif/Lemmas/Rhp.lean`.  Signatures are ideal (a signature is the pair (key, signed object)).
Tied to the real code by `harness/c08` (every revising RPC × 36 single-field corruptions and
replays by a raw renter, histories, renewal, expiry; recording Contractor; consensus validation
of the latest revision).
-/
import Verif.Lemmas.Rhp
import Verif.Extracted.RhpHostFacts

namespace Verif.C08
open Verif.Rhp

/-! ### every persisted revision -/

/-- the amount due for the service a request asks for, under the price table it carries (the usage
formulas of `go.sia.tech/core/rhp/v4`), or the deposited total when funding accounts -/
def amountDue (h : Host) (cs : CState) : Req → Nat
  | .free _ p _ is _ => freeCost p.f is.length
  | .append _ p _ sectors _ =>
      appendCost p.f (appendGrowth cs.c.body (acceptedRoots h sectors).length) (cs.c.body.expHeight - p.f.tipHeight)
  | .roots _ p _ len _ => rootsCost p.f len
  | .fund _ ds _ => depositTotal ds
  | .replenish pool _ accounts target _ _ =>
      depositTotal (replenishDeposits (if pool then poolBal h.pools else h.accounts) target accounts)
  | _ => 0

/-- the contract a request addresses -/
def contractOf : Req → Option Nat
  | .free cid _ _ _ _ | .append cid _ _ _ _ | .roots cid _ _ _ _ | .fund cid _ _ | .replenish _ cid _ _ _ _ => some cid
  | _ => none

/-- **Every revision the host persists or signs** — for any host state and any request whatsoever —
belongs to a revisable contract, has the next revision number, the same keys, heights and total
collateral, moves exactly the amount due from the renter's to the host's payout (so the payout sum
is constant and no value moves to the renter), does not raise the missed host value, and carries a
renter signature and a host signature over exactly that revision (`RevStep`). -/
theorem persisted_revision_ok (h : Host) (r : Req) :
    (∀ cid c roots, (Rhp.decide h r).eff = .revise cid c roots →
       ∃ cs, h.contracts cid = some cs ∧ revisable h cs = true ∧ contractOf r = some cid ∧
         RevStep cs.c c (amountDue h cs r)) ∧
    (∀ pool cid c ds, (Rhp.decide h r).eff = .credit pool cid c ds →
       ∃ cs, h.contracts cid = some cs ∧ revisable h cs = true ∧ contractOf r = some cid ∧
         RevStep cs.c c (amountDue h cs r) ∧ amountDue h cs r = depositTotal ds) := by
  constructor
  · intro cid c roots he
    cases r <;> simp only [Rhp.decide] at he
    case garbage => simp [reject] at he
    case latest cid' => unfold decideLatest at he; split at he <;> simp [reject] at he
    case balance => simp at he
    case read p t root off len =>
      obtain ⟨_, _, _, _, h2⟩ := decideRead_eff he (by simp); cases h2
    case write p t len data =>
      obtain ⟨_, _, _, _, _, h2⟩ := decideWrite_eff he (by simp); cases h2
    case verify p t root leaf =>
      obtain ⟨_, _, _, _, h2⟩ := decideVerify_eff he (by simp); cases h2
    case free cid' p chal is second =>
      obtain ⟨cs, b', rsig, hc, hr, _, _, _, hb, hv, ha, h2⟩ := decideFree_eff he (by simp)
      cases h2
      exact ⟨cs, hc, hr, rfl, revStep_of_paid (reviseFree_some hb).1 hv ha⟩
    case append cid' p chal sectors second =>
      obtain ⟨cs, b', rsig, hc, hr, _, _, _, hb, hv, ha, h2⟩ := decideAppend_eff he (by simp)
      cases h2
      exact ⟨cs, hc, hr, rfl, revStep_of_paid (reviseAppend_some hb).1 hv ha⟩
    case roots cid' p off len sig =>
      obtain ⟨cs, b', hc, hr, _, _, _, hb, hv, ha, h2⟩ := decideRoots_eff he (by simp)
      cases h2
      exact ⟨cs, hc, hr, rfl, revStep_of_paid (revisePlain_some hb).1 hv ha⟩
    case fund cid' ds sig =>
      obtain ⟨_, _, _, _, _, _, _, h2⟩ := decideFund_eff he (by simp); cases h2
    case replenish pool cid' accounts target chal second =>
      obtain ⟨_, _, _, _, _, _, _, _, _, _, _, h2⟩ := decideReplenish_eff he (by simp); cases h2
    case attach l => obtain ⟨_, _, _, h2⟩ := decideAttach_eff he (by simp); cases h2
    case detach l => obtain ⟨_, _, h2⟩ := decideDetach_eff he (by simp); cases h2
  · intro pool cid c ds he
    cases r <;> simp only [Rhp.decide] at he
    case garbage => simp [reject] at he
    case latest cid' => unfold decideLatest at he; split at he <;> simp [reject] at he
    case balance => simp at he
    case read p t root off len =>
      obtain ⟨_, _, _, _, h2⟩ := decideRead_eff he (by simp); cases h2
    case write p t len data =>
      obtain ⟨_, _, _, _, _, h2⟩ := decideWrite_eff he (by simp); cases h2
    case verify p t root leaf =>
      obtain ⟨_, _, _, _, h2⟩ := decideVerify_eff he (by simp); cases h2
    case free cid' p chal is second =>
      obtain ⟨_, _, _, _, _, _, _, _, _, _, _, h2⟩ := decideFree_eff he (by simp); cases h2
    case append cid' p chal sectors second =>
      obtain ⟨_, _, _, _, _, _, _, _, _, _, _, h2⟩ := decideAppend_eff he (by simp); cases h2
    case roots cid' p off len sig =>
      obtain ⟨_, _, _, _, _, _, _, _, _, _, h2⟩ := decideRoots_eff he (by simp); cases h2
    case fund cid' ds' sig =>
      obtain ⟨cs, b', hc, hr, hb, hv, ha, h2⟩ := decideFund_eff he (by simp)
      cases h2
      exact ⟨cs, hc, hr, rfl, revStep_of_paid (revisePlain_some hb).1 hv ha, rfl⟩
    case replenish pool' cid' accounts target chal second =>
      obtain ⟨cs, b', rsig, hc, hr, _, _, _, hb, hv, ha, h2⟩ := decideReplenish_eff he (by simp)
      cases h2
      exact ⟨cs, hc, hr, rfl, revStep_of_paid (revisePlain_some hb).1 hv ha, rfl⟩
    case attach l => obtain ⟨_, _, _, h2⟩ := decideAttach_eff he (by simp); cases h2
    case detach l => obtain ⟨_, _, h2⟩ := decideDetach_eff he (by simp); cases h2

/-- the totals the host charges never leave the 128-bit range of `types.Currency`: a fund or
replenish request whose deposits add up beyond 2^128-1 is never committed (the handler's
`Currency.Add` panics and the stream is closed), so the natural-number arithmetic of the model and
the 128-bit arithmetic of the code agree on every committed revision — no total can wrap -/
theorem credited_total_fits_currency (h : Host) (r : Req) (pool : Bool) (cid : Nat) (c : Contract) (ds : List (Nat × Nat))
    (he : (Rhp.decide h r).eff = .credit pool cid c ds) : depositTotal ds ≤ maxCurrency := by
  cases r <;> simp only [Rhp.decide] at he
  case garbage => simp [reject] at he
  case latest cid' => unfold decideLatest at he; split at he <;> simp [reject] at he
  case balance => simp at he
  case read p t root off len => obtain ⟨_, _, _, _, h2⟩ := decideRead_eff he (by simp); cases h2
  case write p t len data => obtain ⟨_, _, _, _, _, h2⟩ := decideWrite_eff he (by simp); cases h2
  case verify p t root leaf => obtain ⟨_, _, _, _, h2⟩ := decideVerify_eff he (by simp); cases h2
  case free cid' p chal is second =>
    obtain ⟨_, _, _, _, _, _, _, _, _, _, _, h2⟩ := decideFree_eff he (by simp); cases h2
  case append cid' p chal sectors second =>
    obtain ⟨_, _, _, _, _, _, _, _, _, _, _, h2⟩ := decideAppend_eff he (by simp); cases h2
  case roots cid' p off len sig => obtain ⟨_, _, _, _, _, _, _, _, _, _, h2⟩ := decideRoots_eff he (by simp); cases h2
  case fund cid' ds' sig =>
    have hle := decideFund_total_le he (by simp)
    obtain ⟨_, _, _, _, _, _, _, h2⟩ := decideFund_eff he (by simp)
    cases h2; exact hle
  case replenish pool' cid' accounts target chal second =>
    have hle := decideReplenish_total_le he (by simp)
    obtain ⟨_, _, _, _, _, _, _, _, _, _, _, h2⟩ := decideReplenish_eff he (by simp)
    cases h2; exact hle
  case attach l => obtain ⟨_, _, _, h2⟩ := decideAttach_eff he (by simp); cases h2
  case detach l => obtain ⟨_, _, h2⟩ := decideDetach_eff he (by simp); cases h2

/-- a fund request whose deposits overflow 128 bits changes nothing, whatever it is signed over -/
theorem overflowing_deposits_change_nothing (h : Host) (cid : Nat) (ds : List (Nat × Nat)) (sig : Sig)
    (hov : maxCurrency < depositTotal ds) : (step h (.fund cid ds sig)).1 = h := by
  have : (decideFund h cid ds sig).eff = .none := by
    by_cases hn : (decideFund h cid ds sig).eff = .none
    · exact hn
    · have := decideFund_total_le rfl hn; omega
  simp only [step, Rhp.decide, this, apply]

/-- **the replenish deposits are fixed at the quote**: whenever a replenish handler credits, the list
it hands to the contractor is exactly the list it quoted in its first response (computed from the
balances at that moment), the revision both parties signed pays exactly the total of that list, and
crediting that list adds exactly the quoted amounts to *whatever* the balances are by then — so
nothing that happens between the quote and the renter's signature (a paid read or write on another
stream, a funding through another contract) can make the amount credited differ from the amount
signed for -/
theorem replenish_credits_the_quote (h : Host) (pool : Bool) (cid : Nat) (accounts : List Nat) (target : Nat)
    (chal : Sig) (second : Option Sig) (pool' : Bool) (cid' : Nat) (c : Contract) (ds : List (Nat × Nat))
    (he : (decideReplenish h pool cid accounts target chal second).eff = .credit pool' cid' c ds) :
    ds = replenishDeposits (if pool then poolBal h.pools else h.accounts) target accounts ∧
    (decideReplenish h pool cid accounts target chal second).out.vals = ds.map (·.2) ∧
    (∃ cs, h.contracts cid = some cs ∧ RevStep cs.c c (depositTotal ds)) ∧
    (∀ (later : Nat → Nat) (a : Nat), creditAccounts later ds a = later a + depositTo a ds) ∧
    (∀ (later : Nat → Option Nat) (a : Nat), poolBal (creditPools later ds) a = poolBal later a + depositTo a ds) := by
  have hne : (decideReplenish h pool cid accounts target chal second).eff ≠ .none := by rw [he]; simp
  obtain ⟨cs, b', rsig, hc, _, _, _, _, hb, hv, ha, h2⟩ := decideReplenish_eff rfl hne
  rw [he] at h2
  cases h2
  refine ⟨rfl, decideReplenish_vals hne, ⟨cs, hc, revStep_of_paid (revisePlain_some hb).1 hv ha⟩, ?_, ?_⟩
  · intro later a; exact creditAccounts_apply _ later a
  · intro later a; exact creditPools_apply _ later a

/-- what `RevStep` says, spelled out in the property's words -/
theorem revStep_meaning {old new : Contract} {cost : Nat} (s : RevStep old new cost) :
    old.body.rev < new.body.rev ∧
    new.body.renterKey = old.body.renterKey ∧ new.body.hostKey = old.body.hostKey ∧
    new.body.proofHeight = old.body.proofHeight ∧ new.body.expHeight = old.body.expHeight ∧
    new.body.totalColl = old.body.totalColl ∧
    new.body.renterOut + new.body.hostOut = old.body.renterOut + old.body.hostOut ∧
    old.body.hostOut ≤ new.body.hostOut ∧
    old.body.renterOut - new.body.renterOut = cost ∧ new.body.renterOut ≤ old.body.renterOut ∧
    new.body.missedHost ≤ old.body.missedHost ∧
    verify new.body.renterKey (.contract new.body) new.renterSig = true ∧
    verify new.body.hostKey (.contract new.body) new.hostSig = true := by
  have := s.rev; have := s.renterOut; have := s.hostOut; have := s.afford
  refine ⟨by omega, s.renterKey, s.hostKey, s.proofHeight, s.expHeight, s.totalColl, by omega, by omega, by omega,
    by omega, s.missed, ?_, ?_⟩
  · rw [verify_iff, s.rsig, s.renterKey]
  · rw [verify_iff, s.hsig, s.hostKey]

/-! ### consecutive revisions over any history -/

/-- over any sequence of operations the state of a contract only moves forward: its revision number
never falls and the contract is unchanged while the number is, capacity never shrinks, the payout
sum is constant, the host's payout never falls, the missed host value never rises, collateral,
heights and keys never change -/
theorem contract_evolves (h : Host) (ops : List Op) (cid : Nat) (cs : CState) (hc : h.contracts cid = some cs) :
    ∃ cs', (run h ops).contracts cid = some cs' ∧ Evolves cs.c cs'.c :=
  run_evolves ops h cid cs hc

/-- `consensus/validation.go:768-800`, the checks `validateRevision` makes on a revision of an
on-chain contract `cur` at child height `ht` (signatures with the *current* keys) -/
structure ConsensusRevisionOk (ht : Nat) (cur rev : Contract) : Prop where
  capacity : cur.body.capacity ≤ rev.body.capacity
  filesize : rev.body.filesize ≤ rev.body.capacity
  window : ht ≤ cur.body.proofHeight
  revnum : cur.body.rev < rev.body.rev
  sum : rev.body.renterOut + rev.body.hostOut = cur.body.renterOut + cur.body.hostOut
  missed : rev.body.missedHost ≤ cur.body.missedHost
  missedHost : rev.body.missedHost ≤ rev.body.hostOut
  totalColl : rev.body.totalColl = cur.body.totalColl
  proofHeight : ht ≤ rev.body.proofHeight
  expiry : rev.body.proofHeight < rev.body.expHeight
  renterSig : verify cur.body.renterKey (.contract rev.body) rev.renterSig = true
  hostSig : verify cur.body.hostKey (.contract rev.body) rev.hostSig = true

/-- **The latest revision is always acceptable to consensus as a revision of the on-chain
contract**: take any state the host ever held for a contract as the on-chain one (`cs0`, from an
invariant-satisfying host), run any sequence of operations; if the host's latest revision is newer
and the proof window has not opened, it passes every check of `validateRevision`. -/
theorem latest_revision_acceptable (h : Host) (hi : Inv h) (ops : List Op) (cid : Nat) (cs0 cs1 : CState)
    (hc0 : h.contracts cid = some cs0) (hc1 : (run h ops).contracts cid = some cs1)
    (hnewer : cs0.c.body.rev < cs1.c.body.rev) (ht : Nat) (hwin : ht ≤ cs0.c.body.proofHeight) :
    ConsensusRevisionOk ht cs0.c cs1.c := by
  obtain ⟨cs', h1, e⟩ := run_evolves ops h cid cs0 hc0
  rw [hc1] at h1; simp only [Option.some.injEq] at h1; subst h1
  have inv := run_inv ops hi cid cs1 hc1
  constructor
  · exact e.capacity
  · exact inv.cap
  · exact hwin
  · exact hnewer
  · exact e.sum
  · exact e.missed
  · exact inv.missed
  · exact e.totalColl
  · rw [e.proofHeight]; exact hwin
  · exact inv.heights
  · rw [verify_iff, inv.rsig, e.renterKey]
  · rw [verify_iff, inv.hsig, e.hostKey]

/-- and whatever the host holds is doubly signed, at every moment of every history -/
theorem always_doubly_signed (h : Host) (hi : Inv h) (ops : List Op) (cid : Nat) (cs : CState)
    (hc : (run h ops).contracts cid = some cs) :
    verify cs.c.body.renterKey (.contract cs.c.body) cs.c.renterSig = true ∧
    verify cs.c.body.hostKey (.contract cs.c.body) cs.c.hostSig = true := by
  have inv := run_inv ops hi cid cs hc
  exact ⟨by rw [verify_iff, inv.rsig], by rw [verify_iff, inv.hsig]⟩

/-! ### rejected requests change nothing -/

/-- any request that is not answered `ok` — failed check, abort, undecodable — changes nothing at all -/
theorem rejected_unchanged (h : Host) (r : Req) (hfail : (step h r).2.1.cls ≠ .ok) : (step h r).1 = h := by
  rcases decide_good h r with hn | hok
  · simp only [step, hn, apply]
  · exact absurd hok hfail

/-- a contract is revised only through a request that addresses it, and only while it is revisable
(not renewed, proof height not reached) -/
theorem only_revisable_contracts_change (h : Host) (r : Req) (cid : Nat) (cs : CState)
    (hc : h.contracts cid = some cs) (hnot : revisable h cs = false ∨ contractOf r ≠ some cid) :
    (step h r).1.contracts cid = some cs := by
  have hp := persisted_revision_ok h r
  simp only [step]
  cases he : (Rhp.decide h r).eff with
  | none => exact hc
  | revise cid' c roots =>
    obtain ⟨cs1, hc1, hr, hco, _⟩ := hp.1 cid' c roots he
    simp only [apply, hc1]
    by_cases heq : cid = cid'
    · subst heq
      rw [hc] at hc1; simp only [Option.some.injEq] at hc1; subst hc1
      rcases hnot with h1 | h1
      · rw [h1] at hr; cases hr
      · exact absurd hco h1
    · simp [upd_other _ _ _ _ heq, hc]
  | credit pool cid' c ds =>
    obtain ⟨cs1, hc1, hr, hco, _⟩ := hp.2 pool cid' c ds he
    simp only [apply, hc1]
    by_cases heq : cid = cid'
    · subst heq
      rw [hc] at hc1; simp only [Option.some.injEq] at hc1; subst hc1
      rcases hnot with h1 | h1
      · rw [h1] at hr; cases hr
      · exact absurd hco h1
    · cases pool <;> simp [upd_other _ _ _ _ heq, hc]
  | debit a cost => exact hc
  | debitStore a cost root => exact hc
  | attach l => exact hc
  | detach l => exact hc

/-- the individual gates, each of which alone makes the request change nothing: a challenge that
is not the renter's signature over (contract, next revision number) … -/
theorem bad_challenge_changes_nothing (h : Host) (cid : Nat) (cs : CState) (hc : h.contracts cid = some cs)
    (p : Prices) (chal : Sig) (l : List Nat) (second : Option Sig)
    (hbad : chal ≠ .mk cs.c.body.renterKey (.challenge cid (cs.c.body.rev + 1))) :
    (step h (.free cid p chal l second)).1 = h ∧ (step h (.append cid p chal l second)).1 = h := by
  constructor
  · have : (decideFree h cid p chal l second).eff = .none := by
      by_cases hn : (decideFree h cid p chal l second).eff = .none
      · exact hn
      · obtain ⟨cs1, _, _, hc1, _, _, hv, _⟩ := decideFree_eff rfl hn
        rw [hc] at hc1; simp only [Option.some.injEq] at hc1; subst hc1
        exact absurd ((verify_iff _ _ _).mp hv) hbad
    simp only [step, Rhp.decide, this, apply]
  · have : (decideAppend h cid p chal l second).eff = .none := by
      by_cases hn : (decideAppend h cid p chal l second).eff = .none
      · exact hn
      · obtain ⟨cs1, _, _, hc1, _, _, hv, _⟩ := decideAppend_eff rfl hn
        rw [hc] at hc1; simp only [Option.some.injEq] at hc1; subst hc1
        exact absurd ((verify_iff _ _ _).mp hv) hbad
    simp only [step, Rhp.decide, this, apply]

/-- … a replenish challenge that is not the renter's signature over (accounts, target, contract,
current revision number) … -/
theorem bad_replenish_challenge_changes_nothing (h : Host) (cid : Nat) (cs : CState) (hc : h.contracts cid = some cs)
    (pool : Bool) (accounts : List Nat) (target : Nat) (chal : Sig) (second : Option Sig)
    (hbad : chal ≠ .mk cs.c.body.renterKey (.replChallenge accounts target cid cs.c.body.rev)) :
    (step h (.replenish pool cid accounts target chal second)).1 = h := by
  have : (decideReplenish h pool cid accounts target chal second).eff = .none := by
    by_cases hn : (decideReplenish h pool cid accounts target chal second).eff = .none
    · exact hn
    · obtain ⟨cs1, _, _, hc1, _, _, _, hv, _⟩ := decideReplenish_eff rfl hn
      rw [hc] at hc1; simp only [Option.some.injEq] at hc1; subst hc1
      exact absurd ((verify_iff _ _ _).mp hv) hbad
  simp only [step, Rhp.decide, this, apply]

/-- … a price table that is expired or not signed by this host over exactly its fields … -/
theorem bad_prices_change_nothing (h : Host) (cid : Nat) (p : Prices) (hbad : pricesValid h p = false)
    (chal : Sig) (l : List Nat) (second : Option Sig) (off len : Nat) (sig : Sig) :
    (step h (.free cid p chal l second)).1 = h ∧ (step h (.append cid p chal l second)).1 = h ∧
    (step h (.roots cid p off len sig)).1 = h := by
  refine ⟨?_, ?_, ?_⟩
  · have : (decideFree h cid p chal l second).eff = .none := by
      by_cases hn : (decideFree h cid p chal l second).eff = .none
      · exact hn
      · obtain ⟨_, _, _, _, _, _, _, hv, _⟩ := decideFree_eff rfl hn; rw [hbad] at hv; cases hv
    simp only [step, Rhp.decide, this, apply]
  · have : (decideAppend h cid p chal l second).eff = .none := by
      by_cases hn : (decideAppend h cid p chal l second).eff = .none
      · exact hn
      · obtain ⟨_, _, _, _, _, _, _, hv, _⟩ := decideAppend_eff rfl hn; rw [hbad] at hv; cases hv
    simp only [step, Rhp.decide, this, apply]
  · have : (decideRoots h cid p off len sig).eff = .none := by
      by_cases hn : (decideRoots h cid p off len sig).eff = .none
      · exact hn
      · obtain ⟨_, _, _, _, hv, _⟩ := decideRoots_eff rfl hn; rw [hbad] at hv; cases hv
    simp only [step, Rhp.decide, this, apply]

/-- … a renter signature that is anything but the renter key's signature over exactly the revision
the host recomputed (another revision number — stale, equal or future — another payout, root, size,
key, height, collateral; another key; a replayed signature): here for fund, the others alike -/
theorem wrong_revision_signature_changes_nothing (h : Host) (cid : Nat) (cs : CState) (hc : h.contracts cid = some cs)
    (ds : List (Nat × Nat)) (sig : Sig)
    (hbad : ∀ b', reviseFund cs.c.body (depositTotal ds) = some b' → sig ≠ .mk cs.c.body.renterKey (.contract b')) :
    (step h (.fund cid ds sig)).1 = h := by
  have : (decideFund h cid ds sig).eff = .none := by
    by_cases hn : (decideFund h cid ds sig).eff = .none
    · exact hn
    · obtain ⟨cs1, b', hc1, _, hb, hv, _⟩ := decideFund_eff rfl hn
      rw [hc] at hc1; simp only [Option.some.injEq] at hc1; subst hc1
      exact absurd ((verify_iff _ _ _).mp hv) (hbad b' hb)
  simp only [step, Rhp.decide, this, apply]

theorem wrong_free_signature_changes_nothing (h : Host) (cid : Nat) (cs : CState) (hc : h.contracts cid = some cs)
    (p : Prices) (chal : Sig) (is : List Nat) (rsig : Sig)
    (hbad : ∀ b', reviseFree cs.c.body p.f (metaRoot (freeBatch cs.roots is)) is.length = some b' →
      rsig ≠ .mk cs.c.body.renterKey (.contract b')) :
    (step h (.free cid p chal is (some rsig))).1 = h := by
  have : (decideFree h cid p chal is (some rsig)).eff = .none := by
    by_cases hn : (decideFree h cid p chal is (some rsig)).eff = .none
    · exact hn
    · obtain ⟨cs1, b', rsig', hc1, _, hs, _, _, hb, hv, _⟩ := decideFree_eff rfl hn
      rw [hc] at hc1; simp only [Option.some.injEq] at hc1; subst hc1
      simp only [Option.some.injEq] at hs; subst hs
      exact absurd ((verify_iff _ _ _).mp hv) (hbad b' hb)
  simp only [step, Rhp.decide, this, apply]

/-- a signature valid for one revision is not valid for the next: replaying it changes nothing -/
theorem replayed_fund_signature_changes_nothing (h : Host) (cid : Nat) (ds : List (Nat × Nat)) (sig : Sig)
    (hok : (step h (.fund cid ds sig)).2.1.cls = .ok) :
    (step (step h (.fund cid ds sig)).1 (.fund cid ds sig)).1 = (step h (.fund cid ds sig)).1 := by
  have hne := decideFund_strict h cid ds sig hok
  obtain ⟨cs, b', hc, _, hb, hv, _, he⟩ := decideFund_eff rfl hne
  have hst : (step h (.fund cid ds sig)).1.contracts cid = some { cs with c := signed h b' sig } := by
    simp only [step, Rhp.decide, he, apply, hc, Bool.false_eq_true, if_false, upd_same]
  apply wrong_revision_signature_changes_nothing _ cid _ hst
  intro b2 hb2 heq
  have hv' := (verify_iff _ _ _).mp hv
  rw [hv'] at heq
  -- the second revision has a higher revision number than the first
  obtain ⟨p1, _, _, _⟩ := revisePlain_some hb
  obtain ⟨p2, _, _, _⟩ := revisePlain_some hb2
  have h1 := p1.rev
  have h2 : b2.rev = b'.rev + 1 := p2.rev
  injection heq with _ hm
  injection hm with hbb
  rw [hbb] at h2
  omega

/-! ### the statement order the model transcribes, re-read from the source on every run -/

open Verif.Extracted in
/-- `Extracted/RhpHostFacts.lean` is regenerated from `/repo/rhp/v4/server.go` by `vh srcfacts`: in
every revising handler the contract is locked first and the unlock deferred right away (so handlers
on one contract are serialised and every exit releases the lock), the renter's signature is
verified after that and before the host signs, the host signs before the single persisting call -/
theorem source_order_revising_handlers :
    ∀ hd ∈ [RhpHost.free, RhpHost.append, RhpHost.roots, RhpHost.fund, RhpHost.replenishAccounts, RhpHost.replenishPools],
      hd.found = true ∧ 0 < hd.lock ∧ hd.lock < hd.deferUnlock ∧ hd.deferUnlock < hd.verifySig ∧
      hd.verifySig < hd.hostSign ∧ hd.hostSign ≤ hd.persist ∧ hd.persistCalls = 1 := by
  decide

open Verif.Extracted in
/-- … and the challenge signature is checked under the lock, before anything else is computed -/
theorem source_order_challenges :
    ∀ hd ∈ [RhpHost.free, RhpHost.append, RhpHost.replenishAccounts, RhpHost.replenishPools],
      hd.deferUnlock < hd.challenge ∧ hd.challenge < hd.verifySig := by
  decide

/-! ### non-vacuity -/

namespace Example
def b0 : Body := { rev := 0, renterOut := 10 ^ 15, hostOut := 10 ^ 15 + 5, missedHost := 10 ^ 15, totalColl := 10 ^ 15,
                   filesize := 0, capacity := 0, proofHeight := 100, expHeight := 244, renterKey := 3, hostKey := 1,
                   root := .zero }
def c0 : Contract := { body := b0, renterSig := .mk 3 (.contract b0), hostSig := .mk 1 (.contract b0) }
def sign (h : Host) (cid : Nat) (amount : Nat) : Sig :=
  match h.contracts cid with
  | some cs => match reviseFund cs.c.body amount with
    | some b => .mk cs.c.body.renterKey (.contract b)
    | none => .bad
  | none => .bad
def h0 : Host := run (Host.init 1 1000 10) [.form 1 c0]
def s1 : Sig := sign h0 1 700
def h1 : Host := (step h0 (.fund 1 [(10, 300), (11, 400)] s1)).1

example : (h1.contracts 1).map (·.c.body.rev) = some 1 := by decide
example : (h1.contracts 1).map (·.c.body.renterOut) = some (10 ^ 15 - 700) := by decide
example : (h1.contracts 1).map (·.c.body.hostOut) = some (10 ^ 15 + 705) := by decide
-- replaying the same signature
example : (step h1 (.fund 1 [(10, 300), (11, 400)] s1)).2.1.cls = .badreq := by decide
-- a signature over a revision that pays one hasting less
example : (step h0 (.fund 1 [(10, 300), (11, 400)] (sign h0 1 699))).2.1.cls = .badreq := by decide
example : Inv h0 := run_inv _ (inv_init 1 1000 10)
end Example

end Verif.C08
