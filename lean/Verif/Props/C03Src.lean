/-
C03, source tie: the order of store writes inside one commit unit that the crash model
(`Verif/Model/Commit.lean`) assumes — `applyTip` records a block's state and supplement
(`AddState`, `AddBlock`) BEFORE `Store.ApplyBlock` (which may flush), `revertTip` reverts in the
store before the tip moves, `reorgTo` flushes once at its end and returns the flush error.
-/
import Verif.Extracted.ChainSkel
import Verif.Extracted.DBSkel

namespace Verif.C03Src
open Verif.Skel Verif.Extracted

/-- in `applyTip` the block's state and supplement are recorded before `Store.ApplyBlock` -/
theorem src_applyTip_records_before_apply :
    firstBefore (isCall "m.store.AddState") (isCall "m.store.ApplyBlock") skel_applyTip = true ∧
    firstBefore (isCall "m.store.AddBlock") (isCall "m.store.ApplyBlock") skel_applyTip = true ∧
    (callNames skel_applyTip).count "m.store.ApplyBlock" = 1 ∧
    (callNames skel_applyTip).count "m.store.AddBlock" = 1 := by decide

/-- `reorgTo` flushes exactly once, after both loops, and returns a flush error -/
theorem src_reorgTo_flushes_last :
    firstBefore (isCall "m.applyTip") (isCall "m.store.Flush") skel_reorgTo = true ∧
    firstBefore (isCall "m.revertTip") (isCall "m.store.Flush") skel_reorgTo = true ∧
    hasInfix [isCall "m.store.Flush", isErrCheck, isRet ["E"]] skel_reorgTo = true ∧
    (callNames skel_reorgTo).count "m.store.Flush" = 1 := by decide

/-- `AddBlocks` records the header-level state before the block (`AddState` then `AddBlock`), per
block, and does not flush itself -/
theorem src_addblocks_state_before_block :
    hasInfix [isCall "m.store.AddState", isCall "m.store.AddBlock"] skel_AddBlocks = true ∧
    occurs (isCall "m.store.Flush") skel_AddBlocks = false := by decide

/-- `revertTip`: store revert, then pool, then the tip -/
theorem src_revertTip_order :
    firstBefore (isCall "m.store.RevertBlock") isSet skel_revertTip = true := by decide


/-! ### the store's side of a commit unit (`chain/db.go`) -/

/-- `applyState` / `revertState`: the best-chain index entry of the block is written / DELETED
(not overwritten, not left behind) and the height marker moved -/
theorem src_store_state_index :
    skel_DBStore_applyState = [.call "db.putBestIndex" [], .call "db.putHeight" []] ∧
    skel_DBStore_revertState = [.call "db.deleteBestIndex" [], .call "db.putHeight" []] := by decide

def isRequireGuard : Tok → Bool
  | .ifc ["db.n.HardforkV2.RequireHeight"] ["<="] => true
  | _ => false

/-- `ApplyBlock`: index first, elements only up to the v2 require height, then the time/size
flush (a failed flush panics); `RevertBlock`: elements under the same guard, the index
UNCONDITIONALLY (outside the guard), then the flush -/
theorem src_store_apply_revert_block :
    skel_DBStore_ApplyBlock = [.call "db.applyState" [], .ifc ["db.n.HardforkV2.RequireHeight"] ["<="],
      .call "db.applyElements" [], .done, .call "db.shouldFlush" [], .ifc ["db.shouldFlush()"] [],
      .call "db.Flush" [], .ifc [] ["!="], .panic, .done, .done] ∧
    skel_DBStore_RevertBlock = [.ifc ["db.n.HardforkV2.RequireHeight"] ["<="], .call "db.revertElements" [], .done,
      .call "db.revertState" [], .call "db.shouldFlush" [], .ifc ["db.shouldFlush()"] [],
      .call "db.Flush" [], .ifc [] ["!="], .panic, .done, .done] ∧
    guardedBy (isCall "db.revertState") isRequireGuard skel_DBStore_RevertBlock = false := by decide

/-- `DBStore.Flush`: nothing to do when nothing is unflushed, else the backend's flush, the
counters reset, the backend's error returned -/
theorem src_store_flush :
    skel_DBStore_Flush = [.ifc ["db.unflushed"] ["=="], .ret ["nil"], .done, .call "db.db.Flush" [],
      .set "db.unflushed", .set "db.lastFlush", .ret ["E"]] := by decide

end Verif.C03Src
