/-
Judgement over the facts `srcfacts` extracts from `/repo/wallet/*.go`
(`Verif/Extracted/WalletFacts.lean`, regenerated on every run): which methods of
`SingleAddressWallet` run as one critical section of `sw.mu`, and that nothing reaches the
reservation map `sw.locked` outside one.
-/
import Verif.Extracted.WalletFacts

namespace Verif.WalletLock
open Verif.Extracted

def find (n : String) : Option WMethod := walletMethods.find? fun m => m.method && m.name == n

def fuel : Nat := walletMethods.length

/-- touches `sw.locked` itself, or calls — through methods that do not take the mutex themselves —
one that does -/
def needsLock : Nat → WMethod → Bool
  | 0, m => m.touchesLocked
  | f + 1, m => m.touchesLocked || m.calls.any fun c =>
      match find c with
      | some cm => !cm.lockFirst && needsLock f cm
      | none => false

/-- takes `sw.mu` (directly or in a callee) -/
def takesLock : Nat → WMethod → Bool
  | 0, m => m.lockFirst
  | f + 1, m => m.lockFirst || m.calls.any fun c =>
      match find c with
      | some cm => takesLock f cm
      | none => false

/-- one critical section: `sw.mu.Lock()` at the top level of the body, immediately followed by
`defer sw.mu.Unlock()`, no other Unlock, no `go` statement, and nothing before the Lock that
references `sw.locked` or calls a method needing the mutex -/
def wellLocked (m : WMethod) : Bool :=
  m.lockFirst && m.unlocks == 0 && m.goStmts == 0 && !m.beforeLocked &&
    m.callsBefore.all fun c => match find c with
      | some cm => !needsLock fuel cm
      | none => true

/-- the methods that are one atomic step -/
def lockedMethods : List String := (walletMethods.filter fun m => m.method && wellLocked m).map (·.name)

/-- whatever needs the mutex either is one critical section or is an unexported helper method (then
every caller needs the mutex too — `needsLock` propagates — and is judged in turn); plain
functions and exported methods are entry points -/
def discipline : Bool :=
  walletMethods.all fun m => !needsLock fuel m || wellLocked m || (m.method && !m.exported)

/-- `sync.Mutex` is not re-entrant: a critical section never calls a method that takes the mutex -/
def noReentry : Bool :=
  walletMethods.all fun m => !m.lockFirst || m.calls.all fun c =>
    match find c with
    | some cm => !takesLock fuel cm
    | none => true

end Verif.WalletLock
