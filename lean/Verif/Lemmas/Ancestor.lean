/-
`DBStore.AncestorTimestamp` reads the block `min(depth, height)` parent links above its argument —
whether or not the walk takes the shortcut through the best-chain index, and wherever it takes it.
-/
import Verif.Model.Ancestor
import Verif.Lemmas.Updates

namespace Verif.Chain

/-- along the best chain the height index and the parent links agree -/
theorem Inv.bestAt_anc {U m} (h : Inv U m) {ha a k : Nat} (hb : m.bestAt ha = some a) (hk : k ≤ ha) :
    m.bestAt (ha - k) = some (anc U k a) := by
  have hle : ha ≤ m.tipHeight := by
    by_cases hle : ha ≤ m.tipHeight
    · exact hle
    · rw [h.bestAt_none (by omega)] at hb; simp at hb
  obtain ⟨i, h1, h2, _, _⟩ := h.bestAt_spec (k := ha) hle
  rw [hb] at h1
  have ha' : a = anc U (m.tipHeight - ha) m.tip := by rw [Option.some.inj h1, h2]
  obtain ⟨j, j1, j2, _, _⟩ := h.bestAt_spec (k := ha - k) (by omega)
  rw [j1, j2, ha', ← anc_add]
  congr 2
  omega

theorem ancLoop_spec {U m} (h : Inv U m) {id : Nat} (hs : m.states id = true) (depth : Nat) :
    ∀ (fuel i : Nat), i + fuel = min depth (U id).height →
      ancLoop U m depth (U id).height fuel i (anc U i id) = anc U (min depth (U id).height) id := by
  intro fuel
  induction fuel with
  | zero => intro i hi; simp only [ancLoop]; rw [← hi]; rfl
  | succ fuel ih =>
    intro i hi
    have hilt : i < min depth (U id).height := by omega
    have hih : i ≤ (U id).height := by omega
    obtain ⟨_, hah⟩ := h.s.anc_state hs i hih
    unfold ancLoop
    by_cases hb : m.bestAt ((U id).height - i) = some (anc U i id)
    · rw [if_pos hb]
      by_cases hd : (U id).height < depth
      · -- fewer than `depth` ancestors: the genesis end of the index
        rw [if_pos hd]
        have := h.bestAt_anc hb (k := (U id).height - i) (Nat.le_refl _)
        rw [Nat.sub_self] at this
        rw [this, Option.getD_some, ← anc_add]
        congr 1
        omega
      · rw [if_neg hd]
        have hdi : depth - i ≤ (U id).height - i := by omega
        have := h.bestAt_anc hb hdi
        have e : (U id).height - i - (depth - i) = (U id).height - depth := by omega
        rw [e] at this
        rw [this, Option.getD_some, ← anc_add]
        congr 1
        omega
    · rw [if_neg hb]
      have := ih (i + 1) (by omega)
      rw [anc_succ'] at this
      exact this

/-- **the ancestor read by `AncestorTimestamp(id)`** for a block whose state is stored: the block
`min(depth, height(id))` parent links above `id`, in every reachable state of the manager, for a
block on the best chain or on any fork, however the fork relates to the best chain -/
theorem ancestorOf_spec {U m} (h : Inv U m) {id : Nat} (hs : m.states id = true) (depth : Nat) :
    ancestorOf U m depth id = anc U (min depth (U id).height) id := by
  unfold ancestorOf
  exact ancLoop_spec h hs depth _ 0 (by omega)

end Verif.Chain
