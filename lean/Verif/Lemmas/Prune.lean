/-
Pruning-tolerant invariant of the chain manager (C19): under any interleaving of `AddBlocks`
and `PruneBlocks` the manager never panics.  `WInv` is deliberately weak (it survives even a
failed rollback); the strong invariant of an unpruned node is `Inv` in `Lemmas/Chain.lean`.
-/
import Verif.Lemmas.Chain

namespace Verif.Chain

/-- best chain parent-linked, states closed under parents, and every best-chain block is stored
either completely (body + supplement) or pruned (header only) — never a body without supplement,
which is what `revertTip` would dereference -/
structure WInv (U : Nat → Blk) (m : Mgr) : Prop where
  core : Core U m
  chain : Chain U m.best
  recstate : ∀ i r, m.recs i = some r → m.states i = true
  bestrec : ∀ i ∈ m.best, m.recs i = some ⟨true, true⟩ ∨ m.recs i = some ⟨false, false⟩

theorem Inv.toWInv {U m} (h : Inv U m) : WInv U m :=
  ⟨h.s.core, h.chain, fun i r hr => (h.s.recstate i r hr).2, fun i hi => Or.inl (h.bestsupp i hi)⟩

theorem WInv.best_state {U m} (h : WInv U m) {i : Nat} (hi : i ∈ m.best) : m.states i = true := by
  rcases h.bestrec i hi with e | e <;> exact h.recstate i _ e

theorem WInv.tip_mem {U m} (h : WInv U m) : m.tip ∈ m.best := by
  have := h.chain.ne_nil
  cases hb : m.best with
  | nil => exact absurd hb this
  | cons a t => simp [Mgr.tip, hb]

theorem WInv.tip_state {U m} (h : WInv U m) : m.states m.tip = true := h.best_state h.tip_mem

theorem WInv.length {U m} (h : WInv U m) : m.best.length = (U m.tip).height + 1 := by
  have hc := h.chain
  have : ∀ {l : List Nat}, Chain U l → (∀ i ∈ l, m.states i = true) → l.length = (U (l.headD 0)).height + 1 := by
    intro l hl hst
    induction hl with
    | gen => simp [h.core.h0]
    | @cons a b t ha hp ht ih =>
      have h1 := ih (fun i hi => hst i (by simp [hi]))
      have h2 := (h.core.closed a (hst a (by simp)) ha).2
      simp only [List.headD_cons, List.length_cons] at h1 ⊢
      rw [hp] at h2
      omega
  exact this hc (fun _ hi => h.best_state hi)

theorem WInv.best_getElem {U m} (h : WInv U m) (k : Nat) (hk : k < m.best.length) :
    m.best[k] = anc U k m.tip := by
  have hc := h.chain
  have := hc.getElem_eq_anc k hk
  rw [this]
  congr 1
  unfold Mgr.tip
  rw [List.headD_eq_head?_getD, List.head?_eq_some_head hc.ne_nil]
  rfl

/-- `revertTip` on a chain of at least two blocks: succeeds, or reports a missing block -/
theorem revertTip_w {U m} (h : WInv U m) {t b : Nat} {rest : List Nat} (hb : m.best = t :: b :: rest) :
    (revertTip U m = .ok { m with best := b :: rest } ∧ WInv U { m with best := b :: rest }) ∨
    revertTip U m = .error .missingBlock := by
  have hc := h.chain
  rw [hb] at hc
  obtain ⟨hc', _, hp⟩ := hc.tail
  have hbs : m.states b = true := h.best_state (by simp [hb])
  have hpar : (U t).parent = b := hp
  rcases h.bestrec t (by simp [hb]) with e | e
  · left
    refine ⟨by simp [revertTip, hb, Mgr.block, e, hpar, hbs], ⟨⟨h.core.h0, h.core.closed, h.core.staterec⟩, hc', h.recstate, ?_⟩⟩
    intro i hi; exact h.bestrec i (by rw [hb]; exact List.mem_cons_of_mem _ hi)
  · right
    simp [revertTip, hb, Mgr.block, e]

/-- reverting `n` blocks (fewer than the chain is long) keeps `WInv` and never panics; on success
exactly `n` blocks are gone -/
theorem revertN_w {U} : ∀ (n : Nat) (m : Mgr), WInv U m → n < m.best.length →
    WInv U (revertN U n m).1 ∧ (revertN U n m).1.recs = m.recs ∧ (revertN U n m).1.states = m.states ∧
    (revertN U n m).1.notified = m.notified ∧
    (((revertN U n m).2 = none ∧ (revertN U n m).1.best = m.best.drop n) ∨
     (revertN U n m).2 = some .missingBlock) := by
  intro n
  induction n with
  | zero => intro m h _; simp [revertN, h]
  | succ n ih =>
    intro m h hn
    match hb : m.best with
    | [] => simp [hb] at hn
    | [_] => simp [hb] at hn
    | t :: b :: rest =>
      rcases revertTip_w h hb with ⟨hr, hi⟩ | hr
      · simp only [revertN, hr]
        obtain ⟨i1, i2, i3, i4, i5⟩ := ih { m with best := b :: rest } hi (by simp [hb] at hn ⊢; omega)
        refine ⟨i1, i2, i3, i4, ?_⟩
        rcases i5 with ⟨e1, e2⟩ | e
        · left; exact ⟨e1, by simpa [hb] using e2⟩
        · right; exact e
      · simp only [revertN, hr]
        exact ⟨h, by trivial, by trivial, by trivial, Or.inr (by trivial)⟩

/-- `applyTip` of an attaching stored block never panics -/
theorem applyTip_w {U m} (h : WInv U m) {i : Nat} (hp : par U i = m.tip) (hne : i ≠ 0)
    (hs : m.states i = true) :
    (∃ m', applyTip U m i = .ok m' ∧ WInv U m' ∧ m'.best = i :: m.best ∧ m'.notified = m.notified ∧
        (∀ j, m.states j = true → m'.states j = true)) ∨
    applyTip U m i = .error .invalidBlock ∨ applyTip U m i = .error .missingBlock := by
  have hpar : (U i).parent = m.tip := hp
  have hbest : m.best = m.tip :: m.best.tail := by
    have := h.chain.ne_nil
    cases hb : m.best with
    | nil => exact absurd hb this
    | cons a t => simp [Mgr.tip, hb]
  have hchain : Chain U (i :: m.best) := by
    rw [hbest]; exact Chain.cons hne hp (hbest ▸ h.chain)
  cases hblk : m.block i with
  | none => right; right; simp [applyTip, hblk]
  | some supp =>
    cases supp with
    | true =>
      left
      have hr : m.recs i = some ⟨true, true⟩ := by
        simp only [Mgr.block] at hblk
        cases hr : m.recs i with
        | none => simp [hr] at hblk
        | some r =>
          cases r with
          | mk bd sp =>
            simp only [hr] at hblk
            cases bd <;> simp at hblk
            subst hblk; rfl
      refine ⟨{ m with best := i :: m.best }, by simp [applyTip, hblk, hpar], ⟨⟨h.core.h0, h.core.closed, h.core.staterec⟩, hchain, h.recstate, ?_⟩, rfl, rfl, fun _ x => x⟩
      intro j hj
      rcases List.mem_cons.mp hj with rfl | hj
      · exact Or.inl hr
      · exact h.bestrec j hj
    | false =>
      cases hok : (U i).bodyOk with
      | false => right; left; simp [applyTip, hblk, hpar, hok]
      | true =>
        left
        refine ⟨{ m with states := upd m.states i true, recs := upd m.recs i (some ⟨true, true⟩), best := i :: m.best },
          by simp [applyTip, hblk, hpar, hok], ⟨⟨h.core.h0, ?_, ?_⟩, hchain, ?_, ?_⟩, rfl, rfl, ?_⟩
        · intro j hj hj0
          have hj' : m.states j = true := by
            by_cases e : j = i
            · subst e; exact hs
            · simpa [upd, e] using hj
          obtain ⟨c1, c2⟩ := h.core.closed j hj' hj0
          refine ⟨?_, c2⟩
          by_cases e : par U j = i <;> simp [upd, e, c1]
        · intro j hj
          by_cases e : j = i
          · subst e; simp [upd]
          · simp [upd, e] at hj ⊢; exact h.core.staterec j hj
        · intro j r hj
          by_cases e : j = i
          · subst e; simp [upd]
          · simp [upd, e] at hj ⊢; exact h.recstate j r hj
        · intro j hj
          rcases List.mem_cons.mp hj with rfl | hj
          · left; simp [upd]
          · by_cases e : j = i
            · subst e; left; simp [upd]
            · simpa [upd, e] using h.bestrec j hj
        · intro j hj; by_cases e : j = i <;> simp [upd, e, hj]

theorem applyAll_w {U} : ∀ (l : List Nat) (m : Mgr), WInv U m → Attach U m m.tip l →
    WInv U (applyAll U l m).1 ∧ (applyAll U l m).2 ≠ some .panic ∧
    (applyAll U l m).1.notified = m.notified ∧
    (∀ j, m.states j = true → (applyAll U l m).1.states j = true) := by
  intro l
  induction l with
  | nil => intro m h _; simp [applyAll, h]
  | cons x xs ih =>
    intro m h ⟨hp, hne, hs, hrest⟩
    rcases applyTip_w h hp hne hs with ⟨m', hok, hinv', hbest, hnot, hst⟩ | herr | herr
    · have htip' : m'.tip = x := by simp [Mgr.tip, hbest]
      have hatt : Attach U m' m'.tip xs := by
        rw [htip']
        have : ∀ {tip l}, Attach U m tip l → Attach U m' tip l := by
          intro tip l
          induction l generalizing tip with
          | nil => intro _; trivial
          | cons y ys ihy => intro ⟨a1, a2, a3, a4⟩; exact ⟨a1, a2, hst _ a3, ihy a4⟩
        exact this hrest
      obtain ⟨i1, i2, i3, i4⟩ := ih m' hinv' hatt
      simp only [applyAll, hok]
      exact ⟨i1, i2, by rw [i3, hnot], fun j hj => i4 j (hst j hj)⟩
    · simp only [applyAll, herr]; exact ⟨h, by simp, by trivial, fun _ x => x⟩
    · simp only [applyAll, herr]; exact ⟨h, by simp, by trivial, fun _ x => x⟩

/-- **`reorgTo` never panics**, whatever has been pruned -/
theorem reorgTo_w {U m} (h : WInv U m) {t : Nat} (ht : m.states t = true) :
    WInv U (reorgTo U m t).1 ∧ (reorgTo U m t).2 ≠ some .panic ∧
    (reorgTo U m t).1.notified = m.notified ∧
    (∀ j, m.states j = true → (reorgTo U m t).1.states j = true) := by
  obtain ⟨na, nb, hna, hnb, hpath, hmeet⟩ := reorgPath_spec h.core h.tip_state ht
  have hlen := h.length
  obtain ⟨w1, w2, w3, w4, w5⟩ := revertN_w (U := U) na m h (by omega)
  simp only [reorgTo, hpath, List.length_map, List.length_range]
  rcases hr : revertN U na m with ⟨m1, e1⟩
  rw [hr] at w1 w2 w3 w4 w5
  simp only at w1 w2 w3 w4 w5
  rcases w5 with ⟨e, hbest⟩ | e
  · subst e
    simp only
    have htip1 : m1.tip = anc U nb t := by
      have hk := h.best_getElem na (by omega)
      rw [hmeet] at hk
      simp only [Mgr.tip, hbest]
      rw [← hk, List.headD_eq_head?_getD, List.head?_drop, List.getElem?_eq_getElem (by omega)]
      rfl
    have hst1 : m1.states t = true := by rw [w3]; exact ht
    have hatt : Attach U m1 m1.tip ((List.range nb).map (fun k => anc U k t)).reverse := by
      rw [htip1]; exact attach_anc w1.core hst1 nb hnb
    obtain ⟨a1, a2, a3, a4⟩ := applyAll_w _ _ w1 hatt
    exact ⟨a1, a2, by rw [a3, w4], fun j hj => a4 j (by rw [w3]; exact hj)⟩
  · subst e
    simp only
    exact ⟨w1, by simp, w4, fun j hj => by rw [w3]; exact hj⟩

theorem maybeReorg_w {U m} (h : WInv U m) {cs : Nat} (hcs : m.states cs = true) :
    WInv U (maybeReorg U m cs).1 ∧ (maybeReorg U m cs).2 ≠ some .panic ∧
    (∀ j, m.states j = true → (maybeReorg U m cs).1.states j = true) := by
  unfold maybeReorg
  cases hh : heavier U cs m.tip with
  | false => simp [h]
  | true =>
    simp only [if_true]
    obtain ⟨r1, r2, _, r4⟩ := reorgTo_w h hcs
    rcases hr : reorgTo U m cs with ⟨m1, e1⟩
    rw [hr] at r1 r2 r4
    simp only at r1 r2 r4
    cases e1 with
    | none =>
      simp only
      exact ⟨⟨⟨r1.core.h0, r1.core.closed, r1.core.staterec⟩, r1.chain, r1.recstate, r1.bestrec⟩, by simp, r4⟩
    | some e =>
      cases e with
      | panic => exact absurd rfl r2
      | missingBlock | invalidBlock | tooLong =>
        simp only
        obtain ⟨s1, s2, _, s4⟩ := reorgTo_w r1 (r4 _ h.tip_state)
        rcases hr2 : reorgTo U m1 m.tip with ⟨m2, e2⟩
        rw [hr2] at s1 s2 s4
        simp only at s1 s2 s4
        cases e2 with
        | none => exact ⟨s1, by simp, fun j hj => s4 j (r4 j hj)⟩
        | some e' =>
          cases e' with
          | panic => exact absurd rfl s2
          | missingBlock | invalidBlock | tooLong => exact ⟨s1, by simp, fun j hj => s4 j (r4 j hj)⟩

/-- the per-block loop of `AddBlocks` under `WInv` -/
theorem addLoop_w {U} (hU : WFU U) : ∀ (batch : List Nat) (m : Mgr) (cs : Nat), WInv U m → m.states cs = true →
    WInv U (addBlocks.go U batch m cs).1 ∧
    (addBlocks.go U batch m cs).1.states (addBlocks.go U batch m cs).2.2 = true ∧
    (addBlocks.go U batch m cs).2.1 ≠ some .panic := by
  intro batch
  induction batch with
  | nil => intro m cs h hcs; simp [addBlocks.go, h, hcs]
  | cons b bs ih =>
    intro m cs h hcs
    unfold addBlocks.go
    by_cases h1 : m.block b = some true
    · have hb : m.states b = true := by
        simp only [Mgr.block] at h1
        cases hr : m.recs b with
        | none => simp [hr] at h1
        | some r => exact h.recstate b r hr
      simp only [h1, if_true]
      exact ih m b h hb
    · simp only [h1, if_false]
      by_cases h2 : m.header b = true ∧ (m.block b).isNone = true
      · have hb : m.states b = true := by
          obtain ⟨r, hr⟩ := Option.isSome_iff_exists.mp (by simpa [Mgr.header] using h2.1)
          exact h.recstate b r hr
        simp only [h2, and_self, if_true]
        exact ih m b h hb
      · simp only [h2, if_false]
        by_cases h3 : (U b).parent ≠ cs ∧ (!m.states (U b).parent) = true
        · simp [h3, h, hcs]
        · simp only [h3, if_false]
          have hpar : m.states (par U b) = true := by
            by_cases e : (U b).parent = cs
            · simpa [par, e] using hcs
            · have : ¬ ((!m.states (U b).parent) = true) := fun x => h3 ⟨e, x⟩
              simpa [par] using this
          cases hf : (U b).future with
          | true => simp [h, hcs]
          | false =>
            cases hk : (U b).hdrOk with
            | false => simp [h, hcs]
            | true =>
              simp only [Bool.false_eq_true, if_false, Bool.not_true]
              obtain ⟨hb0, hbh⟩ := hU.hdr b hk
              have hnotbest : b ∉ m.best := by
                intro hb
                rcases h.bestrec b hb with e | e
                · exact h1 (by simp [Mgr.block, e])
                · exact h2 ⟨by simp [Mgr.header, e], by simp [Mgr.block, e]⟩
              have hinv' : WInv U { m with states := upd m.states b true, recs := upd m.recs b (some ⟨true, false⟩) } := by
                refine ⟨⟨h.core.h0, ?_, ?_⟩, h.chain, ?_, ?_⟩
                · intro j hj hj0
                  by_cases e : j = b
                  · subst e
                    refine ⟨?_, hbh⟩
                    by_cases e2 : par U j = j <;> simp [upd, e2, hpar]
                  · have hj' : m.states j = true := by simpa [upd, e] using hj
                    obtain ⟨c1, c2⟩ := h.core.closed j hj' hj0
                    refine ⟨?_, c2⟩
                    by_cases e2 : par U j = b <;> simp [upd, e2, c1]
                · intro j hj
                  by_cases e : j = b
                  · subst e; simp [upd]
                  · simp [upd, e] at hj ⊢; exact h.core.staterec j hj
                · intro j r hj
                  by_cases e : j = b
                  · subst e; simp [upd]
                  · simp [upd, e] at hj ⊢; exact h.recstate j r hj
                · intro j hj
                  have hjb : j ≠ b := fun e => hnotbest (e ▸ hj)
                  simpa [upd, hjb] using h.bestrec j hj
              exact ih _ b hinv' (by simp [upd])

/-- **`AddBlocks` never panics**, whatever has been pruned before -/
theorem addBlocks_w {U} (hU : WFU U) {m : Mgr} (h : WInv U m) (batch : List Nat) :
    WInv U (addBlocks U m batch).1 ∧ (addBlocks U m batch).2 ≠ some .panic := by
  cases batch with
  | nil => simp [addBlocks, h]
  | cons b bs =>
    simp only [addBlocks]
    obtain ⟨j1, j2, j3⟩ := addLoop_w hU (b :: bs) m m.tip h h.tip_state
    rcases hg : addBlocks.go U (b :: bs) m m.tip with ⟨m1, e, cs⟩
    rw [hg] at j1 j2 j3
    simp only at j1 j2 j3
    cases e with
    | some err => exact ⟨j1, j3⟩
    | none =>
      simp only
      obtain ⟨k1, k2, _⟩ := maybeReorg_w j1 j2
      exact ⟨k1, k2⟩

/-- `PruneBlocks` keeps the pruning-tolerant invariant -/
theorem prune_w {U m} (h : WInv U m) (height : Nat) : WInv U (prune m height) := by
  obtain ⟨p1, p2, _, p4⟩ := prune_go_spec (min height (m.tipHeight + 1)) m
  have hrec : ∀ i, ((prune m height).recs i).isSome = (m.recs i).isSome := by
    intro i
    rcases p4 i with e | ⟨e1, e2, _⟩
    · simp [prune, e]
    · simp [prune, e1, e2]
  refine ⟨⟨h.core.h0, ?_, ?_⟩, ?_, ?_, ?_⟩
  · intro i hi hi0
    have : m.states i = true := by simpa [prune, p2] using hi
    have := h.core.closed i this hi0
    simpa [prune, p2] using this
  · intro i hi
    have : m.states i = true := by simpa [prune, p2] using hi
    rw [hrec]; exact h.core.staterec i this
  · simpa [prune, p1] using h.chain
  · intro i r hr
    have hs : (m.recs i).isSome = true := by rw [← hrec]; simp [hr]
    obtain ⟨r', hr'⟩ := Option.isSome_iff_exists.mp hs
    have := h.recstate i r' hr'
    simpa [prune, p2] using this
  · intro i hi
    have hi' : i ∈ m.best := by simpa [prune, p1] using hi
    rcases p4 i with e | ⟨e1, _⟩
    · have := h.bestrec i hi'
      simpa [prune, e] using this
    · right; simpa [prune] using e1

end Verif.Chain
