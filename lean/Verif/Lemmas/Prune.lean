/-
Pruning-tolerant invariant of the chain manager (C19): under any interleaving of `AddBlocks`
and `PruneBlocks` the manager never panics.  `WInv` is deliberately weak (it survives even a
failed rollback); the strong invariant of an unpruned node is `Inv` in `Lemmas/Chain.lean`.
-/
import Verif.Lemmas.Chain

namespace Verif.Chain

/-- best chain parent-linked, states closed under parents, and every best-chain block is stored
either completely (body + supplement) or pruned (header only) — never a body without supplement,
which is what `revertTip` would dereference -/
structure WInv (U : Nat → Blk) (m : Mgr) : Prop where
  core : Core U m
  chain : Chain U m.best
  recstate : ∀ i r, m.recs i = some r → m.states i = true
  bestrec : ∀ i ∈ m.best, m.recs i = some ⟨true, true⟩ ∨ m.recs i = some ⟨false, false⟩

theorem Inv.toWInv {U m} (h : Inv U m) : WInv U m :=
  ⟨h.s.core, h.chain, fun i r hr => (h.s.recstate i r hr).2, fun i hi => Or.inl (h.bestsupp i hi)⟩

theorem WInv.best_state {U m} (h : WInv U m) {i : Nat} (hi : i ∈ m.best) : m.states i = true := by
  rcases h.bestrec i hi with e | e <;> exact h.recstate i _ e

theorem WInv.tip_mem {U m} (h : WInv U m) : m.tip ∈ m.best := by
  have := h.chain.ne_nil
  cases hb : m.best with
  | nil => exact absurd hb this
  | cons a t => simp [Mgr.tip, hb]

theorem WInv.tip_state {U m} (h : WInv U m) : m.states m.tip = true := h.best_state h.tip_mem

theorem WInv.length {U m} (h : WInv U m) : m.best.length = (U m.tip).height + 1 := by
  have hc := h.chain
  have : ∀ {l : List Nat}, Chain U l → (∀ i ∈ l, m.states i = true) → l.length = (U (l.headD 0)).height + 1 := by
    intro l hl hst
    induction hl with
    | gen => simp [h.core.h0]
    | @cons a b t ha hp ht ih =>
      have h1 := ih (fun i hi => hst i (by simp [hi]))
      have h2 := (h.core.closed a (hst a (by simp)) ha).2
      simp only [List.headD_cons, List.length_cons] at h1 ⊢
      rw [hp] at h2
      omega
  exact this hc (fun _ hi => h.best_state hi)

theorem WInv.best_getElem {U m} (h : WInv U m) (k : Nat) (hk : k < m.best.length) :
    m.best[k] = anc U k m.tip := by
  have hc := h.chain
  have := hc.getElem_eq_anc k hk
  rw [this]
  congr 1
  unfold Mgr.tip
  rw [List.headD_eq_head?_getD, List.head?_eq_some_head hc.ne_nil]
  rfl

/-- `revertTip` on a chain of at least two blocks: succeeds, or reports a missing block -/
theorem revertTip_w {U m} (h : WInv U m) {t b : Nat} {rest : List Nat} (hb : m.best = t :: b :: rest) :
    (revertTip U m = .ok { m with best := b :: rest } ∧ WInv U { m with best := b :: rest }) ∨
    revertTip U m = .error .missingBlock := by
  have hc := h.chain
  rw [hb] at hc
  obtain ⟨hc', _, hp⟩ := hc.tail
  have hbs : m.states b = true := h.best_state (by simp [hb])
  have hpar : (U t).parent = b := hp
  rcases h.bestrec t (by simp [hb]) with e | e
  · left
    refine ⟨by simp [revertTip, hb, Mgr.block, e, hpar, hbs], ⟨⟨h.core.h0, h.core.closed, h.core.staterec⟩, hc', h.recstate, ?_⟩⟩
    intro i hi; exact h.bestrec i (by rw [hb]; exact List.mem_cons_of_mem _ hi)
  · right
    simp [revertTip, hb, Mgr.block, e]

/-- reverting `n` blocks (fewer than the chain is long) keeps `WInv` and never panics; on success
exactly `n` blocks are gone -/
theorem revertN_w {U} : ∀ (n : Nat) (m : Mgr), WInv U m → n < m.best.length →
    WInv U (revertN U n m).1 ∧ (revertN U n m).1.recs = m.recs ∧ (revertN U n m).1.states = m.states ∧
    (revertN U n m).1.notified = m.notified ∧
    (((revertN U n m).2 = none ∧ (revertN U n m).1.best = m.best.drop n) ∨
     (revertN U n m).2 = some .missingBlock) := by
  intro n
  induction n with
  | zero => intro m h _; simp [revertN, h]
  | succ n ih =>
    intro m h hn
    match hb : m.best with
    | [] => simp [hb] at hn
    | [_] => simp [hb] at hn
    | t :: b :: rest =>
      rcases revertTip_w h hb with ⟨hr, hi⟩ | hr
      · simp only [revertN, hr]
        obtain ⟨i1, i2, i3, i4, i5⟩ := ih { m with best := b :: rest } hi (by simp [hb] at hn ⊢; omega)
        refine ⟨i1, i2, i3, i4, ?_⟩
        rcases i5 with ⟨e1, e2⟩ | e
        · left; exact ⟨e1, by simpa [hb] using e2⟩
        · right; exact e
      · simp only [revertN, hr]
        exact ⟨h, by trivial, by trivial, by trivial, Or.inr (by trivial)⟩

/-- `applyTip` of an attaching stored block never panics -/
theorem applyTip_w {U m} (h : WInv U m) {i : Nat} (hp : par U i = m.tip) (hne : i ≠ 0)
    (hs : m.states i = true) :
    (∃ m', applyTip U m i = .ok m' ∧ WInv U m' ∧ m'.best = i :: m.best ∧ m'.notified = m.notified ∧
        (∀ j, m.states j = true → m'.states j = true)) ∨
    applyTip U m i = .error .invalidBlock ∨ applyTip U m i = .error .missingBlock := by
  have hpar : (U i).parent = m.tip := hp
  have hbest : m.best = m.tip :: m.best.tail := by
    have := h.chain.ne_nil
    cases hb : m.best with
    | nil => exact absurd hb this
    | cons a t => simp [Mgr.tip, hb]
  have hchain : Chain U (i :: m.best) := by
    rw [hbest]; exact Chain.cons hne hp (hbest ▸ h.chain)
  cases hblk : m.block i with
  | none => right; right; simp [applyTip, hblk]
  | some supp =>
    cases supp with
    | true =>
      left
      have hr : m.recs i = some ⟨true, true⟩ := by
        simp only [Mgr.block] at hblk
        cases hr : m.recs i with
        | none => simp [hr] at hblk
        | some r =>
          cases r with
          | mk bd sp =>
            simp only [hr] at hblk
            cases bd <;> simp at hblk
            subst hblk; rfl
      refine ⟨{ m with best := i :: m.best }, by simp [applyTip, hblk, hpar], ⟨⟨h.core.h0, h.core.closed, h.core.staterec⟩, hchain, h.recstate, ?_⟩, rfl, rfl, fun _ x => x⟩
      intro j hj
      rcases List.mem_cons.mp hj with rfl | hj
      · exact Or.inl hr
      · exact h.bestrec j hj
    | false =>
      cases hok : (U i).bodyOk with
      | false => right; left; simp [applyTip, hblk, hpar, hok]
      | true =>
        left
        refine ⟨{ m with states := upd m.states i true, recs := upd m.recs i (some ⟨true, true⟩), best := i :: m.best },
          by simp [applyTip, hblk, hpar, hok], ⟨⟨h.core.h0, ?_, ?_⟩, hchain, ?_, ?_⟩, rfl, rfl, ?_⟩
        · intro j hj hj0
          have hj' : m.states j = true := by
            by_cases e : j = i
            · subst e; exact hs
            · simpa [upd, e] using hj
          obtain ⟨c1, c2⟩ := h.core.closed j hj' hj0
          refine ⟨?_, c2⟩
          by_cases e : par U j = i <;> simp [upd, e, c1]
        · intro j hj
          by_cases e : j = i
          · subst e; simp [upd]
          · simp [upd, e] at hj ⊢; exact h.core.staterec j hj
        · intro j r hj
          by_cases e : j = i
          · subst e; simp [upd]
          · simp [upd, e] at hj ⊢; exact h.recstate j r hj
        · intro j hj
          rcases List.mem_cons.mp hj with rfl | hj
          · left; simp [upd]
          · by_cases e : j = i
            · subst e; left; simp [upd]
            · simpa [upd, e] using h.bestrec j hj
        · intro j hj; by_cases e : j = i <;> simp [upd, e, hj]

theorem applyAll_w {U} : ∀ (l : List Nat) (m : Mgr), WInv U m → Attach U m m.tip l →
    WInv U (applyAll U l m).1 ∧ (applyAll U l m).2 ≠ some .panic ∧
    (applyAll U l m).1.notified = m.notified ∧
    (∀ j, m.states j = true → (applyAll U l m).1.states j = true) := by
  intro l
  induction l with
  | nil => intro m h _; simp [applyAll, h]
  | cons x xs ih =>
    intro m h ⟨hp, hne, hs, hrest⟩
    rcases applyTip_w h hp hne hs with ⟨m', hok, hinv', hbest, hnot, hst⟩ | herr | herr
    · have htip' : m'.tip = x := by simp [Mgr.tip, hbest]
      have hatt : Attach U m' m'.tip xs := by
        rw [htip']
        have : ∀ {tip l}, Attach U m tip l → Attach U m' tip l := by
          intro tip l
          induction l generalizing tip with
          | nil => intro _; trivial
          | cons y ys ihy => intro ⟨a1, a2, a3, a4⟩; exact ⟨a1, a2, hst _ a3, ihy a4⟩
        exact this hrest
      obtain ⟨i1, i2, i3, i4⟩ := ih m' hinv' hatt
      simp only [applyAll, hok]
      exact ⟨i1, i2, by rw [i3, hnot], fun j hj => i4 j (hst j hj)⟩
    · simp only [applyAll, herr]; exact ⟨h, by simp, by trivial, fun _ x => x⟩
    · simp only [applyAll, herr]; exact ⟨h, by simp, by trivial, fun _ x => x⟩

/-- **`reorgTo` never panics**, whatever has been pruned -/
theorem reorgTo_w {U m} (h : WInv U m) {t : Nat} (ht : m.states t = true) :
    WInv U (reorgTo U m t).1 ∧ (reorgTo U m t).2 ≠ some .panic ∧
    (reorgTo U m t).1.notified = m.notified ∧
    (∀ j, m.states j = true → (reorgTo U m t).1.states j = true) := by
  obtain ⟨na, nb, hna, hnb, hpath, hmeet⟩ := reorgPath_spec h.core h.tip_state ht
  have hlen := h.length
  obtain ⟨w1, w2, w3, w4, w5⟩ := revertN_w (U := U) na m h (by omega)
  simp only [reorgTo, hpath, List.length_map, List.length_range]
  rcases hr : revertN U na m with ⟨m1, e1⟩
  rw [hr] at w1 w2 w3 w4 w5
  simp only at w1 w2 w3 w4 w5
  rcases w5 with ⟨e, hbest⟩ | e
  · subst e
    simp only
    have htip1 : m1.tip = anc U nb t := by
      have hk := h.best_getElem na (by omega)
      rw [hmeet] at hk
      simp only [Mgr.tip, hbest]
      rw [← hk, List.headD_eq_head?_getD, List.head?_drop, List.getElem?_eq_getElem (by omega)]
      rfl
    have hst1 : m1.states t = true := by rw [w3]; exact ht
    have hatt : Attach U m1 m1.tip ((List.range nb).map (fun k => anc U k t)).reverse := by
      rw [htip1]; exact attach_anc w1.core hst1 nb hnb
    obtain ⟨a1, a2, a3, a4⟩ := applyAll_w _ _ w1 hatt
    exact ⟨a1, a2, by rw [a3, w4], fun j hj => a4 j (by rw [w3]; exact hj)⟩
  · subst e
    simp only
    exact ⟨w1, by simp, w4, fun j hj => by rw [w3]; exact hj⟩

theorem maybeReorg_w {U m} (h : WInv U m) {cs : Nat} (hcs : m.states cs = true) :
    WInv U (maybeReorg U m cs).1 ∧ (maybeReorg U m cs).2 ≠ some .panic ∧
    (∀ j, m.states j = true → (maybeReorg U m cs).1.states j = true) := by
  unfold maybeReorg
  cases hh : heavier U cs m.tip with
  | false => simp [h]
  | true =>
    simp only [if_true]
    obtain ⟨r1, r2, _, r4⟩ := reorgTo_w h hcs
    rcases hr : reorgTo U m cs with ⟨m1, e1⟩
    rw [hr] at r1 r2 r4
    simp only at r1 r2 r4
    cases e1 with
    | none =>
      simp only
      exact ⟨⟨⟨r1.core.h0, r1.core.closed, r1.core.staterec⟩, r1.chain, r1.recstate, r1.bestrec⟩, by simp, r4⟩
    | some e =>
      cases e with
      | panic => exact absurd rfl r2
      | missingBlock | invalidBlock | tooLong =>
        simp only
        obtain ⟨s1, s2, _, s4⟩ := reorgTo_w r1 (r4 _ h.tip_state)
        rcases hr2 : reorgTo U m1 m.tip with ⟨m2, e2⟩
        rw [hr2] at s1 s2 s4
        simp only at s1 s2 s4
        cases e2 with
        | none => exact ⟨s1, by simp, fun j hj => s4 j (r4 j hj)⟩
        | some e' =>
          cases e' with
          | panic => exact absurd rfl s2
          | missingBlock | invalidBlock | tooLong => exact ⟨s1, by simp, fun j hj => s4 j (r4 j hj)⟩

/-- the per-block loop of `AddBlocks` under `WInv` -/
theorem addLoop_w {U} (hU : WFU U) : ∀ (batch : List Nat) (m : Mgr) (cs : Nat), WInv U m → m.states cs = true →
    WInv U (addBlocks.go U batch m cs).1 ∧
    (addBlocks.go U batch m cs).1.states (addBlocks.go U batch m cs).2.2 = true ∧
    (addBlocks.go U batch m cs).2.1 ≠ some .panic := by
  intro batch
  induction batch with
  | nil => intro m cs h hcs; simp [addBlocks.go, h, hcs]
  | cons b bs ih =>
    intro m cs h hcs
    unfold addBlocks.go
    by_cases h1 : m.block b = some true
    · have hb : m.states b = true := by
        simp only [Mgr.block] at h1
        cases hr : m.recs b with
        | none => simp [hr] at h1
        | some r => exact h.recstate b r hr
      simp only [h1, if_true]
      exact ih m b h hb
    · simp only [h1, if_false]
      by_cases h2 : m.header b = true ∧ (m.block b).isNone = true
      · have hb : m.states b = true := by
          obtain ⟨r, hr⟩ := Option.isSome_iff_exists.mp (by simpa [Mgr.header] using h2.1)
          exact h.recstate b r hr
        simp only [h2, and_self, if_true]
        exact ih m b h hb
      · simp only [h2, if_false]
        by_cases h3 : (U b).parent ≠ cs ∧ (!m.states (U b).parent) = true
        · simp [h3, h, hcs]
        · simp only [h3, if_false]
          have hpar : m.states (par U b) = true := by
            by_cases e : (U b).parent = cs
            · simpa [par, e] using hcs
            · have : ¬ ((!m.states (U b).parent) = true) := fun x => h3 ⟨e, x⟩
              simpa [par] using this
          cases hf : (U b).future with
          | true => simp [h, hcs]
          | false =>
            cases hk : (U b).hdrOk with
            | false => simp [h, hcs]
            | true =>
              simp only [Bool.false_eq_true, if_false, Bool.not_true]
              obtain ⟨hb0, hbh⟩ := hU.hdr b hk
              have hnotbest : b ∉ m.best := by
                intro hb
                rcases h.bestrec b hb with e | e
                · exact h1 (by simp [Mgr.block, e])
                · exact h2 ⟨by simp [Mgr.header, e], by simp [Mgr.block, e]⟩
              have hinv' : WInv U { m with states := upd m.states b true, recs := upd m.recs b (some ⟨true, false⟩) } := by
                refine ⟨⟨h.core.h0, ?_, ?_⟩, h.chain, ?_, ?_⟩
                · intro j hj hj0
                  by_cases e : j = b
                  · subst e
                    refine ⟨?_, hbh⟩
                    by_cases e2 : par U j = j <;> simp [upd, e2, hpar]
                  · have hj' : m.states j = true := by simpa [upd, e] using hj
                    obtain ⟨c1, c2⟩ := h.core.closed j hj' hj0
                    refine ⟨?_, c2⟩
                    by_cases e2 : par U j = b <;> simp [upd, e2, c1]
                · intro j hj
                  by_cases e : j = b
                  · subst e; simp [upd]
                  · simp [upd, e] at hj ⊢; exact h.core.staterec j hj
                · intro j r hj
                  by_cases e : j = b
                  · subst e; simp [upd]
                  · simp [upd, e] at hj ⊢; exact h.recstate j r hj
                · intro j hj
                  have hjb : j ≠ b := fun e => hnotbest (e ▸ hj)
                  simpa [upd, hjb] using h.bestrec j hj
              exact ih _ b hinv' (by simp [upd])

/-- **`AddBlocks` never panics**, whatever has been pruned before -/
theorem addBlocks_w {U} (hU : WFU U) {m : Mgr} (h : WInv U m) (batch : List Nat) :
    WInv U (addBlocks U m batch).1 ∧ (addBlocks U m batch).2 ≠ some .panic := by
  cases batch with
  | nil => simp [addBlocks, h]
  | cons b bs =>
    simp only [addBlocks]
    obtain ⟨j1, j2, j3⟩ := addLoop_w hU (b :: bs) m m.tip h h.tip_state
    rcases hg : addBlocks.go U (b :: bs) m m.tip with ⟨m1, e, cs⟩
    rw [hg] at j1 j2 j3
    simp only at j1 j2 j3
    cases e with
    | some err => exact ⟨j1, j3⟩
    | none =>
      simp only
      obtain ⟨k1, k2, _⟩ := maybeReorg_w j1 j2
      exact ⟨k1, k2⟩

/-- `PruneBlocks` keeps the pruning-tolerant invariant -/
theorem prune_w {U m} (h : WInv U m) (height : Nat) : WInv U (prune m height) := by
  obtain ⟨p1, p2, _, p4⟩ := prune_go_spec (min height (m.tipHeight + 1)) m
  have hrec : ∀ i, ((prune m height).recs i).isSome = (m.recs i).isSome := by
    intro i
    rcases p4 i with e | ⟨e1, e2, _⟩
    · simp [prune, e]
    · simp [prune, e1, e2]
  refine ⟨⟨h.core.h0, ?_, ?_⟩, ?_, ?_, ?_⟩
  · intro i hi hi0
    have : m.states i = true := by simpa [prune, p2] using hi
    have := h.core.closed i this hi0
    simpa [prune, p2] using this
  · intro i hi
    have : m.states i = true := by simpa [prune, p2] using hi
    rw [hrec]; exact h.core.staterec i this
  · simpa [prune, p1] using h.chain
  · intro i r hr
    have hs : (m.recs i).isSome = true := by rw [← hrec]; simp [hr]
    obtain ⟨r', hr'⟩ := Option.isSome_iff_exists.mp hs
    have := h.recstate i r' hr'
    simpa [prune, p2] using this
  · intro i hi
    have hi' : i ∈ m.best := by simpa [prune, p1] using hi
    rcases p4 i with e | ⟨e1, _⟩
    · have := h.bestrec i hi'
      simpa [prune, e] using this
    · right; simpa [prune] using e1

/-! ### the invariant of a pruned node with frontier `p`

`PInv U m p`: the best-chain blocks below height `p` are header-only, those at or above `p` are
fully stored (body + supplement), every other record has a body.  It holds with `p = 0` on an
unpruned node, `prune` moves the frontier up, `AddBlocks` keeps it for any batch.  Under it a
failed reorg (missing pruned body while reverting, invalid block while applying) is always rolled
back. -/

structure PInv (U : Nat → Blk) (m : Mgr) (p : Nat) : Prop where
  core : Core U m
  chain : Chain U m.best
  /-- the frontier never exceeds the chain: the tip's height is at least `p - 1` -/
  frontier : p ≤ m.best.length
  recstate : ∀ i r, m.recs i = some r → m.states i = true
  /-- best-chain blocks below the frontier are header-only -/
  pruned : ∀ i ∈ m.best, (U i).height < p → m.recs i = some ⟨false, false⟩
  /-- best-chain blocks at or above the frontier are stored with body and supplement -/
  stored : ∀ i ∈ m.best, p ≤ (U i).height → m.recs i = some ⟨true, true⟩
  /-- only best-chain blocks are ever pruned -/
  sidebody : ∀ i r, m.recs i = some r → i ∉ m.best → r.body = true
  valid : ∀ i, i ≠ 0 → m.recs i = some ⟨true, true⟩ → (U i).bodyOk = true
  validHdr : ∀ i, i ≠ 0 → m.states i = true → (U i).hdrOk = true ∧ (U i).future = false

theorem PInv.toWInv {U m p} (h : PInv U m p) : WInv U m :=
  ⟨h.core, h.chain, h.recstate, fun i hi => by
    by_cases hlt : (U i).height < p
    · exact Or.inr (h.pruned i hi hlt)
    · exact Or.inl (h.stored i hi (by omega))⟩

theorem Inv.toPInv {U m} (h : Inv U m) : PInv U m 0 :=
  ⟨h.s.core, h.chain, Nat.zero_le _, fun i r hr => (h.s.recstate i r hr).2,
    fun _ _ hlt => absurd hlt (Nat.not_lt_zero _), fun i hi _ => h.bestsupp i hi,
    fun i r hr _ => (h.s.recstate i r hr).1, h.s.valid, h.s.validHdr⟩

theorem WInv.best_height {U m} (h : WInv U m) (k : Nat) (hk : k < m.best.length) :
    (U m.best[k]).height = m.best.length - 1 - k := by
  have hlen := h.length
  rw [h.best_getElem k hk, (h.core.anc_state h.tip_state k (by omega)).2]
  omega

theorem WInv.anc_mem {U m} (h : WInv U m) {k : Nat} (hk : k ≤ (U m.tip).height) :
    anc U k m.tip ∈ m.best := by
  have hlen := h.length
  have hk' : k < m.best.length := by omega
  rw [← h.best_getElem k hk']
  exact List.getElem_mem hk'

theorem WInv.mem_height_le {U m} (h : WInv U m) {i : Nat} (hi : i ∈ m.best) :
    (U i).height ≤ (U m.tip).height := by
  obtain ⟨k, hk, e⟩ := List.mem_iff_getElem.mp hi
  have := h.best_height k hk
  have hlen := h.length
  rw [e] at this
  omega

theorem WInv.tip_drop {U m} (h : WInv U m) {c : Nat} (hc : c ≤ (U m.tip).height) :
    ({ m with best := m.best.drop c } : Mgr).tip = anc U c m.tip := by
  have hlen := h.length
  have hk := h.best_getElem c (by omega)
  show (m.best.drop c).headD 0 = anc U c m.tip
  rw [← hk, List.headD_eq_head?_getD, List.head?_drop, List.getElem?_eq_getElem (by omega)]
  rfl

theorem WInv.nodup {U m} (h : WInv U m) : m.best.Nodup := by
  rw [List.nodup_iff_pairwise_ne, List.pairwise_iff_getElem]
  intro i j hi hj hij e
  have h1 := h.best_height i hi
  have h2 := h.best_height j hj
  rw [e] at h1
  omega

/-- `bestAt k` is the best-chain block of height `k` -/
theorem WInv.bestAt_height {U m} (h : WInv U m) {k i : Nat} (hk : m.bestAt k = some i) :
    (U i).height = k ∧ i ∈ m.best ∧ k < m.best.length := by
  have hm := bestAt_mem hk
  unfold Mgr.bestAt at hk
  split at hk
  · next hlt =>
    have hj : m.best.length - 1 - k < m.best.length := by omega
    rw [List.getElem?_eq_getElem hj] at hk
    have e := Option.some.inj hk
    have := h.best_height _ hj
    rw [e] at this
    exact ⟨by omega, hm, hlt⟩
  · simp at hk

theorem WInv.bestAt_of_mem {U m} (h : WInv U m) {i : Nat} (hi : i ∈ m.best) :
    m.bestAt (U i).height = some i := by
  obtain ⟨k, hk, e⟩ := List.mem_iff_getElem.mp hi
  have hh := h.best_height k hk
  rw [e] at hh
  unfold Mgr.bestAt
  rw [if_pos (by omega)]
  have : m.best.length - 1 - (U i).height = k := by omega
  rw [this, List.getElem?_eq_getElem hk, e]

/-- the invariant in terms of `BestIndex(height)`: the block at best height `k` is header-only
iff `k` is below the frontier, fully stored otherwise -/
theorem PInv.bestAt_rec {U m p} (h : PInv U m p) {k i : Nat} (hk : m.bestAt k = some i) :
    (k < p → m.recs i = some ⟨false, false⟩) ∧ (p ≤ k → m.recs i = some ⟨true, true⟩) ∧
    (m.recs i = some ⟨false, false⟩ ↔ k < p) := by
  obtain ⟨hh, hm, _⟩ := h.toWInv.bestAt_height hk
  refine ⟨fun hlt => h.pruned i hm (by omega), fun hle => h.stored i hm (by omega), ?_, fun hlt => h.pruned i hm (by omega)⟩
  intro e
  apply Nat.lt_of_not_le
  intro hle
  have := h.stored i hm (by omega)
  rw [e] at this
  simp at this

theorem revertTip_p {U m p} (h : PInv U m p) {t b : Nat} {rest : List Nat} (hb : m.best = t :: b :: rest) :
    (revertTip U m = .ok { m with best := b :: rest } ∧ PInv U { m with best := b :: rest } p ∧
        m.recs t = some ⟨true, true⟩) ∨
    (revertTip U m = .error .missingBlock ∧ m.recs t = some ⟨false, false⟩) := by
  have hw := h.toWInv
  have hc := h.chain
  rw [hb] at hc
  obtain ⟨hc', _, hp⟩ := hc.tail
  have hbs : m.states b = true := hw.best_state (by simp [hb])
  have hpar : (U t).parent = b := hp
  have htm : t ∈ m.best := by simp [hb]
  have hht : (U t).height = m.best.length - 1 := by
    have := hw.best_height 0 (by simp [hb])
    simpa [hb] using this
  by_cases hlt : (U t).height < p
  · right
    have e := h.pruned t htm hlt
    exact ⟨by simp [revertTip, hb, Mgr.block, e], e⟩
  · left
    have e := h.stored t htm (by omega)
    refine ⟨by simp [revertTip, hb, Mgr.block, e, hpar, hbs],
      ⟨⟨h.core.h0, h.core.closed, h.core.staterec⟩, hc', ?_, h.recstate, ?_, ?_, ?_, h.valid, h.validHdr⟩, e⟩
    · have : m.best.length = (b :: rest).length + 1 := by simp [hb]
      simp only at this ⊢
      omega
    · intro i hi; exact h.pruned i (by rw [hb]; exact List.mem_cons_of_mem _ hi)
    · intro i hi; exact h.stored i (by rw [hb]; exact List.mem_cons_of_mem _ hi)
    · intro i r hr hi
      by_cases hit : i = t
      · subst hit
        have hr' : m.recs i = some r := hr
        rw [e] at hr'
        cases hr'; rfl
      · apply h.sidebody i r hr
        rw [hb]
        intro hmem
        rcases List.mem_cons.mp hmem with e1 | e1
        · exact hit e1
        · exact hi e1

/-- reverting `n` blocks stops at the first pruned block: `c` blocks are gone, all of them fully
stored; the stop is reported as a missing block -/
theorem revertN_p {U p} : ∀ (n : Nat) (m : Mgr), PInv U m p → n < m.best.length →
    ∃ c, c ≤ n ∧ (revertN U n m).1 = { m with best := m.best.drop c } ∧
      PInv U { m with best := m.best.drop c } p ∧
      (∀ i, i < c → m.recs (anc U i m.tip) = some ⟨true, true⟩) ∧
      ((c = n ∧ (revertN U n m).2 = none) ∨
       (c < n ∧ (revertN U n m).2 = some .missingBlock ∧ m.recs (anc U c m.tip) = some ⟨false, false⟩)) := by
  intro n
  induction n with
  | zero => intro m h _; exact ⟨0, Nat.le_refl _, by simp [revertN], by simpa using h, fun i hi => by omega, Or.inl ⟨rfl, by simp [revertN]⟩⟩
  | succ n ih =>
    intro m h hn
    match hb : m.best with
    | [] => simp [hb] at hn
    | [_] => simp [hb] at hn
    | t :: b :: rest =>
      have htip : m.tip = t := by simp [Mgr.tip, hb]
      rcases revertTip_p h hb with ⟨hr, hi, ht⟩ | ⟨hr, ht⟩
      · obtain ⟨c, hc, i1, i2, i3, i4⟩ := ih { m with best := b :: rest } hi (by simp [hb] at hn ⊢; omega)
        have htip' : ({ m with best := b :: rest } : Mgr).tip = par U t := by
          simp only [Mgr.tip, List.headD_cons]
          have hc := h.chain
          rw [hb] at hc
          exact hc.tail.2.2.symm
        refine ⟨c + 1, by omega, ?_, ?_, ?_, ?_⟩
        · simp only [revertN, hr]; rw [i1]; simp
        · simpa using i2
        · intro i hi'
          cases i with
          | zero => simpa [htip] using ht
          | succ i =>
            have := i3 i (by omega)
            rw [htip'] at this
            rw [htip, anc_succ]; exact this
        · rcases i4 with ⟨e1, e2⟩ | ⟨e1, e2, e3⟩
          · left; exact ⟨by omega, by simp only [revertN, hr]; exact e2⟩
          · right
            refine ⟨by omega, by simp only [revertN, hr]; exact e2, ?_⟩
            rw [htip'] at e3
            rw [htip, anc_succ]; exact e3
      · refine ⟨0, by omega, ?_, ?_, fun i hi => by omega, Or.inr ⟨by omega, by simp [revertN, hr], by simpa [htip] using ht⟩⟩
        · simp only [revertN, hr, List.drop_zero]; rw [← hb]
        · simp only [List.drop_zero]; rw [← hb]; exact h

theorem applyTip_p {U m p} (h : PInv U m p) {i : Nat} (hp : par U i = m.tip) (hne : i ≠ 0)
    (hs : m.states i = true) :
    (∃ m', applyTip U m i = .ok m' ∧ PInv U m' p ∧ Mono m m' ∧ m'.best = i :: m.best ∧
        m'.recs i = some ⟨true, true⟩ ∧ m'.states i = true ∧
        ∀ j, j ≠ i → m'.recs j = m.recs j ∧ m'.states j = m.states j) ∨
    (applyTip U m i = .error .invalidBlock ∧ m.recs i ≠ some ⟨true, true⟩ ∧ (U i).bodyOk = false) := by
  have hw := h.toWInv
  have hlen := hw.length
  have hhi : (U i).height = (U m.tip).height + 1 := by
    have := (h.core.closed i hs hne).2; rw [hp] at this; exact this
  have hnb : i ∉ m.best := by
    intro hi; have := hw.mem_height_le hi; omega
  obtain ⟨r, hr⟩ := Option.isSome_iff_exists.mp (h.core.staterec i hs)
  have hbody := h.sidebody i r hr hnb
  have hpar : (U i).parent = m.tip := hp
  have hbest : m.best = m.tip :: m.best.tail := by
    have := h.chain.ne_nil
    cases hb : m.best with
    | nil => exact absurd hb this
    | cons a t => simp [Mgr.tip, hb]
  have hchain : Chain U (i :: m.best) := by
    rw [hbest]; exact Chain.cons hne hp (hbest ▸ h.chain)
  have hpr : ∀ j ∈ i :: m.best, (U j).height < p → j ∈ m.best := by
    intro j hj hlt
    rcases List.mem_cons.mp hj with e | e
    · subst e; have := h.frontier; omega
    · exact e
  cases hsupp : r.supp with
  | true =>
    left
    have hr' : m.recs i = some ⟨true, true⟩ := by
      rw [hr]; cases r with
      | mk bd sp => simp only at hbody hsupp; rw [hbody, hsupp]
    refine ⟨{ m with best := i :: m.best }, ?_, ⟨⟨h.core.h0, h.core.closed, h.core.staterec⟩, hchain, ?_, h.recstate, ?_, ?_, ?_, h.valid, h.validHdr⟩, ⟨fun _ x => x, fun _ x => x, rfl⟩, rfl,
      hr', hs, fun _ _ => ⟨rfl, rfl⟩⟩
    · simp [applyTip, Mgr.block, hr, hbody, hsupp, hpar]
    · have := h.frontier; simp only [List.length_cons]; omega
    · intro j hj hlt; exact h.pruned j (hpr j hj hlt) hlt
    · intro j hj hle
      rcases List.mem_cons.mp hj with e | e
      · subst e; exact hr'
      · exact h.stored j e hle
    · intro j r' hj hnm
      exact h.sidebody j r' hj (fun hm => hnm (List.mem_cons_of_mem _ hm))
  | false =>
    have hr' : m.recs i ≠ some ⟨true, true⟩ := by
      rw [hr]; cases r with
      | mk bd sp => simp only at hsupp; rw [hsupp]; simp
    cases hok : (U i).bodyOk with
    | false => right; exact ⟨by simp [applyTip, Mgr.block, hr, hbody, hsupp, hpar, hok], hr', rfl⟩
    | true =>
      left
      refine ⟨{ m with states := upd m.states i true, recs := upd m.recs i (some ⟨true, true⟩), best := i :: m.best }, ?_,
        ⟨⟨h.core.h0, ?_, ?_⟩, hchain, ?_, ?_, ?_, ?_, ?_, ?_, ?_⟩, ⟨?_, ?_, rfl⟩, rfl, by simp [upd], by simp [upd],
        fun j hj => by simp [upd, hj]⟩
      · simp [applyTip, Mgr.block, hr, hbody, hsupp, hpar, hok]
      · intro j hj hj0
        have hj' : m.states j = true := by
          by_cases e : j = i
          · subst e; exact hs
          · simpa [upd, e] using hj
        obtain ⟨c1, c2⟩ := h.core.closed j hj' hj0
        refine ⟨?_, c2⟩
        by_cases e : par U j = i <;> simp [upd, e, c1]
      · intro j hj
        by_cases e : j = i
        · subst e; simp [upd]
        · simp [upd, e] at hj ⊢; exact h.core.staterec j hj
      · have := h.frontier; simp only [List.length_cons]; omega
      · intro j r' hj
        by_cases e : j = i
        · subst e; simp [upd]
        · simp [upd, e] at hj ⊢; exact h.recstate j r' hj
      · intro j hj hlt
        have hjm := hpr j hj hlt
        have e : j ≠ i := fun e => hnb (e ▸ hjm)
        simpa [upd, e] using h.pruned j hjm hlt
      · intro j hj hle
        by_cases e : j = i
        · subst e; simp [upd]
        · rcases List.mem_cons.mp hj with e1 | e1
          · exact absurd e1 e
          · simpa [upd, e] using h.stored j e1 hle
      · intro j r' hj hnm
        have e : j ≠ i := fun e => hnm (by simp [e])
        simp [upd, e] at hj
        exact h.sidebody j r' hj (fun hm => hnm (List.mem_cons_of_mem _ hm))
      · intro j hj0 hj
        by_cases e : j = i
        · subst e; exact hok
        · simp [upd, e] at hj; exact h.valid j hj0 hj
      · intro j hj0 hj
        have hj' : m.states j = true := by
          by_cases e : j = i
          · subst e; exact hs
          · simpa [upd, e] using hj
        exact h.validHdr j hj0 hj'
      · intro j hj; by_cases e : j = i <;> simp [upd, e, hj]
      · intro j hj; by_cases e : j = i <;> simp [upd, e, hj]

theorem applyAll_p {U p} : ∀ (l : List Nat) (m : Mgr), PInv U m p → Attach U m m.tip l →
    PInv U (applyAll U l m).1 p ∧ Mono m (applyAll U l m).1 ∧
    ((applyAll U l m).2 = none → (applyAll U l m).1.tip = l.getLastD m.tip) ∧
    ((applyAll U l m).2 ≠ none → (applyAll U l m).2 = some .invalidBlock) ∧
    ((∀ x ∈ l, m.recs x = some ⟨true, true⟩) → (applyAll U l m).2 = none) ∧
    ((applyAll U l m).1.tip = m.tip ∨ (applyAll U l m).1.tip ∈ l) := by
  intro l
  induction l with
  | nil => intro m h _; simp [applyAll, h, Mono.refl]
  | cons x xs ih =>
    intro m h ⟨hp, hne, hs, hrest⟩
    rcases applyTip_p h hp hne hs with ⟨m', hok, hinv', hmono, hbest, _⟩ | ⟨herr, hnot, _⟩
    · have htip' : m'.tip = x := by simp [Mgr.tip, hbest]
      obtain ⟨i1, i2, i3, i4, i5, i6⟩ := ih m' hinv' (htip' ▸ Attach.mono hmono hrest)
      simp only [applyAll, hok]
      refine ⟨i1, hmono.trans i2, ?_, i4, ?_, ?_⟩
      · intro he
        rw [i3 he, htip']
        cases xs <;> simp [List.getLastD]
      · intro hall
        exact i5 (fun y hy => hmono.supp y (hall y (List.mem_cons_of_mem _ hy)))
      · right
        rcases i6 with e | e
        · rw [e, htip']; simp
        · exact List.mem_cons_of_mem _ e
    · simp only [applyAll, herr]
      refine ⟨h, Mono.refl m, by simp, by simp, ?_, by simp⟩
      intro hall
      exact absurd (hall x (by simp)) hnot

/-- **`reorgTo` on a pruned node**: it never panics; a failure (a pruned body among the blocks
to revert, an invalid block among those to apply) leaves the manager on a tip `T` that shares an
ancestor `anc c tip = anc f T` with the old tip such that all `c` reverted blocks are still fully
stored; and whenever old tip and target have a common ancestor such that the blocks above it are
fully stored on both sides, `reorgTo` succeeds (the path `reorgPath` finds is minimal, so it
touches no other block). -/
theorem reorgTo_p {U m p} (h : PInv U m p) {t : Nat} (ht : m.states t = true) :
    PInv U (reorgTo U m t).1 p ∧ Mono m (reorgTo U m t).1 ∧
    ((reorgTo U m t).2 = none → (reorgTo U m t).1.tip = t) ∧
    ((reorgTo U m t).2 = none ∨ (reorgTo U m t).2 = some .invalidBlock ∨
      (reorgTo U m t).2 = some .missingBlock) ∧
    (∃ c f, c ≤ (U m.tip).height ∧ f ≤ (U (reorgTo U m t).1.tip).height ∧
        anc U f (reorgTo U m t).1.tip = anc U c m.tip ∧
        ∀ i, i < c → m.recs (anc U i m.tip) = some ⟨true, true⟩) ∧
    (∀ c f, c ≤ (U m.tip).height → f ≤ (U t).height → anc U c m.tip = anc U f t →
        (∀ i, i < c → m.recs (anc U i m.tip) = some ⟨true, true⟩) →
        (∀ k, k < f → m.recs (anc U k t) = some ⟨true, true⟩) → (reorgTo U m t).2 = none) := by
  have hw := h.toWInv
  obtain ⟨na, nb, hna, hnb, hpath, hmeet, _, hleast⟩ := reorgPath_least h.core hw.tip_state ht
  have hlen := hw.length
  obtain ⟨c, hc, hres, hinvc, hsupp, hcase⟩ := revertN_p (U := U) na m h (by omega)
  have htipc := hw.tip_drop (c := c) (by omega)
  rcases hcase with ⟨hcn, hnone⟩ | ⟨hcn, hmiss, hff⟩
  · -- all reverts succeeded
    subst hcn
    have hrev : revertN U c m = ({ m with best := m.best.drop c }, none) := Prod.ext hres hnone
    have hatt : Attach U ({ m with best := m.best.drop c } : Mgr)
        ({ m with best := m.best.drop c } : Mgr).tip ((List.range nb).map (fun k => anc U k t)).reverse := by
      rw [htipc, hmeet]; exact attach_anc hinvc.core ht nb hnb
    obtain ⟨a1, a2, a3, a4, a5, a6⟩ := applyAll_p _ _ hinvc hatt
    have hmono0 : Mono m ({ m with best := m.best.drop c } : Mgr) := ⟨fun _ x => x, fun _ x => x, rfl⟩
    have hred : reorgTo U m t = applyAll U ((List.range nb).map (fun k => anc U k t)).reverse { m with best := m.best.drop c } := by
      simp only [reorgTo, hpath, List.length_map, List.length_range, hrev]
    rw [hred]
    refine ⟨a1, hmono0.trans a2, ?_, ?_, ?_, ?_⟩
    · intro he
      rw [a3 he, getLastD_reverse_map_anc, htipc]
      split
      · next h0 => subst h0; exact hmeet
      · rfl
    · cases he : (applyAll U ((List.range nb).map (fun k => anc U k t)).reverse { m with best := m.best.drop c }).2 with
      | none => exact Or.inl rfl
      | some e => right; left; rw [← he]; exact a4 (by simp [he])
    · rcases a6 with e | e
      · exact ⟨c, 0, hna, Nat.zero_le _, by rw [e, htipc]; rfl, hsupp⟩
      · simp only [List.mem_reverse, List.mem_map, List.mem_range] at e
        obtain ⟨g, hg, e⟩ := e
        refine ⟨c, nb - g, hna, ?_, ?_, hsupp⟩
        · rw [← e, (h.core.anc_state ht g (by omega)).2]; omega
        · rw [← e, ← anc_add, hmeet]; congr 1; omega
    · intro c' f' hc' hf' hcf hs1 hs2
      obtain ⟨_, l2⟩ := hleast c' f' hc' hf' hcf
      apply a5
      intro x hx
      simp only [List.mem_reverse, List.mem_map, List.mem_range] at hx
      obtain ⟨k, hk, rfl⟩ := hx
      exact hs2 k (by omega)
  · -- a pruned body stopped the reverts
    have hrev : revertN U na m = ({ m with best := m.best.drop c }, some .missingBlock) := Prod.ext hres hmiss
    have hred : reorgTo U m t = ({ m with best := m.best.drop c }, some .missingBlock) := by
      simp only [reorgTo, hpath, List.length_map, List.length_range, hrev]
    rw [hred]
    refine ⟨hinvc, ⟨fun _ x => x, fun _ x => x, rfl⟩, by simp, Or.inr (Or.inr rfl), ?_, ?_⟩
    · exact ⟨c, 0, by omega, Nat.zero_le _, by simp only [anc_zero]; exact htipc, hsupp⟩
    · intro c' f' hc' hf' hcf hs1 _
      obtain ⟨l1, _⟩ := hleast c' f' hc' hf' hcf
      have := hs1 c (by omega)
      rw [hff] at this
      simp at this

/-- **the rollback of a failed reorg cannot fail**: wherever `reorgTo U m cs` stopped, `reorgTo`
back to the old tip succeeds and restores the old best chain.  (The rollback's `reorgPath` is
minimal, so it reverts only freshly applied blocks and re-applies only blocks the failed attempt
had reverted, all of which are fully stored.) -/
theorem rollback_p {U m p} (h : PInv U m p) {cs : Nat} (hcs : m.states cs = true) :
    (reorgTo U (reorgTo U m cs).1 m.tip).2 = none ∧
    PInv U (reorgTo U (reorgTo U m cs).1 m.tip).1 p ∧
    Mono m (reorgTo U (reorgTo U m cs).1 m.tip).1 ∧
    (reorgTo U (reorgTo U m cs).1 m.tip).1.best = m.best := by
  have hw := h.toWInv
  obtain ⟨i1, mono1, _, _, r5, _⟩ := reorgTo_p h hcs
  generalize (reorgTo U m cs).1 = m1 at i1 mono1 r5 ⊢
  have hw1 := i1.toWInv
  obtain ⟨c, f, hc, hf, hcf, hsupp⟩ := r5
  have hold : m1.states m.tip = true := mono1.states _ hw.tip_state
  obtain ⟨i2, mono2, s1, _, _, s6⟩ := reorgTo_p i1 hold
  have hlen := hw.length
  have hX : p ≤ (U (anc U c m.tip)).height + 1 := by
    have hhX := (h.core.anc_state hw.tip_state c hc).2
    cases c with
    | zero => have := h.frontier; simp only [anc_zero]; omega
    | succ c =>
      have hY := hsupp c (by omega)
      have hYm := hw.anc_mem (k := c) (by omega)
      have hhY := (h.core.anc_state hw.tip_state c (by omega)).2
      have : p ≤ (U (anc U c m.tip)).height := by
        apply Nat.le_of_not_lt
        intro hlt
        have := h.pruned _ hYm hlt
        rw [hY] at this
        simp at this
      omega
  have hfresh : ∀ i, i < f → m1.recs (anc U i m1.tip) = some ⟨true, true⟩ := by
    intro i hi
    have hZm := hw1.anc_mem (k := i) (by omega)
    have hhZ := (i1.core.anc_state hw1.tip_state i (by omega)).2
    have hhF := (i1.core.anc_state hw1.tip_state f hf).2
    rw [hcf] at hhF
    exact i1.stored _ hZm (by omega)
  have hnone := s6 f c hf hc hcf hfresh (fun k hk => mono1.supp _ (hsupp k hk))
  have htip := s1 hnone
  generalize reorgTo U m1 m.tip = r2 at i2 mono2 hnone htip ⊢
  refine ⟨hnone, i2, mono1.trans mono2, ?_⟩
  apply Chain.unique i2.chain h.chain
  have h2 := i2.chain.ne_nil
  have h0 := h.chain.ne_nil
  cases hb2 : r2.1.best with
  | nil => exact absurd hb2 h2
  | cons a2 t2 =>
    cases hb0 : m.best with
    | nil => exact absurd hb0 h0
    | cons a0 t0 =>
      simp [Mgr.tip, hb2, hb0] at htip
      simp [htip]

/-- the shared tail of `AddBlocks` / `AddValidatedV2Blocks` on a pruned node: exactly the
conclusions of `maybeReorg_spec` — in particular **a failed reorg is always rolled back** -/
theorem maybeReorg_p {U m p} (h : PInv U m p) {cs : Nat} (hcs : m.states cs = true) :
    PInv U (maybeReorg U m cs).1 p ∧
    ((∀ i, m.states i = true → (maybeReorg U m cs).1.states i = true) ∧
     (∀ i, m.recs i = some ⟨true, true⟩ → (maybeReorg U m cs).1.recs i = some ⟨true, true⟩)) ∧
    (((maybeReorg U m cs).2 = none ∧
        ((heavier U cs m.tip = true ∧ (maybeReorg U m cs).1.tip = cs ∧
            (maybeReorg U m cs).1.notified = m.notified + 1) ∨
         (heavier U cs m.tip = false ∧ (maybeReorg U m cs).1 = m))) ∨
     ((maybeReorg U m cs).2 = some .reorgFailed ∧ heavier U cs m.tip = true ∧
        (maybeReorg U m cs).1.best = m.best ∧ (maybeReorg U m cs).1.notified = m.notified)) := by
  unfold maybeReorg
  cases hh : heavier U cs m.tip with
  | false => simp [h]
  | true =>
    simp only [if_true]
    obtain ⟨i1, mono1, r1, r4, _, _⟩ := reorgTo_p h hcs
    obtain ⟨b1, b2, b3, b4⟩ := rollback_p h hcs
    rcases hr : reorgTo U m cs with ⟨m1, e1⟩
    rw [hr] at i1 mono1 r1 r4 b1 b2 b3 b4
    simp only at i1 mono1 r1 r4 b1 b2 b3 b4
    cases e1 with
    | none =>
      simp only
      refine ⟨⟨⟨i1.core.h0, i1.core.closed, i1.core.staterec⟩, i1.chain, i1.frontier, i1.recstate, i1.pruned, i1.stored, i1.sidebody, i1.valid, i1.validHdr⟩,
        ⟨mono1.states, mono1.supp⟩, Or.inl ⟨by trivial, Or.inl ⟨by trivial, ?_, ?_⟩⟩⟩
      · simpa [Mgr.tip] using r1 rfl
      · simp [mono1.notified]
    | some e =>
      rcases hr2 : reorgTo U m1 m.tip with ⟨m2, e2⟩
      rw [hr2] at b1 b2 b3 b4
      simp only at b1 b2 b3 b4
      subst b1
      rcases r4 with r4 | r4 | r4
      · simp at r4
      · cases r4
        simp only [hr2]
        exact ⟨b2, ⟨b3.states, b3.supp⟩, Or.inr ⟨by trivial, by trivial, b4, b3.notified⟩⟩
      · cases r4
        simp only [hr2]
        exact ⟨b2, ⟨b3.states, b3.supp⟩, Or.inr ⟨by trivial, by trivial, b4, b3.notified⟩⟩

/-- storing a header-valid block that is neither stored nor pruned keeps the pruned-node invariant -/
theorem store_header_p {U m p} (hU : WFU U) (h : PInv U m p) {b : Nat}
    (hnot : m.block b ≠ some true) (hnp : ¬ (m.header b = true ∧ (m.block b).isNone = true))
    (hpar : m.states (par U b) = true) (hok : (U b).hdrOk = true) (hfut : (U b).future = false) :
    PInv U { m with states := upd m.states b true, recs := upd m.recs b (some ⟨true, false⟩) } p := by
  obtain ⟨hb0, hbh⟩ := hU.hdr b hok
  have hnotbest : b ∉ m.best := by
    intro hb
    rcases h.toWInv.bestrec b hb with e | e
    · exact hnot (by simp [Mgr.block, e])
    · exact hnp ⟨by simp [Mgr.header, e], by simp [Mgr.block, e]⟩
  refine ⟨⟨h.core.h0, ?_, ?_⟩, h.chain, h.frontier, ?_, ?_, ?_, ?_, ?_, ?_⟩
  · intro j hj hj0
    by_cases e : j = b
    · subst e
      refine ⟨?_, hbh⟩
      by_cases e2 : par U j = j <;> simp [upd, e2, hpar]
    · have hj' : m.states j = true := by simpa [upd, e] using hj
      obtain ⟨c1, c2⟩ := h.core.closed j hj' hj0
      refine ⟨?_, c2⟩
      by_cases e2 : par U j = b <;> simp [upd, e2, c1]
  · intro j hj
    by_cases e : j = b
    · subst e; simp [upd]
    · simp [upd, e] at hj ⊢; exact h.core.staterec j hj
  · intro j r hj
    by_cases e : j = b
    · subst e; simp [upd]
    · simp [upd, e] at hj ⊢; exact h.recstate j r hj
  · intro j hj hlt
    have hjb : j ≠ b := fun e => hnotbest (e ▸ hj)
    simpa [upd, hjb] using h.pruned j hj hlt
  · intro j hj hle
    have hjb : j ≠ b := fun e => hnotbest (e ▸ hj)
    simpa [upd, hjb] using h.stored j hj hle
  · intro j r hj hnm
    by_cases e : j = b
    · subst e; simp [upd] at hj; subst hj; rfl
    · simp [upd, e] at hj; exact h.sidebody j r hj hnm
  · intro j hj0 hj
    by_cases e : j = b
    · subst e; simp [upd] at hj
    · simp [upd, e] at hj; exact h.valid j hj0 hj
  · intro j hj0 hj
    by_cases e : j = b
    · subst e; exact ⟨hok, hfut⟩
    · simp [upd, e] at hj; exact h.validHdr j hj0 hj

/-- the per-block loop of `AddBlocks` on a pruned node -/
theorem addLoop_p {U p} (hU : WFU U) : ∀ (batch : List Nat) (m : Mgr) (cs : Nat), PInv U m p → m.states cs = true →
    PInv U (addBlocks.go U batch m cs).1 p ∧
    (addBlocks.go U batch m cs).1.best = m.best ∧
    (addBlocks.go U batch m cs).1.notified = m.notified ∧
    ((∀ i, m.states i = true → (addBlocks.go U batch m cs).1.states i = true) ∧
     (∀ i, m.recs i = some ⟨true, true⟩ → (addBlocks.go U batch m cs).1.recs i = some ⟨true, true⟩)) ∧
    (addBlocks.go U batch m cs).1.states (addBlocks.go U batch m cs).2.2 = true ∧
    ((addBlocks.go U batch m cs).2.1 = none ∨ (addBlocks.go U batch m cs).2.1 = some .missingParent ∨
     (addBlocks.go U batch m cs).2.1 = some .future ∨ (addBlocks.go U batch m cs).2.1 = some .invalidHeader) := by
  intro batch
  induction batch with
  | nil => intro m cs h hcs; simp [addBlocks.go, h, hcs]
  | cons b bs ih =>
    intro m cs h hcs
    unfold addBlocks.go
    by_cases h1 : m.block b = some true
    · have hb : m.states b = true := by
        simp only [Mgr.block] at h1
        cases hr : m.recs b with
        | none => simp [hr] at h1
        | some r => exact h.recstate b r hr
      simp only [h1, if_true]
      exact ih m b h hb
    · simp only [h1, if_false]
      by_cases h2 : m.header b = true ∧ (m.block b).isNone = true
      · have hb : m.states b = true := by
          obtain ⟨r, hr⟩ := Option.isSome_iff_exists.mp (by simpa [Mgr.header] using h2.1)
          exact h.recstate b r hr
        simp only [h2, and_self, if_true]
        exact ih m b h hb
      · simp only [h2, if_false]
        by_cases h3 : (U b).parent ≠ cs ∧ (!m.states (U b).parent) = true
        · simp [h3, h, hcs]
        · simp only [h3, if_false]
          have hpar : m.states (par U b) = true := by
            by_cases e : (U b).parent = cs
            · simpa [par, e] using hcs
            · have : ¬ ((!m.states (U b).parent) = true) := fun x => h3 ⟨e, x⟩
              simpa [par] using this
          cases hf : (U b).future with
          | true => simp [h, hcs]
          | false =>
            cases hk : (U b).hdrOk with
            | false => simp [h, hcs]
            | true =>
              simp only [Bool.false_eq_true, if_false, Bool.not_true]
              have hinv' := store_header_p hU h h1 h2 hpar hk hf
              obtain ⟨j1, j2, j3, j4, j5, j6⟩ := ih _ b hinv' (by simp [upd])
              refine ⟨j1, j2, j3, ⟨?_, ?_⟩, j5, j6⟩
              · intro i hi
                apply j4.1
                by_cases e : i = b <;> simp [upd, e, hi]
              · intro i hi
                apply j4.2
                have hib : i ≠ b := by
                  intro e; subst e; exact h1 (by simp [Mgr.block, hi])
                simp [upd, hib, hi]

/-- **`AddBlocks` on a pruned node**: the invariant (same frontier) is preserved for any batch;
it never panics and a failed reorg is always rolled back (`rollbackFailed` cannot occur); on any
error the best chain and the notification count are as before; the tip moves only to a
sufficiently heavier chain, and then one notification is delivered. -/
theorem addBlocks_p {U p} (hU : WFU U) {m : Mgr} (h : PInv U m p) (batch : List Nat) :
    PInv U (addBlocks U m batch).1 p ∧
    ((∀ i, m.states i = true → (addBlocks U m batch).1.states i = true) ∧
     (∀ i, m.recs i = some ⟨true, true⟩ → (addBlocks U m batch).1.recs i = some ⟨true, true⟩)) ∧
    (((addBlocks U m batch).2 = none ∧
        (((addBlocks U m batch).1.best = m.best ∧ (addBlocks U m batch).1.notified = m.notified) ∨
         (heavier U (addBlocks U m batch).1.tip m.tip = true ∧
            (addBlocks U m batch).1.notified = m.notified + 1))) ∨
     (((addBlocks U m batch).2 = some .missingParent ∨ (addBlocks U m batch).2 = some .future ∨
        (addBlocks U m batch).2 = some .invalidHeader ∨ (addBlocks U m batch).2 = some .reorgFailed) ∧
        (addBlocks U m batch).1.best = m.best ∧ (addBlocks U m batch).1.notified = m.notified)) := by
  cases batch with
  | nil => simp [addBlocks, h]
  | cons b bs =>
    simp only [addBlocks]
    obtain ⟨j1, j2, j3, j4, j5, j6⟩ := addLoop_p hU (b :: bs) m m.tip h h.toWInv.tip_state
    rcases hg : addBlocks.go U (b :: bs) m m.tip with ⟨m1, e, cs⟩
    rw [hg] at j1 j2 j3 j4 j5 j6
    simp only at j1 j2 j3 j4 j5 j6
    cases e with
    | some err =>
      simp only
      refine ⟨j1, j4, Or.inr ⟨?_, j2, j3⟩⟩
      rcases j6 with j6 | j6 | j6 | j6
      · simp at j6
      · left; exact j6
      · right; left; exact j6
      · right; right; left; exact j6
    | none =>
      simp only
      obtain ⟨k1, k2, k3⟩ := maybeReorg_p j1 j5
      have htip : m1.tip = m.tip := by simp [Mgr.tip, j2]
      refine ⟨k1, ⟨fun i hi => k2.1 i (j4.1 i hi), fun i hi => k2.2 i (j4.2 i hi)⟩, ?_⟩
      rcases k3 with ⟨ke, (⟨kh, kt, kn⟩ | ⟨kh, km⟩)⟩ | ⟨ke, kh, kb, kn⟩
      · left
        refine ⟨ke, Or.inr ⟨?_, by rw [kn, j3]⟩⟩
        rw [kt, ← htip]; exact kh
      · left
        refine ⟨ke, Or.inl ?_⟩
        rw [km]; exact ⟨j2, j3⟩
      · right
        exact ⟨Or.inr (Or.inr (Or.inr ke)), by rw [kb, j2], by rw [kn, j3]⟩

/-- the pruning loop started at `h` on a chain whose blocks at heights `[p, h)` have bodies turns
every one of them into a header-only record (it stops only below `p`) -/
theorem prune_go_from : ∀ (h : Nat) (m : Mgr) (p : Nat), m.best.Nodup → h ≤ m.best.length →
    (∀ k, p ≤ k → k < h → ∀ i, m.bestAt k = some i → (m.block i).isSome = true) →
    ∀ k, p ≤ k → k < h → ∀ i, m.bestAt k = some i → (prune.go h m).recs i = some ⟨false, false⟩ := by
  intro h
  induction h with
  | zero => intro m p _ _ _ k _ hk; omega
  | succ h ih =>
    intro m p hn hlen hall k hpk hk i hi
    have hex : ∃ i0, m.bestAt h = some i0 := by
      unfold Mgr.bestAt
      rw [if_pos (by omega)]
      exact ⟨_, List.getElem?_eq_getElem (by omega)⟩
    obtain ⟨i0, hi0⟩ := hex
    obtain ⟨sp, hsp⟩ := Option.isSome_iff_exists.mp (hall h (by omega) (by omega) i0 hi0)
    have hgo : prune.go (h + 1) m = prune.go h { m with recs := upd m.recs i0 (some ⟨false, false⟩) } := by
      rw [prune.go]; simp [hi0, hsp]
    rw [hgo]
    by_cases hkh : k = h
    · subst hkh
      have : i = i0 := by rw [hi] at hi0; exact Option.some.inj hi0
      subst this
      rcases (prune_go_spec k { m with recs := upd m.recs i (some ⟨false, false⟩) }).2.2.2 i with e | ⟨e, _⟩
      · rw [e]; simp [upd]
      · exact e
    · apply ih { m with recs := upd m.recs i0 (some ⟨false, false⟩) } p hn (by simpa using Nat.le_of_succ_le hlen) ?_ k hpk (by omega) i hi
      intro k' hpk' hk' j hj
      have hj' : m.bestAt k' = some j := hj
      have hne : j ≠ i0 := by
        intro e; subst e
        have := bestAt_inj hn hj' hi0
        omega
      have := hall k' hpk' (by omega) j hj'
      simpa [Mgr.block, upd, hne] using this

/-- **`PruneBlocks(height)` on a pruned node moves the frontier to `max p (min height (tip+1))`**:
afterwards exactly the best-chain blocks below the new frontier are header-only -/
theorem prune_p {U m p} (h : PInv U m p) (height : Nat) :
    PInv U (prune m height) (max p (min height m.best.length)) := by
  have hw := h.toWInv
  have hw' := prune_w hw height
  have hlen : m.best.length ≠ 0 := by have := h.chain.ne_nil; simpa using this
  have hH : min height (m.tipHeight + 1) = min height m.best.length := by
    simp only [Mgr.tipHeight]; omega
  obtain ⟨p1, p2, _, p4⟩ := prune_go_spec (min height (m.tipHeight + 1)) m
  have hall := prune_go_from (min height (m.tipHeight + 1)) m p hw.nodup (by rw [hH]; omega)
    (fun k hpk _ i hi => by have := (h.bestAt_rec hi).2.1 hpk; simp [Mgr.block, this])
  rw [hH] at p4 hall
  have hbest : (prune m height).best = m.best := p1
  have hstates : (prune m height).states = m.states := p2
  have hrecs : ∀ i, (prune m height).recs i = m.recs i ∨
      ((prune m height).recs i = some ⟨false, false⟩ ∧ (m.recs i).isSome = true ∧
        ∃ k, k < min height m.best.length ∧ m.bestAt k = some i) := by
    intro i; have := p4 i; rw [← hH] at this ⊢; exact this
  have hall' : ∀ k, p ≤ k → k < min height m.best.length → ∀ i, m.bestAt k = some i →
      (prune m height).recs i = some ⟨false, false⟩ := by
    intro k h1 h2 i hi; have := hall k h1 h2 i hi; rw [← hH] at this; exact this
  refine ⟨hw'.core, hw'.chain, ?_, hw'.recstate, ?_, ?_, ?_, ?_, ?_⟩
  · rw [hbest]; have := h.frontier; omega
  · intro i hi hlt
    rw [hbest] at hi
    have hat := hw.bestAt_of_mem hi
    by_cases hp : (U i).height < p
    · have e := h.pruned i hi hp
      rcases hrecs i with e' | ⟨e', _⟩
      · rw [e', e]
      · exact e'
    · exact hall' _ (by omega) (by omega) i hat
  · intro i hi hle
    rw [hbest] at hi
    have e := h.stored i hi (by omega)
    rcases hrecs i with e' | ⟨_, _, k, hk, hat⟩
    · rw [e', e]
    · have := (hw.bestAt_height hat).1
      omega
  · intro i r hr hnm
    rw [hbest] at hnm
    rcases hrecs i with e' | ⟨_, _, k, _, hat⟩
    · rw [e'] at hr; exact h.sidebody i r hr hnm
    · exact absurd (bestAt_mem hat) hnm
  · intro i hi0 hr
    rcases hrecs i with e' | ⟨e', _⟩
    · rw [e'] at hr; exact h.valid i hi0 hr
    · rw [e'] at hr; simp at hr
  · intro i hi0 hs
    rw [hstates] at hs
    exact h.validHdr i hi0 hs

end Verif.Chain
