/-
Tokens of the control skeleton that harness/srcfacts/chain.go regenerates from
/repo/chain/manager.go on every run (Verif/Extracted/ChainSkel.lean), and the predicates the
property files evaluate over it.  Core Lean only.
-/
namespace Verif.Skel

inductive Tok where
  /-- `if cond {` : calls (`f()`), `m.…` fields and parameters the condition mentions; operators -/
  | ifc (uses ops : List String)
  /-- `} else` (an else-if continues with `ifc`) -/
  | els
  /-- `}` closing an `ifc`/`loop`/`fn` -/
  | done
  /-- a function literal's body follows -/
  | fn
  | defer
  /-- `for … {` / `for … range x {` (`"range"` first) -/
  | loop (uses ops : List String)
  /-- a call other than logging/formatting; arguments printed for the manager's own methods -/
  | call (name : String) (args : List String)
  /-- assignment to a manager field -/
  | set (lhs : String)
  /-- `return`: `nil`, `true`, `false`, `E` (an error value) or `v` per result -/
  | ret (vals : List String)
  | cont | brk | panic
  deriving DecidableEq, Repr

end Verif.Skel

namespace Verif.Skel

/-- an enclosing block: its opening token and whether we are past its `else` -/
structure Ctx where
  opener : Tok
  inElse : Bool
  deriving DecidableEq, Repr

def Tok.opens : Tok → Bool
  | .ifc .. | .loop .. | .fn => true
  | _ => false

/-- every token with the stack of blocks that enclose it (innermost first) -/
def annotate : List Tok → List Ctx → List (Tok × List Ctx)
  | [], _ => []
  | t :: ts, st =>
    match t with
    | .ifc .. | .loop .. | .fn => (t, st) :: annotate ts (⟨t, false⟩ :: st)
    | .els => (t, st) :: annotate ts (match st with | c :: r => ⟨c.opener, true⟩ :: r | [] => [])
    | .done => (t, st.tail) :: annotate ts st.tail
    | _ => (t, st) :: annotate ts st

/-- blocks are balanced: every `done`/`els` has an opener and nothing stays open -/
def balanced : List Tok → Nat → Bool
  | [], d => d == 0
  | t :: ts, d =>
    match t with
    | .ifc .. | .loop .. | .fn => balanced ts (d + 1)
    | .done => d != 0 && balanced ts (d - 1)
    | .els => d != 0 && balanced ts d
    | _ => balanced ts d

def isCall (n : String) : Tok → Bool
  | .call m _ => m == n
  | _ => false

def callNames : List Tok → List String
  | [] => []
  | .call n _ :: ts => n :: callNames ts
  | _ :: ts => callNames ts

def idxOf (p : Tok → Bool) : List Tok → Option Nat
  | [] => none
  | t :: ts => if p t then some 0 else (idxOf p ts).map (· + 1)

/-- the first token satisfying `a` comes before the first satisfying `b`, and both occur -/
def firstBefore (a b : Tok → Bool) (ts : List Tok) : Bool :=
  match idxOf a ts, idxOf b ts with
  | some i, some j => i < j
  | _, _ => false

/-- no token satisfying `a` occurs before the first satisfying `b` (which occurs) -/
def noneBefore (a b : Tok → Bool) (ts : List Tok) : Bool :=
  match idxOf b ts with
  | some j => (ts.take j).all (fun t => !a t)
  | none => false

/-- every token satisfying `p` lies in the then-branch / body of a block whose opener satisfies `g` -/
def guardedBy (p g : Tok → Bool) (ts : List Tok) : Bool :=
  (annotate ts []).all fun (t, st) => !p t || st.any (fun c => g c.opener && !c.inElse)

/-- every token satisfying `p` lies in the else-branch of a block whose opener satisfies `g` -/
def inElseOf (p g : Tok → Bool) (ts : List Tok) : Bool :=
  (annotate ts []).all fun (t, st) => !p t || st.any (fun c => g c.opener && c.inElse)

def occurs (p : Tok → Bool) (ts : List Tok) : Bool := ts.any p

/-- the pattern (a list of token tests) matches a prefix of the tokens -/
def matchPrefix : List (Tok → Bool) → List Tok → Bool
  | [], _ => true
  | _ :: _, [] => false
  | p :: ps, t :: ts => p t && matchPrefix ps ts

/-- the pattern matches contiguously somewhere -/
def hasInfix (ps : List (Tok → Bool)) : List Tok → Bool
  | [] => matchPrefix ps []
  | t :: ts => matchPrefix ps (t :: ts) || hasInfix ps ts

/-- the tokens after the first one satisfying `p` -/
def after (p : Tok → Bool) : List Tok → List Tok
  | [] => []
  | t :: ts => if p t then ts else after p ts

/-- store-writing calls (`m.store.X` for the mutating `X`) -/
def isStoreWrite : Tok → Bool
  | .call n _ => n == "m.store.AddBlock" || n == "m.store.AddState" || n == "m.store.ApplyBlock" ||
      n == "m.store.RevertBlock" || n == "m.store.PruneBlock" || n == "m.store.Flush"
  | _ => false

def isSet : Tok → Bool
  | .set _ => true
  | _ => false

def isSetOf (l : String) : Tok → Bool
  | .set x => x == l
  | _ => false

def isRet (vals : List String) : Tok → Bool
  | .ret v => v == vals
  | _ => false

def isErrCheck : Tok → Bool
  | .ifc [] ["!="] => true
  | _ => false

/-- the `if cs.SufficientlyHeavierThan(m.tipState)` guard, not negated, with nothing else in it -/
def isHeavierGuard : Tok → Bool
  | .ifc [u, "m.tipState"] [] => u == ".SufficientlyHeavierThan()"
  | _ => false

end Verif.Skel

namespace Verif.Skel

/-- a call with exactly these printed arguments -/
def isCallA (n : String) (a : List String) : Tok → Bool
  | .call m b => m == n && b == a
  | _ => false

/-- `for … range x` -/
def isRange (x : String) : Tok → Bool
  | .loop ["range", y] [] => y == x
  | _ => false

def isLoop : Tok → Bool
  | .loop .. => true
  | _ => false

end Verif.Skel
