/-
`UpdatesSince` on a node that has pruned: a subscriber that stands on the best chain at or
above the last pruned height (`frontier - 1`) is served exactly as on an unpruned node — the walk
forward needs only bodies at or above the frontier.  (This is `PruneBlocks`' contract: prune only
below what every subscriber has processed.)
-/
import Verif.Lemmas.Prune
import Verif.Lemmas.Updates

namespace Verif.Chain

/-- consecutive entries of the height index are parent-linked -/
theorem WInv.bestAt_succ_parent {U m} (h : WInv U m) {k i n : Nat}
    (hi : m.bestAt k = some i) (hn : m.bestAt (k + 1) = some n) : par U n = i ∧ n ≠ 0 := by
  obtain ⟨hh, _, hlt⟩ := h.bestAt_height hn
  have hk1 : m.best.length - 1 - (k + 1) < m.best.length := by omega
  have hk0 : m.best.length - 1 - k < m.best.length := by omega
  have en : n = anc U (m.best.length - 1 - (k + 1)) m.tip := by
    unfold Mgr.bestAt at hn
    rw [if_pos hlt, List.getElem?_eq_getElem hk1] at hn
    rw [← Option.some.inj hn, h.best_getElem _ hk1]
  have ei : i = anc U (m.best.length - 1 - k) m.tip := by
    unfold Mgr.bestAt at hi
    rw [if_pos (by omega), List.getElem?_eq_getElem hk0] at hi
    rw [← Option.some.inj hi, h.best_getElem _ hk0]
  refine ⟨?_, h.core.ne_zero_of_height (by omega)⟩
  rw [en, ei, ← anc_succ']
  congr 1
  omega

/-- the subscribers a pruned node can serve forward: on the best chain, not below the last
pruned height -/
def SubP (U : Nat → Blk) (m : Mgr) (p : Nat) (i : Nat) : Prop :=
  m.bestAt (U i).height = some i ∧ p ≤ (U i).height + 1

/-- one loop iteration for such a subscriber below the tip: the next best block is applied -/
theorem nextUpd_pruned {U m p} (h : PInv U m p) {i : Nat} (hs : SubP U m p i) (hne : i ≠ m.tip) :
    ∃ n, nextUpd U m (some i) = .ok (.apply n, n) ∧ SubP U m p n ∧ par U n = i ∧
      (U n).height = (U i).height + 1 := by
  have hw := h.toWInv
  obtain ⟨hon, hp⟩ := hs
  obtain ⟨_, him, hlt⟩ := hw.bestAt_height hon
  have hlen := hw.length
  -- below the tip
  have hlt' : (U i).height < (U m.tip).height := by
    have hle : (U i).height ≤ (U m.tip).height := by omega
    rcases Nat.lt_or_ge (U i).height (U m.tip).height with x | x
    · exact x
    · exfalso
      have e : (U i).height = (U m.tip).height := by omega
      have := hw.bestAt_of_mem hw.tip_mem
      rw [← e, hon] at this
      exact hne (Option.some.inj this)
  -- the next entry of the index
  have hk : (U i).height + 1 < m.best.length := by omega
  have hj : m.best.length - 1 - ((U i).height + 1) < m.best.length := by omega
  have hn : m.bestAt ((U i).height + 1) = some m.best[m.best.length - 1 - ((U i).height + 1)] := by
    unfold Mgr.bestAt; rw [if_pos hk]; exact List.getElem?_eq_getElem hj
  obtain ⟨hnh, hnm, _⟩ := hw.bestAt_height hn
  obtain ⟨hpar, hn0⟩ := hw.bestAt_succ_parent hon hn
  have hrec := h.stored _ hnm (by omega)
  have hps : m.states (U m.best[m.best.length - 1 - ((U i).height + 1)]).parent = true := by
    have e : (U m.best[m.best.length - 1 - ((U i).height + 1)]).parent = i := hpar
    rw [e]; exact hw.best_state him
  refine ⟨_, ?_, ⟨by rw [hnh]; exact hn, by omega⟩, hpar, hnh⟩
  simp [nextUpd, onBestChain, hon, hn, Mgr.block, hrec, hps, hn0]

/-- **the loop on a pruned node**: for a subscriber on the best chain at or above the last pruned
height `UpdatesSince` never fails, returns only applies, each of the next best-chain block, at most
`max` of them, and ends at the tip unless `max` stops it -/
theorem updatesSince_pruned {U m p} (h : PInv U m p) (max : Nat) :
    ∀ (fuel i : Nat) (acc : List Upd), SubP U m p i → (U m.tip).height - (U i).height ≤ fuel →
      ∃ us i', updatesSince U m fuel (some i) max acc = .ok (acc ++ us) ∧
        walk U (some i) us = some (some i') ∧ SubP U m p i' ∧
        (∀ u ∈ us, ∃ b, u = .apply b) ∧
        (i' = m.tip ∨ (acc ++ us).length ≥ max) ∧ us.length ≤ max - acc.length := by
  have hw := h.toWInv
  intro fuel
  induction fuel with
  | zero =>
    intro i acc hs hf
    refine ⟨[], i, by simp [updatesSince], rfl, hs, by simp, Or.inl ?_, by simp⟩
    -- distance 0 on the best chain means the tip
    obtain ⟨hon, _⟩ := hs
    obtain ⟨_, him, _⟩ := hw.bestAt_height hon
    have hle := hw.mem_height_le him
    have e : (U i).height = (U m.tip).height := by omega
    have := hw.bestAt_of_mem hw.tip_mem
    rw [← e, hon] at this
    exact Option.some.inj this
  | succ fuel ih =>
    intro i acc hs hf
    unfold updatesSince
    by_cases hstop : some i = some m.tip ∨ acc.length ≥ max
    · simp only [hstop, if_true]
      refine ⟨[], i, by simp, rfl, hs, by simp, ?_, by simp⟩
      rcases hstop with e | e
      · exact Or.inl (Option.some.inj e)
      · right; simpa using e
    · simp only [hstop, if_false]
      have hne : i ≠ m.tip := fun e => hstop (Or.inl (by rw [e]))
      have hlt : acc.length < max := by
        by_cases x : acc.length < max
        · exact x
        · exact absurd (Or.inr (by omega)) hstop
      obtain ⟨n, n1, n2, n3, n4⟩ := nextUpd_pruned h hs hne
      simp only [n1]
      obtain ⟨us, i', r1, r2, r3, r4, r5, r6⟩ := ih n (acc ++ [.apply n]) n2 (by omega)
      have hn0 : n ≠ 0 := by
        intro e
        rw [e, h.core.h0] at n4
        omega
      refine ⟨.apply n :: us, i', by simpa using r1, ?_, r3, ?_, by simpa using r5, ?_⟩
      · simp [walk, stepUpd, n3, hn0, r2]
      · intro u hu
        rcases List.mem_cons.mp hu with rfl | hu
        · exact ⟨n, rfl⟩
        · exact r4 u hu
      · simp only [List.length_append, List.length_cons, List.length_nil] at r6 ⊢
        omega

end Verif.Chain
