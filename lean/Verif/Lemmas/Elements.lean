/-
Helper lemmas for M3 (Elements): the expiration-list primitives, the per-bucket round trips
of `applyElements` / `revertElements`, and the history induction.
-/
import Verif.Model.Elements

namespace Verif.Elements

/-! ### `delExp` (swap-with-last removal) -/

theorem getLast?_dropLast_perm {xs : List Nat} {y : Nat} (h : xs.getLast? = some y) :
    (y :: xs.dropLast).Perm xs := by
  obtain ⟨ys, rfl⟩ := List.getLast?_eq_some_iff.mp h
  have := (List.perm_append_comm (l₁ := [y]) (l₂ := ys))
  simpa using this

/-- as a multiset, swap-removal is `erase` -/
theorem delExp_perm_erase (l : List Nat) (id : Nat) : (delExp l id).Perm (l.erase id) := by
  induction l with
  | nil => simp [delExp]
  | cons x xs ih =>
    unfold delExp
    by_cases hx : x = id
    · subst hx
      simp only [if_true, List.erase_cons_head]
      cases hl : xs.getLast? with
      | none =>
        have : xs = [] := by simpa using hl
        simp [this]
      | some y => exact getLast?_dropLast_perm hl
    · simp only [hx, if_false]
      rw [List.erase_cons_tail (by simpa using hx)]
      exact ih.cons x

theorem delExp_of_not_mem {l : List Nat} {id : Nat} (h : id ∉ l) : delExp l id = l := by
  induction l with
  | nil => rfl
  | cons x xs ih =>
    have hx : x ≠ id := fun e => h (by simp [e])
    have hxs : id ∉ xs := fun m => h (by simp [m])
    simp [delExp, hx, ih hxs]

theorem mem_delExp_of_ne {l : List Nat} {id a : Nat} (h : a ≠ id) : a ∈ delExp l id ↔ a ∈ l := by
  rw [(delExp_perm_erase l id).mem_iff]
  exact List.mem_erase_of_ne h

theorem delExp_congr {l l' : List Nat} (h : l.Perm l') (id : Nat) : (delExp l id).Perm (delExp l' id) :=
  (delExp_perm_erase l id).trans ((h.erase id).trans (delExp_perm_erase l' id).symm)

/-- append then remove-last is exact (`exp_create_roundtrip`) -/
theorem delExp_append_self {l : List Nat} {id : Nat} (h : id ∉ l) : delExp (l ++ [id]) id = l := by
  induction l with
  | nil => simp [delExp]
  | cons x xs ih =>
    have hx : x ≠ id := fun e => h (by simp [e])
    have hxs : id ∉ xs := fun m => h (by simp [m])
    simp [delExp, hx, ih hxs]

/-- one swap-removal followed by the reverting prepend -/
theorem cons_delExp_eq_iff {l : List Nat} {id : Nat} (hnd : l.Nodup) (hm : id ∈ l) :
    id :: delExp l id = l ↔ l.head? = some id ∧ l.length ≤ 2 := by
  match l, hnd, hm with
  | [], _, hm => simp at hm
  | [x], _, hm =>
    have : id = x := by simpa using hm
    subst this; simp [delExp]
  | [x, y], hnd, hm =>
    by_cases hx : x = id
    · subst hx; simp [delExp]
    · have hx' : ¬ id = x := fun e => hx e.symm
      simp [delExp, hx, hx']
  | x :: y :: z :: rest, hnd, hm =>
    have hyz : y ≠ z := by
      intro e; subst e
      simp at hnd
    by_cases hx : x = id
    · subst hx
      simp only [delExp, if_true, List.head?_cons, List.length_cons]
      constructor
      · intro h
        exfalso
        -- id :: last :: dropLast (y :: z :: rest) = id :: y :: z :: rest forces y = z
        cases hl : (y :: z :: rest).getLast? with
        | none => simp at hl
        | some w =>
          rw [hl] at h
          simp only [List.cons.injEq, true_and] at h
          have h2 := h.2
          simp [List.dropLast] at h2
          exact hyz h2.1
      · intro h; omega
    · have hx' : ¬ id = x := fun e => hx e.symm
      simp [delExp, hx, hx']

/-- removing every entry of a list, in list order, from any arrangement of it leaves nothing -/
theorem foldl_delExp_all (l : List Nat) : ∀ m : List Nat, m.Perm l → l.foldl delExp m = [] := by
  induction l with
  | nil => intro m h; simpa using h.eq_nil
  | cons a l ih =>
    intro m h
    simp only [List.foldl_cons]
    apply ih
    have h1 : (delExp m a).Perm (m.erase a) := delExp_perm_erase m a
    have h2 : (m.erase a).Perm ((a :: l).erase a) := h.erase a
    simpa using h1.trans h2

theorem foldl_cons_reverse (l acc : List Nat) :
    l.reverse.foldl (fun acc id => id :: acc) acc = l ++ acc := by
  induction l generalizing acc with
  | nil => rfl
  | cons a l ih => simp [List.foldl_append, ih]

/-! ### well-formed diff lists

What `consensus.ApplyBlock` guarantees about the diffs of a valid block relative to the store
they are applied to (consensus is a parameter; these are the hypotheses of the round-trip
theorems, and the generators of the correspondence check cross them deliberately). -/

/-- within one kind every id occurs at most once (`recordSiacoinElement` & co. key the diff
lists by id, core `application.go:400-470`) -/
def DistinctIds (ds : List Diff) : Prop := ds.Pairwise (fun a b => a.kind = b.kind → a.id ≠ b.id)

/-- a spent element is stored, a created one is not -/
def WFSet (k : Kind) (f : Nat → Bool) (d : Diff) : Prop :=
  d.kind = k → (d.created && d.spent) = false →
    (d.spent = true → f d.id = true) ∧ (d.spent = false → f d.id = false)

/-- a resolved or revised contract is stored *as the diff's element describes it*; a created
one is not stored -/
def WFFc (g : Nat → Option (Nat × Nat)) (d : Diff) : Prop :=
  d.kind = .fc → (d.created && d.spent) = false →
    (d.spent = true → g d.id = some (d.we, d.rn)) ∧
    (d.spent = false → (d.rev.isSome = true → g d.id = some (d.we, d.rn)) ∧ (d.rev = none → g d.id = none))

/-- a contract removed from an expiration list is on it -/
def WFExp (e : Nat → List Nat) (d : Diff) : Prop :=
  d.kind = .fc → (d.created && d.spent) = false →
    (d.spent = true → d.id ∈ e d.we) ∧
    (d.spent = false → ∀ r, d.rev = some r → r.1 ≠ d.we → d.id ∈ e d.we)

structure WF (s : Store) (ds : List Diff) : Prop where
  distinct : DistinctIds ds
  sc : ∀ d ∈ ds, WFSet .sc s.sc d
  sf : ∀ d ∈ ds, WFSet .sf s.sf d
  fc : ∀ d ∈ ds, WFFc s.fc d
  exp : ∀ d ∈ ds, WFExp s.exp d

/-! ### locality: a diff touches only its own key, in the bucket of its own kind -/

theorem appSet_other (k : Kind) (f : Nat → Bool) (d : Diff) (j : Nat) (h : d.kind = k → j ≠ d.id) :
    appSet k f d j = f j := by
  by_cases hk : d.kind = k
  · have := h hk
    unfold appSet; (repeat' split) <;> simp [set, this]
  · simp [appSet, hk]

theorem revSet_other (k : Kind) (f : Nat → Bool) (d : Diff) (j : Nat) (h : d.kind = k → j ≠ d.id) :
    revSet k f d j = f j := by
  by_cases hk : d.kind = k
  · have := h hk
    unfold revSet; (repeat' split) <;> simp [set, this]
  · simp [revSet, hk]

theorem appFc_other (g : Nat → Option (Nat × Nat)) (d : Diff) (j : Nat) (h : d.kind = .fc → j ≠ d.id) :
    appFc g d j = g j := by
  by_cases hk : d.kind = .fc
  · have := h hk
    unfold appFc; cases d.rev <;> (repeat' split) <;> simp [set, this]
  · simp [appFc, hk]

theorem revFc_other (g : Nat → Option (Nat × Nat)) (d : Diff) (j : Nat) (h : d.kind = .fc → j ≠ d.id) :
    revFc g d j = g j := by
  by_cases hk : d.kind = .fc
  · have := h hk
    unfold revFc; cases d.rev <;> (repeat' split) <;> simp [set, this]
  · simp [revFc, hk]

/-! ### single-diff round trips -/

theorem revSet_appSet (k : Kind) (f : Nat → Bool) (d : Diff) (h : WFSet k f d) :
    revSet k (appSet k f d) d = f := by
  funext j
  unfold WFSet at h
  by_cases hk : d.kind = k
  · by_cases he : (d.created && d.spent) = true
    · simp [revSet, appSet, hk, he]
    · have he' : (d.created && d.spent) = false := by simpa using he
      have h := h hk he'
      by_cases hj : j = d.id
      · subst hj
        cases hs : d.spent
        · have := h.2 hs; simp [revSet, appSet, hk, hs, this]
        · have := h.1 hs
          have hc : d.created = false := by simpa [hs] using he'
          simp [revSet, appSet, hk, hs, hc, this]
      · rw [revSet_other k _ d j (fun _ => hj), appSet_other k _ d j (fun _ => hj)]
  · simp [revSet, appSet, hk]

theorem revFc_appFc (g : Nat → Option (Nat × Nat)) (d : Diff) (h : WFFc g d) :
    revFc (appFc g d) d = g := by
  funext j
  unfold WFFc at h
  by_cases hk : d.kind = .fc
  · by_cases he : (d.created && d.spent) = true
    · simp [revFc, appFc, hk, he]
    · have he' : (d.created && d.spent) = false := by simpa using he
      have h := h hk he'
      by_cases hj : j = d.id
      · subst hj
        cases hs : d.spent
        · have h2 := h.2 hs
          cases hr : d.rev with
          | none => have := h2.2 hr; simp [revFc, appFc, hk, hs, hr, this]
          | some r => have := h2.1 (by simp [hr]); simp [revFc, appFc, hk, hs, hr, this]
        · have := h.1 hs
          have hc : d.created = false := by simpa [hs] using he'
          simp [revFc, appFc, hk, hs, hc, this]
      · rw [revFc_other _ d j (fun _ => hj), appFc_other _ d j (fun _ => hj)]
  · simp [revFc, appFc, hk]

/-! ### whole-list round trips on the keyed buckets -/

theorem foldl_rev_cons {σ} (step : σ → Diff → σ) (s : σ) (d : Diff) (ds : List Diff) :
    (d :: ds).reverse.foldl step s = step (ds.reverse.foldl step s) d := by
  simp [List.foldl_append]

theorem set_roundtrip (k : Kind) (ds : List Diff) : ∀ f : Nat → Bool,
    DistinctIds ds → (∀ d ∈ ds, WFSet k f d) →
    ds.reverse.foldl (revSet k) (ds.foldl (appSet k) f) = f := by
  induction ds with
  | nil => intros; rfl
  | cons d ds ih =>
    intro f hd hw
    rw [List.foldl_cons, foldl_rev_cons]
    have hd' : DistinctIds ds := (List.pairwise_cons.mp hd).2
    have hne := (List.pairwise_cons.mp hd).1
    have hw' : ∀ d' ∈ ds, WFSet k (appSet k f d) d' := by
      intro d' hm hk' he
      have hb := hw d' (List.mem_cons_of_mem _ hm) hk' he
      have : appSet k f d d'.id = f d'.id :=
        appSet_other k f d d'.id (fun hk => fun e => hne d' hm (hk.trans hk'.symm) e.symm)
      rw [this]; exact hb
    rw [ih (appSet k f d) hd' hw']
    exact revSet_appSet k f d (hw d (List.mem_cons_self ..))

theorem fc_roundtrip (ds : List Diff) : ∀ g : Nat → Option (Nat × Nat),
    DistinctIds ds → (∀ d ∈ ds, WFFc g d) →
    ds.reverse.foldl revFc (ds.foldl appFc g) = g := by
  induction ds with
  | nil => intros; rfl
  | cons d ds ih =>
    intro g hd hw
    rw [List.foldl_cons, foldl_rev_cons]
    have hd' : DistinctIds ds := (List.pairwise_cons.mp hd).2
    have hne := (List.pairwise_cons.mp hd).1
    have hw' : ∀ d' ∈ ds, WFFc (appFc g d) d' := by
      intro d' hm hk' he
      have hb := hw d' (List.mem_cons_of_mem _ hm) hk' he
      have : appFc g d d'.id = g d'.id :=
        appFc_other g d d'.id (fun hk => fun e => hne d' hm (hk.trans hk'.symm) e.symm)
      rw [this]; exact hb
    rw [ih (appFc g d) hd' hw']
    exact revFc_appFc g d (hw d (List.mem_cons_self ..))

/-! ### projections of the folded store -/

theorem applyDiffs_sc (s : Store) (ds : List Diff) : (applyDiffs s ds).sc = ds.foldl (appSet .sc) s.sc := by
  induction ds generalizing s with
  | nil => rfl
  | cons d ds ih => simp only [applyDiffs, List.foldl_cons] at *; rw [ih]; rfl
theorem applyDiffs_sf (s : Store) (ds : List Diff) : (applyDiffs s ds).sf = ds.foldl (appSet .sf) s.sf := by
  induction ds generalizing s with
  | nil => rfl
  | cons d ds ih => simp only [applyDiffs, List.foldl_cons] at *; rw [ih]; rfl
theorem applyDiffs_fc (s : Store) (ds : List Diff) : (applyDiffs s ds).fc = ds.foldl appFc s.fc := by
  induction ds generalizing s with
  | nil => rfl
  | cons d ds ih => simp only [applyDiffs, List.foldl_cons] at *; rw [ih]; rfl
theorem applyDiffs_exp (s : Store) (ds : List Diff) : (applyDiffs s ds).exp = ds.foldl appExp s.exp := by
  induction ds generalizing s with
  | nil => rfl
  | cons d ds ih => simp only [applyDiffs, List.foldl_cons] at *; rw [ih]; rfl
theorem applyDiffs_index (s : Store) (ds : List Diff) : (applyDiffs s ds).index = s.index ∧ (applyDiffs s ds).height = s.height := by
  induction ds generalizing s with
  | nil => exact ⟨rfl, rfl⟩
  | cons d ds ih => simp only [applyDiffs, List.foldl_cons] at *; exact ih (applyDiff s d)

theorem revertDiffs_sc (s : Store) (ds : List Diff) : (revertDiffs s ds).sc = ds.foldl (revSet .sc) s.sc := by
  induction ds generalizing s with
  | nil => rfl
  | cons d ds ih => simp only [revertDiffs, List.foldl_cons] at *; rw [ih]; rfl
theorem revertDiffs_sf (s : Store) (ds : List Diff) : (revertDiffs s ds).sf = ds.foldl (revSet .sf) s.sf := by
  induction ds generalizing s with
  | nil => rfl
  | cons d ds ih => simp only [revertDiffs, List.foldl_cons] at *; rw [ih]; rfl
theorem revertDiffs_fc (s : Store) (ds : List Diff) : (revertDiffs s ds).fc = ds.foldl revFc s.fc := by
  induction ds generalizing s with
  | nil => rfl
  | cons d ds ih => simp only [revertDiffs, List.foldl_cons] at *; rw [ih]; rfl
theorem revertDiffs_exp (s : Store) (ds : List Diff) : (revertDiffs s ds).exp = ds.foldl revExp s.exp := by
  induction ds generalizing s with
  | nil => rfl
  | cons d ds ih => simp only [revertDiffs, List.foldl_cons] at *; rw [ih]; rfl
theorem revertDiffs_index (s : Store) (ds : List Diff) : (revertDiffs s ds).index = s.index ∧ (revertDiffs s ds).height = s.height := by
  induction ds generalizing s with
  | nil => exact ⟨rfl, rfl⟩
  | cons d ds ih => simp only [revertDiffs, List.foldl_cons] at *; exact ih (revertDiff s d)

/-! ### the expiration lists: restored as multisets -/

/-- pointwise permutation of expiration schedules -/
def PermE (e e' : Nat → List Nat) : Prop := ∀ h, (e h).Perm (e' h)

theorem PermE.refl (e : Nat → List Nat) : PermE e e := fun _ => List.Perm.refl _
theorem PermE.trans {a b c : Nat → List Nat} (h1 : PermE a b) (h2 : PermE b c) : PermE a c :=
  fun h => (h1 h).trans (h2 h)

theorem PermE.set {e e' : Nat → List Nat} (h : PermE e e') (k : Nat) {l l' : List Nat} (hl : l.Perm l') :
    PermE (set e k l) (set e' k l') := by
  intro j; by_cases hj : j = k
  · subst hj; simpa using hl
  · simpa [Elements.set, hj] using h j

theorem putExp_congr {l l' : List Nat} (h : l.Perm l') (id : Nat) (a : Bool) :
    (putExp l id a).Perm (putExp l' id a) := by
  cases a
  · simpa [putExp] using h.cons id
  · simpa [putExp] using h.append_right [id]

theorem revExp_congr {t e : Nat → List Nat} (h : PermE t e) (d : Diff) : PermE (revExp t d) (revExp e d) := by
  by_cases hk : d.kind = .fc
  · by_cases he : (d.created && d.spent) = true
    · simpa [revExp, hk, he] using h
    · have he' : (d.created && d.spent) = false := by simpa using he
      cases hs : d.spent
      · cases hr : d.rev with
        | none =>
          have := h.set d.we (delExp_congr (h d.we) d.id)
          simpa [revExp, hk, he', hs, hr] using this
        | some r =>
          by_cases hwe : r.1 = d.we
          · simpa [revExp, hk, he', hs, hr, hwe] using h
          · have h1 : PermE (set t r.1 (delExp (t r.1) d.id)) (set e r.1 (delExp (e r.1) d.id)) :=
              h.set r.1 (delExp_congr (h r.1) d.id)
            have := h1.set d.we (putExp_congr (h1 d.we) d.id false)
            simpa [revExp, hk, he', hs, hr, hwe] using this
      · have hc : d.created = false := by simpa [hs] using he'
        have := h.set d.we (putExp_congr (h d.we) d.id false)
        simpa [revExp, hk, hs, hc] using this
  · simpa [revExp, hk] using h

/-! case equations of `appExp` / `revExp` -/

theorem appExp_resolved (e : Nat → List Nat) (d : Diff) (hk : d.kind = .fc) (hc : d.created = false)
    (hs : d.spent = true) : appExp e d = set e d.we (delExp (e d.we) d.id) := by
  simp [appExp, hk, hc, hs]
theorem appExp_created (e : Nat → List Nat) (d : Diff) (hk : d.kind = .fc) (hs : d.spent = false)
    (hr : d.rev = none) : appExp e d = set e d.we (e d.we ++ [d.id]) := by
  simp [appExp, hk, hs, hr, putExp]
theorem appExp_rev_same (e : Nat → List Nat) (d : Diff) (hk : d.kind = .fc) (hs : d.spent = false)
    (r : Nat × Nat) (hr : d.rev = some r) (hwe : r.1 = d.we) : appExp e d = e := by
  simp [appExp, hk, hs, hr, hwe]
theorem appExp_rev_move (e : Nat → List Nat) (d : Diff) (hk : d.kind = .fc) (hs : d.spent = false)
    (r : Nat × Nat) (hr : d.rev = some r) (hwe : r.1 ≠ d.we) :
    appExp e d = set (set e d.we (delExp (e d.we) d.id)) r.1 (e r.1 ++ [d.id]) := by
  simp [appExp, hk, hs, hr, hwe, putExp, Elements.set]
theorem revExp_resolved (e : Nat → List Nat) (d : Diff) (hk : d.kind = .fc) (hc : d.created = false)
    (hs : d.spent = true) : revExp e d = set e d.we (d.id :: e d.we) := by
  simp [revExp, hk, hc, hs, putExp]
theorem revExp_created (e : Nat → List Nat) (d : Diff) (hk : d.kind = .fc) (hs : d.spent = false)
    (hr : d.rev = none) : revExp e d = set e d.we (delExp (e d.we) d.id) := by
  simp [revExp, hk, hs, hr]
theorem revExp_rev_same (e : Nat → List Nat) (d : Diff) (hk : d.kind = .fc) (hs : d.spent = false)
    (r : Nat × Nat) (hr : d.rev = some r) (hwe : r.1 = d.we) : revExp e d = e := by
  simp [revExp, hk, hs, hr, hwe]
theorem revExp_rev_move (e : Nat → List Nat) (d : Diff) (hk : d.kind = .fc) (hs : d.spent = false)
    (r : Nat × Nat) (hr : d.rev = some r) (hwe : r.1 ≠ d.we) :
    revExp e d = set (set e r.1 (delExp (e r.1) d.id)) d.we (d.id :: e d.we) := by
  have : d.we ≠ r.1 := fun x => hwe x.symm
  simp [revExp, hk, hs, hr, hwe, putExp, Elements.set, this]
theorem appExp_skip (e : Nat → List Nat) (d : Diff) (h : d.kind ≠ .fc ∨ (d.created && d.spent) = true) :
    appExp e d = e := by
  rcases h with h | h <;> simp [appExp, h]
theorem revExp_skip (e : Nat → List Nat) (d : Diff) (h : d.kind ≠ .fc ∨ (d.created && d.spent) = true) :
    revExp e d = e := by
  rcases h with h | h <;> simp [revExp, h]

theorem erase_append_singleton_perm (l : List Nat) (a : Nat) : ((l ++ [a]).erase a).Perm l := by
  by_cases hm : a ∈ l
  · rw [List.erase_append_left _ hm]
    exact List.perm_append_comm.trans (by simpa using (List.perm_cons_erase hm).symm)
  · rw [List.erase_append_right _ hm]; simp

theorem cons_delExp_perm {l : List Nat} {a : Nat} (hm : a ∈ l) : (a :: delExp l a).Perm l :=
  ((delExp_perm_erase l a).cons a).trans (List.perm_cons_erase hm).symm

/-- a single diff: apply then revert restores every list up to order -/
theorem revExp_appExp_perm (e : Nat → List Nat) (d : Diff) (hw : WFExp e d) :
    PermE (revExp (appExp e d) d) e := by
  intro h
  unfold WFExp at hw
  by_cases hk : d.kind = .fc
  · by_cases he : (d.created && d.spent) = true
    · rw [appExp_skip e d (Or.inr he), revExp_skip e d (Or.inr he)]
    · have he' : (d.created && d.spent) = false := by simpa using he
      have hw := hw hk he'
      cases hs : d.spent
      · cases hr : d.rev with
        | none =>
          rw [appExp_created e d hk hs hr, revExp_created _ d hk hs hr]
          by_cases hh : h = d.we
          · subst hh
            simp only [set_same]
            exact (delExp_perm_erase _ _).trans (erase_append_singleton_perm _ _)
          · simp [Elements.set, hh]
        | some r =>
          by_cases hwe : r.1 = d.we
          · rw [appExp_rev_same e d hk hs r hr hwe, revExp_rev_same e d hk hs r hr hwe]
          · have hm : d.id ∈ e d.we := hw.2 hs r hr hwe
            have hwe' : d.we ≠ r.1 := fun x => hwe x.symm
            rw [appExp_rev_move e d hk hs r hr hwe, revExp_rev_move _ d hk hs r hr hwe]
            by_cases h1 : h = d.we
            · subst h1
              simp only [set_same, set_other _ _ _ _ hwe']
              exact cons_delExp_perm hm
            · by_cases h2 : h = r.1
              · subst h2
                simp only [set_other _ _ _ _ h1, set_same]
                exact (delExp_perm_erase _ _).trans (erase_append_singleton_perm _ _)
              · simp [Elements.set, h1, h2]
      · have hm : d.id ∈ e d.we := hw.1 hs
        have hc : d.created = false := by simpa [hs] using he'
        rw [appExp_resolved e d hk hc hs, revExp_resolved _ d hk hc hs]
        by_cases hh : h = d.we
        · subst hh
          simp only [set_same]
          exact cons_delExp_perm hm
        · simp [Elements.set, hh]
  · rw [appExp_skip e d (Or.inl hk), revExp_skip e d (Or.inl hk)]

/-- other ids keep their list membership -/
theorem mem_appExp_of_ne (e : Nat → List Nat) (d : Diff) (a h : Nat) (hne : d.kind = .fc → a ≠ d.id) :
    a ∈ appExp e d h ↔ a ∈ e h := by
  by_cases hk : d.kind = .fc
  · have hne := hne hk
    by_cases he : (d.created && d.spent) = true
    · rw [appExp_skip e d (Or.inr he)]
    · have he' : (d.created && d.spent) = false := by simpa using he
      cases hs : d.spent
      · cases hr : d.rev with
        | none =>
          rw [appExp_created e d hk hs hr]
          by_cases hh : h = d.we
          · subst hh; simp [hne]
          · simp [Elements.set, hh]
        | some r =>
          by_cases hwe : r.1 = d.we
          · rw [appExp_rev_same e d hk hs r hr hwe]
          · rw [appExp_rev_move e d hk hs r hr hwe]
            by_cases h2 : h = r.1
            · subst h2; simp [hne]
            · by_cases h1 : h = d.we
              · subst h1; simp [Elements.set, h2, mem_delExp_of_ne hne]
              · simp [Elements.set, h1, h2]
      · have hc : d.created = false := by simpa [hs] using he'
        rw [appExp_resolved e d hk hc hs]
        by_cases hh : h = d.we
        · subst hh; simp [mem_delExp_of_ne hne]
        · simp [Elements.set, hh]
  · rw [appExp_skip e d (Or.inl hk)]

theorem exp_roundtrip_perm (ds : List Diff) : ∀ e : Nat → List Nat,
    DistinctIds ds → (∀ d ∈ ds, WFExp e d) →
    PermE (ds.reverse.foldl revExp (ds.foldl appExp e)) e := by
  induction ds with
  | nil => intro e _ _; exact PermE.refl e
  | cons d ds ih =>
    intro e hd hw
    rw [List.foldl_cons, foldl_rev_cons]
    have hd' : DistinctIds ds := (List.pairwise_cons.mp hd).2
    have hne := (List.pairwise_cons.mp hd).1
    have hw' : ∀ d' ∈ ds, WFExp (appExp e d) d' := by
      intro d' hm hk' he
      have hb := hw d' (List.mem_cons_of_mem _ hm) hk' he
      have hmem : ∀ h, d'.id ∈ appExp e d h ↔ d'.id ∈ e h := fun h =>
        mem_appExp_of_ne e d d'.id h (fun hk => fun e => hne d' hm (hk.trans hk'.symm) e.symm)
      exact ⟨fun hs => (hmem _).mpr (hb.1 hs), fun hs r hr hwe => (hmem _).mpr (hb.2 hs r hr hwe)⟩
    exact (revExp_congr (ih (appExp e d) hd' hw') d).trans (revExp_appExp_perm e d (hw d (List.mem_cons_self ..)))

/-! ### blocks -/

theorem Store.ext' {a b : Store} (h1 : a.sc = b.sc) (h2 : a.sf = b.sf) (h3 : a.fc = b.fc) (h4 : a.exp = b.exp)
    (h5 : a.index = b.index) (h6 : a.height = b.height) : a = b := by
  cases a; cases b; simp_all

/-- **ExpStable**, defined semantically: applying the diff list and reverting it gives the
expiration schedule back exactly (not just as multisets) -/
def ExpStable (s : Store) (ds : List Diff) : Prop :=
  (revertDiffs (applyDiffs s ds) ds.reverse).exp = s.exp

theorem revertDiffs_applyDiffs_exp (s : Store) (ds : List Diff) :
    (revertDiffs (applyDiffs s ds) ds.reverse).exp = ds.reverse.foldl revExp (ds.foldl appExp s.exp) := by
  rw [revertDiffs_exp, applyDiffs_exp]

/-- reverting a diff list that was never applied changes nothing in the keyed buckets -/
theorem revSet_noop (k : Kind) (f : Nat → Bool) (d : Diff) (h : WFSet k f d) : revSet k f d = f := by
  funext j
  by_cases hk : d.kind = k
  · by_cases he : (d.created && d.spent) = true
    · simp [revSet, hk, he]
    · have he' : (d.created && d.spent) = false := by simpa using he
      have h := h hk he'
      by_cases hj : j = d.id
      · subst hj
        cases hs : d.spent
        · simp [revSet, hk, hs, h.2 hs]
        · have hc : d.created = false := by simpa [hs] using he'
          simp [revSet, hk, hs, hc, h.1 hs]
      · exact revSet_other k f d j (fun _ => hj)
  · simp [revSet, hk]

theorem foldl_revSet_noop (k : Kind) (ds : List Diff) (f : Nat → Bool) (h : ∀ d ∈ ds, WFSet k f d) :
    ds.foldl (revSet k) f = f := by
  induction ds with
  | nil => rfl
  | cons d ds ih =>
    rw [List.foldl_cons, revSet_noop k f d (h d (List.mem_cons_self ..))]
    exact ih (fun d' hm => h d' (List.mem_cons_of_mem _ hm))

theorem foldl_skip {α} (step : α → Diff → α) (ds : List Diff) (x : α) (h : ∀ d ∈ ds, step x d = x) :
    ds.foldl step x = x := by
  induction ds with
  | nil => rfl
  | cons d ds ih =>
    rw [List.foldl_cons, h d (List.mem_cons_self ..)]
    exact ih (fun d' hm => h d' (List.mem_cons_of_mem _ hm))

theorem revFc_nonfc (g : Nat → Option (Nat × Nat)) (d : Diff) (h : d.kind ≠ .fc) : revFc g d = g := by
  simp [revFc, h]

theorem revertDiffs_unapplied (s : Store) (ds : List Diff) (hw : WF s ds) (hno : ∀ d ∈ ds, d.kind ≠ .fc) :
    revertDiffs s ds.reverse = s := by
  have hm : ∀ d, d ∈ ds.reverse → d ∈ ds := fun d h => List.mem_reverse.mp h
  apply Store.ext'
  · rw [revertDiffs_sc]; exact foldl_revSet_noop _ _ _ (fun d h => hw.sc d (hm d h))
  · rw [revertDiffs_sf]; exact foldl_revSet_noop _ _ _ (fun d h => hw.sf d (hm d h))
  · rw [revertDiffs_fc]; exact foldl_skip _ _ _ (fun d h => revFc_nonfc _ d (hno d (hm d h)))
  · rw [revertDiffs_exp]; exact foldl_skip _ _ _ (fun d h => revExp_skip _ d (Or.inl (hno d (hm d h))))
  · exact (revertDiffs_index s _).1
  · exact (revertDiffs_index s _).2

/-- `revertElements ∘ applyElements` on a well-formed diff list is the identity on every keyed
bucket -/
theorem revertDiffs_applyDiffs_keyed (s : Store) (ds : List Diff) (hw : WF s ds) :
    (revertDiffs (applyDiffs s ds) ds.reverse).sc = s.sc ∧
    (revertDiffs (applyDiffs s ds) ds.reverse).sf = s.sf ∧
    (revertDiffs (applyDiffs s ds) ds.reverse).fc = s.fc ∧
    (revertDiffs (applyDiffs s ds) ds.reverse).index = s.index ∧
    (revertDiffs (applyDiffs s ds) ds.reverse).height = s.height := by
  refine ⟨?_, ?_, ?_, ?_, ?_⟩
  · rw [revertDiffs_sc, applyDiffs_sc]; exact set_roundtrip .sc ds s.sc hw.distinct hw.sc
  · rw [revertDiffs_sf, applyDiffs_sf]; exact set_roundtrip .sf ds s.sf hw.distinct hw.sf
  · rw [revertDiffs_fc, applyDiffs_fc]; exact fc_roundtrip ds s.fc hw.distinct hw.fc
  · rw [(revertDiffs_index _ _).1, (applyDiffs_index _ _).1]
  · rw [(revertDiffs_index _ _).2, (applyDiffs_index _ _).2]

/-- the whole block: `RevertBlock ∘ ApplyBlock` restores the store, given that the expiration
lists come back in order (`ExpStable`) -/
theorem revertBlock_applyBlock (req : Nat) (s : Store) (b h : Nat) (ds : List Diff)
    (hw : WF s ds) (hno : h > req → ∀ d ∈ ds, d.kind ≠ .fc)
    (hst : h ≤ req → ExpStable s ds)
    (hidx : s.index h = none) (hh : s.height + 1 = h) :
    revertBlock req (applyBlock req s b h ds) h ds.reverse = s := by
  have hset : set (set s.index h (some b)) h none = s.index := by
    funext j; by_cases hj : j = h
    · subst hj; simp [hidx]
    · simp [Elements.set, hj]
  have hw' : WF (applyState s b h) ds := ⟨hw.distinct, hw.sc, hw.sf, hw.fc, hw.exp⟩
  have hh1 : h - 1 + 1 = h := by omega
  have hh2 : h - 1 = s.height := by omega
  unfold revertBlock applyBlock
  by_cases h1 : h ≤ req
  · have h2 : h - 1 ≤ req := by omega
    simp only [h1, h2, if_true]
    have hk := revertDiffs_applyDiffs_keyed (applyState s b h) ds hw'
    have he : (revertDiffs (applyDiffs (applyState s b h) ds) ds.reverse).exp = s.exp := by
      have := hst h1
      unfold ExpStable at this
      rw [revertDiffs_applyDiffs_exp] at this ⊢
      exact this
    apply Store.ext'
    · exact hk.1
    · exact hk.2.1
    · exact hk.2.2.1
    · exact he
    · show set (revertDiffs (applyDiffs (applyState s b h) ds) ds.reverse).index (h - 1 + 1) none = s.index
      rw [hk.2.2.2.1, hh1]; exact hset
    · exact hh2
  · have hgt : h > req := by omega
    simp only [h1, if_false]
    by_cases h2 : h - 1 ≤ req
    · simp only [h2, if_true]
      rw [revertDiffs_unapplied (applyState s b h) ds hw' (hno hgt)]
      apply Store.ext' <;> try rfl
      · show set (set s.index h (some b)) (h - 1 + 1) none = s.index
        rw [hh1]; exact hset
      · exact hh2
    · simp only [h2, if_false]
      apply Store.ext' <;> try rfl
      · show set (set s.index h (some b)) (h - 1 + 1) none = s.index
        rw [hh1]; exact hset
      · exact hh2

/-! ### histories

`lin b` is the store of a node that applied exactly the ancestry of `b`, one block after the
other.  The history theorem says that any node reaching `b` through applies and reverts holds
`lin b`, provided every block it reverted gets its expiration lists back in order. -/

/-- a block universe: genesis is 0 at height 0 and every other block sits one above its parent -/
structure WFU (U : Nat → BlkInfo) : Prop where
  gen : (U 0).height = 0
  height : ∀ b, b ≠ 0 → (U b).height = (U (U b).parent).height + 1

def linAux (req : Nat) (U : Nat → BlkInfo) : Nat → Nat → Store
  | 0, _ => (Node.init req U).store
  | f + 1, b =>
    if b = 0 then (Node.init req U).store
    else
      let p := linAux req U f (U b).parent
      applyBlock req p b (U b).height (blockDiffs req p (U b))

/-- the store after a linear replay of the ancestry of `b` -/
def lin (req : Nat) (U : Nat → BlkInfo) (b : Nat) : Store := linAux req U (U b).height b

theorem lin_zero (req : Nat) (U : Nat → BlkInfo) (hU : WFU U) : lin req U 0 = (Node.init req U).store := by
  simp [lin, hU.gen, linAux]

theorem lin_succ (req : Nat) (U : Nat → BlkInfo) (hU : WFU U) (b : Nat) (hb : b ≠ 0) :
    lin req U b = applyBlock req (lin req U (U b).parent) b (U b).height
      (blockDiffs req (lin req U (U b).parent) (U b)) := by
  have hh := hU.height b hb
  unfold lin
  rw [hh]
  simp only [linAux, hb, if_false]
  rw [hh]

theorem applyBlock_height (req : Nat) (s : Store) (b h : Nat) (ds : List Diff) :
    (applyBlock req s b h ds).height = h := by
  unfold applyBlock; split
  · rw [(applyDiffs_index _ _).2]; rfl
  · rfl

theorem applyBlock_index (req : Nat) (s : Store) (b h : Nat) (ds : List Diff) :
    (applyBlock req s b h ds).index = set s.index h (some b) := by
  unfold applyBlock; split
  · rw [(applyDiffs_index _ _).1]; rfl
  · rfl

theorem init_store_height (req : Nat) (U : Nat → BlkInfo) : (Node.init req U).store.height = 0 :=
  applyBlock_height ..

theorem lin_height (req : Nat) (U : Nat → BlkInfo) (hU : WFU U) (b : Nat) : (lin req U b).height = (U b).height := by
  by_cases hb : b = 0
  · subst hb; rw [lin_zero req U hU, init_store_height, hU.gen]
  · rw [lin_succ req U hU b hb, applyBlock_height]

/-- nothing is indexed above the tip of a linear replay -/
theorem lin_index_above (req : Nat) (U : Nat → BlkInfo) (hU : WFU U) :
    ∀ n b, (U b).height = n → ∀ h, h > n → (lin req U b).index h = none := by
  intro n
  induction n with
  | zero =>
    intro b hb h hh
    have : b = 0 := by
      apply Classical.byContradiction; intro hne
      have := hU.height b hne; omega
    subst this
    rw [lin_zero req U hU]
    show (applyBlock req Store.empty 0 0 (U 0).fixed).index h = none
    rw [applyBlock_index]
    have : h ≠ 0 := by omega
    simp [Elements.set, this, Store.empty]
  | succ n ih =>
    intro b hb h hh
    have hne : b ≠ 0 := by intro e; subst e; have := hU.gen; omega
    have hp : (U (U b).parent).height = n := by have := hU.height b hne; omega
    rw [lin_succ req U hU b hne, applyBlock_index, hb]
    have : h ≠ n + 1 := by omega
    rw [set_other _ _ _ _ this]
    exact ih _ hp h (by omega)

/-- what consensus guarantees about the declared blocks: relative to the linear store of its
parent, a block's diff list is well formed, and above the require height there are no v1
contract diffs -/
structure WFBlocks (req : Nat) (U : Nat → BlkInfo) : Prop where
  wf : ∀ b, b ≠ 0 → WF (lin req U (U b).parent) (blockDiffs req (lin req U (U b).parent) (U b))
  nofc : ∀ b, b ≠ 0 → (U b).height > req → ∀ d ∈ (U b).fixed, d.kind ≠ .fc

/-- block `b`'s expiration lists survive apply-then-revert on the linear store of its parent -/
def Stable (req : Nat) (U : Nat → BlkInfo) (b : Nat) : Prop :=
  ExpStable (lin req U (U b).parent) (blockDiffs req (lin req U (U b).parent) (U b))

/-- every `revert` of the run undoes a stable block -/
def RevertsStable (req : Nat) (U : Nat → BlkInfo) : Node → List Op → Prop
  | _, [] => True
  | n, op :: ops =>
    (op = .revert → Stable req U n.tip) ∧
    match n.step op with
    | none => True
    | some n' => RevertsStable req U n' ops

structure Inv (req : Nat) (U : Nat → BlkInfo) (n : Node) : Prop where
  req_eq : n.req = req
  U_eq : n.U = U
  store_eq : n.store = lin req U n.tip
  supp_eq : ∀ b ds, n.supp b = some ds → b ≠ 0 → ds = blockDiffs req (lin req U (U b).parent) (U b)

theorem inv_init (req : Nat) (U : Nat → BlkInfo) (hU : WFU U) : Inv req U (Node.init req U) := by
  refine ⟨rfl, rfl, ?_, ?_⟩
  · show (Node.init req U).store = lin req U 0
    rw [lin_zero req U hU]
  · intro b ds h hb
    simp [Node.init, Elements.set, hb] at h

theorem blockDiffs_nofc (req : Nat) (s : Store) (B : BlkInfo) (h : B.height > req)
    (hf : ∀ d ∈ B.fixed, d.kind ≠ .fc) : ∀ d ∈ blockDiffs req s B, d.kind ≠ .fc := by
  intro d hd
  unfold blockDiffs expiryDiffs at hd
  have : B.height ≥ req := by omega
  simp only [this, if_true, List.append_nil] at hd
  exact hf d hd

theorem inv_step (req : Nat) (U : Nat → BlkInfo) (hU : WFU U) (hB : WFBlocks req U)
    (n n' : Node) (op : Op) (hi : Inv req U n) (hs : op = .revert → Stable req U n.tip)
    (hstep : n.step op = some n') : Inv req U n' := by
  obtain ⟨hreq, hUU, hstore, hsupp⟩ := hi
  cases op with
  | apply b =>
    simp only [Node.step, Node.applyTip] at hstep
    split at hstep
    · cases hstep
    · rename_i hc
      have hc : (n.U b).parent = n.tip ∧ (n.U b).height = n.store.height + 1 := by
        constructor
        · apply Classical.byContradiction; intro h; exact hc (Or.inl h)
        · apply Classical.byContradiction; intro h; exact hc (Or.inr h)
      rw [hUU] at hc
      have hb : b ≠ 0 := by
        intro e; subst e; have := hU.gen; omega
      have hds : ∃ ds, ds = blockDiffs req (lin req U (U b).parent) (U b) ∧
          n' = { n with store := applyBlock n.req n.store b (n.U b).height ds, tip := b,
                        supp := set n.supp b (some ds),
                        panicked := n.panicked || applyBlockPanics n.req n.store b (n.U b).height ds } := by
        cases hsb : n.supp b with
        | some ds =>
          simp only [hsb] at hstep
          injection hstep with hstep
          exact ⟨ds, hsupp b ds hsb hb, hstep.symm⟩
        | none =>
          simp only [hsb] at hstep
          injection hstep with hstep
          refine ⟨_, ?_, hstep.symm⟩
          rw [hreq, hUU, hstore, hc.1]
      obtain ⟨ds, hds, hn'⟩ := hds
      subst hn'
      refine ⟨hreq, hUU, ?_, ?_⟩
      · show applyBlock n.req n.store b (n.U b).height ds = lin req U b
        rw [hds, lin_succ req U hU b hb, hreq, hUU, hstore, hc.1]
      · intro b' ds' h hb'
        by_cases hbb : b' = b
        · subst hbb
          simp only [set_same] at h
          injection h with h
          rw [← h]; exact hds
        · simp only [set_other _ _ _ _ hbb] at h
          exact hsupp b' ds' h hb'
  | revert =>
    simp only [Node.step, Node.revertTip] at hstep
    split at hstep
    · cases hstep
    · rename_i hh0
      split at hstep
      · cases hstep
      · rename_i ds hds
        injection hstep with hstep
        subst hstep
        have hb : n.tip ≠ 0 := by
          intro e
          rw [hstore, e, lin_height req U hU, hU.gen] at hh0
          exact hh0 rfl
        have hds' := hsupp n.tip ds hds hb
        refine ⟨hreq, hUU, ?_, hsupp⟩
        show revertBlock n.req n.store n.store.height ds.reverse = lin req U (n.U n.tip).parent
        have hheight : n.store.height = (U n.tip).height := by rw [hstore, lin_height req U hU]
        rw [hheight, hreq, hUU]
        conv => lhs; rw [hstore, lin_succ req U hU n.tip hb, ← hds']
        have hph : (lin req U (U n.tip).parent).height + 1 = (U n.tip).height := by
          rw [lin_height req U hU, hU.height n.tip hb]
        apply revertBlock_applyBlock
        · rw [hds']; exact hB.wf n.tip hb
        · intro hgt; rw [hds']
          exact blockDiffs_nofc req _ _ hgt (hB.nofc n.tip hb hgt)
        · intro _; rw [hds']; exact hs rfl
        · have := hU.height n.tip hb
          exact lin_index_above req U hU _ _ rfl _ (by omega)
        · exact hph

theorem inv_run (req : Nat) (U : Nat → BlkInfo) (hU : WFU U) (hB : WFBlocks req U) (ops : List Op) :
    ∀ n n', Inv req U n → RevertsStable req U n ops → n.run ops = some n' → Inv req U n' := by
  induction ops with
  | nil => intro n n' hi _ hr; simp only [Node.run] at hr; injection hr with hr; subst hr; exact hi
  | cons op ops ih =>
    intro n n' hi hs hr
    simp only [Node.run] at hr
    cases hstep : n.step op with
    | none => rw [hstep] at hr; cases hr
    | some n1 =>
      rw [hstep] at hr
      simp only [RevertsStable, hstep] at hs
      exact ih n1 n' (inv_step req U hU hB n n1 op hi hs.1 hstep) hs.2 hr

/-! ### the linear replay is a run -/

def pathAux (U : Nat → BlkInfo) : Nat → Nat → List Nat
  | 0, _ => []
  | f + 1, b => if b = 0 then [] else pathAux U f (U b).parent ++ [b]

/-- the ancestry of `b` from the first block after genesis down to `b` -/
def path (U : Nat → BlkInfo) (b : Nat) : List Nat := pathAux U (U b).height b

theorem run_append (n : Node) (a b : List Op) :
    n.run (a ++ b) = match n.run a with | none => none | some n1 => n1.run b := by
  induction a generalizing n with
  | nil => rfl
  | cons op a ih =>
    simp only [List.cons_append, Node.run]
    cases n.step op with
    | none => rfl
    | some n1 => exact ih n1

theorem path_succ (U : Nat → BlkInfo) (hU : WFU U) (b : Nat) (hb : b ≠ 0) :
    path U b = path U (U b).parent ++ [b] := by
  unfold path
  rw [hU.height b hb]
  simp [pathAux, hb]

theorem path_zero (U : Nat → BlkInfo) (hU : WFU U) : path U 0 = [] := by
  simp [path, hU.gen, pathAux]

/-- feeding a fresh node exactly the ancestry of `b` succeeds and yields `lin b` -/
theorem linear_run (req : Nat) (U : Nat → BlkInfo) (hU : WFU U) :
    ∀ k b, (U b).height = k →
      ∃ n', (Node.init req U).run ((path U b).map Op.apply) = some n' ∧ n'.store = lin req U b ∧ n'.tip = b
        ∧ n'.req = req ∧ n'.U = U ∧ (∀ c, (U c).height > k → n'.supp c = none) := by
  intro k
  induction k with
  | zero =>
    intro b hb
    have : b = 0 := by
      apply Classical.byContradiction; intro hne
      have := hU.height b hne; omega
    subst this
    refine ⟨Node.init req U, ?_, (lin_zero req U hU).symm, rfl, rfl, rfl, ?_⟩
    · rw [path_zero U hU]; rfl
    · intro c hc
      have : c ≠ 0 := by intro e; subst e; omega
      simp [Node.init, Elements.set, this]
  | succ k ih =>
    intro b hb
    have hne : b ≠ 0 := by intro e; subst e; have := hU.gen; omega
    have hp : (U (U b).parent).height = k := by have := hU.height b hne; omega
    obtain ⟨n1, hrun, hst, htip, hreq, hUU, hsupp⟩ := ih _ hp
    rw [path_succ U hU b hne, List.map_append, run_append, hrun]
    simp only [List.map_cons, List.map_nil, Node.run, Node.step, Node.applyTip]
    have hc : ¬((n1.U b).parent ≠ n1.tip ∨ (n1.U b).height ≠ n1.store.height + 1) := by
      rw [hUU, htip, hst, lin_height req U hU, hp, hb]
      simp
    have hnone : n1.supp b = none := hsupp b (by omega)
    simp only [hc, if_false, hnone]
    refine ⟨_, rfl, ?_, rfl, hreq, hUU, ?_⟩
    · show applyBlock n1.req n1.store b (n1.U b).height (blockDiffs n1.req n1.store (n1.U b)) = lin req U b
      rw [lin_succ req U hU b hne, hreq, hUU, hst]
    · intro c hc'
      have : c ≠ b := by intro e; subst e; omega
      show set n1.supp b _ c = none
      rw [set_other _ _ _ _ this]
      exact hsupp c (by omega)

/-! ### no panic on well-formed diffs; `ExpStable` is decided on the touched heights -/

theorem WFExp_appExp (e : Nat → List Nat) (d d' : Diff) (hne : d.kind = .fc → d'.kind = .fc → d'.id ≠ d.id)
    (h : WFExp e d') : WFExp (appExp e d) d' := by
  intro hk' he
  have hb := h hk' he
  have hmem : ∀ x, d'.id ∈ appExp e d x ↔ d'.id ∈ e x := fun x =>
    mem_appExp_of_ne e d d'.id x (fun hk => hne hk hk')
  exact ⟨fun hs => (hmem _).mpr (hb.1 hs), fun hs r hr hwe => (hmem _).mpr (hb.2 hs r hr hwe)⟩

theorem appPanics_false (e : Nat → List Nat) (d : Diff) (h : WFExp e d) : appPanics e d = false := by
  unfold WFExp at h
  by_cases hk : d.kind = .fc
  · by_cases he : (d.created && d.spent) = true
    · simp [appPanics, hk, he]
    · have he' : (d.created && d.spent) = false := by simpa using he
      have h := h hk he'
      cases hs : d.spent
      · cases hr : d.rev with
        | none => simp [appPanics, hk, hs, hr]
        | some r =>
          by_cases hwe : r.1 = d.we
          · simp [appPanics, hk, hs, hr, hwe]
          · simp [appPanics, hk, hs, hr, hwe, h.2 hs r hr hwe]
      · have hc : d.created = false := by simpa [hs] using he'
        simp [appPanics, hk, hs, hc, h.1 hs]
  · simp [appPanics, hk]

theorem applyDiffsPanics_false (ds : List Diff) : ∀ s : Store,
    DistinctIds ds → (∀ d ∈ ds, WFExp s.exp d) → applyDiffsPanics s ds = false := by
  induction ds with
  | nil => intros; rfl
  | cons d ds ih =>
    intro s hd hw
    have hd' : DistinctIds ds := (List.pairwise_cons.mp hd).2
    have hne := (List.pairwise_cons.mp hd).1
    simp only [applyDiffsPanics, appPanics_false s.exp d (hw d (List.mem_cons_self ..)), Bool.false_or]
    apply ih _ hd'
    intro d' hm
    exact WFExp_appExp s.exp d d' (fun hk hk' e => hne d' hm (hk.trans hk'.symm) e.symm)
      (hw d' (List.mem_cons_of_mem _ hm))

theorem appExp_untouched (e : Nat → List Nat) (d : Diff) (h : Nat) (h1 : h ≠ d.we)
    (h2 : ∀ r, d.rev = some r → h ≠ r.1) : appExp e d h = e h := by
  unfold appExp
  cases hr : d.rev with
  | none => (repeat' split) <;> simp_all [Elements.set]
  | some r =>
    have := h2 r hr
    (repeat' split) <;> simp_all [Elements.set] <;> (split <;> simp_all [Elements.set])

theorem revExp_untouched (e : Nat → List Nat) (d : Diff) (h : Nat) (h1 : h ≠ d.we)
    (h2 : ∀ r, d.rev = some r → h ≠ r.1) : revExp e d h = e h := by
  unfold revExp
  cases hr : d.rev with
  | none => (repeat' split) <;> simp_all [Elements.set]
  | some r =>
    have := h2 r hr
    (repeat' split) <;> simp_all [Elements.set] <;> (split <;> simp_all [Elements.set])

theorem not_touched {ds : List Diff} {h : Nat} (hn : h ∉ touched ds) :
    ∀ d ∈ ds, h ≠ d.we ∧ ∀ r, d.rev = some r → h ≠ r.1 := by
  intro d hd
  constructor
  · intro e; apply hn; unfold touched; rw [List.mem_flatMap]; exact ⟨d, hd, by simp [e]⟩
  · intro r hr e; apply hn; unfold touched; rw [List.mem_flatMap]; exact ⟨d, hd, by simp [hr, e]⟩

theorem foldl_appExp_untouched (ds : List Diff) : ∀ (e : Nat → List Nat) (h : Nat),
    (∀ d ∈ ds, h ≠ d.we ∧ ∀ r, d.rev = some r → h ≠ r.1) → ds.foldl appExp e h = e h := by
  induction ds with
  | nil => intros; rfl
  | cons d ds ih =>
    intro e h hn
    rw [List.foldl_cons, ih _ h (fun d' hm => hn d' (List.mem_cons_of_mem _ hm))]
    exact appExp_untouched e d h (hn d (List.mem_cons_self ..)).1 (hn d (List.mem_cons_self ..)).2

theorem foldl_revExp_untouched (ds : List Diff) : ∀ (e : Nat → List Nat) (h : Nat),
    (∀ d ∈ ds, h ≠ d.we ∧ ∀ r, d.rev = some r → h ≠ r.1) → ds.foldl revExp e h = e h := by
  induction ds with
  | nil => intros; rfl
  | cons d ds ih =>
    intro e h hn
    rw [List.foldl_cons, ih _ h (fun d' hm => hn d' (List.mem_cons_of_mem _ hm))]
    exact revExp_untouched e d h (hn d (List.mem_cons_self ..)).1 (hn d (List.mem_cons_self ..)).2

theorem expStableB_iff' (s : Store) (ds : List Diff) : expStableB s ds = true ↔ ExpStable s ds := by
  unfold expStableB ExpStable
  rw [List.all_eq_true]
  constructor
  · intro h
    funext x
    by_cases hx : x ∈ touched ds
    · simpa using h x hx
    · have hn := not_touched hx
      rw [revertDiffs_applyDiffs_exp]
      rw [foldl_revExp_untouched _ _ x (fun d hd => hn d (List.mem_reverse.mp hd)), foldl_appExp_untouched _ _ x hn]
  · intro h x _
    simp [h]

/-! ### decidability (for the concrete witnesses and non-vacuity examples) -/

instance (k : Kind) (f : Nat → Bool) (d : Diff) : Decidable (WFSet k f d) := by
  unfold WFSet; infer_instance

instance (g : Nat → Option (Nat × Nat)) (d : Diff) : Decidable (WFFc g d) := by
  unfold WFFc; infer_instance

instance (e : Nat → List Nat) (d : Diff) : Decidable (WFExp e d) :=
  decidable_of_iff (d.kind = .fc → (d.created && d.spent) = false →
      (d.spent = true → d.id ∈ e d.we) ∧
      (d.spent = false → (d.rev.all fun r => decide (r.1 ≠ d.we → d.id ∈ e d.we)) = true))
    (by unfold WFExp; cases d.rev <;> simp <;> grind)

instance (ds : List Diff) : Decidable (DistinctIds ds) := by
  unfold DistinctIds; infer_instance

instance (s : Store) (ds : List Diff) : Decidable (WF s ds) :=
  decidable_of_iff (DistinctIds ds ∧ (∀ d ∈ ds, WFSet .sc s.sc d) ∧ (∀ d ∈ ds, WFSet .sf s.sf d) ∧
      (∀ d ∈ ds, WFFc s.fc d) ∧ (∀ d ∈ ds, WFExp s.exp d))
    ⟨fun ⟨a, b, c, d, e⟩ => ⟨a, b, c, d, e⟩, fun h => ⟨h.distinct, h.sc, h.sf, h.fc, h.exp⟩⟩

/-- executable form of `RevertsStable` -/
def revertsStableB (req : Nat) (U : Nat → BlkInfo) : Node → List Op → Bool
  | _, [] => true
  | n, op :: ops =>
    (if op = .revert then
        expStableB (lin req U (U n.tip).parent) (blockDiffs req (lin req U (U n.tip).parent) (U n.tip))
      else true) &&
    match n.step op with
    | none => true
    | some n' => revertsStableB req U n' ops

theorem revertsStableB_sound (req : Nat) (U : Nat → BlkInfo) (ops : List Op) :
    ∀ n, revertsStableB req U n ops = true → RevertsStable req U n ops := by
  induction ops with
  | nil => intro n _; trivial
  | cons op ops ih =>
    intro n h
    simp only [revertsStableB, Bool.and_eq_true] at h
    refine ⟨?_, ?_⟩
    · intro hop
      have := h.1
      simp only [hop, if_true] at this
      exact (expStableB_iff' _ _).mp this
    · have h2 := h.2
      cases hs : n.step op with
      | none => trivial
      | some n' => rw [hs] at h2; exact ih n' h2

end Verif.Elements
