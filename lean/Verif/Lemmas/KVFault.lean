import Verif.Model.KVFault
import Verif.Lemmas.KVCache
/-! Refinement under failures of the physical database: `CacheDB` over any backend that answers
failing calls like the specification (error, nothing changed) does so itself. -/
namespace Verif.KV

structure RefinesF {σ} (B : BackendF σ) (Ri : σ → Spec → Prop) : Prop where
  step : ∀ x s, Ri x s → ∀ fop, (B.step x fop).2 = (s.stepF fop).2 ∧ Ri (B.step x fop).1 (s.stepF fop).1

theorem RefinesF.plain {σ} {B : BackendF σ} {Ri : σ → Spec → Prop} (hB : RefinesF B Ri) :
    Refines B.plain Ri := ⟨fun x s h op => hB.step x s h (.op op)⟩

theorem refinesF_mem : RefinesF memBackendF R := by
  constructor
  intro d s h fop
  cases fop with
  | op o => exact memdb_step_refines d s h o
  | failCreate b => exact ⟨rfl, h⟩
  | failFlush => exact ⟨rfl, h⟩

theorem refinesF_spec : RefinesF specBackendF Eq := by
  constructor
  intro x t h fop
  subst h
  exact ⟨rfl, rfl⟩

/-- one step of `CacheDB` over a backend that may fail -/
theorem cachedb_stepF_refines {σ} {B : BackendF σ} {Ri : σ → Spec → Prop} (hB : RefinesF B Ri)
    (c : CacheDB σ) (s : Spec) (h : Rc Ri c s) (names : List Nat)
    (hn : ∀ b, c.mem.has b = true → b ∈ names) (fop : FOp) :
    (CacheDB.stepF B names c fop).2 = (s.stepF fop).2 ∧
      Rc Ri (CacheDB.stepF B names c fop).1 (s.stepF fop).1 := by
  cases fop with
  | op o => exact cachedb_step_refines hB.plain c s h names hn o
  | failCreate b =>
    obtain ⟨t, ht⟩ := h
    obtain ⟨ho, hr⟩ := hB.step c.inner t ht.inner (.failCreate b)
    simp only [Spec.stepF] at ho hr ⊢
    simp only [CacheDB.stepF]
    rcases hstep : B.step c.inner (.failCreate b) with ⟨s', o⟩
    rw [hstep] at ho hr
    simp only at ho hr
    subst ho
    exact ⟨rfl, t, ⟨hr, ht.nobk, ht.wf, ht.both, ht.sub, ht.dur, ht.work⟩⟩
  | failFlush =>
    obtain ⟨t, ht⟩ := h
    have hr1 := runInner_refines hB.plain (CacheDB.flushOps c.mem names) c.inner t ht.inner
    obtain ⟨ho, hr⟩ := hB.step _ _ hr1 .failFlush
    obtain ⟨hd, hwk⟩ := flush_writes_spec c s t ht names hn
    have hwk' : (runInner specBackend t (CacheDB.flushOps c.mem names)).working = s.working := funext hwk
    simp only [Spec.stepF] at ho hr ⊢
    simp only [CacheDB.stepF]
    refine ⟨ho, _, ⟨hr, ?_, ?_, ?_, ?_, ?_, ?_⟩⟩
    · intro b; simp [MemDB.cleared, ht.nobk b]
    · constructor
      intro b p ds hp hds k hk
      simp only [MemDB.cleared, Option.map_eq_some_iff] at hp
      obtain ⟨_, _, rfl⟩ := hp
      simp at hk
    · intro b hb
      have : c.mem.has b = true := by simpa [MemDB.has, MemDB.cleared] using hb
      simpa [MemDB.cleared] using ht.both b this
    · intro b hb
      have : c.mem.has b = true := by simpa [MemDB.has, MemDB.cleared] using hb
      simp only [hwk', ht.work b, Option.isSome_map]
      exact ht.sub b this
    · rw [hd]; exact ht.dur
    · intro b
      have hP : ((c.mem.cleared.puts b).getD ∅) = ∅ := by
        simp only [MemDB.cleared]; cases c.mem.puts b <;> rfl
      have hD : ((c.mem.cleared.dels b).getD ∅) = ∅ := by
        simp only [MemDB.cleared]; cases c.mem.dels b <;> rfl
      simp only [hP, hD, overlay_empty, hwk']
      cases s.working b <;> rfl

def FOp.bucket? : FOp → Option Nat
  | .op o => o.bucket?
  | .failCreate b => some b
  | .failFlush => none

theorem cachedb_stepF_has {σ} (B : BackendF σ) (names : List Nat) (c : CacheDB σ) (fop : FOp)
    (b : Nat) (hb : (CacheDB.stepF B names c fop).1.mem.has b = true) :
    c.mem.has b = true ∨ fop.bucket? = some b := by
  cases fop with
  | op o => exact cachedb_step_has B.plain names c o b hb
  | failCreate b0 =>
    by_cases hne : b = b0
    · right; simp [FOp.bucket?, hne]
    · left
      simp only [CacheDB.stepF] at hb
      split at hb
      · split at hb
        · exact hb
        · next m hm => rw [← create_has _ _ _ _ hm hne]; exact hb
      · exact hb
  | failFlush =>
    left
    simpa [CacheDB.stepF, MemDB.has, MemDB.cleared] using hb

theorem mem_addNameF_of_bucket (names : List Nat) (fop : FOp) (b : Nat) (h : fop.bucket? = some b) :
    b ∈ addNameF names fop := by
  cases fop with
  | op o => exact mem_addName_of_bucket _ _ _ h
  | failCreate b0 =>
    simp only [FOp.bucket?, Option.some.injEq] at h
    subst h
    simp only [addNameF]
    split
    · next hc => simpa using hc
    · simp
  | failFlush => simp [FOp.bucket?] at h

theorem mem_addNameF_of_mem (names : List Nat) (fop : FOp) (b : Nat) (h : b ∈ names) :
    b ∈ addNameF names fop := by
  cases fop with
  | op o => exact mem_addName_of_mem _ _ _ h
  | failCreate b0 => simp only [addNameF]; split <;> simp [h]
  | failFlush => exact h

theorem addNameF_nodup (names : List Nat) (fop : FOp) (h : names.Nodup) : (addNameF names fop).Nodup := by
  cases fop with
  | op o => exact addName_nodup _ _ h
  | failCreate b0 =>
    simp only [addNameF]
    split
    · exact h
    · next hc => exact List.nodup_cons.mpr ⟨by simpa using hc, h⟩
  | failFlush => exact h

/-- **compositional form under failures** -/
theorem refinesF_cache {σ} {B : BackendF σ} {Ri : σ → Spec → Prop} (hB : RefinesF B Ri) :
    RefinesF (cacheBackendF B) (RcN Ri) := by
  constructor
  intro cn s h fop
  obtain ⟨hrc, hn, hnd⟩ := h
  have hn' : ∀ b, cn.1.mem.has b = true → b ∈ addNameF cn.2 fop :=
    fun b hb => mem_addNameF_of_mem _ _ _ (hn b hb)
  have := cachedb_stepF_refines hB cn.1 s hrc (addNameF cn.2 fop) hn' fop
  refine ⟨this.1, this.2, ?_, addNameF_nodup _ _ hnd⟩
  intro b hb
  rcases cachedb_stepF_has B (addNameF cn.2 fop) cn.1 fop b hb with h1 | h1
  · exact hn' b h1
  · exact mem_addNameF_of_bucket _ _ _ h1

end Verif.KV
