/-
Liveness of `AddBlocks`: a batch that heads a fully valid chain sufficiently heavier than the tip
IS adopted — the complement of the safety theorems (the tip moves only to a heavier valid chain).
-/
import Verif.Lemmas.Chain

namespace Verif.Chain

/-- `applyTip` refuses a block only because its body failed validation -/
theorem applyTip_error_bodyOk {U m i} (h : applyTip U m i = .error .invalidBlock) : (U i).bodyOk = false := by
  unfold applyTip at h
  cases hb : m.block i with
  | none => simp [hb] at h
  | some sp =>
    simp only [hb] at h
    split at h
    · simp at h
    · cases sp with
      | true => simp at h
      | false =>
        simp only [Bool.not_false, if_true] at h
        cases hok : (U i).bodyOk with
        | false => rfl
        | true => simp [hok] at h

/-- a list of attachable blocks whose bodies are all valid is applied completely -/
theorem applyAll_valid {U} : ∀ (l : List Nat) (m : Mgr), Inv U m → Attach U m m.tip l →
    (∀ x ∈ l, (U x).bodyOk = true) → (applyAll U l m).2 = none := by
  intro l
  induction l with
  | nil => intro m _ _ _; simp [applyAll]
  | cons x xs ih =>
    intro m h ⟨hp, hne, hs, hrest⟩ hv
    rcases applyTip_spec h hp hne hs with ⟨m', hok, hinv', hmono, hbest⟩ | ⟨herr, _⟩
    · have htip' : m'.tip = x := by simp [Mgr.tip, hbest]
      simp only [applyAll, hok]
      exact ih m' hinv' (htip' ▸ Attach.mono hmono hrest) (fun y hy => hv y (List.mem_cons_of_mem _ hy))
    · have := applyTip_error_bodyOk herr
      rw [hv x (by simp)] at this
      exact absurd this (by simp)

/-- **`reorgTo` succeeds towards a stored block whose whole ancestry above genesis is valid** -/
theorem reorgTo_valid {U m} (h : Inv U m) {t : Nat} (ht : m.states t = true)
    (hv : ∀ k, k < (U t).height → (U (anc U k t)).bodyOk = true) :
    (reorgTo U m t).2 = none ∧ (reorgTo U m t).1.tip = t := by
  obtain ⟨na, nb, hna, hnb, hpath, hmeet⟩ := reorgPath_spec h.s.core h.tip_state ht
  have hlen := h.length
  obtain ⟨hrev, hinv1⟩ := revertN_spec (U := U) na m h (by omega)
  have htip1 : ({ m with best := m.best.drop na } : Mgr).tip = anc U nb t := by
    have hk := h.best_getElem na (by omega)
    rw [hmeet] at hk
    simp only [Mgr.tip]
    rw [← hk, List.headD_eq_head?_getD, List.head?_drop, List.getElem?_eq_getElem (by omega)]
    rfl
  have hatt : Attach U ({ m with best := m.best.drop na } : Mgr)
      ({ m with best := m.best.drop na } : Mgr).tip ((List.range nb).map (fun k => anc U k t)).reverse := by
    rw [htip1]; exact attach_anc hinv1.s.core ht nb hnb
  have hred : reorgTo U m t = applyAll U ((List.range nb).map (fun k => anc U k t)).reverse { m with best := m.best.drop na } := by
    simp only [reorgTo, hpath, List.length_map, List.length_range, hrev]
  have hnone : (reorgTo U m t).2 = none := by
    rw [hred]
    apply applyAll_valid _ _ hinv1 hatt
    intro x hx
    simp only [List.mem_reverse, List.mem_map, List.mem_range] at hx
    obtain ⟨k, hk, rfl⟩ := hx
    exact hv k (by omega)
  exact ⟨hnone, (reorgTo_spec h ht).2.2.1 hnone⟩

/-- the decision after the loop, for a valid heavier chain -/
theorem maybeReorg_adopts {U m} (h : Inv U m) {cs : Nat} (hcs : m.states cs = true)
    (hv : ∀ k, k < (U cs).height → (U (anc U k cs)).bodyOk = true) (hh : heavier U cs m.tip = true) :
    (maybeReorg U m cs).2 = none ∧ (maybeReorg U m cs).1.tip = cs := by
  obtain ⟨r1, r2⟩ := reorgTo_valid h hcs hv
  unfold maybeReorg
  rw [if_pos hh]
  rcases hr : reorgTo U m cs with ⟨m1, e1⟩
  rw [hr] at r1 r2
  simp only at r1 r2
  subst r1
  simp only
  exact ⟨trivial, by simpa [Mgr.tip] using r2⟩

/-- a batch the loop of `AddBlocks` walks through without an error: a parent-linked run of
header-valid, non-future blocks on top of a block whose state is stored (or of the loop's state) -/
def GoodRun (U : Nat → Blk) (m : Mgr) : Nat → List Nat → Prop
  | _, [] => True
  | cs, b :: bs => ((U b).parent = cs ∨ m.states (U b).parent = true) ∧ (U b).hdrOk = true ∧
      (U b).future = false ∧ GoodRun U m b bs

theorem GoodRun.mono {U m m'} (hm : ∀ i, m.states i = true → m'.states i = true) :
    ∀ {cs l}, GoodRun U m cs l → GoodRun U m' cs l
  | _, [], _ => trivial
  | _, _ :: _, ⟨h1, h2, h3, h4⟩ => ⟨h1.imp id (hm _), h2, h3, GoodRun.mono hm h4⟩

/-- the loop on a good run: no error, and the state it ends on is the last block's -/
theorem addLoop_good {U} (hU : WFU U) : ∀ (batch : List Nat) (m : Mgr) (cs : Nat), Inv U m → m.states cs = true →
    GoodRun U m cs batch →
    (addBlocks.go U batch m cs).2.1 = none ∧ (addBlocks.go U batch m cs).2.2 = batch.getLastD cs := by
  intro batch
  induction batch with
  | nil => intro m cs _ _ _; simp [addBlocks.go]
  | cons b bs ih =>
    intro m cs h hcs ⟨hpar, hhdr, hfut, hrest⟩
    have hlast : (b :: bs).getLastD cs = bs.getLastD b := by cases bs <;> simp [List.getLastD]
    rw [hlast]
    unfold addBlocks.go
    by_cases h1 : m.block b = some true
    · have hb : m.states b = true := by
        simp only [Mgr.block] at h1
        cases hr : m.recs b with
        | none => simp [hr] at h1
        | some r => exact (h.s.recstate b r hr).2
      simp only [h1, if_true]
      exact ih m b h hb hrest
    · simp only [h1, if_false]
      by_cases h2 : m.header b = true ∧ (m.block b).isNone = true
      · -- a header without a body cannot exist on an unpruned node; the branch is still a skip
        have hb : m.states b = true := by
          obtain ⟨hh, _⟩ := h2
          simp only [Mgr.header] at hh
          obtain ⟨r, hr⟩ := Option.isSome_iff_exists.mp hh
          exact (h.s.recstate b r hr).2
        simp only [h2, and_self, if_true]
        exact ih m b h hb hrest
      · simp only [h2, if_false]
        have hnp : ¬ ((U b).parent ≠ cs ∧ (!m.states (U b).parent) = true) := by
          rintro ⟨a1, a2⟩
          rcases hpar with e | e
          · exact a1 e
          · simp [e] at a2
        simp only [hnp, if_false, hfut, hhdr, Bool.not_true, Bool.false_eq_true]
        -- the store step: reuse the invariant part of the loop lemma on the one-block batch
        have hstep := addLoop_spec hU [b] m cs h hcs
        have hgo1 : addBlocks.go U [b] m cs =
            ({ m with states := upd m.states b true, recs := upd m.recs b (some ⟨true, false⟩) }, none, b) := by
          unfold addBlocks.go
          simp only [h1, if_false, h2, hnp, hfut, hhdr, Bool.not_true, Bool.false_eq_true]
          unfold addBlocks.go
          rfl
        rw [hgo1] at hstep
        obtain ⟨j1, _, _, j4, j5, _⟩ := hstep
        exact ih _ b j1 j5 (GoodRun.mono j4.1 hrest)

end Verif.Chain
