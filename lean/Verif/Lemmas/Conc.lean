/-
Helper lemmas for C18: the invariant principle for runs, sums over the peer list under a
point update, and the inductive invariants of the M11 systems.
-/
import Verif.Model.Conc

namespace Verif.Conc

/-! ### runs -/

/-- a predicate preserved by every step holds after every run (induction over the run) -/
theorem Sys.run_inv {σ α : Type} (S : Sys σ α) (P : σ → Prop)
    (hstep : ∀ s a s', P s → S.step s a = some s' → P s') :
    ∀ (tr : List α) (s s' : σ), P s → S.run s tr = some s' → P s' := by
  intro tr
  induction tr with
  | nil =>
    intro s s' hP h
    simp only [Sys.run, Option.some.injEq] at h
    subst h; exact hP
  | cons a as ih =>
    intro s s' hP h
    simp only [Sys.run] at h
    split at h
    · cases h
    · next s1 h1 => exact ih s1 s' (hstep s a s1 hP h1) h

theorem Sys.reach_inv {σ α : Type} (S : Sys σ α) (P : σ → Prop) (s0 : σ) (h0 : P s0)
    (hstep : ∀ s a s', P s → S.step s a = some s' → P s') :
    ∀ s, S.Reach s0 s → P s := by
  intro s ⟨tr, h⟩
  exact Sys.run_inv S P hstep tr s0 s h0 h

theorem Sys.run_append {σ α : Type} (S : Sys σ α) :
    ∀ (tr1 tr2 : List α) (s s1 : σ), S.run s tr1 = some s1 → S.run s (tr1 ++ tr2) = S.run s1 tr2 := by
  intro tr1
  induction tr1 with
  | nil => intro tr2 s s1 h; simp only [Sys.run, Option.some.injEq] at h; subst h; rfl
  | cons a as ih =>
    intro tr2 s s1 h
    rw [List.cons_append]
    simp only [Sys.run] at h
    split at h
    · cases h
    · next s' h' =>
      show (match S.step s a with | none => none | some s' => S.run s' (as ++ tr2)) = _
      rw [h']; exact ih tr2 s' s1 h

/-- reachability is closed under one more step -/
theorem Sys.reach_step {σ α : Type} (S : Sys σ α) (s0 s s' : σ) (a : α)
    (h : S.Reach s0 s) (hs : S.step s a = some s') : S.Reach s0 s' := by
  obtain ⟨tr, htr⟩ := h
  refine ⟨tr ++ [a], ?_⟩
  rw [Sys.run_append S tr [a] s0 s htr]
  simp [Sys.run, hs]

/-! ### sums over the peer list -/

theorem sumBy_append (f : PeerSt → Nat) (l₁ l₂ : List PeerSt) :
    sumBy f (l₁ ++ l₂) = sumBy f l₁ + sumBy f l₂ := by
  induction l₁ with
  | nil => simp [sumBy]
  | cons p ps ih => simp [sumBy, ih]; omega

theorem sumBy_set (f : PeerSt → Nat) :
    ∀ (l : List PeerSt) (i : Nat) (p q : PeerSt), l[i]? = some p →
      sumBy f (l.set i q) + f p = sumBy f l + f q := by
  intro l
  induction l with
  | nil => intro i p q h; simp at h
  | cons x xs ih =>
    intro i p q h
    cases i with
    | zero =>
      simp only [List.getElem?_cons_zero, Option.some.injEq] at h
      subst h
      simp only [List.set_cons_zero, sumBy]; omega
    | succ j =>
      simp only [List.getElem?_cons_succ] at h
      have := ih j p q h
      simp only [List.set_cons_succ, sumBy]; omega

theorem le_sumBy_of_mem (f : PeerSt → Nat) :
    ∀ (l : List PeerSt) (p : PeerSt), p ∈ l → f p ≤ sumBy f l := by
  intro l
  induction l with
  | nil => intro p h; cases h
  | cons x xs ih =>
    intro p h
    simp only [List.mem_cons] at h
    rcases h with h | h
    · subst h; simp only [sumBy]; omega
    · have := ih p h; simp only [sumBy]; omega

theorem sumBy_le_sumBy (f g : PeerSt → Nat) (h : ∀ p, f p ≤ g p) :
    ∀ l : List PeerSt, sumBy f l ≤ sumBy g l := by
  intro l
  induction l with
  | nil => simp [sumBy]
  | cons x xs ih => have := h x; simp only [sumBy]; omega

theorem mem_of_getElem?' {l : List PeerSt} {i : Nat} {p : PeerSt} (h : l[i]? = some p) : p ∈ l :=
  List.mem_of_getElem? h

theorem forall_mem_set {P : PeerSt → Prop} {l : List PeerSt} {i : Nat} {q : PeerSt}
    (hl : ∀ x ∈ l, P x) (hq : P q) : ∀ x ∈ l.set i q, P x := by
  intro x hx
  rcases List.mem_or_eq_of_mem_set hx with h | h
  · exact hl x h
  · subst h; exact hq

/-! ### ThreadGroup -/

structure TG.Inv (s : TG) : Prop where
  count : s.wg = s.running
  waitClosed : 0 < s.waiting → s.closed = true
  retIdle : 0 < s.returned → s.closed = true ∧ s.running = 0

theorem TG.inv_init : TG.Inv {} := ⟨rfl, by simp, by simp⟩

theorem TG.inv_step (s : TG) (a : TGStep) (s' : TG) (h : TG.Inv s) (hs : s.step a = some s') :
    TG.Inv s' := by
  obtain ⟨h1, h2, h3⟩ := h
  cases a <;> simp only [TG.step] at hs
  · -- add
    split at hs <;> simp only [Option.some.injEq] at hs <;> subst hs
    · exact ⟨h1, h2, h3⟩
    · next hc =>
      refine ⟨by simp only; omega, h2, ?_⟩
      intro hr; have := (h3 hr).1; simp_all
  · -- done
    split at hs
    · simp only [Option.some.injEq] at hs; subst hs
      refine ⟨by simp only; omega, h2, ?_⟩
      intro hr; have := h3 hr; simp only at *; omega
    · cases hs
  · -- stop
    simp only [Option.some.injEq] at hs; subst hs
    exact ⟨h1, fun _ => rfl, fun hr => ⟨rfl, (h3 hr).2⟩⟩
  · -- ret
    split at hs
    · next hg =>
      simp only [Option.some.injEq] at hs; subst hs
      refine ⟨h1, ?_, ?_⟩
      · intro _; exact h2 hg.1
      · intro _; exact ⟨h2 hg.1, by have := hg.2; simp only at *; omega⟩
    · cases hs

theorem TG.inv_reach (s : TG) (h : tgSys.Reach {} s) : TG.Inv s :=
  Sys.reach_inv tgSys TG.Inv {} TG.inv_init (fun s a s' hi hs => TG.inv_step s a s' hi hs) s h

/-! ### Server -/

theorem Srv.inv_step (s : Srv) (a : SrvStep) (s' : Srv) (h : TG.Inv s.tg) (hs : s.step a = some s') :
    TG.Inv s'.tg := by
  cases a <;> simp only [Srv.step] at hs
  · simp only [Option.some.injEq] at hs; subst hs; exact h
  · split at hs
    · simp only [Option.map_eq_some_iff] at hs
      obtain ⟨t, ht, rfl⟩ := hs
      exact TG.inv_step _ _ _ h ht
    · cases hs
  all_goals
    simp only [Option.map_eq_some_iff] at hs
    obtain ⟨t, ht, rfl⟩ := hs
    exact TG.inv_step _ _ _ h ht

theorem Srv.inv_reach (s : Srv) (h : srvSys.Reach {} s) : TG.Inv s.tg :=
  Sys.reach_inv srvSys (fun s => TG.Inv s.tg) {} TG.inv_init
    (fun s a s' hi hs => Srv.inv_step s a s' hi hs) s h

/-! ### in-flight accounting -/

structure IF.Inv (s : IF) : Prop where
  wg : s.wg = s.others + sumBy PeerSt.tgMembers s.peers
  sem : ∀ p ∈ s.peers, p.sem = p.semHolders ∧ (0 < s.maxPeer → (p.sem : Int) ≤ s.maxPeer) ∧
    (p.loop = .reject → 0 < s.maxSub)
  sub : 0 < s.maxSub → s.subnet = sumBy PeerSt.subHolders s.peers
  subOff : s.maxSub ≤ 0 → s.subnet = 0
  subLe : 0 < s.maxSub → (s.subnet : Int) ≤ s.maxSub
  drop : s.maxSub ≤ 0 → s.dropped = 0
  waitClosed : 0 < s.waiting → s.tgClosed = true
  ret : 0 < s.returned → s.tgClosed = true ∧ s.wg = 0

theorem IF.inv_init (a b : Int) : IF.Inv (IF.init a b) := by
  refine ⟨by simp [IF.init, sumBy], by simp [IF.init], ?_, ?_, ?_, by simp [IF.init], by simp [IF.init],
    by simp [IF.init]⟩
  · simp [IF.init, sumBy]
  · simp [IF.init]
  · intro h; simp only [IF.init] at h ⊢; omega


@[simp] theorem IF.setPeer_maxPeer (s : IF) (i : Nat) (q : PeerSt) : (s.setPeer i q).maxPeer = s.maxPeer := rfl
@[simp] theorem IF.setPeer_maxSub (s : IF) (i : Nat) (q : PeerSt) : (s.setPeer i q).maxSub = s.maxSub := rfl
@[simp] theorem IF.setPeer_tgClosed (s : IF) (i : Nat) (q : PeerSt) : (s.setPeer i q).tgClosed = s.tgClosed := rfl
@[simp] theorem IF.setPeer_wg (s : IF) (i : Nat) (q : PeerSt) : (s.setPeer i q).wg = s.wg := rfl
@[simp] theorem IF.setPeer_others (s : IF) (i : Nat) (q : PeerSt) : (s.setPeer i q).others = s.others := rfl
@[simp] theorem IF.setPeer_waiting (s : IF) (i : Nat) (q : PeerSt) : (s.setPeer i q).waiting = s.waiting := rfl
@[simp] theorem IF.setPeer_returned (s : IF) (i : Nat) (q : PeerSt) : (s.setPeer i q).returned = s.returned := rfl
@[simp] theorem IF.setPeer_subnet (s : IF) (i : Nat) (q : PeerSt) : (s.setPeer i q).subnet = s.subnet := rfl
@[simp] theorem IF.setPeer_dropped (s : IF) (i : Nat) (q : PeerSt) : (s.setPeer i q).dropped = s.dropped := rfl
@[simp] theorem IF.setPeer_peers (s : IF) (i : Nat) (q : PeerSt) : (s.setPeer i q).peers = s.peers.set i q := rfl

/-- what a point update of the peer list does to the three sums and the per-peer facts -/
theorem IF.inv_setPeer_aux (s : IF) (i : Nat) (p q : PeerSt) (hp : s.peers[i]? = some p) :
    sumBy PeerSt.tgMembers (s.peers.set i q) + p.tgMembers = sumBy PeerSt.tgMembers s.peers + q.tgMembers ∧
    sumBy PeerSt.subHolders (s.peers.set i q) + p.subHolders = sumBy PeerSt.subHolders s.peers + q.subHolders :=
  ⟨sumBy_set _ _ _ _ _ hp, sumBy_set _ _ _ _ _ hp⟩

theorem IF.inv_step (s : IF) (a : IFStep) (s' : IF) (h : IF.Inv s) (hs : s.step a = some s') :
    IF.Inv s' := by
  obtain ⟨hwg, hsem, hsub, hsubOff, hsubLe, hdrop, hwc, hret⟩ := h
  have hsubOn : s.subOn = true ↔ 0 < s.maxSub := by simp [IF.subOn]
  cases a <;> simp only [IF.step] at hs
  case peerStart =>
    split at hs
    · cases hs
    · next hc =>
      simp only [Option.some.injEq] at hs; subst hs
      refine ⟨?_, ?_, ?_, hsubOff, hsubLe, hdrop, hwc, ?_⟩
      · simp only [sumBy_append, sumBy, PeerSt.tgMembers]; simp; omega
      · intro p hp
        simp only [List.mem_append, List.mem_singleton] at hp
        rcases hp with hp | hp
        · exact hsem p hp
        · subst hp; simp [PeerSt.semHolders]; omega
      · intro h0; simp only [sumBy_append, sumBy, PeerSt.subHolders]; simpa using hsub h0
      · intro hr; have := hret hr; simp_all
  case oAdd =>
    split at hs <;> simp only [Option.some.injEq] at hs <;> subst hs
    · exact ⟨hwg, hsem, hsub, hsubOff, hsubLe, hdrop, hwc, hret⟩
    · refine ⟨by simp only; omega, hsem, hsub, hsubOff, hsubLe, hdrop, hwc, ?_⟩
      intro hr; have := hret hr; simp_all
  case oDone =>
    split at hs
    · simp only [Option.some.injEq] at hs; subst hs
      refine ⟨by simp only; omega, hsem, hsub, hsubOff, hsubLe, hdrop, hwc, ?_⟩
      intro hr; have := hret hr; simp only at *; omega
    · cases hs
  case stop =>
    simp only [Option.some.injEq] at hs; subst hs
    exact ⟨hwg, hsem, hsub, hsubOff, hsubLe, hdrop, fun _ => rfl, fun hr => ⟨rfl, (hret hr).2⟩⟩
  case ret =>
    split at hs
    · next hg =>
      simp only [Option.some.injEq] at hs; subst hs
      exact ⟨hwg, hsem, hsub, hsubOff, hsubLe, hdrop, fun _ => hwc hg.1, fun _ => ⟨hwc hg.1, hg.2⟩⟩
    · cases hs
  case want i =>
    split at hs
    case h_2 => cases hs
    case h_1 p hp =>
      have hmem : p ∈ s.peers := List.mem_of_getElem? hp
      obtain ⟨hpsem, hpmax, hprej⟩ := hsem p hmem
      split at hs
      · next hg =>
        simp only [Option.some.injEq] at hs; subst hs
        obtain ⟨h1, h2⟩ := IF.inv_setPeer_aux s i p { p with loop := .want } hp
        refine ⟨?_, forall_mem_set hsem ?_, ?_, hsubOff, hsubLe, hdrop, hwc, ?_⟩
        · simp [IF.setPeer, PeerSt.tgMembers, hg] at h1 ⊢; omega
        · simp [PeerSt.semHolders, hg] at hpsem ⊢; exact ⟨hpsem, hpmax⟩
        · intro h0; have := hsub h0
          simp [IF.setPeer, PeerSt.subHolders] at h2 ⊢; omega
        · intro hr; exact hret hr
      · cases hs
  case take i =>
    split at hs
    case h_2 => cases hs
    case h_1 p hp =>
      have hmem : p ∈ s.peers := List.mem_of_getElem? hp
      obtain ⟨hpsem, hpmax, hprej⟩ := hsem p hmem
      split at hs
      · next hg =>
        obtain ⟨hg, hfree⟩ := hg
        simp only [Option.some.injEq] at hs; subst hs
        obtain ⟨h1, h2⟩ := IF.inv_setPeer_aux s i p { p with loop := .have, sem := p.sem + 1 } hp
        refine ⟨?_, forall_mem_set hsem ?_, ?_, hsubOff, hsubLe, hdrop, hwc, ?_⟩
        · simp [IF.setPeer, PeerSt.tgMembers, hg] at h1 ⊢; omega
        · simp [PeerSt.semHolders, hg] at hpsem ⊢
          refine ⟨by omega, ?_⟩
          intro h0
          simp [IF.semFree] at hfree
          rcases hfree with hf | hf <;> omega
        · intro h0; have := hsub h0
          simp [IF.setPeer, PeerSt.subHolders] at h2 ⊢; omega
        · intro hr; exact hret hr
      · cases hs
  case sawClosed i =>
    split at hs
    case h_2 => cases hs
    case h_1 p hp =>
      have hmem : p ∈ s.peers := List.mem_of_getElem? hp
      obtain ⟨hpsem, hpmax, hprej⟩ := hsem p hmem
      split at hs
      · next hg =>
        obtain ⟨hg, hcl⟩ := hg
        simp only [Option.some.injEq] at hs; subst hs
        obtain ⟨h1, h2⟩ := IF.inv_setPeer_aux s i p { p with loop := .closing } hp
        refine ⟨?_, forall_mem_set hsem ?_, ?_, hsubOff, hsubLe, hdrop, hwc, ?_⟩
        · simp [IF.setPeer, PeerSt.tgMembers, hg] at h1 ⊢; omega
        · simp [PeerSt.semHolders, hg] at hpsem ⊢; exact ⟨hpsem, hpmax⟩
        · intro h0; have := hsub h0
          simp [IF.setPeer, PeerSt.subHolders] at h2 ⊢; omega
        · intro hr; exact hret hr
      · cases hs
  case peerExit i =>
    split at hs
    case h_2 => cases hs
    case h_1 p hp =>
      have hmem : p ∈ s.peers := List.mem_of_getElem? hp
      obtain ⟨hpsem, hpmax, hprej⟩ := hsem p hmem
      split at hs
      · next hg =>
        simp only [Option.some.injEq] at hs; subst hs
        obtain ⟨h1, h2⟩ := IF.inv_setPeer_aux s i p { p with loop := .exited } hp
        refine ⟨?_, forall_mem_set hsem ?_, ?_, hsubOff, hsubLe, hdrop, hwc, ?_⟩
        · rcases hg with hg | hg <;> simp [IF.setPeer, PeerSt.tgMembers, hg] at h1 ⊢ <;> omega
        · rcases hg with hg | hg <;> simp [PeerSt.semHolders, hg] at hpsem ⊢ <;> exact ⟨hpsem, hpmax⟩
        · intro h0; have := hsub h0
          simp [IF.setPeer, PeerSt.subHolders] at h2 ⊢; omega
        · intro hr; have := hret hr
          have hle := le_sumBy_of_mem PeerSt.tgMembers s.peers p hmem
          rcases hg with hg | hg <;> simp [IF.setPeer, PeerSt.tgMembers, hg] at hle this ⊢ <;> omega
      · cases hs
  case acq i =>
    split at hs
    case h_2 => cases hs
    case h_1 p hp =>
      have hmem : p ∈ s.peers := List.mem_of_getElem? hp
      obtain ⟨hpsem, hpmax, hprej⟩ := hsem p hmem
      split at hs
      · next hg =>
        split at hs
        · next hoff =>
          simp only [Option.some.injEq] at hs; subst hs
          have hoff' : s.maxSub ≤ 0 := by simp [IF.subOn] at hoff; omega
          obtain ⟨h1, h2⟩ := IF.inv_setPeer_aux s i p { p with loop := .accept, spawned := p.spawned + 1 } hp
          refine ⟨?_, forall_mem_set hsem ?_, ?_, hsubOff, hsubLe, hdrop, hwc, ?_⟩
          · simp [IF.setPeer, PeerSt.tgMembers, hg] at h1 ⊢; omega
          · simp [PeerSt.semHolders, hg] at hpsem ⊢; exact ⟨by omega, hpmax⟩
          · intro h0; simp only [IF.setPeer] at h0; omega
          · intro hr; exact hret hr
        · next hon =>
          have hon' : 0 < s.maxSub := by simp [IF.subOn] at hon; omega
          split at hs
          · next hfull =>
            simp only [Option.some.injEq] at hs; subst hs
            obtain ⟨h1, h2⟩ := IF.inv_setPeer_aux s i p { p with loop := .reject } hp
            refine ⟨?_, forall_mem_set hsem ?_, ?_, hsubOff, hsubLe, hdrop, hwc, ?_⟩
            · simp [IF.setPeer, PeerSt.tgMembers, hg] at h1 ⊢; omega
            · simp [PeerSt.semHolders, hg] at hpsem ⊢; exact ⟨hpsem, hpmax, hon'⟩
            · intro h0; have := hsub h0
              simp [IF.setPeer, PeerSt.subHolders] at h2 ⊢; omega
            · intro hr; exact hret hr
          · next hroom =>
            simp only [Option.some.injEq] at hs; subst hs
            obtain ⟨h1, h2⟩ := IF.inv_setPeer_aux s i p { p with loop := .accept, spawned := p.spawned + 1 } hp
            refine ⟨?_, forall_mem_set hsem ?_, ?_, ?_, ?_, hdrop, hwc, ?_⟩
            · simp [IF.setPeer, PeerSt.tgMembers, hg] at h1 ⊢; omega
            · simp [PeerSt.semHolders, hg] at hpsem ⊢; exact ⟨by omega, hpmax⟩
            · intro h0; have := hsub h0
              simp [IF.setPeer, PeerSt.subHolders] at h2 ⊢; omega
            · intro h0; simp only [IF.setPeer] at h0; omega
            · intro h0; simp only [IF.setPeer] at h0 ⊢; omega
            · intro hr; exact hret hr
      · cases hs
  case retSub i =>
    split at hs
    case h_2 => cases hs
    case h_1 p hp =>
      have hmem : p ∈ s.peers := List.mem_of_getElem? hp
      obtain ⟨hpsem, hpmax, hprej⟩ := hsem p hmem
      split at hs
      · next hg =>
        obtain ⟨hg, hpos⟩ := hg
        simp only [Option.some.injEq] at hs; subst hs
        obtain ⟨h1, h2⟩ := IF.inv_setPeer_aux s i p { p with loop := .accept, sem := p.sem - 1 } hp
        refine ⟨?_, forall_mem_set hsem ?_, ?_, hsubOff, hsubLe, ?_, hwc, ?_⟩
        · simp [IF.setPeer, PeerSt.tgMembers, hg] at h1 ⊢; omega
        · simp [PeerSt.semHolders, hg] at hpsem ⊢
          refine ⟨by omega, ?_⟩
          intro h0; have := hpmax h0; omega
        · intro h0; have := hsub h0
          simp [IF.setPeer, PeerSt.subHolders] at h2 ⊢; omega
        · -- a rejection is only possible when the limit is enabled: loop = reject is unreachable otherwise
          intro h0; simp only [IF.setPeer] at h0 ⊢
          have := hprej hg; omega
        · intro hr; exact hret hr
      · cases hs
  case hAdd i =>
    split at hs
    case h_2 => cases hs
    case h_1 p hp =>
      have hmem : p ∈ s.peers := List.mem_of_getElem? hp
      obtain ⟨hpsem, hpmax, hprej⟩ := hsem p hmem
      split at hs
      · next hg =>
        split at hs
        · next hcl =>
          simp only [Option.some.injEq] at hs; subst hs
          obtain ⟨h1, h2⟩ := IF.inv_setPeer_aux s i p { p with spawned := p.spawned - 1, unwinding := p.unwinding + 1 } hp
          refine ⟨?_, forall_mem_set hsem ?_, ?_, hsubOff, hsubLe, hdrop, hwc, ?_⟩
          · simp [IF.setPeer, PeerSt.tgMembers] at h1 ⊢; omega
          · simp [PeerSt.semHolders] at hpsem ⊢; exact ⟨by omega, hpmax, hprej⟩
          · intro h0; have := hsub h0
            simp [IF.setPeer, PeerSt.subHolders] at h2 ⊢; omega
          · intro hr; exact hret hr
        · next hcl =>
          simp only [Option.some.injEq] at hs; subst hs
          obtain ⟨h1, h2⟩ := IF.inv_setPeer_aux s i p { p with spawned := p.spawned - 1, running := p.running + 1 } hp
          refine ⟨?_, forall_mem_set hsem ?_, ?_, hsubOff, hsubLe, hdrop, hwc, ?_⟩
          · simp [IF.setPeer, PeerSt.tgMembers] at h1 ⊢; omega
          · simp [PeerSt.semHolders] at hpsem ⊢; exact ⟨by omega, hpmax, hprej⟩
          · intro h0; have := hsub h0
            simp [IF.setPeer, PeerSt.subHolders] at h2 ⊢; omega
          · intro hr; have := hret hr; simp_all
      · cases hs
  case hDone i =>
    split at hs
    case h_2 => cases hs
    case h_1 p hp =>
      have hmem : p ∈ s.peers := List.mem_of_getElem? hp
      obtain ⟨hpsem, hpmax, hprej⟩ := hsem p hmem
      split at hs
      · next hg =>
        simp only [Option.some.injEq] at hs; subst hs
        obtain ⟨h1, h2⟩ := IF.inv_setPeer_aux s i p { p with running := p.running - 1, unwinding := p.unwinding + 1 } hp
        refine ⟨?_, forall_mem_set hsem ?_, ?_, hsubOff, hsubLe, hdrop, hwc, ?_⟩
        · have hle := le_sumBy_of_mem PeerSt.tgMembers s.peers p hmem
          simp [IF.setPeer, PeerSt.tgMembers] at h1 hle ⊢; omega
        · simp [PeerSt.semHolders] at hpsem ⊢; exact ⟨by omega, hpmax, hprej⟩
        · intro h0; have := hsub h0
          simp [IF.setPeer, PeerSt.subHolders] at h2 ⊢; omega
        · intro hr; have := hret hr
          have hle := le_sumBy_of_mem PeerSt.tgMembers s.peers p hmem
          simp [IF.setPeer, PeerSt.tgMembers] at hle this ⊢; omega
      · cases hs
  case relSub i =>
    split at hs
    case h_2 => cases hs
    case h_1 p hp =>
      have hmem : p ∈ s.peers := List.mem_of_getElem? hp
      obtain ⟨hpsem, hpmax, hprej⟩ := hsem p hmem
      split at hs
      · next hg =>
        simp only [Option.some.injEq] at hs; subst hs
        obtain ⟨h1, h2⟩ := IF.inv_setPeer_aux s i p { p with unwinding := p.unwinding - 1, relsub := p.relsub + 1 } hp
        have hle := le_sumBy_of_mem PeerSt.subHolders s.peers p hmem
        refine ⟨?_, forall_mem_set hsem ?_, ?_, ?_, ?_, hdrop, hwc, ?_⟩
        · simp [IF.setPeer, PeerSt.tgMembers] at h1 ⊢; omega
        · simp [PeerSt.semHolders] at hpsem ⊢; exact ⟨by omega, hpmax, hprej⟩
        · intro h0; have := hsub h0
          have hon : s.subOn = true := hsubOn.mpr h0
          simp [IF.setPeer, PeerSt.subHolders, hon] at h2 hle ⊢; omega
        · intro h0; have := hsubOff h0
          simp only [IF.setPeer] at h0 ⊢; split <;> omega
        · intro h0; have := hsubLe h0
          simp only [IF.setPeer] at h0 ⊢; split <;> omega
        · intro hr; exact hret hr
      · cases hs
  case relPeer i =>
    split at hs
    case h_2 => cases hs
    case h_1 p hp =>
      have hmem : p ∈ s.peers := List.mem_of_getElem? hp
      obtain ⟨hpsem, hpmax, hprej⟩ := hsem p hmem
      split at hs
      · next hg =>
        simp only [Option.some.injEq] at hs; subst hs
        obtain ⟨h1, h2⟩ := IF.inv_setPeer_aux s i p { p with relsub := p.relsub - 1, sem := p.sem - 1 } hp
        refine ⟨?_, forall_mem_set hsem ?_, ?_, hsubOff, hsubLe, hdrop, hwc, ?_⟩
        · simp [IF.setPeer, PeerSt.tgMembers] at h1 ⊢; omega
        · simp [PeerSt.semHolders] at hpsem ⊢
          refine ⟨by omega, ?_, hprej⟩
          intro h0; have := hpmax h0; omega
        · intro h0; have := hsub h0
          simp [IF.setPeer, PeerSt.subHolders] at h2 ⊢; omega
        · intro hr; exact hret hr
      · cases hs


/-! ### peer caps -/

/-- a predicate preserved by every step whose label satisfies `L` holds after every run that
uses only such labels -/
theorem Sys.run_inv_lab {σ α : Type} (S : Sys σ α) (P : σ → Prop) (L : α → Prop)
    (hstep : ∀ s a s', L a → P s → S.step s a = some s' → P s') :
    ∀ (tr : List α) (s s' : σ), (∀ a ∈ tr, L a) → P s → S.run s tr = some s' → P s' := by
  intro tr
  induction tr with
  | nil =>
    intro s s' _ hP h
    simp only [Sys.run, Option.some.injEq] at h
    subst h; exact hP
  | cons a as ih =>
    intro s s' hL hP h
    simp only [Sys.run] at h
    split at h
    · cases h
    · next s1 h1 =>
      exact ih s1 s' (fun b hb => hL b (List.mem_cons_of_mem _ hb))
        (hstep s a s1 (hL a List.mem_cons_self) hP h1) h

/-- inbound invariant of the repaired code -/
def Caps.InInv (s : Caps) : Prop := 0 < s.inP → (s.inP : Int) ≤ s.maxIn

theorem Caps.inInv_step (s : Caps) (a : CapStep) (s' : Caps) (h : s.InInv)
    (hs : Caps.step true s a = some s') : s'.InInv := by
  unfold Caps.InInv at *
  cases a <;> simp only [Caps.step] at hs
  case allow b =>
    cases b <;> simp only at hs
    · split at hs
      · cases hs
      · split at hs <;> simp only [Option.some.injEq] at hs <;> subst hs <;> exact h
    · split at hs <;> simp only [Option.some.injEq] at hs <;> subst hs <;> exact h
  case add b =>
    cases b <;> simp only at hs
    · split at hs
      · simp only [Option.some.injEq] at hs; subst hs; exact h
      · cases hs
    · split at hs
      · split at hs
        · simp only [Option.some.injEq] at hs; subst hs; exact h
        · next hroom =>
          simp only [Option.some.injEq] at hs; subst hs
          simp at hroom
          intro _; simp only; omega
      · cases hs
  case abandon b =>
    cases b <;> simp only at hs <;> split at hs
    · simp only [Option.some.injEq] at hs; subst hs; exact h
    · cases hs
    · simp only [Option.some.injEq] at hs; subst hs; exact h
    · cases hs
  case direct =>
    simp only [Option.some.injEq] at hs; subst hs; exact h
  case remove b =>
    cases b <;> simp only at hs <;> split at hs
    · simp only [Option.some.injEq] at hs; subst hs; exact h
    · cases hs
    · simp only [Option.some.injEq] at hs; subst hs
      intro h0; simp only at h0 ⊢; have := h (by omega); omega
    · cases hs

/-- outbound invariant (both versions) as long as no explicit `Connect` is made -/
def Caps.OutInv (s : Caps) : Prop :=
  0 < s.outP + (if s.pendOut then 1 else 0) → ((s.outP + (if s.pendOut then 1 else 0) : Nat) : Int) ≤ s.maxOut

theorem Caps.outInv_step (fixed : Bool) (s : Caps) (a : CapStep) (s' : Caps) (ha : a ≠ .direct)
    (h : s.OutInv) (hs : Caps.step fixed s a = some s') : s'.OutInv := by
  unfold Caps.OutInv at *
  cases a <;> simp only [Caps.step] at hs
  case allow b =>
    cases b <;> simp only at hs
    · split at hs
      · cases hs
      · next hp =>
        split at hs <;> simp only [Option.some.injEq] at hs <;> subst hs
        · simp at hp; simp [hp] at h ⊢; omega
        · exact h
    · split at hs <;> simp only [Option.some.injEq] at hs <;> subst hs <;> exact h
  case add b =>
    cases b <;> simp only at hs
    · split at hs
      · next hp =>
        simp only [Option.some.injEq] at hs; subst hs
        simp [hp] at h ⊢; omega
      · cases hs
    · split at hs
      · split at hs <;> simp only [Option.some.injEq] at hs <;> subst hs <;> exact h
      · cases hs
  case abandon b =>
    cases b <;> simp only at hs <;> split at hs
    · next hp =>
      simp only [Option.some.injEq] at hs; subst hs
      simp [hp] at h ⊢; intro h0; have := h; omega
    · cases hs
    · simp only [Option.some.injEq] at hs; subst hs; exact h
    · cases hs
  case direct => exact absurd rfl ha
  case remove b =>
    cases b <;> simp only at hs <;> split at hs
    · simp only [Option.some.injEq] at hs; subst hs
      intro h0; simp only at h0 ⊢
      split at h0 <;> simp_all <;> omega
    · cases hs
    · simp only [Option.some.injEq] at hs; subst hs; exact h
    · cases hs


/-! ### Run / Close teardown -/

/-- how many loop results `Run` has received -/
def RunPc.recvd : RunPc → Nat
  | .waitFirst => 0
  | .closeL | .sweep | .waitSecond => 1
  | .waitThird => 2
  | .waitPeers | .returning | .done => 3

def LoopSt.exitedN : LoopSt → Nat
  | .exited => 1
  | _ => 0

/-- does the thread still hold its slot of the thread group? -/
def RunPc.live : RunPc → Nat
  | .done => 0
  | _ => 1

def LoopSt.live : LoopSt → Nat
  | .exited => 0
  | _ => 1

structure TD.Inv (fixed : Bool) (s : TD) : Prop where
  wg : s.wg = s.run.live + s.accept.live + s.bgRun + s.bgSend + s.conns + s.sO + s.sC
  bg : s.bgRun + s.bgSend ≤ 2
  loops : s.accept.exitedN + (2 - (s.bgRun + s.bgSend)) = s.run.recvd
  tgc : s.tgClosed = true ↔ (s.close = .waiting ∨ s.close = .returned)
  lc : s.close ≠ .idle → s.lClosed = true
  ret : s.close = .returned → s.wg = 0
  leak : fixed = true → s.leaked = 0
  sync : s.syncRun = true → 0 < s.bgRun
  ing : 0 < s.ingest → s.syncRun = true

theorem TD.inv_init (fixed : Bool) : TD.Inv fixed {} := by
  refine ⟨by decide, by decide, by decide, by decide, by decide, by decide, by intro _; rfl, by decide, by decide⟩

theorem TD.inv_step (fixed : Bool) (s : TD) (a : TDStep) (s' : TD) (h : TD.Inv fixed s)
    (hs : TD.step fixed s a = some s') : TD.Inv fixed s' := by
  obtain ⟨hwg, hbg, hloops, htgc, hlc, hret, hleak, hsync, hing⟩ := h
  have htgc1 := htgc.mp
  have htgc2 := htgc.mpr
  clear htgc
  cases a <;> simp only [TD.step] at hs
  case runRecv =>
    cases hr : s.run <;> simp only [hr] at hs <;> (try contradiction)
    all_goals (repeat' split at hs)
    all_goals first
      | contradiction
      | (simp only [Option.some.injEq] at hs; subst hs
         refine ⟨?_, ?_, ?_, ⟨?_, ?_⟩, ?_, ?_, ?_, ?_, ?_⟩ <;> (try simp only []) <;>
          first
          | assumption
          | omega
          | (intro hh; first | exact htgc1 hh | exact htgc2 hh | exact hlc hh | exact hret hh | exact hleak hh | exact hsync hh | exact hing hh)
          | (intro hh; have h1 := hret hh; have h2 := htgc2 (Or.inr hh)
             first | omega | contradiction | (simp [*] at *; done) | (simp [*] at *; omega))
          | (simp [*, RunPc.recvd, LoopSt.exitedN, RunPc.live, LoopSt.live] at *; done)
          | (simp [*, RunPc.recvd, LoopSt.exitedN, RunPc.live, LoopSt.live] at *; omega)
          | skip)
  all_goals (repeat' split at hs)
  all_goals first
    | contradiction
    | (simp only [Option.some.injEq] at hs; subst hs
       refine ⟨?_, ?_, ?_, ⟨?_, ?_⟩, ?_, ?_, ?_, ?_, ?_⟩ <;> (try simp only []) <;>
        first
        | assumption
        | omega
        | (intro hh; first | exact htgc1 hh | exact htgc2 hh | exact hlc hh | exact hret hh | exact hleak hh | exact hsync hh | exact hing hh)
        | (intro hh; have h1 := hret hh; have h2 := htgc2 (Or.inr hh)
           first | omega | contradiction | (simp [*] at *; done) | (simp [*] at *; omega))
        | (simp [*, RunPc.recvd, LoopSt.exitedN, RunPc.live, LoopSt.live] at *; done)
        | (simp [*, RunPc.recvd, LoopSt.exitedN, RunPc.live, LoopSt.live] at *; omega)
        | skip)


theorem TD.canProgress_of (fixed : Bool) (s : TD) (a : TDStep) (ha : a ∈ TD.progressSteps)
    (he : (TD.step fixed s a).isSome = true) : TD.canProgress fixed s = true := by
  unfold TD.canProgress
  exact List.any_eq_true.mpr ⟨a, ha, he⟩

theorem TD.progress_or_stuck (fixed : Bool) (s : TD) (h : TD.Inv fixed s) (hc : s.close = .waiting) :
    TD.canProgress fixed s = true ∨ (fixed = false ∧ 0 < s.sO) := by
  obtain ⟨hwg, hbg, hloops, htgc, hlc, hret, hleak, hsync, hing⟩ := h
  have htg : s.tgClosed = true := htgc.mpr (Or.inl hc)
  have hl : s.lClosed = true := hlc (by simp [hc])
  by_cases h0 : s.wg = 0
  · left; exact TD.canProgress_of fixed s .closeRet (by simp [TD.progressSteps]) (by simp [TD.step, hc, h0])
  by_cases h1 : 0 < s.conns
  · left; exact TD.canProgress_of fixed s .connFail (by simp [TD.progressSteps]) (by simp [TD.step, h1])
  by_cases h2 : 0 < s.sC
  · left; exact TD.canProgress_of fixed s .peerErr (by simp [TD.progressSteps]) (by simp [TD.step, h2])
  by_cases h3 : 0 < s.sO
  · cases fixed
    · right; exact ⟨rfl, h3⟩
    · left; exact TD.canProgress_of true s .watch (by simp [TD.progressSteps]) (by simp [TD.step, htg, h3])
  left
  by_cases h4 : s.accept = .running
  · exact TD.canProgress_of fixed s .acceptExit (by simp [TD.progressSteps]) (by simp [TD.step, h4, hl])
  by_cases h5 : 0 < s.bgRun
  · -- a context loop is running: peerLoop can return; syncLoop can return unless a sync round is
    -- in progress, in which case the round's ingestion goroutine can finish
    by_cases hp : (if s.syncRun then 1 else 0) < s.bgRun
    · exact TD.canProgress_of fixed s (.bgExit false) (by simp [TD.progressSteps]) (by simp [TD.step, hp, htg])
    · by_cases hi : 0 < s.ingest
      · exact TD.canProgress_of fixed s .ingestDone (by simp [TD.progressSteps]) (by simp [TD.step, hi])
      · have hsr : s.syncRun = true := by
          cases hs : s.syncRun
          · simp [hs] at hp; omega
          · rfl
        exact TD.canProgress_of fixed s (.bgExit true) (by simp [TD.progressSteps]) (by
          simp [TD.step, hsr, htg, h5]; omega)
  by_cases h6 : s.accept = .sending ∨ 0 < s.bgSend
  · -- a loop is waiting to hand over its result: Run is before its third receive
    have hlt : s.run.recvd < 3 := by
      rcases h6 with h6 | h6
      · simp [h6, LoopSt.exitedN] at hloops; omega
      · cases hacc : s.accept <;> simp [hacc, LoopSt.exitedN] at hloops <;> omega
    cases hr : s.run <;> simp [hr, RunPc.recvd] at hlt
    · exact TD.canProgress_of fixed s .runRecv (by simp [TD.progressSteps]) (by
        rcases h6 with h6 | h6 <;> simp [TD.step, hr, h6]
        split <;> simp [*])
    · exact TD.canProgress_of fixed s .runCloseL (by simp [TD.progressSteps]) (by simp [TD.step, hr])
    · exact TD.canProgress_of fixed s .runSweep (by simp [TD.progressSteps]) (by simp [TD.step, hr])
    · exact TD.canProgress_of fixed s .runRecv (by simp [TD.progressSteps]) (by
        rcases h6 with h6 | h6 <;> simp [TD.step, hr, h6]
        split <;> simp [*])
    · exact TD.canProgress_of fixed s .runRecv (by simp [TD.progressSteps]) (by
        rcases h6 with h6 | h6 <;> simp [TD.step, hr, h6]
        split <;> simp [*])
  · -- all three loops have exited
    have hacc : s.accept = .exited := by
      cases hacc : s.accept <;> simp_all
    have hbs : s.bgSend = 0 := by omega
    have hbr : s.bgRun = 0 := by omega
    cases hr : s.run <;>
      simp [hr, hacc, RunPc.recvd, RunPc.live, LoopSt.live, LoopSt.exitedN, hbs, hbr] at hloops hwg
    · -- waitPeers
      by_cases h7 : 0 < s.un
      · exact TD.canProgress_of fixed s .peerRemove (by simp [TD.progressSteps]) (by simp [TD.step, h7])
      by_cases h8 : 0 < s.aO
      · exact TD.canProgress_of fixed s (.peerAdd true) (by simp [TD.progressSteps]) (by
          simp [TD.step, h8, htg]; cases fixed <;> simp)
      by_cases h9 : 0 < s.aC
      · exact TD.canProgress_of fixed s (.peerAdd false) (by simp [TD.progressSteps]) (by simp [TD.step, h9, htg])
      · exact TD.canProgress_of fixed s .runPeersDone (by simp [TD.progressSteps]) (by
          simp [TD.step, hr, TD.mapSize]; omega)
    · exact TD.canProgress_of fixed s .runReturn (by simp [TD.progressSteps]) (by simp [TD.step, hr])
    · omega


theorem TD.inv_reach (fixed : Bool) (s : TD) (h : (tdSys fixed).Reach {} s) : TD.Inv fixed s :=
  Sys.reach_inv (tdSys fixed) (TD.Inv fixed) {} (TD.inv_init fixed)
    (fun s a s' hi hs => TD.inv_step fixed s a s' hi hs) s h

/-! ### parameters never change -/

theorem IF.step_params (s : IF) (a : IFStep) (s' : IF) (hs : s.step a = some s') :
    s'.maxPeer = s.maxPeer ∧ s'.maxSub = s.maxSub := by
  cases a <;> simp only [IF.step] at hs
  all_goals (repeat' split at hs)
  all_goals first
    | contradiction
    | (simp only [Option.some.injEq] at hs; subst hs; exact ⟨rfl, rfl⟩)

theorem IF.reach_params (a b : Int) (s : IF) (h : ifSys.Reach (IF.init a b) s) :
    s.maxPeer = a ∧ s.maxSub = b :=
  Sys.reach_inv ifSys (fun s => s.maxPeer = a ∧ s.maxSub = b) (IF.init a b) ⟨rfl, rfl⟩
    (fun s x s' hi hs => by
      have := IF.step_params s x s' hs
      exact ⟨this.1.trans hi.1, this.2.trans hi.2⟩) s h

theorem IF.inv_reach (a b : Int) (s : IF) (h : ifSys.Reach (IF.init a b) s) : IF.Inv s :=
  Sys.reach_inv ifSys IF.Inv (IF.init a b) (IF.inv_init a b)
    (fun s x s' hi hs => IF.inv_step s x s' hi hs) s h

theorem Caps.step_params (fixed : Bool) (s : Caps) (a : CapStep) (s' : Caps)
    (hs : Caps.step fixed s a = some s') : s'.maxIn = s.maxIn ∧ s'.maxOut = s.maxOut := by
  cases a <;> (try rename_i b; cases b) <;> simp only [Caps.step] at hs
  all_goals (repeat' split at hs)
  all_goals first
    | contradiction
    | (simp only [Option.some.injEq] at hs; subst hs; exact ⟨rfl, rfl⟩)

/-! ### sequentially issued requests never stall -/

structure SeqHOL.Inv (s : SeqHOL) : Prop where
  sem : s.sem = s.running + (if s.cur = .waitWire ∨ s.cur = .waitHeld then 1 else 0)

theorem SeqHOL.inv_step (s : SeqHOL) (a : SeqStep) (s' : SeqHOL) (h : SeqHOL.Inv s)
    (hs : s.step a = some s') : SeqHOL.Inv s' := by
  obtain ⟨h1⟩ := h
  cases a <;> simp only [SeqHOL.step] at hs
  all_goals (repeat' split at hs)
  all_goals first
    | contradiction
    | (simp only [Option.some.injEq] at hs; subst hs
       constructor
       simp_all
       try omega)

theorem SeqHOL.step_limit (s : SeqHOL) (a : SeqStep) (s' : SeqHOL) (hs : s.step a = some s') :
    s'.limit = s.limit := by
  cases a <;> simp only [SeqHOL.step] at hs
  all_goals (repeat' split at hs)
  all_goals first
    | contradiction
    | (simp only [Option.some.injEq] at hs; subst hs; rfl)

/-! ### `SeqHOL` is the sequential-issue restriction of `HOL` -/

theorem rpc_count_set (r : RpcPc) :
    ∀ (l : List RpcPc) (i : Nat) (a b : RpcPc), l[i]? = some a →
      (l.set i b).count r + (if a = r then 1 else 0) = l.count r + (if b = r then 1 else 0) := by
  intro l
  induction l with
  | nil => intro i a b h; simp at h
  | cons x xs ih =>
    intro i a b h
    cases i with
    | zero =>
      simp only [List.getElem?_cons_zero, Option.some.injEq] at h
      subst h
      simp only [List.set_cons_zero, List.count_cons, beq_iff_eq]
      split <;> split <;> omega
    | succ j =>
      simp only [List.getElem?_cons_succ] at h
      have := ih j a b h
      simp only [List.set_cons_succ, List.count_cons]
      omega

theorem rpc_get_set (l : List RpcPc) (i j : Nat) (b : RpcPc) (hij : i ≠ j) :
    (l.set i b)[j]? = l[j]? := by
  simp [hij]

theorem rpc_get_set_self (l : List RpcPc) (i : Nat) (a b : RpcPc) (h : l[i]? = some a) :
    (l.set i b)[i]? = some b := by
  have hlt : i < l.length := by
    rcases Nat.lt_or_ge i l.length with h' | h'
    · exact h'
    · rw [List.getElem?_eq_none h'] at h; cases h
  simp [hlt]

theorem rpc_lt_of_get {l : List RpcPc} {i : Nat} {a : RpcPc} (h : l[i]? = some a) : i < l.length := by
  rcases Nat.lt_or_ge i l.length with h' | h'
  · exact h'
  · rw [List.getElem?_eq_none h'] at h; cases h

theorem rpc_count_pos_of_get (r : RpcPc) (l : List RpcPc) (i : Nat) (h : l[i]? = some r) : 0 < l.count r :=
  List.count_pos_iff.mpr (List.mem_of_getElem? h)

theorem rpc_get_of_count_pos (r : RpcPc) (l : List RpcPc) (h : 0 < l.count r) : ∃ i : Nat, l[i]? = some r := by
  have := List.count_pos_iff.mp h
  obtain ⟨i, hi, he⟩ := List.getElem_of_mem this
  exact ⟨i, by rw [List.getElem?_eq_getElem hi, he]⟩


/-- what the state of the RPC in transit (`q.cur`) says about the `HOL` state; `c` is the index of
that RPC (the number of RPCs that have received their whole input) -/
def HolPhase (n c : Nat) (h : HOL) (q : SeqHOL) : Prop :=
  match q.cur with
  | .none => c + q.todo = n ∧ h.held = none ∧ h.wire = seqFrom c q.todo ∧ (c < n → h.st[c]? = some .fresh)
  | .idHeld => c + 1 + q.todo = n ∧ h.held = some (.id c) ∧ h.wire = .req c :: seqFrom (c + 1) q.todo ∧
      h.st[c]? = some .fresh
  | .accWire => c + 1 + q.todo = n ∧ h.held = none ∧ h.wire = .req c :: seqFrom (c + 1) q.todo ∧
      h.st[c]? = some .accepted
  | .accHeld => c + 1 + q.todo = n ∧ h.held = some (.req c) ∧ h.wire = seqFrom (c + 1) q.todo ∧
      h.st[c]? = some .accepted
  | .waitWire => c + 1 + q.todo = n ∧ h.held = none ∧ h.wire = .req c :: seqFrom (c + 1) q.todo ∧
      h.st[c]? = some .waitingReq
  | .waitHeld => c + 1 + q.todo = n ∧ h.held = some (.req c) ∧ h.wire = seqFrom (c + 1) q.todo ∧
      h.st[c]? = some .waitingReq

/-- the abstraction relation between a state of `HOL` on the sequential wire of `n` requests and a
state of `SeqHOL` -/
def HolRel (n : Nat) (h : HOL) (q : SeqHOL) : Prop :=
  ∃ c : Nat,
    h.limit = q.limit ∧ h.sem = q.sem ∧ h.st.length = n ∧
    (∀ k : Nat, k < c → h.st[k]? = some .running ∨ h.st[k]? = some .done) ∧
    (∀ k : Nat, c < k → k < n → h.st[k]? = some .fresh) ∧
    h.st.count .running = q.running ∧
    q.sem = q.running + (if q.cur = .waitWire ∨ q.cur = .waitHeld then 1 else 0) ∧
    HolPhase n c h q

theorem holRel_init (limit n : Nat) :
    HolRel n (HOL.init limit (seqWire n) n) { limit := limit, todo := n } := by
  refine ⟨0, rfl, rfl, by simp [HOL.init], ?_, ?_, ?_, by simp, ?_⟩
  · intro k hk; omega
  · intro k _ hk; simp [HOL.init, hk]
  · simp [HOL.init, List.count_replicate]
  · simp [HolPhase, HOL.init, seqWire]
    intro h0; simp [h0]


/-- forward simulation: every step of `HOL` on the sequential wire is a step of `SeqHOL` -/
theorem hol_sim (n : Nat) (h h' : HOL) (q : SeqHOL) (a : HOLStep) (hr : HolRel n h q)
    (hs : h.step a = some h') : ∃ b q', q.step b = some q' ∧ HolRel n h' q' := by
  obtain ⟨c, hlim, hsem, hlen, hpre, hpost, hcnt, hq, hph⟩ := hr
  cases a <;> simp only [HOL.step] at hs
  case deliver =>
    split at hs
    case h_2 => cases hs
    case h_1 f rest hheld hwire =>
      simp only [Option.some.injEq] at hs; subst hs
      cases hc : q.cur <;> simp only [HolPhase, hc] at hph
      · -- none: the next id frame
        obtain ⟨h1, _, h3, h4⟩ := hph
        cases ht : q.todo with
        | zero => rw [ht] at h3; simp [seqFrom, hwire] at h3
        | succ t =>
          rw [ht, hwire] at h3
          simp only [seqFrom, List.cons.injEq] at h3
          obtain ⟨rfl, rfl⟩ := h3
          refine ⟨.deliverId, { q with cur := .idHeld, todo := q.todo - 1 }, by simp [SeqHOL.step, hc, ht], ?_⟩
          refine ⟨c, hlim, hsem, hlen, hpre, hpost, hcnt, by simpa [hc] using hq, ?_⟩
          have h4' := h4 (by omega)
          simp only [HolPhase, ht]
          refine ⟨?_, ?_, ?_, ?_⟩ <;> first | trivial | assumption | omega | (simp; done)
      · exact absurd hph.2.1 (by simp [hheld])
      · -- accWire: the request frame
        obtain ⟨h1, _, h3, h4⟩ := hph
        rw [hwire] at h3
        simp only [List.cons.injEq] at h3
        obtain ⟨rfl, rfl⟩ := h3
        refine ⟨.deliverReq, { q with cur := .accHeld }, by simp [SeqHOL.step, hc], ?_⟩
        refine ⟨c, hlim, hsem, hlen, hpre, hpost, hcnt, by simpa [hc] using hq, ?_⟩
        simp only [HolPhase]
        refine ⟨?_, ?_, ?_, ?_⟩ <;> first | trivial | assumption | omega | (simp; done)
      · exact absurd hph.2.1 (by simp [hheld])
      · obtain ⟨h1, _, h3, h4⟩ := hph
        rw [hwire] at h3
        simp only [List.cons.injEq] at h3
        obtain ⟨rfl, rfl⟩ := h3
        refine ⟨.deliverReq, { q with cur := .waitHeld }, by simp [SeqHOL.step, hc], ?_⟩
        refine ⟨c, hlim, hsem, hlen, hpre, hpost, hcnt, by simpa [hc] using hq, ?_⟩
        simp only [HolPhase]
        refine ⟨?_, ?_, ?_, ?_⟩ <;> first | trivial | assumption | omega | (simp; done)
      · exact absurd hph.2.1 (by simp [hheld])
  case acceptID k =>
    split at hs
    case isFalse => cases hs
    case isTrue hg =>
      obtain ⟨hheld, hk, _⟩ := hg
      simp only [Option.some.injEq] at hs; subst hs
      cases hc : q.cur <;> simp only [HolPhase, hc] at hph
      case idHeld =>
        -- k = c
        obtain ⟨h1, h2, h3, h4⟩ := hph
        have hkc : k = c := by rw [hheld] at h2; simpa using h2
        subst hkc
        refine ⟨.acceptID, { q with cur := .accWire }, by simp [SeqHOL.step, hc], ?_⟩
        refine ⟨k, hlim, hsem, by simpa using hlen, ?_, ?_, ?_, by simpa [hc] using hq, ?_⟩
        · intro j hj; simp only; rw [rpc_get_set _ _ _ _ (by omega)]; exact hpre j hj
        · intro j hj hjn; simp only; rw [rpc_get_set _ _ _ _ (by omega)]; exact hpost j hj hjn
        · have := rpc_count_set .running h.st k .fresh .accepted hk
          simp at this; simpa using this.trans hcnt
        · simp only [HolPhase]
          refine ⟨?_, ?_, ?_, ?_⟩ <;> first | trivial | assumption | omega | exact rpc_get_set_self _ _ _ _ hk
      all_goals (exfalso; have h2 := hph.2.1; rw [hheld] at h2; cases h2)
  case take k =>
    split at hs
    case isFalse => cases hs
    case isTrue hg =>
      obtain ⟨hk, hfree⟩ := hg
      simp only [Option.some.injEq] at hs; subst hs
      -- the accepted stream is the one in transit
      have hkc : k = c := by
        rcases Nat.lt_trichotomy k c with hlt | heq | hgt
        · rcases hpre k hlt with h' | h' <;> rw [h'] at hk <;> cases hk
        · exact heq
        · have hkn := rpc_lt_of_get hk
          rw [hpost k hgt (by omega)] at hk; cases hk
      subst hkc
      cases hc : q.cur <;> simp only [HolPhase, hc] at hph
      · obtain ⟨_, _, _, h4⟩ := hph
        rw [h4 (by have := rpc_lt_of_get hk; omega)] at hk; cases hk
      · rw [hph.2.2.2] at hk; cases hk
      · obtain ⟨h1, h2, h3, h4⟩ := hph
        refine ⟨.take, { q with cur := .waitWire, sem := q.sem + 1 }, by
          simp [SeqHOL.step, hc]; omega, ?_⟩
        refine ⟨k, hlim, by simp only; omega, by simpa using hlen, ?_, ?_, ?_, by simp [hc] at hq ⊢; omega, ?_⟩
        · intro j hj; simp only; rw [rpc_get_set _ _ _ _ (by omega)]; exact hpre j hj
        · intro j hj hjn; simp only; rw [rpc_get_set _ _ _ _ (by omega)]; exact hpost j hj hjn
        · have := rpc_count_set .running h.st k .accepted .waitingReq hk
          simp at this; simpa using this.trans hcnt
        · simp only [HolPhase]
          refine ⟨?_, ?_, ?_, ?_⟩ <;> first | trivial | assumption | omega | exact rpc_get_set_self _ _ _ _ hk
      · obtain ⟨h1, h2, h3, h4⟩ := hph
        refine ⟨.take, { q with cur := .waitHeld, sem := q.sem + 1 }, by
          simp [SeqHOL.step, hc]; omega, ?_⟩
        refine ⟨k, hlim, by simp only; omega, by simpa using hlen, ?_, ?_, ?_, by simp [hc] at hq ⊢; omega, ?_⟩
        · intro j hj; simp only; rw [rpc_get_set _ _ _ _ (by omega)]; exact hpre j hj
        · intro j hj hjn; simp only; rw [rpc_get_set _ _ _ _ (by omega)]; exact hpost j hj hjn
        · have := rpc_count_set .running h.st k .accepted .waitingReq hk
          simp at this; simpa using this.trans hcnt
        · simp only [HolPhase]
          refine ⟨?_, ?_, ?_, ?_⟩ <;> first | trivial | assumption | omega | exact rpc_get_set_self _ _ _ _ hk
      · rw [hph.2.2.2] at hk; cases hk
      · rw [hph.2.2.2] at hk; cases hk
  case readReq k =>
    split at hs
    case isFalse => cases hs
    case isTrue hg =>
      obtain ⟨hheld, hk⟩ := hg
      simp only [Option.some.injEq] at hs; subst hs
      cases hc : q.cur <;> simp only [HolPhase, hc] at hph
      case waitHeld =>
        obtain ⟨h1, h2, h3, h4⟩ := hph
        have hkc : k = c := by rw [hheld] at h2; simpa using h2
        subst hkc
        refine ⟨.readReq, { q with cur := .none, running := q.running + 1 }, by simp [SeqHOL.step, hc], ?_⟩
        refine ⟨k + 1, hlim, hsem, by simpa using hlen, ?_, ?_, ?_, by simp [hc] at hq ⊢; omega, ?_⟩
        · intro j hj
          simp only
          by_cases hjk : j = k
          · subst hjk; left; exact rpc_get_set_self _ _ _ _ hk
          · rw [rpc_get_set _ _ _ _ (by omega)]; exact hpre j (by omega)
        · intro j hj hjn; simp only; rw [rpc_get_set _ _ _ _ (by omega)]; exact hpost j (by omega) hjn
        · have := rpc_count_set .running h.st k .waitingReq .running hk
          simp at this; simp only; omega
        · simp only [HolPhase]
          refine ⟨by omega, trivial, h3, ?_⟩
          intro hlt; rw [rpc_get_set _ _ _ _ (by omega)]; exact hpost (k + 1) (by omega) hlt
      case accHeld =>
        exfalso
        have h2 := hph.2.1; rw [hheld] at h2
        have hkc : k = c := by simpa using h2
        subst hkc
        rw [hph.2.2.2] at hk; cases hk
      all_goals (exfalso; have h2 := hph.2.1; rw [hheld] at h2; cases h2)
  case finish k =>
    split at hs
    case isFalse => cases hs
    case isTrue hk =>
      simp only [Option.some.injEq] at hs; subst hs
      have hpos := rpc_count_pos_of_get .running h.st k hk
      have hklt : k < c := by
        rcases Nat.lt_trichotomy k c with hlt | heq | hgt
        · exact hlt
        · exfalso; subst heq
          cases hc : q.cur <;> simp only [HolPhase, hc] at hph
          · have := hph.2.2.2 (by have := rpc_lt_of_get hk; omega); rw [this] at hk; cases hk
          all_goals (rw [hph.2.2.2] at hk; cases hk)
        · exfalso
          have hkn := rpc_lt_of_get hk
          rw [hpost k hgt (by omega)] at hk; cases hk
      refine ⟨.finish, { q with running := q.running - 1, doneN := q.doneN + 1, sem := q.sem - 1 }, by
        simp [SeqHOL.step]; omega, ?_⟩
      refine ⟨c, hlim, by simp only; omega, by simpa using hlen, ?_, ?_, ?_, ?_, ?_⟩
      · intro j hj
        simp only
        by_cases hjk : j = k
        · subst hjk; right; exact rpc_get_set_self _ _ _ _ hk
        · rw [rpc_get_set _ _ _ _ (by omega)]; exact hpre j hj
      · intro j hj hjn; simp only; rw [rpc_get_set _ _ _ _ (by omega)]; exact hpost j hj hjn
      · have := rpc_count_set .running h.st k .running .done hk
        simp at this; simp only; omega
      · simp only; split at hq <;> simp_all <;> omega
      · cases hc : q.cur <;> simp only [HolPhase, hc] at hph ⊢
        · refine ⟨hph.1, hph.2.1, hph.2.2.1, ?_⟩
          intro hlt; rw [rpc_get_set _ _ _ _ (by omega)]; exact hph.2.2.2 hlt
        all_goals
          refine ⟨hph.1, hph.2.1, hph.2.2.1, ?_⟩
          rw [rpc_get_set _ _ _ _ (by omega)]; exact hph.2.2.2

/-- every state `HOL` reaches on the sequential wire is related to a state of `SeqHOL` -/
theorem holRel_reach (limit n : Nat) (tr : List HOLStep) (h : HOL)
    (hrun : holSys.run (HOL.init limit (seqWire n) n) tr = some h) : ∃ q, HolRel n h q :=
  Sys.run_inv holSys (fun h => ∃ q, HolRel n h q)
    (fun h a h' ⟨q, hr⟩ hs => by
      obtain ⟨_, q', _, hr'⟩ := hol_sim n h h' q a hr hs
      exact ⟨q', hr'⟩)
    tr _ h ⟨_, holRel_init limit n⟩ hrun

/-- progress of `SeqHOL` from its invariant alone -/
theorem SeqHOL.progress_of_inv (q : SeqHOL) (hl : 0 < q.limit)
    (hsem : q.sem = q.running + (if q.cur = .waitWire ∨ q.cur = .waitHeld then 1 else 0))
    (hf : q.final = false) : q.canStep = true := by
  simp only [SeqHOL.final, Bool.and_eq_false_iff, decide_eq_false_iff_not] at hf
  simp only [SeqHOL.canStep, List.any_cons, List.any_nil, Bool.or_false, Bool.or_eq_true,
    Option.isSome_iff_ne_none, ne_eq]
  cases hc : q.cur <;> simp [hc, SeqHOL.step] at hsem hf ⊢
  · by_cases ht : 0 < q.todo
    · left; omega
    · right; omega
  all_goals
    by_cases hfree : q.sem < q.limit
    · simp [hfree]
    · right; omega

/-- a final `SeqHOL` state is the image of final `HOL` states only -/
theorem hol_final_of_seq (n : Nat) (h : HOL) (q : SeqHOL) (hr : HolRel n h q) (hf : q.final = true) :
    h.final = true := by
  obtain ⟨c, _, _, hlen, hpre, _, hcnt, _, hph⟩ := hr
  simp only [SeqHOL.final, Bool.and_eq_true, decide_eq_true_eq] at hf
  obtain ⟨⟨ht, hc⟩, hrun⟩ := hf
  simp only [HolPhase, hc] at hph
  have hcn : c = n := by omega
  simp only [HOL.final, List.all_eq_true, decide_eq_true_eq]
  intro x hx
  obtain ⟨i, hi, he⟩ := List.getElem_of_mem hx
  have hget : h.st[i]? = some x := by rw [List.getElem?_eq_getElem hi, he]
  rcases hpre i (by omega) with h' | h'
  · exfalso
    have := rpc_count_pos_of_get .running h.st i h'
    omega
  · rw [h'] at hget; cases hget; rfl

/-- whatever `SeqHOL` can do, `HOL` can do (the converse direction of the simulation, for
enabledness): so a stuck `HOL` state on the sequential wire would be a stuck `SeqHOL` state -/
theorem hol_enabled_of_seq (n : Nat) (h : HOL) (q : SeqHOL) (hr : HolRel n h q) (he : q.canStep = true) :
    h.canStep = true := by
  obtain ⟨c, hlim, hsem, hlen, hpre, hpost, hcnt, hq, hph⟩ := hr
  have idx : ∀ (k : Nat) (a : HOLStep), k < h.st.length →
      (a = .acceptID k ∨ a = .take k ∨ a = .readReq k ∨ a = .finish k) → (h.step a).isSome = true →
      h.canStep = true := by
    intro k a hk ha hen
    simp only [HOL.canStep, Bool.or_eq_true, List.any_eq_true, List.mem_range]
    right
    refine ⟨k, hk, ?_⟩
    rcases ha with rfl | rfl | rfl | rfl <;> simp [hen]
  simp only [SeqHOL.canStep, List.any_cons, List.any_nil, Bool.or_false, Bool.or_eq_true] at he
  cases hc : q.cur <;> simp only [HolPhase, hc] at hph <;> simp [hc, SeqHOL.step] at he
  · -- nothing in transit
    rcases he with ht | hrun
    · -- the next id frame can be delivered
      obtain ⟨_, h2, h3, _⟩ := hph
      cases htd : q.todo with
      | zero => omega
      | succ t =>
        rw [htd] at h3
        simp [HOL.canStep, HOL.step, h2, h3, seqFrom]
    · obtain ⟨k, hk⟩ := rpc_get_of_count_pos .running h.st (by omega)
      exact idx k (.finish k) (rpc_lt_of_get hk) (by simp) (by simp [HOL.step, hk])
  · -- id held: runPeer accepts it
    obtain ⟨h1, h2, h3, h4⟩ := hph
    refine idx c (.acceptID c) (rpc_lt_of_get h4) (by simp) ?_
    have hall : (h.st.all fun x => decide (x ≠ RpcPc.accepted)) = true := by
      simp only [List.all_eq_true, decide_eq_true_eq]
      intro x hx
      obtain ⟨i, hi, hxe⟩ := List.getElem_of_mem hx
      have hget : h.st[i]? = some x := by rw [List.getElem?_eq_getElem hi, hxe]
      rcases Nat.lt_trichotomy i c with hlt | heq | hgt
      · rcases hpre i hlt with h' | h' <;> rw [h'] at hget <;> cases hget <;> simp
      · subst heq; rw [h4] at hget; cases hget; simp
      · rw [hpost i hgt (by omega)] at hget; cases hget; simp
    simp only [HOL.step]
    rw [if_pos ⟨h2, h4, hall⟩]; rfl
  · -- accepted, request on the wire
    simp [HOL.canStep, HOL.step, hph.2.1, hph.2.2.1]
  · -- accepted, request held: a slot is free or a handler runs
    rcases he with hfree | hrun
    · exact idx c (.take c) (rpc_lt_of_get hph.2.2.2) (by simp) (by simp [HOL.step, hph.2.2.2]; omega)
    · obtain ⟨k, hk⟩ := rpc_get_of_count_pos .running h.st (by omega)
      exact idx k (.finish k) (rpc_lt_of_get hk) (by simp) (by simp [HOL.step, hk])
  · simp [HOL.canStep, HOL.step, hph.2.1, hph.2.2.1]
  · exact idx c (.readReq c) (rpc_lt_of_get hph.2.2.2) (by simp) (by simp [HOL.step, hph.2.1, hph.2.2.2])

/-! ### the response channel of a sync round -/

/-- after the abort the demand never grows and the capacity never changes -/
theorem Round.aborted_step (c : Nat) (s s' : Round) (a : RoundStep)
    (h : s.reading = false ∧ s.cap = c ∧ s.demand ≤ c) (hs : s.step a = some s') :
    s'.reading = false ∧ s'.cap = c ∧ s'.demand ≤ c := by
  obtain ⟨hr, hc, hd⟩ := h
  simp only [Round.demand] at hd
  cases a
  case consume rq => simp [Round.step, hr] at hs
  all_goals simp only [Round.step, hr] at hs
  all_goals (repeat' split at hs)
  all_goals first
    | contradiction
    | ((try simp only [Option.some.injEq] at hs); subst hs
       refine ⟨by simp_all, by simp_all, ?_⟩
       simp only [Round.demand]; simp_all <;> omega)
    | (simp at hs)

end Verif.Conc
