/-
Helper lemmas for M6 (`Funding`): the scan of the pool, the selection loops, the reservation map
and the invariant behind `outstanding_disjoint`.
-/
import Verif.Model.Funding

namespace Verif.Funding
open List

/-! ### sums and membership -/

theorem sumV_nil : sumV [] = 0 := rfl
theorem sumV_cons (u : Utxo) (l : List Utxo) : sumV (u :: l) = u.value + sumV l := by
  simp [sumV]
theorem sumV_append (a b : List Utxo) : sumV (a ++ b) = sumV a + sumV b := by
  simp [sumV]

theorem sumV_perm {a b : List Utxo} (h : a.Perm b) : sumV a = sumV b := by
  unfold sumV; exact (h.map _).sum_nat

/-! ### the reservation map -/

theorem foldl_setLock (exp : Nat) (ids : List Nat) (l : Nat → Nat) (j : Nat) :
    (ids.foldl (setLock exp) l) j = if j ∈ ids then exp else l j := by
  induction ids generalizing l with
  | nil => simp
  | cons i ids ih =>
    simp only [List.foldl_cons, ih, setLock, List.mem_cons]
    by_cases h1 : j ∈ ids <;> by_cases h2 : j = i <;> simp [h1, h2]

theorem lockUTXOs_locked (s : State) (ids : List Nat) (j : Nat) :
    (s.lockUTXOs ids).locked j =
      if j ∈ ids then s.now + s.cfg.reservation else cleanLocked s.now s.locked j := by
  unfold State.lockUTXOs
  cases ids with
  | nil => simp
  | cons i ids => simp [foldl_setLock, setLock]; grind

theorem cleanLocked_le (now : Nat) (l : Nat → Nat) (j : Nat) : cleanLocked now l j ≤ l j := by
  unfold cleanLocked; split <;> omega

theorem cleanLocked_of_le (now : Nat) (l : Nat → Nat) (j : Nat) (h : now ≤ l j) :
    cleanLocked now l j = l j := by
  unfold cleanLocked; split <;> omega

@[simp] theorem lockUTXOs_now (s : State) (ids) : (s.lockUTXOs ids).now = s.now := by
  unfold State.lockUTXOs; split <;> rfl
@[simp] theorem lockUTXOs_cfg (s : State) (ids) : (s.lockUTXOs ids).cfg = s.cfg := by
  unfold State.lockUTXOs; split <;> rfl
@[simp] theorem lockUTXOs_out (s : State) (ids) : (s.lockUTXOs ids).out = s.out := by
  unfold State.lockUTXOs; split <;> rfl
@[simp] theorem lockUTXOs_reg (s : State) (ids) : (s.lockUTXOs ids).reg = s.reg := by
  unfold State.lockUTXOs; split <;> rfl
@[simp] theorem lockUTXOs_utxos (s : State) (ids) : (s.lockUTXOs ids).utxos = s.utxos := by
  unfold State.lockUTXOs; split <;> rfl
@[simp] theorem lockUTXOs_height (s : State) (ids) : (s.lockUTXOs ids).height = s.height := by
  unfold State.lockUTXOs; split <;> rfl
@[simp] theorem lockUTXOs_cmHeight (s : State) (ids) : (s.lockUTXOs ids).cmHeight = s.cmHeight := by
  unfold State.lockUTXOs; split <;> rfl
@[simp] theorem lockUTXOs_poolV1 (s : State) (ids) : (s.lockUTXOs ids).poolV1 = s.poolV1 := by
  unfold State.lockUTXOs; split <;> rfl
@[simp] theorem lockUTXOs_poolV2 (s : State) (ids) : (s.lockUTXOs ids).poolV2 = s.poolV2 := by
  unfold State.lockUTXOs; split <;> rfl

/-! ### the scan of the pool -/

/-- all input ids of a list of pooled transactions -/
def inputIds (txns : List PTxn) : List Nat := txns.flatMap fun t => t.ins.map (·.id)

theorem addIn_spent_false (_fOut : Bool) (ins : List PIn) (sc : Scan) (id : Nat) :
    id ∈ (ins.foldl (Scan.addIn false) sc).spent ↔ id ∈ sc.spent ∨ id ∈ ins.map (·.id) := by
  induction ins generalizing sc with
  | nil => simp
  | cons i ins ih =>
    simp only [List.foldl_cons, ih, Scan.addIn, List.map_cons, List.mem_cons]
    simp
    grind

theorem addOut_spent (fOut : Bool) (outs : List POut) (sc : Scan) :
    (outs.foldl (Scan.addOut fOut) sc).spent = sc.spent := by
  induction outs generalizing sc with
  | nil => rfl
  | cons o outs ih =>
    simp only [List.foldl_cons, ih, Scan.addOut]
    split <;> rfl

theorem addTxn_spent_false (fOut : Bool) (outs : PTxn → Bool) (sc : Scan) (t : PTxn) (id : Nat) :
    id ∈ (Scan.addTxn false fOut outs sc t).spent ↔ id ∈ sc.spent ∨ id ∈ t.ins.map (·.id) := by
  unfold Scan.addTxn
  split
  · rw [addOut_spent]; exact addIn_spent_false fOut _ _ _
  · exact addIn_spent_false fOut _ _ _

theorem foldl_addTxn_spent_false (fOut : Bool) (outs : PTxn → Bool) (txns : List PTxn) (sc : Scan) (id : Nat) :
    id ∈ (txns.foldl (Scan.addTxn false fOut outs) sc).spent ↔ id ∈ sc.spent ∨ id ∈ inputIds txns := by
  induction txns generalizing sc with
  | nil => simp [inputIds]
  | cons t txns ih =>
    simp only [List.foldl_cons, ih, addTxn_spent_false, inputIds, List.flatMap_cons, List.mem_append]
    grind

/-- with `fIn = false` the scan's `spent` is exactly the set of pooled input ids -/
theorem scan_spent_false (fOut : Bool) (outs : PTxn → Bool) (txns : List PTxn) (id : Nat) :
    id ∈ (scanTxns false fOut outs txns).spent ↔ id ∈ inputIds txns := by
  unfold scanTxns; rw [foldl_addTxn_spent_false]; simp

theorem inPool_eq (s : State) : s.inPool = inputIds (s.poolV1 ++ s.poolV2) := rfl

/-! ### the selection loops -/

theorem takeFund_append (amount sum : Nat) (l : List Utxo) :
    (takeFund amount sum l).1 ++ (takeFund amount sum l).2 = l := by
  induction l generalizing sum with
  | nil => rfl
  | cons u l ih =>
    simp only [takeFund]
    split
    · rfl
    · simp [ih]

/-- the loop stops only when the amount is covered or nothing is left -/
theorem takeFund_covers (amount sum : Nat) (l : List Utxo) :
    amount ≤ sum + sumV (takeFund amount sum l).1 ∨ (takeFund amount sum l).2 = [] := by
  induction l generalizing sum with
  | nil => right; rfl
  | cons u l ih =>
    simp only [takeFund]
    split
    · left; simp [sumV_nil]; omega
    · rcases ih (sum + u.value) with h | h
      · left; simp only [sumV_cons]; omega
      · right; exact h

theorem takeUnconf_prefix (amount sum : Nat) (l : List Utxo) : takeUnconf amount sum l <+: l := by
  induction l generalizing sum with
  | nil => exact List.prefix_refl _
  | cons u l ih =>
    simp only [takeUnconf]
    split
    · exact ⟨l, rfl⟩
    · exact (List.prefix_cons_inj u).mpr (ih _)

theorem takeUnconf_covers (amount sum : Nat) (l : List Utxo) (h : amount ≤ sum + sumV l) :
    amount ≤ sum + sumV (takeUnconf amount sum l) := by
  induction l generalizing sum with
  | nil => simpa [takeUnconf] using h
  | cons u l ih =>
    simp only [takeUnconf]
    split
    · simp [sumV_cons, sumV_nil]; omega
    · have := ih (sum + u.value) (by simp only [sumV_cons] at h; omega)
      simp only [sumV_cons]; omega

theorem defragLoop_prefix (maxIn n : Nat) (l : List Utxo) : defragLoop maxIn n l <+: l := by
  induction l generalizing n with
  | nil => exact List.prefix_refl _
  | cons u l ih =>
    simp only [defragLoop]
    split
    · exact List.nil_prefix
    · exact (List.prefix_cons_inj u).mpr (ih _)

theorem defrag_sublist (cfg : Cfg) (n : Nat) (rest : List Utxo) : (defrag cfg n rest).Sublist rest.reverse := by
  unfold defrag
  split
  · refine (defragLoop_prefix _ _ _).sublist.trans ?_
    split
    · exact (List.drop_sublist _ _).reverse
    · exact List.Sublist.refl _
  · exact List.nil_sublist _

/-- what a successful `selectUTXOs` returns -/
theorem select_shape (S : Sorter) (s : State) (amount inputs : Nat) (uc v2 : Bool) (sel : List Utxo)
    (h : s.selectUTXOs S amount inputs uc v2 = some sel) :
    (amount = 0 ∧ sel = []) ∨
    ∃ taken rest ut defr, taken ++ rest = S.sort (s.candidates v2) ∧
      ut <+: (if uc then S.sort (s.unconfCandidates v2) else []) ∧
      defr.Sublist rest.reverse ∧ sel = taken ++ ut ++ defr ∧ amount ≤ sumV (taken ++ ut) := by
  unfold State.selectUTXOs at h
  by_cases h0 : amount = 0
  · left; simp [h0] at h; exact ⟨h0, h⟩
  · right
    simp only [h0, ↓reduceIte] at h
    have happ := takeFund_append amount 0 (S.sort (s.candidates v2))
    by_cases hc : (decide (sumV (takeFund amount 0 (S.sort (s.candidates v2))).1 < amount) && uc) = true
    · simp only [hc, ↓reduceIte] at h
      by_cases hlt : sumV (takeFund amount 0 (S.sort (s.candidates v2))).1 +
          sumV (takeUnconf amount (sumV (takeFund amount 0 (S.sort (s.candidates v2))).1)
            (if uc = true then S.sort (s.unconfCandidates v2) else [])) < amount
      · simp [hlt] at h
      · simp only [hlt, ↓reduceIte, Option.some.injEq] at h
        refine ⟨_, _, _, _, happ, takeUnconf_prefix amount _ _, defrag_sublist _ _ _, h.symm, ?_⟩
        simp only [sumV_append]; omega
    · simp only [hc, Bool.false_eq_true, ↓reduceIte] at h
      by_cases hlt : sumV (takeFund amount 0 (S.sort (s.candidates v2))).1 < amount
      · simp [hlt] at h
      · simp only [hlt, ↓reduceIte, Option.some.injEq] at h
        refine ⟨_, _, [], _, happ, List.nil_prefix, defrag_sublist _ _ _, by simpa using h.symm, ?_⟩
        simp only [List.append_nil]; omega

theorem select_mem (S : Sorter) (s : State) (amount inputs : Nat) (uc v2 : Bool) (sel : List Utxo)
    (h : s.selectUTXOs S amount inputs uc v2 = some sel) :
    ∀ u ∈ sel, u ∈ s.candidates v2 ∨ (uc = true ∧ u ∈ s.unconfCandidates v2) := by
  intro u hu
  rcases select_shape S s amount inputs uc v2 sel h with ⟨_, rfl⟩ | ⟨taken, rest, ut, defr, hs, hut, hd, rfl, _⟩
  · simp at hu
  · have hsorted : ∀ x, x ∈ taken ++ rest → x ∈ s.candidates v2 := by
      intro x hx; rw [hs] at hx; exact (S.perm _).mem_iff.mp hx
    simp only [List.mem_append] at hu
    rcases hu with (hu | hu) | hu
    · left; exact hsorted u (by simp [hu])
    · right
      cases uc with
      | false => simp at hut; simp [hut] at hu
      | true => exact ⟨rfl, (S.perm _).mem_iff.mp (hut.subset hu)⟩
    · left
      have : u ∈ rest := by simpa using hd.subset hu
      exact hsorted u (by simp [this])

theorem select_ge (S : Sorter) (s : State) (amount inputs : Nat) (uc v2 : Bool) (sel : List Utxo)
    (h : s.selectUTXOs S amount inputs uc v2 = some sel) : amount ≤ sumV sel := by
  rcases select_shape S s amount inputs uc v2 sel h with ⟨h0, rfl⟩ | ⟨taken, rest, ut, defr, _, _, _, rfl, hge⟩
  · omega
  · simp only [sumV_append] at *; omega

theorem mem_candidates (s : State) (v2 : Bool) (u : Utxo) :
    u ∈ s.candidates v2 ↔
      u ∈ s.utxos ∧ s.isLocked u.id = false ∧ u.id ∉ s.inPool ∧ u.maturity ≤ s.height := by
  unfold State.candidates State.scanSelect
  simp only [List.mem_filter, Bool.and_eq_true, Bool.not_eq_true', Bool.or_eq_false_iff,
    List.contains_eq_mem, decide_eq_false_iff_not]
  rw [scan_spent_false, inPool_eq]
  grind

theorem mem_unconfCandidates (s : State) (v2 : Bool) (u : Utxo) (h : u ∈ s.unconfCandidates v2) :
    ∃ o ∈ (s.scanSelect v2).created, o.own = true ∧ s.isLocked o.id = false ∧ u = o.toUtxo := by
  unfold State.unconfCandidates at h
  simp only [List.mem_map, List.mem_filter, Bool.and_eq_true, Bool.not_eq_true'] at h
  obtain ⟨o, ⟨ho, hown, hl⟩, rfl⟩ := h
  exact ⟨o, ho, hown, hl, rfl⟩

/-- every selected output is unreserved -/
theorem select_unlocked (S : Sorter) (s : State) (amount inputs : Nat) (uc v2 : Bool) (sel : List Utxo)
    (h : s.selectUTXOs S amount inputs uc v2 = some sel) : ∀ u ∈ sel, s.isLocked u.id = false := by
  intro u hu
  rcases select_mem S s amount inputs uc v2 sel h u hu with hc | ⟨_, hc⟩
  · exact ((mem_candidates s v2 u).mp hc).2.1
  · obtain ⟨o, _, _, hl, rfl⟩ := mem_unconfCandidates s v2 u hc
    exact hl

/-! ### the outputs the scan keeps -/

/-- a property of scans that every step of the scan preserves is true of the result -/
theorem scan_induction (P : Scan → Prop) (fIn fOut : Bool) (outs : PTxn → Bool)
    (hIn : ∀ sc i, P sc → P (Scan.addIn fIn sc i)) (hOut : ∀ sc o, P sc → P (Scan.addOut fOut sc o))
    (txns : List PTxn) (sc : Scan) (h : P sc) : P (txns.foldl (Scan.addTxn fIn fOut outs) sc) := by
  induction txns generalizing sc with
  | nil => exact h
  | cons t txns ih =>
    apply ih
    unfold Scan.addTxn
    have h1 : ∀ (l : List PIn) sc, P sc → P (l.foldl (Scan.addIn fIn) sc) := by
      intro l; induction l with
      | nil => intro sc h; exact h
      | cons i l ihl => intro sc h; exact ihl _ (hIn _ _ h)
    have h2 : ∀ (l : List POut) sc, P sc → P (l.foldl (Scan.addOut fOut) sc) := by
      intro l; induction l with
      | nil => intro sc h; exact h
      | cons o l ihl => intro sc h; exact ihl _ (hOut _ _ h)
    simp only
    split
    · exact h2 _ _ (h1 _ _ h)
    · exact h1 _ _ h

theorem created_nodup (fIn fOut : Bool) (outs : PTxn → Bool) (txns : List PTxn) :
    ((scanTxns fIn fOut outs txns).created.map (·.id)).Nodup := by
  unfold scanTxns
  apply scan_induction (fun sc => (sc.created.map (·.id)).Nodup)
  · intro sc i h
    unfold Scan.addIn; split
    · exact h
    · exact ((List.filter_sublist (l := sc.created)).map _).nodup h
  · intro sc o h
    unfold Scan.addOut; split
    · exact h
    · simp only [List.map_append, List.map_cons, List.map_nil]
      rw [List.nodup_append]
      refine ⟨((List.filter_sublist (l := sc.created)).map _).nodup h, by simp, ?_⟩
      intro a ha b hb
      simp only [List.mem_map, List.mem_filter, bne_iff_ne, ne_eq] at ha
      simp only [List.mem_singleton] at hb
      obtain ⟨p, ⟨_, hne⟩, rfl⟩ := ha
      rw [hb]; exact hne
  · simp

/-- every kept output is an output of a pooled transaction whose outputs the scan reads -/
theorem created_origin (fIn fOut : Bool) (outs : PTxn → Bool) (txns : List PTxn) :
    ∀ o ∈ (scanTxns fIn fOut outs txns).created, ∃ t ∈ txns, outs t = true ∧ o ∈ t.outs := by
  suffices key : ∀ (l : List PTxn) (sc : Scan),
      (∀ o ∈ sc.created, ∃ t ∈ txns, outs t = true ∧ o ∈ t.outs) → (∀ t ∈ l, t ∈ txns) →
      ∀ o ∈ (l.foldl (Scan.addTxn fIn fOut outs) sc).created, ∃ t ∈ txns, outs t = true ∧ o ∈ t.outs from
    key txns ⟨[], []⟩ (by simp) (fun _ h => h)
  intro l
  induction l with
  | nil => intro sc h _; exact h
  | cons t l ih =>
    intro sc h hl
    apply ih _ _ (fun x hx => hl x (List.mem_cons_of_mem _ hx))
    have ht : t ∈ txns := hl t (List.mem_cons_self ..)
    unfold Scan.addTxn
    have h1 : ∀ (ins : List PIn) sc, (∀ o ∈ sc.created, ∃ t ∈ txns, outs t = true ∧ o ∈ t.outs) →
        ∀ o ∈ (ins.foldl (Scan.addIn fIn) sc).created, ∃ t ∈ txns, outs t = true ∧ o ∈ t.outs := by
      intro ins; induction ins with
      | nil => intro sc h; exact h
      | cons i ins ihl =>
        intro sc h; apply ihl
        unfold Scan.addIn; split
        · exact h
        · intro o ho; exact h o ((List.mem_filter.mp ho).1)
    simp only
    split
    · rename_i hout
      have h2 : ∀ (os : List POut) sc, (∀ o ∈ os, o ∈ t.outs) →
          (∀ o ∈ sc.created, ∃ t ∈ txns, outs t = true ∧ o ∈ t.outs) →
          ∀ o ∈ (os.foldl (Scan.addOut fOut) sc).created, ∃ t ∈ txns, outs t = true ∧ o ∈ t.outs := by
        intro os; induction os with
        | nil => intro sc _ h; exact h
        | cons o os ihl =>
          intro sc hos h; apply ihl _ (fun x hx => hos x (List.mem_cons_of_mem _ hx))
          unfold Scan.addOut; split
          · exact h
          · intro p hp
            simp only [List.mem_append, List.mem_singleton] at hp
            rcases hp with hp | rfl
            · exact h p ((List.mem_filter.mp hp).1)
            · exact ⟨t, ht, hout, hos _ (List.mem_cons_self ..)⟩
      exact h2 _ _ (fun _ h => h) (h1 _ _ h)
    · exact h1 _ _ h

/-- an input never names an output of the same or a later pooled transaction (the pool lists
parents before children and an output id is a hash of the transaction that creates it) -/
def PoolOrdered : List PTxn → Prop
  | [] => True
  | t :: rest => (∀ i ∈ t.ins, ∀ t' ∈ t :: rest, ∀ o ∈ t'.outs, o.id ≠ i.id) ∧ PoolOrdered rest

private def J (sc : Scan) (l : List PTxn) : Prop :=
  (∀ o ∈ sc.created, o.id ∉ sc.spent) ∧ (∀ id ∈ sc.spent, ∀ t' ∈ l, ∀ o ∈ t'.outs, o.id ≠ id)

private theorem J_ins (t : PTxn) (rest : List PTxn)
    (hord : ∀ i ∈ t.ins, ∀ t' ∈ t :: rest, ∀ o ∈ t'.outs, o.id ≠ i.id) :
    ∀ (ins : List PIn) (sc : Scan), (∀ i ∈ ins, i ∈ t.ins) → J sc (t :: rest) →
      J (ins.foldl (Scan.addIn false) sc) (t :: rest) := by
  intro ins
  induction ins with
  | nil => intro sc _ h; exact h
  | cons i ins ih =>
    intro sc hin h
    apply ih _ (fun x hx => hin x (List.mem_cons_of_mem _ hx))
    have hi := hord i (hin i (List.mem_cons_self ..))
    unfold Scan.addIn
    simp only [Bool.false_and, Bool.false_eq_true, ↓reduceIte]
    refine ⟨?_, ?_⟩
    · intro o ho
      simp only [List.mem_filter, bne_iff_ne, ne_eq] at ho
      simp only [List.mem_cons, not_or]
      exact ⟨ho.2, h.1 o ho.1⟩
    · intro id hid t' ht' o ho
      simp only [List.mem_cons] at hid
      rcases hid with rfl | hid
      · exact hi t' ht' o ho
      · exact h.2 id hid t' ht' o ho

private theorem J_outs (fOut : Bool) (t : PTxn) (rest : List PTxn) :
    ∀ (os : List POut) (sc : Scan), (∀ o ∈ os, o ∈ t.outs) → J sc (t :: rest) →
      J (os.foldl (Scan.addOut fOut) sc) (t :: rest) := by
  intro os
  induction os with
  | nil => intro sc _ h; exact h
  | cons o os ih =>
    intro sc hos h
    apply ih _ (fun x hx => hos x (List.mem_cons_of_mem _ hx))
    unfold Scan.addOut
    split
    · exact h
    · refine ⟨?_, h.2⟩
      intro p hp
      simp only [List.mem_append, List.mem_filter, List.mem_singleton] at hp
      rcases hp with hp | rfl
      · exact h.1 p hp.1
      · intro hmem
        exact h.2 _ hmem t (List.mem_cons_self ..) p (hos p (List.mem_cons_self ..)) rfl

/-- in an ordered pool an output the scan keeps is not spent by any pooled transaction -/
theorem created_unspent (fOut : Bool) (outs : PTxn → Bool) (txns : List PTxn) (hord : PoolOrdered txns) :
    ∀ o ∈ (scanTxns false fOut outs txns).created, o.id ∉ inputIds txns := by
  suffices key : ∀ (l : List PTxn) (sc : Scan), PoolOrdered l → J sc l →
      ∀ o ∈ (l.foldl (Scan.addTxn false fOut outs) sc).created,
        o.id ∉ (l.foldl (Scan.addTxn false fOut outs) sc).spent by
    intro o ho hmem
    exact key txns ⟨[], []⟩ hord ⟨by simp, by simp⟩ o ho ((scan_spent_false fOut outs txns o.id).mpr hmem)
  intro l
  induction l with
  | nil => intro sc _ h; exact h.1
  | cons t rest ih =>
    intro sc hord h
    simp only [List.foldl_cons]
    apply ih _ hord.2
    have h1 := J_ins t rest hord.1 t.ins sc (fun _ h => h) h
    have h2 : J (Scan.addTxn false fOut outs sc t) (t :: rest) := by
      unfold Scan.addTxn
      simp only
      split
      · exact J_outs fOut t rest t.outs _ (fun _ h => h) h1
      · exact h1
    exact ⟨h2.1, fun id hid t' ht' => h2.2 id hid t' (List.mem_cons_of_mem _ ht')⟩

/-! ### a selection never names an output twice -/

/-- the store lists every output once and no pooled transaction creates an output the store holds -/
structure StoreWF (s : State) : Prop where
  nodup : (s.utxos.map (·.id)).Nodup
  fresh : ∀ t ∈ s.poolV1 ++ s.poolV2, ∀ o ∈ t.outs, ∀ u ∈ s.utxos, o.id ≠ u.id

theorem candidates_sublist (s : State) (v2 : Bool) : (s.candidates v2).Sublist s.utxos := by
  unfold State.candidates; exact List.filter_sublist

theorem unconf_ids_nodup (s : State) (v2 : Bool) : ((s.unconfCandidates v2).map (·.id)).Nodup := by
  unfold State.unconfCandidates State.scanSelect
  have h := created_nodup false false (fun t => t.v2 == v2) (s.poolV1 ++ s.poolV2)
  rw [List.map_map]
  have : ((fun u : Utxo => u.id) ∘ POut.toUtxo) = fun o : POut => o.id := rfl
  rw [this]
  exact ((List.filter_sublist (l := (scanTxns false false (fun t => t.v2 == v2) (s.poolV1 ++ s.poolV2)).created)).map _).nodup h

theorem select_nodup (S : Sorter) (s : State) (amount inputs : Nat) (uc v2 : Bool) (sel : List Utxo)
    (hwf : StoreWF s) (h : s.selectUTXOs S amount inputs uc v2 = some sel) : (sel.map (·.id)).Nodup := by
  rcases select_shape S s amount inputs uc v2 sel h with ⟨_, rfl⟩ | ⟨taken, rest, ut, defr, hs, hut, hd, rfl, _⟩
  · simp
  · -- confirmed part: a sublist of a permutation of the candidates
    have hc : ((taken ++ defr).map (·.id)).Nodup := by
      have h1 : (taken ++ defr).Sublist (taken ++ rest.reverse) := (List.Sublist.refl taken).append hd
      have h2 : (taken ++ rest.reverse).Perm (s.candidates v2) := by
        refine (List.Perm.append_left taken (List.reverse_perm rest)).trans ?_
        rw [hs]; exact S.perm _
      have h3 : ((s.candidates v2).map (·.id)).Nodup := ((candidates_sublist s v2).map _).nodup hwf.nodup
      exact (h1.map _).nodup ((h2.map _).nodup_iff.mpr h3)
    have hu : (ut.map (·.id)).Nodup := by
      cases uc with
      | false => simp at hut; simp [hut]
      | true =>
        simp only [↓reduceIte] at hut
        exact (hut.sublist.map _).nodup (((S.perm _).map _).nodup_iff.mpr (unconf_ids_nodup s v2))
    have hdisj : ∀ a ∈ (taken ++ defr).map (·.id), ∀ b ∈ ut.map (·.id), a ≠ b := by
      intro a ha b hb
      simp only [List.mem_map] at ha hb
      obtain ⟨x, hx, rfl⟩ := ha
      obtain ⟨y, hy, rfl⟩ := hb
      have hxU : x ∈ s.utxos := by
        have : x ∈ taken ++ rest := by
          simp only [List.mem_append] at hx ⊢
          rcases hx with hx | hx
          · exact Or.inl hx
          · exact Or.inr (by simpa using hd.subset hx)
        rw [hs] at this
        exact (candidates_sublist s v2).subset ((S.perm _).mem_iff.mp this)
      cases uc with
      | false => simp at hut; simp [hut] at hy
      | true =>
        simp only [↓reduceIte] at hut
        have hyU := (S.perm _).mem_iff.mp (hut.subset hy)
        obtain ⟨o, ho, _, _, rfl⟩ := mem_unconfCandidates s v2 y hyU
        obtain ⟨t, ht, _, hot⟩ := created_origin false false _ _ o ho
        exact fun heq => hwf.fresh t ht o hot x hxU heq.symm
    have hperm : (taken ++ ut ++ defr).Perm ((taken ++ defr) ++ ut) := by
      rw [List.append_assoc, List.append_assoc]
      exact List.Perm.append_left taken List.perm_append_comm
    rw [(hperm.map _).nodup_iff, List.map_append, List.nodup_append]
    exact ⟨hc, hu, hdisj⟩

/-! ### the reservation invariant -/

/-- The invariant behind `outstanding_disjoint`, over the four components it reads: the
outstanding requests, the clock, the reservation map and the reservation period.
`held`: every input of a request whose period has not ended is reserved at least until then;
`disj`: requests whose periods have not ended share no input; `bounded`: no reservation outlives
one period from now. -/
structure Inv' (out : List FTxn) (now : Nat) (locked : Nat → Nat) (res : Nat) : Prop where
  held : ∀ r ∈ out, now < r.expiry → ∀ u ∈ r.ins, r.expiry ≤ locked u.id
  disj : out.Pairwise fun a b => now < a.expiry → now < b.expiry → ∀ u ∈ a.ins, ∀ v ∈ b.ins, u.id ≠ v.id
  bounded : ∀ id, locked id ≤ now + res

def Inv (s : State) : Prop := Inv' s.out s.now s.locked s.cfg.reservation

theorem inv'_lock (out : List FTxn) (now : Nat) (locked : Nat → Nat) (res : Nat) (h : Inv' out now locked res)
    (news : List FTxn) (ids : List Nat)
    (hids : ∀ t ∈ news, ∀ u ∈ t.ins, u.id ∈ ids)
    (hunl : ∀ id ∈ ids, ¬ now < locked id)
    (hexp : ∀ t ∈ news, t.expiry = now + res)
    (hpd : news.Pairwise fun a b => ∀ u ∈ a.ins, ∀ v ∈ b.ins, u.id ≠ v.id) :
    Inv' (out ++ news) now (fun j => if j ∈ ids then now + res else cleanLocked now locked j) res := by
  have hold : ∀ r ∈ out, now < r.expiry → ∀ u ∈ r.ins, u.id ∉ ids := by
    intro r hr hlive u hu hmem
    have := h.held r hr hlive u hu
    exact hunl _ hmem (by omega)
  refine ⟨?_, ?_, ?_⟩
  · intro r hr hlive u hu
    simp only [List.mem_append] at hr
    rcases hr with hr | hr
    · have hge := h.held r hr hlive u hu
      simp only [hold r hr hlive u hu, ↓reduceIte]
      rw [cleanLocked_of_le _ _ _ (by omega)]; exact hge
    · simp [hids r hr u hu, hexp r hr]
  · rw [List.pairwise_append]
    refine ⟨h.disj, hpd.imp (fun hab _ _ => hab), ?_⟩
    intro a ha b hb hla _ u hu v hv heq
    exact hold a ha hla u hu (heq ▸ hids b hb v hv)
  · intro j
    show (if j ∈ ids then now + res else cleanLocked now locked j) ≤ now + res
    split
    · omega
    · exact Nat.le_trans (cleanLocked_le _ _ _) (h.bounded j)

theorem inv'_release (out : List FTxn) (now : Nat) (locked : Nat → Nat) (res : Nat) (h : Inv' out now locked res)
    (ids : List Nat) :
    Inv' (out.filter fun t => !(t.ins.any fun u => ids.contains u.id)) now
      (cleanLocked now (fun id => if ids.contains id then 0 else locked id)) res := by
  refine ⟨?_, ?_, ?_⟩
  · intro r hr hlive u hu
    simp only [List.mem_filter, Bool.not_eq_true', List.any_eq_false, List.contains_eq_mem,
      decide_eq_true_eq] at hr
    have hge := h.held r hr.1 hlive u hu
    have hnot : ¬ u.id ∈ ids := hr.2 u hu
    rw [cleanLocked_of_le] <;> simp [hnot] <;> omega
  · exact h.disj.sublist List.filter_sublist
  · intro j
    refine Nat.le_trans (cleanLocked_le _ _ _) ?_
    show (if ids.contains j = true then 0 else locked j) ≤ now + res
    split
    · omega
    · exact h.bounded j

theorem inv'_tick (out : List FTxn) (now : Nat) (locked : Nat → Nat) (res d : Nat) (h : Inv' out now locked res) :
    Inv' out (now + d) locked res := by
  refine ⟨?_, ?_, ?_⟩
  · intro r hr hlive u hu; exact h.held r hr (by omega) u hu
  · exact h.disj.imp (fun hab ha hb => hab (by omega) (by omega))
  · intro j; have := h.bounded j; omega

theorem inv'_restart (now res : Nat) : Inv' [] now (fun _ => 0) res :=
  ⟨by simp, List.Pairwise.nil, by intro _; omega⟩

/-! ### Redistribute -/

theorem takeRedist_prefix (want fpi of : Nat) (n sum : Nat) (l : List Utxo) :
    takeRedist want fpi of n sum l <+: l := by
  induction l generalizing n sum with
  | nil => exact List.prefix_refl _
  | cons u l ih =>
    simp only [takeRedist]
    split
    · exact ⟨l, rfl⟩
    · exact (List.prefix_cons_inj u).mpr (ih _ _)

theorem prefix_append_drop {α} (p q l : List α) (hp : p <+: l) (hq : q <+: l.drop p.length) : p ++ q <+: l := by
  obtain ⟨r, rfl⟩ := hp
  simp only [List.drop_left] at hq
  exact (List.prefix_append_right_inj p).mpr hq

/-- what the loop of `Redistribute` appends: transactions whose inputs are consecutive segments
of the candidate list and whose inputs pay exactly outputs + change + fee -/
theorem redistLoop_spec (cfg : Cfg) (amount fpb : Nat) (fuel outputs : Nat) (utxos : List Utxo)
    (acc res : List RTxn) (h : redistLoop cfg amount fpb fuel outputs utxos acc = some res) :
    ∃ rest, res = acc ++ rest ∧ (rest.flatMap (·.ins)) <+: utxos ∧
      ∀ t ∈ rest, sumV t.ins = amount * t.nout + t.change + t.fee := by
  induction fuel generalizing outputs utxos acc with
  | zero =>
    simp only [redistLoop, Option.some.injEq] at h
    exact ⟨[], by simp [h], by simp, by simp⟩
  | succ fuel ih =>
    simp only [redistLoop] at h
    split at h
    · simp only [Option.some.injEq] at h
      exact ⟨[], by simp [h], by simp, by simp⟩
    · split at h
      · split at h
        · simp only [Option.some.injEq] at h
          exact ⟨[], by simp [h], by simp, by simp⟩
        · cases h
      · rename_i hge
        obtain ⟨rest, hres, hpre, hcons⟩ := ih _ _ _ h
        simp only [List.append_assoc, List.singleton_append] at hres
        refine ⟨_, hres, ?_, ?_⟩
        · simp only [List.flatMap_cons]
          exact prefix_append_drop _ _ _ (takeRedist_prefix ..) hpre
        · intro t ht
          simp only [List.mem_cons] at ht
          rcases ht with rfl | ht
          · simp only; omega
          · exact hcons t ht

theorem zipHandles_ins (f : Nat → RTxn → FTxn) (hf : ∀ h r, (f h r).ins = r.ins) (h0 : Nat) (l : List RTxn) :
    (zipHandles f h0 l).map (·.ins) = l.map (·.ins) := by
  induction l generalizing h0 with
  | nil => rfl
  | cons r l ih => simp [zipHandles, hf, ih]

theorem zipHandles_all (f : Nat → RTxn → FTxn) (P : FTxn → Prop) (hP : ∀ h r, P (f h r)) (h0 : Nat) (l : List RTxn) :
    ∀ t ∈ zipHandles f h0 l, P t := by
  induction l generalizing h0 with
  | nil => simp [zipHandles]
  | cons r l ih =>
    intro t ht
    simp only [zipHandles, List.mem_cons] at ht
    rcases ht with rfl | ht
    · exact hP _ _
    · exact ih _ t ht

/-- lists of inputs that are the pieces of one duplicate-free list are pairwise disjoint -/
theorem pairwise_disjoint_of_flat (ls : List (List Utxo)) (h : ((ls.flatMap id).map (·.id)).Nodup) :
    ls.Pairwise fun a b => ∀ u ∈ a, ∀ v ∈ b, u.id ≠ v.id := by
  induction ls with
  | nil => exact List.Pairwise.nil
  | cons a ls ih =>
    simp only [List.flatMap_cons, id, List.map_append, List.nodup_append] at h
    refine List.Pairwise.cons ?_ (ih h.2.1)
    intro b hb u hu v hv
    exact h.2.2 _ (List.mem_map_of_mem hu) _ (List.mem_map_of_mem (List.mem_flatMap.mpr ⟨b, hb, hv⟩))

theorem mem_redistCandidates (S : Sorter) (s : State) (outputs amount : Nat) (u : Utxo)
    (h : u ∈ (s.redistCandidates S outputs amount).2) :
    u ∈ s.utxos ∧ s.isLocked u.id = false ∧ u.id ∉ s.inPool ∧ u.maturity ≤ s.height := by
  unfold State.redistCandidates at h
  simp only at h
  have := (S.perm _).mem_iff.mp h
  simp only [List.mem_filter, Bool.and_eq_true, Bool.not_eq_true', Bool.or_eq_false_iff,
    List.contains_eq_mem, decide_eq_false_iff_not, decide_eq_true_eq, ge_iff_le] at this
  grind

theorem redistCandidates_nodup (S : Sorter) (s : State) (outputs amount : Nat)
    (hn : (s.utxos.map (·.id)).Nodup) : (((s.redistCandidates S outputs amount).2).map (·.id)).Nodup := by
  unfold State.redistCandidates
  simp only
  refine ((S.perm _).map _).nodup_iff.mpr ?_
  exact ((List.filter_sublist.trans List.filter_sublist).map _).nodup hn

/-! ### every operation preserves the invariant -/

theorem inv_after_lock (s : State) (h : Inv s) (news : List FTxn) (ids : List Nat) (s' : State)
    (hout : s'.out = s.out ++ news) (hnow : s'.now = s.now) (hcfg : s'.cfg = s.cfg)
    (hlocked : ∀ j, s'.locked j = if j ∈ ids then s.now + s.cfg.reservation else cleanLocked s.now s.locked j)
    (hids : ∀ t ∈ news, ∀ u ∈ t.ins, u.id ∈ ids)
    (hunl : ∀ id ∈ ids, s.isLocked id = false)
    (hexp : ∀ t ∈ news, t.expiry = s.now + s.cfg.reservation)
    (hpd : news.Pairwise fun a b => ∀ u ∈ a.ins, ∀ v ∈ b.ins, u.id ≠ v.id) : Inv s' := by
  unfold Inv
  rw [hout, hnow, hcfg, funext hlocked]
  exact inv'_lock _ _ _ _ h news ids hids
    (fun id hid => by have := hunl id hid; simpa [State.isLocked] using this) hexp hpd

theorem inv_fund (S : Sorter) (s : State) (h : Inv s) (hd : Nat) (v2 : Bool) (amount : Nat) (uc : Bool)
    (inputs : Nat) (pre : List (Nat × Bool)) : Inv (s.fund S hd v2 amount uc inputs pre).1 := by
  unfold State.fund
  split
  · exact h
  · split
    · exact h
    · rename_i sel hsel
      refine inv_after_lock s h
        [⟨hd, v2, sel, if sumV sel > amount then pre ++ [(sumV sel - amount, true)] else pre, 0,
          s.now + s.cfg.reservation, 0⟩] (sel.map (·.id)) _ (by simp) (by simp) (by simp)
        (fun j => by simp [lockUTXOs_locked]) ?_ ?_ (by simp) (List.pairwise_singleton _ _)
      · intro t ht u hu
        simp only [List.mem_singleton] at ht
        subst ht
        exact List.mem_map_of_mem hu
      · intro id hid
        simp only [List.mem_map] at hid
        obtain ⟨u, hu, rfl⟩ := hid
        exact select_unlocked S s amount inputs uc v2 sel hsel u hu

theorem inv_redistribute (S : Sorter) (s : State) (h : Inv s) (hn : (s.utxos.map (·.id)).Nodup)
    (h0 outputs amount fpb : Nat) : Inv (s.redistribute S h0 outputs amount fpb).1 := by
  unfold State.redistribute
  simp only
  split
  · exact h
  · split
    · exact h
    · split
      · exact h
      · rename_i txns hloop
        obtain ⟨rest, hres, hpre, _⟩ := redistLoop_spec _ _ _ _ _ _ _ _ hloop
        simp only [List.nil_append] at hres
        subst hres
        have hins := zipHandles_ins (RTxn.toF s.now s.cfg amount) (fun _ _ => rfl) h0 txns
        refine inv_after_lock s h (zipHandles (RTxn.toF s.now s.cfg amount) h0 txns)
          (txns.flatMap fun t => t.ins.map (·.id)) _ (by simp) (by simp) (by simp)
          (fun j => by simp [lockUTXOs_locked]) ?_ ?_ ?_ ?_
        · intro t ht u hu
          have : t.ins ∈ txns.map (·.ins) := hins ▸ List.mem_map_of_mem ht
          simp only [List.mem_map] at this
          obtain ⟨r, hr, hri⟩ := this
          exact List.mem_flatMap.mpr ⟨r, hr, List.mem_map.mpr ⟨u, hri ▸ hu, rfl⟩⟩
        · intro id hid
          simp only [List.mem_flatMap, List.mem_map] at hid
          obtain ⟨r, hr, u, hu, rfl⟩ := hid
          have hmem : u ∈ txns.flatMap (·.ins) := List.mem_flatMap.mpr ⟨r, hr, hu⟩
          exact (mem_redistCandidates S s outputs amount u (hpre.subset hmem)).2.1
        · exact zipHandles_all _ (fun t => t.expiry = s.now + s.cfg.reservation) (fun _ _ => rfl) h0 txns
        · have hnd : (((txns.map (·.ins)).flatMap id).map (·.id)).Nodup := by
            have : (txns.map (·.ins)).flatMap id = txns.flatMap (·.ins) := by
              simp [List.flatMap_map]
            rw [this]
            exact (hpre.sublist.map _).nodup (redistCandidates_nodup S s outputs amount hn)
          have hp := pairwise_disjoint_of_flat _ hnd
          rw [← hins, List.pairwise_map] at hp
          exact hp

theorem splitScan_mem (m : Nat) (l : List Utxo) (init : Nat × Utxo) :
    (splitScan m l init).2 = init.2 ∨ (splitScan m l init).2 ∈ l := by
  unfold splitScan
  induction l generalizing init with
  | nil => left; rfl
  | cons u l ih =>
    simp only [List.foldl_cons]
    rcases ih (if u.value < m then init else (init.1 + 1, if u.value > init.2.value then u else init.2)) with h | h
    · rw [h]
      split
      · left; rfl
      · simp only; split
        · right; exact List.mem_cons_self ..
        · left; rfl
    · right; exact List.mem_cons_of_mem _ h

@[simp] theorem addPool_now (s : State) (p) : (s.addPool p).now = s.now := by unfold State.addPool; split <;> rfl
@[simp] theorem addPool_cfg (s : State) (p) : (s.addPool p).cfg = s.cfg := by unfold State.addPool; split <;> rfl
@[simp] theorem addPool_locked (s : State) (p) : (s.addPool p).locked = s.locked := by unfold State.addPool; split <;> rfl
@[simp] theorem addPool_out (s : State) (p) : (s.addPool p).out = s.out := by unfold State.addPool; split <;> rfl
@[simp] theorem addPool_utxos (s : State) (p) : (s.addPool p).utxos = s.utxos := by unfold State.addPool; split <;> rfl
@[simp] theorem addPool_height (s : State) (p) : (s.addPool p).height = s.height := by unfold State.addPool; split <;> rfl

/-- the output `SplitUTXO` picks is unreserved, unless none qualified (value 0) -/
theorem splitPick_unlocked (s : State) (m : Nat) :
    (s.splitPick m).2.value = 0 ∨ s.isLocked (s.splitPick m).2.id = false := by
  unfold State.splitPick
  simp only
  rcases splitScan_mem m _ (splitScan m (s.utxos.filter fun u =>
      !(s.isLocked u.id || (s.scanPool false true).spent.contains u.id) && !(s.height < u.maturity)) (0, ⟨0, 0, 0⟩)) with h1 | h1
  · rcases splitScan_mem m (s.utxos.filter fun u =>
      !(s.isLocked u.id || (s.scanPool false true).spent.contains u.id) && !(s.height < u.maturity)) (0, ⟨0, 0, 0⟩) with h2 | h2
    · left; rw [h1, h2]
    · right; rw [h1]
      simp only [List.mem_filter, Bool.and_eq_true, Bool.not_eq_true', Bool.or_eq_false_iff] at h2
      exact h2.2.1.1
  · right
    simp only [List.mem_map, List.mem_filter, Bool.and_eq_true, Bool.not_eq_true'] at h1
    obtain ⟨o, ⟨_, _, hl⟩, heq⟩ := h1
    rw [← heq]; exact hl

theorem inv_splitCommit (s : State) (h : Inv s) (t : FTxn)
    (hunl : ∀ u ∈ t.ins, s.isLocked u.id = false) (hexp : t.expiry = s.now + s.cfg.reservation) :
    Inv (s.splitCommit t) := by
  refine inv_after_lock s h [t] (t.ins.map (·.id)) _ ?_ ?_ ?_ ?_ ?_ ?_ (by simpa using hexp) (List.pairwise_singleton _ _)
  · simp [State.splitCommit]
  · simp [State.splitCommit]
  · simp [State.splitCommit]
  · intro j
    simp [State.splitCommit, lockUTXOs_locked]
  · intro t' ht u hu
    simp only [List.mem_singleton] at ht
    subst ht
    exact List.mem_map_of_mem hu
  · intro id hid
    simp only [List.mem_map] at hid
    obtain ⟨u, hu, rfl⟩ := hid
    exact hunl u hu

theorem inv_split (s : State) (h : Inv s) (hd n m fee : Nat) : Inv (s.split hd n m fee).1 := by
  unfold State.split
  simp only
  repeat' split
  all_goals try exact h
  rename_i hval _ _ _
  apply inv_splitCommit s h _ _ rfl
  intro u hu
  simp only [List.mem_singleton] at hu
  subst hu
  rcases splitPick_unlocked s m with h0 | h0
  · rw [h0] at hval; simp at hval
  · exact h0

/-- the four components the invariant reads -/
def State.core (s : State) : List FTxn × Nat × (Nat → Nat) × Nat := (s.out, s.now, s.locked, s.cfg.reservation)

theorem inv_of_core {s s' : State} (h : Inv s) (hc : s'.core = s.core) : Inv s' := by
  unfold Inv
  simp only [State.core, Prod.mk.injEq] at hc
  rw [hc.1, hc.2.1, hc.2.2.1, hc.2.2.2]; exact h

theorem addSet_core (s : State) (set : List PTxn) : (s.addSet set).core = s.core := by
  unfold State.addSet
  split
  · suffices key : ∀ (l : List PTxn) (st : State), st.core = s.core →
        (l.foldl (fun st p =>
          if st.poolV2.contains p then st
          else if st.accepts true (p.ins.map (·.id)) then { st with poolV2 := st.poolV2 ++ [p] } else st) st).core = s.core from
      key set s rfl
    intro l
    induction l with
    | nil => intro st h; exact h
    | cons p l ih =>
      intro st h
      simp only [List.foldl_cons]
      apply ih
      split
      · exact h
      · split
        · exact h
        · exact h
  · rfl

theorem foldl_addSet_core (sets : List (List PTxn)) (s : State) : (sets.foldl State.addSet s).core = s.core := by
  induction sets generalizing s with
  | nil => rfl
  | cons x l ih => simp only [List.foldl_cons]; rw [ih, addSet_core]

/-- offering a set to the pool never removes a pooled transaction -/
theorem addSet_poolV2_mono (s : State) (set : List PTxn) (p : PTxn) (h : p ∈ s.poolV2) :
    p ∈ (s.addSet set).poolV2 := by
  unfold State.addSet
  split
  · suffices key : ∀ (l : List PTxn) (st : State), p ∈ st.poolV2 →
        p ∈ (l.foldl (fun st q =>
          if st.poolV2.contains q then st
          else if st.accepts true (q.ins.map (·.id)) then { st with poolV2 := st.poolV2 ++ [q] } else st) st).poolV2 from
      key set s h
    intro l
    induction l with
    | nil => intro st h; exact h
    | cons q l ih =>
      intro st h
      simp only [List.foldl_cons]
      apply ih
      split
      · exact h
      · split
        · simp [h]
        · exact h
  · exact h

theorem foldl_addSet_poolV2_mono (sets : List (List PTxn)) (s : State) (p : PTxn) (h : p ∈ s.poolV2) :
    p ∈ (sets.foldl State.addSet s).poolV2 := by
  induction sets generalizing s with
  | nil => exact h
  | cons x l ih => exact ih _ (addSet_poolV2_mono s x p h)

/-- a set of one transaction that passes the pool's test alone on the tip and on the current pool
ends up in the pool -/
theorem addSet_single (s : State) (p : PTxn)
    (h1 : ({ s with poolV1 := [], poolV2 := [] } : State).accepts true (p.ins.map (·.id)) = true)
    (h2 : s.accepts true (p.ins.map (·.id)) = true) : p ∈ (s.addSet [p]).poolV2 := by
  unfold State.addSet
  simp only [State.validSet, h1, Bool.and_true, ↓reduceIte, List.foldl_cons, List.foldl_nil]
  split
  · rename_i hc; simpa using hc
  · simp [h2]

theorem inv_restart (s : State) (f : Bool) : Inv (s.restart f) := by
  unfold State.restart
  simp only
  have : ∀ s0 : State, s0.out = [] → s0.locked = (fun _ => 0) → Inv (s.reloadable.foldl State.addSet s0) := by
    intro s0 ho hl
    have hc := foldl_addSet_core s.reloadable s0
    unfold Inv
    simp only [State.core, Prod.mk.injEq] at hc
    rw [hc.1, hc.2.1, hc.2.2.1, hc.2.2.2, ho, hl]
    exact inv'_restart _ _
  split
  · exact this _ rfl rfl
  · exact this _ rfl rfl

theorem inv_release (s : State) (h : Inv s) (ids : List Nat) : Inv (s.release ids) :=
  inv'_release _ _ _ _ h ids

theorem inv_tick (s : State) (h : Inv s) (d : Nat) : Inv (s.tick d) := inv'_tick _ _ _ _ d h

theorem bcast_core (s : State) (hd : Nat) (w : Bool) : (s.bcast hd w).1.core = s.core := by
  unfold State.bcast
  split
  · rfl
  · split
    · cases w <;> simp [State.core]
    · split
      · cases w <;> simp [State.core]
      · rfl

theorem xspend_core (s : State) (v2 : Bool) (id back rest : Nat) : (s.xspend v2 id back rest).1.core = s.core := by
  unfold State.xspend
  split
  · simp [State.core]
  · rfl

theorem mine_core (s : State) (w : Bool) (r : Nat) : (s.mine w r).core = s.core := rfl

/-- every operation preserves the invariant (Redistribute needs the store to list each output once) -/
theorem inv_step (S : Sorter) (s : State) (h : Inv s) (hn : (s.utxos.map (·.id)).Nodup) (o : Op) :
    Inv (s.step S o) := by
  cases o with
  | fund hd v2 a uc i pre => exact inv_fund S s h hd v2 a uc i pre
  | redistribute h0 outs a f => exact inv_redistribute S s h hn h0 outs a f
  | split hd n m f => exact inv_split s h hd n m f
  | release ids => exact inv_release s h ids
  | bcast hd w => exact inv_of_core h (bcast_core s hd w)
  | xspend v id b r => exact inv_of_core h (xspend_core s v id b r)
  | mine w r => exact inv_of_core h (mine_core s w r)
  | tick d => exact inv_tick s h d
  | restart f => exact inv_restart s f
  | env u hh ch p1 p2 => exact inv_of_core h rfl
  | lag k => exact inv_of_core h rfl
  | sync => exact inv_of_core h rfl
  | stale => exact inv_of_core h rfl

theorem inv_init (cfg : Cfg) : Inv (State.init cfg) := inv'_restart _ _

/-! ### the three views of what is spendable -/

theorem contains_congr {a b : List Nat} (h : ∀ x, x ∈ a ↔ x ∈ b) (x : Nat) : a.contains x = b.contains x := by
  rw [Bool.eq_iff_iff]; simp [h x]

theorem spendable_eq_candidates (s : State) (v2 : Bool) : s.spendable = s.candidates v2 := by
  unfold State.spendable State.candidates State.scanSelect
  apply List.filter_congr
  intro u _
  rw [contains_congr (fun x => scan_spent_false false (fun t => t.v2 == v2) (s.poolV1 ++ s.poolV2) x) u.id,
    ← inPool_eq]
  cases s.isLocked u.id <;> cases s.inPool.contains u.id <;> simp

/-- own input ids of the pooled transactions -/
def ownInputIds (txns : List PTxn) : List Nat := txns.flatMap fun t => (t.ins.filter (·.own)).map (·.id)

theorem addIn_spent_true (ins : List PIn) (sc : Scan) (id : Nat) :
    id ∈ (ins.foldl (Scan.addIn true) sc).spent ↔ id ∈ sc.spent ∨ id ∈ (ins.filter (·.own)).map (·.id) := by
  induction ins generalizing sc with
  | nil => simp
  | cons i ins ih =>
    simp only [List.foldl_cons, ih, Scan.addIn]
    cases hi : i.own <;> simp [hi] <;> grind

theorem scan_spent_true (fOut : Bool) (outs : PTxn → Bool) (txns : List PTxn) (id : Nat) :
    id ∈ (scanTxns true fOut outs txns).spent ↔ id ∈ ownInputIds txns := by
  unfold scanTxns
  suffices key : ∀ (l : List PTxn) (sc : Scan),
      id ∈ (l.foldl (Scan.addTxn true fOut outs) sc).spent ↔ id ∈ sc.spent ∨ id ∈ ownInputIds l by
    rw [key]; simp
  intro l
  induction l with
  | nil => intro sc; simp [ownInputIds]
  | cons t l ih =>
    intro sc
    simp only [List.foldl_cons, ih, ownInputIds, List.flatMap_cons, List.mem_append]
    have : id ∈ (Scan.addTxn true fOut outs sc t).spent ↔ id ∈ sc.spent ∨ id ∈ (t.ins.filter (·.own)).map (·.id) := by
      unfold Scan.addTxn; simp only; split
      · rw [addOut_spent]; exact addIn_spent_true _ _ _
      · exact addIn_spent_true _ _ _
    rw [this]; grind

/-- a pooled input that names an output of the store carries the wallet's unlock hash / address
(the pool only holds valid transactions; `Balance` skips inputs of other addresses) -/
def PoolOwn (s : State) : Prop :=
  ∀ t ∈ s.poolV1 ++ s.poolV2, ∀ i ∈ t.ins, (∃ u ∈ s.utxos, u.id = i.id) → i.own = true

theorem balance_spendable (s : State) (hown : PoolOwn s) : s.balance.spendable = sumV s.spendable := by
  unfold State.balance State.spendable State.scanPool
  simp only
  rw [List.filter_filter]
  congr 1
  apply List.filter_congr
  intro u hu
  have hiff : u.id ∈ (scanTxns true true (fun _ => true) (s.poolV1 ++ s.poolV2)).spent ↔ u.id ∈ s.inPool := by
    rw [scan_spent_true, inPool_eq]
    unfold ownInputIds inputIds
    simp only [List.mem_flatMap, List.mem_map, List.mem_filter]
    constructor
    · rintro ⟨t, ht, i, ⟨hi, _⟩, hid⟩; exact ⟨t, ht, i, hi, hid⟩
    · rintro ⟨t, ht, i, hi, hid⟩; exact ⟨t, ht, i, ⟨hi, hown t ht i hi ⟨u, hu, hid.symm⟩⟩, hid⟩
  have hb : (scanTxns true true (fun _ => true) (s.poolV1 ++ s.poolV2)).spent.contains u.id = s.inPool.contains u.id := by
    rw [Bool.eq_iff_iff]; simpa using hiff
  rw [hb]
  cases s.isLocked u.id <;> cases s.inPool.contains u.id <;> simp <;> omega

/-- without unconfirmed outputs a request succeeds exactly when the candidates cover it -/
theorem select_complete (S : Sorter) (s : State) (amount inputs : Nat) (v2 : Bool) (h0 : amount ≠ 0) :
    (s.selectUTXOs S amount inputs false v2).isSome = true ↔ amount ≤ sumV (s.candidates v2) := by
  unfold State.selectUTXOs
  simp only [h0, ↓reduceIte, Bool.and_false, Bool.false_eq_true]
  have happ := takeFund_append amount 0 (S.sort (s.candidates v2))
  have hsum : sumV (takeFund amount 0 (S.sort (s.candidates v2))).1 + sumV (takeFund amount 0 (S.sort (s.candidates v2))).2
      = sumV (s.candidates v2) := by
    rw [← sumV_append, happ]; exact sumV_perm (S.perm _)
  have hcov := takeFund_covers amount 0 (S.sort (s.candidates v2))
  split
  · rename_i hlt
    simp only [Option.isSome_none, Bool.false_eq_true, false_iff]
    rcases hcov with hc | hc
    · omega
    · rw [hc] at hsum; simp [sumV_nil] at hsum; omega
  · simp only [Option.isSome_some, true_iff]; omega

end Verif.Funding
