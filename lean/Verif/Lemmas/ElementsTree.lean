import Verif.Model.Elements

namespace Verif.Elements

/-- on its intended domain the packed key is `row` one-bits, a zero bit, and `col` -/
theorem treeKey_eq {row col : Nat} (hr : row < 32) (hc : col < 2 ^ (31 - row)) :
    treeKey row col = 2 ^ 32 - 2 ^ (32 - row) + col := by
  have hsucc : 2 ^ (32 - row) = 2 * 2 ^ (31 - row) := by
    rw [show 32 - row = (31 - row) + 1 by omega, Nat.pow_succ, Nat.mul_comm]
  have hc' : col < 2 ^ (32 - row) := by omega
  have hmul : 2 ^ row * 2 ^ (32 - row) = 2 ^ 32 := by
    rw [← Nat.pow_add, show row + (32 - row) = 32 by omega]
  have hle : 2 ^ (32 - row) ≤ 2 ^ 32 := Nat.pow_le_pow_right (by omega) (by omega)
  unfold treeKey
  rw [Nat.one_shiftLeft, ← Nat.shiftLeft_add_eq_or_of_lt hc', Nat.shiftLeft_eq, Nat.sub_mul,
    Nat.one_mul, hmul]
  apply Nat.mod_eq_of_lt
  omega

theorem treeKey_injective {r c r' c' : Nat} (hr : r < 32) (hr' : r' < 32)
    (hc : c < 2 ^ (31 - r)) (hc' : c' < 2 ^ (31 - r')) (h : treeKey r c = treeKey r' c') :
    r = r' ∧ c = c' := by
  rw [treeKey_eq hr hc, treeKey_eq hr' hc'] at h
  have hs : 2 ^ (32 - r) = 2 * 2 ^ (31 - r) := by
    rw [show 32 - r = (31 - r) + 1 by omega, Nat.pow_succ, Nat.mul_comm]
  have hs' : 2 ^ (32 - r') = 2 * 2 ^ (31 - r') := by
    rw [show 32 - r' = (31 - r') + 1 by omega, Nat.pow_succ, Nat.mul_comm]
  have hle : 2 ^ (32 - r) ≤ 2 ^ 32 := Nat.pow_le_pow_right (by omega) (by omega)
  have hle' : 2 ^ (32 - r') ≤ 2 ^ 32 := Nat.pow_le_pow_right (by omega) (by omega)
  rcases Nat.lt_trichotomy r r' with hlt | heq | hgt
  · exfalso
    have hq : 2 ^ (32 - r') ≤ 2 ^ (31 - r) := Nat.pow_le_pow_right (by omega) (by omega)
    omega
  · subst heq
    exact ⟨rfl, by omega⟩
  · exfalso
    have hq : 2 ^ (32 - r) ≤ 2 ^ (31 - r') := Nat.pow_le_pow_right (by omega) (by omega)
    omega

/-- every node `getElementProof(leaf, n)` reads is the root of a complete subtree inside `[0, n)` -/
theorem proof_reads_live_nodes {leaf n i : Nat} (h : leaf < n) (hi : i < proofLen leaf n) :
    nodeLive n i ((leaf >>> i) ^^^ 1) := by
  unfold proofLen at hi
  unfold nodeLive
  -- `k` is the highest bit where `leaf` and `n` differ
  have hx : leaf ^^^ n ≠ 0 := by
    intro h0
    rw [h0] at hi
    simp at hi
  have hlo : 2 ^ (leaf ^^^ n).log2 ≤ leaf ^^^ n := Nat.log2_self_le hx
  have hhi : leaf ^^^ n < 2 ^ ((leaf ^^^ n).log2 + 1) := Nat.lt_log2_self
  generalize (leaf ^^^ n).log2 = k at hi hlo hhi
  have hkpos : 0 < 2 ^ k := Nat.pow_pos (by omega)
  -- above bit `k` the two agree, and at bit `k` they differ
  have hdiv : leaf / 2 ^ k ^^^ n / 2 ^ k = 1 := by
    rw [← Nat.xor_div_two_pow]
    apply Nat.div_eq_of_lt_le
    · omega
    · rw [Nat.pow_succ] at hhi; omega
  have hab : leaf / 2 ^ k + 1 ≤ n / 2 ^ k := by
    have hle : leaf / 2 ^ k ≤ n / 2 ^ k := Nat.div_le_div_right (Nat.le_of_lt h)
    have hne : leaf / 2 ^ k ≠ n / 2 ^ k := by
      intro he
      rw [he, Nat.xor_self] at hdiv
      omega
    omega
  have hn : (leaf / 2 ^ k + 1) * 2 ^ k ≤ n :=
    Nat.le_trans (Nat.mul_le_mul_right _ hab) (Nat.div_mul_le_self _ _)
  -- the sibling at row `i` sits below the same ancestor at row `k`
  have hsplit : 2 ^ k = 2 ^ i * 2 ^ (k - i) := by
    rw [← Nat.pow_add, show i + (k - i) = k by omega]
  have hone : 1 / 2 ^ (k - i) = 0 := by
    apply Nat.div_eq_of_lt
    exact Nat.one_lt_two_pow (by omega)
  have hc : ((leaf >>> i) ^^^ 1) / 2 ^ (k - i) = leaf / 2 ^ k := by
    rw [Nat.xor_div_two_pow, hone, Nat.xor_zero, Nat.shiftRight_eq_div_pow,
      Nat.div_div_eq_div_mul, ← hsplit]
  have hdpos : 0 < 2 ^ (k - i) := Nat.pow_pos (by omega)
  have hlt : (leaf >>> i) ^^^ 1 < (leaf / 2 ^ k + 1) * 2 ^ (k - i) := by
    rw [← Nat.div_lt_iff_lt_mul hdpos, hc]
    omega
  calc (((leaf >>> i) ^^^ 1) + 1) * 2 ^ i
      ≤ ((leaf / 2 ^ k + 1) * 2 ^ (k - i)) * 2 ^ i := Nat.mul_le_mul_right _ (Nat.succ_le_of_lt hlt)
    _ = (leaf / 2 ^ k + 1) * 2 ^ k := by
        rw [Nat.mul_assoc, Nat.mul_comm (2 ^ (k - i)), ← hsplit]
    _ ≤ n := hn

end Verif.Elements
