import Verif.Model.Mutex
/-! Invariants of the lock model: the state is always the serial execution of the completed
segments followed by the executed prefix of the holder's segment; program order is preserved. -/
namespace Verif.Mutex
variable {σ : Type}

def held (s : Sys σ) : Seg σ := match s.hold with | some (_, ex, _) => ex | none => []

def StInv (x0 : σ) (s : Sys σ) : Prop := s.st = (held s).foldl app (serial s.done x0)

theorem serial_append (d : List (Nat × Seg σ)) (e : Nat × Seg σ) (x : σ) :
    serial (d ++ [e]) x = e.2.foldl app (serial d x) := by
  simp [serial, List.foldl_append]

theorem step_stInv (x0 : σ) (s : Sys σ) (t : Nat) (h : StInv x0 s) : StInv x0 (step s t) := by
  unfold StInv at *
  unfold step
  cases hh : s.hold with
  | none =>
    simp only []
    cases hr : s.rest[t]? with
    | none => simpa [held, hh] using h
    | some p =>
      cases p with
      | nil => simpa [held, hh] using h
      | cons seg more => simpa [held, hh] using h
  | some v =>
    obtain ⟨hd, ex, rem⟩ := v
    cases rem with
    | nil =>
      simp only []
      by_cases e : hd = t
      · simp only [e, if_true]
        simp only [held, serial_append, List.foldl_nil]
        simpa [held, hh] using h
      · simp only [e, if_false]; simpa [held, hh] using h
    | cons a as =>
      simp only []
      by_cases e : hd = t
      · simp only [e, if_true]
        simp only [held, List.foldl_append, List.foldl_cons, List.foldl_nil, app]
        have : s.st = ex.foldl app (serial s.done x0) := by simpa [held, hh] using h
        rw [this]
      · simp only [e, if_false]; simpa [held, hh] using h

theorem run_stInv (x0 : σ) (sched : List Nat) (s : Sys σ) (h : StInv x0 s) : StInv x0 (run s sched) := by
  induction sched generalizing s with
  | nil => exact h
  | cons t ts ih => exact ih _ (step_stInv x0 s t h)

theorem init_stInv (x0 : σ) (progs : List (List (Seg σ))) : StInv x0 (init x0 progs) := by
  simp [StInv, init, held, serial]

theorem step_progOf (s : Sys σ) (u t : Nat) : progOf (step s u) t = progOf s t := by
  unfold step
  cases hh : s.hold with
  | none =>
    simp only []
    cases hr : s.rest[u]? with
    | none => rfl
    | some p =>
      cases p with
      | nil => rfl
      | cons seg more =>
        simp only [progOf, hh]
        by_cases e : u = t
        · subst e
          rcases List.getElem?_eq_some_iff.mp hr with ⟨hlt, hv⟩
          simp [hlt, hv]
        · simp [e]
  | some v =>
    obtain ⟨hd, ex, rem⟩ := v
    cases rem with
    | nil =>
      simp only []
      by_cases e : hd = u
      · simp only [e, if_true, progOf, hh]
        by_cases e2 : u = t
        · simp [e2, List.filter_append]
        · simp [e2, List.filter_append]
      · simp only [e, if_false]
    | cons a as =>
      simp only []
      by_cases e : hd = u
      · simp only [e, if_true, progOf, hh]
        by_cases e2 : u = t
        · simp [e2]
        · simp [e2]
      · simp only [e, if_false]

theorem run_progOf (sched : List Nat) (s : Sys σ) (t : Nat) : progOf (run s sched) t = progOf s t := by
  induction sched generalizing s with
  | nil => rfl
  | cons u us ih => rw [show run s (u :: us) = run (step s u) us from rfl, ih, step_progOf]

theorem init_progOf (x0 : σ) (progs : List (List (Seg σ))) (t : Nat) :
    progOf (init x0 progs) t = (progs[t]?).getD [] := by
  simp [progOf, init]

end Verif.Mutex

namespace Verif.Mutex
variable {σ : Type}

/-- progress: unless every caller has finished and the lock is free, some caller can take a step
that changes the lock state — callers of a lock-disciplined object cannot deadlock on its lock -/
theorem progress (s : Sys σ) (h : quiescent s = false) : ∃ t, (step s t).hold ≠ s.hold := by
  cases hh : s.hold with
  | some v =>
    obtain ⟨hd, ex, rem⟩ := v
    refine ⟨hd, ?_⟩
    cases rem with
    | nil => simp [step, hh]
    | cons a as =>
      simp only [step, hh, if_true]
      intro hc
      have := congrArg (fun o => (o.map (fun x => x.2.2.length)).getD 0) hc
      simp at this
  | none =>
    have hr : s.rest.all (·.isEmpty) = false := by
      simpa [quiescent, hh] using h
    have : ∃ l ∈ s.rest, l.isEmpty = false := by
      simpa [List.all_eq_false] using hr
    obtain ⟨l, hl, hne⟩ := this
    obtain ⟨t, ht, hget⟩ := List.getElem_of_mem hl
    refine ⟨t, ?_⟩
    cases l with
    | nil => simp at hne
    | cons seg more =>
      have hq : s.rest[t]? = some (seg :: more) := by
        rw [List.getElem?_eq_getElem ht, hget]
      simp [step, hh, hq]

end Verif.Mutex
