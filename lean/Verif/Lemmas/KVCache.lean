/-
Helper lemmas for M1 (KV), second half: `CacheDB` over ANY inner backend that refines
`Spec` itself refines `Spec` (`cachedb_step_refines`).

The inner backend is only seen through the one-step simulation `Refines B Ri`; the
effect of `CacheDB.Flush` on the inner backend (all pending puts, bucket by bucket,
then all pending deletes) is computed key by key (`Op.actOn`, `foldl_actOn_flushOps`).
-/
import Verif.Lemmas.KV

namespace Verif.KV
open Std

/-! ## one-step simulation of an arbitrary backend by `Spec` -/

/-- `B` refines `Spec` through the relation `Ri`: from related states every operation
gives the same output and related successor states. -/
structure Refines {σ} (B : Backend σ) (Ri : σ → Spec → Prop) : Prop where
  step : ∀ x t, Ri x t → ∀ op, (B.step x op).2 = (t.step op).2 ∧ Ri (B.step x op).1 (t.step op).1

theorem refines_mem : Refines memBackend R := ⟨fun d s h op => memdb_step_refines d s h op⟩

theorem refines_spec : Refines specBackend Eq := ⟨by intro x t h op; subst h; exact ⟨rfl, rfl⟩⟩

theorem runInner_refines {σ} {B : Backend σ} {Ri : σ → Spec → Prop} (hB : Refines B Ri)
    (ops : List Op) : ∀ x t, Ri x t → Ri (runInner B x ops) (runInner specBackend t ops) := by
  induction ops with
  | nil => intro x t h; exact h
  | cons op ops ih =>
    intro x t h
    simp only [runInner, List.foldl_cons]
    exact ih _ _ (hB.step x t h op).2

theorem innerHas_eq {σ} {B : Backend σ} {Ri : σ → Spec → Prop} (hB : Refines B Ri)
    (x : σ) (t : Spec) (h : Ri x t) (b : Nat) : innerHas B x b = (t.working b).isSome := by
  have := (hB.step x t h (.get b 0)).1
  simp only [innerHas, this, Spec.step]
  cases t.working b <;> rfl

theorem innerGet_eq {σ} {B : Backend σ} {Ri : σ → Spec → Prop} (hB : Refines B Ri)
    (x : σ) (t : Spec) (h : Ri x t) (b k : Nat) :
    innerGet B x b k = (t.working b).bind (·[k]?) := by
  have := (hB.step x t h (.get b k)).1
  simp only [innerGet, this, Spec.step]
  cases t.working b <;> rfl

theorem innerIter_eq {σ} {B : Backend σ} {Ri : σ → Spec → Prop} (hB : Refines B Ri)
    (x : σ) (t : Spec) (h : Ri x t) (b : Nat) :
    innerIter B x b = (t.working b).getD ∅ := by
  have := (hB.step x t h (.iter b)).1
  simp only [innerIter, this, Spec.step]
  cases t.working b <;> rfl

/-! ## the effect of a list of writes on `Spec`, key by key -/

/-- what one operation does to the value stored under key `k` of bucket `b` -/
def Op.actOn (b k : Nat) : Op → Option Nat → Option Nat
  | .put b' k' v, x => if b' = b ∧ k' = k then some v else x
  | .del b' k', x => if b' = b ∧ k' = k then none else x
  | _, x => x

def Op.isWrite : Op → Bool
  | .put .. | .del .. => true
  | _ => false

/-- a list of puts and deletes leaves the durable image and the set of buckets alone and
acts on every stored key as `Op.actOn` says. -/
theorem runInner_spec_writes (ops : List Op) (hw : ∀ op ∈ ops, op.isWrite = true) :
    ∀ t : Spec, (runInner specBackend t ops).durable = t.durable ∧
      ∀ b, ((runInner specBackend t ops).working b).isSome = (t.working b).isSome ∧
        ∀ tm tm', t.working b = some tm → (runInner specBackend t ops).working b = some tm' →
          ∀ k, tm'[k]? = ops.foldl (fun x op => op.actOn b k x) tm[k]? := by
  induction ops with
  | nil =>
    intro t
    refine ⟨rfl, fun b => ⟨rfl, ?_⟩⟩
    intro tm tm' h1 h2 k
    simp only [runInner, List.foldl_nil] at h2 ⊢
    rw [h1] at h2; cases h2; rfl
  | cons op ops ih =>
    intro t
    have hop := hw op (by simp)
    obtain ⟨ihd, ihw⟩ := ih (fun o ho => hw o (by simp [ho])) (specBackend.step t op).1
    simp only [runInner, List.foldl_cons] at ihd ihw ⊢
    cases op with
    | put b0 k0 v0 =>
      cases hb0 : t.working b0 with
      | none =>
        simp only [specBackend, Spec.step, hb0] at ihd ihw ⊢
        refine ⟨ihd, fun b => ⟨(ihw b).1, ?_⟩⟩
        intro tm tm' h1 h2 k
        rw [(ihw b).2 tm tm' h1 h2 k]
        have : ¬ (b0 = b) := by intro e; subst e; simp_all
        simp [Op.actOn, this]
      | some m0 =>
        simp only [specBackend, Spec.step, hb0] at ihd ihw ⊢
        refine ⟨ihd, fun b => ?_⟩
        by_cases hbb : b = b0
        · subst hbb
          have := ihw b
          simp only [upd_same] at this
          refine ⟨by simp [this.1, hb0], ?_⟩
          intro tm tm' h1 h2 k
          rw [hb0] at h1; cases h1
          rw [this.2 _ tm' rfl h2 k]
          congr 1
          simp only [Op.actOn, true_and, ExtTreeMap.getElem?_insert]
          by_cases hk : k0 = k <;> simp [hk]
        · have := ihw b
          simp only [upd_other _ _ _ _ hbb] at this
          refine ⟨this.1, ?_⟩
          intro tm tm' h1 h2 k
          rw [this.2 tm tm' h1 h2 k]
          have : ¬ (b0 = b) := fun e => hbb e.symm
          simp [Op.actOn, this]
    | del b0 k0 =>
      cases hb0 : t.working b0 with
      | none =>
        simp only [specBackend, Spec.step, hb0] at ihd ihw ⊢
        refine ⟨ihd, fun b => ⟨(ihw b).1, ?_⟩⟩
        intro tm tm' h1 h2 k
        rw [(ihw b).2 tm tm' h1 h2 k]
        have : ¬ (b0 = b) := by intro e; subst e; simp_all
        simp [Op.actOn, this]
      | some m0 =>
        simp only [specBackend, Spec.step, hb0] at ihd ihw ⊢
        refine ⟨ihd, fun b => ?_⟩
        by_cases hbb : b = b0
        · subst hbb
          have := ihw b
          simp only [upd_same] at this
          refine ⟨by simp [this.1, hb0], ?_⟩
          intro tm tm' h1 h2 k
          rw [hb0] at h1; cases h1
          rw [this.2 _ tm' rfl h2 k]
          congr 1
          simp only [Op.actOn, true_and, ExtTreeMap.getElem?_erase]
          by_cases hk : k0 = k <;> simp [hk]
        · have := ihw b
          simp only [upd_other _ _ _ _ hbb] at this
          refine ⟨this.1, ?_⟩
          intro tm tm' h1 h2 k
          rw [this.2 tm tm' h1 h2 k]
          have : ¬ (b0 = b) := fun e => hbb e.symm
          simp [Op.actOn, this]
    | _ => simp [Op.isWrite] at hop

/-! ## the key-by-key effect of `CacheDB.flushOps` -/

theorem foldl_actOn_id (b k : Nat) (ops : List Op) (h : ∀ op ∈ ops, ∀ x, op.actOn b k x = x)
    (x : Option Nat) : ops.foldl (fun x op => op.actOn b k x) x = x := by
  induction ops generalizing x with
  | nil => rfl
  | cons op ops ih =>
    simp only [List.foldl_cons]
    rw [h op (by simp)]
    exact ih (fun o ho => h o (by simp [ho])) x

/-- the puts `Flush` sends to the inner bucket `b'` for the pending map `p` (keys pending
as deletes are skipped, `:288-290`) -/
def putOps (b' : Nat) (ds : KSet) (l : List (Nat × Nat)) : List Op :=
  l.filterMap fun (k, v) => if ds.contains k then none else some (Op.put b' k v)

def delOps (b' : Nat) (l : List (Nat × Unit)) : List Op :=
  l.map fun (k, _) => Op.del b' k

theorem flushOps_eq (m : MemDB) (bs : List Nat) :
    CacheDB.flushOps m bs =
      (bs.flatMap fun b => putOps b ((m.dels b).getD ∅) ((m.puts b).getD ∅).toList) ++
      (bs.flatMap fun b => delOps b ((m.dels b).getD ∅).toList) := rfl

theorem putOps_isWrite (b' : Nat) (ds : KSet) (l : List (Nat × Nat)) :
    ∀ op ∈ putOps b' ds l, op.isWrite = true := by
  intro op hop
  simp only [putOps, List.mem_filterMap] at hop
  obtain ⟨⟨k, v⟩, _, h⟩ := hop
  split at h <;> simp at h
  subst h; rfl

theorem delOps_isWrite (b' : Nat) (l : List (Nat × Unit)) :
    ∀ op ∈ delOps b' l, op.isWrite = true := by
  intro op hop
  simp only [delOps, List.mem_map] at hop
  obtain ⟨⟨k, v⟩, _, h⟩ := hop
  subst h; rfl

theorem flushOps_isWrite (m : MemDB) (bs : List Nat) :
    ∀ op ∈ CacheDB.flushOps m bs, op.isWrite = true := by
  intro op hop
  rw [flushOps_eq, List.mem_append, List.mem_flatMap, List.mem_flatMap] at hop
  rcases hop with ⟨b, _, h⟩ | ⟨b, _, h⟩
  · exact putOps_isWrite _ _ _ op h
  · exact delOps_isWrite _ _ op h

theorem foldl_putOps_other (b b' k : Nat) (ds : KSet) (l : List (Nat × Nat))
    (h : b' ≠ b ∨ ds.contains k = true ∨ ∀ kv ∈ l, kv.1 ≠ k) (x : Option Nat) :
    (putOps b' ds l).foldl (fun x op => op.actOn b k x) x = x := by
  apply foldl_actOn_id
  intro op hop y
  simp only [putOps, List.mem_filterMap] at hop
  obtain ⟨⟨k', v'⟩, hmem, hh⟩ := hop
  split at hh <;> simp at hh
  subst hh
  simp only [Op.actOn]
  rcases h with h | h | h
  · simp [h]
  · have : ¬ k' = k := by intro e; subst e; simp_all
    simp [this]
  · have := h _ hmem
    simp_all

theorem foldl_putOps_mem (b k v : Nat) (ds : KSet) (l : List (Nat × Nat))
    (hd : l.Pairwise (fun a c => a.1 ≠ c.1)) (hm : (k, v) ∈ l) (hds : ds.contains k = false)
    (x : Option Nat) :
    (putOps b ds l).foldl (fun x op => op.actOn b k x) x = some v := by
  induction l generalizing x with
  | nil => simp at hm
  | cons a l ih =>
    obtain ⟨k0, v0⟩ := a
    rw [List.pairwise_cons] at hd
    have hcons : putOps b ds ((k0, v0) :: l) =
        (if ds.contains k0 then [] else [Op.put b k0 v0]) ++ putOps b ds l := by
      simp only [putOps, List.filterMap_cons]
      split <;> simp_all
    rw [hcons, List.foldl_append]
    rcases List.mem_cons.mp hm with h | h
    · cases h
      simp only [hds, Bool.false_eq_true, if_false, List.foldl_cons, List.foldl_nil, Op.actOn,
        and_self, if_true]
      exact foldl_putOps_other b b k ds l (Or.inr (Or.inr (fun kv hkv e => hd.1 kv hkv e.symm))) _
    · exact ih hd.2 h _

theorem foldl_delOps_other (b b' k : Nat) (l : List (Nat × Unit))
    (h : b' ≠ b ∨ ∀ kv ∈ l, kv.1 ≠ k) (x : Option Nat) :
    (delOps b' l).foldl (fun x op => op.actOn b k x) x = x := by
  apply foldl_actOn_id
  intro op hop y
  simp only [delOps, List.mem_map] at hop
  obtain ⟨⟨k', v'⟩, hmem, hh⟩ := hop
  subst hh
  simp only [Op.actOn]
  rcases h with h | h
  · simp [h]
  · have := h _ hmem
    simp_all

theorem foldl_delOps_none (b b' k : Nat) (l : List (Nat × Unit)) :
    (delOps b' l).foldl (fun x op => op.actOn b k x) none = none := by
  induction l with
  | nil => rfl
  | cons a l ih =>
    simp only [delOps, List.map_cons, List.foldl_cons, Op.actOn, ite_self] at ih ⊢
    exact ih

theorem foldl_delOps_mem (b k : Nat) (l : List (Nat × Unit)) (hm : (k, ()) ∈ l)
    (x : Option Nat) : (delOps b l).foldl (fun x op => op.actOn b k x) x = none := by
  induction l generalizing x with
  | nil => simp at hm
  | cons a l ih =>
    rcases List.mem_cons.mp hm with h | h
    · subst h
      have := foldl_delOps_none b b k l
      simp only [delOps, List.map_cons, List.foldl_cons, Op.actOn, and_self, if_true] at this ⊢
      exact this
    · have := ih h
      simp only [delOps, List.map_cons, List.foldl_cons] at this ⊢
      exact this _

/-- a fold over bucket names where only the name `b` matters and its effect is to
overwrite with `V` when `C` holds -/
theorem foldl_buckets {α} (F : Nat → α → α) (b : Nat) (C : Prop) [Decidable C] (V : α)
    (hother : ∀ b', b' ≠ b → ∀ x, F b' x = x) (hb : ∀ x, F b x = if C then V else x)
    (bs : List Nat) (x : α) :
    bs.foldl (fun x b' => F b' x) x = if b ∈ bs ∧ C then V else x := by
  induction bs generalizing x with
  | nil => simp
  | cons b0 bs ih =>
    simp only [List.foldl_cons, ih, List.mem_cons]
    by_cases hb0 : b0 = b
    · subst hb0; rw [hb]; by_cases hC : C <;> simp [hC]
    · rw [hother b0 hb0]
      have : ¬ b = b0 := fun e => hb0 e.symm
      simp [this]

theorem kmap_distinct {β} (p : ExtTreeMap Nat β) : p.toList.Pairwise (fun a c => a.1 ≠ c.1) := by
  have := ExtTreeMap.distinct_keys_toList (t := p)
  refine this.imp ?_
  intro a c h e
  exact h (Nat.compare_eq_eq.mpr e)

/-- **key-by-key effect of `Flush`'s writes** on the value stored under `(b, k)`: deleted if
pending as a delete, else overwritten if pending as a put, else untouched — for any list of
bucket names (any order, duplicates allowed). -/
theorem foldl_actOn_flushOps (m : MemDB) (bs : List Nat) (b k : Nat) (x : Option Nat) :
    (CacheDB.flushOps m bs).foldl (fun x op => op.actOn b k x) x =
      if b ∈ bs ∧ k ∈ (m.dels b).getD ∅ then none
      else if b ∈ bs ∧ (k ∈ (m.puts b).getD ∅ ∧ k ∉ (m.dels b).getD ∅) then ((m.puts b).getD ∅)[k]?
      else x := by
  rw [flushOps_eq, List.foldl_append, List.foldl_flatMap, List.foldl_flatMap]
  have hputs := foldl_buckets
    (fun b' x => (putOps b' ((m.dels b').getD ∅) ((m.puts b').getD ∅).toList).foldl
      (fun x op => op.actOn b k x) x) b
    (k ∈ (m.puts b).getD ∅ ∧ k ∉ (m.dels b).getD ∅) (((m.puts b).getD ∅)[k]?)
    (fun b' hb' x => foldl_putOps_other b b' k _ _ (Or.inl hb') x)
    (by
      intro x
      by_cases hk : k ∈ (m.puts b).getD ∅ ∧ k ∉ (m.dels b).getD ∅
      · rw [if_pos hk]
        obtain ⟨v, hv⟩ := Option.isSome_iff_exists.mp (ExtTreeMap.mem_iff_isSome_getElem?.mp hk.1)
        rw [hv]
        apply foldl_putOps_mem b k v _ _ (kmap_distinct _)
          (ExtTreeMap.mem_toList_iff_getElem?_eq_some.mpr hv)
        simpa [← ExtTreeMap.contains_iff_mem] using hk.2
      · rw [if_neg hk]
        apply foldl_putOps_other
        right
        by_cases h1 : k ∈ (m.puts b).getD ∅
        · left
          have : k ∈ (m.dels b).getD ∅ := by
            apply Classical.byContradiction; intro h2; exact hk ⟨h1, h2⟩
          exact ExtTreeMap.contains_iff_mem.mpr this
        · right
          intro kv hkv e
          apply h1
          obtain ⟨k', v'⟩ := kv
          simp only at e; subst e
          rw [ExtTreeMap.mem_iff_isSome_getElem?,
            ExtTreeMap.mem_toList_iff_getElem?_eq_some.mp hkv]
          rfl)
  have hdels := foldl_buckets
    (fun b' x => (delOps b' ((m.dels b').getD ∅).toList).foldl
      (fun x op => op.actOn b k x) x) b
    (k ∈ (m.dels b).getD ∅) none
    (fun b' hb' x => foldl_delOps_other b b' k _ (Or.inl hb') x)
    (by
      intro x
      by_cases hk : k ∈ (m.dels b).getD ∅
      · rw [if_pos hk]
        apply foldl_delOps_mem
        rw [ExtTreeMap.mem_toList_iff_getElem?_eq_some]
        obtain ⟨v, hv⟩ := Option.isSome_iff_exists.mp (ExtTreeMap.mem_iff_isSome_getElem?.mp hk)
        rw [hv]
      · rw [if_neg hk]
        apply foldl_delOps_other
        right
        intro kv hkv e
        apply hk
        obtain ⟨k', v'⟩ := kv
        simp only at e; subst e
        rw [ExtTreeMap.mem_iff_isSome_getElem?,
          ExtTreeMap.mem_toList_iff_getElem?_eq_some.mp hkv]
        rfl)
  rw [hputs, hdels]

/-! ## the refinement relation for `CacheDB` -/

/-- a bucket of the inner backend seen through the overlay: pending deletes hide inner
pairs, pending puts are added / override -/
def overlay (tm p : KMap) (ds : KSet) : KMap := (tm.filter fun k _ => !ds.contains k) ∪ p

theorem getElem?_overlay (tm p : KMap) (ds : KSet) (k : Nat) :
    (overlay tm p ds)[k]? = (p[k]?).or (if ds.contains k then none else tm[k]?) := by
  simp only [overlay, ExtTreeMap.getElem?_union, ExtTreeMap.getElem?_filter']
  cases tm[k]? <;> cases p[k]? <;> cases ds.contains k <;> simp

theorem overlay_empty (tm : KMap) : overlay tm ∅ ∅ = tm := by
  apply ExtTreeMap.ext_getElem?
  intro k
  simp [getElem?_overlay]

/-- `RcW Ri c s t`: the CacheDB state `c` represents the spec state `s`, the inner backend
being in a state that represents the inner spec state `t`. -/
structure RcW {σ} (Ri : σ → Spec → Prop) (c : CacheDB σ) (s t : Spec) : Prop where
  inner : Ri c.inner t
  /-- the overlay MemDB is never flushed: it has no committed buckets -/
  nobk : ∀ b, c.mem.buckets b = none
  wf : c.mem.WF
  /-- an overlay bucket always has both pending maps -/
  both : ∀ b, c.mem.has b = true → (c.mem.puts b).isSome = true ∧ (c.mem.dels b).isSome = true
  /-- an overlay bucket exists only for a bucket of the inner backend -/
  sub : ∀ b, c.mem.has b = true → (t.working b).isSome = true
  dur : s.durable = t.durable
  work : ∀ b, s.working b =
    (t.working b).map fun tm => overlay tm ((c.mem.puts b).getD ∅) ((c.mem.dels b).getD ∅)

/-- the refinement relation between a `CacheDB` over a backend related to `Spec` by `Ri`
and the outer `Spec` state -/
def Rc {σ} (Ri : σ → Spec → Prop) (c : CacheDB σ) (s : Spec) : Prop := ∃ t, RcW Ri c s t

theorem Rc_init {σ} (Ri : σ → Spec → Prop) (x : σ) (h : Ri x Spec.init) :
    Rc Ri ⟨MemDB.init, x⟩ Spec.init := by
  refine ⟨Spec.init, ?_⟩
  constructor <;> simp_all [MemDB.init, Spec.init, MemDB.has]
  constructor; simp

theorem ensure_spec {σ} {Ri : σ → Spec → Prop} (c : CacheDB σ) (s t : Spec) (h : RcW Ri c s t)
    (b : Nat) (hb : (t.working b).isSome = true) :
    RcW Ri (c.ensure b) s t ∧ (c.ensure b).inner = c.inner ∧
    ∃ p ds, (c.ensure b).mem.puts b = some p ∧ (c.ensure b).mem.dels b = some ds ∧
      p = (c.mem.puts b).getD ∅ ∧ ds = (c.mem.dels b).getD ∅ := by
  by_cases hh : c.mem.has b = true
  · have := h.both b hh
    simp only [CacheDB.ensure, hh, if_true]
    refine ⟨h, trivial, ?_⟩
    obtain ⟨p, hp⟩ := Option.isSome_iff_exists.mp this.1
    obtain ⟨ds, hds⟩ := Option.isSome_iff_exists.mp this.2
    exact ⟨p, ds, hp, hds, by simp [hp], by simp [hds]⟩
  · have hh' : c.mem.has b = false := by simpa using hh
    simp only [CacheDB.ensure, MemDB.create, hh', Bool.false_eq_true, if_false]
    simp only [MemDB.has, Bool.or_eq_false_iff, Option.isSome_eq_false_iff,
      Option.isNone_iff_eq_none] at hh'
    obtain ⟨⟨_, hp⟩, hd⟩ := hh'
    refine ⟨?_, trivial, ∅, ∅, by simp, by simp, by simp [hp], by simp [hd]⟩
    constructor
    · exact h.inner
    · exact h.nobk
    · constructor
      intro b' p ds hp' hds' k hk
      by_cases hbb : b' = b
      · subst hbb; simp_all
      · exact h.wf.disj b' p ds (by simpa [hbb] using hp') (by simpa [hbb] using hds') k hk
    · intro b'
      by_cases hbb : b' = b
      · subst hbb; simp
      · have := h.both b'; simp_all [MemDB.has]
    · intro b'
      by_cases hbb : b' = b
      · subst hbb; intro _; exact hb
      · have := h.sub b'; simp_all [MemDB.has]
    · exact h.dur
    · intro b'
      by_cases hbb : b' = b
      · subst hbb; simp [h.work, hp, hd]
      · simp [h.work, hbb]

theorem cachedb_get {σ} {B : Backend σ} {Ri : σ → Spec → Prop} (hB : Refines B Ri)
    (c : CacheDB σ) (s t : Spec) (h : RcW Ri c s t) (names : List Nat) (b k : Nat) :
    (CacheDB.step B names c (.get b k)).2 = (s.step (.get b k)).2 ∧
      ∃ t', RcW Ri (CacheDB.step B names c (.get b k)).1 (s.step (.get b k)).1 t' := by
  have hih := innerHas_eq hB c.inner t h.inner b
  have hw := h.work b
  simp only [CacheDB.step, Spec.step, hih]
  cases htw : t.working b with
  | none =>
    rw [htw] at hw
    simp only [Option.map_none] at hw
    simp only [hw, Option.isSome_none, Bool.not_false, if_true, true_and]
    exact ⟨t, h⟩
  | some tm =>
    obtain ⟨h1, hin, p, ds, hp, hds, hpe, hde⟩ := ensure_spec c s t h b (by simp [htw])
    rw [htw] at hw
    simp only [Option.map_some] at hw
    have hg := innerGet_eq hB c.inner t h.inner b k
    rw [htw] at hg
    simp only [hw, Option.isSome_some, Bool.not_true, Bool.false_eq_true, if_false, hin, hg,
      MemDB.get, hp, hds, h1.nobk b, ← hpe, ← hde]
    rw [getElem?_overlay]
    simp only [Option.bind_some, Option.bind_none, Option.map_some, Option.getD_some]
    cases hpk : p[k]? <;> cases hdk : ds.contains k <;> simp <;> exact ⟨t, h1⟩

theorem cachedb_iter {σ} {B : Backend σ} {Ri : σ → Spec → Prop} (hB : Refines B Ri)
    (c : CacheDB σ) (s t : Spec) (h : RcW Ri c s t) (names : List Nat) (b : Nat) :
    (CacheDB.step B names c (.iter b)).2 = (s.step (.iter b)).2 ∧
      ∃ t', RcW Ri (CacheDB.step B names c (.iter b)).1 (s.step (.iter b)).1 t' := by
  have hih := innerHas_eq hB c.inner t h.inner b
  have hw := h.work b
  simp only [CacheDB.step, Spec.step, hih]
  cases htw : t.working b with
  | none =>
    rw [htw] at hw
    simp only [Option.map_none] at hw
    simp only [hw, Option.isSome_none, Bool.not_false, if_true, true_and]
    exact ⟨t, h⟩
  | some tm =>
    obtain ⟨h1, hin, p, ds, hp, hds, hpe, hde⟩ := ensure_spec c s t h b (by simp [htw])
    rw [htw] at hw
    simp only [Option.map_some] at hw
    have hg := innerIter_eq hB c.inner t h.inner b
    rw [htw] at hg
    simp only [hw, Option.isSome_some, Bool.not_true, Bool.false_eq_true, if_false, hin, hg,
      MemDB.iterMap, hp, hds, h1.nobk b, ← hpe, ← hde, Option.getD_some, Option.getD_none]
    refine ⟨?_, t, h1⟩
    congr 1
    apply ExtTreeMap.ext_getElem?
    intro k
    rw [getElem?_overlay]
    simp only [ExtTreeMap.getElem?_union, ExtTreeMap.getElem?_filter', ExtTreeMap.getElem?_empty,
      ExtTreeMap.contains_eq_isSome_getElem?]
    cases hpk : p[k]? <;> cases hdk : ds[k]? <;> cases tm[k]? <;> simp

theorem cachedb_put {σ} {B : Backend σ} {Ri : σ → Spec → Prop} (hB : Refines B Ri)
    (c : CacheDB σ) (s t : Spec) (h : RcW Ri c s t) (names : List Nat) (b k v : Nat) :
    (CacheDB.step B names c (.put b k v)).2 = (s.step (.put b k v)).2 ∧
      ∃ t', RcW Ri (CacheDB.step B names c (.put b k v)).1 (s.step (.put b k v)).1 t' := by
  have hih := innerHas_eq hB c.inner t h.inner b
  have hw := h.work b
  simp only [CacheDB.step, Spec.step, hih]
  cases htw : t.working b with
  | none =>
    rw [htw] at hw
    simp only [Option.map_none] at hw
    simp only [hw, Option.isSome_none, Bool.not_false, if_true, true_and]
    exact ⟨t, h⟩
  | some tm =>
    obtain ⟨h1, hin, p, ds, hp, hds, hpe, hde⟩ := ensure_spec c s t h b (by simp [htw])
    rw [htw] at hw
    simp only [Option.map_some] at hw
    simp only [hw, Option.isSome_some, Bool.not_true, Bool.false_eq_true, if_false,
      MemDB.put, hp, hds, true_and]
    refine ⟨t, ?_⟩
    rw [← hpe, ← hde] at hw
    constructor
    · exact h1.inner
    · exact h1.nobk
    · constructor
      intro b' p' ds' hp' hds' k' hk1 hk2
      by_cases hbb : b' = b
      · subst hbb
        simp only [upd_same, Option.some.injEq] at hp' hds'
        subst hp' hds'
        have := h1.wf.disj b' p ds hp hds k'
        simp_all
      · exact h1.wf.disj b' p' ds' (by simpa [hbb] using hp') (by simpa [hbb] using hds') k' hk1 hk2
    · intro b'
      by_cases hbb : b' = b
      · subst hbb; simp
      · have := h1.both b'; simp_all [MemDB.has]
    · intro b'
      by_cases hbb : b' = b
      · subst hbb; intro _; simp [htw]
      · have := h1.sub b'; simp_all [MemDB.has]
    · exact h1.dur
    · intro b'
      by_cases hbb : b' = b
      · subst hbb
        simp only [upd_same, htw, Option.map_some, Option.getD_some, Option.some.injEq]
        apply ExtTreeMap.ext_getElem?
        intro k'
        simp only [getElem?_overlay, ExtTreeMap.getElem?_insert, ExtTreeMap.contains_erase,
          Nat.compare_eq_eq]
        by_cases hkk : k = k' <;> simp [hkk, ← hpe, ← hde]
      · simp [hbb, h1.work b']

theorem cachedb_del {σ} {B : Backend σ} {Ri : σ → Spec → Prop} (hB : Refines B Ri)
    (c : CacheDB σ) (s t : Spec) (h : RcW Ri c s t) (names : List Nat) (b k : Nat) :
    (CacheDB.step B names c (.del b k)).2 = (s.step (.del b k)).2 ∧
      ∃ t', RcW Ri (CacheDB.step B names c (.del b k)).1 (s.step (.del b k)).1 t' := by
  have hih := innerHas_eq hB c.inner t h.inner b
  have hw := h.work b
  simp only [CacheDB.step, Spec.step, hih]
  cases htw : t.working b with
  | none =>
    rw [htw] at hw
    simp only [Option.map_none] at hw
    simp only [hw, Option.isSome_none, Bool.not_false, if_true, true_and]
    exact ⟨t, h⟩
  | some tm =>
    obtain ⟨h1, hin, p, ds, hp, hds, hpe, hde⟩ := ensure_spec c s t h b (by simp [htw])
    rw [htw] at hw
    simp only [Option.map_some] at hw
    simp only [hw, Option.isSome_some, Bool.not_true, Bool.false_eq_true, if_false,
      MemDB.delete, hp, hds, true_and]
    refine ⟨t, ?_⟩
    rw [← hpe, ← hde] at hw
    constructor
    · exact h1.inner
    · exact h1.nobk
    · constructor
      intro b' p' ds' hp' hds' k' hk1 hk2
      by_cases hbb : b' = b
      · subst hbb
        simp only [upd_same, Option.some.injEq] at hp' hds'
        subst hp' hds'
        have := h1.wf.disj b' p ds hp hds k'
        simp_all
      · exact h1.wf.disj b' p' ds' (by simpa [hbb] using hp') (by simpa [hbb] using hds') k' hk1 hk2
    · intro b'
      by_cases hbb : b' = b
      · subst hbb; simp
      · have := h1.both b'; simp_all [MemDB.has]
    · intro b'
      by_cases hbb : b' = b
      · subst hbb; intro _; simp [htw]
      · have := h1.sub b'; simp_all [MemDB.has]
    · exact h1.dur
    · intro b'
      by_cases hbb : b' = b
      · subst hbb
        simp only [upd_same, htw, Option.map_some, Option.getD_some, Option.some.injEq]
        apply ExtTreeMap.ext_getElem?
        intro k'
        simp only [getElem?_overlay, ExtTreeMap.getElem?_erase, ExtTreeMap.contains_insert,
          Nat.compare_eq_eq]
        by_cases hkk : k = k' <;> simp [hkk, ← hpe, ← hde]
      · simp [hbb, h1.work b']

theorem cachedb_create {σ} {B : Backend σ} {Ri : σ → Spec → Prop} (hB : Refines B Ri)
    (c : CacheDB σ) (s t : Spec) (h : RcW Ri c s t) (names : List Nat) (b : Nat) :
    (CacheDB.step B names c (.create b)).2 = (s.step (.create b)).2 ∧
      ∃ t', RcW Ri (CacheDB.step B names c (.create b)).1 (s.step (.create b)).1 t' := by
  have hst := hB.step c.inner t h.inner (.create b)
  have hw := h.work b
  simp only [CacheDB.step, Spec.step]
  rcases hbs : B.step c.inner (.create b) with ⟨x', o⟩
  rw [hbs] at hst
  cases htw : t.working b with
  | some tm =>
    simp only [Spec.step, htw] at hst
    obtain ⟨ho, hr⟩ := hst
    subst ho
    rw [htw] at hw
    simp only [Option.map_some] at hw
    simp only [hw, true_and]
    exact ⟨t, ⟨hr, h.nobk, h.wf, h.both, h.sub, h.dur, h.work⟩⟩
  | none =>
    simp only [Spec.step, htw] at hst
    obtain ⟨ho, hr⟩ := hst
    subst ho
    rw [htw] at hw
    simp only [Option.map_none] at hw
    have hh : c.mem.has b = false := by
      cases hc : c.mem.has b with
      | false => rfl
      | true => have := h.sub b hc; simp [htw] at this
    simp only [hw, MemDB.create, hh, Bool.false_eq_true, if_false, true_and]
    simp only [MemDB.has, Bool.or_eq_false_iff, Option.isSome_eq_false_iff,
      Option.isNone_iff_eq_none] at hh
    obtain ⟨⟨_, hp⟩, hd⟩ := hh
    refine ⟨{ working := upd t.working b (some ∅), durable := t.durable }, ?_⟩
    constructor
    · exact hr
    · exact h.nobk
    · constructor
      intro b' p ds hp' hds' k hk
      by_cases hbb : b' = b
      · subst hbb; simp_all
      · exact h.wf.disj b' p ds (by simpa [hbb] using hp') (by simpa [hbb] using hds') k hk
    · intro b'
      by_cases hbb : b' = b
      · subst hbb; simp
      · have := h.both b'; simp_all [MemDB.has]
    · intro b'
      by_cases hbb : b' = b
      · subst hbb; intro _; simp
      · have := h.sub b'; simp_all [MemDB.has]
    · exact h.dur
    · intro b'
      by_cases hbb : b' = b
      · subst hbb; simp [overlay_empty]
      · simp [hbb, h.work b']

theorem cachedb_cancel {σ} {B : Backend σ} {Ri : σ → Spec → Prop} (hB : Refines B Ri)
    (c : CacheDB σ) (s t : Spec) (h : RcW Ri c s t) (names : List Nat) :
    (CacheDB.step B names c .cancel).2 = (s.step .cancel).2 ∧
      ∃ t', RcW Ri (CacheDB.step B names c .cancel).1 (s.step .cancel).1 t' := by
  have hst := hB.step c.inner t h.inner .cancel
  simp only [CacheDB.step, Spec.step, MemDB.cancel, true_and] at hst ⊢
  refine ⟨{ working := t.durable, durable := t.durable }, ?_⟩
  constructor
  · exact hst.2
  · exact h.nobk
  · constructor; simp
  · intro b; simp [MemDB.has, h.nobk b]
  · intro b; simp [MemDB.has, h.nobk b]
  · exact h.dur
  · intro b
    simp only [Option.getD_none, overlay_empty, h.dur]
    cases t.durable b <;> rfl

/-- what `Flush`'s writes do to the inner spec state: its working image becomes the outer
working image (the durable image is untouched). -/
theorem flush_writes_spec {σ} {Ri : σ → Spec → Prop} (c : CacheDB σ) (s t : Spec)
    (h : RcW Ri c s t) (names : List Nat) (hn : ∀ b, c.mem.has b = true → b ∈ names) :
    (runInner specBackend t (CacheDB.flushOps c.mem names)).durable = t.durable ∧
    ∀ b, (runInner specBackend t (CacheDB.flushOps c.mem names)).working b = s.working b := by
  obtain ⟨hd, hwk⟩ := runInner_spec_writes _ (flushOps_isWrite c.mem names) t
  refine ⟨hd, fun b => ?_⟩
  obtain ⟨hs, hk⟩ := hwk b
  rw [h.work b]
  cases htw : t.working b with
  | none =>
    rw [htw] at hs
    simpa using hs
  | some tm =>
    rw [htw] at hs
    obtain ⟨tm1, htm1⟩ := Option.isSome_iff_exists.mp (hs.trans rfl)
    rw [htm1, Option.map_some]
    congr 1
    apply ExtTreeMap.ext_getElem?
    intro k
    rw [hk tm tm1 htw htm1 k, foldl_actOn_flushOps, getElem?_overlay]
    have hP : k ∈ (c.mem.puts b).getD ∅ → b ∈ names := by
      intro hk
      apply hn
      cases hp : c.mem.puts b with
      | none => simp [hp] at hk
      | some p => simp [MemDB.has, hp]
    have hD : k ∈ (c.mem.dels b).getD ∅ → b ∈ names := by
      intro hk
      apply hn
      cases hp : c.mem.dels b with
      | none => simp [hp] at hk
      | some p => simp [MemDB.has, hp]
    have hPD : k ∈ (c.mem.puts b).getD ∅ → k ∈ (c.mem.dels b).getD ∅ → False := by
      intro h1 h2
      cases hp : c.mem.puts b with
      | none => simp [hp] at h1
      | some p =>
        cases hds : c.mem.dels b with
        | none => simp [hds] at h2
        | some ds =>
          rw [hp] at h1; rw [hds] at h2
          exact h.wf.disj b p ds hp hds k h1 h2
    generalize (c.mem.puts b).getD ∅ = P at *
    generalize (c.mem.dels b).getD ∅ = D at *
    rw [ExtTreeMap.contains_eq_isSome_getElem?]
    rw [ExtTreeMap.mem_iff_isSome_getElem?] at hP hD hPD
    rw [ExtTreeMap.mem_iff_isSome_getElem?] at hPD
    simp only [ExtTreeMap.mem_iff_isSome_getElem?]
    cases hpk : P[k]? <;> cases hdk : D[k]? <;> simp_all

theorem cachedb_flush {σ} {B : Backend σ} {Ri : σ → Spec → Prop} (hB : Refines B Ri)
    (c : CacheDB σ) (s t : Spec) (h : RcW Ri c s t) (names : List Nat)
    (hn : ∀ b, c.mem.has b = true → b ∈ names) :
    (CacheDB.step B names c .flush).2 = (s.step .flush).2 ∧
      ∃ t', RcW Ri (CacheDB.step B names c .flush).1 (s.step .flush).1 t' := by
  have hr1 := runInner_refines hB (CacheDB.flushOps c.mem names) c.inner t h.inner
  have hst := (hB.step _ _ hr1 .flush).2
  obtain ⟨hd, hwk⟩ := flush_writes_spec c s t h names hn
  have hwk' : (runInner specBackend t (CacheDB.flushOps c.mem names)).working = s.working :=
    funext hwk
  simp only [CacheDB.step, Spec.step, true_and] at hst ⊢
  refine ⟨_, ⟨hst, ?_, ?_, ?_, ?_, ?_, ?_⟩⟩
  · intro b; simp [MemDB.cleared, h.nobk b]
  · constructor
    intro b p ds hp hds k hk
    simp only [MemDB.cleared, Option.map_eq_some_iff] at hp
    obtain ⟨_, _, rfl⟩ := hp
    simp at hk
  · intro b hb
    have : c.mem.has b = true := by simpa [MemDB.has, MemDB.cleared] using hb
    simpa [MemDB.cleared] using h.both b this
  · intro b hb
    have : c.mem.has b = true := by simpa [MemDB.has, MemDB.cleared] using hb
    simp only [hwk', h.work b, Option.isSome_map]
    exact h.sub b this
  · simp only [hwk']
  · intro b
    have hP : ((c.mem.cleared.puts b).getD ∅) = ∅ := by
      simp only [MemDB.cleared]; cases c.mem.puts b <;> rfl
    have hD : ((c.mem.cleared.dels b).getD ∅) = ∅ := by
      simp only [MemDB.cleared]; cases c.mem.dels b <;> rfl
    simp only [hP, hD, overlay_empty, hwk']
    cases s.working b <;> rfl

/-- **CacheDB over any backend that refines `Spec` refines `Spec`** (one step).  `names` is
the list of bucket names `Flush` ranges over: any list (any order, duplicates allowed)
that contains every bucket the overlay has. -/
theorem cachedb_step_refines {σ} {B : Backend σ} {Ri : σ → Spec → Prop} (hB : Refines B Ri)
    (c : CacheDB σ) (s : Spec) (h : Rc Ri c s) (names : List Nat)
    (hn : ∀ b, c.mem.has b = true → b ∈ names) (op : Op) :
    (CacheDB.step B names c op).2 = (s.step op).2 ∧
      Rc Ri (CacheDB.step B names c op).1 (s.step op).1 := by
  obtain ⟨t, ht⟩ := h
  cases op with
  | create b => exact cachedb_create hB c s t ht names b
  | put b k v => exact cachedb_put hB c s t ht names b k v
  | del b k => exact cachedb_del hB c s t ht names b k
  | get b k => exact cachedb_get hB c s t ht names b k
  | iter b => exact cachedb_iter hB c s t ht names b
  | flush => exact cachedb_flush hB c s t ht names hn
  | cancel => exact cachedb_cancel hB c s t ht names

theorem create_has (m m' : MemDB) (b0 b : Nat) (h : m.create b0 = some m') (hne : b ≠ b0) :
    m'.has b = m.has b := by
  simp only [MemDB.create] at h
  split at h <;> simp at h
  subst h
  simp [MemDB.has, hne]

theorem put_has (m m' : MemDB) (b0 k v b : Nat) (h : m.put b0 k v = some m') (hne : b ≠ b0) :
    m'.has b = m.has b := by
  simp only [MemDB.put] at h
  split at h <;> simp at h
  subst h
  cases m.dels b0 <;> simp [MemDB.has, hne]

theorem delete_has (m m' : MemDB) (b0 k b : Nat) (h : m.delete b0 k = some m') (hne : b ≠ b0) :
    m'.has b = m.has b := by
  simp only [MemDB.delete] at h
  split at h <;> simp at h
  subst h
  cases m.puts b0 <;> simp [MemDB.has, hne]

theorem ensure_has {σ} (c : CacheDB σ) (b0 b : Nat) (hne : b ≠ b0) :
    (c.ensure b0).mem.has b = c.mem.has b := by
  simp only [CacheDB.ensure]
  split
  · rfl
  · split
    · next m hm => exact create_has _ _ _ _ hm hne
    · rfl

/-- a step can give the overlay a bucket only for the name the operation mentions -/
theorem cachedb_step_has {σ} (B : Backend σ) (names : List Nat) (c : CacheDB σ) (op : Op)
    (b : Nat) (hb : (CacheDB.step B names c op).1.mem.has b = true) :
    c.mem.has b = true ∨ op.bucket? = some b := by
  cases op with
  | create b0 =>
    by_cases hne : b = b0
    · right; simp [Op.bucket?, hne]
    · left
      simp only [CacheDB.step] at hb
      split at hb
      · split at hb
        · exact hb
        · next m hm => rw [← create_has _ _ _ _ hm hne]; exact hb
      · exact hb
  | put b0 k v =>
    by_cases hne : b = b0
    · right; simp [Op.bucket?, hne]
    · left
      simp only [CacheDB.step] at hb
      split at hb
      · exact hb
      · split at hb
        · rw [← ensure_has c b0 b hne]; exact hb
        · next m hm => rw [← ensure_has c b0 b hne, ← put_has _ _ _ _ _ _ hm hne]; exact hb
  | del b0 k =>
    by_cases hne : b = b0
    · right; simp [Op.bucket?, hne]
    · left
      simp only [CacheDB.step] at hb
      split at hb
      · exact hb
      · split at hb
        · rw [← ensure_has c b0 b hne]; exact hb
        · next m hm => rw [← ensure_has c b0 b hne, ← delete_has _ _ _ _ _ hm hne]; exact hb
  | get b0 k =>
    by_cases hne : b = b0
    · right; simp [Op.bucket?, hne]
    · left
      rw [← ensure_has c b0 b hne]
      simp only [CacheDB.step] at hb
      split at hb
      · rw [ensure_has c b0 b hne]; exact hb
      · split at hb
        · exact hb
        · split at hb <;> exact hb
  | iter b0 =>
    by_cases hne : b = b0
    · right; simp [Op.bucket?, hne]
    · left
      rw [← ensure_has c b0 b hne]
      simp only [CacheDB.step] at hb
      split at hb
      · rw [ensure_has c b0 b hne]; exact hb
      · exact hb
  | flush =>
    left
    simpa [CacheDB.step, MemDB.has, MemDB.cleared] using hb
  | cancel =>
    left
    simp only [CacheDB.step, MemDB.has, MemDB.cancel] at hb
    simp [MemDB.has]
    simp at hb
    exact Or.inl (Or.inl hb)

/-! ## with the name bookkeeping of the driver: `CacheDB` is again a refining backend -/

theorem mem_addName_of_mem (names : List Nat) (op : Op) (b : Nat) (h : b ∈ names) :
    b ∈ addName names op := by
  simp only [addName]
  split
  · split <;> simp [h]
  · exact h

theorem mem_addName_of_bucket (names : List Nat) (op : Op) (b : Nat) (h : op.bucket? = some b) :
    b ∈ addName names op := by
  simp only [addName, h]
  split
  · next hc => simpa using hc
  · simp

/-- the bookkeeping never produces duplicates -/
theorem addName_nodup (names : List Nat) (op : Op) (h : names.Nodup) : (addName names op).Nodup := by
  simp only [addName]
  split
  · split
    · exact h
    · next hc => exact List.nodup_cons.mpr ⟨by simpa using hc, h⟩
  · exact h

/-- relation for a `CacheDB` together with the list of names seen so far -/
def RcN {σ} (Ri : σ → Spec → Prop) (cn : CacheDB σ × List Nat) (s : Spec) : Prop :=
  Rc Ri cn.1 s ∧ (∀ b, cn.1.mem.has b = true → b ∈ cn.2) ∧ cn.2.Nodup

theorem RcN_init {σ} (Ri : σ → Spec → Prop) (x : σ) (h : Ri x Spec.init) :
    RcN Ri (⟨MemDB.init, x⟩, []) Spec.init :=
  ⟨Rc_init Ri x h, by simp [MemDB.init, MemDB.has], List.nodup_nil⟩

/-- **compositional form**: if `B` refines `Spec` then so does `CacheDB` over `B`. -/
theorem refines_cache {σ} {B : Backend σ} {Ri : σ → Spec → Prop} (hB : Refines B Ri) :
    Refines (cacheBackend B) (RcN Ri) := by
  constructor
  intro cn s h op
  obtain ⟨hrc, hn, hnd⟩ := h
  have hn' : ∀ b, cn.1.mem.has b = true → b ∈ addName cn.2 op :=
    fun b hb => mem_addName_of_mem _ _ _ (hn b hb)
  have := cachedb_step_refines hB cn.1 s hrc (addName cn.2 op) hn' op
  refine ⟨this.1, this.2, ?_, addName_nodup _ _ hnd⟩
  intro b hb
  rcases cachedb_step_has B (addName cn.2 op) cn.1 op b hb with h1 | h1
  · exact hn' b h1
  · exact mem_addName_of_bucket _ _ _ h1

end Verif.KV
