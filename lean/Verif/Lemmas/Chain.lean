/-
Helper lemmas for M2 (chain manager): parent chains, the correctness of the two-pointer
`reorgPath`, the invariants of `revertTip` / `applyTip` / `reorgTo`.
-/
import Verif.Model.Chain

namespace Verif.Chain

def par (U : Nat → Blk) (i : Nat) : Nat := (U i).parent

/-- `anc U k i` is the `k`-th ancestor of `i` -/
def anc (U : Nat → Blk) : Nat → Nat → Nat
  | 0, i => i
  | k + 1, i => anc U k (par U i)

@[simp] theorem anc_zero (U : Nat → Blk) (i : Nat) : anc U 0 i = i := rfl
theorem anc_succ (U : Nat → Blk) (k i : Nat) : anc U (k + 1) i = anc U k (par U i) := rfl

theorem anc_succ' (U : Nat → Blk) (k i : Nat) : anc U (k + 1) i = par U (anc U k i) := by
  induction k generalizing i with
  | zero => rfl
  | succ k ih => rw [anc_succ, ih]; rfl

theorem anc_add (U : Nat → Blk) (j k i : Nat) : anc U (j + k) i = anc U j (anc U k i) := by
  induction k generalizing i with
  | zero => rfl
  | succ k ih => rw [← Nat.add_assoc, anc_succ, ih, anc_succ]

/-- a best chain: tip first, parent-linked, ending in genesis (id 0) -/
inductive Chain (U : Nat → Blk) : List Nat → Prop
  | gen : Chain U [0]
  | cons {a b : Nat} {t : List Nat} : a ≠ 0 → par U a = b → Chain U (b :: t) → Chain U (a :: b :: t)

theorem Chain.ne_nil {U : Nat → Blk} {l : List Nat} (h : Chain U l) : l ≠ [] := by
  cases h <;> simp

/-- two chains with the same tip are equal -/
theorem Chain.unique {U : Nat → Blk} {l₁ l₂ : List Nat} (h₁ : Chain U l₁) (h₂ : Chain U l₂)
    (hh : l₁.head? = l₂.head?) : l₁ = l₂ := by
  induction h₁ generalizing l₂ with
  | gen =>
    cases h₂ with
    | gen => rfl
    | cons ha _ _ => simp at hh; exact absurd hh.symm ha
  | @cons a b t ha hp _ ih =>
    cases h₂ with
    | gen => simp at hh; exact absurd hh ha
    | @cons a' b' t' ha' hp' ht' =>
      simp at hh
      subst hh
      have hb : b = b' := by rw [← hp, ← hp']
      subst hb
      have := ih ht' rfl
      simp_all

theorem Chain.tail {U : Nat → Blk} {a b : Nat} {t : List Nat} (h : Chain U (a :: b :: t)) :
    Chain U (b :: t) ∧ a ≠ 0 ∧ par U a = b := by
  cases h with
  | cons ha hp ht => exact ⟨ht, ha, hp⟩

/-- the elements of a chain are the iterated parents of its tip -/
theorem Chain.getElem_eq_anc {U : Nat → Blk} {l : List Nat} (h : Chain U l) :
    ∀ k (hk : k < l.length), l[k] = anc U k (l.head (Chain.ne_nil h)) := by
  induction h with
  | gen => intro k hk; simp at hk; subst hk; rfl
  | @cons a b t ha hp ht ih =>
    intro k hk
    cases k with
    | zero => rfl
    | succ k =>
      have := ih k (by simpa using hk)
      simp only [List.getElem_cons_succ, List.head_cons] at this ⊢
      rw [this, anc_succ, hp]

theorem Chain.drop {U : Nat → Blk} {l : List Nat} (h : Chain U l) :
    ∀ n, n < l.length → Chain U (l.drop n) := by
  induction h with
  | gen => intro n hn; simp at hn; subst hn; exact Chain.gen
  | @cons a b t ha hp ht ih =>
    intro n hn
    cases n with
    | zero => exact Chain.cons ha hp ht
    | succ n => simpa using ih n (by simpa using hn)

theorem Chain.last_zero {U : Nat → Blk} {l : List Nat} (h : Chain U l) : l.getLast? = some 0 := by
  induction h with
  | gen => rfl
  | cons _ _ _ ih => simpa using ih


/-! ### the store invariant (no pruning): what `AddBlocks` maintains about records and states -/

/-- the part of the store invariant that pruning does not touch: states are closed under parents
with consecutive heights, and a state implies a stored header -/
structure Core (U : Nat → Blk) (m : Mgr) : Prop where
  h0 : (U 0).height = 0
  closed : ∀ i, m.states i = true → i ≠ 0 →
    m.states (par U i) = true ∧ (U i).height = (U (par U i)).height + 1
  staterec : ∀ i, m.states i = true → (m.recs i).isSome = true

structure SInv (U : Nat → Blk) (m : Mgr) : Prop where
  h0 : (U 0).height = 0
  gen : m.recs 0 = some ⟨true, true⟩ ∧ m.states 0 = true
  /-- a state is stored only for a block whose parent has a state, with consecutive heights -/
  closed : ∀ i, m.states i = true → i ≠ 0 →
    m.states (par U i) = true ∧ (U i).height = (U (par U i)).height + 1
  /-- every record has a body (nothing was pruned) and a state -/
  recstate : ∀ i r, m.recs i = some r → r.body = true ∧ m.states i = true
  staterec : ∀ i, m.states i = true → (m.recs i).isSome = true
  /-- a stored supplement means the block passed `ValidateBlock` -/
  valid : ∀ i, i ≠ 0 → m.recs i = some ⟨true, true⟩ → (U i).bodyOk = true
  /-- a stored state means the block passed `ValidateOrphan` -/
  validHdr : ∀ i, i ≠ 0 → m.states i = true → (U i).hdrOk = true ∧ (U i).future = false
  /-- a block is applied (gets its supplement) only on top of an applied parent -/
  suppclosed : ∀ i, i ≠ 0 → m.recs i = some ⟨true, true⟩ → m.recs (par U i) = some ⟨true, true⟩

theorem SInv.core {U m} (h : SInv U m) : Core U m := ⟨h.h0, h.closed, h.staterec⟩

theorem Core.ne_zero_of_height {U m} (h : Core U m) {i : Nat} (hh : 0 < (U i).height) : i ≠ 0 := by
  intro h0; subst h0; have := h.h0; omega

/-- within its height, the ancestry of a block with a state is stored with consecutive heights -/
theorem Core.anc_state {U m} (h : Core U m) {i : Nat} (hi : m.states i = true) :
    ∀ k, k ≤ (U i).height → m.states (anc U k i) = true ∧ (U (anc U k i)).height = (U i).height - k := by
  intro k
  induction k with
  | zero => intro _; exact ⟨hi, by simp⟩
  | succ k ih =>
    intro hk
    obtain ⟨hs, hh⟩ := ih (by omega)
    have hne : anc U k i ≠ 0 := h.ne_zero_of_height (by omega)
    obtain ⟨hps, hph⟩ := h.closed _ hs hne
    rw [anc_succ']
    exact ⟨hps, by omega⟩

theorem Core.header {U m} (h : Core U m) {i : Nat} (hi : m.states i = true) : m.header i = true := by
  simpa [Mgr.header] using h.staterec i hi

theorem Core.height_pos {U m} (h : Core U m) {i : Nat} (hi : m.states i = true) (hne : i ≠ 0) :
    0 < (U i).height := by
  have := (h.closed i hi hne).2; omega

theorem Core.eq_zero_of_height {U m} (h : Core U m) {i : Nat} (hi : m.states i = true)
    (hh : (U i).height = 0) : i = 0 := by
  by_cases h0 : i = 0
  · exact h0
  · have := h.height_pos hi h0; omega

theorem SInv.ne_zero_of_height {U m} (h : SInv U m) {i : Nat} (hh : 0 < (U i).height) : i ≠ 0 :=
  h.core.ne_zero_of_height hh
theorem SInv.anc_state {U m} (h : SInv U m) {i : Nat} (hi : m.states i = true) :
    ∀ k, k ≤ (U i).height → m.states (anc U k i) = true ∧ (U (anc U k i)).height = (U i).height - k :=
  h.core.anc_state hi
theorem SInv.header {U m} (h : SInv U m) {i : Nat} (hi : m.states i = true) : m.header i = true :=
  h.core.header hi
theorem SInv.height_pos {U m} (h : SInv U m) {i : Nat} (hi : m.states i = true) (hne : i ≠ 0) :
    0 < (U i).height := h.core.height_pos hi hne
theorem SInv.eq_zero_of_height {U m} (h : SInv U m) {i : Nat} (hi : m.states i = true)
    (hh : (U i).height = 0) : i = 0 := h.core.eq_zero_of_height hi hh

/-! ### `reorgPath` -/

theorem rewind_ok {U : Nat → Blk} {m : Mgr} {i r a : Nat} (hh : m.header i = true) :
    rewind U m r a none i = .ok (par U i) := by
  simp [rewind, tooLong, hh, par]

/-- phase 1/2 of `reorgPath`: rewinding a stored block down to height `h` visits exactly its
first `height - h` ancestors -/
theorem rewindAbove_spec {U : Nat → Blk} {m : Mgr} (hI : Core U m) (h other : Nat) :
    ∀ (fuel a : Nat) (acc : List Nat), m.states a = true → (U a).height ≤ fuel →
      rewindAbove U m none h other fuel a acc =
        .ok (anc U ((U a).height - h) a, acc ++ (List.range ((U a).height - h)).map (fun k => anc U k a)) := by
  intro fuel
  induction fuel with
  | zero =>
    intro a acc hs hf
    have : (U a).height = 0 := by omega
    simp [rewindAbove, this]
  | succ fuel ih =>
    intro a acc hs hf
    unfold rewindAbove
    by_cases hgt : (U a).height > h
    · have hne : a ≠ 0 := hI.ne_zero_of_height (by omega)
      obtain ⟨hps, hph⟩ := hI.closed a hs hne
      simp only [hgt, if_true, rewind_ok (hI.header hs)]
      rw [ih (par U a) (acc ++ [a]) hps (by omega)]
      have e : (U a).height - h = ((U (par U a)).height - h) + 1 := by omega
      rw [e, List.range_succ_eq_map, List.map_cons, List.map_map]
      simp [anc_succ, Function.comp_def]
    · have : (U a).height - h = 0 := by omega
      simp [hgt, this]

/-- phase 3 of `reorgPath`: two stored blocks at the same height are rewound in lockstep to
their *first* common ancestor: every pair visited before the meeting differs -/
theorem rewindBoth_spec {U : Nat → Blk} {m : Mgr} (hI : Core U m) :
    ∀ (fuel a b : Nat) (rev app : List Nat), m.states a = true → m.states b = true →
      (U a).height = (U b).height → (U a).height ≤ fuel →
      ∃ n, n ≤ (U a).height ∧
        rewindBoth U m none fuel a b rev app =
          .ok (rev ++ (List.range n).map (fun k => anc U k a), app ++ (List.range n).map (fun k => anc U k b)) ∧
        anc U n a = anc U n b ∧ ∀ k, k < n → anc U k a ≠ anc U k b := by
  intro fuel
  induction fuel with
  | zero =>
    intro a b rev app ha hb hh hf
    have ha0 := hI.eq_zero_of_height ha (by omega)
    have hb0 := hI.eq_zero_of_height hb (by omega)
    exact ⟨0, by omega, by simp [rewindBoth, ha0, hb0], by simp [ha0, hb0], fun k hk => by omega⟩
  | succ fuel ih =>
    intro a b rev app ha hb hh hf
    unfold rewindBoth
    by_cases hab : a = b
    · exact ⟨0, by omega, by simp [hab], by simp [hab], fun k hk => by omega⟩
    · have hane : a ≠ 0 := by
        intro h0; subst h0
        exact hab (hI.eq_zero_of_height hb (by have := hI.h0; omega)).symm
      have hbne : b ≠ 0 := by
        intro h0; subst h0
        exact hab (hI.eq_zero_of_height ha (by have := hI.h0; omega))
      obtain ⟨hpa, hha⟩ := hI.closed a ha hane
      obtain ⟨hpb, hhb⟩ := hI.closed b hb hbne
      obtain ⟨n, hn, hrun, heq, hmin⟩ := ih (par U a) (par U b) (rev ++ [a]) (app ++ [b]) hpa hpb (by omega) (by omega)
      refine ⟨n + 1, by omega, ?_, by simpa [anc_succ] using heq, ?_⟩
      · simp only [hab, if_false, rewind_ok (hI.header ha), rewind_ok (hI.header hb)]
        rw [hrun, List.range_succ_eq_map, List.map_cons, List.map_map]
        simp [anc_succ, Function.comp_def]
      · intro k hk
        cases k with
        | zero => exact hab
        | succ k => rw [anc_succ, anc_succ]; exact hmin k (by omega)

theorem map_anc_range_add (U : Nat → Blk) (d n a : Nat) :
    (List.range (d + n)).map (fun k => anc U k a) =
      (List.range d).map (fun k => anc U k a) ++ (List.range n).map (fun k => anc U k (anc U d a)) := by
  rw [List.range_add, List.map_append, List.map_map]
  congr 1
  apply List.map_congr_left
  intro k _
  simp only [Function.comp_def]
  rw [Nat.add_comm, anc_add]

/-- **`reorgPath` is correct and minimal**: for two stored blocks it returns the first `na`
ancestors of `a` (to revert, in order) and the first `nb` ancestors of `b` reversed (to apply, in
order), which meet in a common ancestor; it never fails.  `na = da + n`, `nb = db + n` where
`da`/`db` are the steps of phases 1/2 (one of them is 0, afterwards both pointers are at the same
height) and `n` the lockstep steps of phase 3, in which every pair visited before the meeting
differs — the meeting point is the *first* common ancestor. -/
theorem reorgPath_spec_min {U : Nat → Blk} {m : Mgr} (hI : Core U m) {a b : Nat}
    (ha : m.states a = true) (hb : m.states b = true) :
    ∃ na nb, na ≤ (U a).height ∧ nb ≤ (U b).height ∧
      reorgPath U m a b none =
        .ok ((List.range na).map (fun k => anc U k a), ((List.range nb).map (fun k => anc U k b)).reverse) ∧
      anc U na a = anc U nb b ∧
      ∃ da db n, na = da + n ∧ nb = db + n ∧ (da = 0 ∨ db = 0) ∧
        (U a).height - da = (U b).height - db ∧
        ∀ k, k < n → anc U (da + k) a ≠ anc U (db + k) b := by
  unfold reorgPath
  simp only []
  rw [rewindAbove_spec hI _ _ _ a [] ha (by omega)]
  simp only [List.nil_append]
  obtain ⟨hsa1, hha1⟩ := hI.anc_state ha ((U a).height - (U b).height) (by omega)
  rw [rewindAbove_spec hI _ _ _ b [] hb (by omega)]
  simp only [List.nil_append]
  obtain ⟨hsb1, hhb1⟩ := hI.anc_state hb ((U b).height - (U (anc U ((U a).height - (U b).height) a)).height) (by omega)
  obtain ⟨n, hn, hrun, heq, hmin⟩ := rewindBoth_spec hI ((U a).height + (U b).height + 2) _ _
    ((List.range ((U a).height - (U b).height)).map (fun k => anc U k a))
    ((List.range ((U b).height - (U (anc U ((U a).height - (U b).height) a)).height)).map (fun k => anc U k b))
    hsa1 hsb1 (by omega) (by omega)
  rw [hrun]
  refine ⟨((U a).height - (U b).height) + n, ((U b).height - (U (anc U ((U a).height - (U b).height) a)).height) + n,
    by omega, by omega, ?_, ?_, (U a).height - (U b).height,
    (U b).height - (U (anc U ((U a).height - (U b).height) a)).height, n, rfl, rfl, by omega, by omega, ?_⟩
  · rw [map_anc_range_add, map_anc_range_add]
  · rw [Nat.add_comm _ n, anc_add, Nat.add_comm _ n, anc_add]
    exact heq
  · intro k hk
    rw [Nat.add_comm _ k, anc_add, Nat.add_comm _ k, anc_add]
    exact hmin k hk

/-- the statement most users need: the two legs and the common ancestor -/
theorem reorgPath_spec {U : Nat → Blk} {m : Mgr} (hI : Core U m) {a b : Nat}
    (ha : m.states a = true) (hb : m.states b = true) :
    ∃ na nb, na ≤ (U a).height ∧ nb ≤ (U b).height ∧
      reorgPath U m a b none =
        .ok ((List.range na).map (fun k => anc U k a), ((List.range nb).map (fun k => anc U k b)).reverse) ∧
      anc U na a = anc U nb b := by
  obtain ⟨na, nb, h1, h2, h3, h4, _⟩ := reorgPath_spec_min hI ha hb
  exact ⟨na, nb, h1, h2, h3, h4⟩

/-- the meeting point `reorgPath` finds is the **lowest** common ancestor: no common ancestor is
reached with fewer steps on either side (and both legs end at the same height) -/
theorem reorgPath_least {U : Nat → Blk} {m : Mgr} (hI : Core U m) {a b : Nat}
    (ha : m.states a = true) (hb : m.states b = true) :
    ∃ na nb, na ≤ (U a).height ∧ nb ≤ (U b).height ∧
      reorgPath U m a b none =
        .ok ((List.range na).map (fun k => anc U k a), ((List.range nb).map (fun k => anc U k b)).reverse) ∧
      anc U na a = anc U nb b ∧ (U a).height - na = (U b).height - nb ∧
      ∀ i k, i ≤ (U a).height → k ≤ (U b).height → anc U i a = anc U k b → na ≤ i ∧ nb ≤ k := by
  obtain ⟨na, nb, h1, h2, h3, h4, da, db, n, e1, e2, hz, hh, hmin⟩ := reorgPath_spec_min hI ha hb
  refine ⟨na, nb, h1, h2, h3, h4, by omega, ?_⟩
  intro i k hi hk heq
  have hhi := (hI.anc_state ha i hi).2
  have hhk := (hI.anc_state hb k hk).2
  rw [heq] at hhi
  have key : ∀ t, i = da + t → k = db + t → n ≤ t := by
    intro t ei ek
    apply Nat.le_of_not_lt
    intro hlt
    apply hmin t hlt
    rw [← ei, ← ek]; exact heq
  have := key (i - da) (by omega) (by omega)
  omega

/-! ### the manager invariant -/

structure Inv (U : Nat → Blk) (m : Mgr) : Prop where
  s : SInv U m
  chain : Chain U m.best
  /-- every block on the best chain is stored with body and supplement (it was applied) -/
  bestsupp : ∀ i ∈ m.best, m.recs i = some ⟨true, true⟩

/-- what a manager step never loses -/
structure Mono (m m' : Mgr) : Prop where
  states : ∀ i, m.states i = true → m'.states i = true
  supp : ∀ i, m.recs i = some ⟨true, true⟩ → m'.recs i = some ⟨true, true⟩
  notified : m'.notified = m.notified

theorem Mono.refl (m : Mgr) : Mono m m := ⟨fun _ h => h, fun _ h => h, rfl⟩
theorem Mono.trans {a b c : Mgr} (h₁ : Mono a b) (h₂ : Mono b c) : Mono a c :=
  ⟨fun i h => h₂.states i (h₁.states i h), fun i h => h₂.supp i (h₁.supp i h), by rw [h₂.notified, h₁.notified]⟩

theorem Inv.tip_mem {U m} (h : Inv U m) : m.tip ∈ m.best := by
  have := h.chain.ne_nil
  cases hb : m.best with
  | nil => exact absurd hb this
  | cons a t => simp [Mgr.tip, hb]

theorem Inv.best_state {U m} (h : Inv U m) {i : Nat} (hi : i ∈ m.best) : m.states i = true :=
  (h.s.recstate i _ (h.bestsupp i hi)).2

theorem Inv.tip_state {U m} (h : Inv U m) : m.states m.tip = true := h.best_state h.tip_mem

theorem chain_length {U : Nat → Blk} {m : Mgr} (hs : SInv U m) {l : List Nat} (hc : Chain U l)
    (hst : ∀ i ∈ l, m.states i = true) : l.length = (U (l.headD 0)).height + 1 := by
  induction hc with
  | gen => simp [hs.h0]
  | @cons a b t ha hp ht ih =>
    have h1 := ih (fun i hi => hst i (by simp [hi]))
    have h2 := (hs.closed a (hst a (by simp)) ha).2
    simp only [List.headD_cons, List.length_cons] at h1 ⊢
    rw [hp] at h2
    omega

theorem Inv.length {U m} (h : Inv U m) : m.best.length = (U m.tip).height + 1 :=
  chain_length h.s h.chain (fun _ hi => h.best_state hi)

theorem Inv.best_getElem {U m} (h : Inv U m) (k : Nat) (hk : k < m.best.length) :
    m.best[k] = anc U k m.tip := by
  have hc := h.chain
  have := hc.getElem_eq_anc k hk
  rw [this]
  congr 1
  unfold Mgr.tip
  rw [List.headD_eq_head?_getD, List.head?_eq_some_head hc.ne_nil]
  rfl

theorem revertTip_spec {U m} (h : Inv U m) {t b : Nat} {rest : List Nat} (hb : m.best = t :: b :: rest) :
    revertTip U m = .ok { m with best := b :: rest } ∧ Inv U { m with best := b :: rest } := by
  have ht := h.bestsupp t (by simp [hb])
  have hc := h.chain
  rw [hb] at hc
  obtain ⟨hc', _, hp⟩ := hc.tail
  have hbs : m.states b = true := h.best_state (by simp [hb])
  constructor
  · simp only [revertTip, hb, Mgr.block, ht]
    have : (U t).parent = b := hp
    simp [this, hbs]
  · exact ⟨⟨h.s.h0, h.s.gen, h.s.closed, h.s.recstate, h.s.staterec, h.s.valid, h.s.validHdr, h.s.suppclosed⟩, hc',
      fun i hi => h.bestsupp i (by rw [hb]; exact List.mem_cons_of_mem _ hi)⟩

theorem revertN_spec {U} : ∀ (n : Nat) (m : Mgr), Inv U m → n < m.best.length →
    revertN U n m = ({ m with best := m.best.drop n }, none) ∧ Inv U { m with best := m.best.drop n } := by
  intro n
  induction n with
  | zero => intro m h _; simp [revertN]; exact h
  | succ n ih =>
    intro m h hn
    match hb : m.best with
    | [] => simp [hb] at hn
    | [_] => simp [hb] at hn
    | t :: b :: rest =>
      obtain ⟨hr, hi⟩ := revertTip_spec h hb
      simp only [revertN, hr]
      have := ih { m with best := b :: rest } hi (by simp [hb] at hn ⊢; omega)
      simpa [hb] using this

/-- `l` can be applied one block after the other on top of `tip` -/
def Attach (U : Nat → Blk) (m : Mgr) : Nat → List Nat → Prop
  | _, [] => True
  | tip, x :: xs => par U x = tip ∧ x ≠ 0 ∧ m.states x = true ∧ Attach U m x xs

theorem Attach.mono {U m m'} (hm : Mono m m') : ∀ {tip l}, Attach U m tip l → Attach U m' tip l
  | _, [], _ => trivial
  | _, _ :: _, ⟨h1, h2, h3, h4⟩ => ⟨h1, h2, hm.states _ h3, Attach.mono hm h4⟩

theorem applyTip_spec {U m} (h : Inv U m) {i : Nat} (hp : par U i = m.tip) (hne : i ≠ 0)
    (hs : m.states i = true) :
    (∃ m', applyTip U m i = .ok m' ∧ Inv U m' ∧ Mono m m' ∧ m'.best = i :: m.best) ∨
    (applyTip U m i = .error .invalidBlock ∧ m.recs i ≠ some ⟨true, true⟩) := by
  obtain ⟨r, hr⟩ := Option.isSome_iff_exists.mp (h.s.staterec i hs)
  have hbody := (h.s.recstate i r hr).1
  have hpar : (U i).parent = m.tip := hp
  have hbest : m.best = m.tip :: m.best.tail := by
    have := h.chain.ne_nil
    cases hb : m.best with
    | nil => exact absurd hb this
    | cons a t => simp [Mgr.tip, hb]
  have hchain : Chain U (i :: m.best) := by
    rw [hbest]; exact Chain.cons hne hp (hbest ▸ h.chain)
  cases hsupp : r.supp with
  | true =>
    left
    have hr' : m.recs i = some ⟨true, true⟩ := by
      rw [hr]; cases r with
      | mk bd sp => simp only at hbody hsupp; rw [hbody, hsupp]
    refine ⟨{ m with best := i :: m.best }, ?_, ⟨⟨h.s.h0, h.s.gen, h.s.closed, h.s.recstate, h.s.staterec, h.s.valid, h.s.validHdr, h.s.suppclosed⟩, hchain, ?_⟩, ⟨fun _ x => x, fun _ x => x, rfl⟩, rfl⟩
    · simp [applyTip, Mgr.block, hr, hbody, hsupp, hpar]
    · intro j hj
      rcases List.mem_cons.mp hj with rfl | hj
      · exact hr'
      · exact h.bestsupp j hj
  | false =>
    have hr' : m.recs i ≠ some ⟨true, true⟩ := by
      rw [hr]; cases r with
      | mk bd sp => simp only at hsupp; rw [hsupp]; simp
    cases hok : (U i).bodyOk with
    | false => right; exact ⟨by simp [applyTip, Mgr.block, hr, hbody, hsupp, hpar, hok], hr'⟩
    | true =>
      left
      refine ⟨{ m with states := upd m.states i true, recs := upd m.recs i (some ⟨true, true⟩), best := i :: m.best }, ?_, ⟨?_, hchain, ?_⟩, ⟨?_, ?_, rfl⟩, rfl⟩
      · simp [applyTip, Mgr.block, hr, hbody, hsupp, hpar, hok]
      · -- SInv of the updated store
        have hvalid := h.s.valid
        refine ⟨h.s.h0, ?_, ?_, ?_, ?_, ?_, ?_, ?_⟩
        · have := h.s.gen; simp [upd, hne.symm, this]
        · intro j hj hj0
          have hj' : m.states j = true := by
            by_cases e : j = i
            · subst e; exact hs
            · simpa [upd, e] using hj
          obtain ⟨c1, c2⟩ := h.s.closed j hj' hj0
          refine ⟨?_, c2⟩
          by_cases e : par U j = i <;> simp [upd, e, c1]
        · intro j r' hj
          by_cases e : j = i
          · subst e; simp [upd] at hj; subst hj; simp [upd]
          · simp [upd, e] at hj ⊢; exact h.s.recstate j r' hj
        · intro j hj
          by_cases e : j = i
          · subst e; simp [upd]
          · simp [upd, e] at hj ⊢; exact h.s.staterec j hj
        · intro j hj0 hj
          by_cases e : j = i
          · subst e; exact hok
          · simp [upd, e] at hj; exact hvalid j hj0 hj
        · intro j hj0 hj
          have hj' : m.states j = true := by
            by_cases e : j = i
            · subst e; exact hs
            · simpa [upd, e] using hj
          exact h.s.validHdr j hj0 hj'
        · intro j hj0 hj
          have htipsupp : m.recs m.tip = some ⟨true, true⟩ := h.bestsupp _ h.tip_mem
          by_cases e : j = i
          · subst e
            rw [hp]
            by_cases e2 : m.tip = j <;> simp [upd, e2, htipsupp]
          · have hj' : m.recs j = some ⟨true, true⟩ := by simpa [upd, e] using hj
            have := h.s.suppclosed j hj0 hj'
            by_cases e2 : par U j = i <;> simp [upd, e2, this]
      · intro j hj
        rcases List.mem_cons.mp hj with rfl | hj
        · simp [upd]
        · by_cases e : j = i
          · subst e; simp [upd]
          · simp [upd, e]; exact h.bestsupp j hj
      · intro j hj; by_cases e : j = i <;> simp [upd, e, hj]
      · intro j hj; by_cases e : j = i <;> simp [upd, e, hj]

/-- applying an attachable list either applies all of it or stops at the first block whose body is
invalid; either way the invariant holds and nothing is lost -/
theorem applyAll_spec {U} : ∀ (l : List Nat) (m : Mgr), Inv U m → Attach U m m.tip l →
    Inv U (applyAll U l m).1 ∧ Mono m (applyAll U l m).1 ∧
    ((applyAll U l m).2 = none → (applyAll U l m).1.tip = l.getLastD m.tip) ∧
    ((applyAll U l m).2 ≠ none → (applyAll U l m).2 = some .invalidBlock) ∧
    ((∀ x ∈ l, m.recs x = some ⟨true, true⟩) → (applyAll U l m).2 = none) := by
  intro l
  induction l with
  | nil => intro m h _; simp [applyAll, h, Mono.refl]
  | cons x xs ih =>
    intro m h ⟨hp, hne, hs, hrest⟩
    rcases applyTip_spec h hp hne hs with ⟨m', hok, hinv', hmono, hbest⟩ | ⟨herr, hnot⟩
    · have htip' : m'.tip = x := by simp [Mgr.tip, hbest]
      obtain ⟨i1, i2, i3, i4, i5⟩ := ih m' hinv' (htip' ▸ Attach.mono hmono hrest)
      simp only [applyAll, hok]
      refine ⟨i1, hmono.trans i2, ?_, i4, ?_⟩
      · intro he
        rw [i3 he, htip']
        cases xs <;> simp [List.getLastD]
      · intro hall
        exact i5 (fun y hy => hmono.supp y (hall y (List.mem_cons_of_mem _ hy)))
    · simp only [applyAll, herr]
      refine ⟨h, Mono.refl m, by simp, by simp, ?_⟩
      intro hall
      exact absurd (hall x (by simp)) hnot

/-- the apply list `reorgPath` returns attaches to the meeting point -/
theorem attach_anc {U m} (hI : Core U m) {b : Nat} (hb : m.states b = true) :
    ∀ nb, nb ≤ (U b).height →
      Attach U m (anc U nb b) ((List.range nb).map (fun k => anc U k b)).reverse := by
  intro nb
  induction nb with
  | zero => intro _; simp [Attach]
  | succ nb ih =>
    intro hn
    rw [List.range_succ, List.map_append, List.reverse_append]
    simp only [List.map_cons, List.map_nil, List.reverse_cons, List.reverse_nil, List.nil_append,
      List.singleton_append]
    obtain ⟨hs, hh⟩ := hI.anc_state hb nb (by omega)
    exact ⟨(anc_succ' U nb b).symm, hI.ne_zero_of_height (by omega), hs, ih (by omega)⟩

theorem getLastD_reverse_map_anc (U : Nat → Blk) (b nb d : Nat) :
    (((List.range nb).map (fun k => anc U k b)).reverse).getLastD d = if nb = 0 then d else b := by
  cases nb with
  | zero => simp
  | succ nb =>
    rw [List.range_succ_eq_map]
    simp [List.getLastD_eq_getLast?]

/-- **`reorgTo`**: towards any stored block it either reaches it or stops at an invalid block;
it never panics, never reports a missing block, never loses a record; and if every block on the
way already carries a supplement it cannot fail. -/
theorem reorgTo_spec {U m} (h : Inv U m) {t : Nat} (ht : m.states t = true) :
    Inv U (reorgTo U m t).1 ∧ Mono m (reorgTo U m t).1 ∧
    ((reorgTo U m t).2 = none → (reorgTo U m t).1.tip = t) ∧
    ((reorgTo U m t).2 ≠ none → (reorgTo U m t).2 = some .invalidBlock) ∧
    ((∀ k, k ≤ (U t).height → m.recs (anc U k t) = some ⟨true, true⟩) → (reorgTo U m t).2 = none) := by
  obtain ⟨na, nb, hna, hnb, hpath, hmeet⟩ := reorgPath_spec h.s.core h.tip_state ht
  have hlen := h.length
  obtain ⟨hrev, hinv1⟩ := revertN_spec (U := U) na m h (by omega)
  -- the tip after the reverts is the meeting point
  have htip1 : ({ m with best := m.best.drop na } : Mgr).tip = anc U nb t := by
    have hk := h.best_getElem na (by omega)
    rw [hmeet] at hk
    simp only [Mgr.tip]
    rw [← hk, List.headD_eq_head?_getD, List.head?_drop, List.getElem?_eq_getElem (by omega)]
    rfl
  have hatt : Attach U ({ m with best := m.best.drop na } : Mgr)
      ({ m with best := m.best.drop na } : Mgr).tip ((List.range nb).map (fun k => anc U k t)).reverse := by
    rw [htip1]; exact attach_anc hinv1.s.core ht nb hnb
  obtain ⟨a1, a2, a3, a4, a5⟩ := applyAll_spec _ _ hinv1 hatt
  have hmono0 : Mono m ({ m with best := m.best.drop na } : Mgr) := ⟨fun _ x => x, fun _ x => x, rfl⟩
  have hred : reorgTo U m t = applyAll U ((List.range nb).map (fun k => anc U k t)).reverse { m with best := m.best.drop na } := by
    simp only [reorgTo, hpath, List.length_map, List.length_range, hrev]
  rw [hred]
  refine ⟨a1, hmono0.trans a2, ?_, a4, ?_⟩
  · intro he
    rw [a3 he, getLastD_reverse_map_anc, htip1]
    split
    · next h0 => subst h0; rfl
    · rfl
  · intro hall
    apply a5
    intro x hx
    simp only [List.mem_reverse, List.mem_map, List.mem_range] at hx
    obtain ⟨k, hk, rfl⟩ := hx
    exact hall k (by omega)

/-- the shared tail of `AddBlocks` / `AddValidatedV2Blocks` -/
theorem maybeReorg_spec {U m} (h : Inv U m) {cs : Nat} (hcs : m.states cs = true) :
    Inv U (maybeReorg U m cs).1 ∧
    ((∀ i, m.states i = true → (maybeReorg U m cs).1.states i = true) ∧
     (∀ i, m.recs i = some ⟨true, true⟩ → (maybeReorg U m cs).1.recs i = some ⟨true, true⟩)) ∧
    (((maybeReorg U m cs).2 = none ∧
        ((heavier U cs m.tip = true ∧ (maybeReorg U m cs).1.tip = cs ∧
            (maybeReorg U m cs).1.notified = m.notified + 1) ∨
         (heavier U cs m.tip = false ∧ (maybeReorg U m cs).1 = m))) ∨
     ((maybeReorg U m cs).2 = some .reorgFailed ∧ heavier U cs m.tip = true ∧
        (maybeReorg U m cs).1.best = m.best ∧ (maybeReorg U m cs).1.notified = m.notified)) := by
  unfold maybeReorg
  cases hh : heavier U cs m.tip with
  | false => simp [h]
  | true =>
    simp only [if_true]
    obtain ⟨i1, mono1, r1, r2, _⟩ := reorgTo_spec h hcs
    rcases hr : reorgTo U m cs with ⟨m1, e1⟩
    rw [hr] at i1 mono1 r1 r2
    simp only at i1 mono1 r1 r2
    cases e1 with
    | none =>
      simp only
      refine ⟨⟨⟨i1.s.h0, i1.s.gen, i1.s.closed, i1.s.recstate, i1.s.staterec, i1.s.valid, i1.s.validHdr, i1.s.suppclosed⟩, i1.chain, i1.bestsupp⟩, ⟨mono1.states, mono1.supp⟩, Or.inl ⟨by trivial, Or.inl ⟨by trivial, ?_, ?_⟩⟩⟩
      · simpa [Mgr.tip] using r1 rfl
      · simp [mono1.notified]
    | some e =>
      have he : e = .invalidBlock := by simpa using r2 (by simp)
      subst he
      simp only
      -- the rollback cannot fail: every block of the old best chain still carries its supplement
      have hold : m1.states m.tip = true := mono1.states _ h.tip_state
      obtain ⟨i2, mono2, s1, _, s3⟩ := reorgTo_spec i1 hold
      have hall : ∀ k, k ≤ (U m.tip).height → m1.recs (anc U k m.tip) = some ⟨true, true⟩ := by
        intro k hk
        have hlen := h.length
        have hk' : k < m.best.length := by omega
        rw [← h.best_getElem k hk']
        exact mono1.supp _ (h.bestsupp _ (List.getElem_mem hk'))
      have hnone := s3 hall
      rcases hr2 : reorgTo U m1 m.tip with ⟨m2, e2⟩
      rw [hr2] at i2 mono2 s1 hnone
      simp only at i2 mono2 s1 hnone
      subst hnone
      simp only
      have htip : m2.tip = m.tip := s1 rfl
      have hbest : m2.best = m.best := by
        apply Chain.unique i2.chain h.chain
        have h2 := i2.chain.ne_nil
        have h0 := h.chain.ne_nil
        cases hb2 : m2.best with
        | nil => exact absurd hb2 h2
        | cons a2 t2 =>
          cases hb0 : m.best with
          | nil => exact absurd hb0 h0
          | cons a0 t0 =>
            simp [Mgr.tip, hb2, hb0] at htip
            simp [htip]
      exact ⟨i2, ⟨fun i hi => mono2.states i (mono1.states i hi), fun i hi => mono2.supp i (mono1.supp i hi)⟩, Or.inr ⟨by trivial, by trivial, hbest, by rw [mono2.notified, mono1.notified]⟩⟩

/-- what the harness guarantees about declared blocks: a header-valid block is not genesis and
sits one above its parent -/
structure WFU (U : Nat → Blk) : Prop where
  h0 : (U 0).height = 0
  hdr : ∀ b, (U b).hdrOk = true → b ≠ 0 ∧ (U b).height = (U (par U b)).height + 1

theorem inv_init {U} (hU : WFU U) : Inv U Mgr.init := by
  refine ⟨⟨hU.h0, by simp [Mgr.init], ?_, ?_, ?_, ?_, ?_, ?_⟩, Chain.gen, ?_⟩
  · intro i hi hne; simp [Mgr.init, hne] at hi
  · intro i r hr
    by_cases e : i = 0
    · subst e; simp [Mgr.init] at hr ⊢; subst hr; rfl
    · simp [Mgr.init, e] at hr
  · intro i hi; simp [Mgr.init] at hi ⊢; simp [hi]
  · intro i hne hr; simp [Mgr.init, hne] at hr
  · intro i hne hs; simp [Mgr.init, hne] at hs
  · intro i hne hr; simp [Mgr.init, hne] at hr
  · intro i hi; simp [Mgr.init] at hi ⊢; simp [hi]

/-- storing a header-valid block whose parent has a state keeps the invariant -/
theorem store_header_inv {U m} (hU : WFU U) (h : Inv U m) {b : Nat}
    (hnot : m.block b ≠ some true) (hpar : m.states (par U b) = true)
    (hok : (U b).hdrOk = true) (hfut : (U b).future = false) :
    Inv U { m with states := upd m.states b true, recs := upd m.recs b (some ⟨true, false⟩) } := by
  obtain ⟨hb0, hbh⟩ := hU.hdr b hok
  have hnb : ∀ i, m.recs i = some ⟨true, true⟩ → i ≠ b := by
    intro i hi e; subst e; exact hnot (by simp [Mgr.block, hi])
  refine ⟨⟨h.s.h0, ?_, ?_, ?_, ?_, ?_, ?_, ?_⟩, h.chain, ?_⟩
  · have := h.s.gen; simp [upd, hb0.symm, this]
  · intro j hj hj0
    by_cases e : j = b
    · subst e
      refine ⟨?_, hbh⟩
      by_cases e2 : par U j = j <;> simp [upd, e2, hpar]
    · have hj' : m.states j = true := by simpa [upd, e] using hj
      obtain ⟨c1, c2⟩ := h.s.closed j hj' hj0
      refine ⟨?_, c2⟩
      by_cases e2 : par U j = b <;> simp [upd, e2, c1]
  · intro j r hj
    by_cases e : j = b
    · subst e; simp [upd] at hj; subst hj; simp [upd]
    · simp [upd, e] at hj ⊢; exact h.s.recstate j r hj
  · intro j hj
    by_cases e : j = b
    · subst e; simp [upd]
    · simp [upd, e] at hj ⊢; exact h.s.staterec j hj
  · intro j hj0 hj
    by_cases e : j = b
    · subst e; simp [upd] at hj
    · simp [upd, e] at hj; exact h.s.valid j hj0 hj
  · intro j hj0 hj
    by_cases e : j = b
    · subst e; exact ⟨hok, hfut⟩
    · simp [upd, e] at hj; exact h.s.validHdr j hj0 hj
  · intro j hj0 hj
    by_cases e : j = b
    · subst e; simp [upd] at hj
    · have hj' : m.recs j = some ⟨true, true⟩ := by simpa [upd, e] using hj
      have := h.s.suppclosed j hj0 hj'
      simp [upd, hnb _ this, this]
  · intro i hi
    have := h.bestsupp i hi
    simp [upd, hnb i this, this]

/-- the per-block loop of `AddBlocks`: stores header-valid blocks, never touches the best chain -/
theorem addLoop_spec {U} (hU : WFU U) : ∀ (batch : List Nat) (m : Mgr) (cs : Nat), Inv U m → m.states cs = true →
    Inv U (addBlocks.go U batch m cs).1 ∧
    (addBlocks.go U batch m cs).1.best = m.best ∧
    (addBlocks.go U batch m cs).1.notified = m.notified ∧
    ((∀ i, m.states i = true → (addBlocks.go U batch m cs).1.states i = true) ∧
     (∀ i, m.recs i = some ⟨true, true⟩ → (addBlocks.go U batch m cs).1.recs i = some ⟨true, true⟩)) ∧
    (addBlocks.go U batch m cs).1.states (addBlocks.go U batch m cs).2.2 = true ∧
    ((addBlocks.go U batch m cs).2.1 = none ∨ (addBlocks.go U batch m cs).2.1 = some .missingParent ∨
     (addBlocks.go U batch m cs).2.1 = some .future ∨ (addBlocks.go U batch m cs).2.1 = some .invalidHeader) := by
  intro batch
  induction batch with
  | nil => intro m cs h hcs; simp [addBlocks.go, h, hcs]
  | cons b bs ih =>
    intro m cs h hcs
    unfold addBlocks.go
    by_cases h1 : m.block b = some true
    · -- already have it
      have hb : m.states b = true := by
        simp only [Mgr.block] at h1
        cases hr : m.recs b with
        | none => simp [hr] at h1
        | some r => exact (h.s.recstate b r hr).2
      simp only [h1, if_true]
      exact ih m b h hb
    · simp only [h1, if_false]
      by_cases h2 : m.header b = true ∧ (m.block b).isNone = true
      · -- a pruned block: skipped
        have hb : m.states b = true := by
          obtain ⟨r, hr⟩ := Option.isSome_iff_exists.mp (by simpa [Mgr.header] using h2.1)
          exact (h.s.recstate b r hr).2
        simp only [h2, and_self, if_true]
        exact ih m b h hb
      · simp only [h2, if_false]
        by_cases h3 : (U b).parent ≠ cs ∧ (!m.states (U b).parent) = true
        · simp [h3, h, hcs]
        · simp only [h3, if_false]
          have hpar : m.states (par U b) = true := by
            by_cases e : (U b).parent = cs
            · simpa [par, e] using hcs
            · have : ¬ ((!m.states (U b).parent) = true) := fun x => h3 ⟨e, x⟩
              simpa [par] using this
          cases hf : (U b).future with
          | true => simp [h, hcs]
          | false =>
            cases hk : (U b).hdrOk with
            | false => simp [h, hcs]
            | true =>
              simp only [Bool.false_eq_true, if_false, Bool.not_true]
              have hinv' := store_header_inv hU h h1 hpar hk hf
              obtain ⟨j1, j2, j3, j4, j5, j6⟩ := ih _ b hinv' (by simp [upd])
              refine ⟨j1, j2, j3, ⟨?_, ?_⟩, j5, j6⟩
              · intro i hi
                apply j4.1
                by_cases e : i = b <;> simp [upd, e, hi]
              · intro i hi
                apply j4.2
                have hib : i ≠ b := by
                  intro e; subst e; exact h1 (by simp [Mgr.block, hi])
                simp [upd, hib, hi]

/-- **`AddBlocks`**: the invariant is preserved for any batch; it never panics and a failed
reorg is always rolled back; on any error the best chain and the notification count are as
before; the tip moves exactly when the submitted chain is sufficiently heavier, and then one
notification is delivered. -/
theorem addBlocks_spec {U} (hU : WFU U) {m : Mgr} (h : Inv U m) (batch : List Nat) :
    Inv U (addBlocks U m batch).1 ∧
    ((∀ i, m.states i = true → (addBlocks U m batch).1.states i = true) ∧
     (∀ i, m.recs i = some ⟨true, true⟩ → (addBlocks U m batch).1.recs i = some ⟨true, true⟩)) ∧
    (((addBlocks U m batch).2 = none ∧
        (((addBlocks U m batch).1.best = m.best ∧ (addBlocks U m batch).1.notified = m.notified) ∨
         (heavier U (addBlocks U m batch).1.tip m.tip = true ∧
            (addBlocks U m batch).1.notified = m.notified + 1))) ∨
     (((addBlocks U m batch).2 = some .missingParent ∨ (addBlocks U m batch).2 = some .future ∨
        (addBlocks U m batch).2 = some .invalidHeader ∨ (addBlocks U m batch).2 = some .reorgFailed) ∧
        (addBlocks U m batch).1.best = m.best ∧ (addBlocks U m batch).1.notified = m.notified)) := by
  cases batch with
  | nil => simp [addBlocks, h]
  | cons b bs =>
    simp only [addBlocks]
    obtain ⟨j1, j2, j3, j4, j5, j6⟩ := addLoop_spec hU (b :: bs) m m.tip h h.tip_state
    rcases hg : addBlocks.go U (b :: bs) m m.tip with ⟨m1, e, cs⟩
    rw [hg] at j1 j2 j3 j4 j5 j6
    simp only at j1 j2 j3 j4 j5 j6
    cases e with
    | some err =>
      simp only
      refine ⟨j1, j4, Or.inr ⟨?_, j2, j3⟩⟩
      rcases j6 with j6 | j6 | j6 | j6
      · simp at j6
      · left; exact j6
      · right; left; exact j6
      · right; right; left; exact j6
    | none =>
      simp only
      obtain ⟨k1, k2, k3⟩ := maybeReorg_spec j1 j5
      have htip : m1.tip = m.tip := by simp [Mgr.tip, j2]
      refine ⟨k1, ⟨fun i hi => k2.1 i (j4.1 i hi), fun i hi => k2.2 i (j4.2 i hi)⟩, ?_⟩
      rcases k3 with ⟨ke, (⟨kh, kt, kn⟩ | ⟨kh, km⟩)⟩ | ⟨ke, kh, kb, kn⟩
      · left
        refine ⟨ke, Or.inr ⟨?_, by rw [kn, j3]⟩⟩
        rw [kt, ← htip]; exact kh
      · left
        refine ⟨ke, Or.inl ?_⟩
        rw [km]; exact ⟨j2, j3⟩
      · right
        exact ⟨Or.inr (Or.inr (Or.inr ke)), by rw [kb, j2], by rw [kn, j3]⟩

/-! ### `AddValidatedV2Blocks` -/

/-- consecutive blocks of a batch are parent-linked, starting above `p` -/
def LinkedFrom (U : Nat → Blk) : Nat → List Nat → Prop
  | _, [] => True
  | p, b :: bs => par U b = p ∧ LinkedFrom U b bs

/-- what the syncer guarantees about a batch it hands to `AddValidatedV2Blocks` (C11's gate): a
parent-linked run of v2 blocks that passed `ValidateOrphan`/`ValidateBlock` on top of a block this
manager has applied -/
structure PreValidated (U : Nat → Blk) (m : Mgr) (batch : List Nat) : Prop where
  ok : ∀ b ∈ batch, (U b).hdrOk = true ∧ (U b).bodyOk = true ∧ (U b).future = false ∧ (U b).v2 = true
  linked : ∀ b0 rest, batch = b0 :: rest → LinkedFrom U (par U b0) batch ∧ m.recs (par U b0) = some ⟨true, true⟩

/-- storing a pre-validated block on top of an applied parent keeps the invariant -/
theorem store_validated_inv {U m} (hU : WFU U) (h : Inv U m) {b : Nat}
    (hpar : m.recs (par U b) = some ⟨true, true⟩)
    (hok : (U b).hdrOk = true) (hbody : (U b).bodyOk = true) (hfut : (U b).future = false) :
    Inv U { m with states := upd m.states b true, recs := upd m.recs b (some ⟨true, true⟩) } := by
  obtain ⟨hb0, hbh⟩ := hU.hdr b hok
  have hps : m.states (par U b) = true := (h.s.recstate _ _ hpar).2
  refine ⟨⟨h.s.h0, ?_, ?_, ?_, ?_, ?_, ?_, ?_⟩, h.chain, ?_⟩
  · have := h.s.gen; simp [upd, hb0.symm, this]
  · intro j hj hj0
    by_cases e : j = b
    · subst e
      refine ⟨?_, hbh⟩
      by_cases e2 : par U j = j <;> simp [upd, e2, hps]
    · have hj' : m.states j = true := by simpa [upd, e] using hj
      obtain ⟨c1, c2⟩ := h.s.closed j hj' hj0
      refine ⟨?_, c2⟩
      by_cases e2 : par U j = b <;> simp [upd, e2, c1]
  · intro j r hj
    by_cases e : j = b
    · subst e; simp [upd] at hj; subst hj; simp [upd]
    · simp [upd, e] at hj ⊢; exact h.s.recstate j r hj
  · intro j hj
    by_cases e : j = b
    · subst e; simp [upd]
    · simp [upd, e] at hj ⊢; exact h.s.staterec j hj
  · intro j hj0 hj
    by_cases e : j = b
    · subst e; exact hbody
    · simp [upd, e] at hj; exact h.s.valid j hj0 hj
  · intro j hj0 hj
    by_cases e : j = b
    · subst e; exact ⟨hok, hfut⟩
    · simp [upd, e] at hj; exact h.s.validHdr j hj0 hj
  · intro j hj0 hj
    by_cases e : j = b
    · subst e
      by_cases e2 : par U j = j <;> simp [upd, e2, hpar]
    · have hj' : m.recs j = some ⟨true, true⟩ := by simpa [upd, e] using hj
      have := h.s.suppclosed j hj0 hj'
      by_cases e2 : par U j = b <;> simp [upd, e2, this]
  · intro i hi
    have := h.bestsupp i hi
    by_cases e : i = b <;> simp [upd, e, this]

/-- the storing loop of `AddValidatedV2Blocks` on a pre-validated, linked batch -/
theorem addV2Loop_spec {U} (hU : WFU U) : ∀ (batch : List Nat) (m : Mgr) (p : Nat), Inv U m →
    m.recs p = some ⟨true, true⟩ → LinkedFrom U p batch →
    (∀ b ∈ batch, (U b).hdrOk = true ∧ (U b).bodyOk = true ∧ (U b).future = false ∧ (U b).v2 = true) →
    Inv U (addValidatedV2.go U batch m).1 ∧ (addValidatedV2.go U batch m).2 = none ∧
    (addValidatedV2.go U batch m).1.best = m.best ∧
    (addValidatedV2.go U batch m).1.notified = m.notified ∧
    ((∀ i, m.states i = true → (addValidatedV2.go U batch m).1.states i = true) ∧
     (∀ i, m.recs i = some ⟨true, true⟩ → (addValidatedV2.go U batch m).1.recs i = some ⟨true, true⟩)) ∧
    (addValidatedV2.go U batch m).1.recs (batch.getLastD p) = some ⟨true, true⟩ := by
  intro batch
  induction batch with
  | nil => intro m p h hp _ _; simp [addValidatedV2.go, h, hp]
  | cons b bs ih =>
    intro m p h hp ⟨hl1, hl2⟩ hall
    obtain ⟨o1, o2, o3, o4⟩ := hall b (by simp)
    have hinv' := store_validated_inv hU h (hl1 ▸ hp) o1 o2 o3
    obtain ⟨j1, j2, j3, j4, j5, j6⟩ := ih _ b hinv' (by simp [upd]) hl2 (fun x hx => hall x (List.mem_cons_of_mem _ hx))
    rw [addValidatedV2.go]
    simp only [o4, Bool.not_true, Bool.false_eq_true, if_false]
    refine ⟨j1, j2, j3, j4, ⟨?_, ?_⟩, ?_⟩
    · intro i hi; apply j5.1; by_cases e : i = b <;> simp [upd, e, hi]
    · intro i hi; apply j5.2; by_cases e : i = b <;> simp [upd, e, hi]
    · cases bs with
      | nil => simpa [List.getLastD] using j6
      | cons c cs => simpa [List.getLastD] using j6

/-! ### pruning -/

theorem bestAt_recs (m : Mgr) (r : Nat → Option Rec) (k : Nat) :
    ({ m with recs := r } : Mgr).bestAt k = m.bestAt k := rfl

/-- the pruning loop touches nothing but records of best-chain blocks below `h`, which it
replaces by header-only records -/
theorem prune_go_spec : ∀ (h : Nat) (m : Mgr),
    (prune.go h m).best = m.best ∧ (prune.go h m).states = m.states ∧
    (prune.go h m).notified = m.notified ∧
    ∀ i, (prune.go h m).recs i = m.recs i ∨
      ((prune.go h m).recs i = some ⟨false, false⟩ ∧ (m.recs i).isSome = true ∧
        ∃ k, k < h ∧ m.bestAt k = some i) := by
  intro h
  induction h with
  | zero => intro m; simp [prune.go]
  | succ h ih =>
    intro m
    unfold prune.go
    cases hb : m.bestAt h with
    | none => simp
    | some i =>
      simp only
      cases hblk : m.block i with
      | none => simp
      | some sp =>
        simp only
        obtain ⟨i1, i2, i3, i4⟩ := ih { m with recs := upd m.recs i (some ⟨false, false⟩) }
        refine ⟨i1, i2, i3, ?_⟩
        have hrec : (m.recs i).isSome = true := by
          simp only [Mgr.block] at hblk
          cases hr : m.recs i with
          | none => simp [hr] at hblk
          | some r => rfl
        intro j
        rcases i4 j with e | ⟨e1, e2, k, hk, e3⟩
        · by_cases hj : j = i
          · subst hj
            right
            exact ⟨by rw [e]; simp [upd], hrec, h, by omega, hb⟩
          · left; rw [e]; simp [upd, hj]
        · right
          refine ⟨e1, ?_, k, by omega, e3⟩
          by_cases hj : j = i
          · subst hj; exact hrec
          · simpa [upd, hj] using e2

theorem bestAt_mem {m : Mgr} {k i : Nat} (h : m.bestAt k = some i) : i ∈ m.best := by
  unfold Mgr.bestAt at h
  split at h
  · exact List.mem_of_getElem? h
  · simp at h

theorem bestAt_inj {m : Mgr} (hn : m.best.Nodup) {k k' i : Nat}
    (h : m.bestAt k = some i) (h' : m.bestAt k' = some i) : k = k' := by
  unfold Mgr.bestAt at h h'
  split at h <;> split at h' <;> try (simp at h h')
  next hk hk' =>
    have := (List.getElem?_inj (i := m.best.length - 1 - k) (j := m.best.length - 1 - k') (by omega) hn).mp (h.trans h'.symm)
    omega

/-- on a chain whose blocks below `h` all have bodies the loop prunes every one of them -/
theorem prune_go_all : ∀ (h : Nat) (m : Mgr), m.best.Nodup → h ≤ m.best.length →
    (∀ k, k < h → ∀ i, m.bestAt k = some i → (m.block i).isSome = true) →
    ∀ k, k < h → ∀ i, m.bestAt k = some i → (prune.go h m).recs i = some ⟨false, false⟩ := by
  intro h
  induction h with
  | zero => intro m _ _ _ k hk; omega
  | succ h ih =>
    intro m hn hlen hall k hk i hi
    have hex : ∃ i0, m.bestAt h = some i0 := by
      unfold Mgr.bestAt
      rw [if_pos (by omega)]
      exact ⟨_, List.getElem?_eq_getElem (by omega)⟩
    obtain ⟨i0, hi0⟩ := hex
    obtain ⟨sp, hsp⟩ := Option.isSome_iff_exists.mp (hall h (by omega) i0 hi0)
    have hgo : prune.go (h + 1) m = prune.go h { m with recs := upd m.recs i0 (some ⟨false, false⟩) } := by
      rw [prune.go]; simp [hi0, hsp]
    rw [hgo]
    by_cases hkh : k = h
    · subst hkh
      have : i = i0 := by rw [hi] at hi0; exact Option.some.inj hi0
      subst this
      rcases (prune_go_spec k { m with recs := upd m.recs i (some ⟨false, false⟩) }).2.2.2 i with e | ⟨e, _⟩
      · rw [e]; simp [upd]
      · exact e
    · apply ih { m with recs := upd m.recs i0 (some ⟨false, false⟩) } hn (by simpa using Nat.le_of_succ_le hlen) ?_ k (by omega) i hi
      intro k' hk' j hj
      have hj' : m.bestAt k' = some j := hj
      have hne : j ≠ i0 := by
        intro e; subst e
        have := bestAt_inj hn hj' hi0
        omega
      have := hall k' (by omega) j hj'
      simpa [Mgr.block, upd, hne] using this

/-- the ids of a best chain are pairwise distinct (heights strictly decrease from the tip) -/
theorem Inv.nodup {U m} (h : Inv U m) : m.best.Nodup := by
  rw [List.nodup_iff_pairwise_ne, List.pairwise_iff_getElem]
  intro i j hi hj hij e
  have hlen := h.length
  have h1 := (h.s.anc_state h.tip_state i (by omega)).2
  have h2 := (h.s.anc_state h.tip_state j (by omega)).2
  rw [← h.best_getElem i hi] at h1
  rw [← h.best_getElem j hj] at h2
  rw [e] at h1
  omega

end Verif.Chain
