/-
C04, the element side of the update stream: folding the per-block element diffs of any path
`UpdatesSince` returns over a subscriber's set-level ledger yields the ledger of the index the
path ends at.

`Verif/Lemmas/Updates.lean` shows that a poll returns a contiguous path (`walk`): reverts
walking parent by parent, then applies along the best chain.  `Verif/Lemmas/Elements.lean`
shows that `revertDiffs ∘ applyDiffs` is the identity on the keyed buckets for a well-formed
diff list (and on the expiration lists under `ExpStable`).  Here every block id gets a diff list
`D b` (consensus is a parameter), the ledger of a chain is the fold of `applyDiffs` from genesis,
and the two results are combined by induction over the path.
-/
import Verif.Lemmas.Updates
import Verif.Lemmas.Elements

namespace Verif.Chain
open Verif.Elements (Store Diff applyDiffs revertDiffs WF ExpStable)

/-- the set-level ledger of a chain (tip first): the diffs of its blocks applied from genesis -/
def ledgerOfChain (D : Nat → List Diff) : List Nat → Store
  | [] => Store.empty
  | b :: t => applyDiffs (ledgerOfChain D t) (D b)

/-- what a subscriber does with a list of updates: a `RevertUpdate` is folded with the reverted
block's diffs in reverse, an `ApplyUpdate` with the block's diffs (`chainx.Ledger.Revert/Apply`,
`wallet/update.go`) -/
def foldUpd (D : Nat → List Diff) : Store → List Upd → Store
  | s, [] => s
  | s, .revert b :: us => foldUpd D (revertDiffs s (D b).reverse) us
  | s, .apply b :: us => foldUpd D (applyDiffs s (D b)) us

theorem foldUpd_append (D : Nat → List Diff) (s : Store) (us vs : List Upd) :
    foldUpd D s (us ++ vs) = foldUpd D (foldUpd D s us) vs := by
  induction us generalizing s with
  | nil => rfl
  | cons u us ih => cases u <;> simp [foldUpd, ih]

/-- `l` is the chain of the subscriber index `idx` ("nothing" has the empty chain) -/
def ChainTo (U : Nat → Blk) : Option Nat → List Nat → Prop
  | none, l => l = []
  | some i, l => Chain U l ∧ l.head? = some i

/-- the chain of an index is unique -/
theorem ChainTo.unique {U : Nat → Blk} {idx : Option Nat} {l₁ l₂ : List Nat}
    (h₁ : ChainTo U idx l₁) (h₂ : ChainTo U idx l₂) : l₁ = l₂ := by
  cases idx with
  | none => simp only [ChainTo] at h₁ h₂; rw [h₁, h₂]
  | some i =>
    obtain ⟨c₁, e₁⟩ := h₁
    obtain ⟨c₂, e₂⟩ := h₂
    exact Chain.unique c₁ c₂ (by rw [e₁, e₂])

/-- agreement on the keyed buckets (unspent siacoin / siafund elements, contracts) -/
def KeyedEq (a b : Store) : Prop := a.sc = b.sc ∧ a.sf = b.sf ∧ a.fc = b.fc

theorem KeyedEq.refl (a : Store) : KeyedEq a a := ⟨rfl, rfl, rfl⟩

/-- every block's diff list is well formed relative to the ledger of the chain below it (what
consensus guarantees about a valid block) -/
def WFD (U : Nat → Blk) (D : Nat → List Diff) : Prop :=
  ∀ b t, Chain U (b :: t) → WF (ledgerOfChain D t) (D b)

/-- block `b` gives the expiration lists back in order when applied to and reverted from the
ledger of the chain below it (C02's `ExpStable`) -/
def StableD (U : Nat → Blk) (D : Nat → List Diff) (b : Nat) : Prop :=
  ∀ t, Chain U (b :: t) → ExpStable (ledgerOfChain D t) (D b)

open Verif.Elements in
theorem KeyedEq.apply {a b : Store} (h : KeyedEq a b) (ds : List Diff) :
    KeyedEq (applyDiffs a ds) (applyDiffs b ds) := by
  obtain ⟨h1, h2, h3⟩ := h
  refine ⟨?_, ?_, ?_⟩
  · rw [applyDiffs_sc, applyDiffs_sc, h1]
  · rw [applyDiffs_sf, applyDiffs_sf, h2]
  · rw [applyDiffs_fc, applyDiffs_fc, h3]

open Verif.Elements in
/-- reverting a block from anything that agrees, on the keyed buckets, with the ledger after the
block gives the ledger before the block -/
theorem KeyedEq.revert {s s0 : Store} {ds : List Diff} (h : KeyedEq s (applyDiffs s0 ds)) (hw : WF s0 ds) :
    KeyedEq (revertDiffs s ds.reverse) s0 := by
  obtain ⟨h1, h2, h3⟩ := h
  have hk := revertDiffs_applyDiffs_keyed s0 ds hw
  refine ⟨?_, ?_, ?_⟩
  · rw [revertDiffs_sc, h1, ← revertDiffs_sc]; exact hk.1
  · rw [revertDiffs_sf, h2, ← revertDiffs_sf]; exact hk.2.1
  · rw [revertDiffs_fc, h3, ← revertDiffs_fc]; exact hk.2.2.1

open Verif.Elements in
theorem revert_exact {s0 : Store} {ds : List Diff} (hw : WF s0 ds) (hs : ExpStable s0 ds) :
    revertDiffs (applyDiffs s0 ds) ds.reverse = s0 := by
  have hk := revertDiffs_applyDiffs_keyed s0 ds hw
  exact Store.ext' hk.1 hk.2.1 hk.2.2.1 hs hk.2.2.2.1 hk.2.2.2.2

/-- a chain whose head is not genesis splits into the head and the chain of its parent -/
theorem chain_split {U : Nat → Blk} {l : List Nat} {i : Nat} (hc : Chain U l) (hh : l.head? = some i) (hi : i ≠ 0) :
    ∃ t, l = i :: t ∧ Chain U t ∧ t.head? = some (par U i) := by
  cases hc with
  | gen => simp at hh; exact absurd hh.symm hi
  | @cons a b t ha hp ht =>
    simp at hh; subst hh
    exact ⟨b :: t, rfl, ht, by simp [hp]⟩

theorem chain_cons {U : Nat → Blk} {l : List Nat} {i b : Nat} (hc : Chain U l) (hh : l.head? = some i)
    (hp : par U b = i) (hb : b ≠ 0) : Chain U (b :: l) := by
  cases l with
  | nil => simp at hh
  | cons x t =>
    simp at hh; subst hh
    exact Chain.cons hb hp hc

/-- **keyed buckets, any path**: folding a contiguous path over a ledger that agrees with the
ledger of the start index's chain gives a ledger that agrees with the ledger of the end index's
chain -/
theorem foldUpd_keyed {U : Nat → Blk} {D : Nat → List Diff} (hD : WFD U D) (us : List Upd) :
    ∀ (idx idx' : Option Nat) (l : List Nat) (s : Store), ChainTo U idx l → KeyedEq s (ledgerOfChain D l) →
      walk U idx us = some idx' →
      ∃ l', ChainTo U idx' l' ∧ KeyedEq (foldUpd D s us) (ledgerOfChain D l') := by
  induction us with
  | nil =>
    intro idx idx' l s hl hs hw
    simp only [walk, Option.some.injEq] at hw
    subst hw
    exact ⟨l, hl, hs⟩
  | cons u us ih =>
    intro idx idx' l s hl hs hw
    simp only [walk] at hw
    cases hstep : stepUpd U idx u with
    | none => rw [hstep] at hw; simp at hw
    | some idx1 =>
      rw [hstep] at hw
      simp only [Option.bind_some] at hw
      cases idx with
      | none =>
        cases u with
        | revert b => simp [stepUpd] at hstep
        | apply b =>
          simp only [stepUpd] at hstep
          split at hstep
          · rename_i hb0
            subst hb0
            simp only [Option.some.injEq] at hstep
            subst hstep
            simp only [ChainTo] at hl
            subst hl
            exact ih (some 0) idx' [0] _ ⟨Chain.gen, rfl⟩ (hs.apply (D 0)) hw
          · cases hstep
      | some i =>
        obtain ⟨hc, hh⟩ := hl
        cases u with
        | revert b =>
          simp only [stepUpd] at hstep
          split at hstep
          · rename_i hbi
            obtain ⟨hb, hi0⟩ := hbi
            subst hb
            simp only [Option.some.injEq] at hstep
            subst hstep
            obtain ⟨t, rfl, ht, hth⟩ := chain_split hc hh hi0
            exact ih (some (par U b)) idx' t _ ⟨ht, hth⟩ (KeyedEq.revert hs (hD b t hc)) hw
          · cases hstep
        | apply b =>
          simp only [stepUpd] at hstep
          split at hstep
          · rename_i hbi
            obtain ⟨hp, hb0⟩ := hbi
            simp only [Option.some.injEq] at hstep
            subst hstep
            exact ih (some b) idx' (b :: l) _ ⟨chain_cons hc hh hp hb0, rfl⟩ (hs.apply (D b)) hw
          · cases hstep

/-- **everything, paths whose reverted blocks are `ExpStable`**: starting from exactly the ledger
of the start index's chain the fold is exactly the ledger of the end index's chain -/
theorem foldUpd_exact {U : Nat → Blk} {D : Nat → List Diff} (hD : WFD U D) (us : List Upd) :
    ∀ (idx idx' : Option Nat) (l : List Nat), ChainTo U idx l →
      (∀ b, Upd.revert b ∈ us → StableD U D b) →
      walk U idx us = some idx' →
      ∃ l', ChainTo U idx' l' ∧ foldUpd D (ledgerOfChain D l) us = ledgerOfChain D l' := by
  induction us with
  | nil =>
    intro idx idx' l hl _ hw
    simp only [walk, Option.some.injEq] at hw
    subst hw
    exact ⟨l, hl, rfl⟩
  | cons u us ih =>
    intro idx idx' l hl hst hw
    have hst' : ∀ b, Upd.revert b ∈ us → StableD U D b := fun b hb => hst b (List.mem_cons_of_mem _ hb)
    simp only [walk] at hw
    cases hstep : stepUpd U idx u with
    | none => rw [hstep] at hw; simp at hw
    | some idx1 =>
      rw [hstep] at hw
      simp only [Option.bind_some] at hw
      cases idx with
      | none =>
        cases u with
        | revert b => simp [stepUpd] at hstep
        | apply b =>
          simp only [stepUpd] at hstep
          split at hstep
          · rename_i hb0
            subst hb0
            simp only [Option.some.injEq] at hstep
            subst hstep
            simp only [ChainTo] at hl
            subst hl
            exact ih (some 0) idx' [0] ⟨Chain.gen, rfl⟩ hst' hw
          · cases hstep
      | some i =>
        obtain ⟨hc, hh⟩ := hl
        cases u with
        | revert b =>
          simp only [stepUpd] at hstep
          split at hstep
          · rename_i hbi
            obtain ⟨hb, hi0⟩ := hbi
            subst hb
            simp only [Option.some.injEq] at hstep
            subst hstep
            obtain ⟨t, rfl, ht, hth⟩ := chain_split hc hh hi0
            have hs := hst b (List.mem_cons_self ..) t hc
            obtain ⟨l', h1, h2⟩ := ih (some (par U b)) idx' t ⟨ht, hth⟩ hst' hw
            refine ⟨l', h1, ?_⟩
            simp only [foldUpd, ledgerOfChain]
            rw [revert_exact (hD b t hc) hs]
            exact h2
          · cases hstep
        | apply b =>
          simp only [stepUpd] at hstep
          split at hstep
          · rename_i hbi
            obtain ⟨hp, hb0⟩ := hbi
            simp only [Option.some.injEq] at hstep
            subst hstep
            exact ih (some b) idx' (b :: l) ⟨chain_cons hc hh hp hb0, rfl⟩ hst' hw
          · cases hstep

end Verif.Chain
