/-
Helper lemmas about the pool model (`Verif/Model/Pool.lean`).  Core only.
-/
import Verif.Model.Pool

namespace Verif.Pool

/-! ## `upd` -/

@[simp] theorem upd_same (f : Nat → Option Nat) (k : Nat) (v : Option Nat) : upd f k v k = v := by
  simp [upd]

@[simp] theorem upd_other (f : Nat → Option Nat) (k k' : Nat) (v : Option Nat) (h : k' ≠ k) :
    upd f k v k' = f k' := by
  simp [upd, h]

/-- ids of the transactions of both pool slices -/
def poolIds (p : Pool) : List Nat := (p.txns ++ p.v2txns).map (·.id)

/-! ## the index map describes both slices exactly -/

/-- what the accumulator of a loop knows about positions: `other` is the slice not being
appended to -/
structure AccIdx (other : List Txn) (a : Acc) : Prop where
  oth : ∀ i t, other[i]? = some t → a.idx t.id = some i
  kep : ∀ i t, a.kept[i]? = some t → a.idx t.id = some i
  mem : ∀ id, (a.idx id).isSome → id ∈ (other ++ a.kept).map (·.id)

theorem AccIdx.push {other : List Txn} {a : Acc} (h : AccIdx other a) (t : Txn)
    (hn : a.idx t.id = none) : AccIdx other (push a t) := by
  constructor
  · intro i t' ht'
    have := h.oth i t' ht'
    have hne : t'.id ≠ t.id := by
      intro e; rw [e] at this; rw [hn] at this; cases this
    simp [Verif.Pool.push, upd_other _ _ _ _ hne, this]
  · intro i t' ht'
    simp only [Verif.Pool.push] at ht' ⊢
    by_cases hi : i < a.kept.length
    · rw [List.getElem?_append_left hi] at ht'
      have := h.kep i t' ht'
      have hne : t'.id ≠ t.id := by
        intro e; rw [e] at this; rw [hn] at this; cases this
      simp [upd_other _ _ _ _ hne, this]
    · have hi' : a.kept.length ≤ i := Nat.le_of_not_lt hi
      rw [List.getElem?_append_right hi'] at ht'
      have : i - a.kept.length = 0 := by
        cases hk : i - a.kept.length with
        | zero => rfl
        | succ n => rw [hk] at ht'; simp at ht'
      rw [this] at ht'
      simp at ht'
      subst ht'
      have : i = a.kept.length := by omega
      subst this
      simp
  · intro id hid
    simp only [Verif.Pool.push] at hid ⊢
    by_cases he : id = t.id
    · subst he; simp
    · rw [upd_other _ _ _ _ he] at hid
      have := h.mem id hid
      simp only [List.map_append, List.mem_append] at this ⊢
      rcases this with h1 | h2
      · exact Or.inl h1
      · exact Or.inr (Or.inl h2)

theorem refillStep_accIdx {cfg l v2 other a} (h : AccIdx other a) (t : Txn) :
    AccIdx other (refillStep cfg l v2 a t) := by
  unfold refillStep
  split
  · exact h
  · rename_i hn
    split
    · exact h.push t (by simpa using hn)
    · exact h

theorem refill_accIdx {cfg l v2 other} : ∀ (ts : List Txn) (a : Acc), AccIdx other a →
    AccIdx other (refill cfg l v2 a ts)
  | [], _, h => h
  | t :: ts, a, h => refill_accIdx ts _ (refillStep_accIdx h t)

/-- the pool-level statement -/
structure IdxOK (p : Pool) : Prop where
  v1 : ∀ i t, p.txns[i]? = some t → p.indices t.id = some i
  v2 : ∀ i t, p.v2txns[i]? = some t → p.indices t.id = some i
  mem : ∀ id, (p.indices id).isSome → id ∈ poolIds p

theorem rebuild_idxOK (cfg : Cfg) (p : Pool) : IdxOK (rebuild cfg p) := by
  have h0 : AccIdx [] (⟨MidState.empty, fun _ => none, 0, []⟩ : Acc) :=
    ⟨by simp, by simp, by simp⟩
  have h1 := refill_accIdx (cfg := cfg) (l := p.led) (v2 := false) (p.txns ++ p.lastReverted) _ h0
  have h1' : AccIdx (refill cfg p.led false ⟨MidState.empty, fun _ => none, 0, []⟩ (p.txns ++ p.lastReverted)).kept
      { refill cfg p.led false ⟨MidState.empty, fun _ => none, 0, []⟩ (p.txns ++ p.lastReverted) with kept := [] } :=
    ⟨h1.kep, by simp, by intro id hid; have := h1.mem id hid; simpa using this⟩
  have h2 := refill_accIdx (cfg := cfg) (l := p.led) (v2 := true) (p.v2txns ++ p.lastRevertedV2) _ h1'
  exact ⟨h2.oth, h2.kep, h2.mem⟩

theorem rebuild_ms (cfg : Cfg) (p : Pool) : (rebuild cfg p).ms.isSome = true := rfl

theorem revalidate_ms (cfg : Cfg) (p : Pool) : (revalidate cfg p).ms.isSome = true := by
  unfold revalidate
  split
  · rename_i h; simp at h; exact h.1
  · exact rebuild_ms _ _

/-- the invariant carried through histories: whenever the mid-state is present, the index map
is exact -/
def Inv (p : Pool) : Prop := p.ms.isSome = true → IdxOK p

theorem revalidate_idxOK (cfg : Cfg) (p : Pool) (h : Inv p) : IdxOK (revalidate cfg p) := by
  unfold revalidate
  split
  · rename_i hc; simp at hc; exact h hc.1
  · exact rebuild_idxOK _ _

/-! ## lookups -/

theorem lookupIn_some {ts : List Txn} {idx : Nat → Option Nat} {id : Nat} {t : Txn}
    (h : lookupIn ts idx id = some t) : t ∈ ts ∧ t.id = id := by
  unfold lookupIn at h
  split at h
  · cases h
  · split at h
    · cases h
    · rename_i i _ t' ht'
      split at h
      · cases h
        exact ⟨List.mem_of_getElem? ht', by assumption⟩
      · cases h

theorem lookupIn_of_mem {ts : List Txn} {idx : Nat → Option Nat} {t : Txn}
    (hidx : ∀ i t, ts[i]? = some t → idx t.id = some i) (h : t ∈ ts) :
    lookupIn ts idx t.id = some t := by
  obtain ⟨i, hi⟩ := List.getElem?_of_mem h
  have := hidx i t hi
  simp [lookupIn, this, hi]

theorem lookupIn_iff {ts : List Txn} {idx : Nat → Option Nat}
    (hidx : ∀ i t, ts[i]? = some t → idx t.id = some i) (id : Nat) (t : Txn) :
    lookupIn ts idx id = some t ↔ t ∈ ts ∧ t.id = id := by
  constructor
  · exact lookupIn_some
  · rintro ⟨hm, rfl⟩; exact lookupIn_of_mem hidx hm

theorem lookupIn_none_iff {ts : List Txn} {idx : Nat → Option Nat}
    (hidx : ∀ i t, ts[i]? = some t → idx t.id = some i) (id : Nat) :
    lookupIn ts idx id = none ↔ ∀ t ∈ ts, t.id ≠ id := by
  constructor
  · intro h t ht e
    have := (lookupIn_iff hidx id t).2 ⟨ht, e⟩
    rw [h] at this; cases this
  · intro h
    cases hl : lookupIn ts idx id with
    | none => rfl
    | some t => have := lookupIn_some hl; exact absurd this.2 (h t this.1)

/-! ## the submission loop -/

def sumW (ts : List Txn) : Nat := (ts.map (·.weight)).sum

@[simp] theorem sumW_nil : sumW [] = 0 := rfl
@[simp] theorem sumW_cons (t : Txn) (ts : List Txn) : sumW (t :: ts) = t.weight + sumW ts := by
  simp [sumW]
@[simp] theorem sumW_append (a b : List Txn) : sumW (a ++ b) = sumW a + sumW b := by
  simp [sumW]

/-- everything the submission loop does to the accumulator, in one statement: it appends a
sublist `new` of the set, whose ids were all unknown; ids outside `new` keep their entry; known ids
stay known; if it completes, every id of the set is known afterwards; the weight grows by the
weight of `new`. -/
theorem addLoop_props (cfg : Cfg) (l : Ledger) (v2 : Bool) : ∀ (set : List Txn) (a : Acc), ∃ new : List Txn,
    (addLoop cfg l v2 a set).1.kept = a.kept ++ new ∧
    new.Sublist set ∧
    (∀ t ∈ new, a.idx t.id = none) ∧
    (∀ id, id ∉ new.map (·.id) → (addLoop cfg l v2 a set).1.idx id = a.idx id) ∧
    (∀ id, (a.idx id).isSome → ((addLoop cfg l v2 a set).1.idx id).isSome) ∧
    ((addLoop cfg l v2 a set).2 = true → ∀ t ∈ set, ((addLoop cfg l v2 a set).1.idx t.id).isSome) ∧
    (addLoop cfg l v2 a set).1.weight = a.weight + sumW new
  | [], a => ⟨[], by simp [addLoop]⟩
  | t :: ts, a => by
    unfold addLoop
    by_cases hk : (a.idx t.id).isSome = true
    · simp only [hk, if_true]
      obtain ⟨new, h1, h2, h3, h4, h5, h6, h7⟩ := addLoop_props cfg l v2 ts a
      refine ⟨new, h1, h2.cons _, h3, h4, h5, ?_, h7⟩
      intro hc t' ht'
      rcases List.mem_cons.1 ht' with rfl | ht'
      · exact h5 _ hk
      · exact h6 hc t' ht'
    · simp only [hk, Bool.false_eq_true, ↓reduceIte]
      have hn : a.idx t.id = none := by simpa using hk
      by_cases hv : txValid cfg l a.ms v2 t = true
      · simp only [hv, if_true]
        obtain ⟨new, h1, h2, h3, h4, h5, h6, h7⟩ := addLoop_props cfg l v2 ts (push a t)
        refine ⟨t :: new, ?_, h2.cons_cons _, ?_, ?_, ?_, ?_, ?_⟩
        · rw [h1]; simp [push]
        · intro t' ht'
          rcases List.mem_cons.1 ht' with rfl | ht'
          · exact hn
          · have := h3 t' ht'
            by_cases he : t'.id = t.id
            · simp [push, he] at this
            · simpa [push, upd_other _ _ _ _ he] using this
        · intro id hid
          simp only [List.map_cons, List.mem_cons, not_or] at hid
          rw [h4 id hid.2]
          simp [push, upd_other _ _ _ _ hid.1]
        · intro id hid
          apply h5
          by_cases he : id = t.id
          · subst he; simp [push]
          · simpa [push, upd_other _ _ _ _ he] using hid
        · intro hc t' ht'
          rcases List.mem_cons.1 ht' with rfl | ht'
          · apply h5; simp [push]
          · exact h6 hc t' ht'
        · rw [h7]; simp [push]; omega
      · simp only [hv, Bool.false_eq_true, ↓reduceIte]
        exact ⟨[], by simp⟩

theorem addLoop_accIdx {cfg l v2 other} : ∀ (set : List Txn) (a : Acc), AccIdx other a →
    AccIdx other (addLoop cfg l v2 a set).1
  | [], _, h => by simpa [addLoop] using h
  | t :: ts, a, h => by
    unfold addLoop
    by_cases hk : (a.idx t.id).isSome = true
    · simp only [hk, if_true]; exact addLoop_accIdx ts a h
    · simp only [hk, Bool.false_eq_true, ↓reduceIte]
      by_cases hv : txValid cfg l a.ms v2 t = true
      · simp only [hv, if_true]
        exact addLoop_accIdx ts _ (h.push t (by simpa using hk))
      · simp only [hv, Bool.false_eq_true, ↓reduceIte]; exact h

/-- deleting the ids of the appended transactions restores the index map -/
theorem delIds_apply (f : Nat → Option Nat) : ∀ (ts : List Txn) (id : Nat),
    delIds f ts id = if id ∈ ts.map (·.id) then none else f id
  | [], id => by simp [delIds]
  | t :: ts, id => by
    rw [delIds, delIds_apply _ ts id]
    by_cases h1 : id ∈ ts.map (·.id)
    · simp [h1]
    · by_cases h2 : id = t.id
      · subst h2; simp [h1]
      · simp [h1, h2, upd_other _ _ _ _ h2]

/-! ## `checkTxnSet` and `addSet` -/

theorem checkTxnSet_eq (cfg : Cfg) (p : Pool) (v2 : Bool) : ∀ (set : List Txn) (ms : MidState),
    checkTxnSet cfg p v2 ms set =
      if seqValid cfg p.led v2 ms set = true then some (set.all fun t => (p.indices t.id).isSome) else none
  | [], ms => by simp [checkTxnSet, seqValid]
  | t :: ts, ms => by
    rw [checkTxnSet, seqValid]
    by_cases hv : txValid cfg p.led ms v2 t = true
    · rw [checkTxnSet_eq cfg p v2 ts]
      by_cases hs : seqValid cfg p.led v2 (applyTx ms t) ts = true <;> simp [hv, hs]
    · simp [hv]

/-- the slice a submission appends to, and the other one -/
def own (v2 : Bool) (p : Pool) : List Txn := if v2 then p.v2txns else p.txns
def other (v2 : Bool) (p : Pool) : List Txn := if v2 then p.txns else p.v2txns

theorem IdxOK.acc {p : Pool} (h : IdxOK p) (v2 : Bool) (ms : MidState) :
    AccIdx (other v2 p) ⟨ms, p.indices, p.weight, own v2 p⟩ := by
  cases v2
  · refine ⟨h.v2, h.v1, ?_⟩
    intro id hid
    have := h.mem id hid
    simp only [poolIds, List.map_append, List.mem_append] at this
    simp only [other, own, List.map_append, List.mem_append]
    simpa [or_comm] using this
  · exact ⟨h.v1, h.v2, h.mem⟩

/-- outcome of a submission, for a pool whose mid-state is present -/
inductive AddOutcome (cfg : Cfg) (v2 : Bool) (p : Pool) (set : List Txn) : Pool × Res → Prop
  | invalid : seqValid cfg p.led v2 MidState.empty set = false → AddOutcome cfg v2 p set (p, .err)
  | known : seqValid cfg p.led v2 MidState.empty set = true → (∀ t ∈ set, (p.indices t.id).isSome) →
      AddOutcome cfg v2 p set (p, .known)
  | conflict (p' : Pool) : seqValid cfg p.led v2 MidState.empty set = true →
      (¬ ∀ t ∈ set, (p.indices t.id).isSome) →
      p'.txns = p.txns → p'.v2txns = p.v2txns → p'.indices = p.indices → p'.weight = p.weight →
      p'.led = p.led → p'.lastReverted = p.lastReverted → p'.lastRevertedV2 = p.lastRevertedV2 →
      p'.ms = none → AddOutcome cfg v2 p set (p', .err)
  | added (p' : Pool) (new : List Txn) : seqValid cfg p.led v2 MidState.empty set = true →
      own v2 p' = own v2 p ++ new → other v2 p' = other v2 p → new ≠ [] → new.Sublist set →
      (∀ t ∈ new, p.indices t.id = none) →
      (∀ id, id ∉ new.map (·.id) → p'.indices id = p.indices id) →
      (∀ t ∈ set, (p'.indices t.id).isSome) →
      p'.weight = p.weight + sumW new → p'.led = p.led →
      p'.lastReverted = p.lastReverted → p'.lastRevertedV2 = p.lastRevertedV2 →
      p'.ms.isSome → (IdxOK p → IdxOK p') → AddOutcome cfg v2 p set (p', .ok)

theorem setOwn_own (v2 : Bool) (p : Pool) (l : List Txn) : own v2 (setOwn v2 p l) = l := by
  cases v2 <;> simp [own, setOwn]
theorem setOwn_other (v2 : Bool) (p : Pool) (l : List Txn) : other v2 (setOwn v2 p l) = other v2 p := by
  cases v2 <;> simp [other, setOwn]

theorem addSet_outcome (cfg : Cfg) (v2 : Bool) (p : Pool) (set : List Txn) (hms : p.ms.isSome = true) :
    AddOutcome cfg v2 p set (addSet cfg v2 p set) := by
  unfold addSet
  rw [checkTxnSet_eq]
  by_cases hv : seqValid cfg p.led v2 MidState.empty set = true
  · simp only [hv, if_true]
    by_cases hall : (set.all fun t => (p.indices t.id).isSome) = true
    · simp only [hall]
      exact .known hv (by simpa using hall)
    · have hall' : (set.all fun t => (p.indices t.id).isSome) = false := by simpa using hall
      simp only [hall']
      obtain ⟨ms, hmse⟩ := Option.isSome_iff_exists.1 hms
      simp only [hmse]
      have hown : (if v2 = true then p.v2txns else p.txns) = own v2 p := rfl
      rw [hown]
      obtain ⟨new, h1, h2, h3, h4, h5, h6, h7⟩ := addLoop_props cfg p.led v2 set ⟨ms, p.indices, p.weight, own v2 p⟩
      have hacc := fun (hi : IdxOK p) => addLoop_accIdx (cfg := cfg) (l := p.led) (v2 := v2) set _ (hi.acc v2 ms)
      generalize hr : addLoop cfg p.led v2 ⟨ms, p.indices, p.weight, own v2 p⟩ set = r at h1 h4 h5 h6 h7 hacc
      obtain ⟨a, b⟩ := r
      simp only at h1 h4 h5 h6 h7 hacc
      cases b
      · -- conflict: rolled back
        simp only
        have hk : a.kept.take (own v2 p).length = own v2 p := by rw [h1]; simp
        have hd : a.kept.drop (own v2 p).length = new := by rw [h1]; simp
        have hidx : delIds a.idx (a.kept.drop (own v2 p).length) = p.indices := by
          funext id
          rw [hd, delIds_apply]
          by_cases hm : id ∈ new.map (·.id)
          · simp only [hm, if_true]
            obtain ⟨t, ht, rfl⟩ := List.mem_map.1 hm
            exact (h3 t ht).symm
          · simp only [hm, if_false]; exact h4 id hm
        rw [hk, hidx]
        refine .conflict _ hv (by simpa using hall) ?_ ?_ rfl rfl ?_ ?_ ?_ rfl
        all_goals cases v2 <;> simp [setOwn, own]
      · -- completed
        simp only
        have hne : new ≠ [] := by
          intro e
          subst e
          have : ∀ t ∈ set, (p.indices t.id).isSome := by
            intro t ht
            have := h6 rfl t ht
            rwa [h4 t.id (by simp)] at this
          have : (set.all fun t => (p.indices t.id).isSome) = true := by simpa using this
          exact hall this
        refine .added _ new hv ?_ ?_ hne h2 h3 h4 (h6 rfl) h7 ?_ ?_ ?_ rfl ?_
        · cases v2 <;> simp [own, setOwn, h1]
        · cases v2 <;> simp [other, setOwn]
        · cases v2 <;> simp [setOwn]
        · cases v2 <;> simp [setOwn]
        · cases v2 <;> simp [setOwn]
        · intro hi
          have := hacc hi
          cases v2
          · exact ⟨by simpa [setOwn] using this.kep, by simpa [setOwn, other] using this.oth, by
              intro id hid
              have := this.mem id (by simpa [setOwn] using hid)
              simp only [poolIds, setOwn, other, List.map_append, List.mem_append] at this ⊢
              simpa [or_comm] using this⟩
          · exact ⟨by simpa [setOwn, other] using this.oth, by simpa [setOwn] using this.kep, by
              intro id hid
              have := this.mem id (by simpa [setOwn] using hid)
              simpa [poolIds, setOwn, other] using this⟩
  · have hv' : seqValid cfg p.led v2 MidState.empty set = false := by simpa using hv
    simp only [hv', Bool.false_eq_true, if_false]
    exact .invalid hv'

/-! ## reachable states -/

theorem IdxOK.isSome_iff {p : Pool} (h : IdxOK p) (id : Nat) : (p.indices id).isSome = true ↔ id ∈ poolIds p := by
  constructor
  · exact h.mem id
  · intro hm
    simp only [poolIds, List.map_append, List.mem_append, List.mem_map] at hm
    rcases hm with ⟨t, ht, rfl⟩ | ⟨t, ht, rfl⟩
    · obtain ⟨i, hi⟩ := List.getElem?_of_mem ht
      simp [h.v1 i t hi]
    · obtain ⟨i, hi⟩ := List.getElem?_of_mem ht
      simp [h.v2 i t hi]

theorem reorgEnd_ms (p : Pool) (b : Option Blk) (flags : List Bool) : (reorgEnd p b flags).ms = none := by
  unfold reorgEnd; cases b <;> rfl

theorem reorg_ms (p : Pool) (rev app : List Blk) (flags : List Bool) : (reorg p rev app flags).ms = none :=
  reorgEnd_ms _ _ _

theorem AddOutcome.inv {cfg v2 p set r} (h : AddOutcome cfg v2 p set r) (hi : IdxOK p) : Inv r.1 := by
  cases h with
  | invalid _ => exact fun _ => hi
  | known _ _ => exact fun _ => hi
  | conflict p' _ _ _ _ _ _ _ _ _ hms => intro hc; rw [hms] at hc; cases hc
  | added p' new _ _ _ _ _ _ _ _ _ _ _ _ _ hk => exact fun _ => hk hi

theorem step_inv (cfg : Cfg) (p : Pool) (h : Inv p) (op : Op) : Inv (step cfg p op) := by
  cases op with
  | reorg rev app flags => intro hc; simp [step, reorg_ms] at hc
  | addV1 set =>
    exact (addSet_outcome cfg false _ set (revalidate_ms cfg p)).inv (revalidate_idxOK cfg p h)
  | addV2 path set =>
    simp only [step, addV2PoolTransactions]
    cases rebase cfg set path with
    | none => exact fun _ => revalidate_idxOK cfg p h
    | some set' => exact (addSet_outcome cfg true _ set' (revalidate_ms cfg p)).inv (revalidate_idxOK cfg p h)
  | query => exact fun _ => revalidate_idxOK cfg p h

theorem run_inv (cfg : Cfg) : ∀ (ops : List Op) (p : Pool), Inv p → Inv (run cfg p ops)
  | [], _, h => h
  | op :: ops, p, h => run_inv cfg ops _ (step_inv cfg p h op)

theorem init_inv (l : Ledger) : Inv (Pool.init l) := by
  intro h; simp [Pool.init] at h

end Verif.Pool
