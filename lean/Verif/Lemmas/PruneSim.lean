/-
C19, the simulation pruned ~ unpruned: a pruned node (`PInv U mp p`) and an unpruned node
(`PInv U mu 0`) that received the same submissions have the same states, best chain and
notification count, and the same records except that the pruned node holds header-only records
where the unpruned one holds full ones.  `AddBlocks` keeps this relation with identical results,
unless the reorg has to revert a pruned block (fork point below height `p - 1`), in which case the
pruned node answers `reorgFailed` and keeps its best chain.
-/
import Verif.Lemmas.Prune

namespace Verif.Chain

/-- `mp` is a pruned copy (frontier `p`) of the unpruned node `mu` -/
structure Sim (U : Nat → Blk) (mp mu : Mgr) (p : Nat) : Prop where
  pinv : PInv U mp p
  uinv : PInv U mu 0
  states : ∀ i, mp.states i = mu.states i
  best : mp.best = mu.best
  notified : mp.notified = mu.notified
  /-- a record is the same on both nodes or pruned on `mp` and complete on `mu` -/
  recs : ∀ i, mp.recs i = mu.recs i ∨ (mp.recs i = some ⟨false, false⟩ ∧ mu.recs i = some ⟨true, true⟩)

theorem Sim.refl {U m} (h : Inv U m) : Sim U m m 0 :=
  ⟨h.toPInv, h.toPInv, fun _ => rfl, rfl, rfl, fun _ => Or.inl rfl⟩

theorem Sim.tip {U mp mu p} (hs : Sim U mp mu p) : mp.tip = mu.tip := by simp [Mgr.tip, hs.best]

/-- a header-only record sits on the best chain below the frontier -/
theorem PInv.pruned_iff {U m p} (h : PInv U m p) {i : Nat} (hr : m.recs i = some ⟨false, false⟩) :
    i ∈ m.best ∧ (U i).height < p := by
  have hm : i ∈ m.best := by
    apply Classical.byContradiction
    intro hn
    have := h.sidebody i _ hr hn
    simp at this
  refine ⟨hm, ?_⟩
  apply Nat.lt_of_not_le
  intro hle
  have := h.stored i hm hle
  rw [hr] at this
  simp at this

/-- the records differ only on the pruned best-chain blocks below the frontier -/
theorem Sim.recs_eq {U mp mu p} (hs : Sim U mp mu p) {i : Nat}
    (hi : ¬ (i ∈ mp.best ∧ (U i).height < p)) : mp.recs i = mu.recs i := by
  rcases hs.recs i with e | ⟨e, _⟩
  · exact e
  · exact absurd (hs.pinv.pruned_iff e) hi

/-- and on those the unpruned node still has body and supplement -/
theorem Sim.recs_pruned {U mp mu p} (hs : Sim U mp mu p) {i : Nat}
    (hi : i ∈ mp.best) (hlt : (U i).height < p) :
    mp.recs i = some ⟨false, false⟩ ∧ mu.recs i = some ⟨true, true⟩ :=
  ⟨hs.pinv.pruned i hi hlt, hs.uinv.stored i (hs.best ▸ hi) (Nat.zero_le _)⟩

/-- pruning the pruned copy keeps the relation (the frontier moves up) -/
theorem sim_prune {U mp mu p} (hs : Sim U mp mu p) (height : Nat) :
    Sim U (prune mp height) mu (max p (min height mp.best.length)) := by
  obtain ⟨p1, p2, p3, p4⟩ := prune_go_spec (min height (mp.tipHeight + 1)) mp
  refine ⟨prune_p hs.pinv height, hs.uinv, ?_, ?_, ?_, ?_⟩
  · intro i
    have : (prune mp height).states = mp.states := p2
    rw [this]; exact hs.states i
  · have : (prune mp height).best = mp.best := p1
    rw [this]; exact hs.best
  · have : (prune mp height).notified = mp.notified := p3
    rw [this]; exact hs.notified
  · intro i
    have := p4 i
    rcases this with e | ⟨e, _, k, _, hk⟩
    · have e' : (prune mp height).recs i = mp.recs i := e
      rw [e']; exact hs.recs i
    · right
      have e' : (prune mp height).recs i = some ⟨false, false⟩ := e
      exact ⟨e', hs.uinv.stored i (hs.best ▸ bestAt_mem hk) (Nat.zero_le _)⟩

/-- an unpruned node never fails to revert -/
theorem revertN_u {U} (n : Nat) (m : Mgr) (h : PInv U m 0) (hn : n < m.best.length) :
    revertN U n m = ({ m with best := m.best.drop n }, none) ∧ PInv U { m with best := m.best.drop n } 0 := by
  have hw := h.toWInv
  have hlen := hw.length
  obtain ⟨c, hc, hres, hinvc, _, hcase⟩ := revertN_p (U := U) n m h hn
  rcases hcase with ⟨e, e2⟩ | ⟨hlt, _, hff⟩
  · subst e; exact ⟨Prod.ext hres e2, hinvc⟩
  · have := h.stored _ (hw.anc_mem (k := c) (by omega)) (Nat.zero_le _)
    rw [hff] at this; simp at this

theorem applyTip_sim {U mp mu p} (hs : Sim U mp mu p) {i : Nat} (hp : par U i = mp.tip) (hne : i ≠ 0)
    (hst : mp.states i = true) :
    (∃ mp' mu', applyTip U mp i = .ok mp' ∧ applyTip U mu i = .ok mu' ∧ Sim U mp' mu' p ∧
        Mono mp mp' ∧ mp'.best = i :: mp.best) ∨
    (applyTip U mp i = .error .invalidBlock ∧ applyTip U mu i = .error .invalidBlock) := by
  have hpu : par U i = mu.tip := by rw [← hs.tip]; exact hp
  have hstu : mu.states i = true := by rw [← hs.states]; exact hst
  -- the block is not on the best chain, hence stored identically on both nodes
  have hw := hs.pinv.toWInv
  have hhi : (U i).height = (U mp.tip).height + 1 := by
    have := (hs.pinv.core.closed i hst hne).2; rw [hp] at this; exact this
  have hnb : i ∉ mp.best := by
    intro hi; have := hw.mem_height_le hi; omega
  have hrec : mp.recs i = mu.recs i := hs.recs_eq (fun h => hnb h.1)
  rcases applyTip_p hs.pinv hp hne hst with ⟨mp', ok1, inv1, mono1, best1, ri1, si1, fr1⟩ | ⟨err1, not1, bad1⟩
  · rcases applyTip_p hs.uinv hpu hne hstu with ⟨mu', ok2, inv2, mono2, best2, ri2, si2, fr2⟩ | ⟨err2, not2, bad2⟩
    · left
      refine ⟨mp', mu', ok1, ok2, ⟨inv1, inv2, ?_, by rw [best1, best2, hs.best], by rw [mono1.notified, mono2.notified, hs.notified], ?_⟩, mono1, best1⟩
      · intro j
        by_cases e : j = i
        · subst e; rw [si1, si2]
        · rw [(fr1 j e).2, (fr2 j e).2]; exact hs.states j
      · intro j
        by_cases e : j = i
        · subst e; left; rw [ri1, ri2]
        · rw [(fr1 j e).1, (fr2 j e).1]; exact hs.recs j
    · -- the unpruned node rejects the body: so does the pruned one
      exfalso
      have h1 : (U i).bodyOk = true := by
        -- `mp` accepted: either the supplement was stored (then also on `mu`) or the body is valid
        by_cases hsup : mp.recs i = some ⟨true, true⟩
        · rw [hrec] at hsup; exact absurd hsup not2
        · -- the only other successful branch validates the body
          obtain ⟨r, hr⟩ := Option.isSome_iff_exists.mp (hs.pinv.core.staterec i hst)
          have hbody := hs.pinv.sidebody i r hr hnb
          have hpar : (U i).parent = mp.tip := hp
          cases r with
          | mk bd sp =>
            simp only at hbody; subst hbody
            cases sp with
            | true => exact absurd hr hsup
            | false =>
              cases hok : (U i).bodyOk with
              | true => rfl
              | false => simp [applyTip, Mgr.block, hr, hpar, hok] at ok1
      rw [h1] at bad2; simp at bad2
  · rcases applyTip_p hs.uinv hpu hne hstu with ⟨mu', ok2, inv2, mono2, best2, ri2, si2, fr2⟩ | ⟨err2, not2, bad2⟩
    · exfalso
      have h1 : (U i).bodyOk = true := by
        by_cases hsup : mu.recs i = some ⟨true, true⟩
        · rw [← hrec] at hsup; exact absurd hsup not1
        · obtain ⟨r, hr⟩ := Option.isSome_iff_exists.mp (hs.uinv.core.staterec i hstu)
          have hnbu : i ∉ mu.best := by rw [← hs.best]; exact hnb
          have hbody := hs.uinv.sidebody i r hr hnbu
          have hpar : (U i).parent = mu.tip := hpu
          cases r with
          | mk bd sp =>
            simp only at hbody; subst hbody
            cases sp with
            | true => exact absurd hr hsup
            | false =>
              cases hok : (U i).bodyOk with
              | true => rfl
              | false => simp [applyTip, Mgr.block, hr, hpar, hok] at ok2
      rw [h1] at bad1; simp at bad1
    · right; exact ⟨err1, err2⟩

theorem applyAll_sim {U p} : ∀ (l : List Nat) (mp mu : Mgr), Sim U mp mu p → Attach U mp mp.tip l →
    (applyAll U l mp).2 = (applyAll U l mu).2 ∧ Sim U (applyAll U l mp).1 (applyAll U l mu).1 p := by
  intro l
  induction l with
  | nil => intro mp mu hs _; exact ⟨rfl, hs⟩
  | cons x xs ih =>
    intro mp mu hs ⟨hp, hne, hst, hrest⟩
    rcases applyTip_sim hs hp hne hst with ⟨mp', mu', ok1, ok2, hs', mono1, best1⟩ | ⟨e1, e2⟩
    · have htip' : mp'.tip = x := by simp [Mgr.tip, best1]
      simp only [applyAll, ok1, ok2]
      exact ih mp' mu' hs' (htip' ▸ Attach.mono mono1 hrest)
    · simp only [applyAll, e1, e2]
      exact ⟨by simp, hs⟩

/-- **`reorgTo` on the two nodes**: identical outcome and the relation is kept, unless a pruned
block would have to be reverted — then the pruned node reports a missing block and the fork point
of the (common) reorg path lies more than one block below the frontier -/
theorem reorgTo_sim {U mp mu p} (hs : Sim U mp mu p) {t : Nat} (ht : mp.states t = true) :
    ((reorgTo U mp t).2 = (reorgTo U mu t).2 ∧ Sim U (reorgTo U mp t).1 (reorgTo U mu t).1 p) ∨
    ((reorgTo U mp t).2 = some .missingBlock ∧
      ∃ na nb, reorgPath U mu mu.tip t none =
          .ok ((List.range na).map (fun k => anc U k mu.tip), ((List.range nb).map (fun k => anc U k t)).reverse) ∧
        anc U na mu.tip = anc U nb t ∧ (U (anc U na mu.tip)).height + 1 < p) := by
  have hwp := hs.pinv.toWInv
  have hwu := hs.uinv.toWInv
  have htip := hs.tip
  have htu : mu.states t = true := by rw [← hs.states]; exact ht
  obtain ⟨na, nb, hna, hnb, hpath, hmeet, _, hleast⟩ := reorgPath_least hs.pinv.core hwp.tip_state ht
  obtain ⟨na', nb', hna', hnb', hpath', hmeet', _, hleast'⟩ := reorgPath_least hs.uinv.core hwu.tip_state htu
  have e1 : na = na' ∧ nb = nb' := by
    have a := hleast na' nb' (by rw [htip]; exact hna') hnb' (by rw [htip]; exact hmeet')
    have b := hleast' na nb (by rw [← htip]; exact hna) hnb (by rw [← htip]; exact hmeet)
    omega
  obtain ⟨rfl, rfl⟩ := e1
  have hlenp := hwp.length
  have hlenu := hwu.length
  obtain ⟨c, hc, hres, hinvc, hsupp, hcase⟩ := revertN_p (U := U) na mp hs.pinv (by omega)
  obtain ⟨hrev', hinvc'⟩ := revertN_u (U := U) na mu hs.uinv (by omega)
  have htipc := hwp.tip_drop (c := c) (by omega)
  rcases hcase with ⟨hcn, hnone⟩ | ⟨hcn, hmiss, hff⟩
  · subst hcn
    left
    have hrev : revertN U c mp = ({ mp with best := mp.best.drop c }, none) := Prod.ext hres hnone
    have hmid : Sim U { mp with best := mp.best.drop c } { mu with best := mu.best.drop c } p :=
      ⟨hinvc, hinvc', hs.states, by simp [hs.best], hs.notified, hs.recs⟩
    have hatt : Attach U ({ mp with best := mp.best.drop c } : Mgr)
        ({ mp with best := mp.best.drop c } : Mgr).tip ((List.range nb).map (fun k => anc U k t)).reverse := by
      rw [htipc, hmeet]; exact attach_anc hinvc.core ht nb hnb
    have hredp : reorgTo U mp t = applyAll U ((List.range nb).map (fun k => anc U k t)).reverse { mp with best := mp.best.drop c } := by
      simp only [reorgTo, hpath, List.length_map, List.length_range, hrev]
    have hredu : reorgTo U mu t = applyAll U ((List.range nb).map (fun k => anc U k t)).reverse { mu with best := mu.best.drop c } := by
      simp only [reorgTo, hpath', List.length_map, List.length_range, hrev']
    rw [hredp, hredu]
    exact applyAll_sim _ _ _ hmid hatt
  · right
    have hrev : revertN U na mp = ({ mp with best := mp.best.drop c }, some .missingBlock) := Prod.ext hres hmiss
    have hred : reorgTo U mp t = ({ mp with best := mp.best.drop c }, some .missingBlock) := by
      simp only [reorgTo, hpath, List.length_map, List.length_range, hrev]
    rw [hred]
    refine ⟨rfl, na, nb, hpath', hmeet', ?_⟩
    have h1 := (hs.pinv.core.anc_state hwp.tip_state c (by omega)).2
    have h2 := (hs.pinv.core.anc_state hwp.tip_state na hna).2
    have hcm := hwp.anc_mem (k := c) (by omega)
    have : (U (anc U c mp.tip)).height < p := by
      apply Nat.lt_of_not_le
      intro hle
      have := hs.pinv.stored _ hcm hle
      rw [hff] at this; simp at this
    rw [← htip]; omega

/-- the reorg step of `AddBlocks` on the two nodes -/
theorem maybeReorg_sim {U mp mu p} (hs : Sim U mp mu p) {cs : Nat} (hcs : mp.states cs = true) :
    ((maybeReorg U mp cs).2 = (maybeReorg U mu cs).2 ∧ Sim U (maybeReorg U mp cs).1 (maybeReorg U mu cs).1 p) ∨
    ((maybeReorg U mp cs).2 = some .reorgFailed ∧ (maybeReorg U mp cs).1.best = mp.best ∧
      (maybeReorg U mp cs).1.notified = mp.notified ∧ heavier U cs mu.tip = true ∧
      ∃ na nb, reorgPath U mu mu.tip cs none =
          .ok ((List.range na).map (fun k => anc U k mu.tip), ((List.range nb).map (fun k => anc U k cs)).reverse) ∧
        anc U na mu.tip = anc U nb cs ∧ (U (anc U na mu.tip)).height + 1 < p) := by
  have htip := hs.tip
  obtain ⟨b1, b2, b3, b4⟩ := rollback_p hs.pinv hcs
  unfold maybeReorg
  rw [← htip]
  cases hh : heavier U cs mp.tip with
  | false => left; simp [hs]
  | true =>
    simp only [if_true]
    rcases reorgTo_sim hs hcs with ⟨he, hsim⟩ | ⟨hmiss, hfork⟩
    · left
      rcases hrp : reorgTo U mp cs with ⟨m1p, e1p⟩
      rcases hru : reorgTo U mu cs with ⟨m1u, e1u⟩
      rw [hrp, hru] at he hsim
      simp only at he hsim
      subst he
      rw [hrp] at b1 b2 b3 b4
      simp only at b1 b2 b3 b4
      cases e1p with
      | none =>
        simp only
        refine ⟨by simp, ?_, ?_, hsim.states, hsim.best, by simp [hsim.notified], hsim.recs⟩
        · have i1 := hsim.pinv
          exact ⟨⟨i1.core.h0, i1.core.closed, i1.core.staterec⟩, i1.chain, i1.frontier, i1.recstate, i1.pruned, i1.stored, i1.sidebody, i1.valid, i1.validHdr⟩
        · have i1 := hsim.uinv
          exact ⟨⟨i1.core.h0, i1.core.closed, i1.core.staterec⟩, i1.chain, i1.frontier, i1.recstate, i1.pruned, i1.stored, i1.sidebody, i1.valid, i1.validHdr⟩
      | some e =>
        -- both roll back; the pruned rollback succeeds, hence the two rollbacks agree
        have hold : m1p.states mp.tip = true := by
          have := (reorgTo_p hs.pinv hcs).2.1
          rw [hrp] at this
          exact this.states _ hs.pinv.toWInv.tip_state
        rcases reorgTo_sim hsim hold with ⟨he2, hsim2⟩ | ⟨hmiss2, _⟩
        · rcases hr2p : reorgTo U m1p mp.tip with ⟨m2p, e2p⟩
          rcases hr2u : reorgTo U m1u mp.tip with ⟨m2u, e2u⟩
          rw [hr2p, hr2u] at he2 hsim2
          simp only at he2 hsim2
          subst he2
          cases e with
          | panic => simp only; exact ⟨by simp, hsim⟩
          | missingBlock | invalidBlock | tooLong =>
            simp only [hr2p, hr2u]
            cases e2p with
            | none => exact ⟨by simp, hsim2⟩
            | some e2 => cases e2 <;> exact ⟨by simp, hsim2⟩
        · rw [b1] at hmiss2; simp at hmiss2
    · right
      rcases hrp : reorgTo U mp cs with ⟨m1p, e1p⟩
      rw [hrp] at hmiss b1 b2 b3 b4
      simp only at hmiss b1 b2 b3 b4
      subst hmiss
      rcases hr2p : reorgTo U m1p mp.tip with ⟨m2p, e2p⟩
      rw [hr2p] at b1 b2 b3 b4
      simp only at b1 b2 b3 b4
      subst b1
      simp only [hr2p]
      exact ⟨by trivial, b4, b3.notified, by trivial, by rw [htip]; exact hfork⟩

/-- the per-block loop of `AddBlocks` on the two nodes: a block pruned on `mp` is skipped there
and found complete on `mu`; everything else is decided identically -/
theorem addLoop_sim {U p} (hU : WFU U) : ∀ (batch : List Nat) (mp mu : Mgr) (cs : Nat), Sim U mp mu p →
    mp.states cs = true →
    (addBlocks.go U batch mp cs).2 = (addBlocks.go U batch mu cs).2 ∧
    Sim U (addBlocks.go U batch mp cs).1 (addBlocks.go U batch mu cs).1 p ∧
    (addBlocks.go U batch mp cs).1.best = mp.best ∧
    (addBlocks.go U batch mp cs).1.states (addBlocks.go U batch mp cs).2.2 = true := by
  intro batch
  induction batch with
  | nil => intro mp mu cs hs hcs; exact ⟨rfl, hs, rfl, hcs⟩
  | cons b bs ih =>
    intro mp mu cs hs hcs
    have hst : ∀ i, mp.states i = mu.states i := hs.states
    have hsb : ∀ r, mp.recs b = some r → mp.states b = true := fun r hr => hs.pinv.recstate b r hr
    rcases hs.recs b with e | ⟨e1, e2⟩
    · -- same record on both nodes
      have hblk : mp.block b = mu.block b := by simp [Mgr.block, e]
      have hhdr : mp.header b = mu.header b := by simp [Mgr.header, e]
      unfold addBlocks.go
      rw [← hblk, ← hhdr, ← hst]
      by_cases h1 : mp.block b = some true
      · have hb : mp.states b = true := by
          simp only [Mgr.block] at h1
          cases hr : mp.recs b with
          | none => simp [hr] at h1
          | some r => exact hsb r hr
        simp only [h1, if_true]; exact ih mp mu b hs hb
      · simp only [h1, if_false]
        by_cases h2 : mp.header b = true ∧ (mp.block b).isNone = true
        · have hb : mp.states b = true := by
            obtain ⟨r, hr⟩ := Option.isSome_iff_exists.mp (by simpa [Mgr.header] using h2.1)
            exact hsb r hr
          simp only [h2, and_self, if_true]; exact ih mp mu b hs hb
        · simp only [h2, if_false]
          by_cases h3 : (U b).parent ≠ cs ∧ (!mp.states (U b).parent) = true
          · simp only [if_pos h3]; exact ⟨by simp, hs, by simp, hcs⟩
          · simp only [if_neg h3]
            have hpar : mp.states (par U b) = true := by
              by_cases e' : (U b).parent = cs
              · simpa [par, e'] using hcs
              · have : ¬ ((!mp.states (U b).parent) = true) := fun x => h3 ⟨e', x⟩
                simpa [par] using this
            cases hf : (U b).future with
            | true => simp only [if_true]; exact ⟨by simp, hs, by simp, hcs⟩
            | false =>
              cases hk : (U b).hdrOk with
              | false => simp only [Bool.not_false, if_true, Bool.false_eq_true, if_false]; exact ⟨by simp, hs, by simp, hcs⟩
              | true =>
                simp only [Bool.false_eq_true, if_false, Bool.not_true]
                have h1u : mu.block b ≠ some true := hblk ▸ h1
                have h2u : ¬ (mu.header b = true ∧ (mu.block b).isNone = true) := by rw [← hblk, ← hhdr]; exact h2
                have hparu : mu.states (par U b) = true := by rw [← hst]; exact hpar
                have hs' : Sim U { mp with states := upd mp.states b true, recs := upd mp.recs b (some ⟨true, false⟩) }
                    { mu with states := upd mu.states b true, recs := upd mu.recs b (some ⟨true, false⟩) } p := by
                  refine ⟨store_header_p hU hs.pinv h1 h2 hpar hk hf, store_header_p hU hs.uinv h1u h2u hparu hk hf, ?_, hs.best, hs.notified, ?_⟩
                  · intro j; by_cases ej : j = b <;> simp [upd, ej, hst j]
                  · intro j
                    by_cases ej : j = b
                    · left; simp [upd, ej]
                    · simpa [upd, ej] using hs.recs j
                exact ih _ _ b hs' (by simp [upd])
    · -- pruned on `mp`, complete on `mu`
      unfold addBlocks.go
      have a1 : mp.block b = none := by simp [Mgr.block, e1]
      have a2 : mp.header b = true := by simp [Mgr.header, e1]
      have a3 : mu.block b = some true := by simp [Mgr.block, e2]
      simp only [a1, a2, a3]
      simpa using ih mp mu b hs (hsb _ e1)

/-- **`AddBlocks` on a pruned node simulates the unpruned node**: same result and the relation is
kept, unless the reorg towards the submitted chain has to revert a pruned block — its fork point
`anc na tip` lies at height `< p - 1` — in which case the pruned node answers `reorgFailed` and
keeps best chain and notification count -/
theorem addBlocks_sim {U p} (hU : WFU U) {mp mu : Mgr} (hs : Sim U mp mu p) (batch : List Nat) :
    ((addBlocks U mp batch).2 = (addBlocks U mu batch).2 ∧
      Sim U (addBlocks U mp batch).1 (addBlocks U mu batch).1 p) ∨
    ((addBlocks U mp batch).2 = some .reorgFailed ∧ (addBlocks U mp batch).1.best = mp.best ∧
      (addBlocks U mp batch).1.notified = mp.notified ∧
      ∃ cs na nb, heavier U cs mu.tip = true ∧
        reorgPath U (addBlocks.go U batch mu mu.tip).1 mu.tip cs none =
          .ok ((List.range na).map (fun k => anc U k mu.tip), ((List.range nb).map (fun k => anc U k cs)).reverse) ∧
        anc U na mu.tip = anc U nb cs ∧ (U (anc U na mu.tip)).height + 1 < p) := by
  cases batch with
  | nil => left; simp [addBlocks, hs]
  | cons b bs =>
    have htip := hs.tip
    obtain ⟨j1, j2, j3, j4⟩ := addLoop_sim hU (b :: bs) mp mu mp.tip hs hs.pinv.toWInv.tip_state
    have jn := (addLoop_p hU (b :: bs) mp mp.tip hs.pinv hs.pinv.toWInv.tip_state).2.2.1
    simp only [addBlocks]
    rw [← htip]
    rcases hgp : addBlocks.go U (b :: bs) mp mp.tip with ⟨m1p, ep, csp⟩
    rcases hgu : addBlocks.go U (b :: bs) mu mp.tip with ⟨m1u, eu, csu⟩
    rw [hgp, hgu] at j1 j2
    rw [hgp] at j3 j4 jn
    simp only at j1 j2 j3 j4 jn
    cases j1
    cases ep with
    | some err => left; exact ⟨rfl, j2⟩
    | none =>
      simp only
      have htip1 : m1u.tip = mp.tip := by rw [← j2.tip]; simp [Mgr.tip, j3]
      rcases maybeReorg_sim j2 j4 with h | ⟨k1, k2, k3, k4, na, nb, k5, k6, k7⟩
      · left; exact h
      · right
        rw [htip1] at k4 k5 k6 k7
        exact ⟨k1, by rw [k2, j3], by rw [k3, jn], csp, na, nb, k4, k5, k6, k7⟩

/-! ### the frontier and `MinReorgIndex`; reorgs that need pruned bodies -/

theorem minReorgIndex_go_p {U m p} (h : PInv U m p) : ∀ (k i : Nat), k < m.best.length →
    m.bestAt k = some i → m.bestAt (min k p) = some (minReorgIndex.go m k i) := by
  intro k
  induction k with
  | zero => intro i _ hi; simpa [minReorgIndex.go] using hi
  | succ k ih =>
    intro i hk hi
    have hex : ∃ q, m.bestAt k = some q := by
      unfold Mgr.bestAt
      rw [if_pos (by omega)]
      exact ⟨_, List.getElem?_eq_getElem (by omega)⟩
    obtain ⟨q, hq⟩ := hex
    obtain ⟨r1, r2, _⟩ := h.bestAt_rec hq
    by_cases hpk : p ≤ k
    · have e := r2 hpk
      have hgo : minReorgIndex.go m (k + 1) i = minReorgIndex.go m k q := by
        rw [minReorgIndex.go]; simp [hq, Mgr.block, e]
      rw [hgo]
      have := ih q (by omega) hq
      have e1 : min (k + 1) p = min k p := by omega
      rw [e1]; exact this
    · have e := r1 (by omega)
      have hgo : minReorgIndex.go m (k + 1) i = i := by
        rw [minReorgIndex.go]; simp [hq, Mgr.block, e]
      rw [hgo]
      have e1 : min (k + 1) p = k + 1 := by omega
      rw [e1]; exact hi

/-- **`MinReorgIndex` is the best-chain block at the frontier** (at the tip when everything is pruned) -/
theorem minReorgIndex_p {U m p} (h : PInv U m p) :
    m.bestAt (min m.tipHeight p) = some (minReorgIndex m) ∧
    (U (minReorgIndex m)).height = min m.tipHeight p := by
  have hw := h.toWInv
  have hlen := hw.length
  have htip : m.bestAt m.tipHeight = some m.tip := by
    have := hw.bestAt_of_mem hw.tip_mem
    have e : m.tipHeight = (U m.tip).height := by simp [Mgr.tipHeight]; omega
    rw [e]; exact this
  have := minReorgIndex_go_p h m.tipHeight m.tip (by simp [Mgr.tipHeight]; omega) htip
  exact ⟨this, (hw.bestAt_height this).1⟩

/-- **a reorg that needs a pruned body fails with `missingBlock`**: if the fork point `reorgPath`
finds lies more than one block below the frontier, `reorgTo` stops at the first pruned block -/
theorem reorgTo_deep {U m p} (h : PInv U m p) {t na nb : Nat} (hna : na ≤ (U m.tip).height)
    (hpath : reorgPath U m m.tip t none =
      .ok ((List.range na).map (fun k => anc U k m.tip), ((List.range nb).map (fun k => anc U k t)).reverse))
    (hdeep : (U (anc U na m.tip)).height + 1 < p) :
    (reorgTo U m t).2 = some .missingBlock := by
  have hw := h.toWInv
  have hlen := hw.length
  obtain ⟨c, hc, hres, _, hsupp, hcase⟩ := revertN_p (U := U) na m h (by omega)
  rcases hcase with ⟨hcn, _⟩ | ⟨_, hmiss, _⟩
  · subst hcn
    exfalso
    have hhX := (h.core.anc_state hw.tip_state c hna).2
    have hf := h.frontier
    have hpos : 0 < c := by omega
    have hY := hsupp (c - 1) (by omega)
    have hYm := hw.anc_mem (k := c - 1) (by omega)
    have hhY := (h.core.anc_state hw.tip_state (c - 1) (by omega)).2
    have := h.pruned _ hYm (by omega)
    rw [hY] at this
    simp at this
  · have hrev : revertN U na m = ((revertN U na m).1, some .missingBlock) := Prod.ext rfl hmiss
    simp only [reorgTo, hpath, List.length_map, List.length_range]
    rw [hrev]

/-- hence `AddBlocks`' reorg step answers `reorgFailed` and keeps the best chain -/
theorem maybeReorg_deep {U m p} (h : PInv U m p) {cs na nb : Nat} (hcs : m.states cs = true)
    (hh : heavier U cs m.tip = true) (hna : na ≤ (U m.tip).height)
    (hpath : reorgPath U m m.tip cs none =
      .ok ((List.range na).map (fun k => anc U k m.tip), ((List.range nb).map (fun k => anc U k cs)).reverse))
    (hdeep : (U (anc U na m.tip)).height + 1 < p) :
    (maybeReorg U m cs).2 = some .reorgFailed ∧ (maybeReorg U m cs).1.best = m.best ∧
    (maybeReorg U m cs).1.notified = m.notified := by
  have hmiss := reorgTo_deep h hna hpath hdeep
  obtain ⟨b1, _, b3, b4⟩ := rollback_p h hcs
  unfold maybeReorg
  simp only [hh, if_true]
  rcases hr : reorgTo U m cs with ⟨m1, e1⟩
  rw [hr] at hmiss b1 b3 b4
  simp only at hmiss b1 b3 b4
  subst hmiss
  rcases hr2 : reorgTo U m1 m.tip with ⟨m2, e2⟩
  rw [hr2] at b1 b3 b4
  simp only at b1 b3 b4
  subst b1
  simp only [hr2]
  exact ⟨by trivial, b4, b3.notified⟩

end Verif.Chain
