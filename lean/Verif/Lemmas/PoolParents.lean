/-
The parent closure of `UnconfirmedParents` / `V2TransactionSet` (C13): it terminates within its
fuel, is closed under pooled creators, and is returned in pool order.  Core only.
-/
import Verif.Lemmas.PoolRebase

namespace Verif.Pool

/-! ## pigeonhole -/

theorem nodup_bound : ∀ (n : Nat) (s : List Nat), s.Nodup → (∀ k ∈ s, k < n) → s.length ≤ n
  | 0, s, _, h => by
    cases s with
    | nil => simp
    | cons a s => exact absurd (h a (by simp)) (by omega)
  | n + 1, s, hn, h => by
    by_cases hm : n ∈ s
    · have h1 : (s.erase n).Nodup := hn.erase n
      have h2 : ∀ k ∈ s.erase n, k < n := by
        intro k hk
        have hk' := (List.Nodup.mem_erase_iff hn).1 hk
        have := h k hk'.2
        omega
      have := nodup_bound n (s.erase n) h1 h2
      rw [List.length_erase_of_mem hm] at this
      omega
    · have : ∀ k ∈ s, k < n := by
        intro k hk
        have := h k hk
        have : k ≠ n := fun e => hm (e ▸ hk)
        omega
      have := nodup_bound n s hn this
      omega

/-! ## `parentIndex` and `keepIdx` -/

theorem zipIdx_mem_getElem? {α} : ∀ (ts : List α) (k : Nat) (t : α) (i : Nat), (t, i) ∈ ts.zipIdx k →
    k ≤ i ∧ ts[i - k]? = some t
  | [], _, _, _, h => by simp at h
  | a :: ts, k, t, i, h => by
    rw [List.zipIdx_cons] at h
    rcases List.mem_cons.1 h with h | h
    · cases h; simp
    · obtain ⟨h1, h2⟩ := zipIdx_mem_getElem? ts (k + 1) t i h
      refine ⟨by omega, ?_⟩
      have : i - k = (i - (k + 1)) + 1 := by omega
      rw [this]; simpa using h2

theorem getElem?_mem_zipIdx {α} : ∀ (ts : List α) (k : Nat) (t : α) (i : Nat), ts[i]? = some t → (t, i + k) ∈ ts.zipIdx k
  | [], _, _, _, h => by simp at h
  | a :: ts, k, t, i, h => by
    rw [List.zipIdx_cons]
    cases i with
    | zero => simp at h; subst h; simp
    | succ i =>
      simp only [List.getElem?_cons_succ] at h
      have := getElem?_mem_zipIdx ts (k + 1) t i h
      apply List.mem_cons_of_mem
      have e : i + 1 + k = i + (k + 1) := by omega
      rw [e]; exact this

theorem parentIndex_some {pool : List Txn} {e j : Nat} (h : parentIndex pool e = some j) :
    ∃ t, pool[j]? = some t ∧ e ∈ t.outputs := by
  unfold parentIndex at h
  cases hf : pool.zipIdx.reverse.find? (fun x => x.1.outputs.contains e) with
  | none => rw [hf] at h; cases h
  | some p =>
    rw [hf] at h
    simp only [Option.map_some, Option.some.injEq] at h
    have hm := List.mem_of_find?_eq_some hf
    have hp := List.find?_some hf
    obtain ⟨t, i⟩ := p
    simp only at h hp
    subst h
    have := zipIdx_mem_getElem? pool 0 t i (List.mem_reverse.1 hm)
    exact ⟨t, by simpa using this.2, by simpa using hp⟩

theorem parentIndex_lt {pool : List Txn} {e j : Nat} (h : parentIndex pool e = some j) : j < pool.length := by
  obtain ⟨t, ht, _⟩ := parentIndex_some h
  exact (List.getElem?_eq_some_iff.1 ht).1

theorem parentIndex_of_created {pool : List Txn} {e : Nat} (h : e ∈ createdOf pool) : ∃ j, parentIndex pool e = some j := by
  obtain ⟨t, ht, he⟩ := mem_createdOf.1 h
  obtain ⟨i, hi⟩ := List.getElem?_of_mem ht
  have hm : (t, i) ∈ pool.zipIdx.reverse := List.mem_reverse.2 (by simpa using getElem?_mem_zipIdx pool 0 t i hi)
  unfold parentIndex
  cases hf : pool.zipIdx.reverse.find? (fun x => x.1.outputs.contains e) with
  | none =>
    have := List.find?_eq_none.1 hf (t, i) hm
    simp [he] at this
  | some p => exact ⟨p.2, rfl⟩

theorem mem_keepIdx {ts : List Txn} {keep : List Nat} {t : Txn} :
    t ∈ keepIdx ts keep ↔ ∃ k ∈ keep, ts[k]? = some t := by
  unfold keepIdx
  simp only [List.mem_filterMap]
  constructor
  · rintro ⟨⟨u, i⟩, hm, hu⟩
    split at hu
    · rename_i hc
      have hut : u = t := by simpa using hu
      subst hut
      have := zipIdx_mem_getElem? ts 0 u i hm
      exact ⟨i, by simpa using hc, by simpa using this.2⟩
    · cases hu
  · rintro ⟨k, hk, ht⟩
    refine ⟨(t, k), by simpa using getElem?_mem_zipIdx ts 0 t k ht, ?_⟩
    simp [hk]

theorem keepIdx_sublist_aux (keep : List Nat) : ∀ (ts : List Txn) (k : Nat),
    ((ts.zipIdx k).filterMap fun x => if keep.contains x.2 then some x.1 else none).Sublist ts
  | [], _ => by simp
  | t :: ts, k => by
    rw [List.zipIdx_cons, List.filterMap_cons]
    split
    · exact (keepIdx_sublist_aux keep ts (k + 1)).cons _
    · rename_i u hu
      split at hu
      · cases hu; exact (keepIdx_sublist_aux keep ts (k + 1)).cons_cons _
      · cases hu

/-- the parents are returned in pool order -/
theorem keepIdx_sublist (ts : List Txn) (keep : List Nat) : (keepIdx ts keep).Sublist ts :=
  keepIdx_sublist_aux keep ts 0

/-! ## the closure -/

/-- distinct positions inside the pool -/
def Bnd (n : Nat) (s : List Nat) : Prop := s.Nodup ∧ ∀ k ∈ s, k < n

theorem addParents_props (pool : List Txn) : ∀ (is : List Inp) (seen : List Nat), Bnd pool.length seen →
    Bnd pool.length (addParents pool seen is) ∧ seen <+: addParents pool seen is ∧
    (∀ i ∈ is, ∀ j, parentIndex pool i.elem = some j → j ∈ addParents pool seen is)
  | [], seen, h => ⟨h, List.prefix_refl _, by simp⟩
  | i :: is, seen, h => by
    unfold addParents
    cases hp : parentIndex pool i.elem with
    | none =>
      simp only
      obtain ⟨a, b, c⟩ := addParents_props pool is seen h
      refine ⟨a, b, ?_⟩
      intro i' hi' j hj
      rcases List.mem_cons.1 hi' with rfl | hi'
      · rw [hp] at hj; cases hj
      · exact c i' hi' j hj
    | some k =>
      simp only
      by_cases hk : seen.contains k = true
      · simp only [hk, if_true]
        obtain ⟨a, b, c⟩ := addParents_props pool is seen h
        refine ⟨a, b, ?_⟩
        intro i' hi' j hj
        rcases List.mem_cons.1 hi' with rfl | hi'
        · rw [hp] at hj; cases hj
          exact b.subset (by simpa using hk)
        · exact c i' hi' j hj
      · simp only [hk, Bool.false_eq_true, if_false]
        have hk' : k ∉ seen := by simpa using hk
        have hb : Bnd pool.length (seen ++ [k]) := by
          refine ⟨?_, ?_⟩
          · rw [List.nodup_append]
            refine ⟨h.1, by simp, ?_⟩
            intro a ha b hb hab
            simp only [List.mem_singleton] at hb
            subst hb; subst hab; exact hk' ha
          · intro x hx
            rcases List.mem_append.1 hx with hx | hx
            · exact h.2 x hx
            · simp only [List.mem_singleton] at hx; subst hx; exact parentIndex_lt hp
        obtain ⟨a, b, c⟩ := addParents_props pool is (seen ++ [k]) hb
        refine ⟨a, (List.prefix_append _ _).trans b, ?_⟩
        intro i' hi' j hj
        rcases List.mem_cons.1 hi' with rfl | hi'
        · rw [hp] at hj; cases hj
          exact b.subset (by simp)
        · exact c i' hi' j hj

theorem parentsRound_props (pool : List Txn) : ∀ (ks : List Nat) (seen : List Nat), Bnd pool.length seen →
    Bnd pool.length (parentsRound pool seen ks) ∧ seen <+: parentsRound pool seen ks ∧
    (∀ k ∈ ks, ∀ t, pool[k]? = some t → ∀ i ∈ t.inputs, ∀ j, parentIndex pool i.elem = some j →
      j ∈ parentsRound pool seen ks)
  | [], seen, h => ⟨h, List.prefix_refl _, by simp⟩
  | k :: ks, seen, h => by
    unfold parentsRound
    cases hk : pool[k]? with
    | none =>
      simp only
      obtain ⟨a, b, c⟩ := parentsRound_props pool ks seen h
      refine ⟨a, b, ?_⟩
      intro k' hk' t ht
      rcases List.mem_cons.1 hk' with rfl | hk'
      · rw [hk] at ht; cases ht
      · exact c k' hk' t ht
    | some u =>
      simp only
      obtain ⟨a0, b0, c0⟩ := addParents_props pool u.inputs seen h
      obtain ⟨a, b, c⟩ := parentsRound_props pool ks _ a0
      refine ⟨a, b0.trans b, ?_⟩
      intro k' hk' t ht i hi j hj
      rcases List.mem_cons.1 hk' with rfl | hk'
      · rw [hk] at ht; cases ht
        exact b.subset (c0 i hi j hj)
      · exact c k' hk' t ht i hi j hj

/-- closed under pooled creators -/
def ClosedSet (pool : List Txn) (s : List Nat) : Prop :=
  ∀ k ∈ s, ∀ t, pool[k]? = some t → ∀ i ∈ t.inputs, ∀ j, parentIndex pool i.elem = some j → j ∈ s

theorem parentsClosure_props (pool : List Txn) : ∀ (fuel : Nat) (seen : List Nat), Bnd pool.length seen →
    pool.length - seen.length < fuel →
    Bnd pool.length (parentsClosure pool fuel seen) ∧ seen <+: parentsClosure pool fuel seen ∧
    ClosedSet pool (parentsClosure pool fuel seen)
  | 0, _, _, hf => by omega
  | fuel + 1, seen, h, hf => by
    unfold parentsClosure
    obtain ⟨a, b, c⟩ := parentsRound_props pool seen seen h
    simp only
    by_cases hl : (parentsRound pool seen seen).length = seen.length
    · simp only [hl, if_true]
      have he : parentsRound pool seen seen = seen := (b.eq_of_length hl.symm).symm
      refine ⟨h, List.prefix_refl _, ?_⟩
      intro k hk t ht i hi j hj
      have := c k hk t ht i hi j hj
      rwa [he] at this
    · simp only [hl, if_false]
      have hlen : seen.length < (parentsRound pool seen seen).length := by
        have := b.length_le; omega
      have hbound := nodup_bound pool.length _ a.1 a.2
      obtain ⟨a', b', c'⟩ := parentsClosure_props pool fuel _ a (by omega)
      exact ⟨a', b.trans b', c'⟩

/-- **the parents of `t`**: pooled transactions only, in pool order, containing the pooled creator
of every input of `t` and of every parent (so: all pooled ancestors) -/
theorem parentsOf_spec (pool : List Txn) (t : Txn) :
    (parentsOf pool t).Sublist pool ∧
    ∃ seen, parentsOf pool t = keepIdx pool seen ∧ ClosedSet pool seen ∧
      (∀ i ∈ t.inputs, ∀ j, parentIndex pool i.elem = some j → j ∈ seen) := by
  have h0 : Bnd pool.length ([] : List Nat) := ⟨by simp, by simp⟩
  obtain ⟨a0, _, c0⟩ := addParents_props pool t.inputs [] h0
  have hb := nodup_bound pool.length _ a0.1 a0.2
  obtain ⟨_, b, c⟩ := parentsClosure_props pool (pool.length + 1) _ a0 (by omega)
  refine ⟨keepIdx_sublist _ _, _, rfl, c, ?_⟩
  intro i hi j hj
  exact b.subset (c0 i hi j hj)

end Verif.Pool
