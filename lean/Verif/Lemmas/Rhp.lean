/-
Helper lemmas for the RHP4 host model (`Verif/Model/Rhp.lean`): the symbolic Merkle root, the
roots-list functions, what each handler guarantees when it ends in an effect, and the invariants
those effects preserve.  Core-only.  The property statements are in `Verif/Props/C08|C09|C15.lean`.
-/
import Verif.Model.Rhp

namespace Verif.Rhp

/-! ## metaRoot -/


/-! ### metaRoot -/
def stackLeaves : List (Nat × H) → List Nat
  | [] => []
  | (_, t) :: rest => stackLeaves rest ++ t.leaves

theorem stackLeaves_push (st : List (Nat × H)) (ht : Nat) (t : H) :
    stackLeaves (push st ht t) = stackLeaves st ++ t.leaves := by
  induction st generalizing ht t with
  | nil => simp [push, stackLeaves]
  | cons p rest ih =>
    obtain ⟨h1, t1⟩ := p
    simp only [push]
    split
    · rw [ih]; simp [stackLeaves, H.leaves]
    · simp [stackLeaves]

theorem foldl_node_leaves (rest : List (Nat × H)) (t : H) :
    (rest.foldl (fun acc p => H.node p.2 acc) t).leaves = stackLeaves rest ++ t.leaves := by
  induction rest generalizing t with
  | nil => simp [stackLeaves]
  | cons p rest ih =>
    simp only [List.foldl_cons, ih, stackLeaves, H.leaves]
    simp

theorem rootOf_leaves (st : List (Nat × H)) : (rootOf st).leaves = stackLeaves st := by
  cases st with
  | nil => simp [rootOf, stackLeaves, H.leaves]
  | cons p rest => obtain ⟨h, t⟩ := p; simp [rootOf, foldl_node_leaves, stackLeaves]

theorem foldl_push_leaves (rs : List Nat) (st : List (Nat × H)) :
    stackLeaves (rs.foldl (fun st r => push st 0 (.leaf r)) st) = stackLeaves st ++ rs := by
  induction rs generalizing st with
  | nil => simp
  | cons r rs ih => simp [ih, stackLeaves_push, H.leaves]

theorem metaRoot_leaves (rs : List Nat) : (metaRoot rs).leaves = rs := by
  simp [metaRoot, rootOf_leaves, foldl_push_leaves, stackLeaves]

theorem metaRoot_injective {a b : List Nat} (h : metaRoot a = metaRoot b) : a = b := by
  have := congrArg H.leaves h
  simpa [metaRoot_leaves] using this


/-! ## the roots list -/


/-- strictly descending -/
abbrev StrictDesc (l : List Nat) : Prop := l.Pairwise (· > ·)

theorem freeWrites_length (rs : List Nat) (i : Nat) (is : List Nat) :
    (freeWrites rs i is).length = rs.length := by
  induction is generalizing rs i with
  | nil => simp [freeWrites]
  | cons n is ih => simp [freeWrites, ih]

theorem swapRemove_length (rs : List Nat) (i : Nat) : (swapRemove rs i).length = rs.length - 1 := by
  simp [swapRemove]

/-- one step of the in-place loop, seen through the live prefix, is one `swapRemove` -/
theorem take_set_eq_swapRemove (rs : List Nat) (n i : Nat) (hn : n + i < rs.length) :
    (rs.set n (rs.getD (rs.length - i - 1) 0)).take (rs.length - i - 1)
      = swapRemove (rs.take (rs.length - i)) n := by
  have hlen : (rs.take (rs.length - i)).length = rs.length - i := by simp
  unfold swapRemove
  rw [hlen]
  have h1 : (rs.take (rs.length - i)).getD (rs.length - i - 1) 0 = rs.getD (rs.length - i - 1) 0 := by
    have : rs.length - i - 1 < rs.length - i := by omega
    have h2 : rs.length - i - 1 < rs.length := by omega
    simp [List.getD_eq_getElem?_getD, this, List.getElem?_eq_getElem h2]
  rw [h1, List.dropLast_eq_take, List.length_set, hlen, ← List.take_set, List.take_take]
  congr 1; omega

theorem freeWrites_take (is : List Nat) : ∀ (rs : List Nat) (i : Nat),
    StrictDesc is → (∀ x ∈ is, x + i < rs.length) →
    (freeWrites rs i is).take (rs.length - i - is.length)
      = is.foldl swapRemove (rs.take (rs.length - i)) := by
  induction is with
  | nil => intro rs i _ _; simp [freeWrites]
  | cons n is ih =>
    intro rs i hs hb
    have hn : n + i < rs.length := hb n (by simp)
    simp only [freeWrites, List.foldl_cons, List.length_cons]
    have hs' : StrictDesc is := (List.pairwise_cons.mp hs).2
    have hlt : ∀ x ∈ is, x < n := fun x hx => (List.pairwise_cons.mp hs).1 x hx
    have := ih (rs.set n (rs.getD (rs.length - i - 1) 0)) (i + 1) hs'
      (by intro x hx; have := hlt x hx; simp; omega)
    simp only [List.length_set] at this
    rw [show rs.length - i - (is.length + 1) = rs.length - (i + 1) - is.length by omega, this]
    congr 1
    rw [show rs.length - (i + 1) = rs.length - i - 1 by omega]
    exact take_set_eq_swapRemove rs n i hn

theorem freeBatch_eq_foldl_swapRemove (rs is : List Nat) (hs : StrictDesc is) (hb : ∀ x ∈ is, x < rs.length) :
    freeBatch rs is = is.foldl swapRemove rs := by
  have := freeWrites_take is rs 0 hs (by simpa using hb)
  simpa [freeBatch] using this




/-- slots below the removed index keep their element -/
theorem swapRemove_getD_lt (rs : List Nat) (i j : Nat) (hj : j < i) (hi : i < rs.length) :
    (swapRemove rs i).getD j 0 = rs.getD j 0 := by
  unfold swapRemove
  have h1 : j < rs.length - 1 := by omega
  have h3 : ¬ i = j := by omega
  rw [List.getD_eq_getElem?_getD, List.getD_eq_getElem?_getD, List.getElem?_dropLast]
  simp [h1, List.getElem?_set, h3]

/-- swap-removing slot `i` removes exactly the element that was in slot `i` -/
theorem swapRemove_perm (rs : List Nat) (i : Nat) (hi : i < rs.length) :
    (rs.getD i 0 :: swapRemove rs i).Perm rs := by
  induction rs generalizing i with
  | nil => simp at hi
  | cons a rs ih =>
    cases i with
    | zero =>
      cases rs with
      | nil => simp [swapRemove]
      | cons b rs =>
        -- (a :: b :: rs): slot 0 gets the last element, last dropped
        have hl : ((a :: b :: rs).getD ((a :: b :: rs).length - 1) 0) = (b :: rs).getD ((b :: rs).length - 1) 0 := by
          simp [List.getD_eq_getElem?_getD]
        unfold swapRemove
        rw [hl]
        simp only [List.set_cons_zero, List.getD_cons_zero]
        have hne : b :: rs ≠ [] := by simp
        rw [List.dropLast_cons_of_ne_nil hne]
        have hlast : (b :: rs).getD ((b :: rs).length - 1) 0 = (b :: rs).getLast hne := by
          simp [List.getD_eq_getElem?_getD, List.getLast_eq_getElem]
        rw [hlast]
        refine List.Perm.cons a ?_
        have := List.dropLast_concat_getLast hne
        exact (List.perm_append_comm (l₁ := [(b :: rs).getLast hne])).trans (by rw [this])
    | succ i =>
      have hi' : i < rs.length := by simpa using hi
      have hne : rs ≠ [] := by intro h; simp [h] at hi'
      have hl : ((a :: rs).getD ((a :: rs).length - 1) 0) = rs.getD (rs.length - 1) 0 := by
        cases rs with
        | nil => simp at hi'
        | cons b rs => simp [List.getD_eq_getElem?_getD]
      have : swapRemove (a :: rs) (i + 1) = a :: swapRemove rs i := by
        unfold swapRemove
        rw [hl]
        simp only [List.set_cons_succ]
        rw [List.dropLast_cons_of_ne_nil (by simpa using hne)]
      rw [this]
      simp only [List.getD_cons_succ]
      exact (List.Perm.swap a _ _).trans (List.Perm.cons a (ih i hi'))

/-- **free keeps exactly the others**: freeing strictly descending in-range indices yields a
permutation of the original list minus the elements at those indices -/
theorem foldl_swapRemove_perm (is : List Nat) : ∀ (rs : List Nat),
    StrictDesc is → (∀ x ∈ is, x < rs.length) →
    (is.map (fun i => rs.getD i 0) ++ is.foldl swapRemove rs).Perm rs := by
  induction is with
  | nil => intro rs _ _; simp
  | cons n is ih =>
    intro rs hs hb
    have hn : n < rs.length := hb n (by simp)
    have hs' : StrictDesc is := (List.pairwise_cons.mp hs).2
    have hlt : ∀ x ∈ is, x < n := fun x hx => (List.pairwise_cons.mp hs).1 x hx
    have hb' : ∀ x ∈ is, x < (swapRemove rs n).length := by
      intro x hx; have := hlt x hx; rw [swapRemove_length]; omega
    have h1 := ih (swapRemove rs n) hs' hb'
    have hmap : is.map (fun i => (swapRemove rs n).getD i 0) = is.map (fun i => rs.getD i 0) := by
      apply List.map_congr_left
      intro x hx
      exact swapRemove_getD_lt rs n x (hlt x hx) hn
    rw [hmap] at h1
    simp only [List.map_cons, List.foldl_cons, List.cons_append]
    exact (List.Perm.cons _ h1).trans (swapRemove_perm rs n hn)


/-! ## client normalisation -/


theorem mem_insertDesc (x y : Nat) (l : List Nat) : y ∈ insertDesc x l ↔ y = x ∨ y ∈ l := by
  induction l with
  | nil => simp [insertDesc]
  | cons a l ih =>
    simp only [insertDesc]
    split
    · simp
    · simp [ih]; grind

theorem insertDesc_sorted (x : Nat) (l : List Nat) (h : l.Pairwise (· ≥ ·)) :
    (insertDesc x l).Pairwise (· ≥ ·) := by
  induction l with
  | nil => simp [insertDesc]
  | cons a l ih =>
    simp only [insertDesc]
    have ha := List.pairwise_cons.mp h
    split
    · rename_i hax
      refine List.pairwise_cons.mpr ⟨?_, h⟩
      intro y hy
      rcases List.mem_cons.mp hy with rfl | hy
      · exact hax
      · have := ha.1 y hy; omega
    · rename_i hax
      refine List.pairwise_cons.mpr ⟨?_, ih ha.2⟩
      intro y hy
      rcases (mem_insertDesc x y l).mp hy with rfl | hy
      · omega
      · exact ha.1 y hy

theorem mem_sortDesc (y : Nat) (l : List Nat) : y ∈ sortDesc l ↔ y ∈ l := by
  induction l with
  | nil => simp [sortDesc]
  | cons a l ih =>
    have : sortDesc (a :: l) = insertDesc a (sortDesc l) := rfl
    rw [this, mem_insertDesc, ih]; simp

theorem sortDesc_sorted (l : List Nat) : (sortDesc l).Pairwise (· ≥ ·) := by
  induction l with
  | nil => simp [sortDesc]
  | cons a l ih =>
    have : sortDesc (a :: l) = insertDesc a (sortDesc l) := rfl
    rw [this]; exact insertDesc_sorted a _ ih

theorem mem_compact (y : Nat) (l : List Nat) : y ∈ compact l ↔ y ∈ l := by
  fun_induction compact l with
  | case1 => simp
  | case2 => simp
  | case3 x r ih => simp [ih]
  | case4 x y' r h ih => simp [ih]

theorem compact_strict (l : List Nat) (h : l.Pairwise (· ≥ ·)) : StrictDesc (compact l) := by
  fun_induction compact l with
  | case1 => simp
  | case2 => simp
  | case3 x r ih => exact ih (List.pairwise_cons.mp h).2
  | case4 x y r hxy ih =>
    have hc := List.pairwise_cons.mp h
    refine List.pairwise_cons.mpr ⟨?_, ih hc.2⟩
    intro z hz
    have hz' := (mem_compact z (y :: r)).mp hz
    have hxz := hc.1 z hz'
    rcases List.mem_cons.mp hz' with rfl | hzr
    · omega
    · have hyz := (List.pairwise_cons.mp hc.2).1 z hzr
      have hxy' := hc.1 y (by simp)
      omega

theorem normalize_strictDesc (is : List Nat) : StrictDesc (normalize is) :=
  compact_strict _ (sortDesc_sorted is)

theorem mem_normalize (x : Nat) (is : List Nat) : x ∈ normalize is ↔ x ∈ is := by
  simp [normalize, mem_compact, mem_sortDesc]


/-! ## handler effects -/


theorem lockForRevision_ok {h : Host} {cid : Nat} {cs : CState} (hl : lockForRevision h cid = .ok cs) :
    h.contracts cid = some cs ∧ revisable h cs = true := by
  unfold lockForRevision at hl
  split at hl
  · simp at hl
  · rename_i cs' hc
    split at hl
    · rename_i hr; simp at hl; subst hl; exact ⟨hc, hr⟩
    · simp at hl

theorem reject_eff (c : Cls) (evs : List Ev) (vals : List Nat) : (reject c evs vals).eff = .none := rfl

set_option hygiene false in
macro "rej" : tactic => `(tactic| (simp only [reject_eff] at he; exact absurd he.symm hne))
set_option hygiene false in
macro "rejall" : tactic => `(tactic| repeat' (first | (split at he; rej) | (simp only at he; split at he; rej)))

theorem of_not_bnot {b : Bool} (h : ¬ (!b) = true) : b = true := by simpa using h

theorem decideAppend_eff {h : Host} {cid : Nat} {p : Prices} {chal : Sig} {sectors : List Nat} {second : Option Sig}
    {e : Effect} (he : (decideAppend h cid p chal sectors second).eff = e) (hne : e ≠ .none) :
    ∃ cs b' rsig, h.contracts cid = some cs ∧ revisable h cs = true ∧ second = some rsig ∧
      verify cs.c.body.renterKey (.challenge cid (cs.c.body.rev + 1)) chal = true ∧
      pricesValid h p = true ∧
      reviseAppend cs.c.body p.f (metaRoot (cs.roots ++ acceptedRoots h sectors)) (acceptedRoots h sectors).length = some b' ∧
      verify cs.c.body.renterKey (.contract b') rsig = true ∧
      contractorAccepts cs.c (signed h b' rsig) = true ∧
      e = .revise cid (signed h b' rsig) (cs.roots ++ acceptedRoots h sectors) := by
  unfold decideAppend at he
  cases second with
  | none => rejall; all_goals (first | rej | contradiction)
  | some rsig =>
  rejall
  simp only [Option.some.injEq] at *
  subst_vars
  exact ⟨_, _, _, (lockForRevision_ok ‹_›).1, (lockForRevision_ok ‹_›).2, rfl, of_not_bnot ‹_›, of_not_bnot ‹_›, ‹_›,
    of_not_bnot ‹_›, of_not_bnot ‹_›, by simpa using he.symm⟩

theorem decideRoots_eff {h : Host} {cid : Nat} {p : Prices} {off len : Nat} {sig : Sig}
    {e : Effect} (he : (decideRoots h cid p off len sig).eff = e) (hne : e ≠ .none) :
    ∃ cs b', h.contracts cid = some cs ∧ revisable h cs = true ∧
      pricesValid h p = true ∧ len ≠ 0 ∧ off + len ≤ cs.c.body.filesize ∧
      reviseRoots cs.c.body p.f len = some b' ∧
      verify cs.c.body.renterKey (.contract b') sig = true ∧
      contractorAccepts cs.c (signed h b' sig) = true ∧
      e = .revise cid (signed h b' sig) cs.roots := by
  unfold decideRoots at he
  rejall
  exact ⟨_, _, (lockForRevision_ok ‹_›).1, (lockForRevision_ok ‹_›).2, by simp_all, by simp_all, by simp_all; omega, ‹_›,
    by simp_all, by simp_all, by simp_all⟩

theorem decideFund_eff {h : Host} {cid : Nat} {ds : List (Nat × Nat)} {sig : Sig}
    {e : Effect} (he : (decideFund h cid ds sig).eff = e) (hne : e ≠ .none) :
    ∃ cs b', h.contracts cid = some cs ∧ revisable h cs = true ∧
      reviseFund cs.c.body (depositTotal ds) = some b' ∧
      verify cs.c.body.renterKey (.contract b') sig = true ∧
      contractorAccepts cs.c (signed h b' sig) = true ∧
      e = .credit false cid (signed h b' sig) ds := by
  unfold decideFund at he
  rejall
  exact ⟨_, _, (lockForRevision_ok ‹_›).1, (lockForRevision_ok ‹_›).2, ‹_›, by simp_all, by simp_all, by simp_all⟩

theorem decideReplenish_eff {h : Host} {pool : Bool} {cid : Nat} {accounts : List Nat} {target : Nat} {chal : Sig}
    {second : Option Sig} {e : Effect}
    (he : (decideReplenish h pool cid accounts target chal second).eff = e) (hne : e ≠ .none) :
    ∃ cs b' rsig, h.contracts cid = some cs ∧ revisable h cs = true ∧ second = some rsig ∧
      hasDup accounts = false ∧
      verify cs.c.body.renterKey (.replChallenge accounts target cid cs.c.body.rev) chal = true ∧
      reviseFund cs.c.body (depositTotal (replenishDeposits (if pool then poolBal h.pools else h.accounts) target accounts)) = some b' ∧
      verify cs.c.body.renterKey (.contract b') rsig = true ∧
      contractorAccepts cs.c (signed h b' rsig) = true ∧
      e = .credit pool cid (signed h b' rsig)
            (replenishDeposits (if pool then poolBal h.pools else h.accounts) target accounts) := by
  unfold decideReplenish at he
  cases pool <;> simp only [Bool.false_eq_true, if_false, if_true] at he ⊢ <;>
  cases second with
  | none => rejall; all_goals (first | rej | contradiction)
  | some rsig =>
  rejall
  simp only [Option.some.injEq] at *
  subst_vars
  exact ⟨_, _, _, (lockForRevision_ok ‹_›).1, (lockForRevision_ok ‹_›).2, rfl, by simp_all, by simp_all, ‹_›,
    by simp_all, by simp_all, by simp_all⟩


theorem decideFree_eff {h : Host} {cid : Nat} {p : Prices} {chal : Sig} {is : List Nat} {second : Option Sig}
    {e : Effect} (he : (decideFree h cid p chal is second).eff = e) (hne : e ≠ .none) :
    ∃ cs b' rsig, h.contracts cid = some cs ∧ revisable h cs = true ∧ second = some rsig ∧
      verify cs.c.body.renterKey (.challenge cid (cs.c.body.rev + 1)) chal = true ∧
      pricesValid h p = true ∧
      reviseFree cs.c.body p.f (metaRoot (freeBatch cs.roots is)) is.length = some b' ∧
      verify cs.c.body.renterKey (.contract b') rsig = true ∧
      contractorAccepts cs.c (signed h b' rsig) = true ∧
      e = .revise cid (signed h b' rsig) (freeBatch cs.roots is) := by
  unfold decideFree at he
  cases second with
  | none => rejall; all_goals (first | rej | contradiction)
  | some rsig =>
  rejall
  simp only [Option.some.injEq] at *
  subst_vars
  exact ⟨_, _, _, (lockForRevision_ok ‹_›).1, (lockForRevision_ok ‹_›).2, rfl, of_not_bnot ‹_›, of_not_bnot ‹_›, ‹_›,
    of_not_bnot ‹_›, of_not_bnot ‹_›, by simpa using he.symm⟩

theorem decideAttach_eff {h : Host} {l : List Link} {e : Effect}
    (he : (decideAttach h l).eff = e) (hne : e ≠ .none) :
    linksValid h l = true ∧
    (l.all fun a => verify a.pool (.attach h.hostKey a.account a.pool a.validUntil) a.sig) = true ∧
    (l.all fun a => (h.pools a.pool).isSome) = true ∧ e = .attach l := by
  unfold decideAttach at he
  rejall
  exact ⟨of_not_bnot ‹_›, of_not_bnot ‹_›, of_not_bnot ‹_›, by simpa using he.symm⟩

theorem decideDetach_eff {h : Host} {l : List Link} {e : Effect}
    (he : (decideDetach h l).eff = e) (hne : e ≠ .none) :
    linksValid h l = true ∧
    (l.all fun d =>
      verify d.pool (.detach h.hostKey d.account d.pool d.validUntil) d.sig ||
      verify d.account (.detach h.hostKey d.account d.pool d.validUntil) d.sig) = true ∧ e = .detach l := by
  unfold decideDetach at he
  rejall
  exact ⟨of_not_bnot ‹_›, of_not_bnot ‹_›, by simpa using he.symm⟩

theorem decideRead_eff {h : Host} {p : Prices} {t : Token} {root off len : Nat} {e : Effect}
    (he : (decideRead h p t root off len).eff = e) (hne : e ≠ .none) :
    pricesValid h p = true ∧ tokenValid h t = true ∧ h.sectors root = true ∧
    canDebit h t.account (readCost p.f len) = true ∧ e = .debit t.account (readCost p.f len) := by
  unfold decideRead at he
  rejall
  exact ⟨of_not_bnot ‹_›, of_not_bnot ‹_›, of_not_bnot ‹_›, of_not_bnot ‹_›, by simpa using he.symm⟩

theorem decideVerify_eff {h : Host} {p : Prices} {t : Token} {root leaf : Nat} {e : Effect}
    (he : (decideVerify h p t root leaf).eff = e) (hne : e ≠ .none) :
    pricesValid h p = true ∧ tokenValid h t = true ∧ h.sectors root = true ∧
    canDebit h t.account (verifyCost p.f) = true ∧ e = .debit t.account (verifyCost p.f) := by
  unfold decideVerify at he
  rejall
  exact ⟨of_not_bnot ‹_›, of_not_bnot ‹_›, of_not_bnot ‹_›, of_not_bnot ‹_›, by simpa using he.symm⟩

theorem decideWrite_eff {h : Host} {p : Prices} {t : Token} {len : Nat} {data : Option Nat} {e : Effect}
    (he : (decideWrite h p t len data).eff = e) (hne : e ≠ .none) :
    ∃ root, data = some root ∧ pricesValid h p = true ∧ tokenValid h t = true ∧
    canDebit h t.account (writeCost p.f len) = true ∧ e = .debitStore t.account (writeCost p.f len) root := by
  unfold decideWrite at he
  cases data with
  | none => rejall; all_goals (first | rej | contradiction)
  | some root =>
  rejall
  simp only [Option.some.injEq] at *
  subst_vars
  exact ⟨_, rfl, of_not_bnot ‹_›, of_not_bnot ‹_›, of_not_bnot ‹_›, by simpa using he.symm⟩

/-- a decision either changes nothing or answers `ok` -/
def Decision.Good (d : Decision) : Prop := d.eff = .none ∨ d.out.cls = .ok

macro "goodall" : tactic =>
  `(tactic| (repeat' (first | split | (dsimp only; split))
             all_goals (first | exact Or.inl rfl | exact Or.inr rfl | contradiction)))

theorem decide_good (h : Host) (r : Req) : (decide h r).Good := by
  cases r <;> simp only [decide]
  case garbage => exact Or.inl rfl
  case latest cid => unfold decideLatest; goodall
  case balance => exact Or.inl rfl
  case read p t root off len => unfold decideRead; goodall
  case write p t len data => unfold decideWrite; goodall
  case verify p t root leaf => unfold decideVerify; goodall
  case free cid p chal is second => unfold decideFree; goodall
  case append cid p chal sectors second => unfold decideAppend; goodall
  case roots cid p off len sig => unfold decideRoots; goodall
  case fund cid ds sig => unfold decideFund; goodall
  case replenish pool cid accounts target chal second => unfold decideReplenish; goodall
  case attach l => unfold decideAttach; goodall
  case detach l => unfold decideDetach; goodall

/-! ## revisions -/


/-- what relates a contract to the next revision a handler persists for it -/
structure RevStep (old new : Contract) (cost : Nat) : Prop where
  rev : new.body.rev = old.body.rev + 1
  renterKey : new.body.renterKey = old.body.renterKey
  hostKey : new.body.hostKey = old.body.hostKey
  proofHeight : new.body.proofHeight = old.body.proofHeight
  expHeight : new.body.expHeight = old.body.expHeight
  totalColl : new.body.totalColl = old.body.totalColl
  afford : cost ≤ old.body.renterOut
  renterOut : new.body.renterOut + cost = old.body.renterOut
  hostOut : new.body.hostOut = old.body.hostOut + cost
  missed : new.body.missedHost ≤ old.body.missedHost
  rsig : new.renterSig = .mk old.body.renterKey (.contract new.body)
  hsig : new.hostSig = .mk old.body.hostKey (.contract new.body)

/-- what a persisted (revision, roots) pair keeps of the contract's root/size/capacity facts -/
structure Keeps (h : Host) (cs : CState) (c : Contract) (roots : List Nat) : Prop where
  root : metaRoot cs.roots = cs.c.body.root → metaRoot roots = c.body.root
  size : cs.roots.length = cs.c.body.filesize → roots.length = c.body.filesize
  cap : cs.c.body.filesize ≤ cs.c.body.capacity → c.body.filesize ≤ c.body.capacity
  capMono : cs.c.body.capacity ≤ c.body.capacity
  stored : (∀ r ∈ cs.roots, h.sectors r = true) → ∀ r ∈ roots, h.sectors r = true

theorem verify_iff (k : Nat) (m : Msg) (s : Sig) : verify k m s = true ↔ s = .mk k m := by
  simp [verify]

theorem pay_some {b b' : Body} {amount coll : Nat} (hp : pay b amount coll = some b') :
    amount ≤ b.renterOut ∧ coll ≤ b.missedHost ∧
    b' = { b with rev := b.rev + 1, renterOut := b.renterOut - amount,
                  hostOut := b.hostOut + amount, missedHost := b.missedHost - coll } := by
  unfold pay at hp
  split at hp
  · simp at hp
  · split at hp
    · simp at hp
    · simp at hp; refine ⟨by omega, by omega, hp.symm⟩

/-- the fields `pay` touches -/
structure Paid (b b' : Body) (amount coll : Nat) : Prop where
  afford : amount ≤ b.renterOut
  rev : b'.rev = b.rev + 1
  renterOut : b'.renterOut + amount = b.renterOut
  hostOut : b'.hostOut = b.hostOut + amount
  missed : b'.missedHost + coll = b.missedHost
  totalColl : b'.totalColl = b.totalColl
  proofHeight : b'.proofHeight = b.proofHeight
  expHeight : b'.expHeight = b.expHeight
  renterKey : b'.renterKey = b.renterKey
  hostKey : b'.hostKey = b.hostKey

theorem reviseFree_some {b b' : Body} {p : PriceFields} {root : H} {n : Nat}
    (hr : reviseFree b p root n = some b') :
    Paid b b' (freeCost p n) 0 ∧ b'.filesize = b.filesize - n ∧ b'.capacity = b.capacity ∧ b'.root = root := by
  unfold reviseFree at hr
  cases hp : pay { b with filesize := b.filesize - n } (freeCost p n) 0 with
  | none => simp [hp] at hr
  | some b1 =>
    simp [hp] at hr
    obtain ⟨h1, h2, h3⟩ := pay_some hp
    subst hr; subst h3
    refine ⟨?_, rfl, rfl, rfl⟩
    constructor <;> simp_all <;> omega

theorem reviseAppend_some {b b' : Body} {p : PriceFields} {root : H} {n : Nat}
    (hr : reviseAppend b p root n = some b') :
    Paid b b' (appendCost p (appendGrowth b n) (b.expHeight - p.tipHeight))
      (appendCollateral p (appendGrowth b n) (b.expHeight - p.tipHeight)) ∧
    b'.filesize = b.filesize + n ∧ b'.capacity = b.capacity + appendGrowth b n ∧ b'.root = root := by
  unfold reviseAppend at hr
  obtain ⟨h1, h2, h3⟩ := pay_some hr
  subst h3
  refine ⟨?_, rfl, rfl, rfl⟩
  constructor <;> simp_all <;> omega

theorem revisePlain_some {b b' : Body} {amount : Nat} (hr : pay b amount 0 = some b') :
    Paid b b' amount 0 ∧ b'.filesize = b.filesize ∧ b'.capacity = b.capacity ∧ b'.root = b.root := by
  obtain ⟨h1, h2, h3⟩ := pay_some hr
  subst h3
  refine ⟨?_, rfl, rfl, rfl⟩
  constructor <;> simp_all <;> omega

/-- a paid body, signed by the renter and accepted by the contractor, is a `RevStep` -/
theorem revStep_of_paid {h : Host} {old : Contract} {b' : Body} {amount coll : Nat} {rsig : Sig}
    (hp : Paid old.body b' amount coll)
    (hv : verify old.body.renterKey (.contract b') rsig = true)
    (ha : contractorAccepts old (signed h b' rsig) = true) :
    RevStep old (signed h b' rsig) amount := by
  simp only [contractorAccepts, signed, Bool.and_eq_true, verify_iff, Sig.mk.injEq, and_true] at ha
  rw [verify_iff] at hv
  obtain ⟨a, b, c, d, e, f, g, i, j, k⟩ := hp
  constructor <;> simp_all [signed] <;> omega

theorem appendGrowth_cap (b : Body) (n : Nat) (hc : b.filesize ≤ b.capacity) :
    b.filesize + n ≤ b.capacity + appendGrowth b n := by
  unfold appendGrowth; omega

theorem freeBatch_length (rs is : List Nat) : (freeBatch rs is).length = rs.length - is.length := by
  simp [freeBatch, freeWrites_length]

theorem mem_freeWrites (is : List Nat) : ∀ (rs : List Nat) (i : Nat) (x : Nat),
    x ∈ freeWrites rs i is → x ∈ rs := by
  induction is with
  | nil => intro rs i x hx; simpa [freeWrites] using hx
  | cons n is ih =>
    intro rs i x hx
    simp only [freeWrites] at hx
    have h := ih _ _ _ hx
    rcases List.mem_or_eq_of_mem_set h with h | h
    · exact h
    · cases rs with
      | nil => simp at hx h; exact absurd (ih _ _ _ hx) (by simp)
      | cons a rs =>
        have hlt : (a :: rs).length - i - 1 < (a :: rs).length := by simp; omega
        rw [h, List.getD_eq_getElem?_getD, List.getElem?_eq_getElem hlt]
        simp

theorem mem_freeBatch {rs is : List Nat} {x : Nat} (hx : x ∈ freeBatch rs is) : x ∈ rs :=
  mem_freeWrites is rs 0 x (List.mem_of_mem_take hx)


/-! ## every effect is justified -/


/-- what an effect promises relative to the state it was decided in -/
def EffectOk (h : Host) : Effect → Prop
  | .none => True
  | .revise cid c roots => ∃ cs cost, h.contracts cid = some cs ∧ revisable h cs = true ∧
      RevStep cs.c c cost ∧ Keeps h cs c roots
  | .credit _ cid c ds => ∃ cs, h.contracts cid = some cs ∧ revisable h cs = true ∧
      RevStep cs.c c (depositTotal ds) ∧ Keeps h cs c cs.roots
  | .debit a cost => canDebit h a cost = true
  | .debitStore a cost _ => canDebit h a cost = true
  | .attach l => (l.all fun a => (h.pools a.pool).isSome) = true
  | .detach _ => True

theorem keeps_same (h : Host) (cs : CState) (c : Contract)
    (h1 : c.body.filesize = cs.c.body.filesize) (h2 : c.body.capacity = cs.c.body.capacity)
    (h3 : c.body.root = cs.c.body.root) : Keeps h cs c cs.roots := by
  constructor <;> simp_all

theorem effectOk_free {h : Host} {cid : Nat} {p : Prices} {chal : Sig} {is : List Nat} {second : Option Sig} :
    EffectOk h (decideFree h cid p chal is second).eff := by
  by_cases hn : (decideFree h cid p chal is second).eff = .none
  · rw [hn]; trivial
  · obtain ⟨cs, b', rsig, hc, hr, _, _, _, hb, hv, ha, he⟩ := decideFree_eff rfl hn
    rw [he]
    obtain ⟨hp, hf, hcap, hroot⟩ := reviseFree_some hb
    refine ⟨cs, _, hc, hr, revStep_of_paid hp hv ha, ?_⟩
    constructor
    · intro _; simp [signed, hroot]
    · intro hs; simp [signed, hf, freeBatch_length, hs]
    · intro hs; simp [signed, hf, hcap]; omega
    · simp [signed, hcap]
    · intro hs r hr; exact hs r (mem_freeBatch hr)

theorem mem_acceptedRoots {h : Host} {l : List Nat} {r : Nat} (hr : r ∈ acceptedRoots h l) : h.sectors r = true := by
  simp [acceptedRoots] at hr; exact hr.2

theorem effectOk_append {h : Host} {cid : Nat} {p : Prices} {chal : Sig} {sectors : List Nat} {second : Option Sig} :
    EffectOk h (decideAppend h cid p chal sectors second).eff := by
  by_cases hn : (decideAppend h cid p chal sectors second).eff = .none
  · rw [hn]; trivial
  · obtain ⟨cs, b', rsig, hc, hr, _, _, _, hb, hv, ha, he⟩ := decideAppend_eff rfl hn
    rw [he]
    obtain ⟨hp, hf, hcap, hroot⟩ := reviseAppend_some hb
    refine ⟨cs, _, hc, hr, revStep_of_paid hp hv ha, ?_⟩
    constructor
    · intro _; simp [signed, hroot]
    · intro hs; simp [signed, hf, hs]
    · intro hs; simp only [signed, hf, hcap]; exact appendGrowth_cap _ _ hs
    · simp [signed, hcap]
    · intro hs r hr
      rcases List.mem_append.mp hr with hr | hr
      · exact hs r hr
      · exact mem_acceptedRoots hr

theorem effectOk_roots {h : Host} {cid : Nat} {p : Prices} {off len : Nat} {sig : Sig} :
    EffectOk h (decideRoots h cid p off len sig).eff := by
  by_cases hn : (decideRoots h cid p off len sig).eff = .none
  · rw [hn]; trivial
  · obtain ⟨cs, b', hc, hr, _, _, _, hb, hv, ha, he⟩ := decideRoots_eff rfl hn
    rw [he]
    obtain ⟨hp, hf, hcap, hroot⟩ := revisePlain_some hb
    exact ⟨cs, _, hc, hr, revStep_of_paid hp hv ha, keeps_same h cs _ hf hcap hroot⟩

theorem effectOk_fund {h : Host} {cid : Nat} {ds : List (Nat × Nat)} {sig : Sig} :
    EffectOk h (decideFund h cid ds sig).eff := by
  by_cases hn : (decideFund h cid ds sig).eff = .none
  · rw [hn]; trivial
  · obtain ⟨cs, b', hc, hr, hb, hv, ha, he⟩ := decideFund_eff rfl hn
    rw [he]
    obtain ⟨hp, hf, hcap, hroot⟩ := revisePlain_some hb
    exact ⟨cs, hc, hr, revStep_of_paid hp hv ha, keeps_same h cs _ hf hcap hroot⟩

theorem effectOk_replenish {h : Host} {pool : Bool} {cid : Nat} {accounts : List Nat} {target : Nat} {chal : Sig}
    {second : Option Sig} : EffectOk h (decideReplenish h pool cid accounts target chal second).eff := by
  by_cases hn : (decideReplenish h pool cid accounts target chal second).eff = .none
  · rw [hn]; trivial
  · obtain ⟨cs, b', rsig, hc, hr, _, _, _, hb, hv, ha, he⟩ := decideReplenish_eff rfl hn
    rw [he]
    obtain ⟨hp, hf, hcap, hroot⟩ := revisePlain_some hb
    exact ⟨cs, hc, hr, revStep_of_paid hp hv ha, keeps_same h cs _ hf hcap hroot⟩

theorem decide_effectOk (h : Host) (r : Req) : EffectOk h (decide h r).eff := by
  cases r <;> simp only [decide]
  case garbage => trivial
  case latest cid => unfold decideLatest; split <;> trivial
  case balance => trivial
  case read p t root off len =>
    by_cases hn : (decideRead h p t root off len).eff = .none
    · rw [hn]; trivial
    · obtain ⟨_, _, _, hd, he⟩ := decideRead_eff rfl hn; rw [he]; exact hd
  case write p t len data =>
    by_cases hn : (decideWrite h p t len data).eff = .none
    · rw [hn]; trivial
    · obtain ⟨_, _, _, _, hd, he⟩ := decideWrite_eff rfl hn; rw [he]; exact hd
  case verify p t root leaf =>
    by_cases hn : (decideVerify h p t root leaf).eff = .none
    · rw [hn]; trivial
    · obtain ⟨_, _, _, hd, he⟩ := decideVerify_eff rfl hn; rw [he]; exact hd
  case free => exact effectOk_free
  case append => exact effectOk_append
  case roots => exact effectOk_roots
  case fund => exact effectOk_fund
  case replenish => exact effectOk_replenish
  case attach l =>
    by_cases hn : (decideAttach h l).eff = .none
    · rw [hn]; trivial
    · obtain ⟨_, _, hp, he⟩ := decideAttach_eff rfl hn; rw [he]; exact hp
  case detach l =>
    by_cases hn : (decideDetach h l).eff = .none
    · rw [hn]; trivial
    · obtain ⟨_, _, he⟩ := decideDetach_eff rfl hn; rw [he]; trivial


/-! ## the invariant -/


/-- the per-contract invariant -/
structure CInv (sectors : Nat → Bool) (cs : CState) : Prop where
  root : metaRoot cs.roots = cs.c.body.root
  size : cs.roots.length = cs.c.body.filesize
  cap : cs.c.body.filesize ≤ cs.c.body.capacity
  rsig : cs.c.renterSig = .mk cs.c.body.renterKey (.contract cs.c.body)
  hsig : cs.c.hostSig = .mk cs.c.body.hostKey (.contract cs.c.body)
  stored : ∀ r ∈ cs.roots, sectors r = true
  missed : cs.c.body.missedHost ≤ cs.c.body.hostOut
  heights : cs.c.body.proofHeight < cs.c.body.expHeight

def Inv (h : Host) : Prop := ∀ cid cs, h.contracts cid = some cs → CInv h.sectors cs

theorem upd_same {α} (f : Nat → α) (k : Nat) (v : α) : upd f k v k = v := by simp [upd]
theorem upd_other {α} (f : Nat → α) (k x : Nat) (v : α) (h : x ≠ k) : upd f k v x = f x := by simp [upd, h]

theorem cinv_revised {sectors : Nat → Bool} {h : Host} {cs : CState} {c : Contract} {roots : List Nat} {cost : Nat}
    (hs : h.sectors = sectors)
    (hi : CInv sectors cs) (hr : RevStep cs.c c cost) (hk : Keeps h cs c roots) :
    CInv sectors { cs with c := c, roots := roots } := by
  subst hs
  constructor
  · exact hk.root hi.root
  · exact hk.size hi.size
  · exact hk.cap hi.cap
  · show c.renterSig = _; rw [hr.rsig, hr.renterKey]
  · show c.hostSig = _; rw [hr.hsig, hr.hostKey]
  · exact hk.stored hi.stored
  · show c.body.missedHost ≤ c.body.hostOut
    have := hr.missed; have := hr.hostOut; have := hi.missed; omega
  · show c.body.proofHeight < c.body.expHeight
    rw [hr.proofHeight, hr.expHeight]; exact hi.heights

theorem cinv_mono {s1 s2 : Nat → Bool} {cs : CState} (hm : ∀ r, s1 r = true → s2 r = true) (hi : CInv s1 cs) :
    CInv s2 cs :=
  { hi with stored := fun r hr => hm r (hi.stored r hr) }

theorem debit_contracts (h : Host) (a cost : Nat) : (debit h a cost).contracts = h.contracts := rfl
theorem debit_sectors (h : Host) (a cost : Nat) : (debit h a cost).sectors = h.sectors := rfl

theorem apply_inv {h : Host} {e : Effect} (hi : Inv h) (ho : EffectOk h e) : Inv (apply h e) := by
  cases e with
  | none => exact hi
  | revise cid c roots =>
    obtain ⟨cs, cost, hc, _, hr, hk⟩ := ho
    simp only [apply, hc]
    intro cid' cs' hc'
    by_cases heq : cid' = cid
    · subst heq
      simp only [upd_same, Option.some.injEq] at hc'
      subst hc'
      exact cinv_revised (h := h) rfl (hi _ _ hc) hr hk
    · simp only [upd_other _ _ _ _ heq] at hc'
      exact hi _ _ hc'
  | credit pool cid c ds =>
    obtain ⟨cs, hc, _, hr, hk⟩ := ho
    simp only [apply, hc]
    intro cid' cs' hc'
    have hcs : ∀ (hh : Host), hh.contracts = upd h.contracts cid (some { cs with c := c }) → hh.sectors = h.sectors →
        hh.contracts cid' = some cs' → CInv hh.sectors cs' := by
      intro hh hhc hhs hc'
      rw [hhc] at hc'; rw [hhs]
      by_cases heq : cid' = cid
      · subst heq
        simp only [upd_same, Option.some.injEq] at hc'
        subst hc'
        exact cinv_revised (h := h) rfl (hi _ _ hc) hr hk
      · simp only [upd_other _ _ _ _ heq] at hc'
        exact hi _ _ hc'
    cases pool <;> exact hcs _ rfl rfl hc'
  | debit a cost => intro cid cs hc; exact hi cid cs hc
  | debitStore a cost root =>
    intro cid cs hc
    refine cinv_mono ?_ (hi cid cs hc)
    intro r hr
    show upd h.sectors root true r = true
    unfold upd; split <;> simp_all
  | attach l => intro cid cs hc; exact hi cid cs hc
  | detach l => intro cid cs hc; exact hi cid cs hc

theorem step_inv {h : Host} (r : Req) (hi : Inv h) : Inv (step h r).1 :=
  apply_inv hi (decide_effectOk h r)

theorem stepOp_inv {h : Host} (op : Op) (hi : Inv h) : Inv (stepOp h op).1 := by
  cases op with
  | rpc r => exact step_inv r hi
  | tip n => exact hi
  | time n => exact hi
  | sectorErr r b => exact hi
  | sector root =>
    intro cid cs hc
    refine cinv_mono ?_ (hi cid cs hc)
    intro r hr
    show upd h.sectors root true r = true
    unfold upd; split <;> simp_all
  | form cid c =>
    simp only [stepOp]
    split
    · rename_i hf
      simp only [formOk, Bool.and_eq_true, verify_iff, beq_iff_eq, decide_eq_true_eq] at hf
      obtain ⟨⟨⟨⟨⟨⟨⟨⟨hnone, hrs⟩, hhs⟩, hfs⟩, hcap⟩, hroot⟩, _⟩, hm⟩, hh⟩ := hf
      intro cid' cs' hc'
      by_cases heq : cid' = cid
      · subst heq
        simp only [upd_same, Option.some.injEq] at hc'
        subst hc'
        constructor <;> simp_all [metaRoot, rootOf]
      · simp only [upd_other _ _ _ _ heq] at hc'
        exact hi _ _ hc'
    · exact hi
  | renew cid newcid c =>
    simp only [stepOp]
    split
    · rename_i hf
      split
      · exact hi
      · rename_i cs hcs
        simp only [renewOk, hcs, Bool.and_eq_true, verify_iff, beq_iff_eq, decide_eq_true_eq, bne_iff_ne, ne_eq,
          Bool.not_eq_true'] at hf
        obtain ⟨⟨⟨⟨⟨⟨⟨⟨⟨⟨⟨⟨hnone, hne⟩, _⟩, hrs⟩, hhs⟩, hrk⟩, hhk⟩, hfs⟩, hcap⟩, hroot⟩, _⟩, hm⟩, hh⟩ := hf
        have hold := hi cid cs hcs
        intro cid' cs' hc'
        by_cases h1 : cid' = newcid
        · subst h1
          simp only [upd_same, Option.some.injEq] at hc'
          subst hc'
          have hcap' : c.body.filesize ≤ c.body.capacity := by
            have := hold.cap
            simp only [Bool.or_eq_true, beq_iff_eq] at hcap
            rcases hcap with hcap | hcap <;> omega
          constructor
          · show metaRoot cs.roots = c.body.root; rw [hroot]; exact hold.root
          · show cs.roots.length = c.body.filesize; rw [hfs]; exact hold.size
          · exact hcap'
          · show c.renterSig = _; rw [hrs, hrk]
          · show c.hostSig = _; rw [hhs, hhk]
          · exact hold.stored
          · exact hm
          · exact hh
        · simp only [upd_other _ _ _ _ h1] at hc'
          by_cases h2 : cid' = cid
          · subst h2
            simp only [upd_same, Option.some.injEq] at hc'
            subst hc'
            exact { hold with }
          · simp only [upd_other _ _ _ _ h2] at hc'
            exact hi _ _ hc'
    · exact hi

theorem run_inv (ops : List Op) : ∀ {h : Host}, Inv h → Inv (run h ops) := by
  induction ops with
  | nil => intro h hi; exact hi
  | cons op ops ih => intro h hi; exact ih (stepOp_inv op hi)

theorem inv_init (hk now tip : Nat) : Inv (Host.init hk now tip) := by
  intro cid cs hc; simp [Host.init] at hc


/-! ## `ok` answers come with an effect -/


/-- an `ok` answer comes with an effect (true of every handler except latest/balance and the
replenish RPCs, which answer `ok` without a revision when nothing needs topping up) -/
def Decision.Strict (d : Decision) : Prop := d.out.cls = .ok → d.eff ≠ .none

theorem lockForRevision_err {h : Host} {cid : Nat} {e : Cls} (hl : lockForRevision h cid = .error e) : e ≠ .ok := by
  unfold lockForRevision at hl
  split at hl
  · simp at hl; subst hl; simp
  · split at hl
    · simp at hl
    · simp at hl; subst hl; simp

macro "strictall" : tactic =>
  `(tactic| (repeat' (first | split | (dsimp only; split))
             all_goals (first
               | (intro h; simp [reject] at h; done)
               | (intro _ h; simp at h; done)
               | (intro h; exact absurd h (lockForRevision_err (by assumption)))
               | contradiction)))

theorem decideFree_strict (h : Host) (cid : Nat) (p : Prices) (chal : Sig) (is : List Nat) (second : Option Sig) :
    (decideFree h cid p chal is second).Strict := by unfold decideFree; strictall
theorem decideAppend_strict (h : Host) (cid : Nat) (p : Prices) (chal : Sig) (s : List Nat) (second : Option Sig) :
    (decideAppend h cid p chal s second).Strict := by unfold decideAppend; strictall
theorem decideRoots_strict (h : Host) (cid : Nat) (p : Prices) (off len : Nat) (sig : Sig) :
    (decideRoots h cid p off len sig).Strict := by unfold decideRoots; strictall
theorem decideFund_strict (h : Host) (cid : Nat) (ds : List (Nat × Nat)) (sig : Sig) :
    (decideFund h cid ds sig).Strict := by unfold decideFund; strictall
theorem decideRead_strict (h : Host) (p : Prices) (t : Token) (root off len : Nat) :
    (decideRead h p t root off len).Strict := by unfold decideRead; strictall
theorem decideWrite_strict (h : Host) (p : Prices) (t : Token) (len : Nat) (data : Option Nat) :
    (decideWrite h p t len data).Strict := by unfold decideWrite; strictall
theorem decideVerify_strict (h : Host) (p : Prices) (t : Token) (root leaf : Nat) :
    (decideVerify h p t root leaf).Strict := by unfold decideVerify; strictall
theorem decideAttach_strict (h : Host) (l : List Link) : (decideAttach h l).Strict := by
  unfold decideAttach; strictall
theorem decideDetach_strict (h : Host) (l : List Link) : (decideDetach h l).Strict := by
  unfold decideDetach; strictall

theorem decideRoots_vals {h : Host} {cid : Nat} {p : Prices} {off len : Nat} {sig : Sig}
    (hok : (decideRoots h cid p off len sig).out.cls = .ok) :
    ∃ cs, h.contracts cid = some cs ∧
    (decideRoots h cid p off len sig).out.vals = (cs.roots.drop off).take len := by
  have hne := decideRoots_strict h cid p off len sig hok
  obtain ⟨cs, b', hc, hr, hp, hl, hrange, hb, hv, ha, he⟩ := decideRoots_eff rfl hne
  refine ⟨cs, hc, ?_⟩
  have h1 : ¬ (cs.c.body.filesize < off) := by omega
  have h2 : ¬ (cs.c.body.filesize - off < len) := by omega
  have h3 : ¬ (maxSectorBatch < len) := by
    intro h3
    unfold decideRoots at hok
    simp [lockForRevision, hc, hr, hp, hl, h1, h2, h3, reject] at hok
  simp [decideRoots, lockForRevision, hc, hr, hp, hl, h1, h2, h3, hb, hv, ha]


/-! ## accounts and pools -/

/-- what a deposit list gives one account -/
def depositTo (a : Nat) (ds : List (Nat × Nat)) : Nat := ((ds.filter (·.1 == a)).map (·.2)).sum

theorem depositTo_cons (a : Nat) (d : Nat × Nat) (ds : List (Nat × Nat)) :
    depositTo a (d :: ds) = (if d.1 = a then d.2 else 0) + depositTo a ds := by
  unfold depositTo
  by_cases h : d.1 = a <;> simp [List.filter_cons, h]

theorem creditAccounts_apply (ds : List (Nat × Nat)) : ∀ (acc : Nat → Nat) (a : Nat),
    creditAccounts acc ds a = acc a + depositTo a ds := by
  induction ds with
  | nil => intro acc a; simp [creditAccounts, depositTo]
  | cons d ds ih =>
    intro acc a
    obtain ⟨k, v⟩ := d
    simp only [creditAccounts, ih, depositTo_cons]
    unfold upd
    by_cases h : a = k
    · subst h; simp; omega
    · have h' : ¬ k = a := fun e => h e.symm
      simp [h, h']

theorem creditPools_apply (ds : List (Nat × Nat)) : ∀ (pools : Nat → Option Nat) (a : Nat),
    poolBal (creditPools pools ds) a = poolBal pools a + depositTo a ds := by
  induction ds with
  | nil => intro pools a; simp [creditPools, depositTo]
  | cons d ds ih =>
    intro pools a
    obtain ⟨k, v⟩ := d
    simp only [creditPools, ih, depositTo_cons]
    unfold upd poolBal
    by_cases h : a = k
    · subst h; simp; omega
    · have h' : ¬ k = a := fun e => h e.symm
      simp [h, h']

/-- the deposits add up: over any duplicate-free key list covering the deposited accounts, the
per-account credits sum to the total the revision moved -/
theorem depositTo_sum (ds : List (Nat × Nat)) : ∀ (ks : List Nat), ks.Nodup → (∀ d ∈ ds, d.1 ∈ ks) →
    (ks.map fun a => depositTo a ds).sum = depositTotal ds := by
  induction ds with
  | nil =>
    intro ks _ _
    have : ∀ l : List Nat, (l.map fun _ => 0).sum = 0 := by intro l; induction l <;> simp [*]
    simpa [depositTo, depositTotal] using this ks
  | cons d ds ih =>
    intro ks hn hk
    have hd : d.1 ∈ ks := hk d (by simp)
    have ih' := ih ks hn (fun d' hd' => hk d' (by simp [hd']))
    simp only [depositTo_cons, depositTotal, List.map_cons, List.sum_cons] at *
    rw [← ih']
    -- Σ (if d.1 = a then d.2 else 0) + f a = d.2 + Σ f a
    have key : ∀ (l : List Nat), l.Nodup → d.1 ∈ l →
        (l.map fun a => (if d.1 = a then d.2 else 0) + depositTo a ds).sum = d.2 + (l.map fun a => depositTo a ds).sum := by
      intro l
      induction l with
      | nil => intro _ h; simp at h
      | cons x l ihl =>
        intro hn h
        have hn' := List.nodup_cons.mp hn
        simp only [List.map_cons, List.sum_cons]
        by_cases hx : d.1 = x
        · have hnotin : d.1 ∉ l := hx ▸ hn'.1
          have : (l.map fun a => (if d.1 = a then d.2 else 0) + depositTo a ds) = l.map fun a => depositTo a ds := by
            apply List.map_congr_left
            intro a ha
            have : ¬ d.1 = a := fun e => hnotin (e ▸ ha)
            simp [this]
          rw [this]; simp [hx]; omega
        · have hin : d.1 ∈ l := by
            rcases List.mem_cons.mp h with h | h
            · exact absurd h hx
            · exact h
          rw [ihl hn'.2 hin]; simp [hx]; omega
    exact key ks hn hd

/-- replenish deposits for a duplicate-free account list -/
theorem depositTo_replenish (bal : Nat → Nat) (target : Nat) (accounts : List Nat) (hn : accounts.Nodup) (a : Nat) :
    depositTo a (replenishDeposits bal target accounts) = if a ∈ accounts then target - bal a else 0 := by
  induction accounts with
  | nil => simp [replenishDeposits, depositTo]
  | cons x xs ih =>
    have hn' := List.nodup_cons.mp hn
    have : replenishDeposits bal target (x :: xs) = (x, target - bal x) :: replenishDeposits bal target xs := rfl
    rw [this, depositTo_cons, ih hn'.2]
    by_cases h : x = a
    · subst h; simp [hn'.1]
    · have h' : ¬ a = x := fun e => h e.symm
      simp [h, h']

theorem hasDup_false {l : List Nat} (h : hasDup l = false) : l.Nodup := by
  induction l with
  | nil => simp
  | cons a l ih =>
    simp only [hasDup, Bool.or_eq_false_iff] at h
    refine List.nodup_cons.mpr ⟨?_, ih h.2⟩
    simpa using h.1

/-! ### debit -/

def poolSum (pools : Nat → Option Nat) (ps : List Nat) : Nat := (ps.map (poolBal pools)).sum

theorem drawable_le (pools : Nat → Option Nat) (ps : List Nat) : ∀ (d cost : Nat),
    drawable pools d ps cost ≤ d + poolSum pools ps := by
  induction ps with
  | nil => intro d cost; simp [drawable, poolSum]
  | cons p ps ih =>
    intro d cost
    simp only [drawable]
    split
    · simp [poolSum]
    · have := ih (d + poolBal pools p) cost
      simp only [poolSum, List.map_cons, List.sum_cons] at *
      omega

theorem poolBal_upd_other (pools : Nat → Option Nat) (p q : Nat) (v : Option Nat) (h : q ≠ p) :
    poolBal (upd pools p v) q = poolBal pools q := by
  simp [poolBal, upd, h]

theorem poolSum_upd_notin (pools : Nat → Option Nat) (p : Nat) (v : Option Nat) (ps : List Nat) (h : p ∉ ps) :
    poolSum (upd pools p v) ps = poolSum pools ps := by
  unfold poolSum
  congr 1
  apply List.map_congr_left
  intro q hq
  exact poolBal_upd_other pools p q v (fun e => h (e ▸ hq))

theorem drainPools_notin (ps : List Nat) : ∀ (pools : Nat → Option Nat) (remaining q : Nat),
    q ∉ ps → drainPools pools ps remaining q = pools q := by
  induction ps with
  | nil => intro pools r q _; simp [drainPools]
  | cons p ps ih =>
    intro pools r q hq
    have hqp : q ≠ p := fun e => hq (by simp [e])
    have hqs : q ∉ ps := fun e => hq (by simp [e])
    simp only [drainPools]
    split
    · rfl
    · split
      · exact ih pools r q hqs
      · rw [ih _ _ q hqs]; simp [upd, hqp]

/-- draining: what leaves the pools is exactly `remaining`, pools outside the list are untouched -/
theorem drainPools_sum (ps : List Nat) : ∀ (pools : Nat → Option Nat) (remaining : Nat),
    ps.Nodup → remaining ≤ poolSum pools ps →
    poolSum (drainPools pools ps remaining) ps + remaining = poolSum pools ps := by
  induction ps with
  | nil => intro pools r _ h; simp [poolSum] at h; simp [drainPools, poolSum, h]
  | cons p ps ih =>
    intro pools r hn hle
    have hn' := List.nodup_cons.mp hn
    have hcons : ∀ f : Nat → Option Nat, poolSum f (p :: ps) = poolBal f p + poolSum f ps := by
      intro f; simp [poolSum]
    simp only [drainPools]
    split
    · rename_i h0; simp [h0]
    · split
      · rename_i hb
        have hle' : r ≤ poolSum pools ps := by rw [hcons, hb] at hle; omega
        have h1 := ih pools r hn'.2 hle'
        have hp : poolBal (drainPools pools ps r) p = poolBal pools p := by
          unfold poolBal; rw [drainPools_notin ps pools r p hn'.1]
        rw [hcons, hcons, hp]; omega
      · rename_i hr hb
        have hmin : min (poolBal pools p) r ≤ poolBal pools p := Nat.min_le_left _ _
        have hmin2 : min (poolBal pools p) r ≤ r := Nat.min_le_right _ _
        have hs : poolSum (upd pools p (some (poolBal pools p - min (poolBal pools p) r))) ps = poolSum pools ps :=
          poolSum_upd_notin pools p _ ps hn'.1
        have hle' : r - min (poolBal pools p) r ≤ poolSum (upd pools p (some (poolBal pools p - min (poolBal pools p) r))) ps := by
          rw [hs]; rw [hcons] at hle
          by_cases hc : poolBal pools p ≤ r
          · rw [Nat.min_eq_left hc]; omega
          · rw [Nat.min_eq_right (by omega)]; omega
        have h1 := ih _ _ hn'.2 hle'
        have hp : poolBal (drainPools (upd pools p (some (poolBal pools p - min (poolBal pools p) r))) ps
            (r - min (poolBal pools p) r)) p = poolBal pools p - min (poolBal pools p) r := by
          unfold poolBal; rw [drainPools_notin ps _ _ p hn'.1]; simp [upd]
        rw [hcons, hcons, hp]
        rw [hs] at h1
        omega

/-- every pool only ever loses money in a drain -/
theorem drainPools_le (ps : List Nat) : ∀ (pools : Nat → Option Nat) (remaining q : Nat),
    poolBal (drainPools pools ps remaining) q ≤ poolBal pools q := by
  induction ps with
  | nil => intro pools r q; simp [drainPools]
  | cons p ps ih =>
    intro pools r q
    simp only [drainPools]
    split
    · exact Nat.le_refl _
    · split
      · exact ih pools r q
      · refine Nat.le_trans (ih _ _ q) ?_
        by_cases hq : q = p
        · subst hq; simp [poolBal, upd]
        · rw [poolBal_upd_other _ _ _ _ hq]; exact Nat.le_refl _



/-- attachment lists never hold a pool twice -/
def AttInv (h : Host) : Prop := ∀ a, (h.attached a).Nodup

theorem attachAll_nodup (l : List Link) : ∀ (att : Nat → List Nat), (∀ a, (att a).Nodup) →
    ∀ a, (attachAll att l a).Nodup := by
  induction l with
  | nil => intro att h a; exact h a
  | cons x l ih =>
    intro att h a
    simp only [attachAll]
    apply ih
    intro b
    split
    · exact h b
    · rename_i hc
      unfold upd
      split
      · rename_i hb; subst hb
        have hnot : x.pool ∉ att x.account := by simpa using hc
        exact List.nodup_append.mpr ⟨h _, by simp, by intro y hy z hz; simp at hz; subst hz; exact fun e => hnot (e ▸ hy)⟩
      · exact h b

theorem detachAll_nodup (l : List Link) : ∀ (att : Nat → List Nat), (∀ a, (att a).Nodup) →
    ∀ a, (detachAll att l a).Nodup := by
  induction l with
  | nil => intro att h a; exact h a
  | cons x l ih =>
    intro att h a
    simp only [detachAll]
    apply ih
    intro b
    unfold upd
    split
    · exact (h _).erase _
    · exact h b

theorem apply_attInv {h : Host} (e : Effect) (hi : AttInv h) : AttInv (apply h e) := by
  cases e with
  | none => exact hi
  | revise cid c roots => simp only [apply]; split <;> exact hi
  | credit pool cid c ds =>
    simp only [apply]
    split
    · exact hi
    · cases pool <;> exact hi
  | debit a cost => exact hi
  | debitStore a cost root => exact hi
  | attach l => exact attachAll_nodup l _ hi
  | detach l => exact detachAll_nodup l _ hi

theorem stepOp_attInv {h : Host} (op : Op) (hi : AttInv h) : AttInv (stepOp h op).1 := by
  cases op with
  | rpc r => exact apply_attInv _ hi
  | tip n => exact hi
  | time n => exact hi
  | sector r => exact hi
  | sectorErr r b => exact hi
  | form cid c => simp only [stepOp]; split <;> exact hi
  | renew cid newcid c =>
    simp only [stepOp]
    split
    · split <;> exact hi
    · exact hi

theorem run_attInv (ops : List Op) : ∀ {h : Host}, AttInv h → AttInv (run h ops) := by
  induction ops with
  | nil => intro h hi; exact hi
  | cons op ops ih => intro h hi; exact ih (stepOp_attInv op hi)

/-- a successful `DebitAccount`: the books balance -/
theorem debit_conserves (h : Host) (a cost : Nat) (hn : (h.attached a).Nodup) (hc : canDebit h a cost = true) :
    (debit h a cost).accounts a + poolSum (debit h a cost).pools (h.attached a) + cost
      = h.accounts a + poolSum h.pools (h.attached a) := by
  simp only [canDebit, decide_eq_true_eq] at hc
  have hle := drawable_le h.pools (h.attached a) (h.accounts a) cost
  have hrem : cost - min (h.accounts a) cost ≤ poolSum h.pools (h.attached a) := by
    by_cases hx : h.accounts a ≤ cost
    · rw [Nat.min_eq_left hx]; omega
    · rw [Nat.min_eq_right (by omega)]; omega
  have hs := drainPools_sum (h.attached a) h.pools _ hn hrem
  simp only [debit, upd_same]
  have hmin : min (h.accounts a) cost ≤ h.accounts a := Nat.min_le_left _ _
  have hmin2 : min (h.accounts a) cost ≤ cost := Nat.min_le_right _ _
  omega

/-- the account's own balance is used first -/
theorem debit_own_first (h : Host) (a cost : Nat) :
    (debit h a cost).accounts a = h.accounts a - min (h.accounts a) cost ∧
    (h.accounts a < cost → (debit h a cost).accounts a = 0) ∧
    (cost ≤ h.accounts a → (debit h a cost).pools = h.pools) := by
  refine ⟨by simp [debit, upd_same], ?_, ?_⟩
  · intro hlt; simp only [debit, upd_same]; rw [Nat.min_eq_left (by omega)]; omega
  · intro hle
    simp only [debit]
    rw [Nat.min_eq_right hle, Nat.sub_self]
    cases h.attached a <;> simp [drainPools]

/-- nobody else's money moves -/
theorem debit_frame (h : Host) (a cost : Nat) :
    (∀ b, b ≠ a → (debit h a cost).accounts b = h.accounts b) ∧
    (∀ p, p ∉ h.attached a → (debit h a cost).pools p = h.pools p) ∧
    (∀ p, poolBal (debit h a cost).pools p ≤ poolBal h.pools p) ∧
    (debit h a cost).attached = h.attached ∧ (debit h a cost).contracts = h.contracts := by
  refine ⟨?_, ?_, ?_, rfl, rfl⟩
  · intro b hb; simp [debit, upd, hb]
  · intro p hp; exact drainPools_notin _ _ _ p hp
  · intro p; exact drainPools_le _ _ _ p

/-- pools are drained in attachment order: a later pool is touched only once every earlier one is empty -/
theorem drainPools_order (ps : List Nat) : ∀ (pools : Nat → Option Nat) (remaining : Nat), ps.Nodup →
    ∀ (l1 : List Nat) (p : Nat) (l2 : List Nat), ps = l1 ++ p :: l2 →
      poolBal (drainPools pools ps remaining) p < poolBal pools p →
      ∀ q ∈ l1, poolBal (drainPools pools ps remaining) q = 0 := by
  induction ps with
  | nil => intro pools r _ l1 p l2 h; simp at h
  | cons x ps ih =>
    intro pools r hn l1 p l2 hsplit hlt q hq
    have hn' := List.nodup_cons.mp hn
    cases l1 with
    | nil => simp at hq
    | cons y l1 =>
      simp only [List.cons_append, List.cons.injEq] at hsplit
      obtain ⟨hy, hps⟩ := hsplit
      subst hy
      have hpin : p ∈ ps := by rw [hps]; simp
      have hpx : p ≠ x := fun e => hn'.1 (e ▸ hpin)
      simp only [drainPools] at hlt ⊢
      split at hlt
      · exact absurd hlt (Nat.lt_irrefl _)
      · rename_i hr0
        simp only [hr0, if_false]
        split at hlt
        · rename_i hb
          simp only [hb, if_true]
          rcases List.mem_cons.mp hq with rfl | hq'
          · unfold poolBal at hb ⊢; rw [drainPools_notin ps pools r q hn'.1]; exact hb
          · exact ih pools r hn'.2 l1 p l2 hps hlt q hq'
        · rename_i hb
          simp only [hb, if_false]
          have hlt' : poolBal (drainPools (upd pools x (some (poolBal pools x - min (poolBal pools x) r))) ps
              (r - min (poolBal pools x) r)) p < poolBal (upd pools x (some (poolBal pools x - min (poolBal pools x) r))) p := by
            rw [poolBal_upd_other _ _ _ _ hpx]; exact hlt
          -- the tail changed p, so something remained after x: x was drained completely
          have hrem : r - min (poolBal pools x) r ≠ 0 := by
            intro h0
            rw [h0] at hlt'
            have : ∀ (f : Nat → Option Nat) (l : List Nat), drainPools f l 0 = f := by
              intro f l; cases l <;> simp [drainPools]
            rw [this] at hlt'
            exact absurd hlt' (Nat.lt_irrefl _)
          rcases List.mem_cons.mp hq with rfl | hq'
          · have hle : poolBal pools q ≤ r := by
              by_cases hc : poolBal pools q ≤ r
              · exact hc
              · rw [Nat.min_eq_right (by omega)] at hrem; omega
            have : poolBal (drainPools (upd pools q (some (poolBal pools q - min (poolBal pools q) r))) ps
                (r - min (poolBal pools q) r)) q = poolBal pools q - min (poolBal pools q) r := by
              unfold poolBal; rw [drainPools_notin ps _ _ q hn'.1]; simp [upd]
            rw [this, Nat.min_eq_left hle]; omega
          · exact ih _ _ hn'.2 l1 p l2 hps hlt' q hq'



/-! ## service only after payment -/

def Ev.isService : Ev → Bool
  | .read _ _ _ => true
  | .store _ => true
  | _ => false

def Ev.isPaid : Ev → Bool
  | .debit _ _ true => true
  | _ => false

/-- every read/store event is preceded by a successful debit event -/
def paidFirst : Bool → List Ev → Bool
  | _, [] => true
  | paid, e :: es => if e.isService then paid && paidFirst paid es else paidFirst (paid || e.isPaid) es

theorem paidFirst_noService (l : List Ev) (h : ∀ e ∈ l, e.isService = false) (paid : Bool) : paidFirst paid l = true := by
  induction l generalizing paid with
  | nil => rfl
  | cons e es ih =>
    simp only [paidFirst, h e (by simp)]
    exact ih (fun e' he' => h e' (by simp [he'])) _

theorem paidFirst_hasEvents (l : List Nat) (tail : List Ev) (ht : ∀ e ∈ tail, e.isService = false) :
    paidFirst false (hasEvents l ++ tail) = true := by
  apply paidFirst_noService
  intro e he
  rcases List.mem_append.mp he with he | he
  · simp [hasEvents] at he; obtain ⟨r, _, rfl⟩ := he; rfl
  · exact ht e he

theorem paidFirst_hasEvents' (l : List Nat) : paidFirst false (hasEvents l) = true := by
  have := paidFirst_hasEvents l [] (by simp)
  simpa using this

macro "paidall" : tactic =>
  `(tactic| (repeat' (first | split | (dsimp only; split))
             all_goals (first | rfl | (simp [reject, paidFirst, Ev.isService, Ev.isPaid]; done)
                              | (apply paidFirst_hasEvents; simp [Ev.isService]; done)
                              | (simp only [reject]; apply paidFirst_hasEvents; simp [Ev.isService]; done)
                              | (simp only [reject]; exact paidFirst_hasEvents' _)
                              | contradiction)))

theorem decide_paidFirst (h : Host) (r : Req) : paidFirst false (decide h r).evs = true := by
  cases r <;> simp only [decide]
  case garbage => rfl
  case latest cid => unfold decideLatest; paidall
  case balance => rfl
  case read p t root off len => unfold decideRead; paidall
  case write p t len data => unfold decideWrite; paidall
  case verify p t root leaf => unfold decideVerify; paidall
  case free cid p chal is second => unfold decideFree; paidall
  case append cid p chal sectors second =>
    unfold decideAppend
    paidall
  case roots cid p off len sig => unfold decideRoots; paidall
  case fund cid ds sig => unfold decideFund; paidall
  case replenish pool cid accounts target chal second => unfold decideReplenish; paidall
  case attach l => unfold decideAttach; paidall
  case detach l => unfold decideDetach; paidall



theorem decideReplenish_ok (h : Host) (pool : Bool) (cid : Nat) (accounts : List Nat) (target : Nat) (chal : Sig)
    (second : Option Sig)
    (hok : (decideReplenish h pool cid accounts target chal second).out.cls = .ok) :
    hasDup accounts = false ∧
    ((decideReplenish h pool cid accounts target chal second).eff = .none →
      depositTotal (replenishDeposits (if pool then poolBal h.pools else h.accounts) target accounts) = 0) := by
  revert hok
  unfold decideReplenish
  repeat' (first | split | (dsimp only; split))
  all_goals (first
    | (intro h; simp [reject] at h; done)
    | (intro h; exact absurd h (lockForRevision_err (by assumption)))
    | (intro _; refine ⟨by simp_all, fun _ => by assumption⟩)
    | (intro _; refine ⟨by simp_all, fun hn => by simp at hn⟩)
    | contradiction)

theorem sum_eq_zero_of {l : List Nat} (h : l.sum = 0) : ∀ x ∈ l, x = 0 := by
  induction l with
  | nil => intro x hx; simp at hx
  | cons a l ih =>
    simp only [List.sum_cons] at h
    intro x hx
    rcases List.mem_cons.mp hx with rfl | hx
    · omega
    · exact ih (by omega) x hx

theorem replenish_zero_total {bal : Nat → Nat} {target : Nat} {accounts : List Nat}
    (h : depositTotal (replenishDeposits bal target accounts) = 0) : ∀ a ∈ accounts, target ≤ bal a := by
  intro a ha
  have := sum_eq_zero_of h (target - bal a) (by
    simp only [replenishDeposits, List.map_map, List.mem_map]
    exact ⟨a, ha, rfl⟩)
  omega


/-! ## how a contract evolves over a history -/

/-- the relation between two states of one contract in the order the host held them -/
structure Evolves (a b : Contract) : Prop where
  rev : a.body.rev ≤ b.body.rev
  same : a.body.rev = b.body.rev → b = a
  capacity : a.body.capacity ≤ b.body.capacity
  sum : b.body.renterOut + b.body.hostOut = a.body.renterOut + a.body.hostOut
  hostOut : a.body.hostOut ≤ b.body.hostOut
  missed : b.body.missedHost ≤ a.body.missedHost
  totalColl : b.body.totalColl = a.body.totalColl
  proofHeight : b.body.proofHeight = a.body.proofHeight
  expHeight : b.body.expHeight = a.body.expHeight
  renterKey : b.body.renterKey = a.body.renterKey
  hostKey : b.body.hostKey = a.body.hostKey

theorem Evolves.refl (a : Contract) : Evolves a a := by
  constructor <;> simp

theorem Evolves.trans {a b c : Contract} (h1 : Evolves a b) (h2 : Evolves b c) : Evolves a c := by
  constructor
  · exact Nat.le_trans h1.rev h2.rev
  · intro he
    have hab : a.body.rev = b.body.rev := by have := h1.rev; have := h2.rev; omega
    have hbc : b.body.rev = c.body.rev := by omega
    rw [h2.same hbc, h1.same hab]
  · exact Nat.le_trans h1.capacity h2.capacity
  · rw [h2.sum, h1.sum]
  · exact Nat.le_trans h1.hostOut h2.hostOut
  · exact Nat.le_trans h2.missed h1.missed
  · rw [h2.totalColl, h1.totalColl]
  · rw [h2.proofHeight, h1.proofHeight]
  · rw [h2.expHeight, h1.expHeight]
  · rw [h2.renterKey, h1.renterKey]
  · rw [h2.hostKey, h1.hostKey]

theorem evolves_of_revStep {h : Host} {cs : CState} {c : Contract} {roots : List Nat} {cost : Nat}
    (hr : RevStep cs.c c cost) (hk : Keeps h cs c roots) : Evolves cs.c c := by
  constructor
  · rw [hr.rev]; omega
  · intro he; rw [hr.rev] at he; omega
  · exact hk.capMono
  · have := hr.renterOut; have := hr.hostOut; omega
  · rw [hr.hostOut]; omega
  · exact hr.missed
  · exact hr.totalColl
  · exact hr.proofHeight
  · exact hr.expHeight
  · exact hr.renterKey
  · exact hr.hostKey

/-- one RPC: a contract that exists still exists afterwards and has evolved -/
theorem step_evolves (h : Host) (r : Req) (cid : Nat) (cs : CState) (hc : h.contracts cid = some cs) :
    ∃ cs', (step h r).1.contracts cid = some cs' ∧ Evolves cs.c cs'.c ∧ cs'.renewed = cs.renewed := by
  have ho := decide_effectOk h r
  simp only [step]
  cases he : (Rhp.decide h r).eff with
  | none => exact ⟨cs, hc, Evolves.refl _, rfl⟩
  | revise cid' c roots =>
    rw [he] at ho
    obtain ⟨cs1, cost, hc1, _, hr, hk⟩ := ho
    simp only [apply, hc1]
    by_cases heq : cid = cid'
    · subst heq
      rw [hc] at hc1; simp only [Option.some.injEq] at hc1; subst hc1
      exact ⟨{ cs with c := c, roots := roots }, by simp [upd_same], evolves_of_revStep hr hk, rfl⟩
    · exact ⟨cs, by simp [upd_other _ _ _ _ heq, hc], Evolves.refl _, rfl⟩
  | credit pool cid' c ds =>
    rw [he] at ho
    obtain ⟨cs1, hc1, _, hr, hk⟩ := ho
    simp only [apply, hc1]
    by_cases heq : cid = cid'
    · subst heq
      rw [hc] at hc1; simp only [Option.some.injEq] at hc1; subst hc1
      cases pool <;> exact ⟨{ cs with c := c }, by simp [upd_same], evolves_of_revStep hr hk, rfl⟩
    · cases pool <;> exact ⟨cs, by simp [upd_other _ _ _ _ heq, hc], Evolves.refl _, rfl⟩
  | debit a cost => exact ⟨cs, hc, Evolves.refl _, rfl⟩
  | debitStore a cost root => exact ⟨cs, hc, Evolves.refl _, rfl⟩
  | attach l => exact ⟨cs, hc, Evolves.refl _, rfl⟩
  | detach l => exact ⟨cs, hc, Evolves.refl _, rfl⟩

theorem stepOp_evolves (h : Host) (op : Op) (cid : Nat) (cs : CState) (hc : h.contracts cid = some cs) :
    ∃ cs', (stepOp h op).1.contracts cid = some cs' ∧ Evolves cs.c cs'.c := by
  cases op with
  | rpc r => obtain ⟨cs', h1, h2, _⟩ := step_evolves h r cid cs hc; exact ⟨cs', h1, h2⟩
  | tip n => exact ⟨cs, hc, Evolves.refl _⟩
  | time n => exact ⟨cs, hc, Evolves.refl _⟩
  | sector r => exact ⟨cs, hc, Evolves.refl _⟩
  | sectorErr r b => exact ⟨cs, hc, Evolves.refl _⟩
  | form cid' c =>
    simp only [stepOp]
    split
    · rename_i hf
      have hne : cid ≠ cid' := by
        intro e; subst e
        simp only [formOk, Bool.and_eq_true] at hf
        have := hf.1.1.1.1.1.1.1.1
        rw [hc] at this; simp at this
      exact ⟨cs, by simp [upd_other _ _ _ _ hne, hc], Evolves.refl _⟩
    · exact ⟨cs, hc, Evolves.refl _⟩
  | renew cid' newcid c =>
    simp only [stepOp]
    split
    · rename_i hf
      split
      · exact ⟨cs, hc, Evolves.refl _⟩
      · rename_i cs1 hcs1
        have hne : cid ≠ newcid := by
          intro e; subst e
          simp only [renewOk, hcs1, Bool.and_eq_true] at hf
          have := hf.1.1.1.1.1.1.1.1.1.1.1.1
          rw [hc] at this; simp at this
        by_cases h2 : cid = cid'
        · subst h2
          rw [hc] at hcs1; simp only [Option.some.injEq] at hcs1; subst hcs1
          exact ⟨{ cs with renewed := true }, by simp [upd_other _ _ _ _ hne, upd_same], Evolves.refl _⟩
        · exact ⟨cs, by simp [upd_other _ _ _ _ hne, upd_other _ _ _ _ h2, hc], Evolves.refl _⟩
    · exact ⟨cs, hc, Evolves.refl _⟩

theorem run_evolves (ops : List Op) : ∀ (h : Host) (cid : Nat) (cs : CState), h.contracts cid = some cs →
    ∃ cs', (run h ops).contracts cid = some cs' ∧ Evolves cs.c cs'.c := by
  induction ops with
  | nil => intro h cid cs hc; exact ⟨cs, hc, Evolves.refl _⟩
  | cons op ops ih =>
    intro h cid cs hc
    obtain ⟨cs1, h1, e1⟩ := stepOp_evolves h op cid cs hc
    obtain ⟨cs2, h2, e2⟩ := ih _ cid cs1 h1
    exact ⟨cs2, h2, e1.trans e2⟩


/-! ## totals stay inside `types.Currency` -/

theorem decideFund_total_le {h : Host} {cid : Nat} {ds : List (Nat × Nat)} {sig : Sig}
    {e : Effect} (he : (decideFund h cid ds sig).eff = e) (hne : e ≠ .none) : depositTotal ds ≤ maxCurrency := by
  unfold decideFund at he
  rejall
  omega

theorem decideReplenish_total_le {h : Host} {pool : Bool} {cid : Nat} {accounts : List Nat} {target : Nat} {chal : Sig}
    {second : Option Sig} {e : Effect}
    (he : (decideReplenish h pool cid accounts target chal second).eff = e) (hne : e ≠ .none) :
    depositTotal (replenishDeposits (if pool then poolBal h.pools else h.accounts) target accounts) ≤ maxCurrency := by
  unfold decideReplenish at he
  cases pool <;> simp only [Bool.false_eq_true, if_false, if_true] at he ⊢ <;>
  cases second with
  | none => rejall; all_goals (first | rej | contradiction)
  | some rsig =>
  rejall
  omega

theorem decideReplenish_vals {h : Host} {pool : Bool} {cid : Nat} {accounts : List Nat} {target : Nat} {chal : Sig}
    {second : Option Sig} (hne : (decideReplenish h pool cid accounts target chal second).eff ≠ .none) :
    (decideReplenish h pool cid accounts target chal second).out.vals =
      (replenishDeposits (if pool then poolBal h.pools else h.accounts) target accounts).map (·.2) := by
  obtain ⟨cs, b', rsig, hc, hr, hs, hdup, hv, hb, hv2, ha, he⟩ := decideReplenish_eff rfl hne
  have hle := decideReplenish_total_le rfl hne
  subst hs
  have hlen : ¬ maxAccountBatch < accounts.length := by
    intro hx; apply hne; simp [decideReplenish, hx, reject]
  have hvalid : replenishValid cid accounts target chal = true := by
    by_cases hx : replenishValid cid accounts target chal = true
    · exact hx
    · exfalso; apply hne; simp [decideReplenish, hlen, hx, reject]
  have hnz : ¬ depositTotal (replenishDeposits (if pool then poolBal h.pools else h.accounts) target accounts) = 0 := by
    intro hz; apply hne; simp [decideReplenish, hlen, hvalid, hdup, lockForRevision, hc, hr, hv, hz]
  have hle' : ¬ maxCurrency < depositTotal (replenishDeposits (if pool then poolBal h.pools else h.accounts) target accounts) := by omega
  simp [decideReplenish, hlen, hvalid, hdup, lockForRevision, hc, hr, hv, hnz, hle', hb, hv2, ha]

/-! ## a failing sector store -/

theorem decideAppend_store_ok {h : Host} {cid : Nat} {p : Prices} {chal : Sig} {sectors : List Nat} {second : Option Sig}
    {e : Effect} (he : (decideAppend h cid p chal sectors second).eff = e) (hne : e ≠ .none) :
    storeFailure h sectors [] = none := by
  unfold decideAppend at he
  cases second with
  | none => rejall; all_goals (first | rej | contradiction | assumption)
  | some rsig =>
  rejall
  assumption

theorem storeFailure_none {h : Host} (l : List Nat) : ∀ asked, storeFailure h l asked = none → ∀ r ∈ l, h.sectorErr r = false := by
  induction l with
  | nil => intro _ _ r hr; simp at hr
  | cons x l ih =>
    intro asked hs r hr
    simp only [storeFailure] at hs
    split at hs
    · simp at hs
    · rename_i hx
      rcases List.mem_cons.mp hr with rfl | hr
      · simpa using hx
      · exact ih _ hs r hr

end Verif.Rhp
