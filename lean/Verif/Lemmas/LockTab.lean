/-
Predicates over the lock table extracted from chain/manager.go (`Extracted.managerLocks`): one row
per method of `chain.Manager` = (name, exported, operations on `m.mu` in source order, touches the
manager's state directly or through an unexported method, touches it before the first operation on
`m.mu`).  Core only.
-/
namespace Verif.LockTab

abbrev Row := String × Bool × List String × Bool × Bool

def lkOps (e : Row) : List String := e.2.2.1
def lkExported (e : Row) : Bool := e.2.1
def lkTouches (e : Row) : Bool := e.2.2.2.1
def lkEarly (e : Row) : Bool := e.2.2.2.2

/-- every plain `Unlock` is immediately followed by a `Lock` -/
def windowsClosed : List String → Bool
  | "Unlock" :: "Lock" :: r => windowsClosed r
  | "Unlock" :: _ => false
  | _ :: r => windowsClosed r
  | [] => true

/-- the number of critical sections a method's lock operations describe: `Lock; defer Unlock`
followed by any number of `Unlock; Lock` windows (a second `Lock; defer Unlock` pair belongs to a
returned closure, which is a method call of its own) -/
def windows : List String → Option Nat
  | [] => some 0
  | "Unlock" :: "Lock" :: r => (windows r).map (· + 1)
  | "Lock" :: "defer Unlock" :: r => windows r
  | _ => none

def sectionsOf : List String → Option Nat
  | "Lock" :: "defer Unlock" :: r => (windows r).map (· + 1)
  | _ => none

def opsClosed (t : List Row) : Bool :=
  t.all (fun e => (lkOps e).all (fun o => o == "Lock" || o == "defer Unlock" || o == "Unlock"))

def exportedLockFirst (t : List Row) : Bool :=
  t.all (fun e => !(lkExported e && lkTouches e) || ((lkOps e).take 2 == ["Lock", "defer Unlock"] && !lkEarly e))

def internalNeverLock (t : List Row) : Bool :=
  t.all (fun e => lkExported e || (lkOps e).isEmpty)

end Verif.LockTab
