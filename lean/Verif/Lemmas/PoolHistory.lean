/-
Retention over histories (C05): the carried set through every operation.  Core only.
-/
import Verif.Lemmas.PoolRetain

namespace Verif.Pool

/-- a self-valid set `K1, K2` inside the (possibly not yet re-validated) pool `p` -/
structure Carried (S : Nat → Bool × List Nat × List Nat) (p : Pool) (K1 K2 : List Txn) : Prop where
  conf : PoolConf S p
  lists : ListsOK p
  sub1 : K1.Sublist p.txns
  sub2 : K2.Sublist p.v2txns
  robust : Robust p.led K1 K2
  reoffer : ∀ w ∈ p.lastReverted ++ p.lastRevertedV2, ∀ i ∈ w.inputs, i.elem ∉ spentOf (K1 ++ K2)

theorem spentOf_carry_sub (b : Blk) (K1 K2 : List Txn) :
    ∀ e ∈ spentOf (carryA1 b K1 ++ carryA2 b K2), e ∈ spentOf (K1 ++ K2) := by
  intro e he
  rw [spentOf_append] at he ⊢
  rcases List.mem_append.1 he with he | he
  · exact List.mem_append_left _ (spentOf_carryA1 b K1 e he)
  · exact List.mem_append_right _ (spentOf_carryA2 b K2 e he)

theorem Carried.apply {S p K1 K2} (h : Carried S p K1 K2) (b : Blk) (ok : AppOK p.led b K1 K2) :
    Carried S (applyPoolUpdate p b) (carryA1 b K1) (carryA2 b K2) :=
  { conf := applyPoolUpdate_conf b h.conf
    lists := listsOK_apply b h.lists
    sub1 := List.filter_sublist.trans h.sub1
    sub2 := carryA2_sublist h.robust b ok p h.sub2
    robust := h.robust.apply b ok
    reoffer := fun w hw i hi hm => h.reoffer w hw i hi (spentOf_carry_sub b K1 K2 _ hm) }

theorem Carried.revert {S p K1 K2} (h : Carried S p K1 K2) (b : Blk) (ok : RevOK p.led b K1 K2) :
    Carried S (revertPoolUpdate p b) K1 K2 :=
  { conf := revertPoolUpdate_conf b h.conf
    lists := listsOK_revert b h.lists
    sub1 := h.sub1
    sub2 := K2_sublist_revert h.robust b ok p h.sub2
    robust := h.robust.revert b ok
    reoffer := h.reoffer }

/-- the side conditions along the revert leg / the apply leg (each block against the ledger and
the set as they are when the block is processed) -/
def RevPathOK : Ledger → List Blk → List Txn → List Txn → Prop
  | _, [], _, _ => True
  | l, b :: bs, K1, K2 => RevOK l b K1 K2 ∧ RevPathOK (l.revert b) bs K1 K2

def AppPathOK : Ledger → List Blk → List Txn → List Txn → Prop
  | _, [], _, _ => True
  | l, b :: bs, K1, K2 => AppOK l b K1 K2 ∧ AppPathOK (l.apply b) bs (carryA1 b K1) (carryA2 b K2)

/-- what is left of the set after the apply leg -/
def carryApp : List Blk → List Txn × List Txn → List Txn × List Txn
  | [], K => K
  | b :: bs, K => carryApp bs (carryA1 b K.1, carryA2 b K.2)

theorem Carried.revertLeg {S} : ∀ (rev : List Blk) {p : Pool} {K1 K2 : List Txn}, Carried S p K1 K2 →
    RevPathOK p.led rev K1 K2 → Carried S (rev.foldl revertPoolUpdate p) K1 K2
  | [], _, _, _, h, _ => h
  | b :: bs, _, _, _, h, ok => Carried.revertLeg bs (h.revert b ok.1) ok.2

theorem Carried.applyLeg {S} : ∀ (app : List Blk) {p : Pool} {K1 K2 : List Txn}, Carried S p K1 K2 →
    AppPathOK p.led app K1 K2 →
    Carried S (app.foldl applyPoolUpdate p) (carryApp app (K1, K2)).1 (carryApp app (K1, K2)).2
  | [], _, _, _, h, _ => h
  | b :: bs, _, _, _, h, ok => Carried.applyLeg bs (h.apply b ok.1) ok.2

theorem revertLeg_led : ∀ (rev : List Blk) (p : Pool), (rev.foldl revertPoolUpdate p).led = rev.foldl Ledger.revert p.led
  | [], _ => rfl
  | b :: bs, p => by simp only [List.foldl_cons]; rw [revertLeg_led bs]; rfl

theorem spentOf_carryApp_sub : ∀ (app : List Blk) (K1 K2 : List Txn),
    ∀ e ∈ spentOf ((carryApp app (K1, K2)).1 ++ (carryApp app (K1, K2)).2), e ∈ spentOf (K1 ++ K2)
  | [], _, _, _, he => he
  | b :: bs, K1, K2, e, he => spentOf_carry_sub b K1 K2 e (spentOf_carryApp_sub bs _ _ e he)

theorem zipBad_inputs : ∀ (ts : List Txn) (fl : List Bool) (w : Txn), w ∈ zipBad ts fl →
    ∃ u ∈ ts, w.inputs.map (·.elem) = u.inputs.map (·.elem)
  | [], _, _, h => by simp [zipBad] at h
  | t :: ts, [], w, h => by
    simp only [zipBad, List.mem_cons] at h
    rcases h with rfl | h
    · exact ⟨t, by simp, mapInputs_elems (fun i => { i with bad := true }) (fun _ => rfl) t⟩
    · obtain ⟨u, hu, e⟩ := zipBad_inputs ts [] w h
      exact ⟨u, by simp [hu], e⟩
  | t :: ts, f :: fl, w, h => by
    simp only [zipBad, List.mem_cons] at h
    rcases h with rfl | h
    · exact ⟨t, by simp, mapInputs_elems (fun i => { i with bad := f }) (fun _ => rfl) t⟩
    · obtain ⟨u, hu, e⟩ := zipBad_inputs ts fl w h
      exact ⟨u, by simp [hu], e⟩

/-- **one reorg** (any revert leg, any apply leg, then the tail of `reorgTo`) -/
theorem Carried.reorg {S p K1 K2} (h : Carried S p K1 K2) (rev app : List Blk) (flags : List Bool)
    (hrev : RevPathOK p.led rev K1 K2) (happ : AppPathOK (rev.foldl Ledger.revert p.led) app K1 K2)
    (hconf : ∀ b ∈ rev, BlkConf S b)
    (hre : ∀ b, rev.head? = some b → ∀ w ∈ b.txns ++ b.v2txns, ∀ i ∈ w.inputs, i.elem ∉ spentOf (K1 ++ K2)) :
    Carried S (reorg p rev app flags) (carryApp app (K1, K2)).1 (carryApp app (K1, K2)).2 := by
  have h1 := Carried.revertLeg rev h hrev
  have h2 := Carried.applyLeg app h1 (by rw [revertLeg_led]; exact happ)
  have hc := reorg_conf rev app flags h.conf hconf
  unfold Verif.Pool.reorg reorgEnd at hc ⊢
  cases hh : rev.head? with
  | none =>
    rw [hh] at hc
    refine ⟨hc, ⟨h2.lists.nodup1, h2.lists.nodup2, h2.lists.spent⟩, h2.sub1, h2.sub2, h2.robust, ?_⟩
    intro w hw i hi
    simp only [List.mem_append] at hw
    rcases hw with hw | hw
    · exact h2.reoffer w (List.mem_append_left _ hw) i hi
    · obtain ⟨u, hu, e⟩ := zipBad_inputs _ _ w hw
      have : i.elem ∈ u.inputs.map (·.elem) := e ▸ List.mem_map_of_mem hi
      obtain ⟨j, hj, ej⟩ := List.mem_map.1 this
      rw [← ej]
      exact h2.reoffer u (List.mem_append_right _ hu) j hj
  | some b =>
    rw [hh] at hc
    refine ⟨hc, ⟨h2.lists.nodup1, h2.lists.nodup2, h2.lists.spent⟩, h2.sub1, h2.sub2, h2.robust, ?_⟩
    intro w hw i hi hm
    have hm' := spentOf_carryApp_sub app K1 K2 _ hm
    simp only [List.mem_append] at hw
    rcases hw with hw | hw
    · exact hre b hh w (List.mem_append_left _ (List.mem_filter.1 hw).1) i hi hm'
    · obtain ⟨u, hu, e⟩ := zipBad_inputs _ _ w hw
      have : i.elem ∈ u.inputs.map (·.elem) := e ▸ List.mem_map_of_mem hi
      obtain ⟨j, hj, ej⟩ := List.mem_map.1 this
      rw [← ej] at hm'
      exact hre b hh u (List.mem_append_right _ (List.mem_filter.1 hu).1) j hj hm'

/-! ## observations -/

/-- once re-validated, nothing is remembered for re-offer any more (repaired code) -/
def LRInv (p : Pool) : Prop := p.ms.isSome = true → p.lastReverted = [] ∧ p.lastRevertedV2 = []

theorem Carried.others {S p K1 K2} (h : Carried S p K1 K2) :
    (∀ x ∈ p.txns, x ∉ K1 → ∀ i ∈ x.inputs, i.elem ∉ spentOf (K1 ++ K2)) ∧
    (∀ x ∈ p.v2txns, x ∉ K2 → ∀ i ∈ x.inputs, i.elem ∉ spentOf (K1 ++ K2)) := by
  have hs : (K1 ++ K2).Sublist (p.txns ++ p.v2txns) := List.Sublist.append h.sub1 h.sub2
  constructor
  · intro x hx hxK
    apply others_disjoint hs h.lists.spent x (List.mem_append_left _ hx)
    intro hm
    rcases List.mem_append.1 hm with hm | hm
    · exact hxK hm
    · exact Conf.kind_ne (h.conf.t1 x hx) (h.conf.t2 x (h.sub2.subset hm)) rfl
  · intro x hx hxK
    apply others_disjoint hs h.lists.spent x (List.mem_append_right _ hx)
    intro hm
    rcases List.mem_append.1 hm with hm | hm
    · exact Conf.kind_ne (h.conf.t1 x (h.sub1.subset hm)) (h.conf.t2 x hx) rfl
    · exact hxK hm

/-- **an observation** (`revalidatePool`): unless the pool is full, the set is still there -/
theorem Carried.observe {cfg S p K1 K2} (h : Carried S p K1 K2) (hinv : InvV cfg S p)
    (hfull : p.weight < cfg.maxWeight * 10)
    (hr1 : ∀ k ∈ K1, rulesOk cfg p.led false k = true) (hr2 : ∀ k ∈ K2, rulesOk cfg p.led true k = true) :
    Carried S (revalidate cfg p) K1 K2 := by
  unfold revalidate
  split
  · exact h
  · rw [if_neg (by omega)]
    obtain ⟨o1, o2⟩ := h.others
    have hk := rebuild_retains cfg S p K1 K2
      ⟨h.conf, h.sub1, h.sub2, h.robust, hr1, hr2, h.lists.nodup1, h.lists.nodup2, o1, o2, h.reoffer⟩
    exact ⟨rebuild_conf h.conf, ListsOK.of_good (rebuild_idxOK cfg p) (rebuild_valid cfg p), hk.1, hk.2, h.robust,
      by intro w hw; simp [rebuild] at hw⟩

theorem Carried.of_outcome {cfg S v2 p set r K1 K2} (h : Carried S p K1 K2) (ho : AddOutcome cfg v2 p set r)
    (hs : ∀ t ∈ set, Conf S v2 t) (hl : ListsOK r.1) : Carried S r.1 K1 K2 := by
  have hc := ho.conf h.conf hs
  cases ho with
  | invalid _ => exact h
  | known _ _ => exact h
  | conflict p' _ _ h1 h2 _ _ h3 h4 h5 _ =>
    exact ⟨hc, hl, h1 ▸ h.sub1, h2 ▸ h.sub2, h3 ▸ h.robust, by rw [h4, h5]; exact h.reoffer⟩
  | added p' new _ h1 h2 _ _ _ _ _ _ h3 h4 h5 _ _ =>
    refine ⟨hc, hl, ?_, ?_, h3 ▸ h.robust, by rw [h4, h5]; exact h.reoffer⟩
    · cases v2
      · simp only [own, Bool.false_eq_true, ↓reduceIte] at h1
        rw [h1]; exact h.sub1.trans (List.sublist_append_left _ _)
      · simp only [other, ↓reduceIte] at h2
        rw [h2]; exact h.sub1
    · cases v2
      · simp only [other, Bool.false_eq_true, ↓reduceIte] at h2
        rw [h2]; exact h.sub2
      · simp only [own, ↓reduceIte] at h1
        rw [h1]; exact h.sub2.trans (List.sublist_append_left _ _)

/-! ## histories -/

/-- what is left of the tracked set after an operation: a reorg removes the members its applied
blocks confirm (and rewrites the inputs of the others that became confirmed); nothing else changes it -/
def track (K : List Txn × List Txn) : Op → List Txn × List Txn
  | .reorg _ app _ => carryApp app K
  | _ => K

/-- side conditions of an observation (any entry point that runs `revalidatePool`): the pool is
not full (no eviction for low fees) and the tip is in a rule regime in which the members are
allowed (`ok`, v1 signature era, v1/v2 height windows) -/
def ObsOK (cfg : Cfg) (p : Pool) (K1 K2 : List Txn) : Prop :=
  p.weight < cfg.maxWeight * 10 ∧ (∀ k ∈ K1, rulesOk cfg p.led false k = true) ∧
    (∀ k ∈ K2, rulesOk cfg p.led true k = true)

/-- side conditions of one operation for the tracked set -/
def OpSafe (cfg : Cfg) (p : Pool) (K1 K2 : List Txn) : Op → Prop
  | .reorg rev app _ =>
    RevPathOK p.led rev K1 K2 ∧ AppPathOK (rev.foldl Ledger.revert p.led) app K1 K2 ∧
    (∀ b, rev.head? = some b → ∀ w ∈ b.txns ++ b.v2txns, ∀ i ∈ w.inputs, i.elem ∉ spentOf (K1 ++ K2))
  | _ => ObsOK cfg p K1 K2

/-- … of a whole history, each operation judged in the state and for the set it meets -/
def Safe (cfg : Cfg) : Pool → List Txn × List Txn → List Op → Prop
  | _, _, [] => True
  | p, K, op :: ops => OpSafe cfg p K.1 K.2 op ∧ Safe cfg (step cfg p op) (track K op) ops

theorem outcome_lists {cfg S v2 p set} (hms : p.ms.isSome = true) (hl : ListsOK p) (hv : Valid cfg p) (hi : IdxOK p)
    (hc : PoolConf S p) (hs : ∀ t ∈ set, Conf S v2 t) : ListsOK (addSet cfg v2 p set).1 := by
  have ho := addSet_outcome cfg v2 p set hms
  by_cases hm : (addSet cfg v2 p set).1.ms.isSome = true
  · exact ListsOK.of_good (ho.inv hi hm) (addSet_valid cfg S v2 p set hv hi hc hs hm)
  · generalize addSet cfg v2 p set = r at ho hm
    cases ho with
    | invalid _ => exact hl
    | known _ _ => exact hl
    | conflict p' _ _ h1 h2 _ _ _ _ _ _ => exact ⟨h1 ▸ hl.nodup1, h2 ▸ hl.nodup2, by rw [h1, h2]; exact hl.spent⟩
    | added p' new _ _ _ _ _ _ _ _ _ _ _ _ hms' _ => exact absurd hms' hm

theorem outcome_lr {cfg v2 p set r} (ho : AddOutcome cfg v2 p set r) (h : p.lastReverted = [] ∧ p.lastRevertedV2 = []) :
    r.1.lastReverted = [] ∧ r.1.lastRevertedV2 = [] := by
  cases ho with
  | invalid _ => exact h
  | known _ _ => exact h
  | conflict p' _ _ _ _ _ _ _ h4 h5 _ => exact ⟨h4 ▸ h.1, h5 ▸ h.2⟩
  | added p' new _ _ _ _ _ _ _ _ _ _ h4 h5 _ _ => exact ⟨h4 ▸ h.1, h5 ▸ h.2⟩

theorem revalidate_lr {cfg : Cfg} {p : Pool} (h : LRInv p) :
    (revalidate cfg p).lastReverted = [] ∧ (revalidate cfg p).lastRevertedV2 = [] := by
  unfold revalidate
  split
  · rename_i hc; simp at hc; exact h hc.1
  · exact ⟨rfl, rfl⟩

theorem step_lrinv (cfg : Cfg) (p : Pool) (h : LRInv p) (op : Op) : LRInv (step cfg p op) := by
  cases op with
  | reorg rev app flags => intro hc; simp [step, reorg_ms] at hc
  | addV1 set => exact fun _ => outcome_lr (addSet_outcome cfg false _ set (revalidate_ms cfg p)) (revalidate_lr h)
  | addV2 path set =>
    simp only [step, addV2PoolTransactions]
    cases rebase cfg set path with
    | none => exact fun _ => revalidate_lr h
    | some set' => exact fun _ => outcome_lr (addSet_outcome cfg true _ set' (revalidate_ms cfg p)) (revalidate_lr h)
  | query => exact fun _ => revalidate_lr h

/-- **one operation** -/
theorem step_carried {cfg S p} {K : List Txn × List Txn} (hinv : InvV cfg S p) (h : Carried S p K.1 K.2)
    (op : Op) (hop : OpConf S op) (hs : OpSafe cfg p K.1 K.2 op) :
    Carried S (step cfg p op) (track K op).1 (track K op).2 := by
  obtain ⟨gc, gi, gv⟩ := revalidate_good hinv
  cases op with
  | reorg rev app flags => exact h.reorg rev app flags hs.1 hs.2.1 hop hs.2.2
  | query => exact h.observe hinv hs.1 hs.2.1 hs.2.2
  | addV1 set =>
    have h1 := h.observe hinv hs.1 hs.2.1 hs.2.2
    exact h1.of_outcome (addSet_outcome cfg false _ set (revalidate_ms cfg p)) hop
      (outcome_lists (revalidate_ms cfg p) h1.lists gv gi gc hop)
  | addV2 path set =>
    have h1 := h.observe hinv hs.1 hs.2.1 hs.2.2
    simp only [step, addV2PoolTransactions, track]
    cases hr : rebase cfg set path with
    | none => exact h1
    | some set' =>
      have hs' := rebase_conf set path set' hr hop
      exact h1.of_outcome (addSet_outcome cfg true _ set' (revalidate_ms cfg p)) hs'
        (outcome_lists (revalidate_ms cfg p) h1.lists gv gi gc hs')

/-- **any history**: the tracked set is carried through all of it -/
theorem run_carried {cfg S} : ∀ (ops : List Op) (p : Pool) (K : List Txn × List Txn),
    InvV cfg S p → Carried S p K.1 K.2 → (∀ op ∈ ops, OpConf S op) → Safe cfg p K ops →
    Carried S (run cfg p ops) (ops.foldl track K).1 (ops.foldl track K).2 ∧ InvV cfg S (run cfg p ops)
  | [], _, _, hi, h, _, _ => ⟨h, hi⟩
  | op :: ops, p, K, hi, h, hops, hs =>
    run_carried ops (step cfg p op) (track K op) (step_invV hi op (hops op (by simp)))
      (step_carried hi h op (hops op (by simp)) hs.1) (fun o ho => hops o (by simp [ho])) hs.2

theorem run_lrinv (cfg : Cfg) : ∀ (ops : List Op) (p : Pool), LRInv p → LRInv (run cfg p ops)
  | [], _, h => h
  | op :: ops, p, h => run_lrinv cfg ops _ (step_lrinv cfg p h op)

/-! ## where self-valid sets come from -/

/-- the whole reported pool is self-valid -/
theorem Valid.robust {cfg : Cfg} {p : Pool} (h : Valid cfg p) : Robust p.led p.txns p.v2txns := by
  have h1 := h.v1; have h2 := h.v2
  rw [seqValid_split, Bool.and_eq_true] at h1 h2
  exact ⟨h1.2, h2.2⟩

theorem Valid.rules {cfg : Cfg} {p : Pool} (h : Valid cfg p) :
    (∀ k ∈ p.txns, rulesOk cfg p.led false k = true) ∧ (∀ k ∈ p.v2txns, rulesOk cfg p.led true k = true) := by
  have h1 := h.v1; have h2 := h.v2
  rw [seqValid_split, Bool.and_eq_true] at h1 h2
  exact ⟨List.all_eq_true.1 h1.1, List.all_eq_true.1 h2.1⟩

/-- a sub-sequence `K` of a valid sequence `P` that contains every transaction of `P` creating a
needed element (`N`: at least everything `K` spends) is valid on its own; and whatever needed
element `P` creates, `K` creates -/
theorem seqInp_closed (l : Ledger) (v : Bool) (N : Nat → Prop) : ∀ {P K : List Txn} (mp mk : MidState), K.Sublist P →
    (P.map (·.id)).Nodup → seqInp l v mp P = true →
    (∀ e, e ∈ mk.spent → e ∈ mp.spent) →
    (∀ e, e ∈ mp.created → N e → e ∈ mk.created) →
    (∀ e ∈ spentOf K, N e) →
    (∀ c ∈ P, ∀ e ∈ c.outputs, N e → c ∈ K) →
    seqInp l v mk K = true ∧ (∀ e, e ∈ (msOf mk K).spent → e ∈ (msOf mp P).spent) ∧
      (∀ e, e ∈ (msOf mp P).created → N e → e ∈ (msOf mk K).created)
  | [], K, mp, mk, hs, _, _, hsp, hcr, _, _ => by
    have : K = [] := List.sublist_nil.1 hs
    subst this
    exact ⟨rfl, by simpa [msOf] using hsp, by simpa [msOf] using hcr⟩
  | x :: P, K, mp, mk, hs, hnd, hv, hsp, hcr, hN, hcl => by
    simp only [List.map_cons, List.nodup_cons] at hnd
    simp only [seqInp, Bool.and_eq_true] at hv
    cases hs with
    | cons _ hs' =>
      have hxK : x ∉ K := fun hm => hnd.1 (List.mem_map_of_mem (hs'.subset hm))
      obtain ⟨r1, r2, r3⟩ := seqInp_closed l v N (applyTx mp x) mk hs' hnd.2 hv.2
        (fun e he => by simp only [applyTx, List.mem_append]; exact Or.inr (hsp e he))
        (by
          intro e he hne
          simp only [applyTx, List.mem_append] at he
          rcases he with he | he
          · exact absurd (hcl x (by simp) e he hne) hxK
          · exact hcr e he hne)
        hN
        (fun c hc e he hne => hcl c (List.mem_cons_of_mem _ hc) e he hne)
      exact ⟨r1, by simpa [msOf] using r2, by simpa [msOf] using r3⟩
    | cons_cons _ hs' =>
      rename_i K'
      have hin : inputsOk l mk.created v mk.spent x.inputs = true := by
        apply inputsOk_weaken l mp.created mk.created v x.inputs mp.spent mk.spent hv.1
        · intro i _ hm; exact hsp _ hm
        · intro i hi hres
          unfold inpRes at hres ⊢
          have key : mp.created.contains i.elem = true → mk.created.contains i.elem = true := by
            intro hc
            simp only [List.contains_eq_mem, decide_eq_true_eq] at hc ⊢
            exact hcr _ hc (hN _ (by rw [spentOf_cons]; exact List.mem_append_left _ (List.mem_map_of_mem hi)))
          cases v
          · simp only [Bool.false_eq_true, ↓reduceIte, Bool.or_eq_true] at hres ⊢
            rcases hres with h' | h'
            · exact Or.inl (key h')
            · exact Or.inr h'
          · simp only [↓reduceIte] at hres ⊢
            cases hl : i.leaf with
            | none => rw [hl] at hres; exact key hres
            | some lf => rw [hl] at hres; exact hres
      obtain ⟨r1, r2, r3⟩ := seqInp_closed l v N (applyTx mp x) (applyTx mk x) hs' hnd.2 hv.2
        (by
          intro e he
          simp only [applyTx, List.mem_append, List.mem_reverse] at he ⊢
          rcases he with he | he
          · exact Or.inl he
          · exact Or.inr (hsp e he))
        (by
          intro e he hne
          simp only [applyTx, List.mem_append] at he ⊢
          rcases he with he | he
          · exact Or.inl he
          · exact Or.inr (hcr e he hne))
        (fun e he => hN e (by rw [spentOf_cons]; exact List.mem_append_right _ he))
        (by
          intro c hc e he hne
          have := hcl c (List.mem_cons_of_mem _ hc) e he hne
          rcases List.mem_cons.1 this with e' | h'
          · exact absurd (e' ▸ hc) (fun hm => hnd.1 (List.mem_map_of_mem hm))
          · exact h')
      simp only [seqInp, Bool.and_eq_true, msOf]
      exact ⟨⟨hin, r1⟩, r2, r3⟩

/-- **ancestor-closed sets are self-valid**: `K1 ⊆ v1 slice`, `K2 ⊆ v2 slice` such that every
pooled transaction creating an input of a member is itself a member -/
theorem robust_of_closed {cfg : Cfg} {p : Pool} (hv : Valid cfg p) (hi : IdxOK p) {K1 K2 : List Txn}
    (h1 : K1.Sublist p.txns) (h2 : K2.Sublist p.v2txns)
    (hc1 : ∀ c ∈ p.txns, ∀ e ∈ c.outputs, e ∈ spentOf (K1 ++ K2) → c ∈ K1)
    (hc2 : ∀ c ∈ p.v2txns, ∀ e ∈ c.outputs, e ∈ spentOf (K1 ++ K2) → c ∈ K2) :
    Robust p.led K1 K2 := by
  obtain ⟨r1, r2⟩ := hv.robust
  obtain ⟨a1, a2, a3⟩ := seqInp_closed p.led false (fun e => e ∈ spentOf (K1 ++ K2)) MidState.empty MidState.empty
    h1 hi.nodup1 r1 (fun _ h => h) (fun _ h _ => h)
    (fun e he => by rw [spentOf_append]; exact List.mem_append_left _ he) hc1
  obtain ⟨b1, _, _⟩ := seqInp_closed p.led true (fun e => e ∈ spentOf (K1 ++ K2)) (msOf MidState.empty p.txns)
    (msOf MidState.empty K1) h2 hi.nodup2 r2 a2 a3
    (fun e he => by rw [spentOf_append]; exact List.mem_append_right _ he) hc2
  exact ⟨a1, b1⟩

/-! ## bookkeeping for the statements in `Props/C05.lean` -/

theorem run_append (cfg : Cfg) (p : Pool) (a b : List Op) : run cfg p (a ++ b) = run cfg (run cfg p a) b := by
  simp [run, List.foldl_append]

theorem foldl_track_query (K : List Txn × List Txn) (ops : List Op) :
    (ops ++ [Op.query]).foldl track K = ops.foldl track K := by
  simp [List.foldl_append, track]

/-- applied blocks of a history, in order -/
def appliedBlocks : List Op → List Blk
  | [] => []
  | .reorg _ app _ :: ops => app ++ appliedBlocks ops
  | _ :: ops => appliedBlocks ops

theorem carryApp_ids2 : ∀ (app : List Blk) (K : List Txn × List Txn) (k : Txn), k ∈ K.2 →
    (∀ b ∈ app, k.id ∉ conf2 b) → ∃ k' ∈ (carryApp app K).2, k'.id = k.id
  | [], _, k, hk, _ => ⟨k, hk, rfl⟩
  | b :: bs, K, k, hk, hn => by
    have hm : mapInputs (confirmInp b.created) k ∈ carryA2 b K.2 := by
      unfold carryA2
      apply List.mem_map_of_mem
      rw [List.mem_filter]
      exact ⟨hk, by simpa [keepA2] using hn b (by simp)⟩
    obtain ⟨k', hk', e⟩ := carryApp_ids2 bs (carryA1 b K.1, carryA2 b K.2) _ hm (fun b' hb' => hn b' (by simp [hb']))
    exact ⟨k', hk', e⟩

theorem carryApp_ids1 : ∀ (app : List Blk) (K : List Txn × List Txn) (k : Txn), k ∈ K.1 →
    (∀ b ∈ app, k.id ∉ conf1 b) → k ∈ (carryApp app K).1
  | [], _, _, hk, _ => hk
  | b :: bs, K, k, hk, hn => by
    apply carryApp_ids1 bs (carryA1 b K.1, carryA2 b K.2) k ?_ (fun b' hb' => hn b' (by simp [hb']))
    unfold carryA1
    rw [List.mem_filter]
    exact ⟨hk, by simpa [keepA1] using hn b (by simp)⟩

theorem track_ids2 : ∀ (ops : List Op) (K : List Txn × List Txn) (k : Txn), k ∈ K.2 →
    (∀ b ∈ appliedBlocks ops, k.id ∉ conf2 b) → ∃ k' ∈ (ops.foldl track K).2, k'.id = k.id
  | [], _, k, hk, _ => ⟨k, hk, rfl⟩
  | op :: ops, K, k, hk, hn => by
    cases op with
    | reorg rev app flags =>
      obtain ⟨k1, hk1, e1⟩ := carryApp_ids2 app K k hk (fun b hb => hn b (by simp [appliedBlocks, hb]))
      obtain ⟨k2, hk2, e2⟩ := track_ids2 ops (carryApp app K) k1 hk1
        (fun b hb => by rw [e1]; exact hn b (by simp [appliedBlocks, hb]))
      exact ⟨k2, hk2, e2.trans e1⟩
    | addV1 set => exact track_ids2 ops K k hk (fun b hb => hn b (by simpa [appliedBlocks] using hb))
    | addV2 path set => exact track_ids2 ops K k hk (fun b hb => hn b (by simpa [appliedBlocks] using hb))
    | query => exact track_ids2 ops K k hk (fun b hb => hn b (by simpa [appliedBlocks] using hb))

theorem track_ids1 : ∀ (ops : List Op) (K : List Txn × List Txn) (k : Txn), k ∈ K.1 →
    (∀ b ∈ appliedBlocks ops, k.id ∉ conf1 b) → k ∈ (ops.foldl track K).1
  | [], _, _, hk, _ => hk
  | op :: ops, K, k, hk, hn => by
    cases op with
    | reorg rev app flags =>
      exact track_ids1 ops (carryApp app K) k (carryApp_ids1 app K k hk (fun b hb => hn b (by simp [appliedBlocks, hb])))
        (fun b hb => hn b (by simp [appliedBlocks, hb]))
    | addV1 set => exact track_ids1 ops K k hk (fun b hb => hn b (by simpa [appliedBlocks] using hb))
    | addV2 path set => exact track_ids1 ops K k hk (fun b hb => hn b (by simpa [appliedBlocks] using hb))
    | query => exact track_ids1 ops K k hk (fun b hb => hn b (by simpa [appliedBlocks] using hb))

/-! ## a rejected set leaves nothing behind, also not for the next re-validation -/

theorem seqValid_false_of_not_ok (cfg : Cfg) (l : Ledger) (v2 : Bool) : ∀ (set : List Txn) (ms : MidState) (t : Txn),
    t ∈ set → t.ok = false → seqValid cfg l v2 ms set = false
  | [], _, _, h, _ => by cases h
  | u :: set, ms, t, h, hok => by
    rw [seqValid]
    rcases List.mem_cons.1 h with rfl | h'
    · simp [txValid, hok]
    · rw [seqValid_false_of_not_ok cfg l v2 set _ t h' hok]; simp

theorem refill_kept_sublist (cfg : Cfg) (l : Ledger) (v2 : Bool) : ∀ (ts : List Txn) (a : Acc),
    ∃ rest, (refill cfg l v2 a ts).kept = a.kept ++ rest ∧ rest.Sublist ts
  | [], a => ⟨[], by simp [refill], List.Sublist.slnil⟩
  | t :: ts, a => by
    obtain ⟨rest, h1, h2⟩ := refill_kept_sublist cfg l v2 ts (refillStep cfg l v2 a t)
    rw [refill]
    unfold refillStep at h1 ⊢
    split
    · rename_i hk; simp only [hk, if_true] at h1; exact ⟨rest, h1, h2.cons _⟩
    · rename_i hk
      simp only [hk, Bool.false_eq_true, if_false] at h1
      split
      · rename_i hv
        simp only [hv, if_true] at h1
        exact ⟨t :: rest, by rw [h1]; simp [push], h2.cons_cons _⟩
      · rename_i hv
        simp only [hv, Bool.false_eq_true, if_false] at h1
        exact ⟨rest, h1, h2.cons _⟩

/-- re-validating a valid, exactly indexed, non-full pool with nothing to re-offer gives the same
two slices (whatever the mid-state and the weight counter say, as long as no eviction is triggered) -/
theorem rebuild_same {cfg : Cfg} {S : Nat → Bool × List Nat × List Nat} {q p' : Pool}
    (hc : PoolConf S q) (hi : IdxOK q) (hv : Valid cfg q)
    (h1 : p'.txns = q.txns) (h2 : p'.v2txns = q.v2txns) (h3 : p'.led = q.led)
    (h4 : p'.lastReverted = []) (h5 : p'.lastRevertedV2 = []) :
    (rebuild cfg p').txns = q.txns ∧ (rebuild cfg p').v2txns = q.v2txns := by
  have hconf : PoolConf S p' := ⟨h1 ▸ hc.t1, h2 ▸ hc.t2, by rw [h4]; simp, by rw [h5]; simp⟩
  have hk := rebuild_retains cfg S p' q.txns q.v2txns
    { conf := hconf
      sub1 := by rw [h1]; exact List.Sublist.refl _
      sub2 := by rw [h2]; exact List.Sublist.refl _
      robust := by rw [h3]; exact hv.robust
      rules1 := by rw [h3]; exact hv.rules.1
      rules2 := by rw [h3]; exact hv.rules.2
      nodup1 := by rw [h1]; exact hi.nodup1
      nodup2 := by rw [h2]; exact hi.nodup2
      others1 := fun x hx hn => absurd (h1 ▸ hx) hn
      others2 := fun x hx hn => absurd (h2 ▸ hx) hn
      reoffer := by rw [h4, h5]; simp }
  obtain ⟨r1, k1, s1⟩ := refill_kept_sublist cfg p'.led false (p'.txns ++ p'.lastReverted) ⟨MidState.empty, fun _ => none, 0, []⟩
  obtain ⟨r2, k2, s2⟩ := refill_kept_sublist cfg p'.led true (p'.v2txns ++ p'.lastRevertedV2)
    { refill cfg p'.led false ⟨MidState.empty, fun _ => none, 0, []⟩ (p'.txns ++ p'.lastReverted) with kept := [] }
  have e1 : (rebuild cfg p').txns = r1 := by
    show (refill cfg p'.led false _ (p'.txns ++ p'.lastReverted)).kept = r1
    rw [k1]; rfl
  have e2 : (rebuild cfg p').v2txns = r2 := by
    show (refill cfg p'.led true _ (p'.v2txns ++ p'.lastRevertedV2)).kept = r2
    rw [k2]; rfl
  rw [h4, List.append_nil, h1] at s1
  rw [h5, List.append_nil, h2] at s2
  constructor
  · rw [e1] at hk ⊢; exact s1.eq_of_length (Nat.le_antisymm s1.length_le hk.1.length_le)
  · rw [e2] at hk ⊢; exact s2.eq_of_length (Nat.le_antisymm s2.length_le hk.2.length_le)

end Verif.Pool
